/-
C01 / meta-block writers, part 11: the size decision of `WriteMetaBlockInternal` (model
`BV.Stored.writeMetaBlockInternal`, C08) composed with the trivial / fast writers: whichever branch is taken
— stored because `should_compress` said no, compressed attempt kept, compressed attempt replaced by the stored
fallback — and with or without the separate empty last meta-block of appendable streams, the RFC reader decodes
what the call leaves in the storage to history ++ data.
-/
import BV.Lemmas.MetaBlockFast
import BV.Lemmas.HeaderGuard

namespace BV.MetaBlock
open BV.Gen BV.Bits BV.Huffman BV.PrefixArith BV.Recoder BV.HeaderSpec
open BV.Header (writeBits_ok skipPad_pad storeUncompressedMetaBlock storeUncompressedMetaBlockHeader
  writeEmptyLastMetaBlock appendBytes lit litsUnc)
open BV.Stored (nibsOf nibsOf_range encodeMlen_spec readMetaBlock_raw)

/-- header of a stored meta-block: ISLAST = 0, MNIBBLES, MLEN − 1, ISUNCOMPRESSED = 1 -/
def storedHeaderBits (len : Nat) : List Bool :=
  false :: (bitsOf 2 (nibsOf len - 4) ++ (bitsOf (4 * (4 + (nibsOf len - 4))) (len - 1) ++ [true]))

/-- zero bits up to the next byte boundary behind `n` bits -/
def padTo8 (n : Nat) : List Bool := List.replicate ((8 - n % 8) % 8) false

theorem jump_hdr (w : Writer) : BV.Header.jumpToByteBoundary w = w ++ padTo8 w.length := by
  rw [BV.Header.jump_eq]; rfl

theorem storedHeader_ok (len : Nat) (w : Writer) (h1 : 1 ≤ len) (h2 : len ≤ 2 ^ 24) :
    storeUncompressedMetaBlockHeader len w = .ok (w ++ storedHeaderBits len) := by
  obtain ⟨n4, n6⟩ := nibsOf_range len
  have hx : len - 1 < 2 ^ (4 * nibsOf len) := by
    simp only [nibsOf]
    split
    · show _ < 2 ^ 16; omega
    · split
      · show _ < 2 ^ 20; omega
      · show _ < 2 ^ 24; omega
  simp only [storeUncompressedMetaBlockHeader, lit, litsUnc,
    BV.Gen.lits_StoreUncompressedMetaBlockHeader, List.getD_cons_zero, List.getD_cons_succ,
    encodeMlen_spec len h1 h2]
  rw [writeBits_ok 1 0 w (by decide) (by decide)]
  simp only [Out.bind_ok]
  rw [writeBits_ok 2 (nibsOf len - 4) _ (by omega) (by decide)]
  simp only [Out.bind_ok]
  have hm : 4 * nibsOf len % 256 = 4 * nibsOf len := by omega
  rw [hm, writeBits_ok (4 * nibsOf len) (len - 1) _ hx (by omega)]
  simp only [Out.bind_ok]
  rw [writeBits_ok 1 1 _ (by decide) (by decide)]
  have e : 4 + (nibsOf len - 4) = nibsOf len := by omega
  simp [storedHeaderBits, bitsOf, e, List.append_assoc]

/-- the bits of a stored meta-block that is not marked last -/
def storedBits (data : List Nat) (pos : Nat) : List Bool :=
  storedHeaderBits data.length ++ (padTo8 (pos + (storedHeaderBits data.length).length) ++ data.flatMap (bitsOf 8))

theorem storedHeaderBits_length (len : Nat) : (storedHeaderBits len).length = 1 + 2 + 4 * (4 + (nibsOf len - 4)) + 1 := by
  simp [storedHeaderBits, BV.Header.length_bitsOf]; omega

theorem stored_false_ok (data : List Nat) (w : Writer) (h1 : 1 ≤ data.length) (h2 : data.length ≤ 2 ^ 24) :
    storeUncompressedMetaBlock false data w = .ok (w ++ storedBits data w.length) := by
  simp only [storeUncompressedMetaBlock, storedHeader_ok data.length w h1 h2, Out.bind_ok, Bool.false_eq_true,
    if_false, jump_hdr, appendBytes, storedBits, List.length_append, List.append_assoc]

theorem flatMap_bits_length (l : List Nat) : (l.flatMap (bitsOf 8)).length = 8 * l.length := by
  induction l with
  | nil => rfl
  | cons x xs ih => simp only [List.flatMap_cons, List.length_append, BV.Header.length_bitsOf, ih, List.length_cons]; omega

/-- the §9.2 reader on a stored meta-block: the payload bytes -/
theorem stored_read (data : List Nat) (pos : Nat) (rest : List Bool) (h1 : 1 ≤ data.length)
    (h2 : data.length ≤ 2 ^ 24) (hb : ∀ b ∈ data, b < 256) :
    readMetaBlock pos (storedBits data pos ++ rest)
      = some (MetaBlock.raw data, pos + (storedBits data pos).length, rest) := by
  obtain ⟨n4, n6⟩ := nibsOf_range data.length
  have hx : data.length - 1 < 2 ^ (4 * (4 + (nibsOf data.length - 4))) := by
    have e : 4 + (nibsOf data.length - 4) = nibsOf data.length := by omega
    rw [e]
    simp only [nibsOf]
    split
    · show _ < 2 ^ 16; omega
    · split
      · show _ < 2 ^ 20; omega
      · show _ < 2 ^ 24; omega
  have hnz : ¬ (4 + (nibsOf data.length - 4) > 4 ∧
      (data.length - 1) / 2 ^ (4 * (4 + (nibsOf data.length - 4) - 1)) = 0) := by
    rintro ⟨a, b⟩
    have hp : 0 < 2 ^ (4 * (4 + (nibsOf data.length - 4) - 1)) := Nat.pow_pos (by decide)
    have hlt := (Nat.div_eq_zero_iff_lt hp).mp b
    simp only [nibsOf] at a hlt
    split at a
    · omega
    · split at hlt
      · omega
      · rename_i c16 _
        split at hlt
        · have : (2 : Nat) ^ (4 * (4 + (5 - 4) - 1)) = 2 ^ 16 := by decide
          rw [this] at hlt; omega
        · rename_i c20
          have : (2 : Nat) ^ (4 * (4 + (6 - 4) - 1)) = 2 ^ 20 := by decide
          rw [this] at hlt; omega
  have hl := storedHeaderBits_length data.length
  have := readMetaBlock_raw pos (nibsOf data.length - 4) (data.length - 1) data rest (by omega) hx hnz (by omega) hb
  unfold storedBits storedHeaderBits padTo8
  simp only [List.append_assoc, List.cons_append, List.nil_append, List.length_cons, List.length_append,
    BV.Header.length_bitsOf, List.length_nil, List.length_replicate]
  have e1 : pos + (2 + (4 * (4 + (nibsOf data.length - 4)) + (0 + 1)) + 1)
      = pos + 1 + 2 + 4 * (4 + (nibsOf data.length - 4)) + 1 := by omega
  rw [e1, this]
  have hfl := flatMap_bits_length data
  rw [hfl]
  congr 3
  omega

end BV.MetaBlock

namespace BV.MetaBlock
open BV.Gen BV.Bits BV.Huffman BV.PrefixArith BV.Recoder BV.HeaderSpec
open BV.Header (writeBits_ok skipPad_pad storeUncompressedMetaBlock storeUncompressedMetaBlockHeader
  writeEmptyLastMetaBlock appendBytes lit litsUnc)
open BV.Stored (writeMetaBlockInternal MbOracle MbOut litsWmbi)

/-- a piece of the stream that the RFC reader, started at bit position `pos` in decoder state `s`, consumes
exactly, ending at `pos'` in state `s'` (whatever follows) -/
def ReadsTo (wo : WordOracle) (window : Nat) (large : Bool) (pos : Nat) (s : RdSt) (bits : List Bool)
    (last : Bool) (pos' : Nat) (s' : RdSt) : Prop :=
  ∀ rest, readMetaBlockFull wo window large pos s (bits ++ rest) = some (s', last, pos', rest)

/-- the empty last meta-block: ISLAST = 1, ISLASTEMPTY = 1, padding -/
def emptyLastBits (pos : Nat) : List Bool := [true, true] ++ padTo8 (pos + 2)

theorem writeEmptyLast_ok (w : Writer) : writeEmptyLastMetaBlock w = .ok (w ++ emptyLastBits w.length) := by
  simp only [writeEmptyLastMetaBlock, lit, BV.Gen.lits_WriteEmptyLastMetaBlock, List.getD_cons_zero,
    List.getD_cons_succ]
  rw [writeBits_ok 1 1 w (by decide) (by decide)]
  simp only [Out.bind_ok]
  rw [writeBits_ok 1 1 _ (by decide) (by decide)]
  simp only [Out.bind_ok, jump_hdr, emptyLastBits]
  simp [bitsOf, List.append_assoc]

theorem emptyLast_reads (wo : WordOracle) (window : Nat) (large : Bool) (pos : Nat) (s : RdSt) :
    ReadsTo wo window large pos s (emptyLastBits pos) true (pos + (emptyLastBits pos).length) s := by
  intro rest
  have h : readMetaBlock pos (true :: true :: (List.replicate ((8 - (pos + 2) % 8) % 8) false ++ rest))
      = some (MetaBlock.lastEmpty, pos + 2 + (8 - (pos + 2) % 8) % 8, rest) := by
    simp [readMetaBlock, skipPad_pad]
  unfold readMetaBlockFull emptyLastBits padTo8
  simp only [List.append_assoc, List.cons_append, List.nil_append, h]
  simp
  omega

theorem stored_true_ok (data : List Nat) (w : Writer) (h1 : 1 ≤ data.length) (h2 : data.length ≤ 2 ^ 24) :
    storeUncompressedMetaBlock true data w
      = .ok (w ++ (storedBits data w.length ++ emptyLastBits (w.length + (storedBits data w.length).length))) := by
  have hf := stored_false_ok data w h1 h2
  simp only [storeUncompressedMetaBlock, Bool.false_eq_true, if_false] at hf
  simp only [storeUncompressedMetaBlock, if_true, lit, BV.Gen.lits_store_uncompressed_meta_block,
    List.getD_cons_zero, List.getD_cons_succ]
  cases hh : storeUncompressedMetaBlockHeader data.length w with
  | panic => rw [hh] at hf; simp at hf
  | fuel => rw [hh] at hf; simp at hf
  | ok w1 =>
    rw [hh] at hf
    simp only [Out.bind_ok] at hf ⊢
    injection hf with hf
    rw [hf, writeBits_ok 1 1 _ (by decide) (by decide)]
    simp only [Out.bind_ok]
    rw [writeBits_ok 1 1 _ (by decide) (by decide)]
    simp only [Out.bind_ok, jump_hdr, emptyLastBits]
    simp [bitsOf, List.append_assoc, Nat.add_assoc]

theorem stored_reads (wo : WordOracle) (window : Nat) (large : Bool) (data : List Nat) (pos : Nat) (s : RdSt)
    (h1 : 1 ≤ data.length) (h2 : data.length ≤ 2 ^ 24) (hb : ∀ b ∈ data, b < 256) :
    ReadsTo wo window large pos s (storedBits data pos) false (pos + (storedBits data pos).length)
      ⟨s.out ++ data, s.ring⟩ := by
  intro rest
  unfold readMetaBlockFull
  rw [stored_read data pos rest h1 h2 hb]

/-- two consecutive pieces, the first not last -/
theorem readMetaBlocks_two (wo : WordOracle) (window : Nat) (large : Bool) (pos p1 p2 : Nat) (s s1 s2 : RdSt)
    (b1 b2 rest : List Bool) (f : Nat) (h1 : ReadsTo wo window large pos s b1 false p1 s1)
    (h2 : ReadsTo wo window large p1 s1 b2 true p2 s2) :
    readMetaBlocks wo window large (f + 2) pos s (b1 ++ (b2 ++ rest)) = some (s2, rest) := by
  simp only [readMetaBlocks, h1 (b2 ++ rest), h2 rest]

theorem readMetaBlocks_one (wo : WordOracle) (window : Nat) (large : Bool) (pos p1 : Nat) (s s1 : RdSt)
    (b1 rest : List Bool) (f : Nat) (h1 : ReadsTo wo window large pos s b1 true p1 s1) :
    readMetaBlocks wo window large (f + 1) pos s (b1 ++ rest) = some (s1, rest) := by
  simp only [readMetaBlocks, h1 rest]

end BV.MetaBlock

namespace BV.MetaBlock
open BV.Gen BV.Bits BV.Huffman BV.PrefixArith BV.Recoder BV.HeaderSpec
open BV.Header (writeBits_ok skipPad_pad storeUncompressedMetaBlock writeEmptyLastMetaBlock lit)
open BV.Stored (writeMetaBlockInternal MbOracle MbOut litsWmbi)

theorem obind_ok {α β : Type} (a : α) (f : α → Out β) : (Out.ok a).bind f = f a := rfl

theorem wmbi_lits : lit litsWmbi 1 = 0 ∧ lit litsWmbi 8 = 3 ∧ lit litsWmbi 17 = 4 ∧ lit litsWmbi 18 = 3 := by decide

/-- the stored branch of `WriteMetaBlockInternal`, with its closing empty last block where one is written -/
theorem wmbi_stored (wo : WordOracle) (window : Nat) (large : Bool) (appendable actualIsLast : Bool)
    (data : List Nat) (w : Writer) (s : RdSt) (h1 : 1 ≤ data.length) (h2 : data.length ≤ 2 ^ 24)
    (hb : ∀ b ∈ data, b < 256) :
    ∃ r bits, ((storeUncompressedMetaBlock false data w).bind fun b =>
        (storeUncompressedMetaBlock (if appendable then false else actualIsLast) data w).bind fun f =>
        if (if appendable then false else actualIsLast) then Out.ok ({ body := b, fin := f } : MbOut)
        else (if actualIsLast != (if appendable then false else actualIsLast) then
            (writeEmptyLastMetaBlock f).bind fun f' => Out.ok { body := f, fin := f' }
          else Out.ok { body := f, fin := f })) = .ok r ∧ r.fin = w ++ bits ∧
      (actualIsLast = true → ∀ rest f, readMetaBlocks wo window large (f + 2) w.length s (bits ++ rest)
        = some (⟨s.out ++ data, s.ring⟩, rest)) ∧
      (actualIsLast = false → ReadsTo wo window large w.length s bits false (w.length + bits.length)
        ⟨s.out ++ data, s.ring⟩) := by
  have hsr := stored_reads wo window large data w.length s h1 h2 hb
  have her := emptyLast_reads wo window large (w.length + (storedBits data w.length).length) ⟨s.out ++ data, s.ring⟩
  rw [stored_false_ok data w h1 h2, obind_ok]
  cases actualIsLast
  · -- not the end of the stream: one stored block
    refine ⟨⟨w ++ storedBits data w.length, w ++ storedBits data w.length⟩, storedBits data w.length, ?_, rfl,
      (fun h => by cases h), fun _ => hsr⟩
    simp only [Bool.false_eq_true, if_false, ite_self, stored_false_ok data w h1 h2, obind_ok, bne_self_eq_false]
  · cases appendable
    · -- the stored block is marked last: it carries its own `1,1` tail
      refine ⟨⟨w ++ storedBits data w.length,
          w ++ (storedBits data w.length ++ emptyLastBits (w.length + (storedBits data w.length).length))⟩,
        storedBits data w.length ++ emptyLastBits (w.length + (storedBits data w.length).length), ?_, rfl, ?_,
        (fun h => by cases h)⟩
      · simp only [Bool.false_eq_true, if_false, if_true, stored_true_ok data w h1 h2, obind_ok]
      · intro _ rest f
        rw [List.append_assoc]
        exact readMetaBlocks_two wo window large _ _ _ s _ _ _ _ rest f hsr her
    · -- appendable: stored block, then the separate empty last block
      refine ⟨⟨w ++ storedBits data w.length,
          w ++ storedBits data w.length ++ emptyLastBits (w ++ storedBits data w.length).length⟩,
        storedBits data w.length ++ emptyLastBits (w.length + (storedBits data w.length).length), ?_, ?_, ?_,
        (fun h => by cases h)⟩
      · simp only [if_true, Bool.false_eq_true, if_false, stored_false_ok data w h1 h2, obind_ok,
          show (true != false) = true by rfl]
        rw [writeEmptyLast_ok, obind_ok]
      · simp [List.append_assoc]
      · intro _ rest f
        rw [List.append_assoc]
        exact readMetaBlocks_two wo window large _ _ _ s _ _ _ _ rest f hsr her

/-- **`WriteMetaBlockInternal` decodes, whichever branch it takes.**  `o.attempt` = the bits of the compressed
attempt (any writer), assumed to be read by the RFC reader from state `s` to a state `s'` whose output is
`s.out ++ data` and to carry the ISLAST flag the function passes to the writer.  Then for every verdict of
`should_compress`, and whether or not the "bigger than input + 4" test replaces the attempt by the stored
representation, what the call leaves in the storage is read from `s` to a state whose output is `s.out ++ data`:
as a single non-last meta-block when the stream goes on, as the end of the stream (incl. the separate empty last
meta-block of appendable streams) when `actual_is_last`. -/
theorem wmbi_reads (wo : WordOracle) (window : Nat) (large : Bool) (appendable catable actualIsLast : Bool)
    (data : List Nat) (o : MbOracle) (w : Writer) (s s' : RdSt)
    (hcat : catable = true → appendable = true) (h1 : 1 ≤ data.length) (h2 : data.length ≤ 2 ^ 24)
    (hw : w.length < 256) (hb : ∀ b ∈ data, b < 256) (hs' : s'.out = s.out ++ data)
    (hatt : o.shouldCompress = true → ReadsTo wo window large w.length s o.attempt
      (if appendable then false else actualIsLast) (w.length + o.attempt.length) s') :
    ∃ r bits s'', writeMetaBlockInternal appendable catable actualIsLast data o w = .ok r ∧ r.fin = w ++ bits ∧
      s''.out = s.out ++ data ∧
      (actualIsLast = true → ∀ rest f, readMetaBlocks wo window large (f + 2) w.length s (bits ++ rest) = some (s'', rest)) ∧
      (actualIsLast = false → ReadsTo wo window large w.length s bits false (w.length + bits.length) s'') := by
  obtain ⟨l1, l8, l17, l18⟩ := wmbi_lits
  have hnc : (!appendable && catable) = false := by
    cases appendable <;> cases catable <;> simp at hcat ⊢
  obtain ⟨rS, bitsS, eS, fS, aS, bS⟩ := wmbi_stored wo window large appendable actualIsLast data w s h1 h2 hb
  unfold writeMetaBlockInternal
  simp only [hnc, Bool.false_eq_true, if_false, l1, show ¬ data.length = 0 by omega, l8, l17, l18]
  by_cases hsc : o.shouldCompress = true
  · simp only [hsc, Bool.not_true, Bool.false_eq_true, if_false]
    by_cases hbig : data.length + 4 + w.length >>> 3 < (w ++ o.attempt).length >>> 3
    · -- the attempt is replaced by the stored representation
      rw [if_pos hbig, if_neg (by rw [Nat.mod_eq_of_lt hw]; simp)]
      exact ⟨rS, bitsS, ⟨s.out ++ data, s.ring⟩, eS, fS, rfl, aS, bS⟩
    · -- the attempt is kept
      rw [if_neg hbig]
      have hr := hatt hsc
      cases hal : actualIsLast
      · -- the stream goes on
        subst hal
        simp only [Bool.false_eq_true, if_false, ite_self] at hr
        refine ⟨⟨w ++ o.attempt, w ++ o.attempt⟩, o.attempt, s', ?_, rfl, hs', (fun h => by cases h), fun _ => hr⟩
        simp only [Bool.false_eq_true, if_false, ite_self, bne_self_eq_false]
      · subst hal
        cases happ : appendable
        · subst happ
          simp only [Bool.false_eq_true, if_false] at hr
          refine ⟨⟨w ++ o.attempt, w ++ o.attempt⟩, o.attempt, s', ?_, rfl, hs', ?_, (fun h => by cases h)⟩
          · simp only [Bool.false_eq_true, if_false, bne_self_eq_false]
          · intro _ rest f
            exact readMetaBlocks_one wo window large _ _ s s' _ rest (f + 1) hr
        · subst happ
          simp only [if_true] at hr
          refine ⟨⟨w ++ o.attempt, w ++ o.attempt ++ emptyLastBits (w ++ o.attempt).length⟩,
            o.attempt ++ emptyLastBits (w ++ o.attempt).length, s', ?_, by simp [List.append_assoc], hs', ?_,
            (fun h => by cases h)⟩
          · simp only [if_true, show (true != false) = true by rfl]
            rw [writeEmptyLast_ok, obind_ok]
          · intro _ rest f
            rw [List.append_assoc]
            have her := emptyLast_reads wo window large (w ++ o.attempt).length s'
            rw [List.length_append] at her
            exact readMetaBlocks_two wo window large _ _ _ s s' s' _ _ rest f hr (by rw [List.length_append]; exact her)
  · -- `should_compress` said no
    have : o.shouldCompress = false := by simpa using hsc
    simp only [this, Bool.not_false, if_true]
    exact ⟨rS, bitsS, ⟨s.out ++ data, s.ring⟩, eS, fS, rfl, aS, bS⟩

end BV.MetaBlock
