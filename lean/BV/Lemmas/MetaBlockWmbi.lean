/-
C01 / meta-block writers, part 11: the size decision of `WriteMetaBlockInternal` (model
`BV.Stored.writeMetaBlockInternal`, C08) composed with the trivial / fast writers: whichever branch is taken
— stored because `should_compress` said no, compressed attempt kept, compressed attempt replaced by the stored
fallback — and with or without the separate empty last meta-block of appendable streams, the RFC reader decodes
what the call leaves in the storage to history ++ data.
-/
import BV.Lemmas.MetaBlockFast
import BV.Lemmas.HeaderGuard

namespace BV.MetaBlock
open BV.Gen BV.Bits BV.Huffman BV.PrefixArith BV.Recoder BV.HeaderSpec
open BV.Header (writeBits_ok skipPad_pad storeUncompressedMetaBlock storeUncompressedMetaBlockHeader
  writeEmptyLastMetaBlock appendBytes lit litsUnc)
open BV.Stored (nibsOf nibsOf_range encodeMlen_spec readMetaBlock_raw)

/-- header of a stored meta-block: ISLAST = 0, MNIBBLES, MLEN − 1, ISUNCOMPRESSED = 1 -/
def storedHeaderBits (len : Nat) : List Bool :=
  false :: (bitsOf 2 (nibsOf len - 4) ++ (bitsOf (4 * (4 + (nibsOf len - 4))) (len - 1) ++ [true]))

/-- zero bits up to the next byte boundary behind `n` bits -/
def padTo8 (n : Nat) : List Bool := List.replicate ((8 - n % 8) % 8) false

theorem jump_hdr (w : Writer) : BV.Header.jumpToByteBoundary w = w ++ padTo8 w.length := by
  rw [BV.Header.jump_eq]; rfl

theorem storedHeader_ok (len : Nat) (w : Writer) (h1 : 1 ≤ len) (h2 : len ≤ 2 ^ 24) :
    storeUncompressedMetaBlockHeader len w = .ok (w ++ storedHeaderBits len) := by
  obtain ⟨n4, n6⟩ := nibsOf_range len
  have hx : len - 1 < 2 ^ (4 * nibsOf len) := by
    simp only [nibsOf]
    split
    · show _ < 2 ^ 16; omega
    · split
      · show _ < 2 ^ 20; omega
      · show _ < 2 ^ 24; omega
  simp only [storeUncompressedMetaBlockHeader, lit, litsUnc,
    BV.Gen.lits_StoreUncompressedMetaBlockHeader, List.getD_cons_zero, List.getD_cons_succ,
    encodeMlen_spec len h1 h2]
  rw [writeBits_ok 1 0 w (by decide) (by decide)]
  simp only [Out.bind_ok]
  rw [writeBits_ok 2 (nibsOf len - 4) _ (by omega) (by decide)]
  simp only [Out.bind_ok]
  have hm : 4 * nibsOf len % 256 = 4 * nibsOf len := by omega
  rw [hm, writeBits_ok (4 * nibsOf len) (len - 1) _ hx (by omega)]
  simp only [Out.bind_ok]
  rw [writeBits_ok 1 1 _ (by decide) (by decide)]
  have e : 4 + (nibsOf len - 4) = nibsOf len := by omega
  simp [storedHeaderBits, bitsOf, e, List.append_assoc]

/-- the bits of a stored meta-block that is not marked last -/
def storedBits (data : List Nat) (pos : Nat) : List Bool :=
  storedHeaderBits data.length ++ (padTo8 (pos + (storedHeaderBits data.length).length) ++ data.flatMap (bitsOf 8))

theorem storedHeaderBits_length (len : Nat) : (storedHeaderBits len).length = 1 + 2 + 4 * (4 + (nibsOf len - 4)) + 1 := by
  simp [storedHeaderBits, BV.Header.length_bitsOf]; omega

theorem stored_false_ok (data : List Nat) (w : Writer) (h1 : 1 ≤ data.length) (h2 : data.length ≤ 2 ^ 24) :
    storeUncompressedMetaBlock false data w = .ok (w ++ storedBits data w.length) := by
  simp only [storeUncompressedMetaBlock, storedHeader_ok data.length w h1 h2, Out.bind_ok, Bool.false_eq_true,
    if_false, jump_hdr, appendBytes, storedBits, List.length_append, List.append_assoc]

theorem flatMap_bits_length (l : List Nat) : (l.flatMap (bitsOf 8)).length = 8 * l.length := by
  induction l with
  | nil => rfl
  | cons x xs ih => simp only [List.flatMap_cons, List.length_append, BV.Header.length_bitsOf, ih, List.length_cons]; omega

/-- the §9.2 reader on a stored meta-block: the payload bytes -/
theorem stored_read (data : List Nat) (pos : Nat) (rest : List Bool) (h1 : 1 ≤ data.length)
    (h2 : data.length ≤ 2 ^ 24) (hb : ∀ b ∈ data, b < 256) :
    readMetaBlock pos (storedBits data pos ++ rest)
      = some (MetaBlock.raw data, pos + (storedBits data pos).length, rest) := by
  obtain ⟨n4, n6⟩ := nibsOf_range data.length
  have hx : data.length - 1 < 2 ^ (4 * (4 + (nibsOf data.length - 4))) := by
    have e : 4 + (nibsOf data.length - 4) = nibsOf data.length := by omega
    rw [e]
    simp only [nibsOf]
    split
    · show _ < 2 ^ 16; omega
    · split
      · show _ < 2 ^ 20; omega
      · show _ < 2 ^ 24; omega
  have hnz : ¬ (4 + (nibsOf data.length - 4) > 4 ∧
      (data.length - 1) / 2 ^ (4 * (4 + (nibsOf data.length - 4) - 1)) = 0) := by
    rintro ⟨a, b⟩
    have hp : 0 < 2 ^ (4 * (4 + (nibsOf data.length - 4) - 1)) := Nat.pow_pos (by decide)
    have hlt := (Nat.div_eq_zero_iff_lt hp).mp b
    simp only [nibsOf] at a hlt
    split at a
    · omega
    · split at hlt
      · omega
      · rename_i c16 _
        split at hlt
        · have : (2 : Nat) ^ (4 * (4 + (5 - 4) - 1)) = 2 ^ 16 := by decide
          rw [this] at hlt; omega
        · rename_i c20
          have : (2 : Nat) ^ (4 * (4 + (6 - 4) - 1)) = 2 ^ 20 := by decide
          rw [this] at hlt; omega
  have hl := storedHeaderBits_length data.length
  have := readMetaBlock_raw pos (nibsOf data.length - 4) (data.length - 1) data rest (by omega) hx hnz (by omega) hb
  unfold storedBits storedHeaderBits padTo8
  simp only [List.append_assoc, List.cons_append, List.nil_append, List.length_cons, List.length_append,
    BV.Header.length_bitsOf, List.length_nil, List.length_replicate]
  have e1 : pos + (2 + (4 * (4 + (nibsOf data.length - 4)) + (0 + 1)) + 1)
      = pos + 1 + 2 + 4 * (4 + (nibsOf data.length - 4)) + 1 := by omega
  rw [e1, this]
  have hfl := flatMap_bits_length data
  rw [hfl]
  congr 3
  omega

end BV.MetaBlock

namespace BV.MetaBlock
open BV.Gen BV.Bits BV.Huffman BV.PrefixArith BV.Recoder BV.HeaderSpec
open BV.Header (writeBits_ok skipPad_pad storeUncompressedMetaBlock storeUncompressedMetaBlockHeader
  writeEmptyLastMetaBlock appendBytes lit litsUnc)
open BV.Stored (writeMetaBlockInternal MbOracle MbOut litsWmbi)

/-- a piece of the stream that the RFC reader, started at bit position `pos` in decoder state `s`, consumes
exactly, ending at `pos'` in state `s'` (whatever follows) -/
def ReadsTo (wo : WordOracle) (window : Nat) (large : Bool) (pos : Nat) (s : RdSt) (bits : List Bool)
    (last : Bool) (pos' : Nat) (s' : RdSt) : Prop :=
  ∀ rest, readMetaBlockFull wo window large pos s (bits ++ rest) = some (s', last, pos', rest)

/-- the empty last meta-block: ISLAST = 1, ISLASTEMPTY = 1, padding -/
def emptyLastBits (pos : Nat) : List Bool := [true, true] ++ padTo8 (pos + 2)

theorem writeEmptyLast_ok (w : Writer) : writeEmptyLastMetaBlock w = .ok (w ++ emptyLastBits w.length) := by
  simp only [writeEmptyLastMetaBlock, lit, BV.Gen.lits_WriteEmptyLastMetaBlock, List.getD_cons_zero,
    List.getD_cons_succ]
  rw [writeBits_ok 1 1 w (by decide) (by decide)]
  simp only [Out.bind_ok]
  rw [writeBits_ok 1 1 _ (by decide) (by decide)]
  simp only [Out.bind_ok, jump_hdr, emptyLastBits]
  simp [bitsOf, List.append_assoc]

theorem emptyLast_reads (wo : WordOracle) (window : Nat) (large : Bool) (pos : Nat) (s : RdSt) :
    ReadsTo wo window large pos s (emptyLastBits pos) true (pos + (emptyLastBits pos).length) s := by
  intro rest
  have h : readMetaBlock pos (true :: true :: (List.replicate ((8 - (pos + 2) % 8) % 8) false ++ rest))
      = some (MetaBlock.lastEmpty, pos + 2 + (8 - (pos + 2) % 8) % 8, rest) := by
    simp [readMetaBlock, skipPad_pad]
  unfold readMetaBlockFull emptyLastBits padTo8
  simp only [List.append_assoc, List.cons_append, List.nil_append, h]
  simp
  omega

theorem stored_true_ok (data : List Nat) (w : Writer) (h1 : 1 ≤ data.length) (h2 : data.length ≤ 2 ^ 24) :
    storeUncompressedMetaBlock true data w
      = .ok (w ++ (storedBits data w.length ++ emptyLastBits (w.length + (storedBits data w.length).length))) := by
  have hf := stored_false_ok data w h1 h2
  simp only [storeUncompressedMetaBlock, Bool.false_eq_true, if_false] at hf
  simp only [storeUncompressedMetaBlock, if_true, lit, BV.Gen.lits_store_uncompressed_meta_block,
    List.getD_cons_zero, List.getD_cons_succ]
  cases hh : storeUncompressedMetaBlockHeader data.length w with
  | panic => rw [hh] at hf; simp at hf
  | fuel => rw [hh] at hf; simp at hf
  | ok w1 =>
    rw [hh] at hf
    simp only [Out.bind_ok] at hf ⊢
    injection hf with hf
    rw [hf, writeBits_ok 1 1 _ (by decide) (by decide)]
    simp only [Out.bind_ok]
    rw [writeBits_ok 1 1 _ (by decide) (by decide)]
    simp only [Out.bind_ok, jump_hdr, emptyLastBits]
    simp [bitsOf, List.append_assoc]

theorem stored_reads (wo : WordOracle) (window : Nat) (large : Bool) (data : List Nat) (pos : Nat) (s : RdSt)
    (h1 : 1 ≤ data.length) (h2 : data.length ≤ 2 ^ 24) (hb : ∀ b ∈ data, b < 256) :
    ReadsTo wo window large pos s (storedBits data pos) false (pos + (storedBits data pos).length)
      ⟨s.out ++ data, s.ring⟩ := by
  intro rest
  unfold readMetaBlockFull
  rw [stored_read data pos rest h1 h2 hb]

/-- two consecutive pieces, the first not last -/
theorem readMetaBlocks_two (wo : WordOracle) (window : Nat) (large : Bool) (pos p1 p2 : Nat) (s s1 s2 : RdSt)
    (b1 b2 rest : List Bool) (f : Nat) (h1 : ReadsTo wo window large pos s b1 false p1 s1)
    (h2 : ReadsTo wo window large p1 s1 b2 true p2 s2) :
    readMetaBlocks wo window large (f + 2) pos s (b1 ++ (b2 ++ rest)) = some (s2, rest) := by
  simp only [readMetaBlocks, h1 (b2 ++ rest), h2 rest]

theorem readMetaBlocks_one (wo : WordOracle) (window : Nat) (large : Bool) (pos p1 : Nat) (s s1 : RdSt)
    (b1 rest : List Bool) (f : Nat) (h1 : ReadsTo wo window large pos s b1 true p1 s1) :
    readMetaBlocks wo window large (f + 1) pos s (b1 ++ rest) = some (s1, rest) := by
  simp only [readMetaBlocks, h1 rest]

end BV.MetaBlock
