/-
C08, the never-flushed stream: exact length of the payload-independent head of
a stream (`BV.Header.streamStart`) and the arithmetic that bounds the total by
`BrotliEncoderMaxCompressedSize` under two hypotheses about the payload encoder.
-/
import BV.Lemmas.HeaderStored
import BV.Lemmas.HeaderStart
namespace BV.Header
open BV.Bits BV.HeaderSpec BV.Bits.Out BV.Stored

/-! ## lengths -/

theorem jump_length (w : Writer) : (jumpToByteBoundary w).length = (w.length + 7) / 8 * 8 := by
  rw [jump_eq]; simp; omega

/-- number of base-128 bytes is the number of 7-bit digits -/
theorem loop_length_le : ∀ (fuel j v : Nat) (acc : List Nat), 0 < j → j ≤ fuel → v < 128 ^ j →
    (encodeBase128Loop fuel v acc).length ≤ acc.length + j := by
  intro fuel
  induction fuel with
  | zero => intro j v acc h1 h2; omega
  | succ fuel ih =>
    intro j v acc h1 h2 hv
    obtain ⟨e1, e2, e3, e4⟩ := b128_step v
    unfold encodeBase128Loop
    simp only [e1, e2, e3, e4]
    by_cases hz : v / 128 = 0
    · simp [hz]; omega
    · simp only [hz, ne_eq, not_false_eq_true, if_true]
      have hj : 2 ≤ j := by
        rcases Nat.lt_or_ge j 2 with h | h
        · have : j = 1 := by omega
          subst this; simp at hv; omega
        · exact h
      have hv' : v / 128 < 128 ^ (j - 1) := by
        rw [Nat.div_lt_iff_lt_mul (by decide)]
        have : 128 ^ j = 128 ^ (j - 1) * 128 := by
          rw [← Nat.pow_succ]; congr 1; omega
        omega
      have := ih (j - 1) (v / 128) (acc ++ [v % 128 ||| 128]) (by omega) (by omega) hv'
      simp at this ⊢
      omega

theorem encodeBase128_length_le (v j : Nat) (h1 : 0 < j) (h2 : j ≤ 10) (hv : v < 128 ^ j) (hv64 : v < 2 ^ 64) :
    (encodeBase128 v).length ≤ j := by
  simp only [encodeBase128, Nat.mod_eq_of_lt hv64, BV.Gen.MAX_SIZE_ENCODING]
  simpa using loop_length_le 10 j v [] h1 h2 hv

/-- header bits of the uncompressed meta-block that holds the catable prelude -/
def preludeHeaderBits (len : Nat) : List Bool := false :: (bitsOf 2 0 ++ bitsOf 16 (len - 1) ++ [true])

theorem encodeMlen_small (len : Nat) (h : len = 1 ∨ len = 2) : encodeMlen (len % 2 ^ 32) = ok (len - 1, 16, 0) := by
  rcases h with rfl | rfl <;> decide

theorem storeUncompressedHeader_small (len : Nat) (w : Writer) (h : len = 1 ∨ len = 2) :
    storeUncompressedMetaBlockHeader len w = ok (w ++ preludeHeaderBits len) := by
  simp only [storeUncompressedMetaBlockHeader, lit, litsUnc, BV.Gen.lits_StoreUncompressedMetaBlockHeader,
    List.getD_cons_zero, List.getD_cons_succ, encodeMlen_small len h]
  rw [writeBits_ok 1 0 w (by decide) (by decide)]
  simp only [Out.bind_ok]
  rw [writeBits_ok 2 0 _ (by decide) (by decide)]
  simp only [Out.bind_ok]
  rw [writeBits_ok (16 % 256) (len - 1) _ (by rcases h with rfl | rfl <;> decide) (by decide)]
  simp only [Out.bind_ok]
  rw [writeBits_ok 1 1 _ (by decide) (by decide)]
  simp [preludeHeaderBits, bitsOf]

theorem storeUncompressed_small (data : List Nat) (w : Writer) (h : data.length = 1 ∨ data.length = 2) :
    storeUncompressedMetaBlock false data w
      = ok (appendBytes data (jumpToByteBoundary (w ++ preludeHeaderBits data.length))) := by
  simp only [storeUncompressedMetaBlock, storeUncompressedHeader_small data.length w h, Out.bind_ok]
  simp

theorem preludeHeaderBits_length (len : Nat) : (preludeHeaderBits len).length = 20 := by
  simp [preludeHeaderBits]

theorem appendBytes_length (data : List Nat) (w : Writer) : (appendBytes data w).length = w.length + 8 * data.length := by
  simp only [appendBytes, List.length_append]
  congr 1
  induction data with
  | nil => rfl
  | cons b bs ih => simp [List.flatMap_cons, ih]; omega

theorem flatMap_bits_length (bs : List Nat) : (bs.flatMap (bitsOf 8)).length = 8 * bs.length := by
  induction bs with
  | nil => rfl
  | cons b bs ih => simp [List.flatMap_cons, ih]; omega

/-- bit length of the payload-independent head: window bits, then (magic) the
metadata header padded to a byte plus `4 + k` payload bytes, then (prelude) the
20 header bits of an uncompressed meta-block padded to a byte plus the bytes -/
def headLen (W : Nat) (magic : Bool) (k pre : Nat) : Nat :=
  let l1 := if magic then (W + 14 + 7) / 8 * 8 + 8 * (4 + k) else W
  if pre ≠ 0 then (l1 + 20 + 7) / 8 * 8 + 8 * pre else l1

theorem encodeDataHead_length (p : Params) (input : List Nat) (w : Writer) (r : Writer × Nat)
    (hh : p.sizeHint < 2 ^ 64) (h : encodeDataHead p input w = ok r) :
    r.2 = (if p.catable then min 2 input.length else 0) ∧
    r.1.length = headLen w.length p.magicNumber (encodeBase128 p.sizeHint).length r.2 := by
  unfold encodeDataHead at h
  rw [obind_eq_ok] at h; obtain ⟨a, h1, h⟩ := h
  simp only [] at h
  rw [obind_eq_ok] at h; obtain ⟨b, h2, h⟩ := h
  cases h
  refine ⟨rfl, ?_⟩
  have ha : a.length = if p.magicNumber then (w.length + 14 + 7) / 8 * 8 + 8 * (4 + (encodeBase128 p.sizeHint).length)
      else w.length := by
    cases hm : p.magicNumber
    · simp [hm] at h1 ⊢; cases h1; rfl
    · simp only [hm, if_true] at h1 ⊢
      rw [writeMeta_eq p w hh] at h1
      cases h1
      rw [List.length_append, flatMap_bits_length, magicPayload_length, jump_length]
      simp [magicHeaderBits]
  simp only [headLen]
  generalize hk : (if p.catable = true then min 2 input.length else 0) = k at h2 ⊢
  have hk2 : k ≤ 2 ∧ k ≤ input.length := by
    rw [← hk]; split <;> omega
  by_cases hk0 : k = 0
  · simp [hk0] at h2 ⊢
    cases h2
    rw [ha]
  · simp only [hk0, ne_eq, not_false_eq_true, if_true] at h2 ⊢
    have hl : (input.take k).length = k := by simp; omega
    rw [storeUncompressed_small _ _ (by rw [hl]; omega)] at h2
    cases h2
    rw [appendBytes_length, jump_length, hl]
    simp [preludeHeaderBits_length, ha]

theorem closeIfDone_length {w : Writer} {left k : Nat} {magic : Bool} {st : Start}
    (h : closeIfDone w left magic k = ok st) :
    st.prelude = k ∧ (st.whole = true ↔ left = 0) ∧
    st.bits.length = if left = 0 then (w.length + 2 + 7) / 8 * 8 else w.length := by
  unfold closeIfDone at h
  by_cases hl : left = 0
  · simp only [hl, if_true] at h ⊢
    rw [obind_eq_ok] at h; obtain ⟨a, h1, h⟩ := h; cases h
    refine ⟨rfl, by simp, ?_⟩
    simp only [writeEmptyLastMetaBlock, lit, BV.Gen.lits_WriteEmptyLastMetaBlock, List.getD_cons_zero,
      List.getD_cons_succ] at h1
    rw [writeBits_ok 1 1 w (by decide) (by decide)] at h1
    simp only [Out.bind_ok] at h1
    rw [writeBits_ok 1 1 _ (by decide) (by decide)] at h1
    simp only [Out.bind_ok] at h1
    cases h1
    simp [jump_length, bitsOf]
  · simp only [hl, if_false] at h ⊢
    cases h
    exact ⟨rfl, by simp, rfl⟩

theorem lastBytesBits_le (p : Params) : (ensureInitialized true p).lastBytesBits ≤ 14 ∧
    1 ≤ (ensureInitialized true p).lastBytesBits := by
  obtain ⟨h1, h2, h3⟩ := clampWindow_range p.quality p.lgwin p.largeWindow
  have hb : (ensureInitialized true p).lastBytesBits
      = (encodeWindowBits (clampWindow p.quality p.lgwin p.largeWindow) p.largeWindow).2 := by
    have := header_lgwin p
    have hl := init_params_large p
    simp only [ensureInitialized] at *
    rw [this, hl]
  obtain ⟨w, hw⟩ : ∃ w : Nat, clampWindow p.quality p.lgwin p.largeWindow = (w : Int) :=
    ⟨(clampWindow p.quality p.lgwin p.largeWindow).toNat, by omega⟩
  rw [hb, hw, wbits_count w (by omega) (by omega)]
  split <;> try split <;> try split
  all_goals omega

/-! ## the payload encoder's side: hypotheses -/

/-- per-meta-block guard of `WriteMetaBlockInternal` ("stored when bigger than
input + 4"): a meta-block of `len` input bytes that starts at bit `P` ends at a
bit `P'` whose whole-byte position is at most `len + 4` further (`+ 5` for
`len > 2^20`, where the uncompressed header has 6 length nibbles) -/
def Guard (P len P' : Nat) : Prop := P' / 8 ≤ P / 8 + len + 4 + (if len > 2 ^ 20 then 1 else 0)

instance (P len P' : Nat) : Decidable (Guard P len P') := by unfold Guard; infer_instance

/-- a run of meta-blocks with the given input lengths from bit `P` to bit `P'` -/
inductive Run : Nat → List Nat → Nat → Prop
  | nil (P : Nat) : Run P [] P
  | cons {P len P' P'' : Nat} {lens : List Nat} : Guard P len P' → Run P' lens P'' → Run P (len :: lens) P''

/-- without a flush a meta-block is only emitted when a whole input block
(`2^lgblock ≥ 2^14` bytes, the first one shortened by the `extra` prelude bytes)
has been consumed: every meta-block but the last covers at least 2^14 bytes -/
def BlocksOK : Nat → List Nat → Prop
  | _, [] => True
  | _, [_] => True
  | extra, len :: l2 :: rest => 2 ^ 14 ≤ len + extra ∧ BlocksOK 0 (l2 :: rest)

theorem run_bound {P P' : Nat} {lens : List Nat} (h : Run P lens P') :
    ∀ e, BlocksOK e lens →
      P' / 8 + (if lens = [] then 4 else 0) ≤ P / 8 + lens.sum + 4 * ((lens.sum + e) / 2 ^ 14) + 4 := by
  induction h with
  | nil P => intro e _; simp
  | @cons P len P' P'' lens hg hr ih =>
    intro e hb
    simp only [Guard] at hg
    cases lens with
    | nil =>
      cases hr
      simp only [List.sum_cons, List.sum_nil, Nat.add_zero, reduceCtorEq, if_false]
      split at hg <;> omega
    | cons l2 rest =>
      obtain ⟨hb1, hb2⟩ := hb
      have := ih 0 hb2
      simp only [reduceCtorEq, if_false, List.sum_cons, Nat.add_zero] at this ⊢
      split at hg <;> omega

/-! ## the head of a stream and the total -/

theorem streamStart_length (p : Params) (input : List Nat) (st : Start)
    (hq : 2 ≤ p.quality) (hh : p.sizeHint < 2 ^ 64) (hs : streamStart true p input = ok st) :
    st.prelude = (if p.catable then min 2 input.length else 0) ∧
    (st.whole = true ↔ input.length = st.prelude) ∧
    st.bits.length =
      (if input.length = st.prelude then
        (headLen (ensureInitialized true p).lastBytesBits p.magicNumber
          (encodeBase128 (effectiveParams p input.length).sizeHint).length st.prelude + 2 + 7) / 8 * 8
       else headLen (ensureInitialized true p).lastBytesBits p.magicNumber
          (encodeBase128 (effectiveParams p input.length).sizeHint).length st.prelude) := by
  have hqs : (ensureInitialized true p).params.quality = min 11 (max 0 p.quality) := by
    rw [init_params_quality, sanitize_quality]
  obtain ⟨_, f2, _, _, f5, _⟩ := sanitize_flags true p
  have e2 : (effectiveParams p input.length).catable = p.catable := f2
  have e5 : (effectiveParams p input.length).magicNumber = p.magicNumber := f5
  have hhint := effective_sizeHint_lt p input.length hh
  unfold streamStart at hs
  simp only [] at hs
  split at hs
  · rename_i hc
    rw [hqs] at hc
    omega
  · rw [obind_eq_ok] at hs; obtain ⟨r, h1, hs⟩ := hs
    obtain ⟨l1, l2⟩ := encodeDataHead_length (effectiveParams p input.length) input _ r hhint h1
    obtain ⟨c1, c2, c3⟩ := closeIfDone_length hs
    rw [e2] at l1
    rw [e5] at l2
    have hr2 : r.2 ≤ input.length := by rw [l1]; split <;> omega
    have hlen : (pendingWriter (ensureInitialized true p)).length = (ensureInitialized true p).lastBytesBits := by
      simp [pendingWriter]
    rw [hlen] at l2
    refine ⟨c1.trans l1, ?_, ?_⟩
    · rw [c2, c1]; omega
    · rw [c3, c1, l2]
      have : (input.length - r.2 = 0) ↔ (input.length = r.2) := by omega
      simp only [this]


theorem effective_hint_lt35 (p : Params) (n : Nat) (_hn : n < 2 ^ 64) (hh : p.sizeHint < 2 ^ 35) :
    (effectiveParams p n).sizeHint < 2 ^ 35 := by
  have hs : (ensureInitialized true p).params.sizeHint = p.sizeHint := by
    have := (sanitize_flags true p).2.2.2.2.2
    simp only [ensureInitialized]; rw [this]
  simp only [effectiveParams, hs, updateSizeHint, lit, litsUsh, BV.Gen.lits_update_size_hint,
    List.getD_cons_zero, List.getD_cons_succ]
  split
  · split
    · decide
    · have : (n + 0) % 2 ^ 64 % 2 ^ 32 < 2 ^ 32 := Nat.mod_lt _ (by decide)
      omega
  · exact hh

/-- the arithmetic core of C08's stream claim -/
theorem stream_total_bound (p : Params) (input : List Nat) (st : Start)
    (hq : 2 ≤ p.quality) (hh : p.sizeHint < 2 ^ 35) (hn : input.length < 2 ^ 54)
    (hs : streamStart true p input = ok st) :
    (st.whole = true → st.bits.length / 8 ≤ maxCompressedSize input.length) ∧
    (st.whole = false → ∀ lens Pm, Run st.bits.length lens Pm → BlocksOK st.prelude lens →
        lens.sum + st.prelude = input.length → (Pm + 2 + 7) / 8 ≤ maxCompressedSize input.length) := by
  obtain ⟨s1, s2, s3⟩ := streamStart_length p input st hq (by omega) hs
  obtain ⟨w1, w2⟩ := lastBytesBits_le p
  have hk : (encodeBase128 (effectiveParams p input.length).sizeHint).length ≤ 5 :=
    encodeBase128_length_le _ 5 (by decide) (by decide)
      (by have := effective_hint_lt35 p input.length (by omega) hh; omega)
      (by have := effective_hint_lt35 p input.length (by omega) hh; omega)
  have hk1 := (encodeBase128_spec (effectiveParams p input.length).sizeHint
      (by have := effective_hint_lt35 p input.length (by omega) hh; omega) []).2.1
  have hmax := max_closed input.length hn
  generalize (encodeBase128 (effectiveParams p input.length).sizeHint).length = k at *
  generalize (ensureInitialized true p).lastBytesBits = W at *
  have hpre : st.prelude ≤ 2 ∧ st.prelude ≤ input.length := by rw [s1]; split <;> omega
  generalize st.prelude = pre at *
  generalize input.length = n at *
  simp only [headLen] at s3
  have hpre3 : pre = 0 ∨ pre = 1 ∨ pre = 2 := by omega
  have hmx : (n = 0 → maxCompressedSize n = 17) ∧ (n ≠ 0 → n < 2 ^ 14 → maxCompressedSize n = n + 22) ∧
      (¬ n < 2 ^ 14 → maxCompressedSize n = n + 4 * (n / 2 ^ 14) + 23) := by
    rw [hmax]
    refine ⟨fun h => by simp [h], fun h1 h2 => by simp [h1, h2], fun h => ?_⟩
    have : n ≠ 0 := by omega
    simp [this, h]
  clear hmax
  obtain ⟨m0, m1, m2⟩ := hmx
  constructor
  · intro hw
    have hnp : n = pre := s2.mp hw
    simp only [hnp, if_true] at s3
    rw [s3]
    cases hm : p.magicNumber <;> simp only [hm, if_true, if_false, Bool.false_eq_true] at s3 ⊢ <;>
      rcases hpre3 with h | h | h <;> subst h <;>
      simp only [ne_eq, Nat.reduceEqDiff, eq_self, not_true_eq_false, not_false_eq_true, if_true, if_false] at s3 ⊢ <;>
      (first
        | (have := m0 (by omega); omega)
        | (have := m1 (by omega) (by omega); omega))
  · intro hw lens Pm hrun hblocks hsum
    have hnp : ¬ n = pre := by
      intro h; have := s2.mpr h; rw [hw] at this; exact Bool.false_ne_true this
    simp only [hnp, if_false] at s3
    have hb := run_bound hrun pre hblocks
    have hne : lens ≠ [] := by
      intro h; subst h; simp at hsum; omega
    simp only [hne, if_false, Nat.add_zero] at hb
    rw [s3] at hb
    have hs2 : lens.sum = n - pre := by omega
    rw [hs2] at hb
    have hnp' : n - pre + pre = n := by omega
    rw [hnp'] at hb
    cases hm : p.magicNumber <;> simp only [hm, if_true, if_false, Bool.false_eq_true] at hb <;>
      rcases hpre3 with h | h | h <;> subst h <;>
      simp only [ne_eq, Nat.reduceEqDiff, eq_self, not_true_eq_false, not_false_eq_true, if_true, if_false] at hb <;>
      (by_cases h14 : n < 2 ^ 14
       · have := m1 (by omega) h14; omega
       · have := m2 h14; omega)

end BV.Header
