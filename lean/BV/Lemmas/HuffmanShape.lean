/-
Lemmas for C17 part 3 (a): binary trees laid out in a `HuffmanTree` pool,
`BrotliSetDepth` as a traversal of such a tree, Kraft equality of the depths.
-/
import BV.Lemmas.HuffmanCanon

namespace BV.Lemmas.HuffmanShape
open BV.Bits BV.Huffman BV.Lemmas.HuffmanCanon

/-- a full binary tree whose leaves carry symbol indices -/
inductive T where
  | leaf (v : Nat)
  | node (l r : T)

namespace T
def leaves : T → List Nat
  | leaf v => [v]
  | node l r => l.leaves ++ r.leaves

/-- number of nodes -/
def size : T → Nat
  | leaf _ => 1
  | node l r => 1 + l.size + r.size

def height : T → Nat
  | leaf _ => 0
  | node l r => 1 + max l.height r.height

theorem size_pos (t : T) : 0 < t.size := by cases t <;> simp [size] <;> omega
end T

/-- `pool[p]` is the root of a layout of `t`: leaves are nodes with a negative
`index_left_` and `index_right_or_value_ = v`; inner nodes point to two roots
at smaller indices -/
inductive IsTree (pool : List Node) : Nat → T → Prop
  | leaf {p c : Nat} {l : Int} {v : Nat} :
      pool[p]? = some ⟨c, l, (v : Int)⟩ → l < 0 → IsTree pool p (.leaf v)
  | node {p c pl pr : Nat} {tl tr : T} :
      pool[p]? = some ⟨c, (pl : Int), (pr : Int)⟩ → pl < p → pr < p →
      IsTree pool pl tl → IsTree pool pr tr → IsTree pool p (.node tl tr)

/-- a layout only depends on the pool entries up to its root -/
theorem IsTree.frame {pool pool' : List Node} {p : Nat} {t : T} (h : IsTree pool p t)
    (hsame : ∀ q, q ≤ p → pool'[q]? = pool[q]?) : IsTree pool' p t := by
  induction h with
  | leaf hp hl => exact .leaf (by rw [hsame _ (Nat.le_refl _)]; exact hp) hl
  | node hp hl hr _ _ ihl ihr =>
    exact .node (by rw [hsame _ (Nat.le_refl _)]; exact hp) hl hr
      (ihl fun q hq => hsame q (by omega)) (ihr fun q hq => hsame q (by omega))

/-- depths written by a traversal of `t` whose root is at level `lev` -/
def assign : T → Nat → List Nat → List Nat
  | .leaf v, lev, d => d.set v lev
  | .node l r, lev, d => assign r (lev + 1) (assign l (lev + 1) d)

theorem assign_length (t : T) : ∀ lev d, (assign t lev d).length = d.length := by
  induction t with
  | leaf v => intro lev d; simp [assign]
  | node l r ihl ihr => intro lev d; simp [assign, ihl, ihr]

theorem assign_other (t : T) : ∀ lev d x, x ∉ t.leaves → (assign t lev d)[x]? = d[x]? := by
  induction t with
  | leaf v =>
    intro lev d x hx
    simp only [T.leaves, List.mem_singleton] at hx
    simp only [assign]
    exact List.getElem?_set_ne (fun h => hx h.symm)
  | node l r ihl ihr =>
    intro lev d x hx
    simp only [T.leaves, List.mem_append, not_or] at hx
    simp only [assign]
    rw [ihr _ _ _ hx.2, ihl _ _ _ hx.1]

theorem asUsize_natCast (n : Nat) : asUsize (n : Int) = n := by
  simp [asUsize]

/-- what `BrotliSetDepth` does after writing a leaf: pop finished levels, then
either return `true` or continue with the pending right sibling -/
def afterLeaf (pool : List Node) (M : Int) (f : Nat) (stack : List Int) (depth : List Nat) :
    Out (Bool × List Nat) :=
  match stack.dropWhile (· == -1) with
  | [] => .ok (true, depth)
  | q :: rest => setDepthLoop pool M f q (-1 :: rest) depth

theorem afterLeaf_neg_one (pool : List Node) (M : Int) (f : Nat) (stack : List Int)
    (depth : List Nat) : afterLeaf pool M f (-1 :: stack) depth = afterLeaf pool M f stack depth := by
  simp [afterLeaf]

theorem afterLeaf_nat (pool : List Node) (M : Int) (f : Nat) (q : Nat) (stack : List Int)
    (depth : List Nat) :
    afterLeaf pool M f ((q : Int) :: stack) depth = setDepthLoop pool M f q (-1 :: stack) depth := by
  have : ((q : Int) == -1) = false := by
    simp only [beq_eq_false_iff_ne, ne_eq]; omega
  simp [afterLeaf, this]

/-- `BrotliSetDepth` on a laid-out tree: if the tree fits below `max_depth` the
loop writes its leaf depths and goes on; if not it returns `false` having
written only at leaves of the tree -/
theorem visit (pool : List Node) (M : Nat) (hM : M ≤ 15) (t : T) :
    ∀ (p : Nat) (stack : List Int) (depth : List Nat) (f : Nat),
      IsTree pool p t → stack ≠ [] → stack.length ≤ M + 1 →
      (∀ v ∈ t.leaves, v < depth.length) → t.size ≤ f →
      (stack.length - 1 + t.height ≤ M →
        setDepthLoop pool M f p stack depth =
          afterLeaf pool M (f - t.size) stack (assign t (stack.length - 1) depth)) ∧
      (M < stack.length - 1 + t.height →
        ∃ d', setDepthLoop pool M f p stack depth = .ok (false, d') ∧ d'.length = depth.length ∧
          ∀ x, x ∉ t.leaves → d'[x]? = depth[x]?) := by
  induction t with
  | leaf v =>
    intro p stack depth f ht hne hlen hlv hf
    cases ht with
    | leaf hp hl =>
      rename_i c l
      simp only [T.size] at hf
      obtain ⟨f', rfl⟩ : ∃ f', f = f' + 1 := ⟨f - 1, by omega⟩
      have hv : v < depth.length := hlv v (by simp [T.leaves])
      have hlev : (stack.length - 1) % 256 = stack.length - 1 := Nat.mod_eq_of_lt (by omega)
      constructor
      · intro _
        have hl' : ¬ (l ≥ 0) := by omega
        simp only [setDepthLoop, asUsize_natCast, getAt, hp, Out.bind_ok,
          hl', ↓reduceIte, setAt, hv, hlev, T.size,
          Nat.add_sub_cancel, assign]
        rfl
      · intro h; simp only [T.height] at h; omega
  | node tl tr ihl ihr =>
    intro p stack depth f ht hne hlen hlv hf
    cases ht with
    | node hp hpl hpr htl htr =>
      rename_i c pl pr
      simp only [T.size] at hf
      obtain ⟨f', rfl⟩ : ∃ f', f = f' + 1 := ⟨f - 1, by omega⟩
      have hlvl : ∀ v ∈ tl.leaves, v < depth.length := fun v hv => hlv v (by simp [T.leaves, hv])
      have hlvr : ∀ v ∈ tr.leaves, v < depth.length := fun v hv => hlv v (by simp [T.leaves, hv])
      have hslen : 1 ≤ stack.length := by
        cases stack with
        | nil => exact absurd rfl hne
        | cons _ _ => simp
      have hstep : setDepthLoop pool M (f' + 1) p stack depth =
          if (stack.length : Int) > (M : Int) then .ok (false, depth)
          else if stack.length ≥ 16 then .panic
          else setDepthLoop pool M f' (pl : Int) ((pr : Int) :: stack) depth := by
        simp only [setDepthLoop, asUsize_natCast, getAt, hp, Out.bind_ok,
          show ((pl : Int) ≥ 0) from by omega, ↓reduceIte]
      by_cases hdeep : stack.length > M
      · -- no room for another level
        have : (stack.length : Int) > (M : Int) := by omega
        rw [hstep, if_pos this]
        constructor
        · intro h; simp only [T.height] at h; omega
        · intro _; exact ⟨depth, rfl, rfl, fun _ _ => rfl⟩
      · have h1 : ¬ (stack.length : Int) > (M : Int) := by omega
        have h2 : ¬ stack.length ≥ 16 := by omega
        rw [hstep, if_neg h1, if_neg h2]
        have hL := ihl pl ((pr : Int) :: stack) depth f' htl (by simp)
          (by simp only [List.length_cons]; omega) hlvl (by omega)
        simp only [List.length_cons, Nat.add_sub_cancel] at hL
        by_cases hfl : stack.length + tl.height ≤ M
        · -- the left subtree fits
          rw [hL.1 hfl, afterLeaf_nat]
          have hR := ihr pr (-1 :: stack) (assign tl stack.length depth) (f' - tl.size) htr
            (by simp) (by simp only [List.length_cons]; omega)
            (by intro v hv; rw [assign_length]; exact hlvr v hv) (by omega)
          simp only [List.length_cons, Nat.add_sub_cancel] at hR
          constructor
          · intro hfit
            simp only [T.height] at hfit
            rw [hR.1 (by omega), afterLeaf_neg_one]
            simp only [assign, T.size]
            have e1 : stack.length - 1 + 1 = stack.length := by omega
            have e2 : f' - tl.size - tr.size = f' + 1 - (1 + tl.size + tr.size) := by omega
            rw [e1, e2]
          · intro hno
            simp only [T.height] at hno
            obtain ⟨d', hd1, hd2, hd3⟩ := hR.2 (by omega)
            refine ⟨d', hd1, by rw [hd2, assign_length], ?_⟩
            intro x hx
            simp only [T.leaves, List.mem_append, not_or] at hx
            rw [hd3 x hx.2, assign_other _ _ _ _ hx.1]
        · -- the left subtree does not fit
          obtain ⟨d', hd1, hd2, hd3⟩ := hL.2 (by omega)
          constructor
          · intro hfit; simp only [T.height] at hfit; omega
          · intro _
            refine ⟨d', hd1, hd2, ?_⟩
            intro x hx
            simp only [T.leaves, List.mem_append, not_or] at hx
            exact hd3 x hx.1


/-- `BrotliSetDepth(p, pool, depth, M)` on a laid-out tree -/
theorem setDepth_spec (pool : List Node) (M : Nat) (hM : M ≤ 15) (t : T) (p : Nat)
    (depth : List Nat) (ht : IsTree pool p t) (hlv : ∀ v ∈ t.leaves, v < depth.length)
    (hsz : t.size ≤ setDepthFuel) :
    (t.height ≤ M → setDepth (p : Int) pool depth (M : Int) = .ok (true, assign t 0 depth)) ∧
    (M < t.height → ∃ d', setDepth (p : Int) pool depth (M : Int) = .ok (false, d') ∧
        d'.length = depth.length ∧ ∀ x, x ∉ t.leaves → d'[x]? = depth[x]?) := by
  have h := visit pool M hM t p [-1] depth setDepthFuel ht (by simp) (by simp) hlv hsz
  simp only [List.length_cons, List.length_nil, Nat.zero_add, Nat.sub_self] at h
  constructor
  · intro hfit
    unfold setDepth
    rw [h.1 hfit]
    simp [afterLeaf]
  · intro hno
    exact h.2 hno

/-! ### depths of a full binary tree satisfy Kraft equality -/

/-- `Σ_{leaves} 2^(L - depth of the leaf)` for a tree rooted at level `lev` -/
def kraftT (L : Nat) : T → Nat → Nat
  | .leaf _, lev => 2 ^ (L - lev)
  | .node l r, lev => kraftT L l (lev + 1) + kraftT L r (lev + 1)

theorem kraftT_eq (L : Nat) (t : T) : ∀ lev, lev + t.height ≤ L → kraftT L t lev = 2 ^ (L - lev) := by
  induction t with
  | leaf v => intro lev _; rfl
  | node l r ihl ihr =>
    intro lev h
    simp only [T.height] at h
    simp only [kraftT]
    rw [ihl (lev + 1) (by omega), ihr (lev + 1) (by omega)]
    have : L - lev = (L - (lev + 1)) + 1 := by omega
    rw [this, Nat.pow_succ]; omega

theorem sum_map_set (f : Nat → Nat) (l : List Nat) (i a : Nat) (h : i < l.length) :
    ((l.set i a).map f).sum + f (l.getD i 0) = (l.map f).sum + f a := by
  induction l generalizing i with
  | nil => simp at h
  | cons x xs ih =>
    cases i with
    | zero => simp; omega
    | succ i =>
      simp only [List.length_cons] at h
      have := ih i (by omega)
      simp only [List.set_cons_succ, List.map_cons, List.sum_cons, List.getD_cons_succ]
      omega

theorem kraftSum_set (L : Nat) (d : List Nat) (v x : Nat) (hv : v < d.length)
    (h0 : d.getD v 0 = 0) (hx : x ≠ 0) :
    kraftSum L (d.set v x) = kraftSum L d + 2 ^ (L - x) := by
  have := sum_map_set (fun l => if l = 0 then 0 else 2 ^ (L - l)) d v x hv
  simp only [h0, ↓reduceIte, Nat.add_zero, hx] at this
  exact this

theorem getD_of_getElem? (d d' : List Nat) (x : Nat) (h : d'[x]? = d[x]?) :
    d'.getD x 0 = d.getD x 0 := by
  simp [List.getD_eq_getElem?_getD, h]

theorem kraft_assign (L : Nat) (t : T) : ∀ (lev : Nat) (d : List Nat), t.leaves.Nodup →
    (∀ v ∈ t.leaves, v < d.length ∧ d.getD v 0 = 0) → (2 ≤ t.leaves.length ∨ 1 ≤ lev) →
    kraftSum L (assign t lev d) = kraftSum L d + kraftT L t lev := by
  induction t with
  | leaf v =>
    intro lev d _ hz hlev
    have := hz v (by simp [T.leaves])
    simp only [assign, kraftT]
    simp only [T.leaves, List.length_cons, List.length_nil] at hlev
    exact kraftSum_set L d v lev this.1 this.2 (by omega)
  | node l r ihl ihr =>
    intro lev d hnd hz hlev
    simp only [T.leaves] at hnd hz
    have hndl := (List.nodup_append.mp hnd).1
    have hndr := (List.nodup_append.mp hnd).2.1
    have hdisj := (List.nodup_append.mp hnd).2.2
    simp only [assign, kraftT]
    rw [ihr (lev + 1) _ hndr ?_ (Or.inr (by omega)), ihl (lev + 1) d hndl
      (fun v hv => hz v (List.mem_append_left _ hv)) (Or.inr (by omega))]
    · omega
    · intro v hv
      have hvl : v ∉ l.leaves := fun h => hdisj v h v hv rfl
      have := hz v (List.mem_append_right _ hv)
      rw [assign_length]
      exact ⟨this.1, by rw [getD_of_getElem? _ _ _ (assign_other l _ _ v hvl)]; exact this.2⟩

/-- every leaf symbol gets a depth between the root level and the tree height -/
theorem assign_leaf (t : T) : ∀ (lev : Nat) (d : List Nat) (v : Nat), v ∈ t.leaves →
    (∀ v ∈ t.leaves, v < d.length) →
    ∃ x, (assign t lev d)[v]? = some x ∧ lev ≤ x ∧ x ≤ lev + t.height := by
  induction t with
  | leaf w =>
    intro lev d v hv hlen
    simp only [T.leaves, List.mem_singleton] at hv
    subst hv
    have := hlen v (by simp [T.leaves])
    exact ⟨lev, by simp [assign, this], Nat.le_refl _, by simp [T.height]⟩
  | node l r ihl ihr =>
    intro lev d v hv hlen
    simp only [T.leaves] at hv hlen
    simp only [assign, T.height]
    by_cases hr : v ∈ r.leaves
    · obtain ⟨x, h1, h2, h3⟩ := ihr (lev + 1) (assign l (lev + 1) d) v hr
        (by intro w hw; rw [assign_length]; exact hlen w (List.mem_append_right _ hw))
      exact ⟨x, h1, by omega, by omega⟩
    · have hl : v ∈ l.leaves := by
        rcases List.mem_append.mp hv with h | h
        · exact h
        · exact absurd h hr
      obtain ⟨x, h1, h2, h3⟩ := ihl (lev + 1) d v hl
        (fun w hw => hlen w (List.mem_append_left _ hw))
      refine ⟨x, ?_, by omega, by omega⟩
      rw [assign_other r _ _ v hr]; exact h1


/-- the depth a traversal writes at a leaf does not depend on the previous contents -/
theorem assign_pointwise (t : T) : ∀ (lev : Nat) (d1 d2 : List Nat) (x : Nat),
    d1.length = d2.length → (∀ v ∈ t.leaves, v < d1.length) →
    (x ∈ t.leaves ∨ d1[x]? = d2[x]?) → (assign t lev d1)[x]? = (assign t lev d2)[x]? := by
  induction t with
  | leaf v =>
    intro lev d1 d2 x hl hlv hx
    have hv := hlv v (by simp [T.leaves])
    simp only [assign]
    by_cases hxv : x = v
    · subst hxv
      rw [List.getElem?_set_self hv, List.getElem?_set_self (by omega)]
    · rw [List.getElem?_set_ne (fun h => hxv h.symm), List.getElem?_set_ne (fun h => hxv h.symm)]
      rcases hx with hx | hx
      · simp [T.leaves] at hx; exact absurd hx hxv
      · exact hx
  | node l r ihl ihr =>
    intro lev d1 d2 x hl hlv hx
    simp only [assign]
    simp only [T.leaves] at hlv hx
    apply ihr (lev + 1) _ _ x (by rw [assign_length, assign_length]; exact hl)
      (by intro v hv; rw [assign_length]; exact hlv v (List.mem_append_right _ hv))
    by_cases hr : x ∈ r.leaves
    · exact Or.inl hr
    · right
      apply ihl (lev + 1) d1 d2 x hl (fun v hv => hlv v (List.mem_append_left _ hv))
      rcases hx with hx | hx
      · rcases List.mem_append.mp hx with h | h
        · exact Or.inl h
        · exact absurd h hr
      · exact Or.inr hx

theorem assign_take (t : T) : ∀ (lev m : Nat) (d : List Nat),
    (assign t lev d).take m = assign t lev (d.take m) := by
  induction t with
  | leaf v => intro lev m d; simp [assign, List.take_set]
  | node l r ihl ihr => intro lev m d; simp [assign, ihl, ihr]

/-- with at least two leaves every leaf gets a depth between 1 and the height -/
theorem assign_leaf_pos (t : T) (h2 : 2 ≤ t.leaves.length) (d : List Nat) (v : Nat)
    (hv : v ∈ t.leaves) (hlen : ∀ v ∈ t.leaves, v < d.length) :
    ∃ x, (assign t 0 d)[v]? = some x ∧ 1 ≤ x ∧ x ≤ t.height := by
  cases t with
  | leaf w => simp [T.leaves] at h2
  | node l r =>
    simp only [T.leaves] at hv hlen
    simp only [assign, T.height]
    by_cases hr : v ∈ r.leaves
    · obtain ⟨x, h1, h2, h3⟩ := assign_leaf r 1 (assign l 1 d) v hr
        (by intro w hw; rw [assign_length]; exact hlen w (List.mem_append_right _ hw))
      exact ⟨x, h1, by omega, by omega⟩
    · have hl : v ∈ l.leaves := by
        rcases List.mem_append.mp hv with h | h
        · exact h
        · exact absurd h hr
      obtain ⟨x, h1, h2, h3⟩ := assign_leaf l 1 d v hl
        (fun w hw => hlen w (List.mem_append_left _ hw))
      refine ⟨x, ?_, by omega, by omega⟩
      rw [assign_other r _ _ v hr]; exact h1

end BV.Lemmas.HuffmanShape
