/-
C01 / meta-block writers, part 18: `StoreTrivialContextMap(num_types, context_bits)` against `readContextMap`:
the description (RLEMAX = context_bits − 1, per block type the value symbol and one run of
`2^context_bits − 1` zeros, IMTF = 1) is read back, through the inverse move-to-front transform, as the map
"every context of block type `t` uses tree `t`".
-/
import BV.Lemmas.MetaBlockCtx

namespace BV.MetaBlock
open BV.Gen BV.Bits BV.Huffman BV.PrefixArith BV.Recoder
open BV.Header (writeBits_ok)
open BV.Lemmas.HuffmanRead (takeBits_bitsOf)

/-! ### the inverse move-to-front transform on the trivial description -/

/-- the move-to-front list after the values `0 .. i-1` have been moved to the front in this order -/
def mtfAt (i : Nat) : List Nat := (List.range i).reverse ++ List.range' i (256 - i)

theorem mtfAt_zero : mtfAt 0 = List.range 256 := by
  simp [mtfAt, List.range_eq_range']

theorem mtfAt_step (i : Nat) (hi : i < 256) :
    (mtfAt i).getD i 0 = i ∧ i :: ((mtfAt i).take i ++ (mtfAt i).drop (i + 1)) = mtfAt (i + 1) := by
  have hl : ((List.range i).reverse).length = i := by simp
  have hr : List.range' i (256 - i) = i :: List.range' (i + 1) (255 - i) := by
    rw [show 256 - i = (255 - i) + 1 by omega, List.range'_succ]
  unfold mtfAt
  refine ⟨?_, ?_⟩
  · rw [List.getD_eq_getElem?_getD, List.getElem?_append_right (by rw [hl]; exact Nat.le_refl _), hl, Nat.sub_self, hr]
    rfl
  · rw [List.take_left' hl, List.drop_append, List.drop_of_length_le (by rw [hl]; omega), List.nil_append, hl,
      show i + 1 - i = 1 by omega, hr, List.drop_succ_cons, List.drop_zero, List.range_succ, List.reverse_append,
      show 256 - (i + 1) = 255 - i by omega]
    rfl

/-- a run of zeros repeats the value at the front -/
theorem imtf_zeros (v : Nat) (tl : List Nat) : ∀ (k : Nat) (xs acc : List Nat),
    inverseMtf.go (List.replicate k 0 ++ xs) (v :: tl) acc = inverseMtf.go xs (v :: tl) (List.replicate k v ++ acc) := by
  intro k
  induction k with
  | zero => intro xs acc; rfl
  | succ k ih =>
    intro xs acc
    rw [List.replicate_succ, List.cons_append, inverseMtf.go]
    simp only [List.getD_cons_zero, List.take_zero, List.nil_append, List.drop_succ_cons, List.drop_zero]
    rw [ih, List.replicate_succ', List.append_assoc]
    rfl

/-- per block type the value and `m − 1` zeros: read back as `m` copies of the type -/
theorem imtf_types (m : Nat) (hm : 1 ≤ m) : ∀ (cnt i : Nat) (xs acc : List Nat), i + cnt ≤ 256 →
    inverseMtf.go ((List.range' i cnt).flatMap (fun t => t :: List.replicate (m - 1) 0) ++ xs) (mtfAt i) acc
      = inverseMtf.go xs (mtfAt (i + cnt)) (((List.range' i cnt).flatMap (fun t => List.replicate m t)).reverse ++ acc) := by
  intro cnt
  induction cnt with
  | zero => intro i xs acc _; rfl
  | succ cnt ih =>
    intro i xs acc hi
    obtain ⟨g1, g2⟩ := mtfAt_step i (by omega)
    rw [List.range'_succ, List.flatMap_cons, List.flatMap_cons]
    simp only [List.cons_append, List.append_assoc]
    rw [inverseMtf.go]
    try simp only
    rw [g1, g2]
    have hm1 : mtfAt (i + 1) = i :: ((mtfAt i).take i ++ (mtfAt i).drop (i + 1)) := g2.symm
    rw [hm1, imtf_zeros, ← hm1, ih (i + 1) xs _ (by omega), show i + 1 + cnt = i + (cnt + 1) by omega]
    congr 1
    rw [List.reverse_append, List.append_assoc]
    congr 1
    rw [List.reverse_replicate]
    obtain ⟨m', rfl⟩ : ∃ m', m = m' + 1 := ⟨m - 1, by omega⟩
    rw [Nat.add_sub_cancel, List.replicate_succ' (n := m')]
    simp

/-- the entries `StoreTrivialContextMap` describes, before the inverse transform -/
def trivEntries (n m : Nat) : List Nat := (List.range n).flatMap (fun t => t :: List.replicate (m - 1) 0)

theorem imtf_trivial (n m : Nat) (hm : 1 ≤ m) (hn : n ≤ 256) : inverseMtf (trivEntries n m) = trivialMap n m := by
  unfold inverseMtf trivEntries trivialMap
  have := imtf_types m hm n 0 [] [] (by omega)
  rw [List.append_nil, List.append_nil, ← List.range_eq_range'] at this
  rw [← mtfAt_zero, this, inverseMtf.go, List.reverse_reverse]

/-! ### the histogram -/

theorem foldlM_append_out {α β : Type} (f : β → α → Out β) : ∀ (l1 l2 : List α) (a : β),
    (l1 ++ l2).foldlM f a = (l1.foldlM f a >>= fun b => l2.foldlM f b) := by
  intro l1
  induction l1 with
  | nil => intro l2 a; rfl
  | cons x xs ih =>
    intro l2 a
    rw [List.cons_append, List.foldlM_cons, List.foldlM_cons]
    cases f a x with
    | ok b => rw [Out.bind_ok, Out.bind_ok, ih]
    | panic => rfl
    | fuel => rfl

theorem setRange (c : Nat) : ∀ (k : Nat) (h : List Nat), c + k ≤ h.length →
    ∃ h', (List.range k).foldlM (fun h j => setAt h (c + j) 1) h = .ok h' ∧ h'.length = h.length ∧
      ∀ i, h'.getD i 0 = if c ≤ i ∧ i < c + k then 1 else h.getD i 0 := by
  intro k
  induction k with
  | zero => intro h _; exact ⟨h, rfl, rfl, fun i => by rw [if_neg (by omega)]⟩
  | succ k ih =>
    intro h hk
    obtain ⟨h1, e1, l1, g1⟩ := ih h (by omega)
    refine ⟨h1.set (c + k) 1, ?_, by rw [List.length_set, l1], ?_⟩
    · rw [List.range_succ, foldlM_append_out, e1, Out.bind_ok]
      simp only [List.foldlM_cons, List.foldlM_nil]
      unfold setAt
      rw [if_pos (by rw [l1]; omega)]
      rfl
    · intro i
      rw [List.getD_eq_getElem?_getD, List.getElem?_set]
      by_cases hi : c + k = i
      · rw [if_pos hi, if_pos (by rw [l1]; omega), if_pos (by omega)]; rfl
      · rw [if_neg hi, ← List.getD_eq_getElem?_getD, g1]
        by_cases h2 : c ≤ i ∧ i < c + k
        · rw [if_pos h2, if_pos (by omega)]
        · rw [if_neg h2, if_neg (by omega)]

theorem sum_le_of_getD (B : Nat) : ∀ (l : List Nat), (∀ i, l.getD i 0 ≤ B) → l.sum ≤ l.length * B := by
  intro l
  induction l with
  | nil => intro _; simp
  | cons x xs ih =>
    intro h
    have h0 := h 0
    simp only [List.getD_cons_zero] at h0
    have := ih (fun i => by have := h (i + 1); simpa using this)
    rw [List.sum_cons, List.length_cons, Nat.add_mul, Nat.one_mul]
    omega

theorem getD_set_zeros (n a v i : Nat) (ha : a < n) :
    ((List.replicate n 0).set a v).getD i 0 = if i = a then v else 0 := by
  rw [List.getD_eq_getElem?_getD, List.getElem?_set]
  by_cases hi : a = i
  · rw [if_pos hi, if_pos (by rw [List.length_replicate]; omega), if_pos hi.symm]; rfl
  · rw [if_neg hi, if_neg (fun h => hi h.symm), List.getElem?_replicate]
    split <;> rfl

/-! ### the whole description -/

/-- the code of block type `i` in the description -/
def trivCode (cb i : Nat) : Nat := if i = 0 then 0 else i + cb - 1

/-- the per-type loop: value symbol, run symbol, run extra bits; read by `readCmapEntries` -/
theorem trivLoop (depths bits : List Nat) (code : Code) (cb size : Nat) (hcb2 : 2 ≤ cb) (hcb6 : cb ≤ 6)
    (hrc : SymIO depths bits code (cb - 1)) :
    ∀ (cnt i : Nat) (w : Writer), i + cnt ≤ 256 → (∀ t, i ≤ t → t < i + cnt → SymIO depths bits code (trivCode cb t)) →
    ∃ B, (List.range' i cnt).foldlM (fun w t => do
        let w ← storeSym depths bits (trivCode cb t) w
        let w ← storeSym depths bits (cb - 1) w
        writeBits ((cb - 1) % 256) (2 ^ (cb - 1) - 1) w) w = .ok (w ++ B) ∧
      ∀ (acc : List Nat) (rest : List Bool) (f : Nat), 2 * cnt ≤ f →
        acc.length + cnt * 2 ^ cb ≤ size →
        readCmapEntries code (cb - 1) size f acc (B ++ rest)
          = readCmapEntries code (cb - 1) size (f - 2 * cnt)
              (acc ++ (List.range' i cnt).flatMap (fun t => t :: List.replicate (2 ^ cb - 1) 0)) rest := by
  intro cnt
  induction cnt with
  | zero =>
    intro i w _ _
    exact ⟨[], by simp, fun acc rest f _ _ => by simp⟩
  | succ cnt ih =>
    intro i w hi hs
    obtain ⟨sb, s1, s2⟩ := hs i (Nat.le_refl _) (by omega)
    obtain ⟨rb, r1, r2⟩ := hrc
    have hpow : (2 : Nat) ^ (cb - 1) ≤ 2 ^ 5 := Nat.pow_le_pow_right (by decide) (by omega)
    have hpp : (2 : Nat) ^ cb = 2 * 2 ^ (cb - 1) := by
      rw [show cb = (cb - 1) + 1 by omega, Nat.pow_succ, Nat.mul_comm]; simp
    have hp1 : 1 ≤ (2 : Nat) ^ (cb - 1) := Nat.pow_pos (by decide)
    obtain ⟨B, e, r⟩ := ih (i + 1) (w ++ sb ++ rb ++ bitsOf (cb - 1) (2 ^ (cb - 1) - 1)) (by omega)
      (fun t h1 h2 => hs t (by omega) (by omega))
    have hmod : (cb - 1) % 256 = cb - 1 := Nat.mod_eq_of_lt (by omega)
    rw [hmod] at e
    refine ⟨sb ++ rb ++ bitsOf (cb - 1) (2 ^ (cb - 1) - 1) ++ B, ?_, ?_⟩
    · rw [hmod, List.range'_succ, List.foldlM_cons, s1, Out.bind_ok, r1, Out.bind_ok,
        writeBits_ok _ _ _ (by omega) (by omega), Out.bind_ok, e]
      simp [List.append_assoc]
    · intro acc rest f hf hsz
      obtain ⟨f', rfl⟩ : ∃ f', f = f' + 2 := ⟨f - 2, by omega⟩
      have hne : acc.length ≠ size := by
        have : 1 ≤ (cnt + 1) * 2 ^ cb := Nat.mul_pos (by omega) (Nat.pow_pos (by decide))
        omega
      rw [readCmapEntries_succ, if_neg hne]
      simp only [List.append_assoc]
      rw [s2]
      simp only
      -- the run symbol behind the value
      have hne2 : (acc ++ [i]).length ≠ size := by
        rw [List.length_append, List.length_singleton]
        have : 2 ≤ (cnt + 1) * 2 ^ cb := by
          have : 2 ≤ 2 ^ cb := by rw [hpp]; omega
          have : 1 * 2 ^ cb ≤ (cnt + 1) * 2 ^ cb := Nat.mul_le_mul_right _ (by omega)
          omega
        omega
      have key : readCmapEntries code (cb - 1) size (f' + 1) (acc ++ [i])
          (rb ++ (bitsOf (cb - 1) (2 ^ (cb - 1) - 1) ++ (B ++ rest)))
          = readCmapEntries code (cb - 1) size (f' + 2 - 2 * (cnt + 1))
            (acc ++ List.flatMap (fun t => t :: List.replicate (2 ^ cb - 1) 0) (List.range' i (cnt + 1))) rest := by
        rw [readCmapEntries_succ, if_neg hne2, r2]
        simp only
        rw [if_neg (by omega), if_pos (Nat.le_refl _), takeBits_bitsOf _ _ _ (by omega)]
        simp only
        have hreps : 2 ^ (cb - 1) + (2 ^ (cb - 1) - 1) = 2 ^ cb - 1 := by rw [hpp]; omega
        rw [hreps, if_neg (by
          rw [List.length_append, List.length_singleton]
          have : 1 * 2 ^ cb ≤ (cnt + 1) * 2 ^ cb := Nat.mul_le_mul_right _ (by omega)
          omega)]
        have := r (acc ++ [i] ++ List.replicate (2 ^ cb - 1) 0) rest f' (by omega) (by
          rw [List.length_append, List.length_append, List.length_singleton, List.length_replicate]
          rw [Nat.add_mul, Nat.one_mul] at hsz
          have : 1 ≤ (2 : Nat) ^ cb := Nat.pow_pos (by decide)
          omega)
        rw [this, show f' + 2 - 2 * (cnt + 1) = f' - 2 * cnt by omega, List.range'_succ, List.flatMap_cons]
        simp [List.append_assoc]
      unfold trivCode
      by_cases h0 : i = 0
      · rw [if_pos h0, if_pos rfl]
        have : acc ++ [0] = acc ++ [i] := by rw [h0]
        rw [this]
        exact key
      · rw [if_neg h0, if_neg (by omega), if_neg (by omega), show i + cb - 1 - (cb - 1) = i by omega]
        exact key

theorem getD_set' (l : List Nat) (a v i : Nat) (ha : a < l.length) :
    (l.set a v).getD i 0 = if i = a then v else l.getD i 0 := by
  rw [List.getD_eq_getElem?_getD, List.getElem?_set]
  by_cases hi : a = i
  · rw [if_pos hi, if_pos ha, if_pos hi.symm]; rfl
  · rw [if_neg hi, if_neg (fun h => hi h.symm), ← List.getD_eq_getElem?_getD]

theorem foldlM_congr_out {α β : Type} (f g : β → α → Out β) : ∀ (l : List α) (a : β),
    (∀ x ∈ l, ∀ b, f b x = g b x) → l.foldlM f a = l.foldlM g a := by
  intro l
  induction l with
  | nil => intro a _; rfl
  | cons x xs ih =>
    intro a h
    rw [List.foldlM_cons, List.foldlM_cons, h x (List.mem_cons_self ..)]
    cases g a x with
    | ok b => rw [Out.bind_ok, Out.bind_ok]; exact ih b (fun y hy => h y (List.mem_cons_of_mem _ hy))
    | panic => rfl
    | fuel => rfl

theorem trivialMap_lt (n m : Nat) : ∀ x ∈ trivialMap n m, x < n := by
  intro x hx
  unfold trivialMap at hx
  rw [List.mem_flatMap] at hx
  obtain ⟨t, ht, hxt⟩ := hx
  rw [List.mem_replicate] at hxt
  rw [hxt.2]
  exact List.mem_range.mp ht

theorem trivEntries_length (n m : Nat) (hm : 1 ≤ m) : (trivEntries n m).length = n * m := by
  unfold trivEntries
  induction n with
  | zero => simp
  | succ n ih =>
    rw [List.range_succ, List.flatMap_append, List.length_append, ih, Nat.add_mul, Nat.one_mul]
    simp
    omega

/-- **`StoreTrivialContextMap`** is read back by `readContextMap` as the map "block type `t` ↦ tree `t`" -/
theorem storeTrivialContextMap_roundtrip (n cb : Nat) (hcb2 : 2 ≤ cb) (hcb6 : cb ≤ 6) (hn1 : 1 ≤ n) (hn : n ≤ 256)
    (w : Writer) :
    ∃ bits, storeTrivialContextMap n cb w = .ok (w ++ bits) ∧
      ∀ rest, readContextMap (n * 2 ^ cb) (bits ++ rest) = some (n, trivialMap n (2 ^ cb), rest) := by
  have hn64 : (n + two64 - 1) % two64 = n - 1 := by
    have : n + two64 - 1 = (n - 1) + two64 := by omega
    rw [this, Nat.add_mod_right, Nat.mod_eq_of_lt (by unfold two64; omega)]
  have hpow : (2 : Nat) ^ (cb - 1) ≤ 2 ^ 5 := Nat.pow_le_pow_right (by decide) (by omega)
  have hpp : (2 : Nat) ^ cb = 2 * 2 ^ (cb - 1) := by
    rw [show cb = (cb - 1) + 1 by omega, Nat.pow_succ, Nat.mul_comm]; simp
  have hp1 : 1 ≤ (2 : Nat) ^ (cb - 1) := Nat.pow_pos (by decide)
  obtain ⟨vb, hv1, hv2⟩ := varLen8_roundtrip (n - 1) (by omega) w
  unfold storeTrivialContextMap
  rw [hn64, hv1, Out.bind_ok]
  by_cases h1 : n = 1
  · rw [if_neg (by omega)]
    refine ⟨vb, rfl, ?_⟩
    intro rest
    unfold readContextMap
    rw [hv2, h1]
    simp [trivialMap]
  · rw [if_pos (by omega)]
    have hrc : (cb + two64 - 1) % two64 = cb - 1 := by
      have : cb + two64 - 1 = (cb - 1) + two64 := by omega
      rw [this, Nat.add_mod_right, Nat.mod_eq_of_lt (by unfold two64; omega)]
    have hrc1 : (cb - 1 + two64 - 1) % two64 = cb - 2 := by
      have : cb - 1 + two64 - 1 = (cb - 2) + two64 := by omega
      rw [this, Nat.add_mod_right, Nat.mod_eq_of_lt (by unfold two64; omega)]
    have hrb : (2 ^ (cb - 1) + two32 - 1) % two32 = 2 ^ (cb - 1) - 1 := by
      have : 2 ^ (cb - 1) + two32 - 1 = (2 ^ (cb - 1) - 1) + two32 := by omega
      rw [this, Nat.add_mod_right, Nat.mod_eq_of_lt (by unfold two32; omega)]
    have hA : (n + (cb - 1)) % two64 = n + (cb - 1) := Nat.mod_eq_of_lt (by unfold two64; omega)
    have hn32 : n % two32 = n := Nat.mod_eq_of_lt (by unfold two32; omega)
    rw [hrc]
    dsimp only
    rw [if_neg (by omega), hrb, hA, hrc1, hn32, writeBits_ok 1 1 _ (by decide) (by decide), Out.bind_ok,
      writeBits_ok 4 (cb - 2) _ (by omega) (by decide), Out.bind_ok]
    -- the histogram
    have hs1 : setAt (List.replicate 272 0) (cb - 1) n = .ok ((List.replicate 272 0).set (cb - 1) n) := by
      unfold setAt; rw [if_pos (by rw [List.length_replicate]; omega)]
    rw [hs1, Out.bind_ok]
    have hs2 : setAt ((List.replicate 272 0).set (cb - 1) n) 0 1
        = .ok (((List.replicate 272 0).set (cb - 1) n).set 0 1) := by
      unfold setAt; rw [if_pos (by rw [List.length_set, List.length_replicate]; omega)]
    rw [hs2, Out.bind_ok]
    obtain ⟨h2, hh2⟩ : ∃ h2, h2 = ((List.replicate 272 0).set (cb - 1) n).set 0 1 := ⟨_, rfl⟩
    rw [← hh2]
    have h2l : h2.length = 272 := by rw [hh2, List.length_set, List.length_set, List.length_replicate]
    have h2g : ∀ i, h2.getD i 0 = if i = 0 then 1 else if i = cb - 1 then n else 0 := by
      intro i
      rw [hh2, getD_set' _ _ _ _ (by rw [List.length_set, List.length_replicate]; omega),
        getD_set' _ _ _ _ (by rw [List.length_replicate]; omega), getD_replicate_zero]
    obtain ⟨h3, e3, h3l, h3g⟩ := setRange cb (n + (cb - 1) - cb) h2 (by rw [h2l]; omega)
    rw [e3, Out.bind_ok]
    have h3g' : ∀ i, h3.getD i 0 = if cb ≤ i ∧ i < n + (cb - 1) then 1
        else if i = 0 then 1 else if i = cb - 1 then n else 0 := by
      intro i
      rw [h3g, h2g]
      by_cases hc : cb ≤ i ∧ i < n + (cb - 1)
      · rw [if_pos hc, if_pos (by omega)]
      · rw [if_neg hc, if_neg (by omega)]
    have hsum : h3.sum ≤ 2 ^ 25 := by
      have := sum_le_of_getD 256 h3 (fun i => by
        rw [h3g']; split
        · omega
        · split
          · omega
          · split <;> omega)
      rw [h3l, h2l] at this
      have : (272 : Nat) * 256 ≤ 2 ^ 25 := by decide
      omega
    have hz : ∀ i, n + (cb - 1) ≤ i → h3.getD i 0 = 0 := by
      intro i hi
      rw [h3g', if_neg (by omega), if_neg (by omega), if_neg (by omega)]
    have hAb : n + (cb - 1) ≤ 2 ^ alphabetBits (n + (cb - 1)) := by
      obtain ⟨_, hb⟩ := BV.Lemmas.HuffmanSimple.alphabetBits_facts (n + (cb - 1)) (by omega) (by omega)
      have := hb (n + (cb - 1) - 1) (by omega)
      omega
    obtain ⟨dep, bts, w1, hbt⟩ := build_totalN h3 (n + (cb - 1)) (n + (cb - 1)) 272 (w ++ vb ++ bitsOf 1 1 ++ bitsOf 4 (cb - 2))
      (by omega) (by rw [h3l, h2l]; omega) (by omega) hsum (by omega) (Nat.le_refl _) hz
    obtain ⟨⟨cbits, code, ec, rc, sc⟩, _⟩ := codeFacts_of_buildN h3 (n + (cb - 1)) (n + (cb - 1)) 272 _ w1 dep bts
      (by rw [h3l, h2l]; omega) (by omega) hsum (by omega) (Nat.le_refl _) hz hAb (by omega) hbt
    rw [hbt, Out.bind_ok]
    dsimp only
    -- the symbols
    have hsymT : ∀ t, t < n → SymIO dep bts code (trivCode cb t) := by
      intro t ht
      unfold trivCode
      by_cases h0 : t = 0
      · rw [if_pos h0]
        exact sc 0 (by omega) (by rw [h3g', if_neg (by omega), if_pos rfl]; decide)
      · rw [if_neg h0]
        exact sc _ (by omega) (by rw [h3g', if_pos (by omega)]; decide)
    have hsymR : SymIO dep bts code (cb - 1) :=
      sc _ (by omega) (by rw [h3g', if_neg (by omega), if_neg (by omega), if_pos rfl]; omega)
    obtain ⟨B, eB, rB⟩ := trivLoop dep bts code cb (n * 2 ^ cb) hcb2 hcb6 hsymR n 0 w1 (by omega)
      (fun t _ ht => hsymT t (by omega))
    have hfold : (List.range n).foldlM (fun w i => do
          let w ← storeSym dep bts (if i = 0 then 0 else (i + cb + two64 - 1) % two64) w
          let w ← storeSym dep bts (cb - 1) w
          writeBits ((cb - 1) % 256) (2 ^ (cb - 1) - 1) w) w1 = .ok (w1 ++ B) := by
      rw [← eB, List.range_eq_range']
      apply foldlM_congr_out
      intro x hx b
      have hx' : x < n := by simpa using hx
      have : (if x = 0 then 0 else (x + cb + two64 - 1) % two64) = trivCode cb x := by
        unfold trivCode
        by_cases h0 : x = 0
        · rw [if_pos h0, if_pos h0]
        · rw [if_neg h0, if_neg h0]
          have : x + cb + two64 - 1 = (x + cb - 1) + two64 := by omega
          rw [this, Nat.add_mod_right, Nat.mod_eq_of_lt (by unfold two64; omega)]
      rw [this]
    rw [hfold, Out.bind_ok, writeBits_ok 1 1 _ (by decide) (by decide)]
    refine ⟨vb ++ (bitsOf 1 1 ++ (bitsOf 4 (cb - 2) ++ (cbits ++ (B ++ bitsOf 1 1)))), ?_, ?_⟩
    · rw [ec]; simp [List.append_assoc]
    · intro rest
      unfold readContextMap
      rw [List.append_assoc, hv2]
      simp only
      rw [if_neg (by omega)]
      have hb1 : bitsOf 1 1 = [true] := by decide
      rw [hb1]
      simp only [List.cons_append, List.nil_append, if_true]
      rw [List.append_assoc, takeBits_bitsOf 4 (cb - 2) _ (by omega)]
      simp only [Option.map_some]
      have e1 : n - 1 + 1 + (cb - 2 + 1) = n + (cb - 1) := by omega
      have e2 : cb - 2 + 1 = cb - 1 := by omega
      have e3' : n - 1 + 1 = n := by omega
      rw [e1, e2, e3', List.append_assoc, rc]
      simp only
      have hsz : 2 * n + 1 ≤ n * 2 ^ cb := by
        have h4 : 4 ≤ 2 ^ cb := by
          have : (2 : Nat) ^ 2 ≤ 2 ^ cb := Nat.pow_le_pow_right (by decide) hcb2
          simpa using this
        have : n * 4 ≤ n * 2 ^ cb := Nat.mul_le_mul_left _ h4
        omega
      rw [List.append_assoc, rB [] ([true] ++ rest) (n * 2 ^ cb + 1) (by omega) (by simp)]
      obtain ⟨f', hf'⟩ : ∃ f', n * 2 ^ cb + 1 - 2 * n = f' + 1 := ⟨n * 2 ^ cb - 2 * n, by omega⟩
      have hent : [] ++ List.flatMap (fun t => t :: List.replicate (2 ^ cb - 1) 0) (List.range' 0 n)
          = trivEntries n (2 ^ cb) := by
        rw [List.nil_append, ← List.range_eq_range']; rfl
      rw [hf', hent, readCmapEntries_succ, if_pos (trivEntries_length n (2 ^ cb) (Nat.pow_pos (by decide)))]
      simp only [List.cons_append, List.nil_append, if_true]
      rw [imtf_trivial n (2 ^ cb) (Nat.pow_pos (by decide)) hn]
      rw [if_pos (by
        rw [List.all_eq_true]
        intro x hx
        have := trivialMap_lt n (2 ^ cb) x hx
        simpa using this)]

end BV.MetaBlock
