import BV.Lemmas.StreamTerm
/-
Termination, loop level: no step function ever returns `.fuel` by itself, and with fuel above
the potential the main loop does not run out of it.
-/
namespace BV.Stream
open BV.Bits

theorem pad_ne_fuel (s : St) : injectBytePaddingBlock s ≠ .fuel := by
  intro h
  unfold injectBytePaddingBlock at h
  split_all h
  all_goals simp at h

theorem push_ne_fuel (s : St) (io : Io) : injectFlushOrPushOutput s io ≠ .fuel := by
  intro h
  unfold injectFlushOrPushOutput at h
  simp only at h
  split_all h
  all_goals first
    | (simp at h; done)
    | (rename_i hq; exact absurd hq (pad_ne_fuel _))

theorem ringInitBuffer_ne_fuel (rb : Ring) (n : Nat) : ringInitBuffer rb n ≠ .fuel := by
  intro h
  unfold ringInitBuffer at h
  simp only at h
  split_all h
  all_goals simp at h

theorem ringGrow_ne_fuel (rb : Ring) : ringGrow rb ≠ .fuel := by
  intro h
  unfold ringGrow at h
  split_all h
  all_goals first
    | (simp at h; done)
    | (rename_i hq; exact absurd hq (ringInitBuffer_ne_fuel _ _))
    | (rename_i hq _; exact absurd hq (ringInitBuffer_ne_fuel _ _))
    | (exact absurd h (ringInitBuffer_ne_fuel _ _))

theorem ringWriteMain_ne_fuel (rb : Ring) (bs : Bytes) (a : Nat) : ringWriteMain rb bs a ≠ .fuel := by
  intro h
  unfold ringWriteMain at h
  simp only at h
  split_all h
  all_goals simp at h

theorem ringWrite_ne_fuel (rb : Ring) (bs : Bytes) (a : Nat) : ringWrite rb bs a ≠ .fuel := by
  intro h
  unfold ringWrite at h
  simp only at h
  split_all h
  all_goals first
    | (simp at h; done)
    | (rename_i hq; exact absurd hq (ringInitBuffer_ne_fuel _ _))
    | (rename_i hq _; exact absurd hq (ringInitBuffer_ne_fuel _ _))
    | (exact absurd h (ringInitBuffer_ne_fuel _ _))
    | (exact absurd h (ringWriteMain_ne_fuel _ _ _))
    | (rename_i hq; exact absurd hq (ringGrow_ne_fuel _))
    | (rename_i hq _; exact absurd hq (ringGrow_ne_fuel _))
    | (exact absurd h (ringGrow_ne_fuel _))

theorem copy_ne_fuel (s : St) (c : Bytes) (a : Nat) : copyInputToRingBuffer s c a ≠ .fuel := by
  intro h
  unfold copyInputToRingBuffer at h
  simp only at h
  split_all h
  all_goals first
    | (simp at h; done)
    | (rename_i hq; exact absurd hq (ringWrite_ne_fuel _ _ _))

theorem encPrelude_ne_fuel (s : St) (w : Writer) (hd b : Nat) : encPrelude s w hd b ≠ .fuel := by
  intro h
  unfold encPrelude at h
  simp only at h
  split_all h
  all_goals simp at h

theorem encPayload_ne_fuel (s : St) (a : Ans) (w0 w : Writer) (hd : Nat) (il ff : Bool) :
    encPayload s a w0 w hd il ff ≠ .fuel := by
  intro h
  unfold encPayload at h
  simp only at h
  split_all h
  all_goals simp at h

theorem encRest_ne_fuel (m : St × Writer × Nat) (a : Ans) (w0 : Writer) (b : Nat) (il ff : Bool) :
    encRest m a w0 b il ff ≠ .fuel := by
  intro h
  unfold encRest at h
  split at h
  · simp at h
  · rename_i hq; exact absurd hq (encPrelude_ne_fuel _ _ _ _)
  · exact absurd h (encPayload_ne_fuel _ _ _ _ _ _ _)

theorem encodeData_ne_fuel (o : Oracle) (s : St) (site : Nat) (il ff : Bool) : encodeData o s site il ff ≠ .fuel := by
  intro h
  unfold encodeData at h
  split at h
  · simp at h
  · split at h
    · simp at h
    · split at h
      · simp at h
      · split at h
        · simp at h
        · rename_i hq; exact absurd hq (encRest_ne_fuel _ _ _ _ _ _)
        · simp at h

theorem slowStep_ne_fuel (o : Oracle) (op : Nat) (s : St) (io : Io) : slowStep o op s io ≠ .fuel := by
  intro h
  unfold slowStep at h
  simp only at h
  split at h
  · split at h
    · simp at h
    · split at h
      · simp at h
      · simp at h
      · rename_i hq; exact absurd hq (copy_ne_fuel _ _ _)
  · split at h
    · simp at h
    · rename_i hq; exact absurd hq (push_ne_fuel _ _)
    · simp at h
    · split at h
      · split at h
        · simp at h
        · rename_i hq; exact absurd hq (encodeData_ne_fuel _ _ _ _ _)
        · split at h <;> simp at h
      · simp at h

/-- **the main loop terminates**: started with more fuel than the potential, it returns a
value or a (modelled) panic — it never runs out of fuel.  Hypotheses: the loop invariant and `Cap M`:
`M` bounds the staging buffer as it is and as this call can grow it (no hypothesis on the oracle). -/
theorem slowLoop_terminates {o : Oracle} {op M : Nat} {c0 : SState} {n total : Nat} (hop : op ≤ 2) :
    ∀ fuel s io, SlowInv op c0 n total s io → s.lastBytesBits ≤ 14 → Cap M s io → slowPot op M s io < fuel →
      slowLoop o op fuel s io ≠ .fuel := by
  intro fuel
  induction fuel with
  | zero => intro s io _ _ _ h; omega
  | succ k ih =>
    intro s io hP hl hC hpot
    unfold slowLoop
    have hnf := slowStep_ne_fuel o op s io
    split
    · simp
    · rename_i hh; exact absurd hh hnf
    · simp
    · rename_i s1 io1 hs
      have hnp : s.streamState ≠ .processing → io.availIn = 0 := by
        intro hne
        rcases hP.st with h1 | ⟨_, h2, _⟩
        · exact hP.nonproc (by rw [← h1]; exact hne)
        · exact h2
      obtain ⟨d1, _, d2⟩ := slowStep_decreases (M := M) hP.inv (by rw [hP.sum]; exact hP.nowrap) hnp hl hop hs
      obtain ⟨d3, d4⟩ := d1 hC
      exact ih s1 io1 (slowInv_step hP hs).2 d2 d4 (by omega)
    · simp

end BV.Stream
