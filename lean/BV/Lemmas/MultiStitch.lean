/-
Helper lemmas for C02/C06: the stitch loop of `CompressMulti` against a reference splice.
-/
import BV.Model.Multi

namespace BV.Lemmas.Multi
open BV.Multi BV.Multi.Res

/-! ## reference (spec side): the concatenator driven the way the API prescribes — per member
`new_brotli_file`, then ONE `stream` call with all the room that is left, which must consume
the member (`NeedsMoreInput`, or `Success`); then `finish`, which must answer `Success` -/

def goodCode (c : Nat) : Prop := c = BV.Concat.SUCCESS ∨ c = BV.Concat.NEEDS_MORE_INPUT

instance (c : Nat) : Decidable (goodCode c) := by unfold goodCode; infer_instance

def spliceMembers (cap : Nat) : List (List Nat) → BV.Concat.State → List Nat → Option (BV.Concat.State × List Nat)
  | [], s, out => some (s, out)
  | b :: bs, s, out =>
    match BV.Concat.stream (BV.Concat.newBrotliFile s) b (cap - out.length) with
    | .ok r => if goodCode r.code then spliceMembers cap bs r.st (out ++ r.produced) else none
    | .panic _ => none

def spliceFinish (cap : Nat) (s : BV.Concat.State) (out : List Nat) : Option (List Nat) :=
  match BV.Concat.finish s (cap - out.length) with
  | .ok f => if f.code = BV.Concat.SUCCESS then some (out ++ f.produced) else none
  | .panic _ => none

/-- the bytes a correct stitcher leaves in `output[..k]` for the members `bs` (in this order) and
an output buffer of `cap` bytes; `none` = some call did not answer as required -/
def spliceAll (cap : Nat) (bs : List (List Nat)) : Option (List Nat) :=
  match spliceMembers cap bs BV.Concat.State.new [] with
  | some (s, out) => spliceFinish cap s out
  | none => none

theorem spliceMembers_append (cap : Nat) : ∀ (xs ys : List (List Nat)) (s : BV.Concat.State) (out : List Nat),
    spliceMembers cap (xs ++ ys) s out =
      (spliceMembers cap xs s out).bind fun p => spliceMembers cap ys p.1 p.2 := by
  intro xs
  induction xs with
  | nil => intro ys s out; simp [spliceMembers]
  | cons b bs ih =>
    intro ys s out
    simp only [List.cons_append, spliceMembers]
    cases h : BV.Concat.stream (BV.Concat.newBrotliFile s) b (cap - out.length) with
    | panic t => simp
    | ok r =>
      dsimp only
      by_cases hg : goodCode r.code
      · rw [if_pos hg, if_pos hg]; exact ih ys r.st (out ++ r.produced)
      · rw [if_neg hg, if_neg hg]; simp

/-! ## inversion helpers -/

theorem bind_eq_ok {α β : Type} {x : Res α} {f : α → Res β} {v : β} (h : x.bind f = ok v) :
    ∃ a, x = ok a ∧ f a = ok v := by
  cases x with
  | panic s => simp [Res.bind] at h
  | hang => simp [Res.bind] at h
  | ok a => exact ⟨a, rfl, h⟩

theorem bind_ok {α β : Type} (a : α) (f : α → Res β) : (ok a : Res α).bind f = f a := rfl

def isErr (r : Except TErr Nat) : Prop := ∃ e, r = .error e
def isOk (r : Except TErr Nat) : Prop := ∃ k, r = .ok k

theorem not_isErr_ok {k : Nat} : ¬ isErr (.ok k) := by intro ⟨e, h⟩; cases h
theorem isOk_or_isErr (r : Except TErr Nat) : isOk r ∨ isErr r := by
  cases r with
  | ok k => exact Or.inl ⟨k, rfl⟩
  | error e => exact Or.inr ⟨e, rfl⟩

theorem codeToRes_good {c n : Nat} (h : goodCode c) : codeToRes c n = .ok n := by
  unfold codeToRes; unfold goodCode at h; rw [if_pos h]

theorem codeToRes_bad {c n : Nat} (h : ¬ goodCode c) : isErr (codeToRes c n) := by
  unfold codeToRes; unfold goodCode at h; rw [if_neg h]
  by_cases h2 : c = BV.Concat.NEEDS_MORE_OUTPUT
  · rw [if_pos h2]; exact ⟨_, rfl⟩
  · rw [if_neg h2]; exact ⟨_, rfl⟩

/-- `stitchOk` spelled out -/
theorem stitchOk_ok {cap : Nat} {a a' : Acc} {bytes : List Nat} (h : stitchOk cap a bytes = ok a') :
    ∃ r, BV.Concat.stream (BV.Concat.newBrotliFile a.cat) bytes (cap - a.out.length) = .ok r ∧
      a'.out = a.out ++ r.produced ∧ a'.cat = r.st ∧
      ((goodCode r.code ∧ a'.res = .ok (a.out ++ r.produced).length) ∨ (¬ goodCode r.code ∧ isErr a'.res)) := by
  unfold stitchOk at h
  cases hs : BV.Concat.stream (BV.Concat.newBrotliFile a.cat) bytes (cap - a.out.length) with
  | panic t => rw [hs] at h; simp at h
  | ok r =>
    rw [hs] at h
    simp only [ok.injEq] at h
    subst h
    refine ⟨r, rfl, rfl, rfl, ?_⟩
    by_cases hg : goodCode r.code
    · exact Or.inl ⟨hg, codeToRes_good hg⟩
    · exact Or.inr ⟨hg, codeToRes_bad hg⟩

/-- a failure is final: once `compression_result` is `Err`, the loop keeps it -/
theorem stitch_sticky (cap : Nat) : ∀ (js : List Joined) (a a' : Acc), isErr a.res →
    stitch cap js a = ok (.inl a') → a' = a := by
  intro js
  induction js with
  | nil => intro a a' _ h; simp [stitch] at h; exact h.symm
  | cons j js ih =>
    intro a a' he h
    obtain ⟨e, hea⟩ := he
    cases j with
    | never => simp [stitch] at h
    | execErr => simp [stitch] at h
    | ok bytes =>
      simp only [stitch, stitchArm, hea, bind_ok] at h
      exact ih a a' ⟨e, hea⟩ h
    | err =>
      simp only [stitch, errArm, hea] at h
      exact ih a a' ⟨e, hea⟩ h

theorem joined_ok_iff (sp : Spawner) (r : JobRes) (b : List Nat) : joined sp r = .ok b ↔ r = .ok b := by
  cases r <;> cases sp <;> simp [joined]

/-- soundness of the loop: it ends with `Ok` only if it started with `Ok`, every joined result is
`Ok(bytes)` and the reference splice of these members from the loop's start state succeeds with
the loop's final state and output -/
theorem stitch_sound (cap : Nat) : ∀ (js : List Joined) (a a' : Acc),
    stitch cap js a = ok (.inl a') → isOk a'.res →
    isOk a.res ∧ ∃ bs, js = bs.map Joined.ok ∧ spliceMembers cap bs a.cat a.out = some (a'.cat, a'.out) ∧
      (bs ≠ [] → a'.res = .ok a'.out.length) := by
  intro js
  induction js with
  | nil =>
    intro a a' h hok
    simp [stitch] at h; subst h
    exact ⟨hok, [], rfl, rfl, fun h => absurd rfl h⟩
  | cons j js ih =>
    intro a a' h hok
    -- the loop cannot have started from a failure
    have hstart : isOk a.res := by
      rcases isOk_or_isErr a.res with h1 | h1
      · exact h1
      · have := stitch_sticky cap (j :: js) a a' h1 h
        subst this
        obtain ⟨k, hk⟩ := hok; obtain ⟨e, he⟩ := h1; rw [hk] at he; cases he
    refine ⟨hstart, ?_⟩
    obtain ⟨k0, hk0⟩ := hstart
    cases j with
    | never => simp [stitch] at h
    | execErr => simp [stitch] at h
    | err =>
      simp only [stitch, errArm, hk0] at h
      have := stitch_sticky cap js _ a' ⟨_, rfl⟩ h
      subst this
      obtain ⟨k, hk⟩ := hok; cases hk
    | ok bytes =>
      simp only [stitch, stitchArm, hk0] at h
      obtain ⟨a1, h1, h2⟩ := bind_eq_ok h
      obtain ⟨r, hs, hout, hcat, hcode⟩ := stitchOk_ok h1
      rcases hcode with ⟨hg, hres⟩ | ⟨_, herr⟩
      · obtain ⟨_, bs, hjs, hsp, hlen⟩ := ih a1 a' h2 hok
        refine ⟨bytes :: bs, by rw [hjs]; rfl, ?_, ?_⟩
        · simp only [spliceMembers, hs, if_pos hg]
          rw [← hout, ← hcat]; exact hsp
        · intro _
          by_cases hb : bs = []
          · subst hb
            simp only [List.map_nil] at hjs; subst hjs
            simp [stitch] at h2; subst h2
            rw [hres, hout]
          · exact hlen hb
      · have := stitch_sticky cap js a1 a' herr h2
        subst this
        obtain ⟨k, hk⟩ := hok; obtain ⟨e, he⟩ := herr; rw [hk] at he; cases he

/-- completeness of the loop on all-`Ok` members whose reference splice succeeds -/
theorem stitch_complete (cap : Nat) : ∀ (bs : List (List Nat)) (a : Acc) (s' : BV.Concat.State) (out' : List Nat),
    isOk a.res → spliceMembers cap bs a.cat a.out = some (s', out') →
    ∃ k, stitch cap (bs.map Joined.ok) a = ok (.inl ⟨.ok k, out', s'⟩) ∧ (bs ≠ [] → k = out'.length) := by
  intro bs
  induction bs with
  | nil =>
    intro a s' out' hok h
    simp only [spliceMembers, Option.some.injEq, Prod.mk.injEq] at h
    obtain ⟨k, hk⟩ := hok
    refine ⟨k, ?_, fun h => absurd rfl h⟩
    simp only [List.map_nil, stitch]
    cases a; simp_all
  | cons b bs ih =>
    intro a s' out' hok h
    obtain ⟨k0, hk0⟩ := hok
    simp only [spliceMembers] at h
    cases hs : BV.Concat.stream (BV.Concat.newBrotliFile a.cat) b (cap - a.out.length) with
    | panic t => rw [hs] at h; simp at h
    | ok r =>
      rw [hs] at h
      dsimp only at h
      by_cases hg : goodCode r.code
      · rw [if_pos hg] at h
        have h1 : stitchOk cap a b = ok ⟨.ok (a.out ++ r.produced).length, a.out ++ r.produced, r.st⟩ := by
          unfold stitchOk
          rw [hs]
          simp only [codeToRes_good hg]
        obtain ⟨k, hk, hlen⟩ := ih ⟨.ok (a.out ++ r.produced).length, a.out ++ r.produced, r.st⟩ s' out' ⟨_, rfl⟩ h
        refine ⟨k, ?_, ?_⟩
        · simp only [List.map_cons, stitch, stitchArm, hk0, h1, bind_ok]
          exact hk
        · intro _
          by_cases hb : bs = []
          · subst hb
            simp only [List.map_nil, stitch, ok.injEq, Sum.inl.injEq, Acc.mk.injEq] at hk
            simp only [spliceMembers, Option.some.injEq, Prod.mk.injEq] at h
            rw [← h.2]; have := hk.1; injection this with this; exact this.symm
          · exact hlen hb
      · rw [if_neg hg] at h; simp at h

end BV.Lemmas.Multi
