import BV.Lemmas.LedgerCall
/-!
The IR logger's `CommandQueue`: for EVERY number of commands and EVERY number of pushes the queue's
allocations are balanced (one live queue block at any time, each growth frees the block it replaces,
`free` releases the last one), the queue is never over-full (so `free(..).unwrap()` cannot panic), and
the encoder's slots are untouched — one callee for which `ScopedBalanced` is proved, not assumed.
-/
namespace BV.Ledger

theorem Enc.ext_get {e e' : Enc} (h : ∀ s, e.get s = e'.get s) : e = e' := by
  have h1 := h .storage; have h2 := h .commands; have h3 := h .ring; have h4 := h .hasher
  have h5 := h .table; have h6 := h .cbuf; have h7 := h .lbuf; have h8 := h .ext; have h9 := h .self
  have h10 := h .mem; have h11 := h .input; have h12 := h .tmp; have h13 := h .tmp2; have h14 := h .aux
  cases e; cases e'
  simp only [Enc.get] at h1 h2 h3 h4 h5 h6 h7 h8 h9 h10 h11 h12 h13 h14
  simp [h1, h2, h3, h4, h5, h6, h7, h8, h9, h10, h11, h12, h13, h14]

/-- loop invariant of the pushes, relative to the world `u` in which the queue was created -/
structure QInv (u : W) (s : W × CQ) : Prop where
  inv : Inv s.1
  m8 : s.1.m8 = u.m8
  lost : s.1.lost = u.lost
  tmp : ∃ x, s.1.enc.tmp = [x]
  tmp2 : s.1.enc.tmp2 = []
  others : ∀ t, t ≠ .tmp → t ≠ .tmp2 → s.1.enc.get t = u.enc.get t
  notOver : s.2.overfull = false
  le : s.2.loc ≤ s.2.cap
  pos : 0 < s.2.cap

theorem cqGrow_owned (m8 : Nat) : ∀ a ∈ cqGrowActs m8, a.owned m8 := by
  intro a ha
  simp [cqGrowActs] at ha
  rcases ha with rfl | rfl | rfl <;> simp [Act.owned]

theorem cqGrow_frame (m8 : Nat) (t : Slot) (h1 : t ≠ .tmp) (h2 : t ≠ .tmp2) : ∀ a ∈ cqGrowActs m8, a.writes t = false := by
  intro a ha
  simp [cqGrowActs] at ha
  rcases ha with rfl | rfl | rfl <;> simp [Act.writes] <;> first | exact fun h => h2 h.symm | exact fun h => h1 h.symm | exact ⟨fun h => h2 h.symm, fun h => h1 h.symm⟩

theorem QInv.new (u : W) (hu : Inv u) (ht : u.enc.tmp = []) (ht2 : u.enc.tmp2 = []) (n : Nat) : QInv u (cqNew u n) := by
  refine ⟨?_, ?_, ?_, ?_, ?_, ?_, rfl, Nat.zero_le _, by simp [cqNew]⟩
  · exact hu.acts _ (by intro a ha; simp at ha; subst ha; simp [Act.owned])
  · simp [cqNew, acts_m8]
  · simp [cqNew, W.acts, W.act]
  · exact ⟨⟨u.m8, u.next⟩, by simp [cqNew, W.acts, W.act, Enc.get, Enc.set, fresh, ht]⟩
  · simp [cqNew, W.acts, W.act, Enc.get, Enc.set, ht2]
  · intro t h1 h2
    apply acts_frame
    intro a ha
    simp at ha; subst ha
    simp [Act.writes]
    exact fun h => h1 h.symm

theorem QInv.push {u : W} {s : W × CQ} (h : QInv u s) : QInv u (cqPush s) ∧ (cqPush s).2.loc = s.2.loc + 1 := by
  obtain ⟨x, hx⟩ := h.tmp
  have hno := h.notOver
  by_cases hfull : s.2.loc = s.2.cap
  · -- full: grow, then store
    have hne : s.2.cap ≠ s.2.cap * 2 := by have := h.pos; omega
    have hw : (cqPush s).1 = s.1.acts (cqGrowActs s.1.m8) := by simp [cqPush, hfull, hne]
    have hq : (cqPush s).2 = ⟨s.2.cap * 2, s.2.cap + 1, s.2.overfull⟩ := by simp [cqPush, hfull, hne]
    refine ⟨⟨?_, ?_, ?_, ?_, ?_, ?_, ?_, ?_, ?_⟩, by rw [hq, hfull]⟩
    · rw [hw]; exact h.inv.acts _ (cqGrow_owned _)
    · rw [hw, acts_m8]; exact h.m8
    · rw [hw]; simp [cqGrowActs, W.acts, W.act]; exact h.lost
    · rw [hw]
      exact ⟨⟨s.1.m8, s.1.next⟩, by simp [cqGrowActs, W.acts, W.act, Enc.get, Enc.set, fresh, hx, h.tmp2]⟩
    · rw [hw]; simp [cqGrowActs, W.acts, W.act, Enc.get, Enc.set, fresh, hx, h.tmp2]
    · intro t h1 h2
      rw [hw, acts_frame _ _ t (cqGrow_frame _ t h1 h2)]
      exact h.others t h1 h2
    · rw [hq]; exact hno
    · rw [hq]; simp; omega
    · rw [hq]; simp; have := h.pos; omega
  · have hw : (cqPush s).1 = s.1 := by simp [cqPush, hfull]
    have hq : (cqPush s).2 = ⟨s.2.cap, s.2.loc + 1, s.2.overfull⟩ := by simp [cqPush, hfull]
    refine ⟨⟨?_, ?_, ?_, ?_, ?_, ?_, ?_, ?_, ?_⟩, by rw [hq]⟩
    · rw [hw]; exact h.inv
    · rw [hw]; exact h.m8
    · rw [hw]; exact h.lost
    · rw [hw]; exact ⟨x, hx⟩
    · rw [hw]; exact h.tmp2
    · rw [hw]; exact h.others
    · rw [hq]; exact hno
    · rw [hq]; simp; have := h.le; omega
    · rw [hq]; exact h.pos

theorem QInv.pushN {u : W} : ∀ (k : Nat) (s : W × CQ), QInv u s →
    QInv u (cqPushN k s) ∧ (cqPushN k s).2.loc = s.2.loc + k := by
  intro k
  induction k with
  | zero => intro s h; exact ⟨h, rfl⟩
  | succ k ih =>
    intro s h
    obtain ⟨h1, h2⟩ := h.push
    obtain ⟨h3, h4⟩ := ih (cqPush s) h1
    exact ⟨h3, by simp only [cqPushN]; omega⟩

/-- the queue alone: created, pushed to any number of times, freed -/
theorem queue_balanced (u : W) (hu : Inv u) (ht : u.enc.tmp = []) (ht2 : u.enc.tmp2 = []) (n pushes : Nat) :
    Inv (cqFree (cqPushN pushes (cqNew u n))).1 ∧ (cqFree (cqPushN pushes (cqNew u n))).1.enc = u.enc ∧
    (cqFree (cqPushN pushes (cqNew u n))).1.lost = u.lost ∧ (cqFree (cqPushN pushes (cqNew u n))).1.m8 = u.m8 ∧
    (cqFree (cqPushN pushes (cqNew u n))).2 = true ∧ (cqPushN pushes (cqNew u n)).2.loc = pushes := by
  obtain ⟨h, hloc⟩ := QInv.pushN pushes _ (QInv.new u hu ht ht2 n)
  obtain ⟨x, hx⟩ := h.tmp
  refine ⟨?_, ?_, ?_, ?_, ?_, ?_⟩
  · exact h.inv.acts _ (by intro a ha; simp at ha; subst ha; simp [Act.owned])
  · apply Enc.ext_get
    intro t
    by_cases h1 : t = .tmp
    · subst h1; simp [cqFree, W.acts, W.act, Enc.get, Enc.set, ht]
    · have hfr : ((cqFree (cqPushN pushes (cqNew u n))).1).enc.get t = (cqPushN pushes (cqNew u n)).1.enc.get t := by
        apply acts_frame
        intro a ha
        simp at ha; subst ha
        simp [Act.writes]
        exact fun h => h1 h.symm
      rw [hfr]
      by_cases h2 : t = .tmp2
      · subst h2
        show (cqPushN pushes (cqNew u n)).1.enc.tmp2 = u.enc.tmp2
        rw [h.tmp2, ht2]
      · exact h.others t h1 h2
  · simp [cqFree, W.acts, W.act]; exact h.lost
  · simp [cqFree, acts_m8]; exact h.m8
  · simp [cqFree, h.notOver]
  · simpa [cqNew] using hloc

end BV.Ledger
