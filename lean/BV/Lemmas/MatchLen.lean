import BV.Model.MatchFinder
import BV.Lemmas.HasherLoop
/-! Soundness of the match-length functions: whatever they return is a common prefix length. -/
namespace BV.MatchFinder
open BV.Hasher

/-- `n` bytes exist at both offsets and agree -/
def Agree (data : ByteArray) (p q n : Nat) : Prop :=
  p + n ≤ data.size ∧ q + n ≤ data.size ∧
    ∀ k, k < n → (data.get! (p + k)).toNat = (data.get! (q + k)).toNat

theorem Agree.mono {data : ByteArray} {p q n m : Nat} (h : Agree data p q n) (hm : m ≤ n) :
    Agree data p q m :=
  ⟨by have := h.1; omega, by have := h.2.1; omega, fun k hk => h.2.2 k (by omega)⟩

theorem firstDiff_spec (data : ByteArray) (p q : Nat) : ∀ n,
    (firstDiff data p q n = none → ∀ k, k < n → (data.get! (p + k)).toNat = (data.get! (q + k)).toNat) ∧
    (∀ i, firstDiff data p q n = some i →
      i < n ∧ ∀ k, k < i → (data.get! (p + k)).toNat = (data.get! (q + k)).toNat) := by
  intro n
  induction n with
  | zero => exact ⟨fun _ k hk => absurd hk (Nat.not_lt_zero _), fun i h => by simp [firstDiff] at h⟩
  | succ n ih =>
    obtain ⟨ih1, ih2⟩ := ih
    simp only [firstDiff]
    cases hfd : firstDiff data p q n with
    | some j =>
      simp only []
      refine ⟨fun h => (by cases h), fun i h => ?_⟩
      injection h with h; subst h
      obtain ⟨a, b⟩ := ih2 j hfd
      exact ⟨by omega, b⟩
    | none =>
      simp only []
      have hall := ih1 hfd
      by_cases hne : (data.get! (p + n)).toNat ≠ (data.get! (q + n)).toNat
      · rw [if_pos hne]
        refine ⟨fun h => (by cases h), fun i h => ?_⟩
        injection h with h; subst h
        exact ⟨by omega, hall⟩
      · rw [if_neg hne]
        refine ⟨fun _ k hk => ?_, fun i h => by cases h⟩
        by_cases hkn : k = n
        · subst hkn; exact Decidable.of_not_not hne
        · exact hall k (by omega)

theorem cmpRun_some_none {data : ByteArray} {p q n : Nat} (h : cmpRun data p q n = some none) :
    Agree data p q n := by
  unfold cmpRun at h
  split at h
  · rename_i hb
    injection h with h
    exact ⟨hb.1, hb.2, (firstDiff_spec data p q n).1 h⟩
  · cases h

theorem cmpRun_some_some {data : ByteArray} {p q n i : Nat} (h : cmpRun data p q n = some (some i)) :
    i < n ∧ Agree data p q i := by
  unfold cmpRun at h
  split at h
  · rename_i hb
    injection h with h
    obtain ⟨a, b⟩ := (firstDiff_spec data p q n).2 i h
    exact ⟨a, by omega, by omega, b⟩
  · cases h

/-- `FindMatchLengthWithLimit` -/
theorem findMatchLengthWithLimit_sound {data : ByteArray} {p q limit r : Nat}
    (h : findMatchLengthWithLimit data p q limit = some r) : r ≤ limit ∧ Agree data p q r := by
  unfold findMatchLengthWithLimit at h
  cases hc : cmpRun data p q limit with
  | none => simp [hc] at h
  | some o =>
    cases o with
    | none =>
      simp only [hc, Option.some.injEq] at h
      subst h
      exact ⟨Nat.le_refl _, cmpRun_some_none hc⟩
    | some i =>
      simp only [hc, Option.some.injEq] at h
      subst h
      obtain ⟨a, b⟩ := cmpRun_some_some hc
      exact ⟨by omega, b⟩

theorem Agree.append {data : ByteArray} {p q a b : Nat} (h1 : Agree data p q a)
    (h2 : Agree data (p + a) (q + a) b) : Agree data p q (a + b) := by
  refine ⟨by have := h2.1; omega, by have := h2.2.1; omega, fun k hk => ?_⟩
  by_cases hka : k < a
  · exact h1.2.2 k hka
  · have := h2.2.2 (k - a) (by omega)
    rwa [show p + a + (k - a) = p + k by omega, show q + a + (k - a) = q + k by omega] at this

/-- the bytes agree up to `n` (no statement about the buffer length) -/
def EqUpTo (data : ByteArray) (p q n : Nat) : Prop :=
  ∀ k, k < n → (data.get! (p + k)).toNat = (data.get! (q + k)).toNat

theorem EqUpTo.append {data : ByteArray} {p q a b : Nat} (h1 : EqUpTo data p q a)
    (h2 : EqUpTo data (p + a) (q + a) b) : EqUpTo data p q (a + b) := by
  intro k hk
  by_cases hka : k < a
  · exact h1 k hka
  · have := h2 (k - a) (by omega)
    rwa [show p + a + (k - a) = p + k by omega, show q + a + (k - a) = q + k by omega] at this

/-- the chunk loop: some true common prefix `t ≥ matched` within the bytes covered -/
theorem cmpChunks_sound (data : ByteArray) (p q : Nat) : ∀ (cs : List Nat) (off m : Nat) (st : Bool)
    (off' m' : Nat), cmpChunks data p q cs off m = some (st, off', m') →
    EqUpTo data p q off → m ≤ off →
    ∃ t, m' ≤ t ∧ t ≤ off + cs.sum ∧ EqUpTo data p q t ∧
      (st = true → p + t ≤ data.size ∧ q + t ≤ data.size) ∧
      (st = false → off' = off + cs.sum ∧ t = off') := by
  intro cs
  induction cs with
  | nil =>
    intro off m st off' m' h ha hm
    simp only [cmpChunks, Option.some.injEq, Prod.mk.injEq] at h
    obtain ⟨rfl, rfl, rfl⟩ := h
    exact ⟨off, hm, by simp, ha, fun hh => (by cases hh), fun _ => ⟨by simp, rfl⟩⟩
  | cons c cs ih =>
    intro off m st off' m' h ha hm
    simp only [cmpChunks] at h
    cases hc : cmpRun data (p + off) (q + off) c with
    | none => simp [hc] at h
    | some o =>
      cases o with
      | some i =>
        simp only [hc, Option.some.injEq, Prod.mk.injEq] at h
        obtain ⟨rfl, rfl, rfl⟩ := h
        obtain ⟨hi, hag⟩ := cmpRun_some_some hc
        refine ⟨off + i, ?_, by simp only [List.sum_cons]; omega, ha.append hag.2.2,
          fun _ => ⟨by have := hag.1; omega, by have := hag.2.1; omega⟩, fun hf => (by cases hf)⟩
        exact Nat.le_trans (Nat.mod_le _ _) (by omega)
      | none =>
        simp only [hc] at h
        have hag := cmpRun_some_none hc
        obtain ⟨t, h1, h2, h3, h4, h5⟩ := ih (off + c) ((m + c) % U32) st off' m' h (ha.append hag.2.2)
          (Nat.le_trans (Nat.mod_le _ _) (by omega))
        exact ⟨t, h1, by simp only [List.sum_cons]; omega, h3, h4,
          fun hf => by obtain ⟨a, b⟩ := h5 hf; exact ⟨by simp only [List.sum_cons]; omega, b⟩⟩

theorem chunks_sum_le (limit : Nat) : (chunks limit).sum + limit % 8 ≤ limit := by
  unfold chunks
  split
  · simp; omega
  · simp only []
    split
    · simp only [List.sum_cons, List.sum_replicate_nat]; omega
    · split
      · simp only [List.sum_cons, List.sum_replicate_nat]; omega
      · split
        · simp only [List.sum_cons, List.sum_replicate_nat]; omega
        · simp only [List.sum_cons, List.sum_append, List.sum_replicate_nat]; omega

/-- `ComplexFindMatchLengthWithLimit` -/
theorem complex_sound {data : ByteArray} {p q limit r : Nat}
    (h : complexFindMatchLengthWithLimit data p q limit = some r) : r ≤ limit ∧ Agree data p q r := by
  unfold complexFindMatchLengthWithLimit at h
  have hsum := chunks_sum_le limit
  have h0 : EqUpTo data p q 0 := fun k hk => absurd hk (Nat.not_lt_zero _)
  cases hc : cmpChunks data p q (chunks limit) 0 0 with
  | none => simp [hc] at h
  | some x =>
    obtain ⟨st, off', m'⟩ := x
    obtain ⟨t, h1, h2, h3, h4, h5⟩ := cmpChunks_sound data p q _ 0 0 st off' m' hc h0 (Nat.le_refl _)
    cases st with
    | true =>
      simp only [hc, Option.some.injEq] at h
      subst h
      obtain ⟨b1, b2⟩ := h4 rfl
      exact ⟨by omega, by omega, by omega, fun k hk => h3 k (by omega)⟩
    | false =>
      obtain ⟨e1, e2⟩ := h5 rfl
      simp only [hc] at h
      split at h
      · rename_i hb
        cases hfd : firstDiff data (p + off') (q + off') (limit % 8) with
        | some i =>
          simp only [hfd, Option.some.injEq] at h
          subst h
          obtain ⟨hi, hall⟩ := (firstDiff_spec data (p + off') (q + off') (limit % 8)).2 i hfd
          have hag : EqUpTo data (p + t) (q + t) i := by rw [e2]; exact hall
          exact ⟨by omega, by omega, by omega, fun k hk => (h3.append hag) k (by omega)⟩
        | none =>
          simp only [hfd, Option.some.injEq] at h
          subst h
          have hall := (firstDiff_spec data (p + off') (q + off') (limit % 8)).1 hfd
          have hag : EqUpTo data (p + t) (q + t) (limit % 8) := by rw [e2]; exact hall
          exact ⟨by omega, by omega, by omega, fun k hk => (h3.append hag) k (by omega)⟩
      · cases h

/-- little-endian values of equally long byte lists agree only if the lists do -/
theorem le_inj : ∀ (a b : List Nat), a.length = b.length → (∀ x ∈ a, x < 256) → (∀ x ∈ b, x < 256) →
    le a = le b → a = b
  | [], [], _, _, _, _ => rfl
  | [], _ :: _, h, _, _, _ => by simp at h
  | _ :: _, [], h, _, _, _ => by simp at h
  | x :: xs, y :: ys, hl, ha, hb, h => by
    simp only [le] at h
    have hx := ha x List.mem_cons_self
    have hy := hb y List.mem_cons_self
    have h1 : x = y := by omega
    have h2 : le xs = le ys := by omega
    rw [h1, le_inj xs ys (by simpa using hl) (fun z hz => ha z (List.mem_cons_of_mem _ hz))
      (fun z hz => hb z (List.mem_cons_of_mem _ hz)) h2]

theorem win_getD {data : ByteArray} {p n : Nat} {w : List Nat} (h : win data p n = some w) (k : Nat)
    (hk : k < n) : w.getD k 0 = (data.get! (p + k)).toNat := by
  obtain ⟨_, rfl⟩ := win_eq_some h
  simp [List.getD, hk]

/-- `FindMatchLengthWithLimitMin4` -/
theorem min4_sound {data : ByteArray} {p q limit r : Nat}
    (h : findMatchLengthWithLimitMin4 data p q limit = some r) : r ≤ limit ∧ Agree data p q r := by
  unfold findMatchLengthWithLimitMin4 at h
  cases hw1 : win data p 5 with
  | none => simp [hw1] at h
  | some w1 =>
    cases hw2 : win data q 5 with
    | none => simp [hw1, hw2] at h
    | some w2 =>
      simp only [hw1, hw2] at h
      have hp := (win_eq_some hw1).1
      have hq := (win_eq_some hw2).1
      have ag0 : Agree data p q 0 := ⟨by omega, by omega, fun k hk => absurd hk (Nat.not_lt_zero _)⟩
      split at h
      · injection h with h; subst h; exact ⟨Nat.zero_le _, ag0⟩
      · rename_i heq
        have heq' : le (w1.take 4) = le (w2.take 4) := Decidable.of_not_not heq
        have t1 := win_sub hw1 0 4 (by omega)
        have t2 := win_sub hw2 0 4 (by omega)
        simp only [Nat.add_zero, List.drop_zero] at t1 t2
        have hlist := le_inj _ _ (by rw [win_length t1, win_length t2]) (win_lt t1) (win_lt t2) heq'
        have ag4 : Agree data p q 4 := by
          refine ⟨by omega, by omega, fun k hk => ?_⟩
          rw [← win_getD t1 k hk, ← win_getD t2 k hk, hlist]
        split at h
        · injection h with h; subst h
          exact ⟨Nat.min_le_left _ _, ag4.mono (Nat.min_le_right _ _)⟩
        · rename_i hcond
          have hlim : ¬ limit ≤ 4 := fun hh => hcond (Or.inl hh)
          have h5 : w1.getD 4 0 = w2.getD 4 0 := Decidable.of_not_not (fun hh => hcond (Or.inr hh))
          rw [win_getD hw1 4 (by omega), win_getD hw2 4 (by omega)] at h5
          have ag5 : Agree data p q 5 := by
            refine ⟨by omega, by omega, fun k hk => ?_⟩
            by_cases hk4 : k < 4
            · exact ag4.2.2 k hk4
            · have : k = 4 := by omega
              subst this; exact h5
          cases hc : complexFindMatchLengthWithLimit data (p + 5) (q + 5) (limit - 5) with
          | none => simp [hc] at h
          | some n =>
            simp only [hc, Option.some.injEq] at h
            subst h
            obtain ⟨hn, hag⟩ := complex_sound hc
            refine ⟨by omega, ?_⟩
            have := ag5.append hag
            rwa [Nat.add_comm 5 n] at this

/-- a non-zero result of `FindMatchLengthWithLimitMin4` is at least 4 when the limit allows it -/
theorem min4_ge4 {data : ByteArray} {p q limit r : Nat}
    (h : findMatchLengthWithLimitMin4 data p q limit = some r) (hr : r ≠ 0) (hl : 4 ≤ limit) : 4 ≤ r := by
  unfold findMatchLengthWithLimitMin4 at h
  cases hw1 : win data p 5 with
  | none => simp [hw1] at h
  | some w1 =>
    cases hw2 : win data q 5 with
    | none => simp [hw1, hw2] at h
    | some w2 =>
      simp only [hw1, hw2] at h
      split at h
      · injection h with h; exact absurd h.symm hr
      · split at h
        · injection h with h; subst h; omega
        · cases hc : complexFindMatchLengthWithLimit data (p + 5) (q + 5) (limit - 5) with
          | none => simp [hc] at h
          | some n => simp only [hc, Option.some.injEq] at h; omega

end BV.MatchFinder
