/-
C01 / meta-block writers, part 14: block splits.  `BuildAndStoreBlockSplitCode` against `readCatHeader`,
`StoreBlockSwitch` against the block switch of `Cat.next` (RFC 7932 §6: type code 0 = second-to-last type,
1 = last type + 1, else code − 2; block count code + extra bits), for every well-formed split.
-/
import BV.Lemmas.MetaBlockCmap

namespace BV.MetaBlock
open BV.Gen BV.Bits BV.Huffman BV.PrefixArith BV.Recoder
open BV.Header (writeBits_ok)
open BV.Lemmas.HuffmanRead (takeBits_bitsOf)
open BV.Lemmas.PrefixArith (blOff blBits)

theorem blockLen_table (c : Nat) (hc : c < 26) :
    rfcBlockLenTable[c]? = some (blOff c, blBits c) ∧ blBits c ≤ 24 := by
  have : ∀ i : Fin 26, rfcBlockLenTable[i.val]? = some (blOff i.val, blBits i.val) ∧ blBits i.val ≤ 24 := by
    decide +kernel
  exact this ⟨c, hc⟩

/-- a block length `1..2^24`: the length code and its extra bits, read back by `readBlockCount` -/
theorem blockLen_roundtrip (ld lb : List Nat) (cc : Code) (l : Nat) (h1 : 1 ≤ l) (h2 : l ≤ 2 ^ 24)
    (hio : SymIO ld lb cc (blockLengthPrefixCode l)) :
    ∃ sb eb, (∀ w, storeSym ld lb (getBlockLenCode l).1 w = Out.ok (w ++ sb)) ∧
      (∀ w, writeBits ((getBlockLenCode l).2.1 % 256) (getBlockLenCode l).2.2 w = Out.ok (w ++ eb)) ∧
      ∀ rest, readBlockCount cc (sb ++ eb ++ rest) = some (l, rest) := by
  obtain ⟨c26, lo, hi⟩ := BV.Props.C18.block_len_exact l h1 h2
  obtain ⟨htab, h24⟩ := blockLen_table _ c26
  obtain ⟨sb, hs, hr⟩ := hio
  have p24 : (2 : Nat) ^ 24 = 16777216 := by decide
  have hcode : (getBlockLenCode l).1 = blockLengthPrefixCode l := rfl
  have hnx : (getBlockLenCode l).2.1 = blBits (blockLengthPrefixCode l) := rfl
  have hex : (getBlockLenCode l).2.2 = l - blOff (blockLengthPrefixCode l) := by
    show (l + two32 - blOff (blockLengthPrefixCode l)) % two32 = _
    have : l + two32 - blOff (blockLengthPrefixCode l) = (l - blOff (blockLengthPrefixCode l)) + two32 := by omega
    rw [this, Nat.add_mod_right, Nat.mod_eq_of_lt (by unfold two32; omega)]
  generalize hC : blockLengthPrefixCode l = C at *
  generalize hB : blBits C = B at *
  generalize hO : blOff C = O at *
  refine ⟨sb, bitsOf B (l - O), ?_, ?_, ?_⟩
  · intro w
    rw [hcode, hs w]
  · intro w
    rw [hnx, hex, Nat.mod_eq_of_lt (by omega), writeBits_ok _ _ _ (by omega) (by omega)]
  · intro rest
    unfold readBlockCount
    rw [List.append_assoc, hr]
    simp only [htab]
    rw [takeBits_bitsOf _ _ _ (by omega)]
    simp only
    congr 2
    omega

/-- `StoreBlockSwitch` (either form): the calculator moves on, the count is read back -/
theorem storeBlockSwitch_ok (c : BSCode) (cc : Code) (l t : Nat) (first : Bool) (tb : List Bool)
    (h1 : 1 ≤ l) (h2 : l ≤ 2 ^ 24)
    (hio : SymIO c.lengthDepths c.lengthBits cc (blockLengthPrefixCode l))
    (ht : ∀ w, (if first then Out.ok w else
      storeSym c.typeDepths c.typeBits (nextBlockTypeCode c.last c.secondLast t).1 w) = .ok (w ++ tb)) :
    ∃ lbits, (∀ w, storeBlockSwitch c l t first w
        = .ok ({ c with last := t, secondLast := c.last }, w ++ tb ++ lbits)) ∧
      ∀ rest, readBlockCount cc (lbits ++ rest) = some (l, rest) := by
  obtain ⟨sb, eb, e1, e2, e3⟩ := blockLen_roundtrip _ _ cc l h1 h2 hio
  refine ⟨sb ++ eb, ?_, e3⟩
  intro w
  unfold storeBlockSwitch
  have hn : nextBlockTypeCode c.last c.secondLast t
      = ((nextBlockTypeCode c.last c.secondLast t).1, t, c.last) := rfl
  rw [hn]
  simp only
  rw [ht w, Out.bind_ok]
  rw [show getBlockLenCode l = ((getBlockLenCode l).1, (getBlockLenCode l).2.1, (getBlockLenCode l).2.2) from rfl]
  simp only
  rw [e1, Out.bind_ok, e2, Out.bind_ok, List.append_assoc, List.append_assoc]

/-! ### well-formed splits and their histograms -/

/-- the calculator's second-to-last type before block `j ≥ 1` -/
def secondAt (types : List Nat) (j : Nat) : Nat := if j = 1 then 1 else types.getD (j - 2) 0

/-- type code the writer emits for block `j ≥ 1` -/
def tcode (types : List Nat) (j : Nat) : Nat :=
  (nextBlockTypeCode (types.getD (j - 1) 0) (secondAt types j) (types.getD j 0)).1

/-- a split the format can express: at least one block, the first of type 0, types below `num_types ≤ 256`,
block lengths `1..2^24`, a single type means a single block -/
structure SplitOK (s : BSplit) : Prop where
  nb : s.numBlocks = s.types.length
  nl : s.lengths.length = s.types.length
  pos : 1 ≤ s.types.length
  cap : s.types.length ≤ 2 ^ 24
  t0 : s.types.getD 0 0 = 0
  tlt : ∀ j, j < s.types.length → s.types.getD j 0 < s.numTypes
  nt1 : 1 ≤ s.numTypes
  nt : s.numTypes ≤ 256
  len : ∀ j, j < s.types.length → 1 ≤ s.lengths.getD j 0 ∧ s.lengths.getD j 0 ≤ 2 ^ 24
  single : s.numTypes = 1 → s.types.length = 1

theorem tcode_lt (s : BSplit) (h : SplitOK s) (j : Nat) (hj : j < s.types.length) : tcode s.types j < s.numTypes + 2 := by
  unfold tcode nextBlockTypeCode
  simp only
  have := h.tlt j hj
  split
  · omega
  · split <;> omega

/-- the histogram step of one block `i ≥ 1` -/
theorem splitHistos_spec (s : BSplit) (h : SplitOK s) : ∀ (cnt i : Nat) (th lh T L : List Nat), 1 ≤ i →
    i + cnt = s.types.length → DataInv th 258 T → DataInv lh 26 L → T.length + cnt < two32 → L.length + cnt < two32 →
    ∃ th' lh', splitHistos s.types s.lengths cnt i (s.types.getD (i - 1) 0) (secondAt s.types i) th lh = .ok (th', lh') ∧
      DataInv th' 258 (T ++ (List.range cnt).map (fun k => tcode s.types (i + k))) ∧
      DataInv lh' 26 (L ++ (List.range cnt).map (fun k => blockLengthPrefixCode (s.lengths.getD (i + k) 0))) := by
  intro cnt
  induction cnt with
  | zero => intro i th lh T L _ _ ht hl _ _; exact ⟨th, lh, rfl, by simpa using ht, by simpa using hl⟩
  | succ cnt ih =>
    intro i th lh T L hi hsum ht hl hb1 hb2
    have hil : i < s.types.length := by omega
    have htc := tcode_lt s h i hil
    have hnt := h.nt
    obtain ⟨l1, l2⟩ := h.len i hil
    obtain ⟨c26, _, _⟩ := BV.Props.C18.block_len_exact _ l1 l2
    -- the two histogram updates
    obtain ⟨th1, e1, d1⟩ := symHisto_inv 258 [tcode s.types i] th T ht
      (fun x hx => by rw [List.mem_singleton.mp hx]; omega) (by simp; omega)
    obtain ⟨lh1, e2, d2⟩ := symHisto_inv 26 [blockLengthPrefixCode (s.lengths.getD i 0)] lh L hl
      (fun x hx => by rw [List.mem_singleton.mp hx]; omega) (by simp; omega)
    simp only [List.foldlM_cons, List.foldlM_nil] at e1 e2
    have hm1 : tcode s.types i % 512 = tcode s.types i := Nat.mod_eq_of_lt (by omega)
    have hm2 : blockLengthPrefixCode (s.lengths.getD i 0) % 512 = blockLengthPrefixCode (s.lengths.getD i 0) :=
      Nat.mod_eq_of_lt (by omega)
    rw [hm1] at e1
    rw [hm2] at e2
    simp only [List.map_cons, List.map_nil, hm1, hm2] at d1 d2
    have hnext : secondAt s.types (i + 1) = s.types.getD (i - 1) 0 := by
      unfold secondAt
      by_cases h1 : i = 1
      · subst h1; simp
      · rw [if_neg (by omega)]; congr 1
    obtain ⟨th', lh', e3, d3, d4⟩ := ih (i + 1) th1 lh1 _ _ (by omega) (by omega) d1 d2
      (by simp; omega) (by simp; omega)
    refine ⟨th', lh', ?_, ?_, ?_⟩
    · unfold splitHistos
      rw [getAt_getD s.types i hil, Out.bind_ok]
      have hcode : nextBlockTypeCode (s.types.getD (i - 1) 0) (secondAt s.types i) (s.types.getD i 0)
          = (tcode s.types i, s.types.getD i 0, s.types.getD (i - 1) 0) := rfl
      rw [hcode]
      simp only
      rw [if_pos (by omega)]
      have e1' : (do
          let c ← getAt th (tcode s.types i)
          setAt th (tcode s.types i) ((c + 1) % two32)) = Out.ok th1 := by
        have := e1; simp only [Out.bind_ok, Out.pure_eq] at this ⊢
        cases hg : (do
          let c ← getAt th (tcode s.types i)
          setAt th (tcode s.types i) ((c + 1) % two32)) with
        | ok x => rw [hg] at this; simpa using this
        | panic => rw [hg] at this; simp at this
        | fuel => rw [hg] at this; simp at this
      rw [e1', Out.bind_ok, getAt_getD s.lengths i (by rw [h.nl]; exact hil), Out.bind_ok]
      have e2' : (do
          let c ← getAt lh (blockLengthPrefixCode (s.lengths.getD i 0))
          setAt lh (blockLengthPrefixCode (s.lengths.getD i 0)) ((c + 1) % two32)) = Out.ok lh1 := by
        have := e2
        cases hg : (do
          let c ← getAt lh (blockLengthPrefixCode (s.lengths.getD i 0))
          setAt lh (blockLengthPrefixCode (s.lengths.getD i 0)) ((c + 1) % two32)) with
        | ok x => rw [hg] at this; simpa using this
        | panic => rw [hg] at this; simp at this
        | fuel => rw [hg] at this; simp at this
      have hlc : blockLengthPrefixCode (s.lengths.getD i 0) < lh.length := by rw [hl.len]; exact c26
      rw [getAt_getD lh _ hlc, Out.bind_ok] at e2'
      rw [getAt_getD lh _ hlc, Out.bind_ok, e2', Out.bind_ok, ← hnext]
      have : s.types.getD (i + 1 - 1) 0 = s.types.getD i 0 := by congr 1
      rw [this] at e3
      exact e3
    · have : (List.range (cnt + 1)).map (fun k => tcode s.types (i + k))
          = tcode s.types i :: (List.range cnt).map (fun k => tcode s.types (i + 1 + k)) := by
        rw [List.range_succ_eq_map, List.map_cons, List.map_map]
        congr 1
        apply List.map_congr_left
        intro k _
        simp only [Function.comp]
        have : i + (k + 1) = i + 1 + k := by omega
        rw [this]
      rw [this]
      simpa [List.append_assoc] using d3
    · have : (List.range (cnt + 1)).map (fun k => blockLengthPrefixCode (s.lengths.getD (i + k) 0))
          = blockLengthPrefixCode (s.lengths.getD i 0) ::
            (List.range cnt).map (fun k => blockLengthPrefixCode (s.lengths.getD (i + 1 + k) 0)) := by
        rw [List.range_succ_eq_map, List.map_cons, List.map_map]
        congr 1
        apply List.map_congr_left
        intro k _
        simp only [Function.comp]
        have : i + (k + 1) = i + 1 + k := by omega
        rw [this]
      rw [this]
      simpa [List.append_assoc] using d4

/-- the whole histogram loop of `BuildAndStoreBlockSplitCode` -/
theorem splitHistos_first (s : BSplit) (h : SplitOK s) :
    ∃ th lh, splitHistos s.types s.lengths s.numBlocks 0 1 0 (List.replicate 258 0) (List.replicate 26 0)
        = .ok (th, lh) ∧
      DataInv th 258 ((List.range (s.types.length - 1)).map (fun k => tcode s.types (1 + k))) ∧
      DataInv lh 26 ((List.range s.types.length).map (fun k => blockLengthPrefixCode (s.lengths.getD k 0))) := by
  have p24 : (2 : Nat) ^ 24 = 16777216 := by decide
  have hcap := h.cap
  obtain ⟨cnt, hc⟩ : ∃ cnt, s.types.length = cnt + 1 := ⟨s.types.length - 1, by have := h.pos; omega⟩
  obtain ⟨l1, l2⟩ := h.len 0 (by omega)
  obtain ⟨c26, _, _⟩ := BV.Props.C18.block_len_exact _ l1 l2
  obtain ⟨lh1, e2, d2⟩ := symHisto_inv 26 [blockLengthPrefixCode (s.lengths.getD 0 0)] (List.replicate 26 0) []
    (histoInv_zero 26).toData (fun x hx => by rw [List.mem_singleton.mp hx]; omega) (by unfold two32; simp)
  simp only [List.foldlM_cons, List.foldlM_nil] at e2
  have hm2 : blockLengthPrefixCode (s.lengths.getD 0 0) % 512 = blockLengthPrefixCode (s.lengths.getD 0 0) :=
    Nat.mod_eq_of_lt (by omega)
  rw [hm2] at e2
  simp only [List.map_cons, List.map_nil, hm2, List.nil_append] at d2
  obtain ⟨th', lh', e3, d3, d4⟩ := splitHistos_spec s h cnt 1 (List.replicate 258 0) lh1 [] _ (Nat.le_refl _)
    (by omega) (histoInv_zero 258).toData d2 (by unfold two32; simp; omega) (by unfold two32; simp; omega)
  refine ⟨th', lh', ?_, ?_, ?_⟩
  · rw [h.nb, hc]
    unfold splitHistos
    rw [getAt_getD s.types 0 (by omega), Out.bind_ok, h.t0]
    have hcode : nextBlockTypeCode 1 0 0 = ((nextBlockTypeCode 1 0 0).1, 0, 1) := rfl
    rw [hcode]
    simp only
    rw [if_neg (by omega), Out.bind_ok, getAt_getD s.lengths 0 (by rw [h.nl]; omega), Out.bind_ok]
    have hlc : blockLengthPrefixCode (s.lengths.getD 0 0) < (List.replicate 26 0).length := by
      rw [List.length_replicate]; exact c26
    have e2' : (do
        let c ← getAt (List.replicate 26 0) (blockLengthPrefixCode (s.lengths.getD 0 0))
        setAt (List.replicate 26 0) (blockLengthPrefixCode (s.lengths.getD 0 0)) ((c + 1) % two32)) = Out.ok lh1 := by
      have := e2
      cases hg : (do
        let c ← getAt (List.replicate 26 0) (blockLengthPrefixCode (s.lengths.getD 0 0))
        setAt (List.replicate 26 0) (blockLengthPrefixCode (s.lengths.getD 0 0)) ((c + 1) % two32)) with
      | ok x => rw [hg] at this; simpa using this
      | panic => rw [hg] at this; simp at this
      | fuel => rw [hg] at this; simp at this
    rw [getAt_getD _ _ hlc, Out.bind_ok] at e2'
    rw [getAt_getD _ _ hlc, Out.bind_ok, e2', Out.bind_ok]
    have h0 : s.types.getD (1 - 1) 0 = 0 := h.t0
    have h1 : secondAt s.types 1 = 1 := by unfold secondAt; rw [if_pos rfl]
    rw [h0, h1] at e3
    exact e3
  · rw [hc]; simpa using d3
  · rw [hc, List.range_succ_eq_map, List.map_cons, List.map_map]
    have : (fun k => blockLengthPrefixCode (s.lengths.getD k 0)) ∘ Nat.succ
        = fun k => blockLengthPrefixCode (s.lengths.getD (1 + k) 0) := by
      funext k; simp only [Function.comp]; rw [Nat.succ_eq_add_one, Nat.add_comm]
    rw [this]
    simpa using d4

/-- writer's block-split code and reader's category in lock step, at block `j` -/
structure CatInv (s : BSplit) (c : BSCode) (cat : Cat) (j : Nat) : Prop where
  jlt : j < s.types.length
  nbl : cat.nbl = s.numTypes
  btype : cat.btype = s.types.getD j 0
  second : 2 ≤ s.numTypes → cat.second = secondAt s.types (j + 1)
  last : 2 ≤ s.numTypes → c.last = s.types.getD j 0 ∧ c.secondLast = secondAt s.types (j + 1)
  tio : ∀ k, 1 ≤ k → k < s.types.length → SymIO c.typeDepths c.typeBits cat.typeCode (tcode s.types k)
  lio : ∀ k, 1 ≤ k → k < s.types.length →
    SymIO c.lengthDepths c.lengthBits cat.countCode (blockLengthPrefixCode (s.lengths.getD k 0))

/-- **`BuildAndStoreBlockSplitCode` against `readCatHeader`**: NBLTYPES, and for NBLTYPES ≥ 2 the two prefix
codes and the first block count -/
theorem blockSplitCode_roundtrip (s : BSplit) (h : SplitOK s) (w : Writer) :
    ∃ bits c cat, buildAndStoreBlockSplitCode s BSCode.init w = .ok (c, w ++ bits) ∧
      (∀ rest, readCatHeader (bits ++ rest) = some (cat, rest)) ∧ CatInv s c cat 0 ∧
      (2 ≤ s.numTypes → cat.count = s.lengths.getD 0 0) := by
  have p24 : (2 : Nat) ^ 24 = 16777216 := by decide
  have hnt := h.nt
  have hnt1 := h.nt1
  have hcap := h.cap
  have hpos := h.pos
  have hn64 : (s.numTypes + two64 - 1) % two64 = s.numTypes - 1 := by
    have : s.numTypes + two64 - 1 = (s.numTypes - 1) + two64 := by omega
    rw [this, Nat.add_mod_right, Nat.mod_eq_of_lt (by unfold two64; omega)]
  obtain ⟨th, lh, eh, dt, dl⟩ := splitHistos_first s h
  obtain ⟨vb, hv1, hv2⟩ := varLen8_roundtrip (s.numTypes - 1) (by omega) w
  unfold buildAndStoreBlockSplitCode
  rw [eh, Out.bind_ok]
  simp only
  rw [hn64, hv1, Out.bind_ok]
  by_cases h1 : s.numTypes = 1
  · rw [if_neg (by omega)]
    refine ⟨vb, BSCode.init, ⟨1, Code.single 0, Code.single 0, 0, 16777216, 1⟩, rfl, ?_, ?_, by omega⟩
    · intro rest
      unfold readCatHeader
      rw [hv2, h1]
      rfl
    · have hs := h.single h1
      exact ⟨by omega, h1.symm, h.t0.symm, fun h2 => by omega, fun h2 => by omega,
        fun k _ _ => by omega, fun k _ _ => by omega⟩
  · rw [if_pos (by omega)]
    have hm : (s.numTypes + 2) % two64 = s.numTypes + 2 := Nat.mod_eq_of_lt (by unfold two64; omega)
    rw [hm]
    -- the block type code
    have hsumT : th.sum ≤ 2 ^ 25 := by rw [dt.sum]; simp; omega
    have hzT : ∀ i, s.numTypes + 2 ≤ i → th.getD i 0 = 0 := by
      intro i hi
      rcases Nat.eq_zero_or_pos (th.getD i 0) with h0 | h0
      · exact h0
      · exfalso
        have := (dt.mem i).mp (by omega)
        simp only [List.mem_map, List.mem_range] at this
        obtain ⟨k, hk, rfl⟩ := this
        have := tcode_lt s h (1 + k) (by omega)
        omega
    have hAbT : s.numTypes + 2 ≤ 2 ^ alphabetBits (s.numTypes + 2) := by
      obtain ⟨_, hb⟩ := BV.Lemmas.HuffmanSimple.alphabetBits_facts (s.numTypes + 2) (by omega) (by omega)
      have := hb (s.numTypes + 2 - 1) (by omega)
      omega
    have hi1 : BSCode.init.typeDepths = List.replicate 258 0 := rfl
    have hi2 : BSCode.init.typeBits = List.replicate 258 0 := rfl
    have hi3 : BSCode.init.lengthDepths = List.replicate 26 0 := rfl
    have hi4 : BSCode.init.lengthBits = List.replicate 26 0 := rfl
    rw [hi1, hi2, hi3, hi4]
    obtain ⟨td, tb, w1, hbt⟩ := build_totalN th (s.numTypes + 2) (s.numTypes + 2) 258 (w ++ vb) (by omega)
      (by rw [dt.len]; omega) (by omega) hsumT (by omega) (Nat.le_refl _) hzT
    obtain ⟨⟨cb1, tc, ec1, rc1, sc1⟩, _⟩ := codeFacts_of_buildN th (s.numTypes + 2) (s.numTypes + 2) 258 _ w1 td tb
      (by rw [dt.len]; omega) (by omega) hsumT (by omega) (Nat.le_refl _) hzT hAbT (by omega) hbt
    rw [hbt, Out.bind_ok]
    simp only
    -- the block count code
    have hsumL : lh.sum ≤ 2 ^ 25 := by rw [dl.sum]; simp; omega
    have hzL : ∀ i, 26 ≤ i → lh.getD i 0 = 0 := by
      intro i hi
      rw [List.getD_eq_getElem?_getD, List.getElem?_eq_none (by rw [dl.len]; exact hi)]
      rfl
    have hAbL : 26 ≤ 2 ^ alphabetBits 26 := by decide
    obtain ⟨ld, lb, w2, hbl⟩ := build_totalN lh 26 26 26 w1 (by omega)
      (by rw [dl.len]; omega) (by omega) hsumL (by omega) (Nat.le_refl _) hzL
    obtain ⟨⟨cb2, cc, ec2, rc2, sc2⟩, _⟩ := codeFacts_of_buildN lh 26 26 26 _ w2 ld lb
      (by rw [dl.len]; omega) (by omega) hsumL (by omega) (Nat.le_refl _) hzL hAbL (by omega) hbl
    have hbl' : buildAndStoreHuffmanTree lh BROTLI_NUM_BLOCK_LEN_SYMBOLS BROTLI_NUM_BLOCK_LEN_SYMBOLS scratchTree
        (List.replicate 26 0) (List.replicate 26 0) w1 = .ok (ld, lb, w2) := hbl
    rw [hbl', Out.bind_ok]
    simp only
    rw [getAt_getD s.lengths 0 (by rw [h.nl]; omega), Out.bind_ok, getAt_getD s.types 0 (by omega), Out.bind_ok]
    -- symbols of every later block
    have lio : ∀ k, k < s.types.length → SymIO ld lb cc (blockLengthPrefixCode (s.lengths.getD k 0)) := by
      intro k hk
      obtain ⟨l1, l2⟩ := h.len k hk
      obtain ⟨c26, _, _⟩ := BV.Props.C18.block_len_exact _ l1 l2
      exact sc2 _ c26 ((dl.mem _).mpr (List.mem_map.mpr ⟨k, List.mem_range.mpr hk, rfl⟩))
    have tio : ∀ k, 1 ≤ k → k < s.types.length → SymIO td tb tc (tcode s.types k) := by
      intro k hk1 hk
      exact sc1 _ (tcode_lt s h k hk) ((dt.mem _).mpr (List.mem_map.mpr ⟨k - 1, List.mem_range.mpr (by omega),
        by rw [show 1 + (k - 1) = k by omega]⟩))
    obtain ⟨l1, l2⟩ := h.len 0 (by omega)
    obtain ⟨lbits, es, er⟩ := storeBlockSwitch_ok
      ({ BSCode.init with typeDepths := td, typeBits := tb, lengthDepths := ld, lengthBits := lb }) cc
      (s.lengths.getD 0 0) (s.types.getD 0 0) true [] l1 l2 (lio 0 (by omega)) (fun w => by simp)
    rw [es]
    refine ⟨vb ++ (cb1 ++ (cb2 ++ lbits)), ⟨s.types.getD 0 0, 1, td, tb, ld, lb⟩,
      ⟨s.numTypes, tc, cc, 0, s.lengths.getD 0 0, 1⟩, ?_, ?_, ?_, fun _ => rfl⟩
    · have : w2 ++ [] ++ lbits = w ++ (vb ++ (cb1 ++ (cb2 ++ lbits))) := by rw [ec2, ec1]; simp
      rw [this]; rfl
    · intro rest
      unfold readCatHeader
      rw [List.append_assoc, hv2]
      simp only
      rw [if_neg (by omega)]
      have e1 : s.numTypes - 1 + 1 + 2 = s.numTypes + 2 := by omega
      have e2 : s.numTypes - 1 + 1 = s.numTypes := by omega
      rw [e1, e2, List.append_assoc, rc1]
      simp only
      rw [List.append_assoc, rc2]
      simp only
      rw [er]
    · exact ⟨by omega, rfl, h.t0.symm, fun _ => by unfold secondAt; simp,
        fun _ => ⟨rfl, by unfold secondAt; simp⟩, tio, fun k _ hk => lio k hk⟩

/-! ### block switches -/

/-- the reader's decoding of a block type code inverts `NextBlockTypeCode` -/
theorem tcode_decode (last second t nbl : Nat) (hl : last < nbl) (ht : t < nbl) (hn : nbl ≤ 256) :
    (if (nextBlockTypeCode last second t).1 = 0 then second
      else if (nextBlockTypeCode last second t).1 = 1 then (if last + 1 ≥ nbl then 0 else last + 1)
      else (nextBlockTypeCode last second t).1 - 2) = t := by
  have hm : (last + 1) % two64 = last + 1 := Nat.mod_eq_of_lt (by unfold two64; omega)
  unfold nextBlockTypeCode
  simp only [hm]
  by_cases h1 : t = last + 1
  · rw [if_pos h1]; simp only [Nat.one_ne_zero, if_false, if_true]; rw [if_neg (by omega)]; exact h1.symm
  · rw [if_neg h1]
    by_cases h2 : t = second
    · rw [if_pos h2]; simp; exact h2.symm
    · rw [if_neg h2]; simp

theorem CatInv.two {s : BSplit} {c : BSCode} {cat : Cat} {j : Nat} (h : SplitOK s) (_ : CatInv s c cat j)
    (hj : j + 1 < s.types.length) : 2 ≤ s.numTypes := by
  rcases Nat.lt_or_ge s.numTypes 2 with h1 | h1
  · have := h.single (by have := h.nt1; omega); omega
  · exact h1

/-- the reader's category after the switch to a block of type `t` and length `l` -/
def Cat.switched (cat : Cat) (t l : Nat) : Cat := { cat with btype := t, count := l - 1, second := cat.btype }

/-- the writer's calculator after the switch to type `t` -/
def BSCode.switched (c : BSCode) (t : Nat) : BSCode := { c with last := t, secondLast := c.last }

/-- **one block switch**: `StoreBlockSwitch` for block `j + 1` against the switch branch of `Cat.next` -/
theorem switch_step (s : BSplit) (h : SplitOK s) (c : BSCode) (cat : Cat) (j : Nat) (hi : CatInv s c cat j)
    (hj : j + 1 < s.types.length) (h0 : cat.count = 0) :
    ∃ bits, (∀ w, storeBlockSwitch c (s.lengths.getD (j + 1) 0) (s.types.getD (j + 1) 0) false w
        = .ok (c.switched (s.types.getD (j + 1) 0), w ++ bits)) ∧
      (∀ rest, cat.next (bits ++ rest)
        = some (cat.switched (s.types.getD (j + 1) 0) (s.lengths.getD (j + 1) 0), rest)) ∧
      CatInv s (c.switched (s.types.getD (j + 1) 0))
        (cat.switched (s.types.getD (j + 1) 0) (s.lengths.getD (j + 1) 0)) (j + 1) := by
  have h2 := hi.two h hj
  obtain ⟨hl1, hl2⟩ := hi.last h2
  obtain ⟨l1, l2⟩ := h.len (j + 1) hj
  obtain ⟨tb, ts, tr⟩ := hi.tio (j + 1) (by omega) hj
  have htc : tcode s.types (j + 1) = (nextBlockTypeCode c.last c.secondLast (s.types.getD (j + 1) 0)).1 := by
    unfold tcode; rw [hl1, hl2]; rfl
  obtain ⟨lbits, es, er⟩ := storeBlockSwitch_ok c cat.countCode (s.lengths.getD (j + 1) 0) (s.types.getD (j + 1) 0)
    false tb l1 l2 (hi.lio (j + 1) (by omega) hj) (fun w => by
      simp only [Bool.false_eq_true, if_false]; rw [← htc]; exact ts w)
  have hdec := tcode_decode c.last c.secondLast (s.types.getD (j + 1) 0) s.numTypes
    (by rw [hl1]; exact h.tlt j hi.jlt) (h.tlt _ hj) h.nt
  refine ⟨tb ++ lbits, ?_, ?_, ?_⟩
  · intro w; rw [es, List.append_assoc]; rfl
  · intro rest
    unfold Cat.next
    rw [if_neg (by rw [hi.nbl]; omega), if_neg (by rw [h0]; simp), List.append_assoc, tr]
    simp only
    rw [htc, hi.second h2, hi.btype, hi.nbl, ← hl1, ← hl2, hdec, if_neg (by have := h.tlt _ hj; omega), er]
    simp only
    rw [if_neg (by omega)]
    rw [show cat.switched (s.types.getD (j + 1) 0) (s.lengths.getD (j + 1) 0) = ⟨cat.nbl, cat.typeCode, cat.countCode,
      s.types.getD (j + 1) 0, s.lengths.getD (j + 1) 0 - 1, cat.btype⟩ from rfl, hi.nbl, hi.btype, hl1]
  · exact ⟨hj, hi.nbl, rfl, fun _ => by
        show cat.btype = secondAt s.types (j + 1 + 1)
        unfold secondAt; rw [if_neg (by omega), hi.btype]; rfl,
      fun _ => ⟨rfl, by
        show c.last = secondAt s.types (j + 1 + 1)
        unfold secondAt; rw [if_neg (by omega), hl1]; rfl⟩, hi.tio, hi.lio⟩

theorem CatInv.setCount {s : BSplit} {c : BSCode} {cat : Cat} {j : Nat} (hi : CatInv s c cat j) (n : Nat) :
    CatInv s c { cat with count := n } j :=
  ⟨hi.jlt, hi.nbl, hi.btype, hi.second, hi.last, hi.tio, hi.lio⟩

theorem zip_drop (s : BSplit) (h : SplitOK s) (k : Nat) (hk : k < s.types.length) :
    (s.types.zip s.lengths).drop k = (s.types.getD k 0, s.lengths.getD k 0) :: (s.types.zip s.lengths).drop (k + 1) := by
  have hl : k < (s.types.zip s.lengths).length := by rw [List.length_zip, h.nl]; omega
  rw [List.drop_eq_getElem_cons hl, List.getElem_zip]
  congr 2
  · rw [List.getD_eq_getElem?_getD, List.getElem?_eq_getElem hk]; rfl
  · rw [List.getD_eq_getElem?_getD, List.getElem?_eq_getElem (by rw [h.nl]; exact hk)]; rfl

/-- all block switches after block `j`, written by `StoreBlockSwitch` and read by `Cat.next` -/
theorem switches_roundtrip (s : BSplit) (h : SplitOK s) : ∀ (n j : Nat) (c : BSCode) (cat : Cat)
    (acc : List (Nat × Nat)) (w : Writer), CatInv s c cat j → j + 1 + n = s.types.length →
    ∃ bits c', ((s.types.zip s.lengths).drop (j + 1)).foldlM (fun (cw : BSCode × Writer) tl =>
        storeBlockSwitch cw.1 tl.2 tl.1 false cw.2) (c, w) = .ok (c', w ++ bits) ∧
      ∀ rest, readSwitches n cat (bits ++ rest) acc
        = some (acc.reverse ++ (s.types.zip s.lengths).drop (j + 1), rest) := by
  intro n
  induction n with
  | zero =>
    intro j c cat acc w hi hn
    have : (s.types.zip s.lengths).drop (j + 1) = [] := by
      apply List.drop_eq_nil_of_le; rw [List.length_zip, h.nl]; omega
    rw [this]
    exact ⟨[], c, by simp, fun rest => by simp [readSwitches]⟩
  | succ n ih =>
    intro j c cat acc w hi hn
    have hj : j + 1 < s.types.length := by omega
    obtain ⟨l1, l2⟩ := h.len (j + 1) hj
    obtain ⟨b1, e1, r1, i1⟩ := switch_step s h c { cat with count := 0 } j (hi.setCount 0) hj rfl
    obtain ⟨b2, c', e2, r2⟩ := ih (j + 1) _ _ ((s.types.getD (j + 1) 0, s.lengths.getD (j + 1) 0) :: acc) (w ++ b1) i1
      (by omega)
    refine ⟨b1 ++ b2, c', ?_, ?_⟩
    · rw [zip_drop s h (j + 1) hj, List.foldlM_cons]
      simp only
      rw [e1, Out.bind_ok, e2, List.append_assoc]
    · intro rest
      unfold readSwitches
      rw [List.append_assoc, r1]
      simp only
      have hc : (Cat.switched { cat with count := 0 } (s.types.getD (j + 1) 0) (s.lengths.getD (j + 1) 0)).count + 1
          = s.lengths.getD (j + 1) 0 := by
        show s.lengths.getD (j + 1) 0 - 1 + 1 = _; omega
      have hb : (Cat.switched { cat with count := 0 } (s.types.getD (j + 1) 0) (s.lengths.getD (j + 1) 0)).btype
          = s.types.getD (j + 1) 0 := rfl
      rw [hc, hb, r2, zip_drop s h (j + 1) hj]
      simp

/-! ### the block encoder before a symbol -/

/-- symbols the category can still emit: `rem` in the current block `j` and all later blocks -/
def budget (s : BSplit) (j rem : Nat) : Nat := rem + (s.lengths.drop (j + 1)).sum

/-- the block types of the symbols the category can still emit (one entry per symbol) -/
def remTypes (s : BSplit) (j rem : Nat) : List Nat :=
  List.replicate rem (s.types.getD j 0) ++
    ((s.types.zip s.lengths).drop (j + 1)).flatMap (fun tl => List.replicate tl.2 tl.1)

theorem flatMap_replicate_length : ∀ (ts ls : List Nat), ts.length = ls.length →
    ((ts.zip ls).flatMap (fun tl => List.replicate tl.2 tl.1)).length = ls.sum := by
  intro ts
  induction ts with
  | nil => intro ls h; cases ls with
    | nil => rfl
    | cons _ _ => simp at h
  | cons t ts ih =>
    intro ls h
    cases ls with
    | nil => simp at h
    | cons l ls =>
      simp only [List.zip_cons_cons, List.flatMap_cons, List.length_append, List.length_replicate, List.sum_cons]
      rw [ih ls (by simpa using h)]

theorem drop_zip' : ∀ (n : Nat) (a b : List Nat), (a.zip b).drop n = (a.drop n).zip (b.drop n)
  | 0, _, _ => rfl
  | _ + 1, [], _ => by simp
  | _ + 1, _ :: _, [] => by simp
  | n + 1, _ :: as, _ :: bs => by simp [drop_zip' n as bs]

theorem remTypes_length (s : BSplit) (h : SplitOK s) (j rem : Nat) : (remTypes s j rem).length = budget s j rem := by
  unfold remTypes budget
  rw [List.length_append, List.length_replicate, drop_zip',
    flatMap_replicate_length _ _ (by rw [List.length_drop, List.length_drop, h.nl])]

/-- writer's `BlockEncoder` and reader's category in lock step, at block `j`; `mult` is the factor
of `entropy_ix_` (`histogram_length_`, or `1 << context_bits`) -/
structure EncInv (s : BSplit) (mult : Nat) (e : BEnc) (cat : Cat) (j : Nat) : Prop where
  split : e.split = s
  ix : e.blockIx = j
  ci : CatInv s e.code cat j
  cnt : 2 ≤ s.numTypes → cat.count = e.blockLen
  ent : e.entropyIx = s.types.getD j 0 * mult
  le : e.blockLen ≤ 2 ^ 24

def BEnc.atBlock (e : BEnc) (j len ent : Nat) (c : BSCode) : BEnc :=
  { e with blockIx := j, blockLen := len, entropyIx := ent, code := c }

theorem adv_step (s : BSplit) (h : SplitOK s) (mult : Nat) (e : BEnc) (cat : Cat) (j : Nat) (shift : Option Nat)
    (hE : EncInv s mult e cat j)
    (hmS : ∀ cb, shift = some cb → mult = 2 ^ cb) (hmN : shift = none → mult = e.histLen) (hm : 256 * mult < two64)
    (hb : 1 ≤ budget s j e.blockLen) :
    ∃ bits e' cat' j', (∀ w, e.adv shift w = .ok (e', w ++ bits)) ∧
      (∀ rest, cat.next (bits ++ rest) = some (cat', rest)) ∧ EncInv s mult e' cat' j' ∧
      budget s j' e'.blockLen + 1 = budget s j e.blockLen ∧
      remTypes s j e.blockLen = s.types.getD j' 0 :: remTypes s j' e'.blockLen ∧
      e'.depths = e.depths ∧ e'.bits = e.bits ∧ e'.histLen = e.histLen := by
  have p24 : (2 : Nat) ^ 24 = 16777216 := by decide
  have hle := hE.le
  by_cases h0 : e.blockLen = 0
  · -- a block switch
    have hj : j + 1 < s.types.length := by
      rcases Nat.lt_or_ge (j + 1) s.types.length with hlt | hge
      · exact hlt
      · exfalso
        have : s.lengths.drop (j + 1) = [] := List.drop_eq_nil_of_le (by rw [h.nl]; exact hge)
        unfold budget at hb; rw [this, h0] at hb; simp at hb
    have h2 := hE.ci.two h hj
    obtain ⟨l1, l2⟩ := h.len (j + 1) hj
    have htl := h.tlt (j + 1) hj
    have hnt := h.nt
    obtain ⟨b1, e1, r1, i1⟩ := switch_step s h e.code cat j hE.ci hj (by rw [hE.cnt h2]; exact h0)
    have hix : (e.blockIx + 1) % two64 = j + 1 := by
      rw [hE.ix]; exact Nat.mod_eq_of_lt (by have := h.cap; unfold two64; omega)
    have hent : ∀ sh : Option Nat, sh = shift → (match sh with
        | some cb => (s.types.getD (j + 1) 0 * 2 ^ cb) % two64
        | none => (s.types.getD (j + 1) 0 * e.histLen) % two64) = s.types.getD (j + 1) 0 * mult := by
      intro sh hsh
      have hlt : s.types.getD (j + 1) 0 * mult < two64 :=
        Nat.lt_of_le_of_lt (Nat.mul_le_mul_right _ (by omega)) hm
      cases sh with
      | some cb => simp only; rw [← hmS cb hsh.symm]; exact Nat.mod_eq_of_lt hlt
      | none => simp only; rw [← hmN hsh.symm]; exact Nat.mod_eq_of_lt hlt
    have hdec : (s.lengths.getD (j + 1) 0 + two64 - 1) % two64 = s.lengths.getD (j + 1) 0 - 1 := by
      have : s.lengths.getD (j + 1) 0 + two64 - 1 = (s.lengths.getD (j + 1) 0 - 1) + two64 := by omega
      rw [this, Nat.add_mod_right, Nat.mod_eq_of_lt (by unfold two64; omega)]
    refine ⟨b1, e.atBlock (j + 1) (s.lengths.getD (j + 1) 0 - 1) (s.types.getD (j + 1) 0 * mult)
        (e.code.switched (s.types.getD (j + 1) 0)),
      cat.switched (s.types.getD (j + 1) 0) (s.lengths.getD (j + 1) 0), j + 1, ?_, r1, ?_, ?_, ?_, rfl, rfl, rfl⟩
    · intro w
      unfold BEnc.adv BEnc.switchIfNeeded
      rw [if_pos h0, hix, hE.split]
      simp only []
      rw [getAt_getD s.lengths _ (by rw [h.nl]; exact hj), Out.bind_ok,
        getAt_getD s.types _ hj, Out.bind_ok, e1, Out.bind_ok]
      simp only [Out.bind_ok]
      rw [hdec]
      cases shift with
      | some cb => have := hent (some cb) rfl; simp only at this ⊢; rw [this]; unfold BEnc.atBlock; rw [hE.split]
      | none => have := hent none rfl; simp only at this ⊢; rw [this]; unfold BEnc.atBlock; rw [hE.split]
    · exact ⟨hE.split, rfl, i1, fun _ => rfl, rfl, by show s.lengths.getD (j + 1) 0 - 1 ≤ 2 ^ 24; omega⟩
    · unfold budget
      rw [h0]
      have : s.lengths.drop (j + 1) = s.lengths.getD (j + 1) 0 :: s.lengths.drop (j + 1 + 1) := by
        have hl : j + 1 < s.lengths.length := by rw [h.nl]; exact hj
        rw [List.drop_eq_getElem_cons hl, List.getD_eq_getElem?_getD, List.getElem?_eq_getElem hl]; rfl
      rw [this, List.sum_cons]
      show s.lengths.getD (j + 1) 0 - 1 + _ + 1 = _
      omega
    · unfold remTypes
      rw [h0, List.replicate_zero, List.nil_append, zip_drop s h (j + 1) hj, List.flatMap_cons]
      show _ = _ :: (List.replicate (s.lengths.getD (j + 1) 0 - 1) _ ++ _)
      obtain ⟨l', hl'⟩ : ∃ l', s.lengths.getD (j + 1) 0 = l' + 1 := ⟨s.lengths.getD (j + 1) 0 - 1, by omega⟩
      rw [hl', List.replicate_succ, Nat.add_sub_cancel]
      rfl
  · -- inside a block
    have hdec : (e.blockLen + two64 - 1) % two64 = e.blockLen - 1 := by
      have : e.blockLen + two64 - 1 = (e.blockLen - 1) + two64 := by omega
      rw [this, Nat.add_mod_right, Nat.mod_eq_of_lt (by unfold two64; omega)]
    refine ⟨[], { e with blockLen := e.blockLen - 1 },
      (if cat.nbl < 2 then cat else { cat with count := cat.count - 1 }), j, ?_, ?_, ?_, ?_, ?_, rfl, rfl, rfl⟩
    · intro w
      unfold BEnc.adv BEnc.switchIfNeeded
      rw [if_neg h0, Out.bind_ok]
      simp only
      rw [hdec, List.append_nil]
    · intro rest
      unfold Cat.next
      by_cases hn : cat.nbl < 2
      · rw [if_pos hn, if_pos hn]; rfl
      · rw [if_neg hn, if_neg hn, if_pos (by rw [hE.cnt (by rw [← hE.ci.nbl]; omega)]; exact h0)]; rfl
    · by_cases hn : cat.nbl < 2
      · rw [if_pos hn]
        exact ⟨hE.split, hE.ix, hE.ci, fun h2 => by rw [← hE.ci.nbl] at h2; omega, hE.ent,
          by show e.blockLen - 1 ≤ 2 ^ 24; omega⟩
      · rw [if_neg hn]
        exact ⟨hE.split, hE.ix, hE.ci.setCount _, fun h2 => by
            show cat.count - 1 = e.blockLen - 1
            rw [hE.cnt h2], hE.ent, by show e.blockLen - 1 ≤ 2 ^ 24; omega⟩
    · unfold budget
      show e.blockLen - 1 + _ + 1 = _
      omega
    · unfold remTypes
      show _ = _ :: (List.replicate (e.blockLen - 1) _ ++ _)
      obtain ⟨l', hl'⟩ : ∃ l', e.blockLen = l' + 1 := ⟨e.blockLen - 1, by omega⟩
      rw [hl', List.replicate_succ, Nat.add_sub_cancel]
      rfl

end BV.MetaBlock
