/-
C01 / greedy builder, part 14: `BrotliOptimizeHuffmanCountsForRle` (model of C17) always returns — no index out of
range in its six loops — on a histogram of at least `length` entries with a `good_for_rle` buffer of at least `length`.
-/
import BV.Lemmas.GreedyOptSum
import BV.Lemmas.GreedyOpt

namespace BV.Greedy
open BV.Bits BV.Huffman BV.MetaBlock BV.Lemmas.HuffmanOptRle

theorem countNonzeroLoop_total (counts : List Nat) : ∀ (c i acc : Nat), i + c ≤ counts.length →
    ∃ r, countNonzeroLoop counts c i acc = .ok r
  | 0, _, acc, _ => ⟨acc, rfl⟩
  | c + 1, i, acc, h => by
    simp only [countNonzeroLoop]
    rw [getAt_getD' counts i 0 (by omega), Out.bind_ok]
    exact countNonzeroLoop_total counts c (i + 1) _ (by omega)

theorem trimLoop_total (counts : List Nat) : ∀ (l : Nat), l ≤ counts.length → ∃ r, trimLoop counts l = .ok r
  | 0, _ => ⟨0, rfl⟩
  | l + 1, h => by
    simp only [trimLoop]
    rw [getAt_getD' counts l 0 (by omega), Out.bind_ok]
    split
    · exact trimLoop_total counts l (by omega)
    · exact ⟨_, rfl⟩

theorem smallestLoop_total (counts : List Nat) : ∀ (c i nz sm : Nat), i + c ≤ counts.length →
    ∃ nz' sm', smallestLoop counts c i nz sm = .ok (nz', sm') ∧ nz' ≤ nz + c
  | 0, _, nz, sm, _ => ⟨nz, sm, rfl, by omega⟩
  | c + 1, i, nz, sm, h => by
    simp only [smallestLoop]
    rw [getAt_getD' counts i 0 (by omega), Out.bind_ok]
    split
    · obtain ⟨a, b, e, hle⟩ := smallestLoop_total counts c (i + 1) (nz + 1) _ (by omega)
      exact ⟨a, b, e, by omega⟩
    · obtain ⟨a, b, e, hle⟩ := smallestLoop_total counts c (i + 1) nz sm (by omega)
      exact ⟨a, b, e, by omega⟩

theorem fillLoop_total : ∀ (c i : Nat) (cur : List Nat), i + c + 1 ≤ cur.length → ∃ r, fillLoop c i cur = .ok r
  | 0, _, cur, _ => ⟨cur, rfl⟩
  | c + 1, i, cur, h => by
    simp only [fillLoop]
    rw [getAt_getD' cur (i - 1) 0 (by omega), Out.bind_ok, getAt_getD' cur i 0 (by omega), Out.bind_ok,
      getAt_getD' cur (i + 1) 0 (by omega), Out.bind_ok]
    split
    · rw [setAt_ok' cur i 1 (by omega), Out.bind_ok]
      exact fillLoop_total c (i + 1) _ (by rw [List.length_set]; omega)
    · rw [Out.bind_ok]
      exact fillLoop_total c (i + 1) cur (by omega)

theorem setRun_total (i v : Nat) (hi : i < u64) : ∀ (c k : Nat) (arr : List Nat), k + c ≤ i → i ≤ arr.length →
    ∃ r, setRun i v c k arr = .ok r ∧ r.length = arr.length
  | 0, _, arr, _, _ => ⟨arr, rfl, rfl⟩
  | c + 1, k, arr, h, hl => by
    simp only [setRun]
    have hidx : (i + u64 - k + u64 - 1) % u64 = i - k - 1 := by
      have : i + u64 - k + u64 - 1 = (i - k - 1) + 2 * u64 := by omega
      rw [this, Nat.add_mul_mod_self_right, Nat.mod_eq_of_lt (by omega)]
    rw [hidx, setAt_ok' arr (i - k - 1) v (by omega), Out.bind_ok]
    obtain ⟨r, e, hr⟩ := setRun_total i v hi c (k + 1) (arr.set (i - k - 1) v) (by omega) (by rw [List.length_set]; exact hl)
    exact ⟨r, e, by rw [hr, List.length_set]⟩

theorem markLoop_total (counts : List Nat) (length : Nat) (hlen : length ≤ counts.length) (hl64 : length < 2 ^ 32) :
    ∀ (c i symbol step : Nat) (good : List Nat), i + c = length + 1 → step ≤ i → length ≤ good.length →
    ∃ r, markLoop counts length c i symbol step good = .ok r ∧ r.length = good.length
  | 0, _, _, _, good, _, _, _ => ⟨good, rfl, rfl⟩
  | c + 1, i, symbol, step, good, hic, hst, hg => by
    simp only [markLoop]
    have hci : ∃ ci, (if i = length then Out.ok symbol else getAt counts i) = .ok ci := by
      by_cases h : i = length
      · rw [if_pos h]; exact ⟨_, rfl⟩
      · rw [if_neg h, getAt_getD' counts i 0 (by omega)]; exact ⟨_, rfl⟩
    obtain ⟨ci, hci⟩ := hci
    rw [hci, Out.bind_ok]
    split
    · have hgood : ∃ g1, (if (symbol = 0 ∧ step ≥ 5) ∨ (symbol ≠ 0 ∧ step ≥ 7) then setRun i 1 step 0 good
          else Out.ok good) = .ok g1 ∧ g1.length = good.length := by
        split
        · exact setRun_total i 1 (by unfold u64; omega) step 0 good (by omega) (by omega)
        · exact ⟨good, rfl, rfl⟩
      obtain ⟨g1, hg1, hgl⟩ := hgood
      rw [hg1, Out.bind_ok]
      obtain ⟨r, e, hr⟩ := markLoop_total counts length hlen hl64 c (i + 1) _ 1 g1 (by omega) (by omega) (by omega)
      exact ⟨r, e, by rw [hr, hgl]⟩
    · exact markLoop_total counts length hlen hl64 c (i + 1) symbol (step + 1) good (by omega) (by omega) hg

theorem strideBreak_total (counts good : List Nat) (length i limit : Nat) (hi : i ≤ length) (hc : length ≤ counts.length)
    (hg : length ≤ good.length) : ∃ b, strideBreak counts good length i limit = .ok b := by
  unfold strideBreak
  by_cases h : i = length
  · rw [if_pos h]; exact ⟨_, rfl⟩
  · rw [if_neg h, getAt_getD' good i 0 (by omega), Out.bind_ok]
    split
    · exact ⟨_, rfl⟩
    · have : ∃ g1, (if i ≠ 0 then getAt good (i - 1) else Out.ok 0) = .ok g1 := by
        split
        · rw [getAt_getD' good (i - 1) 0 (by omega)]; exact ⟨_, rfl⟩
        · exact ⟨_, rfl⟩
      obtain ⟨g1, hg1⟩ := this
      rw [hg1, Out.bind_ok]
      split
      · exact ⟨_, rfl⟩
      · rw [getAt_getD' counts i 0 (by omega), Out.bind_ok]; exact ⟨_, rfl⟩

theorem strideLimit_total (counts : List Nat) (length i : Nat) (h2 : 2 ≤ length) (hl64 : length < 2 ^ 32)
    (hc : length ≤ counts.length) : ∃ l, strideLimit counts length i = .ok l := by
  unfold strideLimit
  have e : (length + u64 - 2) % u64 = length - 2 := by
    rw [show length + u64 - 2 = (length - 2) + u64 by omega, Nat.add_mod_right]
    exact Nat.mod_eq_of_lt (by unfold u64; omega)
  rw [e]
  split
  · rw [getAt_getD' counts i 0 (by omega), Out.bind_ok, getAt_getD' counts (i + 1) 0 (by omega), Out.bind_ok,
      getAt_getD' counts (i + 2) 0 (by omega), Out.bind_ok]
    exact ⟨_, rfl⟩
  · split
    · rw [getAt_getD' counts i 0 (by omega), Out.bind_ok]; exact ⟨_, rfl⟩
    · exact ⟨_, rfl⟩

theorem strideLoop_total (good : List Nat) (length : Nat) (h2 : 2 ≤ length) (hl64 : length < 2 ^ 32) (hg : length ≤ good.length) :
    ∀ (c i : Nat) (cur : List Nat) (stride limit sum : Nat), i + c = length + 1 → stride ≤ i → length ≤ cur.length →
    ∃ r, strideLoop good length c i cur stride limit sum = .ok r
  | 0, _, cur, _, _, _, _, _, _ => ⟨cur, rfl⟩
  | c + 1, i, cur, stride, limit, sum, hic, hst, hc => by
    simp only [strideLoop]
    obtain ⟨brk, hb⟩ := strideBreak_total cur good length i limit (by omega) hc hg
    rw [hb, Out.bind_ok]
    have hw : ∃ cur1, (if brk = true ∧ (stride ≥ 4 ∨ (stride ≥ 3 ∧ sum = 0)) then
        setRun i (strideCount stride sum % u32) stride 0 cur else Out.ok cur) = .ok cur1 ∧ cur1.length = cur.length := by
      split
      · exact setRun_total i _ (by unfold u64; omega) stride 0 cur (by omega) (by omega)
      · exact ⟨cur, rfl, rfl⟩
    obtain ⟨cur1, hcur1, hl1⟩ := hw
    rw [hcur1, Out.bind_ok]
    have hlm : ∃ l1, (if brk = true then strideLimit cur1 length i else Out.ok limit) = .ok l1 := by
      split
      · exact strideLimit_total cur1 length i h2 hl64 (by omega)
      · exact ⟨_, rfl⟩
    obtain ⟨l1, hl1'⟩ := hlm
    rw [hl1', Out.bind_ok]
    split
    · rw [getAt_getD' cur1 i 0 (by omega), Out.bind_ok]
      exact strideLoop_total good length h2 hl64 hg c (i + 1) cur1 _ _ _ (by omega) (by split <;> omega) (by omega)
    · exact strideLoop_total good length h2 hl64 hg c (i + 1) cur1 _ _ _ (by omega) (by split <;> omega) (by omega)

/-- **`BrotliOptimizeHuffmanCountsForRle` always returns** -/
theorem optimize_total (length0 : Nat) (counts good : List Nat) (hl : length0 ≤ counts.length) (hg : length0 ≤ good.length)
    (hl64 : length0 < 2 ^ 32) : ∃ r, optimizeHuffmanCountsForRle length0 counts good = .ok r := by
  unfold optimizeHuffmanCountsForRle
  obtain ⟨nzc, h1⟩ := countNonzeroLoop_total counts length0 0 0 (by omega)
  rw [h1, Out.bind_ok]
  split
  · exact ⟨_, rfl⟩
  · obtain ⟨length, h2⟩ := trimLoop_total counts length0 hl
    have hll := trimLoop_le' counts length0 length h2
    rw [h2, Out.bind_ok]
    split
    · exact ⟨_, rfl⟩
    · obtain ⟨nonzeros, smallest, h3, hnz⟩ := smallestLoop_total counts length 0 0 1073741824 (by omega)
      rw [h3, Out.bind_ok]
      dsimp only
      split
      · exact ⟨_, rfl⟩
      · have hfill : ∃ c1, (if smallest < 4 ∧ length - nonzeros < 6 then fillLoop (length - 1 - 1) 1 counts
            else Out.ok counts) = .ok c1 ∧ c1.length = counts.length := by
          split
          · obtain ⟨r, e⟩ := fillLoop_total (length - 1 - 1) 1 counts (by omega)
            exact ⟨r, e, (fillLoop_sum _ _ _ _ e).2.1⟩
          · exact ⟨counts, rfl, rfl⟩
        obtain ⟨c1, hc1, hc1l⟩ := hfill
        rw [hc1, Out.bind_ok]
        split
        · exact ⟨_, rfl⟩
        · rename_i hn28
          have hlen28 : 28 ≤ length := by omega
          rw [getAt_getD' c1 0 0 (by omega), Out.bind_ok]
          obtain ⟨good1, h5, hg1⟩ := markLoop_total c1 length (by omega) (by omega) (length + 1) 0 (c1.getD 0 0) 0
            (good.map fun _ => 0) (by omega) (Nat.le_refl _) (by rw [List.length_map]; omega)
          rw [h5, Out.bind_ok, getAt_getD' c1 1 0 (by omega), Out.bind_ok, getAt_getD' c1 2 0 (by omega), Out.bind_ok]
          exact strideLoop_total good1 length (by omega) (by omega) (by rw [hg1, List.length_map]; omega) (length + 1) 0 c1 0 _ 0
            (by omega) (Nat.le_refl _) (by omega)

theorem optimizeHistos_total (length : Nat) (h704 : length ≤ 704) : ∀ (size : Nat) (hs : List (List Nat)), size ≤ hs.length →
    (∀ i, i < size → length ≤ (hs.getD i []).length) → ∃ r, optimizeHistos length hs size = .ok r := by
  intro size
  induction size with
  | zero => intro hs _ _; exact ⟨hs, rfl⟩
  | succ n ih =>
    intro hs hn hl
    obtain ⟨r1, h1⟩ := ih hs (by omega) (fun i hi => hl i (by omega))
    obtain ⟨a1, a2, a3⟩ := optimizeHistos_spec length n hs r1 (by omega) h1
    unfold optimizeHistos at h1 ⊢
    rw [show List.range (n + 1) = List.range n ++ [n] from List.range_succ, foldlM_append_out, h1]
    simp only [Out.bind_ok, List.foldlM_cons, List.foldlM_nil]
    rw [getAt_getD' r1 n [] (by omega), Out.bind_ok, a3 n (Nat.le_refl _)]
    obtain ⟨h', e⟩ := optimize_total length (hs.getD n []) (List.replicate 704 0) (hl n (by omega)) (by rw [List.length_replicate]; exact h704) (by omega)
    rw [e, Out.bind_ok, setAt_ok' r1 n h' (by omega), Out.bind_ok]
    exact ⟨_, rfl⟩

/-- **`BrotliOptimizeHistograms` always returns** on a `MetaBlockSplit` with histograms of the declared shapes -/
theorem optimizeHistograms_total (mbs : MBSplit) (A nd : Nat) (hnd : nd ≤ 544) (hM : MBOK mbs A) (hS : HSharp mbs) :
    ∃ mbs', optimizeHistograms nd mbs = .ok mbs' := by
  unfold optimizeHistograms
  obtain ⟨l, h1⟩ := optimizeHistos_total 256 (by decide) _ mbs.litHistos hM.hl.sz (fun i hi => by rw [(hS.l i hi).1]; exact Nat.le_refl _)
  obtain ⟨c, h2⟩ := optimizeHistos_total 704 (by decide) _ mbs.cmdHistos hM.hc.sz (fun i hi => by rw [(hS.c i hi).1]; exact Nat.le_refl _)
  obtain ⟨d, h3⟩ := optimizeHistos_total nd (by omega) _ mbs.distHistos hM.hd.sz (fun i hi => by rw [(hS.d i hi).1]; exact hnd)
  rw [h1, Out.bind_ok, h2, Out.bind_ok, h3, Out.bind_ok]
  exact ⟨_, rfl⟩

end BV.Greedy
