/-
C01 / fragment writers, part 7: the command words `CreateCommands` emits (`EmitInsertLen`, `EmitCopyLen`,
`EmitCopyLenLastDistance`, `EmitDistance` of the two-pass file) carry, under the RFC 7932 §4/§5 tables that
`stepQ1` reads them with, exactly the insert length / copy length / distance they were built from.
Lengths below the last bucket: finite checks (`decide +kernel`, ≤ 2120 cases); the last buckets are linear;
distances: C18 `dist_encode_exact` (`EmitDistance` is `PrefixEncodeCopyDistance` with NPOSTFIX = NDIRECT = 0).
-/
import BV.Lemmas.FragmentCmd
import BV.Props.C18
namespace BV.Fragment
open BV.Bits BV.MetaBlock BV.Huffman BV.PrefixArith BV.Recoder

/-- base copy length of the RFC copy code in the insert-and-copy symbol of command code `code` -/
def cpBase (code : Nat) : Nat :=
  match rfcCopyTable[(rfcCmdDecode (q1Symbol code)).2.1]? with | some (cb, _) => cb | none => 0

/-- "distance symbol 0 is implied" flag of the insert-and-copy symbol of command code `code` -/
def impl0 (code : Nat) : Bool := (rfcCmdDecode (q1Symbol code)).2.2

theorem cmdWord_eq (c e : Nat) (hc : c < 256) (he : e < 16777216) :
    cmdWord c e = c + 256 * e ∧ cmdWord c e % 256 = c ∧ cmdWord c e / 256 = e := by
  have e32 : two32 = 4294967296 := rfl
  have h1 : (e * 256) % two32 = e * 256 := Nat.mod_eq_of_lt (by omega)
  have h2 : c ||| e * 256 = e * 256 + c := by
    have := Nat.shiftLeft_add_eq_or_of_lt (i := 8) (b := c) (by omega) e
    rw [Nat.shiftLeft_eq] at this
    rw [Nat.or_comm]
    simpa using this.symm
  have h3 : cmdWord c e = c + 256 * e := by
    unfold cmdWord
    rw [h1, h2]
    exact (Nat.mod_eq_of_lt (by omega)).trans (by omega)
  refine ⟨h3, ?_, ?_⟩ <;> rw [h3] <;> omega

/-! ### insert lengths -/

def insChk (n : Nat) : Bool :=
  decide (emitInsertLenQ1 n % 256 < 24) &&
  decide (kInsertOffset.getD (emitInsertLenQ1 n % 256) 0 + emitInsertLenQ1 n / 256 = n) &&
  decide (emitInsertLenQ1 n / 256 < 2 ^ kNumExtraBits.getD (emitInsertLenQ1 n % 256) 0) &&
  (n == 0 || emitInsertLenQ1 n % 256 != 0)

set_option maxRecDepth 100000 in
theorem insChk_small : (List.range 2114).all insChk = true := by decide +kernel

/-- `EmitInsertLen(n)`: one word `code | extra << 8` with `code < 24`, `kInsertOffset[code] + extra = n`,
`extra` within the code's extra bits, and `code ≠ 0` for `n ≥ 1` -/
theorem insert_word (n : Nat) (h : n < 16777216) :
    emitInsertLenQ1 n % 256 < 24 ∧
    kInsertOffset.getD (emitInsertLenQ1 n % 256) 0 + emitInsertLenQ1 n / 256 = n ∧
    emitInsertLenQ1 n / 256 < 2 ^ kNumExtraBits.getD (emitInsertLenQ1 n % 256) 0 ∧
    (1 ≤ n → emitInsertLenQ1 n % 256 ≠ 0) := by
  by_cases hs : n < 2114
  · have := List.all_eq_true.mp insChk_small n (List.mem_range.mpr hs)
    simp only [insChk, Bool.and_eq_true, decide_eq_true_eq, Bool.or_eq_true, beq_iff_eq, bne_iff_ne] at this
    obtain ⟨⟨⟨a, b⟩, c⟩, d⟩ := this
    exact ⟨a, b, c, fun h1 => by rcases d with d | d; omega; exact d⟩
  · have o21 : kInsertOffset.getD 21 0 = 2114 := by decide
    have o22 : kInsertOffset.getD 22 0 = 6210 := by decide
    have o23 : kInsertOffset.getD 23 0 = 22594 := by decide
    have n21 : kNumExtraBits.getD 21 0 = 12 := by decide
    have n22 : kNumExtraBits.getD 22 0 = 14 := by decide
    have n23 : kNumExtraBits.getD 23 0 = 24 := by decide
    unfold emitInsertLenQ1
    rw [if_neg (by omega), if_neg (by omega), if_neg (by omega)]
    by_cases h1 : n < 6210
    · rw [if_pos h1]
      obtain ⟨_, e1, e2⟩ := cmdWord_eq 21 (n - 2114) (by omega) (by omega)
      rw [e1, e2, o21, n21]
      refine ⟨by omega, by omega, ?_, fun _ => by omega⟩
      have : (2 : Nat) ^ 12 = 4096 := by decide
      omega
    · rw [if_neg h1]
      by_cases h2 : n < 22594
      · rw [if_pos h2]
        obtain ⟨_, e1, e2⟩ := cmdWord_eq 22 (n - 6210) (by omega) (by omega)
        rw [e1, e2, o22, n22]
        refine ⟨by omega, by omega, ?_, fun _ => by omega⟩
        have : (2 : Nat) ^ 14 = 16384 := by decide
        omega
      · rw [if_neg h2]
        obtain ⟨_, e1, e2⟩ := cmdWord_eq 23 (n - 22594) (by omega) (by omega)
        rw [e1, e2, o23, n23]
        refine ⟨by omega, by omega, ?_, fun _ => by omega⟩
        have : (2 : Nat) ^ 24 = 16777216 := by decide
        omega

/-! ### copy lengths -/

def cpChk (n : Nat) : Bool :=
  n < 4 ||
  (decide (40 < emitCopyLenQ1 n % 256) && decide (emitCopyLenQ1 n % 256 < 64) &&
   decide (emitCopyLenQ1 n / 256 < 2 ^ kNumExtraBits.getD (emitCopyLenQ1 n % 256) 0) &&
   decide (cpBase (emitCopyLenQ1 n % 256) + emitCopyLenQ1 n / 256 = n) && !impl0 (emitCopyLenQ1 n % 256))

set_option maxRecDepth 100000 in
theorem cpChk_small : (List.range 2118).all cpChk = true := by decide +kernel

/-- `EmitCopyLen(n)`, `n ≥ 4`: one word with a copy code of the cells with explicit distance, copy length `n` -/
theorem copy_word (n : Nat) (h4 : 4 ≤ n) (h : n < 16777216) :
    40 < emitCopyLenQ1 n % 256 ∧ emitCopyLenQ1 n % 256 < 64 ∧
    emitCopyLenQ1 n / 256 < 2 ^ kNumExtraBits.getD (emitCopyLenQ1 n % 256) 0 ∧
    cpBase (emitCopyLenQ1 n % 256) + emitCopyLenQ1 n / 256 = n ∧ impl0 (emitCopyLenQ1 n % 256) = false := by
  by_cases hs : n < 2118
  · have := List.all_eq_true.mp cpChk_small n (List.mem_range.mpr hs)
    simp only [cpChk, Bool.and_eq_true, decide_eq_true_eq, Bool.or_eq_true, Bool.not_eq_true'] at this
    rcases this with this | ⟨⟨⟨⟨a, b⟩, c⟩, d⟩, e⟩
    · omega
    · exact ⟨a, b, c, d, e⟩
  · have n63 : kNumExtraBits.getD 63 0 = 24 := by decide
    have b63 : cpBase 63 = 2118 := by decide
    have i63 : impl0 63 = false := by decide
    unfold emitCopyLenQ1
    rw [if_neg (by omega), if_neg (by omega), if_neg (by omega)]
    obtain ⟨_, e1, e2⟩ := cmdWord_eq 63 (n - 2118) (by omega) (by omega)
    rw [e1, e2, n63, b63, i63]
    have : (2 : Nat) ^ 24 = 16777216 := by decide
    refine ⟨by omega, by omega, by omega, by omega, rfl⟩

/-- what `EmitCopyLenLastDistance(n)` must be: below 72 one word of the implied-distance cells carrying `n − 2`,
from 72 on one word of the explicit-distance cells carrying `n − 2` followed by the distance code 64 -/
def cplOK (n : Nat) : Bool :=
  match emitCopyLenLastDistanceQ1 n with
  | [w] => decide (n < 72) && decide (24 ≤ w % 256) && decide (w % 256 < 40) &&
      decide (w / 256 < 2 ^ kNumExtraBits.getD (w % 256) 0) && decide (cpBase (w % 256) + w / 256 + 2 = n) &&
      impl0 (w % 256)
  | [w, d] => decide (72 ≤ n) && decide (d = 64) && decide (40 < w % 256) && decide (w % 256 < 64) &&
      decide (w / 256 < 2 ^ kNumExtraBits.getD (w % 256) 0) && decide (cpBase (w % 256) + w / 256 + 2 = n) &&
      !impl0 (w % 256)
  | _ => false

def cplChk (n : Nat) : Bool := n < 4 || cplOK n

set_option maxRecDepth 100000 in
theorem cplChk_small : (List.range 2120).all cplChk = true := by decide +kernel

theorem copy_last_word (n : Nat) (h4 : 4 ≤ n) (h : n < 16777216) : cplOK n = true := by
  by_cases hs : n < 2120
  · have := List.all_eq_true.mp cplChk_small n (List.mem_range.mpr hs)
    simp only [cplChk, Bool.or_eq_true, decide_eq_true_eq] at this
    rcases this with this | this
    · omega
    · exact this
  · have n63 : kNumExtraBits.getD 63 0 = 24 := by decide
    have b63 : cpBase 63 = 2118 := by decide
    have i63 : impl0 63 = false := by decide
    have e : emitCopyLenLastDistanceQ1 n = [cmdWord 63 (n - 2120), 64] := by
      unfold emitCopyLenLastDistanceQ1
      rw [if_neg (by omega), if_neg (by omega), if_neg (by omega), if_neg (by omega)]
    obtain ⟨_, e1, e2⟩ := cmdWord_eq 63 (n - 2120) (by omega) (by omega)
    unfold cplOK
    rw [e]
    simp only [e1, e2, n63, b63, i63, Bool.and_eq_true, decide_eq_true_eq, Bool.not_false]
    have : (2 : Nat) ^ 24 = 16777216 := by decide
    refine ⟨⟨⟨⟨⟨⟨by omega, trivial⟩, by omega⟩, by omega⟩, by omega⟩, by omega⟩, trivial⟩

/-! ### distances -/

/-- `EmitDistance(d)` for `1 ≤ d < 2^18`: one word with a distance code `64 + ds`, `16 ≤ ds < 64`, whose extra
bits fit the RFC count for `ds` and which the RFC (NPOSTFIX = NDIRECT = 0) reads as the distance `d` -/
theorem distance_word (d : Nat) (h1 : 1 ≤ d) (h2 : d < 262144 - 3) :
    ∃ w, emitDistanceQ1 d = some w ∧ 80 ≤ w % 256 ∧ w % 256 < 128 ∧
      w / 256 < 2 ^ kNumExtraBits.getD (w % 256) 0 ∧
      rfcDistDecode 0 0 (w % 256 - 64) (w / 256) = d := by
  have e32 : two32 = 4294967296 := rfl
  have h16 := BV.Lemmas.PrefixArith.short_codes_is_16
  obtain ⟨f1, f2, f3, f4, f5⟩ := BV.Props.C18.dist_encode_exact 0 0 (d + 15) (by omega)
  have hne : d + 3 ≠ 0 := by omega
  have hlog : Nat.log2 (d + 3) < 18 := (Nat.log2_lt hne).mpr (by omega)
  have hlog2 : 2 ≤ Nat.log2 (d + 3) := (Nat.le_log2 hne).mpr (by omega)
  have hpe : prefixEncodeCopyDistance (d + 15) 0 0 =
      ⟨16 + (2 * (Nat.log2 (d + 3) - 1 - 1) + (d + 3) / 2 ^ (Nat.log2 (d + 3) - 1) % 2),
       Nat.log2 (d + 3) - 1,
       d + 3 - (2 + (d + 3) / 2 ^ (Nat.log2 (d + 3) - 1) % 2) * 2 ^ (Nat.log2 (d + 3) - 1)⟩ := by
    unfold prefixEncodeCopyDistance log2Floor
    rw [h16, if_neg (by omega)]
    simp only [Nat.add_zero, Nat.zero_add, Nat.pow_zero, Nat.mod_one, Nat.mul_one, Nat.div_one, Nat.sub_zero]
    have : 2 ^ 2 + (d + 15 - 16) = d + 3 := by omega
    rw [this]
  rw [hpe] at f1 f2 f3 f4 f5
  simp only [] at f1 f2 f3 f4 f5
  generalize hp : (d + 3) / 2 ^ (Nat.log2 (d + 3) - 1) % 2 = pfx at f1 f2 f3 f4 f5
  have hp2 : pfx < 2 := by rw [← hp]; exact Nat.mod_lt _ (by decide)
  generalize hnb : Nat.log2 (d + 3) - 1 = nb at f1 f2 f3 f4 f5 hp
  have hnb17 : nb ≤ 16 := by omega
  generalize hex : d + 3 - (2 + pfx) * 2 ^ nb = ex at f1 f2 f3 f4 f5
  have hex24 : ex < 16777216 := by
    have : (2 : Nat) ^ nb ≤ 2 ^ 16 := Nat.pow_le_pow_right (by decide) hnb17
    have : (2 : Nat) ^ 16 = 65536 := by decide
    omega
  obtain ⟨_, e1, e2⟩ := cmdWord_eq (2 * (nb - 1) + pfx + 80) ex (by omega) hex24
  refine ⟨cmdWord (2 * (nb - 1) + pfx + 80) ex, ?_, ?_, ?_, ?_, ?_⟩
  · unfold emitDistanceQ1 log2
    have : (d + 3) % two32 = d + 3 := Nat.mod_eq_of_lt (by omega)
    simp only [this]
    rw [if_neg (by omega), hnb, hp, hex]
  · rw [e1]; omega
  · rw [e1]; omega
  · rw [e1, e2]
    obtain ⟨hd1, _⟩ := dist_all (2 * (nb - 1) + pfx + 80) (by omega) (by omega)
    rw [if_neg (by omega)] at hd1
    rw [← hd1]
    have : 2 * (nb - 1) + pfx + 80 - 64 = 16 + (2 * (nb - 1) + pfx) := by omega
    rw [this, ← f1]
    exact f3
  · rw [e1, e2]
    have : 2 * (nb - 1) + pfx + 80 - 64 = 16 + (2 * (nb - 1) + pfx) := by omega
    rw [this]
    omega

end BV.Fragment
