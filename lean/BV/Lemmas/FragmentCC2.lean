/-
C01 / fragment writers, part 10: the loops of `CreateCommands` (`rehash`, `chain`, `matchLoop`, `createCommands`)
keep the invariant "what has been emitted so far replays, under RFC 7932, to `history ++ input[.. next_emit]`"
(`RP`), because every copy they emit was confirmed by `IsMatch` + `FindMatchLengthWithLimit` on the input itself.
-/
import BV.Lemmas.FragmentCC
namespace BV.Fragment
open BV.Bits BV.MetaBlock BV.Huffman BV.PrefixArith BV.Recoder

/-! ### let-free forms of the loop bodies (definitional unfoldings) -/

theorem chain_succ (inp : Array Nat) (capCmd shift minMatch ipEnd ipLimit f cand : Nat) (c : CC) :
    chain inp capCmd shift minMatch ipEnd ipLimit (f + 1) cand c =
    if wsub c.ip cand > 262128 then Out.ok (c, false)
    else
      isMatch inp c.ip cand minMatch >>= fun m =>
      if (!m) = true then Out.ok (c, false)
      else
        findMatchLength inp (cand + minMatch) (c.ip + minMatch) (wsub (wsub ipEnd c.ip) minMatch) >>= fun n =>
        pushCmd capCmd { c with ip := c.ip + (minMatch + n), lastDist := asI32 (wsub c.ip cand) }
          (emitCopyLenQ1 (minMatch + n)) >>= fun c2 =>
        (match emitDistanceQ1 (i32AsUsize (asI32 (wsub c.ip cand)) % two32) with
          | some w => Out.ok w
          | none => Out.panic) >>= fun dw =>
        pushCmd capCmd c2 dw >>= fun c3 =>
        if c3.ip ≥ ipLimit then Out.ok ({ c3 with nextEmit := c3.ip }, true)
        else
          if c3.ip < 5 then Out.panic
          else
            rehash inp shift minMatch false { c3 with nextEmit := c3.ip } >>= fun x =>
            match x with
            | (c5, cand') => chain inp capCmd shift minMatch ipEnd ipLimit f cand' c5 := by
  rw [chain]; rfl

theorem matchLoop_succ (inp : Array Nat) (capCmd capLit shift minMatch ipEnd ipLimit f nh : Nat) (c : CC) :
    matchLoop inp capCmd capLit shift minMatch ipEnd ipLimit (f + 1) nh c =
    scan inp shift minMatch ipLimit (ipEnd + 2) 32 c.ip nh c >>= fun x =>
    match x with
    | (c, r) =>
      match r with
      | none => Out.ok c
      | some cand =>
        findMatchLength inp (cand + minMatch) (c.ip + minMatch) (wsub (wsub ipEnd c.ip) minMatch) >>= fun n =>
        pushCmd capCmd { c with ip := c.ip + (minMatch + n) }
          (emitInsertLenQ1 (i32AsUsize (asI32 (wsub c.ip c.nextEmit)) % two32)) >>= fun c1 =>
        pushLits capLit inp c1 c1.nextEmit (i32AsUsize (asI32 (wsub c.ip c.nextEmit))) >>= fun c2 =>
        (if asI32 (wsub c.ip cand) = c2.lastDist then pushCmd capCmd c2 64
          else
            (match emitDistanceQ1 (i32AsUsize (asI32 (wsub c.ip cand)) % two32) with
              | some w => Out.ok w
              | none => Out.panic) >>= fun dw =>
            pushCmd capCmd c2 dw >>= fun c3 =>
            Out.ok { c3 with lastDist := asI32 (wsub c.ip cand) }) >>= fun c4 =>
        pushCmds capCmd c4 (emitCopyLenLastDistanceQ1 (minMatch + n)) >>= fun c5 =>
        if c5.ip ≥ ipLimit then Out.ok { c5 with nextEmit := c5.ip }
        else
          rehash inp shift minMatch true { c5 with nextEmit := c5.ip } >>= fun y =>
          match y with
          | (c6, cand') =>
            chain inp capCmd shift minMatch ipEnd ipLimit (ipEnd + 2) cand' c6 >>= fun z =>
            match z with
            | (c7, rem) =>
              if rem = true then Out.ok c7
              else
                load64 inp (c7.ip + 1) >>= fun v =>
                matchLoop inp capCmd capLit shift minMatch ipEnd ipLimit f (hashAt v 0 shift minMatch)
                  { c7 with ip := c7.ip + 1 } := by
  rw [matchLoop]; rfl

theorem createCommands_eq (ii bs isz : Nat) (inp : Array Nat) (table : Array Int) (tb mm cl cc : Nat) :
    createCommands ii bs isz inp table tb mm cl cc =
    (if bs ≥ 16 then
        load64 inp (ii + 1) >>= fun v =>
        matchLoop inp cc cl (64 - tb) mm (ii + bs) (ii + min (wsub bs mm) (wsub isz 16)) (bs + 2)
          (hashAt v 0 (64 - tb) mm) ⟨table, #[], #[], ii + 1, ii, -1⟩
      else Out.ok ⟨table, #[], #[], ii, ii, -1⟩) >>= fun c =>
    (if c.nextEmit < ii + bs then
        pushCmd cc c (emitInsertLenQ1 ((ii + bs - c.nextEmit) % two32)) >>= fun c1 =>
        pushLits cl inp c1 c1.nextEmit ((ii + bs - c.nextEmit) % two32)
      else Out.ok c) >>= fun c =>
    Out.ok (c.table, c.lits.toList, c.cmds.toList) := by
  unfold createCommands; rfl

/-! ### the buffer operations -/

theorem pushCmd_ok (capCmd : Nat) (c c' : CC) (w : Nat) (h : pushCmd capCmd c w = .ok c') :
    c' = { c with cmds := c.cmds.push w } := by
  unfold pushCmd at h
  split at h
  · injection h with h; exact h.symm
  · cases h

theorem pushCmds_ok (capCmd : Nat) : ∀ (ws : List Nat) (c c' : CC), pushCmds capCmd c ws = .ok c' →
    c'.table = c.table ∧ c'.lits = c.lits ∧ c'.ip = c.ip ∧ c'.nextEmit = c.nextEmit ∧ c'.lastDist = c.lastDist ∧
    c'.cmds.toList = c.cmds.toList ++ ws
  | [], c, c', h => by
    rw [pushCmds] at h
    injection h with h
    subst h
    simp
  | w :: ws, c, c', h => by
    rw [pushCmds] at h
    obtain ⟨c1, h1, h⟩ := (bind_ok_iff _ _ _).mp h
    have e1 := pushCmd_ok capCmd c c1 w h1
    obtain ⟨a1, a2, a3, a4, a5, a6⟩ := pushCmds_ok capCmd ws c1 c' h
    subst e1
    refine ⟨a1, a2, a3, a4, a5, ?_⟩
    rw [a6]
    simp

theorem pushLits_ok (capLit : Nat) (inp : Array Nat) (c c' : CC) (start n : Nat)
    (h : pushLits capLit inp c start n = .ok c') :
    c' = { c with lits := c.lits ++ inp.extract start (start + n) } ∧ start + n ≤ inp.size := by
  unfold pushLits at h
  split at h
  · cases h
  · rename_i hn
    injection h with h
    exact ⟨h.symm, by omega⟩

theorem extract_toList (inp : Array Nat) (start n : Nat) :
    (inp.extract start (start + n)).toList = (inp.toList.drop start).take n := by
  rw [Array.toList_extract, List.extract_eq_take_drop, Nat.add_sub_cancel_left]

/-! ### `rehash` -/

theorem rehash_ok (inp : Array Nat) (shift minMatch : Nat) (first : Bool) (c c' : CC) (cand' : Nat)
    (h : rehash inp shift minMatch first c = .ok (c', cand')) (htb : TB c.table c.ip) (h5 : 5 ≤ c.ip)
    (h31 : c.ip < 2147483648) :
    c'.lits = c.lits ∧ c'.cmds = c.cmds ∧ c'.ip = c.ip ∧ c'.nextEmit = c.nextEmit ∧ c'.lastDist = c.lastDist ∧
    TB c'.table (c.ip + 1) ∧ cand' < c.ip := by
  have w1 := wsub_le c.ip 1 (by omega) (by omega)
  have w2 := wsub_le c.ip 2 (by omega) (by omega)
  have w3 := wsub_le c.ip 3 (by omega) (by omega)
  have w4 := wsub_le c.ip 4 (by omega) (by omega)
  have w5 := wsub_le c.ip 5 (by omega) (by omega)
  unfold rehash at h
  simp only [] at h
  by_cases h4 : minMatch = 4
  · rw [if_pos h4, if_neg (by omega)] at h
    obtain ⟨v, _, h⟩ := (bind_ok_iff _ _ _).mp h
    obtain ⟨t1, ht1, h⟩ := (bind_ok_iff _ _ _).mp h
    obtain ⟨t2, ht2, h⟩ := (bind_ok_iff _ _ _).mp h
    obtain ⟨t3, ht3, h⟩ := (bind_ok_iff _ _ _).mp h
    obtain ⟨cd, hcd, h⟩ := (bind_ok_iff _ _ _).mp h
    obtain ⟨t4, ht4, h⟩ := (bind_ok_iff _ _ _).mp h
    injection h with h
    injection h with e1 e2
    subst e1 e2
    have b1 := tset_TB _ _ _ _ c.ip ht1 htb (by omega) (by omega)
    have b2 := tset_TB _ _ _ _ c.ip ht2 b1 (by omega) (by omega)
    have b3 := tset_TB _ _ _ _ c.ip ht3 b2 (by omega) (by omega)
    have b4 := tset_TB _ _ _ _ (c.ip + 1) ht4 (b3.mono (by omega)) (by omega) (by omega)
    exact ⟨rfl, rfl, rfl, rfl, rfl, b4, tget_TB _ _ _ _ hcd b3⟩
  · rw [if_neg h4, if_neg (by omega)] at h
    obtain ⟨v, _, h⟩ := (bind_ok_iff _ _ _).mp h
    obtain ⟨t1, ht1, h⟩ := (bind_ok_iff _ _ _).mp h
    obtain ⟨t2, ht2, h⟩ := (bind_ok_iff _ _ _).mp h
    obtain ⟨t3, ht3, h⟩ := (bind_ok_iff _ _ _).mp h
    obtain ⟨v', _, h⟩ := (bind_ok_iff _ _ _).mp h
    obtain ⟨t4, ht4, h⟩ := (bind_ok_iff _ _ _).mp h
    obtain ⟨t5, ht5, h⟩ := (bind_ok_iff _ _ _).mp h
    obtain ⟨cd, hcd, h⟩ := (bind_ok_iff _ _ _).mp h
    obtain ⟨t6, ht6, h⟩ := (bind_ok_iff _ _ _).mp h
    injection h with h
    injection h with e1 e2
    subst e1 e2
    have b1 := tset_TB _ _ _ _ c.ip ht1 htb (by omega) (by omega)
    have b2 := tset_TB _ _ _ _ c.ip ht2 b1 (by omega) (by omega)
    have b3 := tset_TB _ _ _ _ c.ip ht3 b2 (by omega) (by omega)
    have b4 := tset_TB _ _ _ _ c.ip ht4 b3 (by omega) (by omega)
    have b5 := tset_TB _ _ _ _ c.ip ht5 b4 (by omega) (by omega)
    have b6 := tset_TB _ _ _ _ (c.ip + 1) ht6 (b5.mono (by omega)) (by omega) (by omega)
    exact ⟨rfl, rfl, rfl, rfl, rfl, b6, tget_TB _ _ _ _ hcd b5⟩

end BV.Fragment
