import BV.Lemmas.HasherLoop
/-! `BasicHasher`: the 4-at-a-time path equals four `Store`s; `StoreRange` is the fold of `Store`. -/
namespace BV.Hasher

/-- the hypothesis on the hash parameter of a `BasicHasher`: `key.wrapping_add(off)` (u32) in
`Store` and `mixed + off` (usize) in `StoreRangeOptBasic` agree, i.e. key + sweep offset does not
leave `u32`.  (H2/H3/H4/H54: keys are below `2^20`.) -/
structure BasicP.Ok (P : BasicP) : Prop where
  noWrap : ∀ w, P.hash w + P.sweep ≤ U32

namespace Basic

theorem idx_eq {P : BasicP} (hP : P.Ok) (w : List Nat) (x : Nat) (hs : P.sweep ≠ 0) :
    (P.hash w % U32 + x % P.sweep % U32) % U32 = P.hash w % U32 + x % P.sweep := by
  have h1 := hP.noWrap w
  have h2 : x % P.sweep < P.sweep := Nat.mod_lt _ (Nat.pos_of_ne_zero hs)
  rw [Nat.mod_eq_of_lt (a := P.hash w) (by omega), Nat.mod_eq_of_lt (a := x % P.sweep) (by omega),
    Nat.mod_eq_of_lt (by omega)]

theorem store_of_win {P : BasicP} {data : ByteArray} {mask ix : Nat} {w : List Nat}
    (h : win data (ix &&& mask) 8 = some w) (b : Tab) :
    store P data mask ix b =
      if P.sweep = 0 then none
      else wr b ((P.hash w % U32 + (ix >>> 3) % P.sweep % U32) % U32) (ix % U32) := by
  simp [store, hashAt, h]

theorem store_of_win_none {P : BasicP} {data : ByteArray} {mask ix : Nat}
    (h : win data (ix &&& mask) 8 = none) (b : Tab) : store P data mask ix b = none := by
  simp [store, hashAt, h]

/-- one iteration of the `StoreRangeOptBasic` loop is four `Store`s -/
theorem chunk_eq {P : BasicP} (hP : P.Ok) (data : ByteArray) (k ixStart c : Nat) (b : Tab) :
    chunk P data (2 ^ k - 1) ixStart c b
      = forRange (store P data (2 ^ k - 1)) (ixStart + c * 4) 4 b := by
  unfold chunk
  simp only []
  split
  · exact forRange_shift (store P data (2 ^ k - 1)) (ixStart + c * 4) 4 0 b
  · rename_i hns
    have hc := fun j hj => ringmask_consecutive (ixStart + c * 4) k j hns hj
    cases hw : win data ((ixStart + c * 4) &&& (2 ^ k - 1)) 11 with
    | none =>
      simp only [hash4, hw]
      symm
      apply forRange_last_none (store P data (2 ^ k - 1)) 3
      intro y
      apply store_of_win_none
      rw [hc 3 (by omega)]
      exact win_none_of_le hw (by omega)
    | some w11 =>
      have h0 := win_sub hw 0 8 (by omega)
      have h1 := win_sub hw 1 8 (by omega)
      have h2 := win_sub hw 2 8 (by omega)
      have h3 := win_sub hw 3 8 (by omega)
      rw [← hc 1 (by omega)] at h1
      rw [← hc 2 (by omega)] at h2
      rw [← hc 3 (by omega)] at h3
      simp only [Nat.add_zero, List.drop_zero] at h0
      simp only [hash4, hw]
      rw [forRange_four, store_of_win h0]
      by_cases hs : P.sweep = 0
      · simp [hs]
      · simp only [hs, if_false, idx_eq hP _ _ hs]
        cases wr b (P.hash (List.take 8 w11) % U32 + ((ixStart + c * 4) >>> 3) % P.sweep)
            ((ixStart + c * 4) % U32) with
        | none => rfl
        | some b1 =>
          simp only [Option.bind_some]
          rw [store_of_win h1]
          simp only [hs, if_false, idx_eq hP _ _ hs]
          cases wr b1 (P.hash (List.take 8 (List.drop 1 w11)) % U32 + ((ixStart + c * 4 + 1) >>> 3) % P.sweep)
              ((ixStart + c * 4 + 1) % U32) with
          | none => rfl
          | some b2 =>
            simp only [Option.bind_some]
            rw [store_of_win h2]
            simp only [hs, if_false, idx_eq hP _ _ hs]
            cases wr b2 (P.hash (List.take 8 (List.drop 2 w11)) % U32 + ((ixStart + c * 4 + 2) >>> 3) % P.sweep)
                ((ixStart + c * 4 + 2) % U32) with
            | none => rfl
            | some b3 =>
              simp only [Option.bind_some]
              rw [store_of_win h3]
              simp only [hs, if_false, idx_eq hP _ _ hs]

/-- `StoreRange` of a `BasicHasher` is the fold of `Store` over the range: every data buffer,
every range, every ring mask `2^k - 1` (`usize::MAX = 2^64 - 1`) -/
theorem storeRange_eq_fold {P : BasicP} (hP : P.Ok) (data : ByteArray) (k s e : Nat) (b : Tab) :
    storeRange P data (2 ^ k - 1) s e b = forRange (store P data (2 ^ k - 1)) s (e - s) b := by
  unfold storeRange storeRangeOptBasic
  by_cases hge : e ≥ s + 8 * 2
  · have hfun : chunk P data (2 ^ k - 1) s
        = fun c y => forRange (store P data (2 ^ k - 1)) (s + c * 4) 4 y := by
      funext c y; exact chunk_eq hP data k s c y
    simp only [hge, if_true, hfun]
    rw [forRange_chunks (store P data (2 ^ k - 1)) 4 s ((e - s) / 4) 0 b]
    simp only [Nat.zero_mul, Nat.add_zero]
    have hsplit : e - s = (e - s) / 4 * 4 + (e - (s + (e - s) / 4 * 4)) := by omega
    conv => rhs; rw [hsplit, forRange_add]
    cases forRange (store P data (2 ^ k - 1)) s ((e - s) / 4 * 4) b <;> rfl
  · simp only [hge, if_false]

end Basic
end BV.Hasher
