import BV.Lemmas.StreamAbsorb
/-
What is known when `compress_stream` returns: the conditions under which its loops `break`,
and the completion criterion "nothing pending ⇒ the request is complete".
-/
namespace BV.Stream
open BV.Bits

/-- the main loop breaks only when none of its three actions applies -/
theorem slowStep_brk {o : Oracle} {op : Nat} {s s' : St} {io io' : Io}
    (h : slowStep o op s io = .ok (s', io', .brk)) :
    s' = s ∧ io' = io ∧ ¬(remainingInputBlockSize s ≠ 0 ∧ io.availIn ≠ 0)
    ∧ ¬(s.streamState = .flushRequested ∧ s.lastBytesBits ≠ 0)
    ∧ ¬(s.pending.length ≠ 0 ∧ io.availOut ≠ 0)
    ∧ ¬(s.pending.length = 0 ∧ s.streamState = .processing ∧ (remainingInputBlockSize s = 0 ∨ op ≠ 0)) := by
  unfold slowStep at h
  simp only at h
  split at h
  · split at h
    · simp at h
    · split at h <;> simp at h
  · rename_i hc
    split at h
    · simp at h
    · simp at h
    · simp at h
    · rename_i s1 io1 hp
      obtain ⟨e1, e2, p1, p2⟩ := push_false hp
      have e1' := e1.symm; have e2' := e2.symm
      subst e1' e2'
      split at h
      · split at h
        · simp at h
        · simp at h
        · split at h <;> simp at h
      · rename_i hne
        simp only [Out.ok.injEq, Prod.mk.injEq] at h
        obtain ⟨rfl, rfl, _⟩ := h
        exact ⟨rfl, rfl, hc, p1, p2, hne⟩

theorem slowLoop_exit {o : Oracle} {op : Nat} (P : St → Io → Prop)
    (hstep : ∀ s io s' io' c, P s io → slowStep o op s io = .ok (s', io', c) → c ≠ .fail ∧ P s' io') :
    ∀ fuel s io s' io' r, P s io → slowLoop o op fuel s io = .ok (s', io', r) →
      r = true ∧ ∃ s1, P s1 io' ∧ s' = checkFlushComplete s1 ∧ slowStep o op s1 io' = .ok (s1, io', .brk) := by
  intro fuel
  induction fuel with
  | zero => intro s io s' io' r _ h; simp [slowLoop] at h
  | succ k ih =>
    intro s io s' io' r hP h
    unfold slowLoop at h
    split at h
    · simp at h
    · simp at h
    · rename_i s1 io1 hs
      exact absurd rfl (hstep _ _ _ _ _ hP hs).1
    · rename_i s1 io1 hs
      exact ih _ _ _ _ _ (hstep _ _ _ _ _ hP hs).2 h
    · rename_i s1 io1 hs
      simp only [Out.ok.injEq, Prod.mk.injEq] at h
      obtain ⟨rfl, rfl, rfl⟩ := h
      obtain ⟨e1, e2, _⟩ := slowStep_brk hs
      subst e1 e2
      exact ⟨rfl, _, hP, rfl, hs⟩

/-- what a drained return of the main loop means -/
structure Drained (op : Nat) (c0 : SState) (s' : St) (io' : Io) : Prop where
  consumed : io'.availIn = 0
  flushDone : op = 1 → c0 = .processing →
    s'.streamState = .processing ∧ s'.lastBytesBits = 0 ∧ (s'.lastFlushPos = s'.inputPos ∨ fastMode s'.params)
  finishDone : op = 2 → c0 = .processing → s'.streamState = .finished
  notProcessing : op ≠ 0 → c0 ≠ .processing → s'.streamState = c0 ∨ (c0 = .flushRequested ∧ s'.streamState = .processing)
  reflush : c0 = .flushRequested →
    s'.streamState = .processing ∧ s'.lastBytesBits = 0 ∧ (s'.lastFlushPos = s'.inputPos ∨ fastMode s'.params)

/-- from the loop-exit facts of either loop -/
theorem drained_of_exit {op : Nat} {c0 : SState} {s1 : St} {io' : Io} (hI1 : Inv s1)
    (hnp : s1.streamState ≠ .processing → io'.availIn = 0)
    (st : s1.streamState = c0 ∨ (c0 = .processing ∧ io'.availIn = 0 ∧
        ((op = 1 ∧ s1.streamState = .flushRequested) ∨ (op = 2 ∧ s1.streamState = .finished))))
    (f2 : ¬(s1.streamState = .flushRequested ∧ s1.lastBytesBits ≠ 0))
    (f4 : s1.streamState = .processing → op = 0 ∧ io'.availIn = 0)
    (hp : s1.pending.length = 0) :
    Drained op c0 (checkFlushComplete s1) io' := by
  obtain ⟨k1, k2, k3, k4, k5, k6, k7, k8, k9, k10, _⟩ := checkFlushComplete_frame s1
  have hst := checkFlushComplete_state s1
  have hcons : io'.availIn = 0 := by
    by_cases hpr : s1.streamState = .processing
    · exact (f4 hpr).2
    · exact hnp hpr
  refine ⟨hcons, ?_, ?_, ?_, ?_⟩
  rotate_left 3
  · intro hc0
    rcases st with h | ⟨h, _⟩
    · rw [hc0] at h
      refine ⟨by rw [hst, h]; simp [hp], ?_, ?_⟩
      · rw [k10]
        by_cases hz : s1.lastBytesBits = 0
        · exact hz
        · exact absurd ⟨h, hz⟩ f2
      · rw [k5, k2, k1]; exact hI1.flushLf h
    · rw [hc0] at h; cases h
  · intro h1 hc0
    rcases st with h | ⟨_, _, h⟩
    · rw [hc0] at h; have := (f4 h).1; omega
    · rcases h with ⟨_, hfl⟩ | ⟨h2, _⟩
      · refine ⟨by rw [hst, hfl]; simp [hp], ?_, ?_⟩
        · rw [k10]
          by_cases hz : s1.lastBytesBits = 0
          · exact hz
          · exact absurd ⟨hfl, hz⟩ f2
        · rw [k5, k2, k1]; exact hI1.flushLf hfl
      · omega
  · intro h2 hc0
    rcases st with h | ⟨_, _, h⟩
    · rw [hc0] at h; have := (f4 h).1; omega
    · rcases h with ⟨h1, _⟩ | ⟨_, hfin⟩
      · omega
      · rw [hst, hfin]; simp
  · intro hop hc0
    rcases st with h | ⟨h, _⟩
    · rw [hst, h]
      by_cases hfl : c0 = .flushRequested
      · right; refine ⟨hfl, ?_⟩; rw [hfl]; simp [hp]
      · left; simp [hfl]
    · exact absurd h hc0

/-- the main loop: if it returns with nothing pending the request is complete; if it returns
with output room left, nothing is pending -/
theorem slow_drained {o : Oracle} {op fuel : Nat} {s s' : St} {io io' : Io} {r : Bool}
    (hI : Inv s) (hrm : s.remainingMetadata = u32Max)
    (hw : s.inputPos + io.availIn < two64)
    (hacc : s.streamState ≠ .processing → io.availIn = 0)
    (h : slowLoop o op fuel s io = .ok (s', io', r)) :
    (io'.availOut ≠ 0 → s'.pending.length = 0) ∧ (s'.pending.length = 0 → Drained op s.streamState s' io') := by
  let P : St → Io → Prop := fun t tio => SlowInv op s.streamState io.availIn (s.inputPos + io.availIn) t tio
  have hP0 : P s io := ⟨hI, rfl, hw, hrm, Nat.le_refl _, hacc, Or.inl rfl⟩
  obtain ⟨_, s1, hS, rfl, hbrk⟩ := slowLoop_exit P (fun _ _ _ _ _ hp hs => slowInv_step hp hs) fuel s io s' io' r hP0 h
  obtain ⟨_, _, f1, f2, f3, f4⟩ := slowStep_brk hbrk
  obtain ⟨_, _, _, _, _, _, _, k8, _⟩ := checkFlushComplete_frame s1
  have hnp : s1.streamState ≠ .processing → io'.availIn = 0 := by
    intro hne
    rcases hS.st with h1 | ⟨_, h2, _⟩
    · exact hS.nonproc (by rw [← h1]; exact hne)
    · exact h2
  constructor
  · intro hroom
    rw [k8]
    by_cases hp : s1.pending.length = 0
    · exact hp
    · exact absurd ⟨hp, hroom⟩ f3
  · intro hp
    rw [k8] at hp
    refine drained_of_exit hS.inv hnp hS.st f2 ?_ hp
    intro hpr
    have h4 : ¬(remainingInputBlockSize s1 = 0 ∨ op ≠ 0) := fun hh => f4 ⟨hp, hpr, hh⟩
    have hop0 : op = 0 := by
      by_cases h0 : op = 0
      · exact h0
      · exact absurd (Or.inr h0) h4
    have hrbs : remainingInputBlockSize s1 ≠ 0 := fun hh => h4 (Or.inl hh)
    refine ⟨hop0, ?_⟩
    by_cases hz : io'.availIn = 0
    · exact hz
    · exact absurd ⟨hrbs, hz⟩ f1

/-! ### the quality 0/1 loop -/

theorem fastStep_brk {o : Oracle} {op : Nat} {s s' : St} {io io' : Io}
    (h : fastStep o op s io = .ok (s', io', false)) :
    s' = s ∧ io' = io ∧ ¬(s.streamState = .flushRequested ∧ s.lastBytesBits ≠ 0)
    ∧ ¬(s.pending.length ≠ 0 ∧ io.availOut ≠ 0)
    ∧ ¬(s.pending.length = 0 ∧ s.streamState = .processing ∧ (io.availIn ≠ 0 ∨ op ≠ 0)) := by
  unfold fastStep at h
  split at h
  · simp at h
  · simp at h
  · simp at h
  · rename_i s1 io1 hp
    obtain ⟨e1, e2, p1, p2⟩ := push_false hp
    have e1' := e1.symm; have e2' := e2.symm
    subst e1' e2'
    split at h
    · simp only at h
      split at h
      · simp at h
      · split at h
        · simp at h
        · split at h
          · simp at h
          · split at h <;> simp at h
    · rename_i hne
      simp only [Out.ok.injEq, Prod.mk.injEq] at h
      obtain ⟨rfl, rfl, _⟩ := h
      exact ⟨rfl, rfl, p1, p2, hne⟩

theorem fastLoop_exit {o : Oracle} {op : Nat} (P : St → Io → Prop)
    (hstep : ∀ s io s' io' b, P s io → fastStep o op s io = .ok (s', io', b) → P s' io') :
    ∀ fuel s io s' io', P s io → fastLoop o op fuel s io = .ok (s', io') →
      P s' io' ∧ fastStep o op s' io' = .ok (s', io', false) := by
  intro fuel
  induction fuel with
  | zero => intro s io s' io' _ h; simp [fastLoop] at h
  | succ k ih =>
    intro s io s' io' hP h
    unfold fastLoop at h
    split at h
    · simp at h
    · simp at h
    · rename_i s1 io1 hs
      exact ih _ _ _ _ (hstep _ _ _ _ _ hP hs) h
    · rename_i s1 io1 hs
      simp only [Out.ok.injEq, Prod.mk.injEq] at h
      obtain ⟨rfl, rfl⟩ := h
      obtain ⟨e1, e2, _⟩ := fastStep_brk hs
      subst e1 e2
      exact ⟨hP, hs⟩

theorem fast_drained {o : Oracle} {op fuel : Nat} {s s' : St} {io io' : Io} {r : Bool}
    (hI : Inv s) (hrm : s.remainingMetadata = u32Max) (hfm : fastMode s.params)
    (hacc : s.streamState ≠ .processing → io.availIn = 0)
    (h : compressStreamFast o fuel op s io = .ok (s', io', r)) :
    (io'.availOut ≠ 0 → s'.pending.length = 0) ∧ (s'.pending.length = 0 → Drained op s.streamState s' io') := by
  unfold compressStreamFast at h
  split at h
  · rename_i hq'; rcases hfm.1 with hq | hq <;> rw [hq] at hq' <;> simp at hq'
  · split at h
    · rename_i s1 io1 hl
      simp only [Out.ok.injEq, Prod.mk.injEq] at h
      obtain ⟨rfl, rfl, rfl⟩ := h
      let P : St → Io → Prop := fun t tio => FastInv op s.streamState io.availIn t tio
      have hP0 : P s io := ⟨hI, hfm, hrm, Nat.le_refl _, hacc, Or.inl rfl⟩
      obtain ⟨hS, hbrk⟩ := fastLoop_exit P (fun _ _ _ _ _ hp hs => fastInv_step hp hs) fuel s io s1 io1 hP0 hl
      obtain ⟨_, _, f2, f3, f4⟩ := fastStep_brk hbrk
      obtain ⟨_, _, _, _, _, _, _, k8, _⟩ := checkFlushComplete_frame s1
      have hnp : s1.streamState ≠ .processing → io1.availIn = 0 := by
        intro hne
        rcases hS.st with h1 | ⟨_, h2, _⟩
        · exact hS.nonproc (by rw [← h1]; exact hne)
        · exact h2
      constructor
      · intro hroom
        rw [k8]
        by_cases hp : s1.pending.length = 0
        · exact hp
        · exact absurd ⟨hp, hroom⟩ f3
      · intro hp
        rw [k8] at hp
        refine drained_of_exit hS.inv hnp hS.st f2 ?_ hp
        intro hpr
        have h4 : ¬(io1.availIn ≠ 0 ∨ op ≠ 0) := fun hh => f4 ⟨hp, hpr, hh⟩
        constructor
        · by_cases h0 : op = 0
          · exact h0
          · exact absurd (Or.inr h0) h4
        · by_cases hz : io1.availIn = 0
          · exact hz
          · exact absurd (Or.inl hz) h4
    · simp at h
    · simp at h

/-- `compress_stream` with PROCESS / FLUSH / FINISH outside a metadata block: a return with output
room left has nothing pending, and a return with nothing pending has completed the request -/
theorem compressStream_drained {o : Oracle} {fuel op cap : Nat} {input : Bytes} {s s' : St} {io' : Io}
    (hop : op ≤ 2) (hI : Inv s) (hrm : s.remainingMetadata = u32Max) (hw : s.inputPos + input.length < two64)
    (h : compressStream o fuel s op input cap = .ok (s', io', true)) :
    (io'.availOut ≠ 0 → s'.pending.length = 0) ∧ (s'.pending.length = 0 → Drained op s.streamState s' io') := by
  unfold compressStream at h
  rw [ensureInitialized_id hI.init] at h
  simp only at h
  rw [if_neg (by simp [hrm]), if_neg (by omega)] at h
  have hnmd : ¬ (s.streamState = .metadataHead ∨ s.streamState = .metadataBody) := by
    intro hh; exact absurd hrm (hI.mdIff.mp hh)
  rw [if_neg hnmd] at h
  split at h
  · simp at h
  · rename_i hok
    have hacc : s.streamState ≠ .processing → input.length = 0 := by
      intro hh
      by_cases hne : input.length = 0
      · exact hne
      · exact absurd ⟨hh, hne⟩ hok
    split at h
    · rename_i hfast
      have hfm : fastMode s.params := ⟨hfast.1, by simpa using hfast.2.1, by simpa using hfast.2.2⟩
      exact fast_drained (io := { input := input, availIn := input.length, availOut := cap }) hI hrm hfm hacc h
    · exact slow_drained (io := { input := input, availIn := input.length, availOut := cap }) hI hrm hw hacc h

/-! ### metadata -/

/-- `process_metadata` breaks either because output is pending and the caller's buffer is full,
or because the block is complete (then nothing is pending) -/
theorem mdStep_brk {o : Oracle} {s s' : St} {io io' : Io}
    (h : processMetadataStep o s io = .ok (s', io', .brk)) :
    (s'.pending.length ≠ 0 ∧ io'.availOut = 0) ∨ (s'.pending.length = 0 ∧ s'.remainingMetadata = u32Max) := by
  unfold processMetadataStep at h
  split at h
  · simp at h
  · simp at h
  · simp at h
  · rename_i s1 io1 hp
    obtain ⟨e1, e2, p1, p2⟩ := push_false hp
    have e1' := e1.symm; have e2' := e2.symm
    subst e1' e2'
    split at h
    · rename_i hpend
      simp only [Out.ok.injEq, Prod.mk.injEq] at h
      obtain ⟨rfl, rfl, _⟩ := h
      left
      refine ⟨hpend, ?_⟩
      by_cases hz : io.availOut = 0
      · exact hz
      · exact absurd ⟨hpend, hz⟩ p2
    · rename_i hpend
      split at h
      · split at h
        · simp at h
        · simp at h
        · split at h <;> simp at h
      · split at h
        · simp only at h
          split at h <;> simp at h
        · split at h
          · simp only [Out.ok.injEq, Prod.mk.injEq] at h
            obtain ⟨rfl, rfl, _⟩ := h
            right
            exact ⟨by simpa using hpend, rfl⟩
          · split at h
            · simp only at h
              split at h <;> simp at h
            · simp only at h
              split at h <;> simp at h

theorem mdLoop_exit {o : Oracle} :
    ∀ fuel s io s' io' r, processMetadataLoop o fuel s io = .ok (s', io', r) → r = true →
      (s'.pending.length ≠ 0 ∧ io'.availOut = 0) ∨ (s'.pending.length = 0 ∧ s'.remainingMetadata = u32Max) := by
  intro fuel
  induction fuel with
  | zero => intro s io s' io' r h; simp [processMetadataLoop] at h
  | succ k ih =>
    intro s io s' io' r h hr
    unfold processMetadataLoop at h
    split at h
    · simp at h
    · simp at h
    · simp only [Out.ok.injEq, Prod.mk.injEq] at h
      obtain ⟨_, _, rfl⟩ := h
      cases hr
    · exact ih _ _ _ _ _ h hr
    · rename_i s1 io1 hs
      simp only [Out.ok.injEq, Prod.mk.injEq] at h
      obtain ⟨rfl, rfl, _⟩ := h
      exact mdStep_brk hs

theorem absC_cases {s : St} (hI : Inv s) (hrm : s.remainingMetadata = u32Max) :
    (s.streamState = .processing ∧ absC s = .processing) ∨
    (s.streamState = .flushRequested ∧ absC s = .flushing) ∨
    (s.streamState = .finished ∧ (absC s = .finishing ∨ absC s = .finished)) := by
  rw [absC_eq hI hrm]
  cases hs : s.streamState
  · exact Or.inl ⟨rfl, rfl⟩
  · exact Or.inr (Or.inl ⟨rfl, rfl⟩)
  · refine Or.inr (Or.inr ⟨rfl, ?_⟩)
    by_cases hp : s.pending.length = 0
    · right; simp [hp]
    · left; simp [hp]
  · exact absurd hrm (hI.mdIff.mp (Or.inl hs))
  · exact absurd hrm (hI.mdIff.mp (Or.inr hs))

/-- EMIT_METADATA: an accepted call that returns with output room left, or with nothing
pending, has completed the metadata block -/
theorem metadata_drained {o : Oracle} {fuel cap : Nat} {input : Bytes} {s s' : St} {io' : Io}
    (hI : Inv s) (hw : s.inputPos + input.length < two64)
    (h : compressStream o fuel s 3 input cap = .ok (s', io', true)) :
    (io'.availOut ≠ 0 → s'.pending.length = 0) ∧
    (s'.pending.length = 0 → s'.remainingMetadata = u32Max ∧ s'.streamState = .processing ∧ io'.availIn = 0) := by
  have href := compressStream_refines (by omega) hI hw h
  have hI' := (href.2 rfl).1
  unfold compressStream at h
  rw [ensureInitialized_id hI.init] at h
  simp only at h
  split at h
  · simp at h
  · simp only [↓reduceIte] at h
    unfold processMetadata at h
    split at h
    · simp at h
    · split at h
      · simp at h
      · have hex := mdLoop_exit fuel _ _ s' io' true h rfl
        constructor
        · intro hroom
          rcases hex with ⟨_, h2⟩ | ⟨h1, _⟩
          · exact absurd h2 hroom
          · exact h1
        · intro hp
          rcases hex with ⟨h1, _⟩ | ⟨_, h2⟩
          · exact absurd hp h1
          · have hsucc := (href.2 rfl).2.2
            have hnmd : ¬ (s'.streamState = .metadataHead ∨ s'.streamState = .metadataBody) := by
              intro hh; exact absurd h2 (hI'.mdIff.mp hh)
            -- the contract successor of an accepted metadata call is `metadata r'` or `processing`
            have hcases' := absC_cases hI' h2
            have hnotmd : ∀ r', absC s' ≠ .metadata r' := by
              intro r' hh
              rcases hcases' with ⟨_, h⟩ | ⟨_, h⟩ | ⟨_, h | h⟩ <;> rw [h] at hh <;> cases hh
            have hacc := href.1
            have habs : absC s' = .processing ∧ io'.availIn = 0 := by
              by_cases hrm : s.remainingMetadata = u32Max
              · rcases absC_cases hI hrm with ⟨_, hs⟩ | ⟨_, hs⟩ | ⟨_, hs | hs⟩ <;> rw [hs] at hsucc hacc
                · simp only [Contract.succ, ↓reduceIte] at hsucc
                  rcases hsucc with ⟨r', hr1, _, _⟩ | ⟨hr1, hr2⟩
                  · exact absurd hr1 (hnotmd r')
                  · exact ⟨hr1, by have := (href.2 rfl).2.1; omega⟩
                · simp [Contract.accepts] at hacc
                · simp [Contract.accepts] at hacc
                · simp [Contract.accepts] at hacc
              · rw [absC_md hI.init hrm] at hsucc hacc
                simp only [Contract.succ] at hsucc
                rcases hsucc with ⟨r', hr1, _, _⟩ | ⟨hr1, hr2⟩
                · exact absurd hr1 (hnotmd r')
                · simp [Contract.accepts] at hacc
                  exact ⟨hr1, by have := (href.2 rfl).2.1; omega⟩
            refine ⟨h2, ?_, habs.2⟩
            rcases hcases' with ⟨h, _⟩ | ⟨_, h⟩ | ⟨_, h | h⟩
            · exact h
            · rw [h] at habs; cases habs.1
            · rw [h] at habs; cases habs.1
            · rw [h] at habs; cases habs.1

end BV.Stream
