/-
Whole-stream composition for C03 `concat_bits`: what one accepted member adds to the logical
output, at byte level for the first member and at bit level for every later one; `finish`.
-/
import BV.Lemmas.ConcatMemberRun
import BV.Lemmas.ConcatSplice
import BV.Lemmas.ConcatSerial

namespace BV.Concat
open Outcome BV.Gen

theorem bytesToBits_append (a b : List Nat) : bytesToBits (a ++ b) = bytesToBits a ++ bytesToBits b := by
  unfold bytesToBits; rw [List.flatMap_append]

/-- `finish` in the pass-through phase (tail not sanitised): the 0–2 held bytes are emitted as they are -/
theorem finish_passthrough (s : State) (cap : Nat) (hp : s.new_stream_pending = none)
    (hs : s.last_byte_sanitized = false) (hl : s.last_bytes_len = 1 ∨ s.last_bytes_len = 2) (hcap : 2 ≤ cap) :
    ∃ st, finish s cap = ok ⟨st, SUCCESS, 0, held s⟩ := by
  unfold finish
  rw [if_neg (by rw [hs]; simp)]
  simp only [bind_ok]
  have c0 : ¬ (([] : List Nat).length = cap) := by simp; omega
  have c1 : ∀ x : Nat, ¬ (([] ++ [x] : List Nat).length = cap) := by intro x; simp; omega
  have p0 : ([] : List Nat).length < cap := by simp; omega
  have p1 : ∀ x : Nat, ([] ++ [x] : List Nat).length < cap := by intro x; simp; omega
  rw [held_none s hp]
  rcases hl with h1 | h2
  · rw [h1]
    simp only [finishLoop, c0, if_false, push, p0, if_true, bind_ok]
    exact ⟨_, rfl⟩
  · rw [h2]
    simp only [finishLoop, c0, c1, if_false, push, p0, p1, if_true, bind_ok]
    exact ⟨_, rfl⟩

/-- if the capacity-free computations say "accepted", every complete run has the closed form -/
theorem memberRun_of_plan (s : State) (x acc : List Nat) (R : Run) (nsp0 : NewStreamData) (s1 : State)
    (o1 : List Nat) (nspF : NewStreamData) (k : Nat) (s' : State) (n' : NewStreamData) (q : List Nat) (w : Nat)
    (plan : HdrPlan s x nsp0 s1 o1 nspF k s' n' q w) (h : MemberSpec s x acc R) :
    MemberRun acc o1 q n' w x k s' R := by
  have hp := plan.pending
  have hf := plan.strip
  have hl := plan.look
  have hh := plan.head
  cases h with
  | failed nsp0' s1' o1' hp' hw' hf' hR' => rw [hf] at hf'; simp at hf'
  | partly nsp0' s1' o1' nspX' k' hp' hw' hf' hl' hins' hR' =>
    rw [hp] at hp'; simp only [Option.some.injEq] at hp'; subst hp'
    rw [hl] at hl'; simp only [Outcome.ok.injEq, Prod.mk.injEq] at hl'; obtain ⟨rfl, rfl⟩ := hl'
    have := plan.suff; rw [hins'] at this; simp at this
  | rejected nsp0' s1' o1' nspX' k' c' hp' hw' hf' hl' hsuf' hh' hR' =>
    rw [hp] at hp'; simp only [Option.some.injEq] at hp'; subst hp'
    rw [hf] at hf'; simp only [Outcome.ok.injEq, Prod.mk.injEq] at hf'; obtain ⟨rfl, rfl, _⟩ := hf'
    rw [hl] at hl'; simp only [Outcome.ok.injEq, Prod.mk.injEq] at hl'; obtain ⟨rfl, rfl⟩ := hl'
    rw [hh] at hh'; simp at hh'
  | accepted nsp0' s1' o1' nspF' k' s'' n'' q' w' plan' run' =>
    have hp' := plan'.pending
    rw [hp] at hp'; simp only [Option.some.injEq] at hp'; subst hp'
    have hf' := plan'.strip
    rw [hf] at hf'; simp only [Outcome.ok.injEq, Prod.mk.injEq] at hf'; obtain ⟨rfl, rfl, _⟩ := hf'
    have hl' := plan'.look
    rw [hl] at hl'; simp only [Outcome.ok.injEq, Prod.mk.injEq] at hl'; obtain ⟨rfl, rfl⟩ := hl'
    have hh' := plan'.head
    rw [hh] at hh'; simp only [Outcome.ok.injEq, Sum.inr.injEq, Prod.mk.injEq] at hh'
    obtain ⟨rfl, rfl, rfl⟩ := hh'
    have hw := plan.written
    have hw' := plan'.written
    rw [hw] at hw'; simp only [Option.some.injEq] at hw'; subst hw'
    exact run'

/-- the look-ahead of a fresh member, as a function of its bytes -/
theorem headerLoop_member (m : List Nat) (hlen : need (m.headD 0) ≤ m.length) :
    ∃ nspF, headerLoop NewStreamData.new m 0 = ok (nspF, need (m.headD 0)) ∧ nspF.sufficient = true ∧
      nspF.num_bytes_read = need (m.headD 0) ∧ nspF.num_bytes_written = none ∧
      nspF.bytes_so_far.toList.take nspF.num_bytes_read = m.take (need (m.headD 0)) ∧
      ((∀ y, y ∈ m → y < 256) → nspF.bytes_so_far.b0 < 256 ∧ nspF.bytes_so_far.b1 < 256 ∧
        nspF.bytes_so_far.b2 < 256 ∧ nspF.bytes_so_far.b3 < 256 ∧ nspF.bytes_so_far.b4 < 256) := by
  have h4 : 4 ≤ m.length := by unfold need at hlen; split at hlen <;> omega
  obtain ⟨a, t0, rfl, h3⟩ := exists_cons m 3 h4
  obtain ⟨b, t1, rfl, h2⟩ := exists_cons t0 2 h3
  obtain ⟨c, t2, rfl, h1⟩ := exists_cons t1 1 h2
  obtain ⟨d, t3, rfl, _⟩ := exists_cons t2 0 h1
  simp only [List.headD_cons] at hlen ⊢
  by_cases h17 : 127 &&& a = 17
  · have hn : need a = 5 := by unfold need; rw [if_pos h17]
    rw [hn] at hlen ⊢
    obtain ⟨e, t4, rfl, _⟩ := exists_cons t3 0 (by simp at hlen; omega)
    refine ⟨_, headerLoop_new_5 a b c d e t4 h17, by simp [NewStreamData.sufficient], rfl, rfl, by simp [B5.toList],
      fun hb => ⟨hb a (by simp), hb b (by simp), hb c (by simp), hb d (by simp), hb e (by simp)⟩⟩
  · have hn : need a = 4 := by unfold need; rw [if_neg h17]
    rw [hn]
    exact ⟨_, headerLoop_new_4 a b c d t3 h17, by simp [NewStreamData.sufficient, h17], rfl, rfl,
      by simp [B5.toList],
      fun hb => ⟨hb a (by simp), hb b (by simp), hb c (by simp), hb d (by simp), (by show 0 < 256; omega)⟩⟩

/-- FIRST member (nothing emitted yet, `window_size = 0`): once its header parses, every
complete run passes the member through verbatim: `emitted ++ tail = acc ++ m` -/
theorem first_member_bytes (fuel : Nat) (s : State) (m : List Nat) (bufs : List (List Nat)) (caps acc : List Nat)
    (R : Run) (hI : Inv s) (hws : s.window_size = 0) (hlen : need (m.headD 0) ≤ m.length)
    (wsz wo : Nat) (hparse : parseWindowSize (m.take (need (m.headD 0))) = ok (some (wsz, wo)))
    (hne : bufs ≠ []) (hfl : bufs.flatten = m)
    (h : runAll fuel (newBrotliFile s) bufs caps acc = some R) :
    R.emitted ++ held R.st = acc ++ m ∧ R.code = NEEDS_MORE_INPUT ∧ R.st.new_stream_pending = none ∧
    R.st.last_bytes_len = min 2 (1 + (m.length - need (m.headD 0))) ∧ Inv R.st ∧
    R.st.window_size = (wsz ||| (if wo = 14 then LARGE_WINDOW_FLAG else 0)) := by
  have hI0 : Inv (newBrotliFile s) := by
    refine ⟨hI.len_le, hI.off_lt, hI.ws0, fun e => ⟨rfl, (hI.san e).2⟩, hI.tail, fun d hd => ?_⟩
    simp only [newBrotliFile, Option.some.injEq] at hd
    subst hd
    exact ⟨by decide, fun w hw => by simp [NewStreamData.new] at hw⟩
  have hS0 : Started (newBrotliFile s) := fun _ => rfl
  have hspec := runAll_spec fuel bufs (newBrotliFile s) caps acc R hI0 hS0 ⟨NewStreamData.new, rfl, rfl⟩ hne h
  rw [hfl] at hspec
  obtain ⟨hl0, ho0⟩ := hI.ws0 hws
  -- strip: nothing to strip
  have hstrip : flushPreviousStream (newBrotliFile s) [] 1
      = ok ({ newBrotliFile s with last_byte_sanitized := true }, [], SUCCESS) := by
    unfold flushPreviousStream
    cases hs : s.last_byte_sanitized with
    | true =>
      have : (newBrotliFile s).last_byte_sanitized = true := hs
      simp only [this, not_true_eq_false, if_false]
      congr 2
      cases s; simp_all [newBrotliFile]
    | false =>
      have : (newBrotliFile s).last_byte_sanitized = false := hs
      have hl : (newBrotliFile s).last_bytes_len = 0 := hl0
      simp [this, hl]
  obtain ⟨nspF, hlook, hsuf, hrd, hwr, htake, _⟩ := headerLoop_member m hlen
  have hr5 : nspF.num_bytes_read ≤ 5 := by rw [hrd]; unfold need; split <;> omega
  have hhead : shiftHead { ({ newBrotliFile s with last_byte_sanitized := true } : State) with
        new_stream_pending := some nspF } nspF
      = ok (.inr ({ ({ ({ newBrotliFile s with last_byte_sanitized := true } : State) with
                          new_stream_pending := some nspF } : State) with
                      window_size := wsz ||| (if wo = 14 then LARGE_WINDOW_FLAG else 0), any_bytes_emitted := true },
                  { nspF with num_bytes_written := some 1 }, [nspF.bytes_so_far.b0])) := by
    unfold shiftHead
    rw [hdr5, if_neg (by omega), htake, hparse]
    simp only [bind_ok]
    have e1 : (newBrotliFile s).window_size = 0 := hws
    have e2 : (newBrotliFile s).last_byte_bit_offset = 0 := ho0
    simp [e1, e2]
  have plan : HdrPlan (newBrotliFile s) m NewStreamData.new _ [] nspF (need (m.headD 0)) _ _ _ 1 :=
    ⟨rfl, rfl, hstrip, hlook, hsuf, hhead, rfl⟩
  have run := memberRun_of_plan _ m acc R _ _ _ _ _ _ _ _ _ plan hspec
  refine ⟨?_, run.code, run.pending, run.len, run.inv, run.ws⟩
  rw [run.cons]
  unfold planOwed owedOf
  dsimp only
  -- [b0] ++ hdr[1..] ++ m[need..] = m
  have h4 : 1 ≤ nspF.num_bytes_read := by rw [hrd]; unfold need; split <;> omega
  have hb0 : [nspF.bytes_so_far.b0] = (nspF.bytes_so_far.toList.take nspF.num_bytes_read).take 1 := by
    rw [List.take_take, Nat.min_eq_left h4]; rfl
  have hrest : (nspF.bytes_so_far.toList.drop 1).take (nspF.num_bytes_read - 1)
      = (nspF.bytes_so_far.toList.take nspF.num_bytes_read).drop 1 := by
    rw [List.drop_take]
  rw [hb0, hrest, htake]
  simp only [List.nil_append, List.append_assoc]
  rw [← List.append_assoc (List.take 1 _), List.take_append_drop, List.take_append_drop]

/-- A LATER member, at the bit level.  `s` is in pass-through with a tail of 1 or 2 bytes
whose value is `Marked n D` (the previous stream's `n` last data bits, its end marker, padding).
Member `m`: window field of `wo` bits (window `wsz` not larger than the output's, same header
form), first meta-block header ending at bit `v ≤ 8·lookahead`.  Every complete run, under
any slicing and any capacities, ends in pass-through with

  bits(emitted ++ tail) = bits(acc) ++ dataBits(n, D) ++ memberBits[wo ..< v] ++ 0-padding
                          ++ bits(m[⌈v/8⌉ ..])

i.e. the previous end marker is gone, the member's window field is dropped, its header bits
are glued behind the previous data bits, and the rest of the member follows byte-aligned. -/
theorem member_step_bits (fuel : Nat) (s : State) (m : List Nat) (bufs : List (List Nat)) (caps acc : List Nat)
    (R : Run) (n D wsz wo v : Nat)
    (hI : Inv s) (hp : s.new_stream_pending = none) (hwsn : s.window_size ≠ 0)
    (hl : s.last_bytes_len = 1 ∨ s.last_bytes_len = 2) (hn : n + 2 ≤ 8 * s.last_bytes_len)
    (hm : Marked (s.last_bytes.1 + (s.last_bytes.2 <<< 8)) n D)
    (hlen : need (m.headD 0) ≤ m.length) (hbytes : ∀ y, y ∈ m → y < 256)
    (hparse : parseWindowSize (m.take (need (m.headD 0))) = ok (some (wsz, wo)))
    (hwle : ¬ wsz > (s.window_size &&& NOT_LARGE_WINDOW_FLAG))
    (hform : ¬ (decide (wo = 14)) ≠ (decide ((s.window_size &&& LARGE_WINDOW_FLAG) ≠ 0)))
    (hdet : detectVarlenOffset (m.take (need (m.headD 0))) = ok (some v))
    (hfit : (v + 7) / 8 ≤ need (m.headD 0))
    (hne : bufs ≠ []) (hfl : bufs.flatten = m)
    (h : runAll fuel (newBrotliFile s) bufs caps acc = some R) :
    R.code = NEEDS_MORE_INPUT ∧ R.st.new_stream_pending = none ∧ Inv R.st ∧
    R.st.window_size = s.window_size ∧
    R.st.last_bytes_len = min 2 (1 + (m.length - need (m.headD 0))) ∧
    ∃ G, R.emitted ++ held R.st = acc ++ G ++ m.drop ((v + 7) / 8) ∧
      bytesToBits G =
        bitsOf n D ++ ((bytesToBits (m.take (need (m.headD 0)))).drop wo).take (v - wo) ++
        List.replicate (8 * (((if n < 8 then n else n - 8) + v - wo + 7) / 8) - (if n < 8 then n else n - 8) - (v - wo))
          false := by
  have hns : s.last_byte_sanitized = false := by
    cases hs : s.last_byte_sanitized with
    | false => rfl
    | true => have := (hI.san hs).1; rw [hp] at this; simp at this
  have hI0 : Inv (newBrotliFile s) := by
    refine ⟨hI.len_le, hI.off_lt, hI.ws0, fun e => ⟨rfl, (hI.san e).2⟩, hI.tail, fun d hd => ?_⟩
    simp only [newBrotliFile, Option.some.injEq] at hd
    subst hd
    exact ⟨by decide, fun w hw => by simp [NewStreamData.new] at hw⟩
  have hS0 : Started (newBrotliFile s) := fun _ => rfl
  have hspec := runAll_spec fuel bufs (newBrotliFile s) caps acc R hI0 hS0 ⟨NewStreamData.new, rfl, rfl⟩ hne h
  rw [hfl] at hspec
  -- strip
  have hstrip := strip_end_marker_gen (newBrotliFile s) n D 1 [] hns hl hn hm (by simp)
  simp only [List.nil_append] at hstrip
  -- look-ahead
  obtain ⟨nspF, hlook, hsuf, hrd, hwr, htake, hb256⟩ := headerLoop_member m hlen
  obtain ⟨b0, b1, b2, b3, b4⟩ := hb256 hbytes
  have hr5 : nspF.num_bytes_read ≤ 5 := by rw [hrd]; unfold need; split <;> omega
  have hr4 : 4 ≤ nspF.num_bytes_read := by rw [hrd]; unfold need; split <;> omega
  -- offsets
  have hhl : (m.take (need (m.headD 0))).length = need (m.headD 0) := by
    rw [List.length_take]; omega
  obtain ⟨w', o', hpe, hok, hov⟩ := by
    have := detectVarlenOffset_sat (m.take (need (m.headD 0))) (by rw [hhl, ← hrd]; omega) (by rw [hhl, ← hrd]; omega)
    rw [hdet, sat_ok] at this
    exact this v rfl
  rw [hparse] at hpe
  simp only [Outcome.ok.injEq, Option.some.injEq, Prod.mk.injEq] at hpe
  obtain ⟨_, rfl⟩ := hpe
  have hwo14 : wo ≤ 14 := by rcases hok.2.2 with e | e | e | e <;> omega
  -- realignment
  have hoffk : (stripped (newBrotliFile s) n D).last_byte_bit_offset = (if n < 8 then n else n - 8) := by
    unfold stripped; split <;> rfl
  have hk8 : (if n < 8 then n else n - 8) < 8 := by split <;> omega
  have htk : (stripped (newBrotliFile s) n D).last_bytes.1 < 2 ^ (stripped (newBrotliFile s) n D).last_byte_bit_offset := by
    have hD := hm.lt
    unfold stripped
    by_cases h8 : n < 8
    · simp only [h8, if_true]; exact hD
    · simp only [h8, if_false]
      have e : 2 ^ n = 256 * 2 ^ (n - 8) := by
        rw [show (256 : Nat) = 2 ^ 8 by decide, ← Nat.pow_add]; congr 1; omega
      apply Nat.div_lt_of_lt_mul; rw [← e]; exact hD
  obtain ⟨r0, nsp', hre, hw0, hrd', hbits, hrestb⟩ :=
    splice_header_bits { stripped (newBrotliFile s) n D with new_stream_pending := some nspF } nspF wo v [] 1
      (by show (stripped (newBrotliFile s) n D).last_byte_bit_offset < 8; rw [hoffk]; exact hk8) htk hr5 b0 b1 b2 b3 b4
      hwo14 hov (by rw [hrd]; exact hfit) (by simp)
  have hwsS : (stripped (newBrotliFile s) n D).window_size = s.window_size := by unfold stripped; split <;> rfl
  have hhead : shiftHead { stripped (newBrotliFile s) n D with new_stream_pending := some nspF } nspF
      = ok (.inr ({ ({ stripped (newBrotliFile s) n D with new_stream_pending := some nspF } : State) with
                      any_bytes_emitted := true }, nsp', [r0])) := by
    unfold shiftHead
    rw [hdr5, if_neg (by omega), htake, hparse]
    simp only [bind_ok]
    have e1 : ({ stripped (newBrotliFile s) n D with new_stream_pending := some nspF } : State).window_size
        = s.window_size := hwsS
    have hc1 : ¬ ({ stripped (newBrotliFile s) n D with new_stream_pending := some nspF } : State).window_size = 0 := by
      rw [e1]; exact hwsn
    have hc2 : ¬ wsz > (({ stripped (newBrotliFile s) n D with new_stream_pending := some nspF } : State).window_size
        &&& NOT_LARGE_WINDOW_FLAG) := by rw [e1]; exact hwle
    have hc3 : ¬ (decide (wo = 14)) ≠ (decide ((({ stripped (newBrotliFile s) n D with
        new_stream_pending := some nspF } : State).window_size &&& LARGE_WINDOW_FLAG) ≠ 0)) := by rw [e1]; exact hform
    rw [if_neg hc1, if_neg hc2, if_neg hc3, hdet]
    simp only [bind_ok]
    rw [if_neg (by rw [hrd]; omega), hre]
    simp
  have plan : HdrPlan (newBrotliFile s) m NewStreamData.new _ _ nspF (need (m.headD 0)) _ nsp' [r0] 0 :=
    ⟨rfl, rfl, hstrip, hlook, hsuf, hhead, hw0⟩
  have run := memberRun_of_plan _ m acc R _ _ _ _ _ _ _ _ _ plan hspec
  refine ⟨run.code, run.pending, run.inv, by rw [run.ws]; exact hwsS, run.len,
    (if n < 8 then ([] : List Nat) else [D % 256]) ++
      (r0 :: List.take nsp'.num_bytes_read nsp'.bytes_so_far.toList).take
        (((stripped (newBrotliFile s) n D).last_byte_bit_offset + v - wo + 7) / 8), ?_, ?_⟩
  rotate_left
  · -- the glue bytes as bits
    have hdata : bitsOf n D = bytesToBits (if n < 8 then [] else [D % 256]) ++
        bitsOf (stripped (newBrotliFile s) n D).last_byte_bit_offset (stripped (newBrotliFile s) n D).last_bytes.1 := by
      unfold stripped
      by_cases h8 : n < 8
      · simp [h8, bytesToBits]
      · simp only [h8, if_false, bytesToBits, List.flatMap_cons, List.flatMap_nil, List.append_nil]
        have e : n = 8 + (n - 8) := by omega
        conv => lhs; rw [e]
        rw [bitsOf_append]
        have : bitsOf 8 (D % 256) = bitsOf 8 D := bitsOf_mod 8 D
        rw [this]
    have hb := hbits
    dsimp only at hb
    rw [bytesToBits_append, hb, hdata, hoffk, htake]
    simp [List.append_assoc]
  rw [run.cons]
  unfold planOwed owedOf
  simp only [List.drop_zero, Nat.sub_zero]
  -- bytes: o1 ++ [r0] ++ rest' ++ m[need..]; split the realigned header at `dest`
  have hR : [r0] ++ List.take nsp'.num_bytes_read nsp'.bytes_so_far.toList
      = (r0 :: List.take nsp'.num_bytes_read nsp'.bytes_so_far.toList).take
          (((stripped (newBrotliFile s) n D).last_byte_bit_offset + v - wo + 7) / 8) ++
        (m.take (need (m.headD 0))).drop ((v + 7) / 8) := by
    have := List.take_append_drop (((stripped (newBrotliFile s) n D).last_byte_bit_offset + v - wo + 7) / 8)
      (r0 :: List.take nsp'.num_bytes_read nsp'.bytes_so_far.toList)
    rw [← htake, ← hrestb]
    exact this.symm
  have hglue : (m.take (need (m.headD 0))).drop ((v + 7) / 8) ++ m.drop (need (m.headD 0)) = m.drop ((v + 7) / 8) := by
    rw [List.drop_take]
    exact take_drop_glue m _ _ hfit
  have hinner : (if n < 8 then ([] : List Nat) else [D % 256]) ++ [r0] ++
        List.take nsp'.num_bytes_read nsp'.bytes_so_far.toList ++ List.drop (need (m.headD 0)) m
      = (if n < 8 then ([] : List Nat) else [D % 256]) ++
        ((r0 :: List.take nsp'.num_bytes_read nsp'.bytes_so_far.toList).take
          (((stripped (newBrotliFile s) n D).last_byte_bit_offset + v - wo + 7) / 8) ++ m.drop ((v + 7) / 8)) := by
    rw [List.append_assoc, List.append_assoc, ← List.append_assoc [r0], hR, List.append_assoc, hglue]
  rw [hinner]
  simp [List.append_assoc]

end BV.Concat
