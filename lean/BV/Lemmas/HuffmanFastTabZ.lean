/-
C17: the precomputed table `kZeroRepsDepth/Bits` of the fast builder is, entry by entry,
what `BrotliWriteHuffmanTreeRepetitionsZeros` emits written with the static code-length
code (kernel-checked for all 703 run lengths).
-/
import BV.Lemmas.HuffmanStoreIO

namespace BV.Lemmas.HuffmanFastTab
open BV.Gen BV.Bits BV.Huffman BV.Lemmas.HuffmanStoreIO

/-- `repDigits` with fuel (kernel-evaluable) -/
def repDigitsF (bits : Nat) : Nat → Nat → List Nat
  | 0, r => [r % 2 ^ bits]
  | f + 1, r => r % 2 ^ bits :: (if r / 2 ^ bits = 0 then [] else repDigitsF bits f (r / 2 ^ bits - 1))

theorem repDigitsF_eq (bits : Nat) (hb : 1 ≤ bits) :
    ∀ (f r : Nat), r < 2 ^ f → repDigitsF bits f r = repDigits bits r := by
  intro f
  induction f with
  | zero =>
    intro r hr
    have : r = 0 := by simpa using hr
    subst this
    rw [repDigits]; simp [repDigitsF]
  | succ f ih =>
    intro r hr
    rw [repDigits]
    simp only [repDigitsF]
    by_cases hq : r / 2 ^ bits = 0
    · simp [hq]
    · simp only [hq, ↓reduceIte, ↓reduceDIte]
      rw [ih]
      have h2 : 2 ^ 1 ≤ 2 ^ bits := Nat.pow_le_pow_right (by decide) hb
      have hle : r / 2 ^ bits ≤ r / 2 ^ 1 := Nat.div_le_div_left h2 (by decide)
      rw [Nat.pow_succ] at hr
      simp only [Nat.pow_one] at hle
      omega

/-- bits of an entry under the static code-length code -/
def sBits (e : Nat × Nat) : List Bool :=
  entryBitsU (fun s => bitsOf (kCodeLengthDepth.getD s 0) (kCodeLengthBits.getD s 0)) e

/-- table rows `(depth, bits)` from index `r` on: each fits `BrotliWriteBits` and is the
static-code serialisation of the entries `E r` -/
def chkTab (E : Nat → List (Nat × Nat)) : List (Nat × Nat) → Nat → Bool
  | [], _ => true
  | (d, b) :: rest, r =>
    decide (d ≤ 56) && decide (b < 2 ^ d) && (bitsOf d b == ((E r).map sBits).flatten) &&
      chkTab E rest (r + 1)

theorem chkTab_spec (E : Nat → List (Nat × Nat)) : ∀ (l : List (Nat × Nat)) (r : Nat),
    chkTab E l r = true → ∀ k, k < l.length →
      (l.getD k (0, 0)).1 ≤ 56 ∧ (l.getD k (0, 0)).2 < 2 ^ (l.getD k (0, 0)).1 ∧
      bitsOf (l.getD k (0, 0)).1 (l.getD k (0, 0)).2 = ((E (r + k)).map sBits).flatten := by
  intro l
  induction l with
  | nil => intro r _ k hk; simp at hk
  | cons x xs ih =>
    intro r h k hk
    obtain ⟨d, b⟩ := x
    simp only [chkTab, Bool.and_eq_true, decide_eq_true_eq, beq_iff_eq] at h
    cases k with
    | zero => simpa using ⟨h.1.1.1, h.1.1.2, h.1.2⟩
    | succ k =>
      have := ih (r + 1) h.2 k (by simpa using hk)
      simpa [Nat.add_assoc, Nat.add_comm 1 k] using this

/-- `BrotliWriteHuffmanTreeRepetitionsZeros` with the fuelled digit loop -/
def zEntriesF (reps : Nat) : List (Nat × Nat) :=
  if reps = 11 then (0, 0) :: ((repDigitsF 3 10 7).reverse.map fun e => (17, e))
  else if reps < 3 then List.replicate reps (0, 0)
  else (repDigitsF 3 10 (reps - 3)).reverse.map fun e => (17, e)

theorem zEntriesF_eq (reps : Nat) (h : reps < 1024) : zEntriesF reps = writeRepsZeros reps := by
  have hp : (2:Nat) ^ 10 = 1024 := by decide
  unfold zEntriesF writeRepsZeros
  by_cases h11 : reps = 11
  · subst h11
    simp only [↓reduceIte, show ¬ (10 < 3) by decide]
    rw [repDigitsF_eq 3 (by decide) 10 7 (by decide)]
    rfl
  · simp only [h11, ↓reduceIte, List.nil_append]
    split
    · rfl
    · rw [repDigitsF_eq 3 (by decide) 10 _ (by omega)]

theorem zero_table_chk : chkTab zEntriesF ((kZeroRepsDepth.zip kZeroRepsBits).drop 1) 1 = true := by
  decide +kernel

end BV.Lemmas.HuffmanFastTab
