/-
Conservation law of the concatenator once a member's header has been accepted
(header copy-out, tail fill and pass-through phases) and schedule independence
of the canonical protocol driver `feedBuffer` in those phases (C12).
-/
import BV.Lemmas.ConcatStall

namespace BV.Concat
open Outcome BV.Gen

/-- bytes the machine owes the output but still keeps: the header bytes not yet
copied out (while a header copy is in progress) or the 0–2 byte tail -/
def held (s : State) : List Nat :=
  match s.new_stream_pending with
  | none => [s.last_bytes.1, s.last_bytes.2].take s.last_bytes_len
  | some d =>
    match d.num_bytes_written with
    | some w => (d.bytes_so_far.toList.drop w).take (d.num_bytes_read - w)
    | none => []

/-- the member's header has been accepted: no look-ahead is pending any more (either
the pass-through runs, or the realigned header is being copied out) -/
def Settled (s : State) : Prop :=
  s.new_stream_pending = none ∨
  ∃ d w, s.new_stream_pending = some d ∧ d.num_bytes_written = some w ∧ s.last_byte_sanitized = true

/-- tail length the pass-through will start from -/
def baseLen (s : State) : Nat :=
  match s.new_stream_pending with
  | none => s.last_bytes_len
  | some _ => 1

theorem take_one_drop (l : List Nat) (i : Nat) (h : i < l.length) : (l.drop i).take 1 = [l[i]] := by
  induction l generalizing i with
  | nil => simp at h
  | cons a t ih =>
    cases i with
    | zero => simp
    | succ j => simp at h ⊢; exact ih j h

/-- conservation for the pass-through copy (`last_bytes` full) -/
def CopyCons (s : State) (inp : List Nat) (inOff : Nat) (out : List Nat) (r : Ret) : Prop :=
  ∃ P, r.produced = out ++ P ∧ inOff ≤ r.consumed ∧ r.consumed ≤ inp.length ∧
    [s.last_bytes.1, s.last_bytes.2] ++ (inp.drop inOff).take (r.consumed - inOff)
      = P ++ [r.st.last_bytes.1, r.st.last_bytes.2] ∧
    r.st = { s with last_bytes := r.st.last_bytes } ∧
    (r.code = NEEDS_MORE_INPUT ∨ r.code = NEEDS_MORE_OUTPUT)

theorem streamCopy_cons (s : State) (inp : List Nat) (inOff : Nat) (out : List Nat) (cap : Nat)
    (hin : inOff ≤ inp.length) (hout : out.length ≤ cap) (r : Ret)
    (h : streamCopy s inp inOff out cap = ok r) : CopyCons s inp inOff out r := by
  unfold streamCopy at h
  by_cases c1 : cap = out.length
  · rw [if_pos c1] at h
    simp only [Outcome.ok.injEq] at h; subst h
    exact ⟨[], by simp, Nat.le_refl _, hin, by simp, rfl, Or.inr rfl⟩
  rw [if_neg c1] at h
  by_cases c2 : inp.length = inOff
  · rw [if_pos c2] at h
    simp only [Outcome.ok.injEq] at h; subst h
    exact ⟨[], by simp, Nat.le_refl _, hin, by simp, rfl, Or.inl rfl⟩
  rw [if_neg c2, if_neg (by omega), if_neg (by omega)] at h
  dsimp only at h
  rw [if_neg (by omega)] at h
  by_cases c3 : min (cap - out.length) (inp.length - inOff) = 1
  · rw [if_pos c3] at h
    unfold push at h
    rw [if_pos (by omega)] at h
    simp only [bind_ok, idx] at h
    have hlt : inOff < inp.length := by omega
    rw [List.getElem?_eq_getElem hlt] at h
    simp only [bind_ok] at h
    have key : ∀ code, (code = NEEDS_MORE_INPUT ∨ code = NEEDS_MORE_OUTPUT) →
        CopyCons s inp inOff out ⟨{ s with last_bytes := (s.last_bytes.2, inp[inOff]) }, code,
        inOff + 1, out ++ [s.last_bytes.1]⟩ := fun code hcode => by
      refine ⟨[s.last_bytes.1], rfl, by dsimp only; omega, by dsimp only; omega, ?_, rfl, hcode⟩
      dsimp only
      have : inOff + 1 - inOff = 1 := by omega
      rw [this, take_one_drop inp inOff hlt]
      rfl
    split at h
    · simp only [Outcome.ok.injEq] at h; rw [← h]; exact key _ (Or.inr rfl)
    · simp only [Outcome.ok.injEq] at h; rw [← h]; exact key _ (Or.inl rfl)
  · rw [if_neg c3, if_neg (by omega), if_neg (by omega), if_neg (by omega)] at h
    have hwin : (List.take (min (cap - out.length) (inp.length - inOff)) (List.drop inOff inp)).length
        = min (cap - out.length) (inp.length - inOff) := by
      simp only [List.length_take, List.length_drop]; omega
    obtain ⟨x, y, hxy⟩ := list_len2 (List.drop (min (cap - out.length) (inp.length - inOff) - 2)
      (List.take (min (cap - out.length) (inp.length - inOff)) (List.drop inOff inp)))
      (by rw [List.length_drop, hwin]; omega)
    rw [hxy] at h
    dsimp only at h
    have hnew : (List.take (min (cap - out.length) (inp.length - inOff) - 2)
        (List.take (min (cap - out.length) (inp.length - inOff)) (List.drop inOff inp))).length
        = min (cap - out.length) (inp.length - inOff) - 2 := by
      rw [List.length_take, hwin]; omega
    rw [if_neg (by simp only [List.length_append, List.length_cons, List.length_nil]; omega),
      if_neg (by rw [hnew]; simp)] at h
    have key : ∀ code, (code = NEEDS_MORE_INPUT ∨ code = NEEDS_MORE_OUTPUT) →
        CopyCons s inp inOff out ⟨{ s with last_bytes := (x, y) }, code,
        inOff + 2 + (min (cap - out.length) (inp.length - inOff) - 2),
        out ++ [s.last_bytes.1, s.last_bytes.2] ++ List.take (min (cap - out.length) (inp.length - inOff) - 2)
          (List.take (min (cap - out.length) (inp.length - inOff)) (List.drop inOff inp))⟩ := fun code hcode => by
      refine ⟨[s.last_bytes.1, s.last_bytes.2] ++ List.take (min (cap - out.length) (inp.length - inOff) - 2)
          (List.take (min (cap - out.length) (inp.length - inOff)) (List.drop inOff inp)),
          by simp [List.append_assoc], by dsimp only; omega, by dsimp only; omega, ?_, rfl, hcode⟩
      dsimp only
      have e1 : inOff + 2 + (min (cap - out.length) (inp.length - inOff) - 2) - inOff
          = min (cap - out.length) (inp.length - inOff) := by omega
      rw [e1, List.append_assoc, ← hxy, List.take_append_drop]
    split at h
    · simp only [Outcome.ok.injEq] at h; rw [← h]; exact key _ (Or.inr rfl)
    · simp only [Outcome.ok.injEq] at h; rw [← h]; exact key _ (Or.inl rfl)

/-! ### `streamTail` case by case -/

theorem streamTail_len2 (s : State) (inp : List Nat) (inOff : Nat) (out : List Nat) (cap : Nat)
    (hp : s.new_stream_pending = none) (h2 : s.last_bytes_len = 2) :
    streamTail s inp inOff out cap = streamCopy s inp inOff out cap := by
  unfold streamTail
  rw [if_neg (by rw [hp]; simp), if_neg (by simp [h2])]

theorem streamTail_blocked (s : State) (inp : List Nat) (inOff : Nat) (out : List Nat) (cap : Nat)
    (hp : s.new_stream_pending = none) (h2 : s.last_bytes_len ≠ 2) (hb : cap = out.length ∨ inp.length = inOff) :
    streamTail s inp inOff out cap =
      ok ⟨s, if cap = out.length then NEEDS_MORE_OUTPUT else NEEDS_MORE_INPUT, inOff, out⟩ := by
  unfold streamTail
  rw [if_neg (by rw [hp]; simp), if_pos h2]
  by_cases c1 : cap = out.length
  · rw [if_pos c1, if_pos c1]
  · rw [if_neg c1, if_neg c1]
    rcases hb with hb | hb
    · exact absurd hb c1
    · rw [if_pos hb]

theorem streamTail_len1 (s : State) (inp : List Nat) (inOff : Nat) (out : List Nat) (cap : Nat)
    (hp : s.new_stream_pending = none) (h1 : s.last_bytes_len = 1) (hc : cap ≠ out.length)
    (hlt : inOff < inp.length) :
    streamTail s inp inOff out cap =
      streamCopy { s with last_bytes := (s.last_bytes.1, inp[inOff]), last_bytes_len := 2 } inp (inOff + 1) out cap := by
  unfold streamTail
  rw [if_neg (by rw [hp]; simp), if_pos (by omega), if_neg hc, if_neg (by omega)]
  simp [idx, List.getElem?_eq_getElem hlt, setLast, h1]

theorem streamTail_len0_one (s : State) (inp : List Nat) (inOff : Nat) (out : List Nat) (cap : Nat)
    (hp : s.new_stream_pending = none) (h0 : s.last_bytes_len = 0) (hc : cap ≠ out.length)
    (hlt : inOff + 1 = inp.length) :
    streamTail s inp inOff out cap =
      ok ⟨{ s with last_bytes := (inp[inOff], s.last_bytes.2), last_bytes_len := 1 }, NEEDS_MORE_INPUT, inOff + 1, out⟩ := by
  unfold streamTail
  rw [if_neg (by rw [hp]; simp), if_pos (by omega), if_neg hc, if_neg (by omega)]
  simp [idx, setLast, h0, hc, hlt.symm]

theorem streamTail_len0_two (s : State) (inp : List Nat) (inOff : Nat) (out : List Nat) (cap : Nat)
    (hp : s.new_stream_pending = none) (h0 : s.last_bytes_len = 0) (hc : cap ≠ out.length)
    (hlt : inOff + 1 < inp.length) :
    streamTail s inp inOff out cap =
      streamCopy { s with last_bytes := (inp[inOff], inp[inOff + 1]), last_bytes_len := 2 } inp (inOff + 2) out cap := by
  unfold streamTail
  rw [if_neg (by rw [hp]; simp), if_pos (by omega), if_neg hc, if_neg (by omega)]
  have hlt' : inOff < inp.length := by omega
  have hne : ¬ inp.length = inOff + 1 := by omega
  simp [idx, List.getElem?_eq_getElem hlt', List.getElem?_eq_getElem hlt, setLast, h0, hc, hne]

theorem drop_take_succ (l : List Nat) (i k : Nat) (h : i < l.length) :
    (l.drop i).take (k + 1) = l[i] :: (l.drop (i + 1)).take k := by
  rw [List.drop_eq_getElem_cons h, List.take_succ_cons]

/-- conservation for tail fill + pass-through -/
def TailCons (s : State) (inp : List Nat) (inOff : Nat) (out : List Nat) (r : Ret) : Prop :=
  ∃ P, r.produced = out ++ P ∧ inOff ≤ r.consumed ∧ r.consumed ≤ inp.length ∧
    [s.last_bytes.1, s.last_bytes.2].take s.last_bytes_len ++ (inp.drop inOff).take (r.consumed - inOff)
      = P ++ [r.st.last_bytes.1, r.st.last_bytes.2].take r.st.last_bytes_len ∧
    r.st.last_bytes_len = min 2 (s.last_bytes_len + (r.consumed - inOff)) ∧
    r.st = { s with last_bytes := r.st.last_bytes, last_bytes_len := r.st.last_bytes_len } ∧
    (r.code = NEEDS_MORE_INPUT ∨ r.code = NEEDS_MORE_OUTPUT)

theorem streamTail_cons (s : State) (inp : List Nat) (inOff : Nat) (out : List Nat) (cap : Nat)
    (hp : s.new_stream_pending = none) (hlen : s.last_bytes_len ≤ 2)
    (hin : inOff ≤ inp.length) (hout : out.length ≤ cap) (r : Ret)
    (h : streamTail s inp inOff out cap = ok r) : TailCons s inp inOff out r := by
  by_cases h2 : s.last_bytes_len = 2
  · rw [streamTail_len2 s inp inOff out cap hp h2] at h
    obtain ⟨P, h1, h3, h4, h5, h6, h7⟩ := streamCopy_cons s inp inOff out cap hin hout r h
    have hl : r.st.last_bytes_len = 2 := by rw [h6]; exact h2
    refine ⟨P, h1, h3, h4, ?_, by rw [hl, h2]; omega, ?_, h7⟩
    · rw [h2, hl]; simpa using h5
    · rw [hl, ← h2]; exact h6
  by_cases hb : cap = out.length ∨ inp.length = inOff
  · rw [streamTail_blocked s inp inOff out cap hp h2 hb] at h
    simp only [Outcome.ok.injEq] at h
    subst h
    refine ⟨[], by simp, Nat.le_refl _, hin, by simp, by dsimp only; omega, rfl, ?_⟩
    dsimp only; split
    · exact Or.inr rfl
    · exact Or.inl rfl
  have hc : cap ≠ out.length := fun e => hb (Or.inl e)
  have hlt : inOff < inp.length := by
    rcases Nat.lt_or_ge inOff inp.length with h | h
    · exact h
    · exact absurd (Or.inr (by omega)) hb
  have hl01 : s.last_bytes_len = 0 ∨ s.last_bytes_len = 1 := by omega
  rcases hl01 with l0 | l1
  · by_cases hone : inOff + 1 = inp.length
    · rw [streamTail_len0_one s inp inOff out cap hp l0 hc hone] at h
      simp only [Outcome.ok.injEq] at h
      subst h
      refine ⟨[], by simp, by dsimp only; omega, by dsimp only; omega, ?_, by dsimp only; omega, rfl, Or.inl rfl⟩
      dsimp only
      have : inOff + 1 - inOff = 1 := by omega
      rw [l0, this, take_one_drop inp inOff hlt]; simp
    · have hlt2 : inOff + 1 < inp.length := by omega
      rw [streamTail_len0_two s inp inOff out cap hp l0 hc hlt2] at h
      obtain ⟨P, h1, h3, h4, h5, h6, h7⟩ := streamCopy_cons _ inp (inOff + 2) out cap (by omega) hout r h
      dsimp only at h5 h6
      have hl : r.st.last_bytes_len = 2 := by rw [h6]
      refine ⟨P, h1, by omega, h4, ?_, by rw [hl, l0]; omega, ?_, h7⟩
      · rw [l0, hl]
        have e : r.consumed - inOff = (r.consumed - (inOff + 2)) + 1 + 1 := by omega
        rw [e, drop_take_succ inp inOff _ hlt, drop_take_succ inp (inOff + 1) _ hlt2]
        simpa using h5
      · rw [hl]; rw [h6]
  · rw [streamTail_len1 s inp inOff out cap hp l1 hc hlt] at h
    obtain ⟨P, h1, h3, h4, h5, h6, h7⟩ := streamCopy_cons _ inp (inOff + 1) out cap (by omega) hout r h
    dsimp only at h5 h6
    have hl : r.st.last_bytes_len = 2 := by rw [h6]
    refine ⟨P, h1, by omega, h4, ?_, by rw [hl, l1]; omega, ?_, h7⟩
    · rw [l1, hl]
      have e : r.consumed - inOff = (r.consumed - (inOff + 1)) + 1 := by omega
      rw [e, drop_take_succ inp inOff _ hlt]
      simpa using h5
    · rw [hl]; rw [h6]

/-! ### header copy-out -/

theorem take_split (l : List Nat) (w n c : Nat) (hc : c ≤ n - w) :
    (l.drop w).take (n - w) = (l.drop w).take c ++ (l.drop (w + c)).take (n - (w + c)) := by
  have e : n - w = c + (n - (w + c)) := by omega
  rw [e, List.take_add, List.drop_drop]

theorem held_copying (s : State) (d : NewStreamData) (w : Nat) (hp : s.new_stream_pending = some d)
    (hw : d.num_bytes_written = some w) :
    held s = (d.bytes_so_far.toList.drop w).take (d.num_bytes_read - w) := by
  unfold held; rw [hp]; dsimp only; rw [hw]

theorem held_none (s : State) (hp : s.new_stream_pending = none) :
    held s = [s.last_bytes.1, s.last_bytes.2].take s.last_bytes_len := by
  unfold held; rw [hp]

/-- conservation for the header copy-out: what was owed = what was written ++ what is still owed -/
theorem shiftCopyOut_cons (s : State) (d : NewStreamData) (cap w : Nat) (r : State × List Nat × Nat)
    (hp : s.new_stream_pending = some d) (hw : d.num_bytes_written = some w)
    (hwr : w < d.num_bytes_read) (hr5 : d.num_bytes_read ≤ 5) (hcap : 0 < cap)
    (hsan : s.last_byte_sanitized = true)
    (h : shiftCopyOut s d [] cap = ok r) :
    held s = r.2.1 ++ held r.1 ∧ Settled r.1 ∧ (r.2.2 = SUCCESS ∨ r.2.2 = NEEDS_MORE_OUTPUT) ∧
    (r.2.2 = SUCCESS → r.1.new_stream_pending = none ∧ r.1.last_bytes_len = 1) ∧
    (r.2.2 = NEEDS_MORE_OUTPUT → r.1.new_stream_pending ≠ none ∧ r.2.1.length = cap) := by
  rw [held_copying s d w hp hw]
  unfold shiftCopyOut at h
  rw [hw] at h
  dsimp only at h
  rw [hdr5] at h
  simp only [List.length_nil, Nat.sub_zero, List.nil_append] at h
  rw [if_neg (by omega), if_neg (by omega), if_neg (by omega), if_neg (by omega)] at h
  have hmod : min cap (d.num_bytes_read - w) % 256 = min cap (d.num_bytes_read - w) :=
    Nat.mod_eq_of_lt (by omega)
  rw [hmod, if_neg (by omega)] at h
  have hHlen : ((d.bytes_so_far.toList.drop w).take (d.num_bytes_read - w)).length = d.num_bytes_read - w := by
    simp only [List.length_take, List.length_drop, B5.toList_length]; omega
  by_cases hc : w + min cap (d.num_bytes_read - w) ≠ d.num_bytes_read
  · rw [if_pos hc] at h
    simp only [Outcome.ok.injEq] at h
    subst h
    dsimp only
    have hk : min cap (d.num_bytes_read - w) = cap := by omega
    refine ⟨?_, Or.inr ⟨_, _, rfl, rfl, ?_⟩, Or.inr rfl, fun e => by simp at e, fun _ => ⟨by simp, ?_⟩⟩
    · unfold held
      dsimp only
      rw [hk]
      exact take_split _ _ _ _ (by omega)
    · dsimp only; split <;> exact hsan
    · simp only [List.length_take, List.length_drop, B5.toList_length]; omega
  · rw [if_neg hc] at h
    have hk : min cap (d.num_bytes_read - w) = d.num_bytes_read - w := by omega
    simp only [hk] at h
    cases hg : ((d.bytes_so_far.toList.drop w).take (d.num_bytes_read - w)).getLast? with
    | none =>
      rw [List.getLast?_eq_none_iff] at hg
      have := congrArg List.length hg
      rw [hHlen] at this; simp at this; omega
    | some b =>
      rw [hg] at h
      dsimp only at h
      rw [if_neg (by rw [hHlen]; omega)] at h
      simp only [Outcome.ok.injEq] at h
      subst h
      dsimp only
      refine ⟨?_, Or.inl rfl, Or.inl rfl, fun _ => ⟨rfl, rfl⟩, fun e => by simp at e⟩
      unfold held
      dsimp only
      obtain ⟨ys, hys⟩ := List.getLast?_eq_some_iff.mp hg
      rw [hys]; simp

/-! ### one call, any input slice, any capacity -/

/-- conservation law of one `stream` call in a settled state -/
structure StreamCons (s : State) (inp : List Nat) (r : Ret) : Prop where
  cons : held s ++ inp.take r.consumed = r.produced ++ held r.st
  settled : Settled r.st
  code : r.code = NEEDS_MORE_INPUT ∨ r.code = NEEDS_MORE_OUTPUT
  consumed_le : r.consumed ≤ inp.length
  len : r.st.new_stream_pending = none → r.st.last_bytes_len = min 2 (baseLen s + r.consumed)
  copying : r.st.new_stream_pending ≠ none → r.consumed = 0 ∧ r.code = NEEDS_MORE_OUTPUT ∧
    s.new_stream_pending ≠ none
  ws : r.st.window_size = s.window_size

theorem stream_cons_none (s : State) (inp : List Nat) (cap : Nat) (r : Ret)
    (hp : s.new_stream_pending = none) (hlen : s.last_bytes_len ≤ 2) (h : stream s inp cap = ok r) :
    StreamCons s inp r := by
  unfold stream at h
  rw [hp] at h
  dsimp only at h
  obtain ⟨P, h1, _, h4, h5, h6, h7, h8⟩ := streamTail_cons s inp 0 [] cap hp hlen (Nat.zero_le _) (Nat.zero_le _) r h
  have hpr : r.st.new_stream_pending = none := by rw [h7]; exact hp
  simp only [List.nil_append, List.drop_zero, Nat.sub_zero] at h1 h5 h6
  refine ⟨?_, Or.inl hpr, h8, h4, fun _ => ?_, fun hne => absurd hpr hne, by rw [h7]⟩
  · rw [held_none s hp, held_none r.st hpr, h1]; exact h5
  · unfold baseLen; rw [hp]; exact h6

theorem stream_cons_copying (s : State) (inp : List Nat) (cap : Nat) (r : Ret) (d : NewStreamData) (w : Nat)
    (hI : Inv s) (hp : s.new_stream_pending = some d) (hw : d.num_bytes_written = some w)
    (hsan : s.last_byte_sanitized = true) (h : stream s inp cap = ok r) :
    StreamCons s inp r := by
  obtain ⟨hr5, hwr⟩ := hI.pend d hp
  obtain ⟨hwlt, hws⟩ := hwr w hw
  rw [stream_of_flushed s s d inp cap hp (flush_sanitized s [] cap hsan)] at h
  have hskip : ¬ (d.num_bytes_written.isNone = true ∧ d.num_bytes_read < NUM_STREAM_HEADER_BYTES) := by
    rw [hw]; simp
  rw [if_neg hskip] at h
  simp only [bind_ok] at h
  rw [if_neg (by rw [hw]; simp)] at h
  have hset : Settled s := Or.inr ⟨d, w, hp, hw, hsan⟩
  by_cases hc0 : cap = 0
  · rw [if_pos hc0] at h
    simp only [Outcome.ok.injEq] at h
    subst h
    exact ⟨by simp, hset, Or.inr rfl, Nat.zero_le _, fun e => by rw [hp] at e; simp at e,
      fun _ => ⟨rfl, rfl, by rw [hp]; simp⟩, rfl⟩
  rw [if_neg hc0] at h
  unfold shiftAndCheckNewStreamHeader at h
  rw [hw] at h
  dsimp only at h
  rw [if_neg hws] at h
  cases hsc : shiftCopyOut s d [] cap with
  | panic t => rw [hsc] at h; simp at h
  | ok y =>
    rw [hsc] at h
    simp only [bind_ok] at h
    obtain ⟨c1, c2, c3, c4, c5⟩ := shiftCopyOut_cons s d cap w y hp hw hwlt hr5 (by omega) hsan hsc
    have hyws : y.1.window_size = s.window_size := by
      have := shiftCopyOut_sat s d [] cap w hw (by omega) hr5 (Nat.zero_le _) hI.off_lt (Or.inr ⟨hwlt, by simpa using Nat.pos_of_ne_zero hc0⟩)
      rw [hsc] at this
      exact this.ws
    rcases c3 with c3 | c3
    · -- the header copy completed
      obtain ⟨d1, d2⟩ := c4 c3
      rw [if_neg (by rw [c3]; simp)] at h
      by_cases hfull : y.2.1.length = cap
      · rw [if_pos hfull] at h
        simp only [Outcome.ok.injEq] at h
        subst h
        refine ⟨by simpa using c1, c2, Or.inr rfl, Nat.zero_le _, fun _ => ?_, fun hne => absurd d1 hne, hyws⟩
        dsimp only; unfold baseLen; rw [hp, d2]; rfl
      · rw [if_neg hfull] at h
        have hylen : y.2.1.length ≤ cap := by
          have := shiftCopyOut_sat s d [] cap w hw (by omega) hr5 (Nat.zero_le _) hI.off_lt (Or.inr ⟨hwlt, by simpa using Nat.pos_of_ne_zero hc0⟩)
          rw [hsc] at this
          exact this.out_le
        obtain ⟨P, h1, _, h4, h5, h6, h7, h8⟩ :=
          streamTail_cons y.1 inp 0 y.2.1 cap d1 (by omega) (Nat.zero_le _) hylen r h
        have hpr : r.st.new_stream_pending = none := by rw [h7]; exact d1
        simp only [List.drop_zero, Nat.sub_zero] at h5 h6
        refine ⟨?_, Or.inl hpr, h8, h4, fun _ => ?_, fun hne => absurd hpr hne, by rw [h7]; exact hyws⟩
        · rw [c1, held_none y.1 d1, held_none r.st hpr, h1, List.append_assoc, h5, List.append_assoc]
        · unfold baseLen; rw [hp]; rw [h6, d2]
    · -- more output needed: still copying
      obtain ⟨e1, e2⟩ := c5 c3
      rw [if_pos (by rw [c3]; simp)] at h
      simp only [Outcome.ok.injEq] at h
      subst h
      exact ⟨by simpa using c1, c2, Or.inr c3, Nat.zero_le _, fun e => absurd e e1,
        fun _ => ⟨rfl, c3, by rw [hp]; simp⟩, hyws⟩

theorem stream_cons (s : State) (inp : List Nat) (cap : Nat) (r : Ret) (hI : Inv s) (hset : Settled s)
    (h : stream s inp cap = ok r) : StreamCons s inp r := by
  rcases hset with hp | ⟨d, w, hp, hw, hsan⟩
  · exact stream_cons_none s inp cap r hp hI.len_le h
  · exact stream_cons_copying s inp cap r d w hI hp hw hsan h

/-! ### the protocol driver -/

theorem settled_ws_ne (s : State) (hI : Inv s) (hS : Started s) (hset : Settled s) : s.window_size ≠ 0 := by
  rcases hset with hp | ⟨d, w, hp, hw, _⟩
  · intro e; have := hS e; rw [hp] at this; simp at this
  · exact ((hI.pend d hp).2 w hw).2

theorem held_length (s : State) (hp : s.new_stream_pending = none) (hl : s.last_bytes_len ≤ 2) :
    (held s).length = s.last_bytes_len := by
  rw [held_none s hp]; simp; omega

/-- what a complete protocol run over one input buffer yields, whatever the capacities -/
structure RunCons (s : State) (x : List Nat) (acc : List Nat) (R : Run) : Prop where
  cons : R.emitted ++ held R.st = acc ++ held s ++ x
  code : R.code = NEEDS_MORE_INPUT
  pending : R.st.new_stream_pending = none
  len : R.st.last_bytes_len = min 2 (baseLen s + x.length)
  inv : Inv R.st
  ws : R.st.window_size = s.window_size

theorem feedBuffer_cons : ∀ (fuel : Nat) (s : State) (x caps acc : List Nat) (R : Run),
    Inv s → Started s → Settled s → feedBuffer fuel s x caps acc = some R → RunCons s x acc R := by
  intro fuel
  induction fuel with
  | zero => intro s x caps acc R _ _ _ h; simp [feedBuffer] at h
  | succ f ih =>
    intro s x caps acc R hI hS hset h
    unfold feedBuffer at h
    dsimp only at h
    cases hst : stream s x (caps.headD (x.length + 8)) with
    | panic t => rw [hst] at h; simp at h
    | ok r =>
      rw [hst] at h
      dsimp only at h
      have hc := stream_cons s x _ r hI hset hst
      have hpost := stream_sat s x (caps.headD (x.length + 8)) hI hS
      rw [hst] at hpost
      have hnt : isTerminal r.code = false := by
        rcases hc.code with e | e <;> rw [e] <;> decide
      rw [hnt] at h
      simp only [Bool.false_eq_true, if_false] at h
      by_cases hdone : r.code = NEEDS_MORE_INPUT ∧ x.drop r.consumed = []
      · rw [if_pos hdone] at h
        simp only [Option.some.injEq] at h
        subst h
        have hall : r.consumed = x.length := by
          have := List.drop_eq_nil_iff.mp hdone.2
          have := hc.consumed_le
          omega
        have hpn : r.st.new_stream_pending = none := by
          cases hq : r.st.new_stream_pending with
          | none => rfl
          | some d =>
            have := (hc.copying (by rw [hq]; simp)).2.1
            rw [hdone.1] at this; simp at this
        refine ⟨?_, hdone.1, hpn, ?_, hpost.inv, hc.ws⟩
        · dsimp only
          have := hc.cons
          rw [hall, List.take_length] at this
          rw [List.append_assoc, ← this, List.append_assoc]
        · have := hc.len hpn; rw [hall] at this; exact this
      · rw [if_neg hdone] at h
        have hws := settled_ws_ne s hI hS hset
        have hS' : Started r.st := fun e => by rw [hc.ws] at e; exact absurd e hws
        have hR := ih r.st (x.drop r.consumed) caps.tail (acc ++ r.produced) R hpost.inv hS' hc.settled h
        refine ⟨?_, hR.code, hR.pending, ?_, hR.inv, by rw [hR.ws, hc.ws]⟩
        · rw [hR.cons]
          have := hc.cons
          calc acc ++ r.produced ++ held r.st ++ List.drop r.consumed x
              = acc ++ (r.produced ++ held r.st) ++ List.drop r.consumed x := by simp [List.append_assoc]
            _ = acc ++ (held s ++ List.take r.consumed x) ++ List.drop r.consumed x := by rw [this]
            _ = acc ++ held s ++ x := by
              rw [List.append_assoc, List.append_assoc, List.take_append_drop, List.append_assoc]
        · rw [hR.len]
          have hcl := hc.consumed_le
          have hdl : (List.drop r.consumed x).length = x.length - r.consumed := by simp
          rw [hdl]
          cases hq : r.st.new_stream_pending with
          | none =>
            have := hc.len hq
            unfold baseLen at this ⊢
            rw [hq]
            dsimp only
            rw [this]
            omega
          | some d =>
            obtain ⟨c0, _, sp⟩ := hc.copying (by rw [hq]; simp)
            unfold baseLen
            rw [hq]
            cases hq2 : s.new_stream_pending with
            | none => exact absurd hq2 sp
            | some d' => dsimp only; rw [c0]; rfl

/-- Two complete protocol runs over the same input buffer from the same settled state,
under ANY two capacity schedules: same emitted bytes, same final code, same held tail. -/
theorem feedBuffer_schedule_irrelevant (f1 f2 : Nat) (s : State) (x caps1 caps2 acc : List Nat) (R1 R2 : Run)
    (hI : Inv s) (hS : Started s) (hset : Settled s)
    (h1 : feedBuffer f1 s x caps1 acc = some R1) (h2 : feedBuffer f2 s x caps2 acc = some R2) :
    R1.emitted = R2.emitted ∧ R1.code = R2.code ∧ held R1.st = held R2.st ∧
    R1.st.last_bytes_len = R2.st.last_bytes_len ∧ R1.st.new_stream_pending = R2.st.new_stream_pending ∧
    R1.st.window_size = R2.st.window_size := by
  have c1 := feedBuffer_cons f1 s x caps1 acc R1 hI hS hset h1
  have c2 := feedBuffer_cons f2 s x caps2 acc R2 hI hS hset h2
  have hl : (held R1.st).length = (held R2.st).length := by
    rw [held_length R1.st c1.pending c1.inv.len_le, held_length R2.st c2.pending c2.inv.len_le, c1.len, c2.len]
  have he : R1.emitted ++ held R1.st = R2.emitted ++ held R2.st := by rw [c1.cons, c2.cons]
  obtain ⟨e1, e2⟩ := List.append_inj' he hl
  exact ⟨e1, by rw [c1.code, c2.code], e2, by rw [c1.len, c2.len], by rw [c1.pending, c2.pending],
    by rw [c1.ws, c2.ws]⟩

/-! ### several input buffers -/

theorem runAll_cons (fuel : Nat) : ∀ (bufs : List (List Nat)) (s : State) (caps acc : List Nat) (R : Run),
    Inv s → Started s → Settled s → bufs ≠ [] → runAll fuel s bufs caps acc = some R →
    RunCons s bufs.flatten acc R := by
  intro bufs
  induction bufs with
  | nil => intro s caps acc R _ _ _ hne; exact absurd rfl hne
  | cons b bs ih =>
    intro s caps acc R hI hS hset _ h
    unfold runAll at h
    cases hf : feedBuffer fuel s b caps acc with
    | none => rw [hf] at h; simp at h
    | some r =>
      rw [hf] at h
      dsimp only at h
      have hr := feedBuffer_cons fuel s b caps acc r hI hS hset hf
      have hnt : isTerminal r.code = false := by rw [hr.code]; decide
      rw [hnt] at h
      simp only [Bool.false_eq_true, if_false] at h
      have hws := settled_ws_ne s hI hS hset
      cases bs with
      | nil =>
        simp only [runAll, Option.some.injEq] at h
        subst h
        simp only [List.flatten_cons, List.flatten_nil, List.append_nil]
        exact ⟨hr.cons, rfl, hr.pending, hr.len, hr.inv, hr.ws⟩
      | cons b2 bs2 =>
        have hS' : Started r.st := fun e => by rw [hr.ws] at e; exact absurd e hws
        have hR := ih r.st [] r.emitted R hr.inv hS' (Or.inl hr.pending) (by simp) h
        refine ⟨?_, hR.code, hR.pending, ?_, hR.inv, by rw [hR.ws, hr.ws]⟩
        · rw [hR.cons, hr.cons]; simp [List.append_assoc]
        · rw [hR.len]
          have h1 := hr.len
          have hb : baseLen r.st = r.st.last_bytes_len := by unfold baseLen; rw [hr.pending]
          rw [hb, h1]
          simp only [List.flatten_cons, List.length_append]
          omega

/-- Any two ways of slicing the same bytes into input buffers, under any two schedules of
output capacities: same emitted bytes, same final code, same held tail (from a state whose
member header has been accepted). -/
theorem runAll_slicing_irrelevant (f1 f2 : Nat) (s : State) (bufs1 bufs2 : List (List Nat))
    (caps1 caps2 acc : List Nat) (R1 R2 : Run) (hI : Inv s) (hS : Started s) (hset : Settled s)
    (hne1 : bufs1 ≠ []) (hne2 : bufs2 ≠ []) (hsame : bufs1.flatten = bufs2.flatten)
    (h1 : runAll f1 s bufs1 caps1 acc = some R1) (h2 : runAll f2 s bufs2 caps2 acc = some R2) :
    R1.emitted = R2.emitted ∧ R1.code = R2.code ∧ held R1.st = held R2.st ∧
    R1.st.last_bytes_len = R2.st.last_bytes_len ∧ R1.st.new_stream_pending = R2.st.new_stream_pending ∧
    R1.st.window_size = R2.st.window_size := by
  have c1 := runAll_cons f1 bufs1 s caps1 acc R1 hI hS hset hne1 h1
  have c2 := runAll_cons f2 bufs2 s caps2 acc R2 hI hS hset hne2 h2
  have hl : (held R1.st).length = (held R2.st).length := by
    rw [held_length R1.st c1.pending c1.inv.len_le, held_length R2.st c2.pending c2.inv.len_le, c1.len, c2.len,
      hsame]
  have he : R1.emitted ++ held R1.st = R2.emitted ++ held R2.st := by rw [c1.cons, c2.cons, hsame]
  obtain ⟨e1, e2⟩ := List.append_inj' he hl
  exact ⟨e1, by rw [c1.code, c2.code], e2, by rw [c1.len, c2.len, hsame], by rw [c1.pending, c2.pending],
    by rw [c1.ws, c2.ws]⟩

end BV.Concat
