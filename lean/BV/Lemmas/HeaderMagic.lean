/-
The magic metadata block (C15 `magic_block_exact`): what
`BrotliWriteMetadataMetaBlock` appends, and that the specification reader
(`BV.HeaderSpec.readMetaBlock`, RFC 7932 §9.2) takes it for a metadata
meta-block whose payload is `e1 97 8x ‖ VERSION ‖ base-128(size_hint)`.
-/
import BV.Lemmas.HeaderBits
import BV.Lemmas.HeaderB128
namespace BV.Header
open BV.Bits BV.HeaderSpec BV.Bits.Out

/-- the payload the magic block is specified to carry -/
def magicPayload (p : Params) : List Nat :=
  magicNumber p ++ [BV.Gen.BROTLI_CRATE_VERSION] ++ encodeBase128 p.sizeHint

theorem magicNumber_eq (p : Params) :
    magicNumber p = [0xe1, 0x97, if p.catable && !p.useDictionary then 0x81 else if p.appendable then 0x82 else 0x80] := by
  simp only [magicNumber]
  cases p.catable <;> cases p.useDictionary <;> cases p.appendable <;> rfl

theorem magicNumber_lt (p : Params) : ∀ b ∈ magicNumber p, b < 256 := by
  rw [magicNumber_eq]; intro b hb; simp at hb
  rcases hb with rfl | rfl | rfl
  · decide
  · decide
  · split <;> try split
    all_goals decide

theorem magicPayload_lt (p : Params) (hh : p.sizeHint < 2 ^ 64) : ∀ b ∈ magicPayload p, b < 256 := by
  obtain ⟨_, _, _, hb⟩ := encodeBase128_spec p.sizeHint hh []
  intro b h
  simp only [magicPayload, List.mem_append, List.mem_singleton] at h
  rcases h with (h | h) | h
  · exact magicNumber_lt p b h
  · subst h; decide
  · exact hb b h

theorem magicPayload_length (p : Params) :
    (magicPayload p).length = 4 + (encodeBase128 p.sizeHint).length := by
  simp [magicPayload, magicNumber_eq]; omega

/-- the header bits of the magic block: ISLAST = 0, MNIBBLES = 11 (metadata),
reserved 0, MSKIPBYTES = 1 (bits `1,0`), then MSKIPLEN − 1 in 8 bits -/
def magicHeaderBits (k : Nat) : List Bool :=
  [false, true, true, false, true, false] ++ bitsOf 8 (3 + k)

/-- exact output of `BrotliWriteMetadataMetaBlock` -/
theorem writeMeta_eq (p : Params) (w : Writer) (hh : p.sizeHint < 2 ^ 64) :
    writeMetadataMetaBlock p w =
      ok (jumpToByteBoundary (w ++ magicHeaderBits (encodeBase128 p.sizeHint).length)
            ++ (magicPayload p).flatMap (bitsOf 8)) := by
  obtain ⟨_, hl1, hl2, hb⟩ := encodeBase128_spec p.sizeHint hh []
  have hm := magicNumber_lt p
  simp only [writeMetadataMetaBlock, lit, litsMeta, BV.Gen.lits_WriteMetadataMetaBlock, List.getD_cons_zero, List.getD_cons_succ]
  rw [writeBits_ok 1 0 w (by decide) (by decide)]
  simp only [Out.bind_ok]
  rw [writeBits_ok 2 3 _ (by decide) (by decide)]
  simp only [Out.bind_ok]
  rw [writeBits_ok 1 0 _ (by decide) (by decide)]
  simp only [Out.bind_ok]
  rw [writeBits_ok 2 1 _ (by decide) (by decide)]
  simp only [Out.bind_ok]
  rw [writeBits_ok 8 (3 + (encodeBase128 p.sizeHint).length) _ (by omega) (by decide)]
  simp only [Out.bind_ok]
  rw [writeBytes_ok _ _ hm]
  simp only [Out.bind_ok]
  rw [writeBits_ok 8 BV.Gen.BROTLI_CRATE_VERSION _ (by decide) (by decide)]
  simp only [Out.bind_ok]
  rw [writeBytes_ok _ _ hb]
  simp [magicPayload, magicHeaderBits, bitsOf, List.append_assoc]

/-- the specification reader, started where the magic block starts (`w.length`
bits into the stream), returns a metadata block with exactly the payload, and
ends on the byte boundary right behind it -/
theorem readMeta_magic (p : Params) (w : Writer) (rest : List Bool) (hh : p.sizeHint < 2 ^ 64) :
    readMetaBlock w.length
        (magicHeaderBits (encodeBase128 p.sizeHint).length
          ++ List.replicate ((8 - (w.length + 14) % 8) % 8) false
          ++ (magicPayload p).flatMap (bitsOf 8) ++ rest)
      = some (MetaBlock.metadata (magicPayload p),
              w.length + 14 + (8 - (w.length + 14) % 8) % 8 + 8 * (magicPayload p).length, rest) := by
  obtain ⟨_, hl1, hl2, hb⟩ := encodeBase128_spec p.sizeHint hh []
  have hk : 3 + (encodeBase128 p.sizeHint).length < 2 ^ (8 * 1) := by omega
  have hpl := magicPayload_length p
  · simp only [magicHeaderBits, List.cons_append, List.append_assoc,
      readMetaBlock, if_false, Bool.false_eq_true]
    -- MNIBBLES
    have h2 : takeVal 2 (true :: true :: false :: true :: false ::
        (bitsOf 8 (3 + (encodeBase128 p.sizeHint).length) ++
          (List.replicate ((8 - (w.length + 14) % 8) % 8) false ++ ((magicPayload p).flatMap (bitsOf 8) ++ rest))))
        = some (3, false :: true :: false ::
        (bitsOf 8 (3 + (encodeBase128 p.sizeHint).length) ++
          (List.replicate ((8 - (w.length + 14) % 8) % 8) false ++ ((magicPayload p).flatMap (bitsOf 8) ++ rest)))) := by
      simp [takeVal, valOf]
    simp only [List.nil_append] at *
    rw [h2]
    simp only [if_true]
    have h3 : takeVal 2 (true :: false ::
        (bitsOf 8 (3 + (encodeBase128 p.sizeHint).length) ++
          (List.replicate ((8 - (w.length + 14) % 8) % 8) false ++ ((magicPayload p).flatMap (bitsOf 8) ++ rest))))
        = some (1, (bitsOf 8 (3 + (encodeBase128 p.sizeHint).length) ++
          (List.replicate ((8 - (w.length + 14) % 8) % 8) false ++ ((magicPayload p).flatMap (bitsOf 8) ++ rest)))) := by
      simp [takeVal, valOf]
    rw [h3]
    simp only []
    rw [takeVal_bitsOf (8 * 1) _ _ hk]
    simp only []
    have hpos : w.length + 1 + 2 + 3 + 8 * 1 = w.length + 14 := by omega
    rw [hpos, skipPad_pad]
    have hlen : (if (1 : Nat) = 0 then 0 else 3 + (encodeBase128 p.sizeHint).length + 1) = (magicPayload p).length := by
      simp [hpl]; omega
    simp only [hlen]
    rw [takeBytes_bytes _ _ (magicPayload_lt p hh)]
    simp

end BV.Header
