/-
C01 / greedy builder, part 4: `FinishBlock` preserves the invariant — the two merge branches.
-/
import BV.Lemmas.GreedyFinish

namespace BV.Greedy
open BV.Bits BV.Recoder BV.MetaBlock

/-- the histogram update of both merge branches: `histograms[τ] = current + histograms[τ]`, then the current
histograms are cleared -/
theorem merged_slots {F : Type} {N A K HH : Nat} {s : BS F} {rb : List Blk} {pend : List (Nat × Nat)}
    (h : Inv N A K HH s rb pend 0) (hne : rb ≠ []) (τ : Nat) (hτ : τ < s.numTypes) :
    ∃ slots', setAt s.slots τ (addSlot (s.slots.getD s.curr []) (s.slots.getD τ []))
        = .ok (s.slots.set τ (addSlot (s.slots.getD s.curr []) (s.slots.getD τ []))) ∧
      setAt (s.slots.set τ (addSlot (s.slots.getD s.curr []) (s.slots.getD τ []))) s.curr (zeroSlot s.nc s.H) = .ok slots' ∧
      slots'.length = s.slots.length ∧
      (∀ slot ∈ slots', Shaped s.nc s.H slot) ∧ (∀ slot ∈ slots', ∀ c x, A ≤ x → cnt slot c x = 0) ∧
      (∀ t, t < s.numTypes → t ≠ τ → slots'.getD t [] = s.slots.getD t []) ∧
      (∀ c x, cnt (slots'.getD τ []) c x = cnt (s.slots.getD s.curr []) c x + cnt (s.slots.getD τ []) c x) ∧
      slotTotal (slots'.getD τ []) ≤ pend.length + doneCount rb ∧
      slotTotal (slots'.getD s.curr []) = 0 := by
  have hcurr := h.curr hne
  have hcl := curr_lt h
  have hτl : τ < s.slots.length := by omega
  have hb := h.bound
  have htot := h.total
  have hsc := h.shaped _ (slot_mem s s.curr hcl)
  have hsτ := h.shaped _ (slot_mem s τ hτl)
  have hcomb := addSlot_shaped s.nc s.H _ _ hsc hsτ
  have ht1 := h.ptot
  have ht2 := h.tot τ hτ
  have hgτ : ((s.slots.set τ (addSlot (s.slots.getD s.curr []) (s.slots.getD τ []))).set s.curr (zeroSlot s.nc s.H)).getD τ []
      = addSlot (s.slots.getD s.curr []) (s.slots.getD τ []) := by
    rw [getD_set_ne _ _ _ _ _ (by omega), getD_set_eq _ _ _ _ hτl]
  refine ⟨_, setAt_ok' _ _ _ hτl, setAt_ok' _ _ _ (by rw [List.length_set]; exact hcl), by simp, ?_, ?_, ?_, ?_, ?_, ?_⟩
  · intro slot hs
    rcases List.mem_or_eq_of_mem_set hs with h1 | h1
    · rcases List.mem_or_eq_of_mem_set h1 with h2 | h2
      · exact h.shaped slot h2
      · rw [h2]; exact hcomb
    · rw [h1]; exact zeroSlot_shaped _ _
  · intro slot hs c x hx
    rcases List.mem_or_eq_of_mem_set hs with h1 | h1
    · rcases List.mem_or_eq_of_mem_set h1 with h2 | h2
      · exact h.zeroAbove slot h2 c x hx
      · rw [h2, addSlot_cnt s.nc s.H _ _ hsc hsτ, h.zeroAbove _ (slot_mem s s.curr hcl) c x hx,
          h.zeroAbove _ (slot_mem s τ hτl) c x hx]
        rfl
    · rw [h1]; exact zeroSlot_cnt _ _ _ _
  · intro t ht hne'
    rw [getD_set_ne _ _ _ _ _ (by omega), getD_set_ne _ _ _ _ _ (fun e => hne' e.symm)]
  · intro c x
    rw [hgτ, addSlot_cnt s.nc s.H _ _ hsc hsτ]
    have h1 := cnt_le_total (s.slots.getD s.curr []) c x
    have h2 := cnt_le_total (s.slots.getD τ []) c x
    exact Nat.mod_eq_of_lt (by unfold two32; omega)
  · rw [hgτ]
    have := addSlot_total_le (s.slots.getD s.curr []) (s.slots.getD τ [])
    omega
  · rw [getD_set_eq _ _ _ _ (by rw [List.length_set]; exact hcl)]
    exact zeroSlot_total _ _

/-! ### merge with the second-to-last block type -/

theorem mergeSecondBlock_inv {F : Type} {N A K HH : Nat} {s : BS F} {rb : List Blk} {pend : List (Nat × Nat)} (ce1 : List F)
    (h : Inv N A K HH s rb pend 0) (h2 : 2 ≤ s.numTypes) (he : ce1.length = s.nc)
    (hl1 : pend.length ≤ s.blockSize) (hl2 : s.minBlockSize ≤ s.blockSize) (hl3 : s.blockSize ≤ pend.length + s.minBlockSize) :
    ∃ s', mergeSecondBlock s (addSlot (s.slots.getD s.curr []) (s.slots.getD s.last1 [])) ce1 = .ok s' ∧
      Inv N A K HH s' (⟨s.last1, s.blockSize, pend⟩ :: rb) [] (s.blockSize - pend.length) ∧
      s'.blockSize = 0 ∧ s'.minBlockSize = s.minBlockSize ∧ s'.targetBlockSize = s.minBlockSize ∧
      s'.slots.length = s.slots.length ∧ s'.histosSize = s.histosSize := by
  have hnb := h.ntNb
  obtain ⟨b0, b1, rest, rfl⟩ : ∃ b0 b1 rest, rb = b0 :: b1 :: rest := by
    cases rb with
    | nil => simp at hnb; omega
    | cons b0 r =>
      cases r with
      | nil => simp at hnb; omega
      | cons b1 rest => exact ⟨b0, b1, rest, rfl⟩
  have hne : (b0 :: b1 :: rest) ≠ [] := by simp
  have hb := h.bound
  have htot := h.total
  have hroom := room h
  have hcurr := h.curr hne
  have hl0 := h.last0 b0 rfl
  have hl1' := h.last1 b1 rfl
  have hτ : s.last1 < s.numTypes := by rw [hl1']; exact h.tlt b1 (by simp)
  obtain ⟨slots', e0, e1, e2, e3, e3', e4, e5, e6, e7⟩ := merged_slots h hne s.last1 hτ
  have hty := h.typesEq
  simp only [List.length_cons, List.map_cons, List.reverse_cons, List.append_assoc] at hty
  have hty1 : s.types.take (rest.length + 1) = (rest.map (fun b => b.t)).reverse ++ [b1.t] := by
    apply take_of_take_succ s.types _ b0.t (rest.length + 1)
    · rw [hty]; simp
    · simp
  obtain ⟨hg, hgl⟩ := getD_of_take_succ s.types _ b1.t rest.length hty1 (by simp)
  have hix : (s.numBlocks + two64 - 2) % two64 = rest.length := by
    rw [h.nb]
    simp only [List.length_cons]
    rw [show rest.length + 1 + 1 + two64 - 2 = rest.length + two64 by omega, Nat.add_mod_right]
    exact Nat.mod_eq_of_lt (by unfold maxBlocks at hroom; have : N / s.minBlockSize ≤ N := Nat.div_le_self _ _; simp only [List.length_cons] at hroom; unfold two64; omega)
  have hnb1 : (s.numBlocks + 1) % two64 = rest.length + 3 := by
    rw [h.nb]
    simp only [List.length_cons]
    exact Nat.mod_eq_of_lt (by unfold maxBlocks at hroom; have : N / s.minBlockSize ≤ N := Nat.div_le_self _ _; simp only [List.length_cons] at hroom; unfold two64; omega)
  have hbs : s.blockSize % two32 = s.blockSize := mod32 _ (by omega)
  have hlen : s.numBlocks < maxBlocks N s.minBlockSize := by rw [h.nb]; exact hroom
  unfold mergeSecondBlock
  rw [setAt_ok' _ _ _ (by rw [h.llen]; exact hlen), Out.bind_ok, hix, getAt_getD' _ _ 0 hgl, Out.bind_ok,
    setAt_ok' _ _ _ (by rw [h.tlen]; exact hlen), Out.bind_ok, e0, Out.bind_ok, e1, Out.bind_ok]
  simp only [hnb1, hbs, hg]
  refine ⟨_, rfl, ?_, rfl, rfl, rfl, e2, rfl⟩
  have hex := allExact h
  have hnbl : s.numBlocks = rest.length + 2 := by rw [h.nb]; rfl
  refine { ncEq := h.ncEq, hEq := h.hEq, nc1 := h.nc1, min1 := h.min1, mbt1 := h.mbt1, mbt := h.mbt, mbtK := h.mbtK, bound := h.bound, AH := h.AH,
           tlen := by simp [h.tlen], llen := by simp [h.llen], slen := by rw [e2]; exact h.slen,
           shaped := e3, zeroAbove := e3', nb := rfl, typesEq := ?_, lensEq := ?_, chunkTail := ?_,
           chunkHead := ?_, chunkMin := ?_, slackLe := by dsimp only; omega, total := ?_, nt0 := by simp,
           curr := fun _ => hcurr, ntPos := fun _ => h.ntPos hne, ntMax := h.ntMax,
           ntNb := ?_, tlt := ?_, t0 := ?_,
           last0 := ?_, last1 := ?_, last1' := ?_, single := ?_,
           ent := fun _ => ?_, cov := ?_, pcov := by simp, tot := ?_, ptot := ?_ }
  · dsimp only
    rw [hnbl, show ({ t := s.last1, len := s.blockSize, chunk := pend } :: b0 :: b1 :: rest : List Blk).length
      = rest.length + 2 + 1 by simp, take_set_snoc _ _ _ (by rw [h.tlen]; omega)]
    have := h.typesEq
    simp only [List.length_cons] at this
    rw [this, hl1']
    simp
  · dsimp only
    rw [hnbl, show ({ t := s.last1, len := s.blockSize, chunk := pend } :: b0 :: b1 :: rest : List Blk).length
      = rest.length + 2 + 1 by simp, take_set_snoc _ _ _ (by rw [h.llen]; omega)]
    have := h.lensEq
    simp only [List.length_cons] at this
    rw [this]
    simp
  · intro b hb0
    exact hex b hb0
  · intro b hb0
    simp only [List.head?_cons, Option.some.injEq] at hb0
    subst hb0; dsimp only; omega
  · intro b hb0
    rcases List.mem_cons.mp hb0 with e0 | e0
    · subst e0; exact hl2
    · exact h.chunkMin b e0
  · rw [doneCount_cons]; dsimp only [List.length_nil]; omega
  · dsimp only [List.length_cons]; simp only [List.length_cons] at hnb; omega
  · intro b hb0
    rcases List.mem_cons.mp hb0 with e0 | e0
    · subst e0; exact hτ
    · exact h.tlt b e0
  · intro b hb0
    rw [List.getLast?_cons_of_ne_nil hne] at hb0
    exact h.t0 b hb0
  · intro b hb0
    simp only [List.head?_cons, Option.some.injEq] at hb0
    subst hb0; rfl
  · intro b hb0
    simp only [List.tail_cons, List.head?_cons, Option.some.injEq] at hb0
    subst hb0; exact hl0
  · intro hle
    simp only [List.length_cons] at hle
    omega
  · intro h1
    dsimp only at h1
    omega
  · refine ⟨ce1, s.lastEntropy.take s.nc, rfl, he, fun h1 => ?_⟩
    dsimp only at h1
    omega
  · intro b hb0 p hp
    dsimp only
    have hno : ∀ c x, cnt (s.slots.getD s.last1 []) c x ≠ 0 ∨ cnt (s.slots.getD s.curr []) c x ≠ 0 →
        cnt (slots'.getD s.last1 []) c x ≠ 0 := by
      intro c x hor
      rw [e5 c x]; omega
    rcases List.mem_cons.mp hb0 with e0 | e0
    · subst e0
      have := h.pcov p hp
      exact ⟨this.1, hno _ _ (Or.inr this.2)⟩
    · have hc := h.cov b e0 p hp
      by_cases hbt : b.t = s.last1
      · rw [hbt] at hc ⊢
        exact ⟨hc.1, hno _ _ (Or.inl hc.2)⟩
      · rw [e4 b.t (h.tlt b e0) hbt]; exact hc
  · intro t ht
    dsimp only
    rw [doneCount_cons]
    dsimp only
    by_cases hbt : t = s.last1
    · subst hbt; omega
    · rw [e4 t ht hbt]
      have := h.tot t ht; omega
  · dsimp only
    rw [e7]; exact Nat.le_refl _

/-! ### merge with the last block -/

theorem mergeLastBlock_inv {F : Type} {N A K HH : Nat} {s : BS F} {b0 : Blk} {rest : List Blk} {pend : List (Nat × Nat)}
    (ce0 : List F) (h : Inv N A K HH s (b0 :: rest) pend 0) (he : ce0.length = s.nc)
    (hl1 : pend.length ≤ s.blockSize) (hl2 : s.minBlockSize ≤ s.blockSize) (hl3 : s.blockSize ≤ pend.length + s.minBlockSize)
    (hmt : s.minBlockSize ≤ s.targetBlockSize) (htb : s.targetBlockSize ≤ 2 ^ 24) :
    ∃ s', mergeLastBlock s (addSlot (s.slots.getD s.curr []) (s.slots.getD s.last0 [])) ce0 = .ok s' ∧
      Inv N A K HH s' (⟨b0.t, b0.len + s.blockSize, b0.chunk ++ pend⟩ :: rest) [] (s.blockSize - pend.length) ∧
      s'.blockSize = 0 ∧ s'.minBlockSize = s.minBlockSize ∧ s.minBlockSize ≤ s'.targetBlockSize ∧
      s'.targetBlockSize ≤ s.targetBlockSize + s.minBlockSize ∧
      s'.slots.length = s.slots.length ∧ s'.histosSize = s.histosSize := by
  have hne : (b0 :: rest) ≠ [] := by simp
  have hb := h.bound
  have htot := h.total
  have hroom := room h
  have hcurr := h.curr hne
  have hl0 := h.last0 b0 rfl
  have hτ : s.last0 < s.numTypes := by rw [hl0]; exact h.tlt b0 (by simp)
  obtain ⟨slots', e0, e1, e2, e3, e3', e4, e5, e6, e7⟩ := merged_slots h hne s.last0 hτ
  have hex := allExact h
  have hb0 := hex b0 (by simp)
  have hle := h.lensEq
  simp only [List.length_cons, List.map_cons, List.reverse_cons] at hle
  obtain ⟨hg, hgl⟩ := getD_of_take_succ s.lengths _ b0.len rest.length hle (by simp)
  have hle0 := take_of_take_succ s.lengths _ b0.len rest.length hle (by simp)
  have hdc : doneCount (b0 :: rest) = b0.chunk.length + doneCount rest := doneCount_cons _ _
  have hix : (s.numBlocks + two64 - 1) % two64 = rest.length := by
    rw [h.nb]
    simp only [List.length_cons]
    rw [show rest.length + 1 + two64 - 1 = rest.length + two64 by omega, Nat.add_mod_right]
    exact Nat.mod_eq_of_lt (by unfold maxBlocks at hroom; have : N / s.minBlockSize ≤ N := Nat.div_le_self _ _; simp only [List.length_cons] at hroom; unfold two64; omega)
  have hbs : s.blockSize % two32 = s.blockSize := mod32 _ (by omega)
  have hsum : (b0.len + s.blockSize) % two32 = b0.len + s.blockSize := mod32 _ (by omega)
  unfold mergeLastBlock
  simp only [hix]
  rw [getAt_getD' _ _ 0 hgl, Out.bind_ok, setAt_ok' _ _ _ hgl, Out.bind_ok, e0, Out.bind_ok, e1, Out.bind_ok]
  simp only [hbs, hg, hsum]
  refine ⟨_, rfl, ?_, rfl, rfl, ?_, ?_, e2, rfl⟩
  · refine { ncEq := h.ncEq, hEq := h.hEq, nc1 := h.nc1, min1 := h.min1, mbt1 := h.mbt1, mbt := h.mbt, mbtK := h.mbtK, bound := h.bound, AH := h.AH,
             tlen := h.tlen, llen := by simp [h.llen], slen := by rw [e2]; exact h.slen,
             shaped := e3, zeroAbove := e3', nb := h.nb, typesEq := h.typesEq, lensEq := ?_, chunkTail := h.chunkTail,
             chunkHead := ?_, chunkMin := ?_, slackLe := by dsimp only; omega, total := ?_, nt0 := by simp,
             curr := fun _ => hcurr, ntPos := fun _ => h.ntPos hne, ntMax := h.ntMax,
             ntNb := h.ntNb, tlt := ?_, t0 := ?_,
             last0 := ?_, last1 := h.last1, last1' := h.last1', single := h.single,
             ent := fun _ => ?_, cov := ?_, pcov := by simp, tot := ?_, ptot := ?_ }
    · dsimp only
      rw [List.length_cons, take_set_snoc _ _ _ hgl, hle0]
      simp
    · intro b hb1
      simp only [List.head?_cons, Option.some.injEq] at hb1
      subst hb1; dsimp only; rw [List.length_append]; omega
    · intro b hb1
      rcases List.mem_cons.mp hb1 with e' | e'
      · subst e'; dsimp only; omega
      · exact h.chunkMin b (List.mem_cons_of_mem _ e')
    · rw [doneCount_cons]; dsimp only [List.length_nil]; rw [List.length_append]; omega
    · intro b hb1
      rcases List.mem_cons.mp hb1 with e' | e'
      · subst e'; exact h.tlt b0 (by simp)
      · exact h.tlt b (List.mem_cons_of_mem _ e')
    · intro b hb1
      cases rest with
      | nil =>
        simp only [List.getLast?_singleton, Option.some.injEq] at hb1
        subst hb1; exact h.t0 b0 (by simp)
      | cons r rs =>
        rw [List.getLast?_cons_of_ne_nil (by simp)] at hb1
        exact h.t0 b (by rw [List.getLast?_cons_of_ne_nil (by simp)]; exact hb1)
    · intro b hb1
      simp only [List.head?_cons, Option.some.injEq] at hb1
      subst hb1; exact hl0
    · refine ⟨ce0, _, rfl, he, fun h1 => ?_⟩
      dsimp only at h1
      rw [if_pos h1]
    · intro b hb1 p hp
      dsimp only
      have hno : ∀ c x, cnt (s.slots.getD s.last0 []) c x ≠ 0 ∨ cnt (s.slots.getD s.curr []) c x ≠ 0 →
          cnt (slots'.getD s.last0 []) c x ≠ 0 := by
        intro c x hor
        rw [e5 c x]; omega
      rcases List.mem_cons.mp hb1 with e' | e'
      · subst e'
        dsimp only at hp ⊢
        rw [← hl0]
        rcases List.mem_append.mp hp with hp' | hp'
        · have hc := h.cov b0 (by simp) p hp'
          rw [← hl0] at hc
          exact ⟨hc.1, hno _ _ (Or.inl hc.2)⟩
        · have := h.pcov p hp'
          exact ⟨this.1, hno _ _ (Or.inr this.2)⟩
      · have hc := h.cov b (List.mem_cons_of_mem _ e') p hp
        by_cases hbt : b.t = s.last0
        · rw [hbt] at hc ⊢
          exact ⟨hc.1, hno _ _ (Or.inl hc.2)⟩
        · rw [e4 b.t (h.tlt b (List.mem_cons_of_mem _ e')) hbt]; exact hc
    · intro t ht
      dsimp only
      rw [doneCount_cons]
      dsimp only
      rw [List.length_append]
      by_cases hbt : t = s.last0
      · subst hbt; omega
      · rw [e4 t ht hbt]
        have := h.tot t ht; omega
    · dsimp only
      rw [e7]; exact Nat.le_refl _
  · dsimp only
    split
    · rw [mod64 _ (by omega)]; omega
    · exact hmt
  · dsimp only
    split
    · exact Nat.mod_le _ _
    · omega

end BV.Greedy
