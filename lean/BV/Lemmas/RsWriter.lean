/-
Meaning of the bit-writer operation lists produced by tools/rs2lean.py for functions that write
through a `(storage_ix, storage)` pair: each `WOp.bits n v` is one `BrotliWriteBits(n, v, ..)`
(model: `BV.Bits.writeBits`, with its two assertions), `WOp.align` is `JumpToByteBoundary`.
-/
import BV.Model.RsPrelude
import BV.Model.Header

namespace BV.Rs
open BV.Bits BV.Bits.Out

/-- run a list of writer operations on a bit writer -/
def runOps : List WOp → Writer → Out Writer
  | [], w => ok w
  | WOp.bits n v :: rest, w => (writeBits n v w) >>= (runOps rest)
  | WOp.align :: rest, w => runOps rest (BV.Header.jumpToByteBoundary w)

@[simp] theorem runOps_nil (w : Writer) : runOps [] w = ok w := rfl
@[simp] theorem runOps_bits (n v : Nat) (rest : List WOp) (w : Writer) :
    runOps (WOp.bits n v :: rest) w = (writeBits n v w) >>= (runOps rest) := rfl
@[simp] theorem runOps_align (rest : List WOp) (w : Writer) :
    runOps (WOp.align :: rest) w = runOps rest (BV.Header.jumpToByteBoundary w) := rfl

end BV.Rs
