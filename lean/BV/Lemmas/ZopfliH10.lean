import BV.Lemmas.ZopfliUpd2
/-! `FindAllMatchesH10`: soundness of the short-distance loop at its head (a first layer of `MatchOK`). -/
namespace BV.Zopfli
open BV.Hasher BV.MatchFinder BV.Recoder BV.PrefixArith BV.MetaBlock BV.Cbr BV

/-- a match reported at ring position `curIx` is real: `BackwardMatch::init(backward, len)` with
`1 ≤ backward ≤ min(max_backward, cur_ix)`, `len ≤ max_length`, and the `len` bytes at the two masked
positions of the ring buffer agree -/
def RingMatch (data : ByteArray) (mask curIx maxLength maxBackward : Nat) (x : Match) : Prop :=
  ∃ backward len, x = Match.init backward len ∧ 1 ≤ backward ∧ backward ≤ maxBackward ∧ backward ≤ curIx ∧
    len ≤ maxLength ∧ Agree data ((curIx - backward) &&& mask) (curIx &&& mask) len

/-- **the short-distance loop of `FindAllMatchesH10` only reports real matches** (whatever it skips):
`for i in (stop+1 ..= cur_ix-1).rev()` with its `best_len <= 2` guard, the `backward > max_backward` break,
the two-byte filter and `FindMatchLengthWithLimit` -/
theorem shortLoop_sound (data : ByteArray) (mask curIx maxLength maxBackward stop : Nat)
    (hcur : curIx < 2 ^ 63) (hmb : maxBackward ≤ curIx) :
    ∀ (fuel i bestLen : Nat) (acc : List Match) (r : Nat × List Match),
      Zopfli.H10.shortLoop data mask curIx maxLength maxBackward stop fuel i bestLen acc = some r →
      (i < curIx ∨ i = U64 - 1) →
      (∀ x ∈ acc, RingMatch data mask curIx maxLength maxBackward x) →
      ∀ x ∈ r.2, RingMatch data mask curIx maxLength maxBackward x := by
  have hU : U64 = 18446744073709551616 := rfl
  intro fuel
  induction fuel with
  | zero =>
    intro i bestLen acc r h _ hacc
    rw [Zopfli.H10.shortLoop] at h
    injection h with h; subst h; exact hacc
  | succ fuel ih =>
    intro i bestLen acc r h hi hacc
    rw [Zopfli.H10.shortLoop] at h
    by_cases hc : i > stop ∧ bestLen ≤ 2
    · rw [if_pos hc] at h
      extract_lets backward cm prev at h
      have hbdef : backward = wsub curIx i := rfl
      have hcm : cm = curIx &&& mask := rfl
      have hprev : prev = i &&& mask := rfl
      clear_value backward cm prev
      by_cases hbk : backward > maxBackward
      · rw [if_pos hbk] at h
        injection h with h; subst h; exact hacc
      rw [if_neg hbk] at h
      -- the position is below `cur_ix`, so the distance is `cur_ix - i`
      have hilt : i < curIx := by
        rcases hi with h1 | h1
        · exact h1
        · exfalso
          rw [hbdef, h1, wsub_eq (by omega) (by omega)] at hbk
          split at hbk <;> omega
      have hbe : backward = curIx - i := by
        rw [hbdef, wsub_eq (by omega) (by omega), if_pos (by omega)]
      have hi1 : wsub i 1 = i - 1 := by
        rw [wsub_eq (by omega) (by omega), if_pos (by omega)]
      have hnext : i - 1 < curIx ∨ i - 1 = U64 - 1 := Or.inl (by omega)
      rw [hi1] at h
      cases ha : byteAt data cm with
      | none => simp -zeta only [ha] at h <;> cases h
      | some a =>
      cases hb : byteAt data prev with
      | none => simp -zeta only [ha, hb] at h <;> cases h
      | some b =>
      simp -zeta only [ha, hb] at h
      by_cases hab : a = b
      · rw [if_pos hab] at h
        cases ha1 : byteAt data (cm + 1) with
        | none => simp -zeta only [ha1] at h <;> cases h
        | some a1 =>
        cases hb1 : byteAt data (prev + 1) with
        | none => simp -zeta only [ha1, hb1] at h <;> cases h
        | some b1 =>
        simp -zeta only [ha1, hb1] at h
        by_cases hab1 : a1 = b1
        · rw [if_pos hab1] at h
          cases hfm : findMatchLengthWithLimit data prev cm maxLength with
          | none => simp -zeta only [hfm] at h <;> cases h
          | some len =>
          simp -zeta only [hfm] at h
          by_cases hlen : len > bestLen
          · rw [if_pos hlen] at h
            refine ih (i - 1) len _ r h hnext ?_
            intro x hx
            rcases List.mem_cons.mp hx with rfl | hx
            · obtain ⟨hl, hag⟩ := findMatchLengthWithLimit_sound hfm
              refine ⟨backward, len, rfl, by omega, by omega, by omega, hl, ?_⟩
              rw [hbe, show curIx - (curIx - i) = i by omega, ← hprev, ← hcm]
              exact hag
            · exact hacc x hx
          · rw [if_neg hlen] at h
            exact ih (i - 1) bestLen acc r h hnext hacc
        · rw [if_neg hab1] at h
          exact ih (i - 1) bestLen acc r h hnext hacc
      · rw [if_neg hab] at h
        exact ih (i - 1) bestLen acc r h hnext hacc
    · rw [if_neg hc] at h
      injection h with h; subst h; exact hacc

end BV.Zopfli
