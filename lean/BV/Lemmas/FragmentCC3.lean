/-
C01 / fragment writers, part 11: `chain`, `matchLoop` and `createCommands` keep the replay invariant `RP`; hence
the command / literal buffers `CreateCommands` returns are accepted by `replayQ1` and reproduce the block
(`createCommands_replays`).
-/
import BV.Lemmas.FragmentCC2
namespace BV.Fragment
open BV.Bits BV.MetaBlock BV.Huffman BV.PrefixArith BV.Recoder

/-- the fixed facts of one `CreateCommands` call: window at least the writer's distance limit, input bytes are
bytes, `min_match ∈ {4, 6}`, the block `[ii, ii + mlen)` lies in the input, sizes fit `i32` / 24 bits -/
structure Ctx (window : Nat) (inp : Array Nat) (ii mlen minMatch ipLimit : Nat) : Prop where
  hwin : 262128 ≤ window
  hb : ∀ i, inp.getD i 0 < 256
  hmm : minMatch = 4 ∨ minMatch = 6
  hsz : ii + mlen ≤ inp.size
  h31 : inp.size < 2147483648
  hml : mlen < 16777216
  hlim : ipLimit + minMatch ≤ ii + mlen

/-- the replay invariant: the buffers so far, followed by ANY continuation `C`/`L`, replay from the block start
to the state "`next_emit − ii` bytes done, output = history ++ input up to `next_emit`", with at most one RFC
command per byte, and the reader's last distance is the writer's `last_distance` -/
def RP (wo : WordOracle) (window mlen ii : Nat) (hist I : List Nat) (ring0 : List Int)
    (cmds lits : Array Nat) (ne : Nat) (ld : Int) : Prop :=
  ∃ k ring, k ≤ ne - ii ∧ (ld = -1 ∨ ring[0]? = some ld) ∧
    ∀ f C L, replayGo wo window mlen (f + k) (cmds.toList ++ C) (lits.toList ++ L) 0 ⟨hist ++ I.take ii, ring0⟩
      = replayGo wo window mlen f C L (ne - ii) ⟨hist ++ I.take ne, ring⟩

/-- bytes `[cand, cand + matched)` equal bytes `[base, base + matched)`, from `IsMatch` and `FindMatchLength` -/
theorem match_bytes (inp : Array Nat) (hb : ∀ i, inp.getD i 0 < 256) (base cand minMatch n : Nat)
    (hmm : minMatch = 4 ∨ minMatch = 6) (hm : isMatch inp base cand minMatch = .ok true)
    (hf : ∀ k, k < n → inp.getD (cand + minMatch + k) 0 = inp.getD (base + minMatch + k) 0) :
    ∀ k, k < minMatch + n → inp.toList.getD (cand + k) 0 = inp.toList.getD (base + k) 0 := by
  intro k hk
  rw [getD_toList, getD_toList]
  by_cases h : k < minMatch
  · exact (isMatch_true inp hb base cand minMatch hmm hm k h).symm
  · have := hf (k - minMatch) (by omega)
    rw [show cand + minMatch + (k - minMatch) = cand + k by omega,
      show base + minMatch + (k - minMatch) = base + k by omega] at this
    exact this

theorem chain_ok (wo : WordOracle) (window : Nat) (inp : Array Nat) (hist : List Nat) (ring0 : List Int)
    (ii mlen minMatch ipLimit capCmd shift : Nat) (cx : Ctx window inp ii mlen minMatch ipLimit) :
    ∀ (f cand : Nat) (c c' : CC) (rem : Bool),
      chain inp capCmd shift minMatch (ii + mlen) ipLimit f cand c = .ok (c', rem) →
      TB c.table (c.ip + 1) → cand < c.ip → c.nextEmit = c.ip → ii ≤ c.ip → c.ip < ipLimit →
      RP wo window mlen ii hist inp.toList ring0 c.cmds c.lits c.nextEmit c.lastDist →
      TB c'.table (c'.ip + 1) ∧ c'.nextEmit = c'.ip ∧ ii ≤ c'.ip ∧ c'.ip ≤ ii + mlen ∧
        (rem = false → c'.ip < ipLimit) ∧
        RP wo window mlen ii hist inp.toList ring0 c'.cmds c'.lits c'.nextEmit c'.lastDist := by
  have e32 : two32 = 4294967296 := rfl
  obtain ⟨hwin, hb, hmm, hsz, h31, hml, hlim⟩ := cx
  intro f
  induction f with
  | zero => intro cand c c' rem h; simp [chain] at h
  | succ f ih =>
  intro cand c c' rem h htb hcand hne hii hlt hrp
  rw [chain_succ] at h
  have hmm4 : 4 ≤ minMatch := by omega
  by_cases hfar : wsub c.ip cand > 262128
  · rw [if_pos hfar] at h
    injection h with h; injection h with e1 e2; subst e1 e2
    exact ⟨htb, hne, hii, by omega, fun _ => hlt, hrp⟩
  rw [if_neg hfar] at h
  obtain ⟨m, hm, h⟩ := (bind_ok_iff _ _ _).mp h
  try simp only [] at h
  by_cases hnm : (!m) = true
  · rw [if_pos hnm] at h
    injection h with h; injection h with e1 e2; subst e1 e2
    exact ⟨htb, hne, hii, by omega, fun _ => hlt, hrp⟩
  rw [if_neg hnm] at h
  have hmt : m = true := by cases m <;> simp at hnm ⊢
  subst hmt
  obtain ⟨n, hn, h⟩ := (bind_ok_iff _ _ _).mp h
  try simp only [] at h
  obtain ⟨c2, hc2, h⟩ := (bind_ok_iff _ _ _).mp h
  try simp only [] at h
  obtain ⟨dw, hdw, h⟩ := (bind_ok_iff _ _ _).mp h
  try simp only [] at h
  obtain ⟨c3, hc3, h⟩ := (bind_ok_iff _ _ _).mp h
  try simp only [] at h
  have e2 := pushCmd_ok capCmd _ c2 _ hc2
  have e3 := pushCmd_ok capCmd _ c3 _ hc3
  rw [wsub_le c.ip cand (by omega) (by omega)] at hfar hdw
  rw [wsub_le c.ip cand (by omega) (by omega)] at e2
  rw [asI32_small _ (by omega)] at hdw e2
  rw [i32AsUsize_nat, Nat.mod_eq_of_lt (by omega)] at hdw
  have hdw' : emitDistanceQ1 (c.ip - cand) = some dw := by
    cases hx : emitDistanceQ1 (c.ip - cand) with
    | none => rw [hx] at hdw; cases hdw
    | some w => rw [hx] at hdw; injection hdw with hdw; rw [hdw]
  obtain ⟨hnl, hnm⟩ := findMatchLength_ok inp _ _ _ n hn
  rw [wsub_le _ c.ip (by omega) (by omega), wsub_le _ minMatch (by omega) (by omega)] at hnl
  have hmatch := match_bytes inp hb c.ip cand minMatch n hmm hm hnm
  -- the state after the emission
  obtain ⟨k, ring, hk, hld, hrep⟩ := hrp
  have hrp4 : RP wo window mlen ii hist inp.toList ring0 c3.cmds c3.lits c3.ip c3.lastDist := by
    subst e3 e2
    refine ⟨k + 1, ((c.ip - cand : Nat) : Int) :: ring.take 3, by simp only []; omega, Or.inr rfl, ?_⟩
    intro f' C L
    simp only [Array.toList_push, List.append_assoc, List.singleton_append, List.cons_append, List.nil_append]
    have := hrep (f' + 1) (emitCopyLenQ1 (minMatch + n) :: dw :: C) L
    rw [show f' + (k + 1) = f' + 1 + k by omega, this, hne]
    exact replay_groupB wo window mlen ii hist inp.toList c.ip cand (minMatch + n) ring dw f' C L hwin hii hcand
      (by omega) (by omega) (by omega) (by rw [Array.length_toList]; omega) hml hmatch hdw'
  have hip3 : c3.ip = c.ip + (minMatch + n) := by subst e3 e2; rfl
  have htab3 : c3.table = c.table := by subst e3 e2; rfl
  by_cases hex : c3.ip ≥ ipLimit
  · rw [if_pos hex] at h
    injection h with h; injection h with e1 e2'; subst e1 e2'
    refine ⟨?_, rfl, by simp only []; omega, by simp only []; omega, (fun h => by cases h), hrp4⟩
    simp only []
    rw [htab3]
    exact htb.mono (by omega)
  rw [if_neg hex] at h
  by_cases h5 : c3.ip < 5
  · rw [if_pos h5] at h; cases h
  rw [if_neg h5] at h
  obtain ⟨x, hx, h⟩ := (bind_ok_iff _ _ _).mp h
  obtain ⟨c5, cand'⟩ := x
  try simp only [] at h
  obtain ⟨r1, r2, r3, r4, r5, r6, r7⟩ := rehash_ok inp shift minMatch false _ c5 cand' hx
    (by simp only []; rw [htab3]; exact htb.mono (by omega)) (by simp only []; omega) (by simp only []; omega)
  simp only [] at r1 r2 r3 r4 r5 r6 r7
  exact ih cand' c5 c' rem h (by rw [r3]; exact r6) (by rw [r3]; exact r7) (by rw [r4, r3]) (by rw [r3]; omega)
    (by rw [r3]; omega) (by rw [r2, r1, r4, r5]; exact hrp4)

theorem matchLoop_ok (wo : WordOracle) (window : Nat) (inp : Array Nat) (hist : List Nat) (ring0 : List Int)
    (ii mlen minMatch ipLimit capCmd capLit shift : Nat) (cx : Ctx window inp ii mlen minMatch ipLimit) :
    ∀ (f nh : Nat) (c c' : CC),
      matchLoop inp capCmd capLit shift minMatch (ii + mlen) ipLimit f nh c = .ok c' →
      TB c.table c.ip → c.nextEmit < c.ip → ii ≤ c.nextEmit → c.ip ≤ ii + mlen →
      RP wo window mlen ii hist inp.toList ring0 c.cmds c.lits c.nextEmit c.lastDist →
      TB c'.table (ii + mlen + 1) ∧ ii ≤ c'.nextEmit ∧ c'.nextEmit ≤ ii + mlen ∧
        RP wo window mlen ii hist inp.toList ring0 c'.cmds c'.lits c'.nextEmit c'.lastDist := by
  have e32 : two32 = 4294967296 := rfl
  have cx' := cx
  obtain ⟨hwin, hb, hmm, hsz, h31, hml, hlim⟩ := cx
  intro f
  induction f with
  | zero => intro nh c c' h; simp [matchLoop] at h
  | succ f ih =>
  intro nh c c' h htb hne hii hip hrp
  rw [matchLoop_succ] at h
  have hmm4 : 4 ≤ minMatch := by omega
  obtain ⟨x, hx, h⟩ := (bind_ok_iff _ _ _).mp h
  obtain ⟨c1, r⟩ := x
  try simp only [] at h
  obtain ⟨s1, s2, s3, s4, s5, s6, s7, s8⟩ := scan_ok inp shift minMatch ipLimit (ii + mlen) (by omega) (by omega)
    _ _ _ _ c c1 r hx htb (by omega) (by omega) hip
  cases r with
  | none =>
    simp only [] at h
    injection h with h; subst h
    exact ⟨s5.mono (by omega), by omega, by omega, by rw [s1, s2, s3, s4]; exact hrp⟩
  | some cand =>
  simp only [] at h
  obtain ⟨hc1, hc2, hc3, hc4⟩ := s8 cand rfl
  obtain ⟨n, hn, h⟩ := (bind_ok_iff _ _ _).mp h
  try simp only [] at h
  obtain ⟨d1, hd1, h⟩ := (bind_ok_iff _ _ _).mp h
  try simp only [] at h
  obtain ⟨d2, hd2, h⟩ := (bind_ok_iff _ _ _).mp h
  try simp only [] at h
  obtain ⟨d4, hd4, h⟩ := (bind_ok_iff _ _ _).mp h
  try simp only [] at h
  obtain ⟨d5, hd5, h⟩ := (bind_ok_iff _ _ _).mp h
  try simp only [] at h
  have e1 := pushCmd_ok capCmd _ d1 _ hd1
  obtain ⟨e2, hext⟩ := pushLits_ok capLit inp d1 d2 _ _ hd2
  obtain ⟨p1, p2, p3, p4, p5, p6⟩ := pushCmds_ok capCmd _ d4 d5 hd5
  rw [wsub_le c1.ip cand (by omega) (by omega), asI32_small _ (by omega)] at hd4
  rw [i32AsUsize_nat, Nat.mod_eq_of_lt (by omega)] at hd4
  rw [wsub_le c1.ip c1.nextEmit (by omega) (by omega), asI32_small _ (by omega), i32AsUsize_nat,
    Nat.mod_eq_of_lt (by omega)] at e1
  rw [wsub_le c1.ip c1.nextEmit (by omega) (by omega), asI32_small _ (by omega), i32AsUsize_nat] at e2 hext
  obtain ⟨hnl, hnm⟩ := findMatchLength_ok inp _ _ _ n hn
  rw [wsub_le _ c1.ip (by omega) (by omega), wsub_le _ minMatch (by omega) (by omega)] at hnl
  have hmatch := match_bytes inp hb c1.ip cand minMatch n hmm hc4 hnm
  obtain ⟨k, ring, hk, hld, hrep⟩ := hrp
  -- the distance word: 64 (last distance) or an explicit code
  obtain ⟨dW, hd4', hld4, hdW⟩ : ∃ dW, d4 = { d2 with cmds := d2.cmds.push dW, lastDist := ((c1.ip - cand : Nat) : Int) } ∧
      d4.lastDist = ((c1.ip - cand : Nat) : Int) ∧
      ((dW = 64 ∧ ring[0]? = some ((c1.ip - cand : Nat) : Int)) ∨ emitDistanceQ1 (c1.ip - cand) = some dW) := by
    by_cases heq : ((c1.ip - cand : Nat) : Int) = d2.lastDist
    · rw [if_pos heq] at hd4
      have := pushCmd_ok capCmd _ d4 _ hd4
      have hl : d2.lastDist = c.lastDist := by subst e2 e1; exact s4
      refine ⟨64, by rw [this, heq], by rw [this]; exact heq.symm, Or.inl ⟨rfl, ?_⟩⟩
      rcases hld with hld | hld
      · rw [hl, hld] at heq; omega
      · rw [hld, ← hl, heq]
    · rw [if_neg heq] at hd4
      obtain ⟨dw, hdw, hd4⟩ := (bind_ok_iff _ _ _).mp hd4
      try simp only [] at hd4
      obtain ⟨d3, hd3, hd4⟩ := (bind_ok_iff _ _ _).mp hd4
      try simp only [] at hd4
      injection hd4 with hd4
      have := pushCmd_ok capCmd _ d3 _ hd3
      refine ⟨dw, by rw [← hd4, this], by rw [← hd4], Or.inr ?_⟩
      cases hx : emitDistanceQ1 (c1.ip - cand) with
      | none => rw [hx] at hdw; cases hdw
      | some w => rw [hx] at hdw; injection hdw with hdw; rw [hdw]
  -- the state after the emission
  have hip5 : d5.ip = c1.ip + (minMatch + n) := by rw [p3, hd4']; subst e2 e1; rfl
  have htab5 : d5.table = c1.table := by rw [p1, hd4']; subst e2 e1; rfl
  have hcm5 : d5.cmds.toList = c.cmds.toList ++ (emitInsertLenQ1 (c1.ip - c.nextEmit) :: dW ::
      emitCopyLenLastDistanceQ1 (minMatch + n)) := by
    rw [p6, hd4']; subst e2 e1
    simp only [Array.toList_push, List.append_assoc, List.singleton_append, List.cons_append, List.nil_append, s1, s3]
  have hli5 : d5.lits.toList = c.lits.toList ++ (inp.toList.drop c.nextEmit).take (c1.ip - c.nextEmit) := by
    rw [p2, hd4']; subst e2 e1
    simp only [Array.toList_append, s2, s3]
    rw [extract_toList]
  have hld5 : d5.lastDist = ((c1.ip - cand : Nat) : Int) := by rw [p5]; exact hld4
  obtain ⟨ring', hdW'⟩ : ∃ ring', (dW = 64 ∧ ring[0]? = some ((c1.ip - cand : Nat) : Int) ∧ ring' = ring) ∨
      (emitDistanceQ1 (c1.ip - cand) = some dW ∧ ring' = ((c1.ip - cand : Nat) : Int) :: ring.take 3) := by
    rcases hdW with ⟨a, b⟩ | a
    · exact ⟨ring, Or.inl ⟨a, b, rfl⟩⟩
    · exact ⟨_, Or.inr ⟨a, rfl⟩⟩
  obtain ⟨hr0, hA⟩ := replay_groupA wo window mlen ii hist inp.toList c.nextEmit c1.ip cand (minMatch + n) ring ring' dW
    hwin hii (by omega) hc1 hc2 (by omega) (by omega) (by rw [Array.length_toList]; omega) hml hmatch hdW'
  have hrp5 : RP wo window mlen ii hist inp.toList ring0 d5.cmds d5.lits d5.ip d5.lastDist := by
    refine ⟨k + 2, ring', by omega, Or.inr (by rw [hld5]; exact hr0), ?_⟩
    intro f' C L
    rw [hcm5, hli5, List.append_assoc, List.append_assoc, show f' + (k + 2) = f' + 2 + k by omega, hrep]
    simp only [List.cons_append]
    rw [hA, hip5]
  by_cases hex : d5.ip ≥ ipLimit
  · rw [if_pos hex] at h
    injection h with h; subst h
    refine ⟨?_, by simp only []; omega, by simp only []; omega, hrp5⟩
    simp only []
    rw [htab5]
    exact s5.mono (by omega)
  rw [if_neg hex] at h
  obtain ⟨y, hy, h⟩ := (bind_ok_iff _ _ _).mp h
  obtain ⟨c6, cand'⟩ := y
  try simp only [] at h
  obtain ⟨r1, r2, r3, r4, r5, r6, r7⟩ := rehash_ok inp shift minMatch true _ c6 cand' hy
    (by simp only []; rw [htab5]; exact s5.mono (by omega)) (by simp only []; omega) (by simp only []; omega)
  simp only [] at r1 r2 r3 r4 r5 r6 r7
  obtain ⟨z, hz, h⟩ := (bind_ok_iff _ _ _).mp h
  obtain ⟨c7, rem⟩ := z
  try simp only [] at h
  obtain ⟨q1, q2, q3, q4, q5, q6⟩ := chain_ok wo window inp hist ring0 ii mlen minMatch ipLimit capCmd shift cx'
    _ cand' c6 c7 rem hz (by rw [r3]; exact r6) (by rw [r3]; exact r7) (by rw [r4, r3]) (by rw [r3]; omega)
    (by rw [r3]; omega) (by rw [r2, r1, r4, r5]; exact hrp5)
  by_cases hrem : rem = true
  · rw [if_pos hrem] at h
    injection h with h; subst h
    exact ⟨q1.mono (by omega), by omega, by omega, q6⟩
  rw [if_neg hrem] at h
  have hremf : rem = false := by cases rem <;> simp at hrem ⊢
  have q5' := q5 hremf
  obtain ⟨v, _, h⟩ := (bind_ok_iff _ _ _).mp h
  try simp only [] at h
  exact ih _ _ c' h q1 (by simp only []; omega) (by simp only []; omega) (by simp only []; omega) q6

/-- **`CreateCommands` is sound**: whatever the hash table holds (any earlier positions), whatever matches the
search finds or misses, if the call returns, the command / literal buffers replay under RFC 7932 (`replayQ1`) from
"history ++ input before the block" to exactly "history ++ input through the block"; the table again holds
earlier positions (of the next block). -/
theorem createCommands_replays (wo : WordOracle) (window : Nat) (inp : Array Nat) (hist : List Nat) (ring0 : List Int)
    (ii mlen inputSize tableBits minMatch capLit capCmd : Nat) (table t' : Array Int) (lits cmds : List Nat)
    (hwin : 262128 ≤ window) (hb : ∀ i, inp.getD i 0 < 256) (hmm : minMatch = 4 ∨ minMatch = 6)
    (hsz : ii + mlen ≤ inp.size) (h31 : inp.size < 2147483648) (h1 : 1 ≤ mlen) (hml : mlen < 16777216)
    (htb : TB table (ii + 1))
    (h : createCommands ii mlen inputSize inp table tableBits minMatch capLit capCmd = .ok (t', lits, cmds)) :
    ∃ ring, replayQ1 wo window mlen cmds lits 0 ⟨hist ++ inp.toList.take ii, ring0⟩
        = some ⟨hist ++ inp.toList.take (ii + mlen), ring⟩ ∧ TB t' (ii + mlen + 1) := by
  have e32 : two32 = 4294967296 := rfl
  rw [createCommands_eq] at h
  obtain ⟨c, hc, h⟩ := (bind_ok_iff _ _ _).mp h
  try simp only [] at h
  obtain ⟨c2, hc2, h⟩ := (bind_ok_iff _ _ _).mp h
  try simp only [] at h
  injection h with h
  injection h with g1 h
  injection h with g2 g3
  -- the state after the match loop
  have hinit : RP wo window mlen ii hist inp.toList ring0 #[] #[] ii (-1) :=
    ⟨0, ring0, by omega, Or.inl rfl, fun f C L => by simp⟩
  obtain ⟨m1, m2, m3, m4⟩ : TB c.table (ii + mlen + 1) ∧ ii ≤ c.nextEmit ∧ c.nextEmit ≤ ii + mlen ∧
      RP wo window mlen ii hist inp.toList ring0 c.cmds c.lits c.nextEmit c.lastDist := by
    by_cases h16 : mlen ≥ 16
    · rw [if_pos h16] at hc
      obtain ⟨v, _, hc⟩ := (bind_ok_iff _ _ _).mp hc
      try simp only [] at hc
      have cx : Ctx window inp ii mlen minMatch (ii + min (wsub mlen minMatch) (wsub inputSize 16)) :=
        ⟨hwin, hb, hmm, hsz, h31, hml, by
          rw [wsub_le mlen minMatch (by omega) (by omega)]
          have := Nat.min_le_left (mlen - minMatch) (wsub inputSize 16)
          omega⟩
      exact matchLoop_ok wo window inp hist ring0 ii mlen minMatch _ capCmd capLit (64 - tableBits) cx _ _ _ c hc
        htb (by simp only []; omega) (Nat.le_refl _) (by simp only []; omega) hinit
    · rw [if_neg h16] at hc
      injection hc with hc
      subst hc
      exact ⟨htb.mono (by omega), Nat.le_refl _, by simp only []; omega, hinit⟩
  obtain ⟨k, ring, hk, _, hrep⟩ := m4
  refine ⟨ring, ?_, by rw [← g1]; revert hc2; split <;> intro hc2
                       · obtain ⟨c1, hc1, hc2⟩ := (bind_ok_iff _ _ _).mp hc2
                         have e1 := pushCmd_ok capCmd c c1 _ hc1
                         obtain ⟨e2, _⟩ := pushLits_ok capLit inp c1 c2 _ _ hc2
                         rw [e2, e1]; exact m1
                       · injection hc2 with hc2; rw [← hc2]; exact m1⟩
  unfold replayQ1
  by_cases hlast : c.nextEmit < ii + mlen
  · rw [if_pos hlast] at hc2
    obtain ⟨c1, hc1, hc2⟩ := (bind_ok_iff _ _ _).mp hc2
    try simp only [] at hc2
    have e1 := pushCmd_ok capCmd c c1 _ hc1
    obtain ⟨e2, _⟩ := pushLits_ok capLit inp c1 c2 _ _ hc2
    rw [Nat.mod_eq_of_lt (by omega)] at e1 e2
    have hcm : cmds = c.cmds.toList ++ [emitInsertLenQ1 (ii + mlen - c.nextEmit)] := by
      rw [← g3, e2, e1]; simp
    have hli : lits = c.lits.toList ++ (inp.toList.drop c.nextEmit).take (ii + mlen - c.nextEmit) := by
      rw [← g2, e2, e1]
      simp only [Array.toList_append]
      rw [extract_toList]
    have hfin := replay_final wo window mlen ii hist inp.toList c.nextEmit ring 0 m2 hlast
      (by rw [Array.length_toList]; omega) hml
    have := hrep 1 [emitInsertLenQ1 (ii + mlen - c.nextEmit)] ((inp.toList.drop c.nextEmit).take (ii + mlen - c.nextEmit))
    rw [hfin, ← hcm, ← hli] at this
    exact replayGo_mono wo window mlen _ _ _ _ _ _ _ this (by omega)
  · rw [if_neg hlast] at hc2
    injection hc2 with hc2
    subst hc2
    have hne : c.nextEmit = ii + mlen := by omega
    have := hrep 1 [] []
    rw [List.append_nil, List.append_nil, g3, g2] at this
    have h2 : replayGo wo window mlen 1 [] [] (c.nextEmit - ii) ⟨hist ++ inp.toList.take c.nextEmit, ring⟩
        = some ⟨hist ++ inp.toList.take c.nextEmit, ring⟩ := by
      rw [replayGo, if_pos ⟨rfl, by omega⟩]
    rw [h2, hne] at this
    exact replayGo_mono wo window mlen _ _ _ _ _ _ _ this (by omega)

end BV.Fragment
