import BV.Lemmas.AdaptersFill
import BV.Lemmas.AdaptersHyp
/-
C11, reader half: `CompressorReaderCustomIo::{read, copy_to_front}` over an arbitrary encoder
oracle and an arbitrary script of the wrapped reader.
-/
namespace BV.Adapters
variable {σ : Type}

/-- the cursor invariant of the reader's own buffer -/
def Reader.WF (r : Reader σ) : Prop := r.inputOffset ≤ r.inputLen ∧ r.inputLen ≤ r.buf.length

/-- the bytes read from the source and not yet consumed by the encoder -/
def Reader.window (r : Reader σ) : Bytes := (r.buf.take r.inputLen).drop r.inputOffset

/-- everything the reader has been given or can still get, in order: consumed by the encoder,
waiting in the buffer, still in the source -/
def Reader.total (r : Reader σ) : Bytes := fed r.elog ++ r.window ++ r.src.data

theorem Reader.window_length (r : Reader σ) (h : r.WF) : r.window.length = r.inputLen - r.inputOffset := by
  simp [Reader.window, List.length_drop, List.length_take]; have := h.1; have := h.2; omega

/-- what `read` offers to the encoder is exactly the window -/
theorem Reader.input_eq_window (r : Reader σ) (h : r.WF) :
    (r.buf.drop r.inputOffset).take (r.inputLen - r.inputOffset) = r.window := by
  unfold Reader.window
  rw [List.take_drop]
  congr 2
  have := h.1; omega

theorem Reader.new_WF (b : Nat) (e : σ) (src : Source) : (Reader.new b e src).WF := by
  simp [Reader.WF, Reader.new]

/-! ### `copy_to_front` -/

theorem copyToFront_spec (r : Reader σ) (h : r.WF) :
    ∃ r', r.copyToFront = some r' ∧ r'.WF ∧ r'.window = r.window ∧
      r'.inputLen - r'.inputOffset = r.inputLen - r.inputOffset ∧ r'.buf.length = r.buf.length ∧
      r'.enc = r.enc ∧ r'.elog = r.elog ∧ r'.src = r.src ∧ r'.eof = r.eof ∧
      r'.errInvalid = r.errInvalid ∧ r'.totalOut = r.totalOut := by
  obtain ⟨h1, h2⟩ := h
  unfold Reader.copyToFront
  rw [if_neg (by omega)]
  simp only
  split
  · next heq =>
    refine ⟨_, rfl, ⟨by simp, by simp⟩, ?_, by simp; omega, rfl, rfl, rfl, rfl, rfl, rfl, rfl⟩
    have hlen : r.inputLen = r.buf.length := by omega
    simp [Reader.window, hlen, heq]
  · next hne =>
    split
    · next hc =>
      have hsec : ¬ (r.buf.drop r.inputOffset).length < r.inputLen - r.inputOffset := by
        simp [List.length_drop]; omega
      rw [if_neg hsec]
      refine ⟨_, rfl, ⟨by simp, ?_⟩, ?_, by simp, ?_, rfl, rfl, rfl, rfl, rfl, rfl⟩
      · simp [List.length_take, List.length_drop]; omega
      · have hl : ((r.buf.drop r.inputOffset).take (r.inputLen - r.inputOffset)).length = r.inputLen - r.inputOffset := by
          simp [List.length_take, List.length_drop]; omega
        simp only [Reader.window, List.drop_zero]
        rw [List.take_append_of_le_length (by omega), List.take_of_length_le (by omega)]
        rw [List.take_drop]
        congr 2; omega
      · simp [List.length_take, List.length_drop]; omega
    · exact ⟨_, rfl, ⟨h1, h2⟩, rfl, rfl, rfl, rfl, rfl, rfl, rfl, rfl, rfl⟩

/-! ### the refill loop at reader level -/

theorem Reader.fill_spec (r : Reader σ) (h : r.WF) :
    r.fill.1.WF ∧ r.fill.1.inputOffset = r.inputOffset ∧ r.fill.1.buf.length = r.buf.length ∧
    r.fill.1.enc = r.enc ∧ r.fill.1.elog = r.elog ∧ r.fill.1.errInvalid = r.errInvalid ∧
    r.fill.1.totalOut = r.totalOut ∧ r.fill.1.src.tail = r.src.tail ∧
    (r.eof = true → r.fill.1.eof = true) ∧
    (r.fill.2 = none → ¬(r.fill.1.inputLen < r.buf.length ∧ r.fill.1.eof = false)) ∧
    ∃ (moved : Bytes) (newL : List LogE),
      r.fill.1.window = r.window ++ moved ∧ r.src.data = moved ++ r.fill.1.src.data ∧
      r.fill.1.inputLen = r.inputLen + moved.length ∧
      r.fill.1.src.log = newL ++ r.src.log ∧
      (∀ c, r.fill.2 = some c → ∃ e ∈ newL, e.res = .err c) ∧
      (r.fill.2 = none → ∀ e ∈ newL, ∀ c, e.res ≠ .err c) := by
  obtain ⟨f1, f2, f3, f4, f5, moved, newL, k1, k2, k3, k4, k5, k6⟩ := fillBuf_spec r.buf r.inputLen r.eof r.src 0 h.2
  refine ⟨⟨?_, ?_⟩, rfl, f1, rfl, rfl, rfl, rfl, f3, f4, f5, moved, newL, ?_, k3, k1, k4, ?_, k6⟩
  · show r.inputOffset ≤ (fillBuf r.buf r.inputLen r.eof r.src 0).len
    rw [k1]; have := h.1; omega
  · show (fillBuf r.buf r.inputLen r.eof r.src 0).len ≤ (fillBuf r.buf r.inputLen r.eof r.src 0).buf.length
    rw [f1]; exact f2
  · show ((fillBuf r.buf r.inputLen r.eof r.src 0).buf.take (fillBuf r.buf r.inputLen r.eof r.src 0).len).drop r.inputOffset = _
    rw [k2, Reader.window, List.drop_append_of_le_length]
    simp [List.length_take]; have := h.1; have := h.2; omega
  · intro c hc; exact ⟨_, k5 c hc, rfl⟩

/-! ### one iteration of `read` -/

/-- the encoder call of an iteration, described (for a well-formed state and a sane answer) -/
theorem afterStep_spec (E : Enc σ) (cap : Nat) (r1 : Reader σ) (h : r1.WF)
    (hc : (E.step r1.enc (if r1.inputLen - r1.inputOffset = 0 then Op.finish else Op.process) r1.window cap).2.consumed ≤ r1.window.length) :
    let op := if r1.inputLen - r1.inputOffset = 0 then Op.finish else Op.process
    let st := E.step r1.enc op r1.window cap
    let r2 := r1.afterStep E cap
    r2.WF ∧ r2.window = r1.window.drop st.2.consumed ∧ r2.enc = st.1 ∧
    r2.elog = ⟨op, r1.window, cap, st.2, E.hasMore st.1, E.isFinished st.1⟩ :: r1.elog ∧
    r2.src = r1.src ∧ r2.eof = r1.eof ∧ r2.errInvalid = r1.errInvalid ∧ r2.buf = r1.buf ∧
    r2.inputLen = r1.inputLen ∧ r2.inputOffset = r1.inputOffset + st.2.consumed ∧ r2.total = r1.total := by
  intro op st r2
  have hw := Reader.input_eq_window r1 h
  have hwl := Reader.window_length r1 h
  have e_in : (r1.buf.drop r1.inputOffset).take (r1.inputLen - r1.inputOffset) = r1.window := hw
  have hr2 : r2 = { r1 with enc := st.1, elog := ⟨op, r1.window, cap, st.2, E.hasMore st.1, E.isFinished st.1⟩ :: r1.elog, bufAcc := r1.bufAcc + 1, inputOffset := r1.inputOffset + st.2.consumed, totalOut := if st.2.produced.length > 0 then st.2.tot else r1.totalOut } := by
    show r1.afterStep E cap = _
    simp only [Reader.afterStep, e_in]
    rfl
  have hcc : st.2.consumed ≤ r1.inputLen - r1.inputOffset := by rw [← hwl]; exact hc
  have hwin : r2.window = r1.window.drop st.2.consumed := by
    rw [hr2]; simp only [Reader.window, List.drop_drop]
  refine ⟨?_, hwin, by rw [hr2], by rw [hr2], by rw [hr2], by rw [hr2], by rw [hr2], by rw [hr2], by rw [hr2], by rw [hr2], ?_⟩
  · rw [hr2]; exact ⟨by simp; have := h.1; omega, h.2⟩
  · have hs : r2.src = r1.src := by rw [hr2]
    have he : r2.elog = ⟨op, r1.window, cap, st.2, E.hasMore st.1, E.isFinished st.1⟩ :: r1.elog := by rw [hr2]
    simp only [Reader.total, hwin, hs, he, fed_cons, List.append_assoc]
    rw [← List.append_assoc (r1.window.take st.2.consumed), List.take_append_drop]
/-- how an iteration ends once the encoder has answered sanely: `r3` is the state after
`copy_to_front` -/
def iterTail (E : Enc σ) (st : σ × EncAns) (r3 : Reader σ) : RIter σ :=
  if st.2.ok = false then
    (if r3.errInvalid then .stop { r3 with errInvalid := false } (.done (.error .invalidData)) else .stop r3 .panic)
  else if E.isFinished st.1 then .stop r3 (.done (.ok st.2.produced))
  else if st.2.produced.length ≠ 0 then .stop r3 (.done (.ok st.2.produced))
  else .cont r3

/-- the operation `read` asks for -/
def Reader.nextOp (r1 : Reader σ) : Op := if r1.inputLen - r1.inputOffset = 0 then Op.finish else Op.process

theorem iter_fill_err (E : Enc σ) (cap : Nat) (r r1 : Reader σ) (c : Nat) (hf : r.fill = (r1, some c)) :
    Reader.iter E cap r = .stop r1 (.done (.error (.inner c))) := by
  unfold Reader.iter; rw [hf]

/-- what an iteration of `read` can do from a well-formed state once the refill succeeded -/
theorem iter_cases (E : Enc σ) (cap : Nat) (r r1 : Reader σ) (h : r.WF) (hf : r.fill = (r1, none))
    (st : σ × EncAns) (hst : st = E.step r1.enc r1.nextOp r1.window cap) :
    (¬(st.2.consumed ≤ r1.window.length ∧ st.2.produced.length ≤ cap) ∧ ∃ r2, Reader.iter E cap r = .stop r2 .panic) ∨
    (st.2.consumed ≤ r1.window.length ∧ st.2.produced.length ≤ cap ∧
      ∃ r3 : Reader σ, r3.WF ∧ r3.window = r1.window.drop st.2.consumed ∧ r3.enc = st.1 ∧
        r3.elog = ⟨r1.nextOp, r1.window, cap, st.2, E.hasMore st.1, E.isFinished st.1⟩ :: r1.elog ∧
        r3.src = r1.src ∧ r3.eof = r1.eof ∧ r3.errInvalid = r1.errInvalid ∧
        (r3.buf.length = r1.buf.length ∧ (r3.window = [] ∨ r3.inputLen = r1.inputLen)) ∧ r3.total = r1.total ∧
        Reader.iter E cap r = iterTail E st r3) := by
  have wf1 : r1.WF := by have := (Reader.fill_spec r h).1; rw [hf] at this; exact this
  have hw := Reader.input_eq_window r1 wf1
  have hwl := Reader.window_length r1 wf1
  have hlt : ¬ r1.inputLen < r1.inputOffset := by have := wf1.1; omega
  have hspec := afterStep_spec E cap r1 wf1
  have hst' : E.step r1.enc (if r1.inputLen - r1.inputOffset = 0 then Op.finish else Op.process) r1.window cap = st := by
    rw [hst]; rfl
  unfold Reader.iter
  rw [hf]
  simp only [hlt, if_false, hw, hst']
  by_cases hs : st.2.consumed ≤ r1.window.length ∧ st.2.produced.length ≤ cap
  · refine Or.inr ⟨hs.1, hs.2, ?_⟩
    rw [if_neg (by have := hs.1; have := hs.2; omega)]
    have hc' : (E.step r1.enc (if r1.inputLen - r1.inputOffset = 0 then Op.finish else Op.process) r1.window cap).2.consumed ≤ r1.window.length := by
      rw [hst']; exact hs.1
    obtain ⟨a1, a2, a3, a4, a5, a6, a7, a8, a9, a10, a11⟩ := hspec hc'
    obtain ⟨r', c1, c2, c3, c4, c5, c6, c7, c8, c9, c10, c11⟩ := copyToFront_spec (r1.afterStep E cap) a1
    rw [hst'] at a2 a3 a4 a10
    have key : ∃ r3 : Reader σ,
        (if r1.inputLen - r1.inputOffset - st.2.consumed = 0
          then (r1.afterStep E cap).copyToFront else some (r1.afterStep E cap)) = some r3 ∧
        r3.WF ∧ r3.window = (r1.afterStep E cap).window ∧ r3.buf.length = (r1.afterStep E cap).buf.length ∧
        r3.enc = (r1.afterStep E cap).enc ∧ r3.elog = (r1.afterStep E cap).elog ∧ r3.src = (r1.afterStep E cap).src ∧
        r3.eof = (r1.afterStep E cap).eof ∧ r3.errInvalid = (r1.afterStep E cap).errInvalid ∧
        (r3.window = [] ∨ r3.inputLen = r1.inputLen) := by
      split
      · next hz =>
        refine ⟨r', c1, c2, c3, c5, c6, c7, c8, c9, c10, Or.inl ?_⟩
        rw [c3, a2]
        exact List.eq_nil_of_length_eq_zero (by rw [List.length_drop, hwl]; omega)
      · exact ⟨_, rfl, a1, rfl, rfl, rfl, rfl, rfl, rfl, rfl, Or.inr a9⟩
    obtain ⟨r3, k0, k1, k2, k3, k4, k5, k6, k7, k8, k9'⟩ := key
    refine ⟨r3, k1, by rw [k2, a2], by rw [k4, a3], ?_, by rw [k6, a5], by rw [k7, a6], by rw [k8, a7], ⟨by rw [k3, a8], k9'⟩, ?_, ?_⟩
    · rw [k5, a4]; rfl
    · simp only [Reader.total, k5, k2, k6]; exact a11
    · rw [k0]
      simp only [iterTail, k4, a3]
      cases hok : st.2.ok <;> simp
  · refine Or.inl ⟨hs, ?_⟩
    rw [if_pos (by have : ¬(st.2.consumed ≤ r1.window.length ∧ st.2.produced.length ≤ cap) := hs
                   omega)]
    exact ⟨_, rfl⟩
/-! ### termination of `read` -/

/-- bytes that can still reach the encoder -/
def Reader.todo (r : Reader σ) : Nat := r.src.data.length + r.window.length
def Reader.eofFlag (r : Reader σ) : Nat := if r.eof then 0 else 1

/-- facts about an iteration that goes round again -/
theorem iter_cont (E : Enc σ) (cap : Nat) (r r' : Reader σ) (h : r.WF) (hi : Reader.iter E cap r = .cont r') :
    ∃ (r1 : Reader σ) (st : σ × EncAns), r.fill = (r1, none) ∧ st = E.step r1.enc r1.nextOp r1.window cap ∧
      st.2.consumed ≤ r1.window.length ∧ st.2.produced = [] ∧ st.2.ok = true ∧ E.isFinished st.1 = false ∧
      r'.WF ∧ r'.window = r1.window.drop st.2.consumed ∧ r'.enc = st.1 ∧
      r'.elog = ⟨r1.nextOp, r1.window, cap, st.2, E.hasMore st.1, E.isFinished st.1⟩ :: r1.elog ∧
      r'.src = r1.src ∧ r'.eof = r1.eof ∧ r'.errInvalid = r1.errInvalid ∧ r'.buf.length = r1.buf.length ∧
      r'.total = r1.total := by
  cases hfl : r.fill with
  | mk r1 o =>
    cases o with
    | some c => rw [iter_fill_err E cap r r1 c hfl] at hi; simp at hi
    | none =>
      rcases iter_cases E cap r r1 h hfl _ rfl with ⟨_, r2, h2⟩ | ⟨s1, s2, r3, k1, k2, k3, k4, k5, k6, k7, k8, k9, k10⟩
      · rw [h2] at hi; simp at hi
      · rw [k10] at hi
        unfold iterTail at hi
        split at hi
        · split at hi <;> simp at hi
        · next hok =>
          split at hi
          · simp at hi
          · next hfin =>
            split at hi
            · simp at hi
            · next hp =>
              simp only [RIter.cont.injEq] at hi
              subst hi
              refine ⟨r1, _, rfl, rfl, s1, ?_, by simpa using hok, by simpa using hfin, k1, k2, k3, k4, k5, k6, k7, k8.1, k9⟩
              exact List.eq_nil_of_length_eq_zero (by simpa using hp)

theorem iter_cont_measure (E : Enc σ) (ops : Op → Prop) (rank : σ → Nat) (hp : EncProgress E ops rank)
    (hops : ops .process ∧ ops .finish) (cap : Nat) (hcap : 0 < cap)
    (r r' : Reader σ) (h : r.WF) (hi : Reader.iter E cap r = .cont r') :
    r'.WF ∧ (r'.todo < r.todo ∨ (r'.todo = r.todo ∧ r'.eofFlag < r.eofFlag) ∨
      (r'.todo = r.todo ∧ r'.eofFlag = r.eofFlag ∧ rank r'.enc < rank r.enc)) := by
  obtain ⟨r1, st, hfl, hst, s1, s2, s3, s4, k1, k2, k3, k4, k5, k6, k7, k8, k9⟩ := iter_cont E cap r r' h hi
  refine ⟨k1, ?_⟩
  obtain ⟨f1, f2, f3, f4, f5, f6, f7, f8, f9, f10, moved, newL, m1, m2, m3, m4, m5, m6⟩ := Reader.fill_spec r h
  rw [hfl] at f1 f4 f9 m1 m2
  simp only at f1 f4 f9 m1 m2
  have ht1 : r1.todo = r.todo := by
    simp only [Reader.todo, m1, m2, List.length_append]; omega
  have hf1 : r1.eofFlag ≤ r.eofFlag := by
    simp only [Reader.eofFlag]
    cases he : r.eof
    · split <;> simp
    · simp [f9 he]
  have ht' : r'.todo = r1.todo - st.2.consumed := by
    simp only [Reader.todo, k2, k5, List.length_drop]; omega
  have hf' : r'.eofFlag = r1.eofFlag := by simp only [Reader.eofFlag, k6]
  by_cases hc : st.2.consumed = 0
  · -- nothing consumed: the encoder's rank went down
    have hwl := Reader.window_length r1 f1
    have hdem : Demanded E st.1 r1.nextOp r1.window := by
      unfold Reader.nextOp
      split
      · next hz0 =>
        refine Or.inr (Or.inl ⟨rfl, ?_, s4⟩)
        exact List.eq_nil_of_length_eq_zero (by rw [hwl]; exact hz0)
      · next hne =>
        refine Or.inl ⟨rfl, ?_⟩
        intro hnil; rw [hnil] at hwl; simp at hwl; omega
    have hlt : rank r'.enc < rank r.enc := by
      rw [k3, ← f4, hst]
      apply hp.stall r1.enc r1.nextOp r1.window cap (by unfold Reader.nextOp; split; exact hops.2; exact hops.1) hcap
      · rw [← hst]; exact s3
      · rw [← hst]; exact hc
      · rw [← hst]; exact hdem
    have : r'.todo = r.todo := by rw [ht', hc, ht1]; simp
    rcases Nat.lt_or_ge r'.eofFlag r.eofFlag with hlt' | hge
    · exact Or.inr (Or.inl ⟨this, hlt'⟩)
    · exact Or.inr (Or.inr ⟨this, by omega, hlt⟩)
  · left
    have : st.2.consumed ≤ r1.todo := by simp only [Reader.todo]; omega
    omega

theorem readLoop_terminates (E : Enc σ) (ops : Op → Prop) (rank : σ → Nat) (hp : EncProgress E ops rank)
    (hops : ops .process ∧ ops .finish) (cap : Nat) (hcap : 0 < cap) :
    ∀ (T F R : Nat) (r : Reader σ), r.WF → r.todo = T → r.eofFlag = F → rank r.enc = R →
      ∃ N, ∀ fuel, N ≤ fuel → (Reader.readLoop E cap fuel r).2 ≠ .livelock := by
  intro T
  induction T using Nat.strongRecOn with
  | ind T ihT =>
    intro F
    induction F using Nat.strongRecOn with
    | ind F ihF =>
      intro R
      induction R using Nat.strongRecOn with
      | ind R ihR =>
        intro r hwf hT hF hR
        cases hi : Reader.iter E cap r with
        | stop r' o =>
          refine ⟨1, ?_⟩
          intro fuel hf
          obtain ⟨f, rfl⟩ : ∃ f, fuel = f + 1 := ⟨fuel - 1, by omega⟩
          simp only [Reader.readLoop, hi]
          -- an iteration never stops with `livelock`
          cases hfl : r.fill with
          | mk r1 o =>
            cases o with
            | some c => rw [iter_fill_err E cap r r1 c hfl] at hi; simp at hi; rw [← hi.2]; simp
            | none =>
              rcases iter_cases E cap r r1 hwf hfl _ rfl with ⟨_, r2, h2⟩ | ⟨s1, s2, r3, k1, k2, k3, k4, k5, k6, k7, k8, k9, k10⟩
              · rw [h2] at hi; simp at hi; rw [← hi.2]; simp
              · rw [k10] at hi
                unfold iterTail at hi
                split at hi
                · split at hi <;> (simp at hi; rw [← hi.2]; simp)
                · split at hi
                  · simp at hi; rw [← hi.2]; simp
                  · split at hi
                    · simp at hi; rw [← hi.2]; simp
                    · simp at hi
        | cont r' =>
          obtain ⟨wf', hm⟩ := iter_cont_measure E ops rank hp hops cap hcap r r' hwf hi
          have hnext : ∃ N, ∀ fuel, N ≤ fuel → (Reader.readLoop E cap fuel r').2 ≠ .livelock := by
            rcases hm with h1 | ⟨h1, h2⟩ | ⟨h1, h2, h3⟩
            · exact ihT r'.todo (by omega) r'.eofFlag (rank r'.enc) r' wf' rfl rfl rfl
            · exact ihF r'.eofFlag (by omega) (rank r'.enc) r' wf' (by omega) rfl rfl
            · exact ihR (rank r'.enc) (by omega) r' wf' (by omega) (by omega) rfl
          obtain ⟨N, hN⟩ := hnext
          refine ⟨N + 1, ?_⟩
          intro fuel hf
          obtain ⟨f, rfl⟩ : ∃ f, fuel = f + 1 := ⟨fuel - 1, by omega⟩
          simp only [Reader.readLoop, hi]
          exact hN f (by omega)
/-! ### what a successful `read` delivers -/

/-- the refill keeps the total -/
theorem Reader.fill_total (r : Reader σ) (h : r.WF) : r.fill.1.total = r.total := by
  obtain ⟨f1, f2, f3, f4, f5, f6, f7, f8, f9, f10, moved, newL, m1, m2, m3, m4, m5, m6⟩ := Reader.fill_spec r h
  simp only [Reader.total, f5, m1, m2, List.append_assoc]

/-- facts about an iteration that ends the call successfully -/
theorem iter_stop_ok (E : Enc σ) (cap : Nat) (r r' : Reader σ) (bs : Bytes) (h : r.WF)
    (hi : Reader.iter E cap r = .stop r' (.done (.ok bs))) :
    ∃ (r1 : Reader σ) (st : σ × EncAns), r.fill = (r1, none) ∧ st = E.step r1.enc r1.nextOp r1.window cap ∧
      st.2.consumed ≤ r1.window.length ∧ st.2.produced.length ≤ cap ∧ bs = st.2.produced ∧ st.2.ok = true ∧
      (E.isFinished st.1 = true ∨ bs ≠ []) ∧
      r'.WF ∧ r'.window = r1.window.drop st.2.consumed ∧ r'.enc = st.1 ∧
      r'.elog = ⟨r1.nextOp, r1.window, cap, st.2, E.hasMore st.1, E.isFinished st.1⟩ :: r1.elog ∧
      r'.src = r1.src ∧ r'.eof = r1.eof ∧ r'.errInvalid = r1.errInvalid ∧ r'.total = r1.total := by
  cases hfl : r.fill with
  | mk r1 o =>
    cases o with
    | some c => rw [iter_fill_err E cap r r1 c hfl] at hi; simp at hi
    | none =>
      rcases iter_cases E cap r r1 h hfl _ rfl with ⟨_, r2, h2⟩ | ⟨s1, s2, r3, k1, k2, k3, k4, k5, k6, k7, k8, k9, k10⟩
      · rw [h2] at hi; simp at hi
      · rw [k10] at hi
        unfold iterTail at hi
        split at hi
        · split at hi <;> simp at hi
        · next hok =>
          have hok' : (E.step r1.enc r1.nextOp r1.window cap).2.ok = true := by simpa using hok
          split at hi
          · next hfin =>
            simp only [RIter.stop.injEq, Out.done.injEq, Except.ok.injEq] at hi
            obtain ⟨h1, h2⟩ := hi
            subst h1 h2
            exact ⟨r1, _, rfl, rfl, s1, s2, rfl, hok', Or.inl hfin, k1, k2, k3, k4, k5, k6, k7, k9⟩
          · split at hi
            · next hp =>
              simp only [RIter.stop.injEq, Out.done.injEq, Except.ok.injEq] at hi
              obtain ⟨h1, h2⟩ := hi
              subst h1 h2
              refine ⟨r1, _, rfl, rfl, s1, s2, rfl, hok', Or.inr ?_, k1, k2, k3, k4, k5, k6, k7, k9⟩
              intro hnil; rw [hnil] at hp; simp at hp
            · simp at hi

/-- a successful `read`: the bytes returned are exactly what the encoder produced during the
call (only the last encoder call of a `read` produces anything), the wrapped reader did not
fail, nothing was lost or duplicated (`total`), the error value is still in stock -/
theorem readLoop_ok (E : Enc σ) (cap : Nat) : ∀ (fuel : Nat) (r r' : Reader σ) (bs : Bytes), r.WF →
    Reader.readLoop E cap fuel r = (r', .done (.ok bs)) →
    r'.WF ∧ r'.total = r.total ∧ r'.errInvalid = r.errInvalid ∧ r'.src.tail = r.src.tail ∧
    ∃ (newE : List ERec) (newL : List LogE),
      r'.elog = newE ++ r.elog ∧ emitted newE = bs ∧ newE ≠ [] ∧
      (∀ rc ∈ newE, rc.cap = cap ∧ rc.ans.ok = true ∧ rc.ans.produced.length ≤ cap) ∧
      (E.isFinished r'.enc = true ∨ bs ≠ []) ∧
      r'.src.log = newL ++ r.src.log ∧ (∀ e ∈ newL, ∀ c, e.res ≠ .err c) := by
  intro fuel
  induction fuel with
  | zero => intro r r' bs _ h; simp [Reader.readLoop] at h
  | succ fuel ih =>
    intro r r' bs hwf h
    simp only [Reader.readLoop] at h
    obtain ⟨f1, f2, f3, f4, f5, f6, f7, f8, f9, f10, moved, newL0, m1, m2, m3, m4, m5, m6⟩ := Reader.fill_spec r hwf
    have ftot := Reader.fill_total r hwf
    split at h
    · next r2 o hi =>
      simp only [Prod.mk.injEq] at h
      obtain ⟨h1, h2⟩ := h
      subst h1 h2
      obtain ⟨r1, st, hfl, hst, s1, s2, s3, s4, s5, k1, k2, k3, k4, k5, k6, k7, k8⟩ := iter_stop_ok E cap r _ bs hwf hi
      rw [hfl] at f5 f6 f8 m4 m6 ftot
      simp only at f5 f6 f8 m4 m6 ftot
      refine ⟨k1, by rw [k8, ftot], by rw [k7, f6], by rw [k5, f8], [⟨r1.nextOp, r1.window, cap, st.2, E.hasMore st.1, E.isFinished st.1⟩], newL0, by rw [k4, f5]; simp, by simp [emitted, s3], by simp, ?_, by rw [k3]; exact s5, by rw [k5, m4], m6 trivial⟩
      intro rc hrc; simp at hrc; subst hrc; exact ⟨rfl, s4, s2⟩
    · next r2 hi =>
      obtain ⟨r1, st, hfl, hst, s1, s2, s3, s4, k1, k2, k3, k4, k5, k6, k7, k8, k9⟩ := iter_cont E cap r r2 hwf hi
      rw [hfl] at f5 f6 f8 m4 m6 ftot
      simp only at f5 f6 f8 m4 m6 ftot
      obtain ⟨i1, i2, i3, i4, newE, newL, j1, j2, j3, j4, j5, j6, j7⟩ := ih r2 r' bs k1 h
      refine ⟨i1, by rw [i2, k9, ftot], by rw [i3, k7, f6], by rw [i4, k5, f8], newE ++ [⟨r1.nextOp, r1.window, cap, st.2, E.hasMore st.1, E.isFinished st.1⟩], newL ++ newL0, ?_, ?_, by simp, ?_, j5, ?_, ?_⟩
      · rw [j1, k4, f5]; simp
      · rw [emitted_append, j2]; simp [emitted, s2]
      · intro rc hrc
        rcases List.mem_append.mp hrc with h' | h'
        · exact j4 rc h'
        · simp at h'; subst h'; exact ⟨rfl, s3, by simp [s2]⟩
      · rw [j6, k5, m4]; simp
      · intro e he c
        rcases List.mem_append.mp he with h' | h'
        · exact j7 e h' c
        · exact m6 trivial e h' c
theorem readLoop_no_panic (E : Enc σ) (hs : EncSane E) (cap : Nat) : ∀ (fuel : Nat) (r : Reader σ), r.WF →
    r.errInvalid = true → (Reader.readLoop E cap fuel r).2 ≠ .panic := by
  intro fuel
  induction fuel with
  | zero => intro r _ _; simp [Reader.readLoop]
  | succ fuel ih =>
    intro r hwf harm
    simp only [Reader.readLoop]
    cases hi : Reader.iter E cap r with
    | cont r2 =>
      obtain ⟨r1, st, hfl, hst, s1, s2, s3, s4, k1, k2, k3, k4, k5, k6, k7, k8, k9⟩ := iter_cont E cap r r2 hwf hi
      have f6 := (Reader.fill_spec r hwf).2.2.2.2.2.1
      rw [hfl] at f6
      exact ih r2 k1 (by rw [k7, f6]; exact harm)
    | stop r2 o =>
      simp only
      cases hfl : r.fill with
      | mk r1 oo =>
        cases oo with
        | some c => rw [iter_fill_err E cap r r1 c hfl] at hi; simp at hi; rw [← hi.2]; simp
        | none =>
          have f6 := (Reader.fill_spec r hwf).2.2.2.2.2.1
          rw [hfl] at f6
          rcases iter_cases E cap r r1 hwf hfl _ rfl with ⟨hns, _⟩ | ⟨s1, s2, r3, k1, k2, k3, k4, k5, k6, k7, k8, k9, k10⟩
          · exact absurd ⟨hs.consumed_le _ _ _ _, hs.produced_le _ _ _ _⟩ hns
          · rw [k10] at hi
            unfold iterTail at hi
            have h3 : r3.errInvalid = true := by rw [k7, f6]; exact harm
            simp only [h3, if_true] at hi
            split at hi
            · simp at hi; rw [← hi.2]; simp
            · split at hi
              · simp at hi; rw [← hi.2]; simp
              · split at hi
                · simp at hi; rw [← hi.2]; simp
                · simp at hi
/-! ### the wrapped reader is only asked when the window is empty -/

/-- the reader's own buffer holds a COMPLETE load (or the source is at EOF, or nothing is left in
it): the state in which the refill loop does not touch the wrapped reader unless the window is empty -/
def Reader.Full (r : Reader σ) : Prop := r.eof = true ∨ r.inputLen = r.buf.length ∨ r.inputLen = r.inputOffset

theorem Reader.new_Full (b : Nat) (e : σ) (src : Source) : (Reader.new b e src).Full := Or.inr (Or.inr rfl)

/-- `read` never tops up a partially consumed buffer load: while bytes are waiting in the window the
refill loop makes no call on the wrapped reader and changes nothing but the access counter — so what
is offered to the encoder is always a suffix of one complete load of the own buffer (or of the last,
shorter, load before EOF), whatever sizes the caller reads with -/
theorem fill_no_top_up (r : Reader σ) (hwf : r.WF) (hF : r.Full) (hw : r.window ≠ []) :
    r.fill.2 = none ∧ r.fill.1.src = r.src ∧ r.fill.1.buf = r.buf ∧ r.fill.1.inputLen = r.inputLen ∧
    r.fill.1.inputOffset = r.inputOffset ∧ r.fill.1.eof = r.eof ∧ r.fill.1.window = r.window := by
  have hcond : ¬ (r.inputLen < r.buf.length ∧ r.eof = false) := by
    rcases hF with h | h | h
    · intro hh; rw [h] at hh; exact absurd hh.2 (by simp)
    · intro hh; omega
    · exfalso
      apply hw
      have := Reader.window_length r hwf
      exact List.eq_nil_of_length_eq_zero (by rw [this, h]; simp)
  have hfb : fillBuf r.buf r.inputLen r.eof r.src 0 = ⟨r.buf, r.inputLen, r.eof, r.src, none, 0⟩ := by
    rw [fillBuf]; rw [dif_neg hcond]
  unfold Reader.fill
  simp [hfb, Reader.window]

/-- every iteration whose refill went through leaves a complete load behind -/
theorem fill_ok_Full (r : Reader σ) (hwf : r.WF) (h : r.fill.2 = none) : r.fill.1.Full := by
  obtain ⟨wf1, _, f3, _, _, _, _, _, _, f10, _⟩ := Reader.fill_spec r hwf
  have := f10 h
  by_cases he : r.fill.1.eof = true
  · exact Or.inl he
  · right; left
    have he' : r.fill.1.eof = false := by simpa using he
    have h1 : ¬ r.fill.1.inputLen < r.buf.length := fun hh => this ⟨hh, he'⟩
    have h2 := wf1.2
    rw [f3] at h2 ⊢
    omega

/-- `copy_to_front` as `read` uses it — only once the window is empty — keeps the buffer "full or
empty"; called with bytes still waiting (as the pub method allows) it compacts them to the front and
the next refill tops the load up: that is why `read` guards the call with `avail_in == 0` -/
theorem copyToFront_Full (r r' : Reader σ) (hF : r.Full) (hempty : r.inputLen = r.inputOffset)
    (h : r.copyToFront = some r') : r'.Full := by
  unfold Reader.copyToFront at h
  split at h
  · simp at h
  · simp only at h
    split at h
    · simp only [Option.some.injEq] at h; subst h; exact Or.inr (Or.inr rfl)
    · split at h
      · split at h
        · simp at h
        · simp only [Option.some.injEq] at h; subst h
          right; right; simp [hempty]
      · simp only [Option.some.injEq] at h; subst h; exact hF

/-- after every successful `read` the own buffer is full-or-empty again: together with
`fill_no_top_up`, in any history of successful reads — with ANY caller read sizes — the wrapped reader
is only called when the window is empty, and every encoder input is a suffix of one buffer load -/
theorem readLoop_Full (E : Enc σ) (cap : Nat) : ∀ (fuel : Nat) (r r' : Reader σ) (bs : Bytes), r.WF →
    Reader.readLoop E cap fuel r = (r', .done (.ok bs)) → r'.Full := by
  intro fuel
  induction fuel with
  | zero => intro r r' bs _ h; simp [Reader.readLoop] at h
  | succ fuel ih =>
    intro r r' bs hwf h
    simp only [Reader.readLoop] at h
    split at h
    · next r2 o hi =>
      simp only [Prod.mk.injEq] at h
      obtain ⟨h1, h2⟩ := h
      subst h1 h2
      cases hfl : r.fill with
      | mk r1 oo =>
        cases oo with
        | some c => rw [iter_fill_err E cap r r1 c hfl] at hi; simp at hi
        | none =>
          have hF1 : r1.Full := by have := fill_ok_Full r hwf (by rw [hfl]); rw [hfl] at this; exact this
          rcases iter_cases E cap r r1 hwf hfl _ rfl with ⟨_, r2', h2⟩ | ⟨s1, s2, r3, k1, k2, k3, k4, k5, k6, k7, k8, k9, k10⟩
          · rw [h2] at hi; simp at hi
          · have hF3 : r3.Full := by
              rcases k8.2 with hw0 | hlen
              · right; right
                have := Reader.window_length r3 k1
                rw [hw0] at this; simp at this
                have := k1.1; omega
              · rcases hF1 with h1 | h1 | h1
                · exact Or.inl (by rw [k6]; exact h1)
                · exact Or.inr (Or.inl (by rw [hlen, k8.1]; exact h1))
                · -- the load was already used up: the window of r1 is empty, so is r3's
                  right; right
                  have hw1 := Reader.window_length r1 (by have := (Reader.fill_spec r hwf).1; rw [hfl] at this; exact this)
                  have hw3 := Reader.window_length r3 k1
                  rw [k2, List.length_drop, hw1, h1] at hw3
                  have := k1.1; omega
            rw [k10] at hi
            unfold iterTail at hi
            split at hi
            · split at hi <;> simp at hi
            · split at hi
              · simp only [RIter.stop.injEq] at hi; rw [← hi.1]; exact hF3
              · split at hi
                · simp only [RIter.stop.injEq] at hi; rw [← hi.1]; exact hF3
                · simp at hi
    · next r2 hi =>
      obtain ⟨r1, st, hfl, hst, s1, s2, s3, s4, k1, _⟩ := iter_cont E cap r r2 hwf hi
      exact ih r2 r' bs k1 h
end BV.Adapters
