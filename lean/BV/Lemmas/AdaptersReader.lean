import BV.Lemmas.AdaptersFill
import BV.Lemmas.AdaptersHyp
/-
C11, reader half: `CompressorReaderCustomIo::{read, copy_to_front}` over an arbitrary encoder
oracle and an arbitrary script of the wrapped reader.
-/
namespace BV.Adapters
variable {σ : Type}

/-- the cursor invariant of the reader's own buffer -/
def Reader.WF (r : Reader σ) : Prop := r.inputOffset ≤ r.inputLen ∧ r.inputLen ≤ r.buf.length

/-- the bytes read from the source and not yet consumed by the encoder -/
def Reader.window (r : Reader σ) : Bytes := (r.buf.take r.inputLen).drop r.inputOffset

/-- everything the reader has been given or can still get, in order: consumed by the encoder,
waiting in the buffer, still in the source -/
def Reader.total (r : Reader σ) : Bytes := fed r.elog ++ r.window ++ r.src.data

theorem Reader.window_length (r : Reader σ) (h : r.WF) : r.window.length = r.inputLen - r.inputOffset := by
  simp [Reader.window, List.length_drop, List.length_take]; have := h.1; have := h.2; omega

/-- what `read` offers to the encoder is exactly the window -/
theorem Reader.input_eq_window (r : Reader σ) (h : r.WF) :
    (r.buf.drop r.inputOffset).take (r.inputLen - r.inputOffset) = r.window := by
  unfold Reader.window
  rw [List.take_drop]
  congr 2
  have := h.1; omega

theorem Reader.new_WF (b : Nat) (e : σ) (src : Source) : (Reader.new b e src).WF := by
  simp [Reader.WF, Reader.new]

/-! ### `copy_to_front` -/

theorem copyToFront_spec (r : Reader σ) (h : r.WF) :
    ∃ r', r.copyToFront = some r' ∧ r'.WF ∧ r'.window = r.window ∧
      r'.inputLen - r'.inputOffset = r.inputLen - r.inputOffset ∧ r'.buf.length = r.buf.length ∧
      r'.enc = r.enc ∧ r'.elog = r.elog ∧ r'.src = r.src ∧ r'.eof = r.eof ∧
      r'.errInvalid = r.errInvalid ∧ r'.totalOut = r.totalOut := by
  obtain ⟨h1, h2⟩ := h
  unfold Reader.copyToFront
  rw [if_neg (by omega)]
  simp only
  split
  · next heq =>
    refine ⟨_, rfl, ⟨by simp, by simp⟩, ?_, by simp; omega, rfl, rfl, rfl, rfl, rfl, rfl, rfl⟩
    have hlen : r.inputLen = r.buf.length := by omega
    simp [Reader.window, hlen, heq]
  · next hne =>
    split
    · next hc =>
      have hsec : ¬ (r.buf.drop r.inputOffset).length < r.inputLen - r.inputOffset := by
        simp [List.length_drop]; omega
      rw [if_neg hsec]
      refine ⟨_, rfl, ⟨by simp, ?_⟩, ?_, by simp, ?_, rfl, rfl, rfl, rfl, rfl, rfl⟩
      · simp [List.length_take, List.length_drop]; omega
      · have hl : ((r.buf.drop r.inputOffset).take (r.inputLen - r.inputOffset)).length = r.inputLen - r.inputOffset := by
          simp [List.length_take, List.length_drop]; omega
        simp only [Reader.window, List.drop_zero]
        rw [List.take_append_of_le_length (by omega), List.take_of_length_le (by omega)]
        rw [List.take_drop]
        congr 2; omega
      · simp [List.length_take, List.length_drop]; omega
    · exact ⟨_, rfl, ⟨h1, h2⟩, rfl, rfl, rfl, rfl, rfl, rfl, rfl, rfl, rfl⟩

/-! ### the refill loop at reader level -/

theorem Reader.fill_spec (r : Reader σ) (h : r.WF) :
    r.fill.1.WF ∧ r.fill.1.inputOffset = r.inputOffset ∧ r.fill.1.buf.length = r.buf.length ∧
    r.fill.1.enc = r.enc ∧ r.fill.1.elog = r.elog ∧ r.fill.1.errInvalid = r.errInvalid ∧
    r.fill.1.totalOut = r.totalOut ∧ r.fill.1.src.tail = r.src.tail ∧
    (r.eof = true → r.fill.1.eof = true) ∧
    (r.fill.2 = none → ¬(r.fill.1.inputLen < r.buf.length ∧ r.fill.1.eof = false)) ∧
    ∃ (moved : Bytes) (newL : List LogE),
      r.fill.1.window = r.window ++ moved ∧ r.src.data = moved ++ r.fill.1.src.data ∧
      r.fill.1.inputLen = r.inputLen + moved.length ∧
      r.fill.1.src.log = newL ++ r.src.log ∧
      (∀ c, r.fill.2 = some c → ∃ e ∈ newL, e.res = .err c) ∧
      (r.fill.2 = none → ∀ e ∈ newL, ∀ c, e.res ≠ .err c) := by
  obtain ⟨f1, f2, f3, f4, f5, moved, newL, k1, k2, k3, k4, k5, k6⟩ := fillBuf_spec r.buf r.inputLen r.eof r.src 0 h.2
  refine ⟨⟨?_, ?_⟩, rfl, f1, rfl, rfl, rfl, rfl, f3, f4, f5, moved, newL, ?_, k3, k1, k4, ?_, k6⟩
  · show r.inputOffset ≤ (fillBuf r.buf r.inputLen r.eof r.src 0).len
    rw [k1]; have := h.1; omega
  · show (fillBuf r.buf r.inputLen r.eof r.src 0).len ≤ (fillBuf r.buf r.inputLen r.eof r.src 0).buf.length
    rw [f1]; exact f2
  · show ((fillBuf r.buf r.inputLen r.eof r.src 0).buf.take (fillBuf r.buf r.inputLen r.eof r.src 0).len).drop r.inputOffset = _
    rw [k2, Reader.window, List.drop_append_of_le_length]
    simp [List.length_take]; have := h.1; have := h.2; omega
  · intro c hc; exact ⟨_, k5 c hc, rfl⟩

/-! ### one iteration of `read` -/

/-- the encoder call of an iteration, described (for a well-formed state and a sane answer) -/
theorem afterStep_spec (E : Enc σ) (cap : Nat) (r1 : Reader σ) (h : r1.WF)
    (hc : (E.step r1.enc (if r1.inputLen - r1.inputOffset = 0 then Op.finish else Op.process) r1.window cap).2.consumed ≤ r1.window.length) :
    let op := if r1.inputLen - r1.inputOffset = 0 then Op.finish else Op.process
    let st := E.step r1.enc op r1.window cap
    let r2 := r1.afterStep E cap
    r2.WF ∧ r2.window = r1.window.drop st.2.consumed ∧ r2.enc = st.1 ∧
    r2.elog = ⟨op, r1.window, cap, st.2, E.hasMore st.1, E.isFinished st.1⟩ :: r1.elog ∧
    r2.src = r1.src ∧ r2.eof = r1.eof ∧ r2.errInvalid = r1.errInvalid ∧ r2.buf = r1.buf ∧
    r2.inputLen = r1.inputLen ∧ r2.inputOffset = r1.inputOffset + st.2.consumed ∧ r2.total = r1.total := by
  intro op st r2
  have hw := Reader.input_eq_window r1 h
  have hwl := Reader.window_length r1 h
  have e_in : (r1.buf.drop r1.inputOffset).take (r1.inputLen - r1.inputOffset) = r1.window := hw
  have hr2 : r2 = { r1 with enc := st.1, elog := ⟨op, r1.window, cap, st.2, E.hasMore st.1, E.isFinished st.1⟩ :: r1.elog, bufAcc := r1.bufAcc + 1, inputOffset := r1.inputOffset + st.2.consumed, totalOut := if st.2.produced.length > 0 then st.2.tot else r1.totalOut } := by
    show r1.afterStep E cap = _
    simp only [Reader.afterStep, e_in]
    rfl
  have hcc : st.2.consumed ≤ r1.inputLen - r1.inputOffset := by rw [← hwl]; exact hc
  have hwin : r2.window = r1.window.drop st.2.consumed := by
    rw [hr2]; simp only [Reader.window, List.drop_drop]
  refine ⟨?_, hwin, by rw [hr2], by rw [hr2], by rw [hr2], by rw [hr2], by rw [hr2], by rw [hr2], by rw [hr2], by rw [hr2], ?_⟩
  · rw [hr2]; exact ⟨by simp; have := h.1; omega, h.2⟩
  · have hs : r2.src = r1.src := by rw [hr2]
    have he : r2.elog = ⟨op, r1.window, cap, st.2, E.hasMore st.1, E.isFinished st.1⟩ :: r1.elog := by rw [hr2]
    simp only [Reader.total, hwin, hs, he, fed_cons, List.append_assoc]
    rw [← List.append_assoc (r1.window.take st.2.consumed), List.take_append_drop]
end BV.Adapters
