/-
C01 / fragment writers, part 4: the command loop of the two-pass `StoreCommands` simulates the RFC 7932 command
loop `readCommands` on every command / literal buffer accepted by `replayQ1` (induction over the RFC commands:
insert code + literals [+ distance code], copy code with implied distance, copy code + distance code).
-/
import BV.Lemmas.FragmentCmd
namespace BV.Fragment
open BV.Bits BV.MetaBlock BV.Huffman BV.PrefixArith BV.Recoder
open BV.Lemmas.HuffmanRead (takeBits_bitsOf)

theorem storeCmdLoop_sim (wo : WordOracle) (window mlen : Nat) (litD litB cmdD cmdB : List Nat)
    (litC cmdC distC : Code) :
    ∀ (f : Nat) (cmds lits : List Nat) (done : Nat) (st fin : RdSt) (s : Sto),
      replayGo wo window mlen f cmds lits done st = some fin →
      (∀ b ∈ lits, SymOK litD litB litC b b) →
      (∀ c ∈ cmds, c % 256 < 64 → SymOK cmdD cmdB cmdC (c % 256) (q1Symbol (c % 256))) →
      (∀ c ∈ cmds, 64 ≤ c % 256 → SymOK cmdD cmdB distC (c % 256) (c % 256 - 64)) →
      Good s → (s.ix + 81 * cmds.length + 57 * lits.length) / 8 + 8 ≤ s.bytes.size →
      ∃ s' db, storeCmdLoop litD litB cmdD cmdB cmds lits s = .ok s' ∧ Wr s s' db ∧
        ∀ rest f', f ≤ f' →
          readCommands wo window 0 0 litC cmdC distC mlen f' done st (db ++ rest) = some (fin, rest) := by
  intro f
  induction f with
  | zero => intro cmds lits done st fin s hrep; simp [replayGo] at hrep
  | succ f ih =>
  intro cmds lits done st fin s hrep hlit hcmd hdist hg hr
  cases cmds with
  | nil =>
    simp only [replayGo] at hrep
    by_cases hc : lits.isEmpty ∧ done = mlen
    · rw [if_pos hc] at hrep
      injection hrep with hrep
      refine ⟨s, [], by rw [storeCmdLoop], Wr.refl s hg, ?_⟩
      intro rest f' hf
      obtain ⟨f'', rfl⟩ : ∃ f'', f' = f'' + 1 := ⟨f' - 1, by omega⟩
      simp [readCommands, hc.2, hrep]
    · rw [if_neg hc] at hrep; cases hrep
  | cons cmd cs =>
    simp only [List.length_cons] at hr
    simp only [replayGo] at hrep
    cases hstep : stepQ1 wo window mlen cmd cs lits done st with
    | none => rw [hstep] at hrep; cases hrep
    | some res =>
    rw [hstep] at hrep
    unfold stepQ1 at hstep
    simp only [] at hstep
    by_cases hbad : cmd % 256 ≥ 64 ∨ cmd % 256 = 0 ∨ cmd % 256 = 40 ∨
        cmd / 256 ≥ 2 ^ kNumExtraBits.getD (cmd % 256) 0 ∨ done ≥ mlen
    · rw [if_pos hbad] at hstep; cases hstep
    rw [if_neg hbad] at hstep
    have hc64 : cmd % 256 < 64 := by omega
    have hex : cmd / 256 < 2 ^ kNumExtraBits.getD (cmd % 256) 0 := by omega
    have hdone : done < mlen := by omega
    have htab := tab_all (cmd % 256) hc64
    unfold tabOK at htab
    cases hti : rfcInsTable[(rfcCmdDecode (q1Symbol (cmd % 256))).1]? with
    | none => rw [hti] at htab; simp at htab
    | some ibie =>
    cases htc : rfcCopyTable[(rfcCmdDecode (q1Symbol (cmd % 256))).2.1]? with
    | none => rw [hti, htc] at htab; simp at htab
    | some cbce =>
    obtain ⟨ib, ie⟩ := ibie
    obtain ⟨cb, ce⟩ := cbce
    rw [hti, htc] at htab hstep
    simp only [Bool.and_eq_true, decide_eq_true_eq] at htab
    obtain ⟨⟨hsym704, hne24⟩, htab⟩ := htab
    simp only [] at hstep
    have hsymOK := hcmd cmd (by simp) hc64
    -- the insert half: both kinds of code
    obtain ⟨ins, cl, s1, pre, hinsl, hinsm, hloop, hw1, hix1, hRI, hstep'⟩ : ∃ ins cl s1 pre,
        ins ≤ lits.length ∧ ins ≤ mlen - done ∧
        storeCmdLoop litD litB cmdD cmdB (cmd :: cs) lits s
          = storeCmdLoop litD litB cmdD cmdB cs (lits.drop ins) s1 ∧
        Wr s s1 pre ∧ s1.ix ≤ s.ix + 80 + 56 * ins ∧
        (∀ rest, readInsert litC cmdC mlen done st.out (pre ++ rest)
          = some (ins, cl, (rfcCmdDecode (q1Symbol (cmd % 256))).2.2, st.out ++ lits.take ins, rest)) ∧
        stepTail wo window mlen (rfcCmdDecode (q1Symbol (cmd % 256))).2.2 cs (lits.drop ins) (done + ins) cl
          (st.out ++ lits.take ins) st.ring = some res := by
      by_cases h24 : cmd % 256 < 24
      · simp only [h24, if_true, Bool.and_eq_true, beq_iff_eq, decide_eq_true_eq] at htab hstep
        obtain ⟨⟨⟨⟨hie, hce⟩, hib⟩, hib2⟩, hol⟩ := htab
        subst hie hce
        by_cases hover : ib + cmd / 256 > lits.length ∨ ib + cmd / 256 > mlen - done
        · rw [if_pos hover] at hstep; cases hstep
        rw [if_neg hover] at hstep
        obtain ⟨s1, lb, hloop, hw1, hix1, hrl⟩ := loop_step_ins litD litB cmdD cmdB cmdC litC cmd _ cs lits s h24 hsymOK
          hne24 hex (by rw [← hib]; exact hib2) hol (by rw [← hib]; omega) hlit hg (by rw [← hib]; omega)
        rw [← hib] at hloop hix1 hrl
        refine ⟨ib + cmd / 256, cb, s1, _, by omega, by omega, hloop, hw1, hix1, ?_, hstep⟩
        intro rest
        unfold readInsert
        simp only [List.append_assoc]
        rw [hsymOK.rd]
        simp only []
        rw [if_neg (by omega), hti, htc]
        simp only []
        rw [takeBits_bitsOf _ _ _ hex]
        simp only []
        rw [takeBits_zero]
        simp only [Nat.add_zero]
        rw [if_neg (by omega), hrl]
        simp
      · simp only [h24, if_false, Bool.and_eq_true, beq_iff_eq] at htab hstep
        obtain ⟨⟨hie, hce⟩, hib⟩ := htab
        subst hie hce hib
        have hover : ¬ (0 > lits.length ∨ 0 > mlen - done) := by omega
        rw [if_neg hover] at hstep
        obtain ⟨s1, hloop, hw1, hix1⟩ := loop_step_plain litD litB cmdD cmdB cmdC cmd _ cs lits s (by omega) (by omega)
          hsymOK hne24 hex hg (by omega)
        refine ⟨0, cb + cmd / 256, s1, _, by omega, by omega, by simpa using hloop, hw1, by omega, ?_, hstep⟩
        intro rest
        unfold readInsert
        simp only [List.append_assoc]
        rw [hsymOK.rd]
        simp only []
        rw [if_neg (by omega), hti, htc]
        simp only []
        rw [takeBits_zero]
        simp only []
        rw [takeBits_bitsOf _ _ _ hex]
        simp only [Nat.add_zero]
        rw [if_neg (by omega)]
        simp [readLiterals]
    have hlit' : ∀ b ∈ lits.drop ins, SymOK litD litB litC b b := fun b hb => hlit b (List.mem_of_mem_drop hb)
    have hdl : (lits.drop ins).length = lits.length - ins := List.length_drop
    unfold stepTail at hstep'
    by_cases hfin : done + ins = mlen
    · -- the insert completes the meta-block
      rw [if_pos hfin] at hstep'
      by_cases hemp : cs.isEmpty ∧ (lits.drop ins).isEmpty
      · rw [if_pos hemp] at hstep'
        injection hstep' with hstep'
        subst hstep'
        simp only [] at hrep
        injection hrep with hrep
        have hcs : cs = [] := by simpa using hemp.1
        subst hcs
        refine ⟨s1, pre, by rw [hloop, storeCmdLoop], hw1, ?_⟩
        intro rest f' hf
        obtain ⟨f'', rfl⟩ : ∃ f'', f' = f'' + 1 := ⟨f' - 1, by omega⟩
        rw [readCommands, if_neg (by omega), hRI]
        simp only []
        rw [if_pos hfin, hrep]
      · rw [if_neg hemp] at hstep'; cases hstep'
    rw [if_neg hfin] at hstep'
    by_cases himp : (rfcCmdDecode (q1Symbol (cmd % 256))).2.2 = true
    · -- implicit distance symbol 0
      rw [if_pos himp] at hstep'
      cases hac : applyCopy wo window 0 0 mlen (done + ins) cl (st.out ++ lits.take ins) st.ring 0 0 with
      | none => rw [hac] at hstep'; cases hstep'
      | some nst =>
      obtain ⟨n, st'⟩ := nst
      rw [hac] at hstep'
      injection hstep' with hstep'
      subst hstep'
      simp only [] at hrep
      obtain ⟨s2, db2, e2, w2, r2⟩ := ih cs (lits.drop ins) (done + ins + n) st' fin s1 hrep hlit'
        (fun c hc => hcmd c (List.mem_cons_of_mem _ hc)) (fun c hc => hdist c (List.mem_cons_of_mem _ hc))
        hw1.good (by rw [hdl, hw1.size]; omega)
      refine ⟨s2, pre ++ db2, by rw [hloop, e2], hw1.trans w2, ?_⟩
      intro rest f' hf
      obtain ⟨f'', rfl⟩ : ∃ f'', f' = f'' + 1 := ⟨f' - 1, by omega⟩
      rw [readCommands, if_neg (by omega), List.append_assoc, hRI]
      simp only []
      rw [if_neg hfin]
      unfold readCopy
      rw [himp]
      simp only [if_true, show (0 : Nat) < 16 + 0 by decide, takeBits_zero, hac]
      exact r2 rest f'' (by omega)
    · -- explicit distance: the next command word is a distance code
      rw [if_neg himp] at hstep'
      cases cs with
      | nil => simp at hstep'
      | cons dcmd cs' =>
      simp only [] at hstep'
      by_cases hdbad : dcmd % 256 < 64 ∨ dcmd % 256 ≥ 128 ∨ dcmd / 256 ≥ 2 ^ kNumExtraBits.getD (dcmd % 256) 0
      · rw [if_pos hdbad] at hstep'; cases hstep'
      rw [if_neg hdbad] at hstep'
      cases hac : applyCopy wo window 0 0 mlen (done + ins) cl (st.out ++ lits.take ins) st.ring (dcmd % 256 - 64)
          (dcmd / 256) with
      | none => rw [hac] at hstep'; cases hstep'
      | some nst =>
      obtain ⟨n, st'⟩ := nst
      rw [hac] at hstep'
      injection hstep' with hstep'
      subst hstep'
      simp only [] at hrep
      obtain ⟨hdn, hdne⟩ := dist_all (dcmd % 256) (by omega) (by omega)
      have hdsym := hdist dcmd (by simp) (by omega)
      simp only [List.length_cons] at hr
      obtain ⟨s2, hloop2, hw2, hix2⟩ := loop_step_plain litD litB cmdD cmdB distC dcmd _ cs' (lits.drop ins) s1
        (by omega) (by omega) hdsym hdne (by omega) hw1.good (by rw [hw1.size]; omega)
      obtain ⟨s3, db3, e3, w3, r3⟩ := ih cs' (lits.drop ins) (done + ins + n) st' fin s2 hrep hlit'
        (fun c hc => hcmd c (List.mem_cons_of_mem _ (List.mem_cons_of_mem _ hc)))
        (fun c hc => hdist c (List.mem_cons_of_mem _ (List.mem_cons_of_mem _ hc)))
        hw2.good (by rw [hdl, hw2.size, hw1.size]; omega)
      refine ⟨s3, pre ++ ((bitsOf (cmdD.getD (dcmd % 256) 0) (cmdB.getD (dcmd % 256) 0) ++
        bitsOf (kNumExtraBits.getD (dcmd % 256) 0) (dcmd / 256)) ++ db3), by rw [hloop, hloop2, e3],
        hw1.trans (hw2.trans w3), ?_⟩
      intro rest f' hf
      obtain ⟨f'', rfl⟩ : ∃ f'', f' = f'' + 1 := ⟨f' - 1, by omega⟩
      rw [readCommands, if_neg (by omega), List.append_assoc, hRI]
      simp only []
      rw [if_neg hfin]
      unfold readCopy
      have himp' : (rfcCmdDecode (q1Symbol (cmd % 256))).2.2 = false := by simpa using himp
      rw [himp']
      simp only [Bool.false_eq_true, if_false, List.append_assoc]
      rw [hdsym.rd]
      simp only []
      rw [hdn, takeBits_bitsOf _ _ _ (by omega)]
      simp only [hac]
      exact r3 rest f'' (by omega)

end BV.Fragment
