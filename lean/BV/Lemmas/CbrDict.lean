import BV.Lemmas.CbrGood
import BV.Lemmas.RecoderAux
/-! The per-command obligation for static-dictionary references, under the word-oracle hypothesis `SlotOK`. -/
namespace BV.Cbr
open BV.Hasher BV.MatchFinder BV.Recoder BV.PrefixArith BV.MetaBlock

/-- the transform id `TestStaticDictionaryItem` emits for "omit the last `cut` bytes" -/
def cutoffTransform (cut : Nat) : Nat := (cut <<< 2) + ((kCutoffTransforms >>> (cut * 6)) &&& 0x3f)

/-- **what the static dictionary and the decoder's word oracle must satisfy** for a looked-up slot
`d` (`item = len | index << 5`, `size_bits`, the `len` bytes of the word): the word length is one
the format has (4..24), `size_bits` is the decoder's NDBITS for that length and the index fits in
it, the slot carries the whole word, and the decoder's expansion of (length, index, cut-off
transform for `cut`) is the word without its last `cut` bytes — for every `cut < 10`. -/
def SlotOK (wo : WordOracle) (d : DictItem) : Prop :=
  4 ≤ (d.item &&& 0x1f) ∧ (d.item &&& 0x1f) ≤ 24 ∧
  d.sizeBits = dictSizeBits.getD (d.item &&& 0x1f) 0 ∧ d.item >>> 5 < 2 ^ d.sizeBits ∧
  (d.item &&& 0x1f) ≤ d.word.length ∧
  ∀ cut, cut < 10 → cut < (d.item &&& 0x1f) →
    wo (d.item &&& 0x1f) (d.item >>> 5) (cutoffTransform cut) = some (d.word.take ((d.item &&& 0x1f) - cut))

/-- the hypothesis on the static-dictionary lookup `dict` (hash of the 4 bytes at `cm` → the one or
two slots `SearchInStaticDictionary` probes): every non-empty slot it ever returns is `SlotOK` -/
def DictFaithful (wo : WordOracle) (dict : ByteArray → Nat → Option (List DictItem)) (data : ByteArray) : Prop :=
  ∀ cm items, dict data cm = some items → ∀ d ∈ items, d.item ≠ 0 → SlotOK wo d

/-- with the dictionary switched off nothing is assumed -/
theorem dictFaithful_none (wo : WordOracle) (data : ByteArray) : DictFaithful wo (fun _ _ => none) data :=
  fun _ _ hi => by cases hi

theorem xor_cancel (a b : Nat) : a ^^^ (b ^^^ a) = b := by
  rw [Nat.xor_comm b a, ← Nat.xor_assoc, Nat.xor_self, Nat.zero_xor]

/-- **a dictionary reference found at `pos` becomes a command the RFC decoder expands to the input** -/
theorem emit_dict (w : WordOracle) (window md : Nat) (large : Bool)
    (data : ByteArray) (k tail : Nat) (hist mb : Bytes) (lo : Nat)
    (hv : RingView data k tail (hist ++ mb) lo (hist.length + mb.length)) (htail : tail ≤ 2 ^ k)
    (hmt : mb.length ≤ tail)
    (d : DecSt) (hout : d.out = hist ++ mb.take d.cursor)
    (pos ins : Nat) (hpos : pos = hist.length + d.cursor + ins) (hlo : lo ≤ pos) (sr : SR)
    (c0 c1 c2 c3 : Int) (rest : List Int) (hring : d.ring = [c0, c1, c2, c3])
    (hc : CacheI32 (c0 :: c1 :: c2 :: c3 :: rest))
    (hins : ins ≤ 2 ^ 24) (hwin : window ≤ 2 ^ 30)
    (hstd : large = false → md ≤ 2 ^ 26 - 4)
    (ml : Nat) (hml : pos + ml = hist.length + mb.length)
    (items : List DictItem) (hslot : ∀ x ∈ items, x.item ≠ 0 → SlotOK w x)
    (hd : DictOK items data (pos % 2 ^ k) ml (min pos window) md sr) :
    ∃ cmd, emitCommand 0 0 pos window ins sr (c0 :: c1 :: c2 :: c3 :: rest) = some (cmd, c0 :: c1 :: c2 :: c3 :: rest) ∧
      decStep w 0 0 window mb d cmd
        = some ⟨hist ++ mb.take (d.cursor + ins + sr.len), [c0, c1, c2, c3], d.cursor + ins + sr.len⟩ ∧
      cmd.insertLen = ins ∧ copyLen cmd = sr.len ∧ sr.len ≠ 0 ∧
      cmdOK (distAlphabetSize large 0 0) 0 0 cmd = true := by
  obtain ⟨x, hx, h1, h2, h3, h4, h5, h6, h7, h8, h9, h10⟩ := hd
  have hitem : x.item ≠ 0 := by intro hz; rw [hz] at h2; simp at h2; omega
  obtain ⟨s1, s2, s3, s4, s5, s6⟩ := hslot x hx hitem
  generalize hL : x.item &&& 0x1f = L at *
  generalize hI : x.item >>> 5 = idx at *
  have hU : U64 = 18446744073709551616 := rfl
  have hbits : x.sizeBits ≤ 11 := by rw [s3]; exact dictSizeBits_le L
  have hcut : L - sr.len < 10 := h5
  have htid : cutoffTransform (L - sr.len) < 100 := by
    unfold cutoffTransform
    have : (kCutoffTransforms >>> ((L - sr.len) * 6)) &&& 0x3f ≤ 0x3f := Nat.and_le_right
    rw [Nat.shiftLeft_eq]; omega
  have hpow : 2 ^ x.sizeBits ≤ 2 ^ 11 := Nat.pow_le_pow_right (by decide) hbits
  have hshift : cutoffTransform (L - sr.len) <<< x.sizeBits = cutoffTransform (L - sr.len) * 2 ^ x.sizeBits :=
    Nat.shiftLeft_eq _ _
  have hprod : cutoffTransform (L - sr.len) * 2 ^ x.sizeBits ≤ 100 * 2 ^ 11 :=
    Nat.mul_le_mul (Nat.le_of_lt htid) hpow
  have hmin : min pos window ≤ window := Nat.min_le_right _ _
  -- the distance, without the wrap
  have hdist : sr.distance = min pos window + idx + 1 + cutoffTransform (L - sr.len) * 2 ^ x.sizeBits := by
    rw [h7]
    show (min pos window + idx + 1 + cutoffTransform (L - sr.len) <<< x.sizeBits) % U64 = _
    rw [hshift]; exact Nat.mod_eq_of_lt (by omega)
  have hgt : sr.distance > min pos window := by omega
  -- the distance code
  obtain ⟨code, hcode, _, hcd, hrfc⟩ := computeDistanceCode_sound 0 0 sr.distance (min pos window) c0 c1 c2 c3 rest
    (by omega) (by omega) hc
  have hcode15 : code = sr.distance + 15 := hcd hgt
  have hxor : sr.len ^^^ sr.lenXCode = sr.len + (L - sr.len) := by
    rw [h6, xor_cancel]; omega
  have hemit : emitCommand 0 0 pos window ins sr (c0 :: c1 :: c2 :: c3 :: rest)
      = some (commandInit 0 0 ins sr.len (sr.len + (L - sr.len)) code, c0 :: c1 :: c2 :: c3 :: rest) := by
    unfold emitCommand
    simp only [hcode, hxor]
    rw [if_neg (by omega)]
  have hlenlt : sr.len < 2 ^ 25 := by omega
  obtain ⟨f1, f2, f3, f4⟩ := commandInit_fields 0 0 ins sr.len code (by omega) (by omega) (by omega) (by omega) hlenlt
    (L - sr.len) (by omega)
  have hcl : sr.len + (L - sr.len) = L := by omega
  have g1 := copyLen_commandInit 0 0 ins sr.len (L - sr.len) code hlenlt (by omega)
  have g2 := cmdOK_commandInit large ins sr.len (L - sr.len) code hins hlenlt (by omega) (by omega) (by omega) (by omega)
      (fun hl => by have := hstd hl; omega)
  generalize commandInit 0 0 ins sr.len (sr.len + (L - sr.len)) code = cmd at hemit f1 f2 f3 f4 g1 g2
  refine ⟨cmd, hemit, ?_, f1, g1, by omega, g2⟩
  -- the decoder
  have hlenout : d.out.length = hist.length + d.cursor := by
    rw [hout, List.length_append, List.length_take]; omega
  have htake : ((mb.drop d.cursor).take ins).length = ins := by
    rw [List.length_take, List.length_drop]; omega
  have hword : x.word.take (L - (L - sr.len)) = (mb.drop (d.cursor + ins)).take sr.len := by
    rw [show L - (L - sr.len) = sr.len by omega]
    apply List.ext_getElem
    · rw [List.length_take, List.length_take, List.length_drop]; omega
    · intro j hj1 hj2
      have hj : j < sr.len := by rw [List.length_take] at hj1; omega
      have hr := hv.at htail pos j (by omega) (by omega)
        (by have := Nat.mod_lt pos (Nat.pow_pos (n := k) (show 0 < 2 by decide)); omega)
      rw [h10 j hj] at hr
      rw [List.getElem_take, List.getElem_take, List.getElem_drop]
      have e1 : x.word.getD j 0 = x.word[j]'(by omega) := by
        rw [List.getD_eq_getElem?_getD, List.getElem?_eq_getElem (by omega)]; rfl
      have e2 : (hist ++ mb).getD (pos + j) 0 = mb[d.cursor + ins + j]'(by omega) := by
        rw [List.getD_eq_getElem?_getD, List.getElem?_append_right (by omega),
          List.getElem?_eq_getElem (by omega)]
        simp only [Option.getD_some]
        congr 1; omega
      rw [← e1, hr, e2]
  unfold decStep
  simp only [f1, f2, f3, f4, hring, hrfc]
  rw [hcl]
  have hrem : ¬ (mb.length - d.cursor = 0) := by omega
  have hinsle : ¬ (ins > mb.length - d.cursor) := by omega
  have hcur : ¬ (d.cursor + ins = mb.length) := by omega
  rw [if_neg hrem, if_neg hinsle, if_neg hcur]
  have hposn : ¬ ((sr.distance : Int) ≤ 0) := by omega
  rw [if_neg hposn]
  simp only [Int.toNat_natCast, List.length_append, htake, hlenout]
  rw [show hist.length + d.cursor + ins = pos by omega]
  rw [if_neg (by omega), if_neg (by omega)]
  -- the word id splits into index and transform
  have hwid : sr.distance - min pos window - 1 = idx + cutoffTransform (L - sr.len) * 2 ^ x.sizeBits := by omega
  rw [hwid, ← s3, Nat.add_mul_mod_self_right, Nat.mod_eq_of_lt s4, Nat.add_mul_div_right _ _ (Nat.pow_pos (by decide)),
    Nat.div_eq_of_lt s4, Nat.zero_add, s6 (L - sr.len) hcut (by omega), hword]
  simp only []
  have hwl : ((mb.drop (d.cursor + ins)).take sr.len).length = sr.len := by
    rw [List.length_take, List.length_drop]; omega
  rw [hwl, if_neg (by omega)]
  congr 2
  rw [hout, List.append_assoc, List.append_assoc]
  congr 1
  rw [← List.append_assoc, ← List.take_add, ← List.take_add (i := d.cursor + ins)]

/-- **the per-command obligation, copies and dictionary references**: with the ring buffer holding
the text and the looked-up dictionary slots agreeing with the decoder's word oracle (`SlotOK`), every
sound search result becomes a command the RFC decoder executes to the input bytes, and the
command is `cmdOK` -/
theorem emitHyp_all (C : Ctx) (p : Params) (large : Bool) (hnp : p.npostfix = 0) (hnd : p.ndirect = 0) (tail : Nat)
    (hv : RingView C.data C.k tail (C.hist ++ C.mb) C.lo (C.hist.length + C.mb.length))
    (htail : tail ≤ 2 ^ C.k) (hmt : C.mb.length ≤ tail)
    (hlo : C.lo ≤ C.hist.length - maxBackwardLimit p)
    (hwin : maxBackwardLimit p ≤ 2 ^ 30) (hstd : large = false → maxBackwardLimit p ≤ 2 ^ 26 - 4)
    (hmd : large = false → p.maxDistance ≤ 2 ^ 26 - 4)
    (hmb : C.mb.length ≤ 2 ^ 24) :
    EmitHyp (SlotOK C.w) C p (fun c => cmdOK (distAlphabetSize large 0 0) 0 0 c = true) := by
  intro d pos ins sr cache hout hpos hlt hring hc hcl hs
  rcases hs with hcopy | ⟨items, hslot, hd⟩
  · exact emitHyp_copy C p large hnp hnd tail hv htail hmt hlo (by omega) hstd hmb d pos ins sr cache hout hpos hlt hring hc hcl
      (Or.inl hcopy)
  · obtain ⟨c0, c1, c2, c3, rest, rfl⟩ : ∃ c0 c1 c2 c3 rest, cache = c0 :: c1 :: c2 :: c3 :: rest := by
      match cache, hcl with
      | c0 :: c1 :: c2 :: c3 :: rest, _ => exact ⟨c0, c1, c2, c3, rest, rfl⟩
    obtain ⟨cmd, he, hds, hi, hcp, hne, hok⟩ := emit_dict C.w (maxBackwardLimit p) p.maxDistance large C.data C.k tail
      C.hist C.mb C.lo hv htail hmt d hout pos ins hpos (by omega) sr c0 c1 c2 c3 rest (by simpa using hring) hc (by omega) hwin
      hmd (C.hist.length + C.mb.length - pos) (by omega) items hslot hd
    unfold EmitGood
    rw [hnp, hnd]
    exact ⟨cmd, _, _, he, hds, by simp only [], by simp only [], by simp only [List.take_succ_cons, List.take_zero], hc, hcl, hi, hcp, hne, hok⟩

/-! ### a concrete instance (non-vacuity of `SlotOK`, `DictFaithful`, `RingView`, and a run that emits a
dictionary reference) -/
namespace Example

def text : List Nat :=
  [1,2,3,4,5,6,7,8, 116,105,109,101,9,10,11,12, 13,14,15,16,17,18,19,20, 21,22,23,24,25,26,27,28]
/-- what `RingBufferWrite` leaves after 32 bytes of a first lap: ring of 64 bytes (32 written),
the 32-byte tail NOT filled (first-lap bytes are not mirrored), 7 slack bytes, all zero -/
def data : ByteArray := ⟨((text ++ List.replicate 71 0).map (fun n => UInt8.ofNat n)).toArray⟩
def hasher : BasicP := ⟨2, fun w => (w.getD 0 0 + 3 * w.getD 1 0) % 16⟩
def params : Params := ⟨5, 10, 67108860, 0, 0⟩
/-- word 5 of length 4, "time" -/
def slot : DictItem := ⟨4 ||| (5 <<< 5), 10, [116, 105, 109, 101]⟩
def oracle : WordOracle := fun len idx tid =>
  if len = 4 ∧ idx = 5 then
    (if tid = 0 then some [116, 105, 109, 101] else if tid = 12 then some [116, 105, 109]
     else if tid = 27 then some [116, 105] else if tid = 23 then some [116] else none)
  else none
def dict : ByteArray → Nat → Option (List DictItem) := fun _ cm => some [if cm = 8 then slot else ⟨0, 0, []⟩]

theorem slot_ok : SlotOK oracle slot := by
  unfold SlotOK
  refine ⟨by decide, by decide, by decide, by decide, by decide, ?_⟩
  have : ∀ cut, cut < 10 → cut < (slot.item &&& 0x1f) →
      oracle (slot.item &&& 0x1f) (slot.item >>> 5) (cutoffTransform cut)
        = some (slot.word.take ((slot.item &&& 0x1f) - cut)) := by
    decide +kernel
  exact this

theorem dict_ok : DictFaithful oracle dict data := by
  intro cm items h d hd hne
  simp only [dict, Option.some.injEq] at h
  subst h
  simp only [List.mem_singleton] at hd
  subst hd
  by_cases hc : cm = 8
  · rw [if_pos hc]; exact slot_ok
  · rw [if_neg hc] at hne; exact absurd rfl hne

theorem ring_ok : RingView data 6 32 ([] ++ text) 0 (0 + 32) := by
  refine ⟨?_, ?_⟩
  · intro p _ hp
    have : ∀ p, p < 32 → ringBytes data (p % 2 ^ 6) = ([] ++ text).getD p 0 := by decide +kernel
    exact this p hp
  · intro p _ hp h64
    exact absurd h64 (by omega)

/-- the run: 8 literals, then the dictionary word at distance `8 + 5 + 1 = 14` beyond the 8 bytes of
history, then 20 pending literals -/
theorem run : (createBackwardReferences (basicOps hasher true 540 dict data (2 ^ 6 - 1)) params 32 0
    (Array.replicate 32 0, ⟨0, 0⟩) [4, 11, 15, 16] 0 0).map (fun r => (r.cmds, r.lastInsertLen, r.cache))
    = some ([⟨8, 4, 1, 186, 3092⟩], 20, [4, 11, 15, 16]) := by decide +kernel

end Example

end BV.Cbr
