/-
The beginning of a stream (`BV.Header.streamStart`): every writer only appends,
so the stream begins with the window bits; with `magic_number` the magic block
follows immediately.
-/
import BV.Lemmas.Header
import BV.Lemmas.HeaderMagic
namespace BV.Header
open BV.Bits BV.HeaderSpec BV.Bits.Out

theorem bind_eq_ok {α β : Type} (x : Out α) (f : α → Out β) (b : β) :
    (x >>= f) = ok b ↔ ∃ a, x = ok a ∧ f a = ok b := by
  cases x <;> simp

theorem obind_eq_ok {α β : Type} (x : Out α) (f : α → Out β) (b : β) :
    x.bind f = ok b ↔ ∃ a, x = ok a ∧ f a = ok b := by
  cases x <;> simp [Out.bind]

/-- `w'` extends `w` -/
def Ext (w w' : Writer) : Prop := ∃ t, w' = w ++ t

theorem Ext.refl (w : Writer) : Ext w w := ⟨[], by simp⟩
theorem Ext.trans {a b c : Writer} (h1 : Ext a b) (h2 : Ext b c) : Ext a c := by
  obtain ⟨t1, rfl⟩ := h1; obtain ⟨t2, rfl⟩ := h2; exact ⟨t1 ++ t2, by simp⟩
theorem Ext.append (w t : Writer) : Ext w (w ++ t) := ⟨t, rfl⟩

theorem writeBits_ext {n v : Nat} {w w' : Writer} (h : writeBits n v w = ok w') : Ext w w' := by
  unfold writeBits at h
  split at h
  · cases h
  · split at h
    · cases h
    · cases h; exact Ext.append _ _

theorem writeBytes_ext {n : Nat} {bs : List Nat} {w w' : Writer} (h : writeBytes n bs w = ok w') : Ext w w' := by
  induction bs generalizing w with
  | nil => simp [writeBytes] at h; cases h; exact Ext.refl _
  | cons b bs ih =>
    simp only [writeBytes] at h
    rw [bind_eq_ok] at h
    obtain ⟨a, h1, h2⟩ := h
    exact (writeBits_ext h1).trans (ih h2)

theorem jump_ext (w : Writer) : Ext w (jumpToByteBoundary w) := by
  rw [jump_eq]; exact Ext.append _ _

theorem writeEmptyLast_ext {w w' : Writer} (h : writeEmptyLastMetaBlock w = ok w') : Ext w w' := by
  simp only [writeEmptyLastMetaBlock] at h
  rw [bind_eq_ok] at h
  obtain ⟨a, h1, h⟩ := h
  rw [bind_eq_ok] at h
  obtain ⟨b, h2, h⟩ := h
  cases h
  exact (writeBits_ext h1).trans ((writeBits_ext h2).trans (jump_ext _))

theorem storeUncompressedHeader_ext {len : Nat} {w w' : Writer}
    (h : storeUncompressedMetaBlockHeader len w = ok w') : Ext w w' := by
  simp only [storeUncompressedMetaBlockHeader] at h
  rw [bind_eq_ok] at h
  obtain ⟨a, h1, h⟩ := h
  rw [bind_eq_ok] at h
  obtain ⟨⟨lb, nl, nb⟩, _, h⟩ := h
  simp only [] at h
  rw [bind_eq_ok] at h
  obtain ⟨b, h2, h⟩ := h
  rw [bind_eq_ok] at h
  obtain ⟨c, h3, h⟩ := h
  exact (writeBits_ext h1).trans ((writeBits_ext h2).trans ((writeBits_ext h3).trans (writeBits_ext h)))

theorem storeUncompressed_ext {isFinal : Bool} {data : List Nat} {w w' : Writer}
    (h : storeUncompressedMetaBlock isFinal data w = ok w') : Ext w w' := by
  simp only [storeUncompressedMetaBlock] at h
  rw [bind_eq_ok] at h
  obtain ⟨a, h1, h⟩ := h
  have e1 := storeUncompressedHeader_ext h1
  have e2 : Ext w (appendBytes data (jumpToByteBoundary a)) :=
    e1.trans ((jump_ext a).trans (Ext.append _ _))
  cases isFinal
  · simp at h; cases h; exact e2
  · simp only [if_true] at h
    rw [bind_eq_ok] at h
    obtain ⟨b, h2, h⟩ := h
    rw [bind_eq_ok] at h
    obtain ⟨c, h3, h⟩ := h
    cases h
    exact e2.trans ((writeBits_ext h2).trans ((writeBits_ext h3).trans (jump_ext _)))

theorem writeMeta_ext {p : Params} {w w' : Writer} (h : writeMetadataMetaBlock p w = ok w') : Ext w w' := by
  simp only [writeMetadataMetaBlock] at h
  rw [bind_eq_ok] at h; obtain ⟨a1, h1, h⟩ := h
  rw [bind_eq_ok] at h; obtain ⟨a2, h2, h⟩ := h
  rw [bind_eq_ok] at h; obtain ⟨a3, h3, h⟩ := h
  rw [bind_eq_ok] at h; obtain ⟨a4, h4, h⟩ := h
  rw [bind_eq_ok] at h; obtain ⟨a5, h5, h⟩ := h
  rw [bind_eq_ok] at h; obtain ⟨a6, h6, h⟩ := h
  rw [bind_eq_ok] at h; obtain ⟨a7, h7, h⟩ := h
  exact (writeBits_ext h1).trans <| (writeBits_ext h2).trans <| (writeBits_ext h3).trans <|
    (writeBits_ext h4).trans <| (writeBits_ext h5).trans <| (jump_ext _).trans <|
    (writeBytes_ext h6).trans <| (writeBits_ext h7).trans (writeBytes_ext h)

/-- the parameters `encode_data` works with on the first call: sanitised, `lgblock`
computed, size hint replaced by the estimate when it was 0 -/
def effectiveParams (p0 : Params) (n : Nat) : Params :=
  let p := (ensureInitialized true p0).params
  { p with sizeHint := updateSizeHint p.sizeHint n 0 }

/-- the fast path of quality 0/1 (no `encode_data`) -/
def fastPath (p0 : Params) : Prop :=
  let p := (ensureInitialized true p0).params
  (p.quality = 0 ∨ p.quality = 1) ∧ ¬ p.catable ∧ ¬ p.magicNumber

instance (p0 : Params) : Decidable (fastPath p0) := by unfold fastPath; infer_instance

theorem ite_store_ext {c : Prop} [Decidable c] {data : List Nat} {w b : Writer}
    (h : (if c then storeUncompressedMetaBlock false data w else ok w) = ok b) : Ext w b := by
  split at h
  · exact storeUncompressed_ext h
  · cases h; exact Ext.refl _

theorem closeIfDone_ext {w : Writer} {left k : Nat} {magic : Bool} {st : Start}
    (h : closeIfDone w left magic k = ok st) : Ext w st.bits ∧ st.magic = magic ∧ st.prelude = k := by
  unfold closeIfDone at h
  split at h
  · rw [obind_eq_ok] at h; obtain ⟨a, h1, h⟩ := h; cases h
    exact ⟨writeEmptyLast_ext h1, rfl, rfl⟩
  · cases h; exact ⟨Ext.refl _, rfl, rfl⟩

theorem encodeDataHead_ext {p : Params} {input : List Nat} {w : Writer} {r : Writer × Nat}
    (h : encodeDataHead p input w = ok r) : Ext w r.1 := by
  unfold encodeDataHead at h
  rw [obind_eq_ok] at h; obtain ⟨a, h1, h⟩ := h
  simp only [] at h
  rw [obind_eq_ok] at h; obtain ⟨b, h2, h⟩ := h
  cases h
  have e1 : Ext w a := by
    split at h1
    · exact writeMeta_ext h1
    · cases h1; exact Ext.refl _
  exact e1.trans (ite_store_ext h2)

/-- with `magic_number` the head begins with the magic block -/
theorem encodeDataHead_magic {p : Params} {input : List Nat} {w : Writer} {r : Writer × Nat}
    (hh : p.sizeHint < 2 ^ 64) (hm : p.magicNumber = true)
    (h : encodeDataHead p input w = ok r) :
    Ext (jumpToByteBoundary (w ++ magicHeaderBits (encodeBase128 p.sizeHint).length)
          ++ (magicPayload p).flatMap (bitsOf 8)) r.1 := by
  unfold encodeDataHead at h
  rw [obind_eq_ok] at h; obtain ⟨a, h1, h⟩ := h
  simp only [] at h
  rw [obind_eq_ok] at h; obtain ⟨b, h2, h⟩ := h
  cases h
  simp only [hm, if_true] at h1
  rw [writeMeta_eq p w hh] at h1
  cases h1
  exact ite_store_ext h2

/-- every stream begins with the pending window bits -/
theorem streamStart_begins_with_window (p : Params) (input : List Nat) (st : Start)
    (h : streamStart true p input = ok st) :
    Ext (pendingWriter (ensureInitialized true p)) st.bits := by
  unfold streamStart at h
  simp only [] at h
  split at h
  · exact (closeIfDone_ext h).1
  · rw [obind_eq_ok] at h; obtain ⟨r, h1, h⟩ := h
    exact (encodeDataHead_ext h1).trans (closeIfDone_ext h).1

theorem effective_sizeHint_lt (p : Params) (n : Nat) (hh : p.sizeHint < 2 ^ 64) :
    (effectiveParams p n).sizeHint < 2 ^ 64 := by
  have hs : (ensureInitialized true p).params.sizeHint = p.sizeHint := by
    have := (sanitize_flags true p).2.2.2.2.2
    simp only [ensureInitialized]; rw [this]
  simp only [effectiveParams, hs, updateSizeHint, lit, litsUsh, BV.Gen.lits_update_size_hint,
    List.getD_cons_zero, List.getD_cons_succ]
  split
  · split
    · decide
    · have : (n + 0) % 2 ^ 64 % 2 ^ 32 < 2 ^ 32 := Nat.mod_lt _ (by decide)
      omega
  · exact hh

/-- with `magic_number`, the magic block follows the window bits immediately:
header bits, padding to the byte boundary, payload -/
theorem streamStart_magic (p : Params) (input : List Nat) (st : Start)
    (hh : p.sizeHint < 2 ^ 64) (hm : p.magicNumber = true)
    (h : streamStart true p input = ok st) :
    st.magic = true ∧
    Ext (jumpToByteBoundary (pendingWriter (ensureInitialized true p) ++
            magicHeaderBits (encodeBase128 (effectiveParams p input.length).sizeHint).length)
          ++ (magicPayload (effectiveParams p input.length)).flatMap (bitsOf 8)) st.bits := by
  have hmag : (ensureInitialized true p).params.magicNumber = true := by
    have := (sanitize_flags true p).2.2.2.2.1
    simp only [ensureInitialized]; rw [this]; exact hm
  have hhint := effective_sizeHint_lt p input.length hh
  unfold streamStart at h
  simp only [] at h
  split at h
  · rename_i hc
    exact absurd hmag (by simpa using hc.2.2)
  · rw [obind_eq_ok] at h; obtain ⟨r, h1, h⟩ := h
    have hm' : (effectiveParams p input.length).magicNumber = true := hmag
    have e := encodeDataHead_magic (p := effectiveParams p input.length) hhint hm' h1
    obtain ⟨e2, e3, _⟩ := closeIfDone_ext h
    exact ⟨e3.trans hmag, e.trans e2⟩

/-- without `magic_number` no magic block is written -/
theorem streamStart_no_magic (p : Params) (input : List Nat) (st : Start)
    (hm : p.magicNumber = false) (h : streamStart true p input = ok st) : st.magic = false := by
  have hmag : (ensureInitialized true p).params.magicNumber = false := by
    have := (sanitize_flags true p).2.2.2.2.1
    simp only [ensureInitialized]; rw [this]; exact hm
  unfold streamStart at h
  simp only [] at h
  split at h
  · exact (closeIfDone_ext h).2.1
  · rw [obind_eq_ok] at h; obtain ⟨r, h1, h⟩ := h
    exact (closeIfDone_ext h).2.1.trans hmag

end BV.Header
