import BV.Lemmas.StreamChunk2
/-
Input-chunking independence (C05), part 3: merging a PROCESS request into the request behind it.
-/
namespace BV.Stream
open BV.Bits

theorem wsub64_add (a b k : Nat) : wsub64 ((a + k) % two64) b = (wsub64 a b + k) % two64 := by
  unfold wsub64 two64
  omega

theorem wsub64_lt (a b : Nat) : wsub64 a b < two64 := by
  unfold wsub64
  exact Nat.mod_lt _ (by unfold two64; omega)

/-- **block boundaries are a function of the cumulative position**: copying `k` bytes (no more than the
block has room for) moves the block counter by exactly `k` -/
theorem rbs_vCopy {s : St} {k : Nat} (hbs : s.blockSize < two64) (hk : k ≤ remainingInputBlockSize s) :
    remainingInputBlockSize (core (vCopySt s k)) = remainingInputBlockSize s - k := by
  have hB : (core (vCopySt s k)).blockSize = s.blockSize := rfl
  have hu : (core (vCopySt s k)).unprocessed = (s.unprocessed + k) % two64 := by
    unfold St.unprocessed
    exact wsub64_add s.inputPos s.lastProcessedPos k
  have hlt : s.unprocessed < two64 := wsub64_lt _ _
  unfold remainingInputBlockSize at hk ⊢
  simp only [hB, hu] at hk ⊢
  generalize s.unprocessed = d at *
  generalize s.blockSize = B at *
  by_cases h1 : d ≥ B
  · rw [if_pos h1] at hk ⊢
    have hk0 : k = 0 := by omega
    subst hk0
    rw [Nat.add_zero, Nat.mod_eq_of_lt hlt, if_pos h1]
  · rw [if_neg h1] at hk ⊢
    rw [Nat.mod_eq_of_lt (by omega)]
    split <;> omega

theorem vCopySt_add (s : St) (j k : Nat) : core (vCopySt (core (vCopySt s j)) k) = core (vCopySt s (j + k)) := by
  unfold vCopySt core
  simp only [St.mk.injEq, and_true, true_and]
  unfold two64
  omega

/-- the positions are ordered and at most one block is buffered -/
structure VPos (s : St) : Prop where
  fl : s.lastFlushPos ≤ s.lastProcessedPos
  lp : s.lastProcessedPos ≤ s.inputPos
  ub : s.inputPos - s.lastProcessedPos ≤ s.blockSize

theorem VPos.unprocessed {s : St} (h : VPos s) (hlt : s.inputPos < two64) : s.unprocessed = s.inputPos - s.lastProcessedPos :=
  wsub64_eq h.lp hlt

theorem encPrelude_ncat_pos {x x' : St} {w w' : Writer} {hdr hdr' bytes : Nat} (hcat : x.params.catable = false)
    (hx : encPrelude x w hdr bytes = .ok (x', w', hdr')) :
    x'.lastFlushPos = x.lastFlushPos ∧ x'.lastProcessedPos = x.lastProcessedPos ∧ x'.inputPos = x.inputPos
    ∧ x'.params = x.params := by
  unfold encPrelude at hx
  split at hx
  · simp only [Out.ok.injEq, Prod.mk.injEq] at hx
    obtain ⟨rfl, _, _⟩ := hx
    exact ⟨rfl, rfl, rfl, rfl⟩
  · simp only [hcat, Bool.not_false, ↓reduceIte, Out.ok.injEq, Prod.mk.injEq] at hx
    obtain ⟨rfl, _, _⟩ := hx
    exact ⟨rfl, rfl, rfl, rfl⟩

/-- where the payload part of `encode_data` leaves the positions -/
theorem encPayloadPure_pos (s : St) (ans : Ans) (w0 w : Writer) (hdr : Nat) (il ff : Bool)
    (h1 : s.lastFlushPos ≤ s.lastProcessedPos) (h2 : s.lastProcessedPos ≤ s.inputPos) :
    (encPayloadPure s ans w0 w hdr il ff).lastFlushPos ≤ (encPayloadPure s ans w0 w hdr il ff).lastProcessedPos
    ∧ (encPayloadPure s ans w0 w hdr il ff).lastProcessedPos ≤ s.inputPos
    ∧ (encPayloadPure s ans w0 w hdr il ff).inputPos = s.inputPos
    ∧ (s.unprocessed ≠ 0 → s.inputPos < two64 → (encPayloadPure s ans w0 w hdr il ff).lastProcessedPos = s.inputPos) := by
  unfold encPayloadPure
  simp only []
  split
  · split
    · rename_i hz
      exact ⟨h1, h2, rfl, fun hne _ => absurd hz.1 hne⟩
    · exact ⟨Nat.le_refl _, Nat.le_refl _, rfl, fun _ _ => rfl⟩
  · split
    · exact ⟨Nat.le_trans h1 h2, Nat.le_refl _, rfl, fun _ _ => rfl⟩
    · split
      · rename_i hz
        refine ⟨h1, h2, rfl, fun hne hlt => ?_⟩
        have : s.lastProcessedPos = s.inputPos := by have := hz.2; omega
        exact this
      · exact ⟨Nat.le_refl _, Nat.le_refl _, rfl, fun _ _ => rfl⟩

theorem uEnc_pos {o : Oracle} {s s' : St} {site : Nat} {il ff : Bool} {p : Bytes} (hcat : s.params.catable = false)
    (hP : VPos s) (h : uEnc o s site il ff = some (s', p)) :
    s'.lastFlushPos ≤ s'.lastProcessedPos ∧ s'.lastProcessedPos ≤ s.inputPos ∧ s'.inputPos = s.inputPos
    ∧ (s.unprocessed ≠ 0 → s.inputPos < two64 → s'.lastProcessedPos = s.inputPos) := by
  unfold uEnc encPre3 at h
  cases hr : encPrelude (encMagic (encStart s il) s.carry).1 (encMagic (encStart s il) s.carry).2.1
      (encMagic (encStart s il) s.carry).2.2 (s.unprocessed % two32) with
  | ok r =>
    obtain ⟨a2, w, hdr⟩ := r
    rw [hr] at h
    simp only [uEncOf, Option.some.injEq, Prod.mk.injEq] at h
    obtain ⟨rfl, _⟩ := h
    obtain ⟨m1, m2, m3, _⟩ := encMagic_frame (encStart s il) s.carry
    rw [St.frame_eq_iff] at m1
    have hcm : (encMagic (encStart s il) s.carry).1.params.catable = false := by rw [m1.1]; exact hcat
    obtain ⟨q1, q2, q3, _⟩ := encPrelude_ncat_pos hcm hr
    have e1 : a2.lastFlushPos = s.lastFlushPos := q1.trans m2
    have e2 : a2.lastProcessedPos = s.lastProcessedPos := q2.trans m3
    have e3 : a2.inputPos = s.inputPos := q3.trans m1.2.1
    have eu : a2.unprocessed = s.unprocessed := by unfold St.unprocessed; rw [e2, e3]
    obtain ⟨r1, r2, r3, r4⟩ := encPayloadPure_pos a2 (o s.nEnc (reqOf s site il ff)) s.carry w hdr il ff
      (by rw [e1, e2]; exact hP.fl) (by rw [e2, e3]; exact hP.lp)
    refine ⟨r1, by rw [← e3]; exact r2, r3.trans e3, fun hne hlt => ?_⟩
    rw [← e3]
    exact r4 (by rw [eu]; exact hne) (by rw [e3]; exact hlt)
  | panic => rw [hr] at h; simp [uEncOf] at h
  | fuel => rw [hr] at h; simp [uEncOf] at h

theorem rbs_def (s : St) : remainingInputBlockSize s = if s.unprocessed ≥ s.blockSize then 0 else s.blockSize - s.unprocessed := rfl

/-- the end of `c1` is NOT an input-block boundary -/
def NotBoundary (s : St) (c1 : Bytes) : Prop := (s.inputPos - s.lastProcessedPos + c1.length) % s.blockSize ≠ 0

/-- what the merge argument needs of the state at the start of a PROCESS request -/
structure VStart (s : St) (inp : Bytes) : Prop where
  good : VGood ⟨s, [], inp, inp.length⟩
  proc : s.streamState = .processing
  pos : VPos s

theorem VStart.toGood {s : St} {inp : Bytes} (h : VStart s inp) (out : Bytes) : VGood ⟨s, out, inp, inp.length⟩ :=
  ⟨h.good.init, h.good.nf, h.good.ncat, h.good.hint, h.good.bs, h.good.nowrap, rfl⟩

theorem VStart.of_good {a : Abs} (hG : VGood a) (hp : a.s.streamState = .processing) (hpos : VPos a.s) : VStart a.s a.input :=
  ⟨⟨hG.init, hG.nf, hG.ncat, hG.hint, hG.bs, hG.nowrap, rfl⟩, hp, hpos⟩

theorem noflush_of_processing {a b : Abs} (h : a.s.streamState = .processing) : ¬ FlushStep a b := by
  intro hf; rw [hf.1] at h; cases h

/-- the payload-encoder request the ring-free machine issues in configuration `a` (none unless its
next step is `encode_data`): a function of the positions and of `available_in == 0 && op == …` only -/
def vreq (op : Nat) (a : Abs) : List Req :=
  if a.s.isInitialized = false then []
  else if fastMode a.s.params then []
  else if remainingInputBlockSize a.s ≠ 0 ∧ a.availIn ≠ 0 then []
  else if PadDue a.s then []
  else if a.s.streamState = .processing ∧ (remainingInputBlockSize a.s = 0 ∨ op ≠ 0) then
    [reqOf a.s 0 (decide (a.availIn = 0 ∧ op = 2)) (decide (a.availIn = 0 ∧ op = 1))]
  else []

/-- the requests issued along the first `n` steps from `a` -/
def vlog (o : Oracle) (op : Nat) : Nat → Abs → List Req
  | 0, _ => []
  | n + 1, a =>
    match vstep o op a with
    | some a1 => vreq op a ++ vlog o op n a1
    | none => []

theorem vlog_succ {o : Oracle} {op : Nat} {a a1 : Abs} (n : Nat) (h : vstep o op a = some a1) :
    vlog o op (n + 1) a = vreq op a ++ vlog o op n a1 := by
  simp only [vlog, h]

theorem vlog_append {o : Oracle} {op : Nat} {a b : Abs} {n : Nat} (h : VPath o op a n b) (m : Nat) :
    vlog o op (n + m) a = vlog o op n a ++ vlog o op m b := by
  induction h with
  | nil _ => simp [vlog]
  | @cons a a1 b n hs _ _ ih =>
    have : n + 1 + m = (n + m) + 1 := by omega
    rw [this, vlog_succ _ hs, vlog_succ _ hs, ih, List.append_assoc]

theorem vreq_copy {op : Nat} {a : Abs} (hi : a.s.isInitialized = true) (hnf : ¬ fastMode a.s.params)
    (hc : remainingInputBlockSize a.s ≠ 0 ∧ a.availIn ≠ 0) : vreq op a = [] := by
  unfold vreq
  rw [if_neg (by rw [hi]; simp), if_neg hnf, if_pos hc]

theorem vreq_enc {op : Nat} {a : Abs} (hi : a.s.isInitialized = true) (hnf : ¬ fastMode a.s.params)
    (hc : ¬ (remainingInputBlockSize a.s ≠ 0 ∧ a.availIn ≠ 0)) (hp : ¬ PadDue a.s)
    (he : a.s.streamState = .processing ∧ (remainingInputBlockSize a.s = 0 ∨ op ≠ 0)) :
    vreq op a = [reqOf a.s 0 (decide (a.availIn = 0 ∧ op = 2)) (decide (a.availIn = 0 ∧ op = 1))] := by
  unfold vreq
  rw [if_neg (by rw [hi]; simp), if_neg hnf, if_neg hc, if_neg hp, if_pos he]

/-- **merging a PROCESS request into the request behind it** (ring-free machine).  A PROCESS request
with input `c1`, run to its end `b1` (all input consumed), followed by a request `op2` with input
`c2` that is itself a PROCESS or has at least one byte: the single request `op2` with input
`c1 ++ c2` reaches, by flush-free steps, the configuration `C` in which the second request starts —
or the configuration one (copy) step behind `C`. -/
theorem vmerge {o : Oracle} {op2 : Nat} {c2 : Bytes} :
    ∀ (n : Nat) (s : St) (out c1 : Bytes) (b1 : Abs),
      VPath o 0 ⟨s, out, c1, c1.length⟩ n b1 → vstep o 0 b1 = none → b1.input = [] → VStart s (c1 ++ c2) →
      (op2 = 0 ∨ c2 ≠ [] ∨ NotBoundary s c1) →
      ∃ m x, VPath o op2 ⟨s, out, c1 ++ c2, (c1 ++ c2).length⟩ m x ∧
        (x = ⟨b1.s, b1.out, c2, c2.length⟩ ∨
         (vstep o op2 ⟨b1.s, b1.out, c2, c2.length⟩ = some x ∧ ¬ FlushStep ⟨b1.s, b1.out, c2, c2.length⟩ x
          ∧ vreq op2 ⟨b1.s, b1.out, c2, c2.length⟩ = []))
        ∧ vlog o op2 m ⟨s, out, c1 ++ c2, (c1 ++ c2).length⟩ = vlog o 0 n ⟨s, out, c1, c1.length⟩ := by
  intro n
  induction n with
  | zero =>
    intro s out c1 b1 hp _ hin _ _
    cases hp
    have hc1 : c1 = [] := hin
    subst hc1
    exact ⟨0, _, .nil _, Or.inl (by simp), rfl⟩
  | succ n ih =>
    intro s out c1 b1 hp hterm hin hS hsafe
    cases hp with
    | @cons _ a1 _ _ hs hnf hrest =>
    have hs0 := hs
    have hG := hS.toGood out
    have hi' : ¬ (s.isInitialized = false) := by rw [hG.init]; simp
    have hnpd : ¬ PadDue s := fun hh => by have h1 := hh.1; rw [hS.proc] at h1; cases h1
    -- the merged configuration
    have hlen : (c1 ++ c2).length = c1.length + c2.length := List.length_append
    unfold vstep at hs
    simp only [if_neg hi', if_neg hG.nf] at hs
    by_cases hc : remainingInputBlockSize s ≠ 0 ∧ c1.length ≠ 0
    · -- a copy step
      rw [if_pos hc] at hs
      unfold vCopy at hs
      simp only at hs
      rw [if_neg (by omega)] at hs
      simp only [Option.some.injEq] at hs
      have hcm : remainingInputBlockSize s ≠ 0 ∧ (c1 ++ c2).length ≠ 0 := ⟨hc.1, by rw [hlen]; omega⟩
      have hstepM : vstep o op2 ⟨s, out, c1 ++ c2, (c1 ++ c2).length⟩
          = some ⟨core (vCopySt s (min (remainingInputBlockSize s) (c1 ++ c2).length)), out,
                  (c1 ++ c2).drop (min (remainingInputBlockSize s) (c1 ++ c2).length),
                  (c1 ++ c2).length - min (remainingInputBlockSize s) (c1 ++ c2).length⟩ := by
        unfold vstep
        simp only [if_neg hi', if_neg hG.nf, if_pos hcm]
        unfold vCopy
        simp only
        rw [if_neg (by omega)]
      have hprocM : ∀ k, (core (vCopySt s k)).streamState = .processing := fun _ => hS.proc
      have hvM : vreq op2 ⟨s, out, c1 ++ c2, (c1 ++ c2).length⟩ = [] := vreq_copy hG.init hG.nf hcm
      have hvA : vreq 0 ⟨s, out, c1, c1.length⟩ = [] := vreq_copy (a := ⟨s, out, c1, c1.length⟩) hG.init hG.nf hc
      by_cases hr : remainingInputBlockSize s ≤ c1.length
      · -- the block fills inside `c1`: the same step in both machines
        have hk1 : min (remainingInputBlockSize s) c1.length = remainingInputBlockSize s := Nat.min_eq_left hr
        have hk : min (remainingInputBlockSize s) (c1 ++ c2).length = remainingInputBlockSize s := Nat.min_eq_left (by rw [hlen]; omega)
        rw [hk1] at hs
        rw [hk] at hstepM
        generalize hrs : remainingInputBlockSize s = r at *
        subst hs
        have hdrop : (c1 ++ c2).drop r = c1.drop r ++ c2 := List.drop_append_of_le_length hr
        have hl1 : c1.length - r = (c1.drop r).length := by rw [List.length_drop]
        have hl2 : (c1 ++ c2).length - r = (c1.drop r ++ c2).length := by rw [← hdrop, List.length_drop]
        rw [hdrop, hl2] at hstepM
        rw [hl1] at hrest hnf hs0
        have hipw : s.inputPos + c1.length < two64 := by
          have hnw : s.inputPos + (c1 ++ c2).length < two64 := hG.nowrap
          rw [hlen] at hnw
          omega
        have hu := hS.pos.unprocessed (by omega : s.inputPos < two64)
        have hrdef : r = s.blockSize - (s.inputPos - s.lastProcessedPos) ∧ s.inputPos - s.lastProcessedPos < s.blockSize := by
          have hr0 := hc.1
          rw [← hrs] at hr0 ⊢
          rw [rbs_def, hu] at hr0 ⊢
          split at hr0
          · exact absurd rfl hr0
          · rename_i hlt
            rw [if_neg hlt]
            exact ⟨rfl, by omega⟩
        have hip' : (core (vCopySt s r)).inputPos = s.inputPos + r := by
          show (s.inputPos + r) % two64 = s.inputPos + r
          exact Nat.mod_eq_of_lt (by omega)
        have hlp' : (core (vCopySt s r)).lastProcessedPos = s.lastProcessedPos := rfl
        have hpos1 : VPos (core (vCopySt s r)) := by
          refine ⟨hS.pos.fl, ?_, ?_⟩
          · rw [hip', hlp']; have := hS.pos.lp; omega
          · rw [hip', hlp']
            show s.inputPos + r - s.lastProcessedPos ≤ s.blockSize
            have := hS.pos.lp
            omega
        have hS1 : VStart (core (vCopySt s r)) (c1.drop r ++ c2) := by
          have g := vstep_good hG hstepM
          exact ⟨⟨g.init, g.nf, g.ncat, g.hint, g.bs, g.nowrap, rfl⟩, hS.proc, hpos1⟩
        have hsafe1 : op2 = 0 ∨ c2 ≠ [] ∨ NotBoundary (core (vCopySt s r)) (c1.drop r) := by
          rcases hsafe with h | h | h
          · exact Or.inl h
          · exact Or.inr (Or.inl h)
          · refine Or.inr (Or.inr ?_)
            unfold NotBoundary at h ⊢
            rw [hip', hlp', List.length_drop]
            have hB : (core (vCopySt s r)).blockSize = s.blockSize := rfl
            rw [hB]
            have := hS.pos.lp
            have e : s.inputPos + r - s.lastProcessedPos + (c1.length - r) = s.inputPos - s.lastProcessedPos + c1.length := by omega
            rw [e]; exact h
        obtain ⟨m, x, hpx, hx, hlog⟩ := ih _ _ _ _ hrest hterm hin hS1 hsafe1
        refine ⟨m + 1, x, .cons hstepM (noflush_of_processing hS.proc) hpx, hx, ?_⟩
        rw [vlog_succ _ hstepM, vlog_succ _ hs0, hlog, hvM, hvA]
      · -- `c1` ends inside the block: the PROCESS request stops there, the merged request copies on
        have hr' : c1.length < remainingInputBlockSize s := by omega
        have hk1 : min (remainingInputBlockSize s) c1.length = c1.length := Nat.min_eq_right (by omega)
        rw [hk1] at hs
        have hd1 : c1.drop c1.length = [] := List.drop_length
        rw [hd1, Nat.sub_self] at hs
        subst hs
        -- the PROCESS request is at its end
        have hrbs1 : remainingInputBlockSize (core (vCopySt s c1.length)) = remainingInputBlockSize s - c1.length :=
          rbs_vCopy hG.bs (by omega)
        have hend : vstep o 0 ⟨core (vCopySt s c1.length), out, [], 0⟩ = none := by
          unfold vstep
          have e0 : ¬ ((core (vCopySt s c1.length)).isInitialized = false) := hi'
          have e1 : ¬ fastMode (core (vCopySt s c1.length)).params := hG.nf
          have e2 : ¬ (remainingInputBlockSize (core (vCopySt s c1.length)) ≠ 0 ∧ (0 : Nat) ≠ 0) := fun hh => hh.2 rfl
          have e3 : ¬ PadDue (core (vCopySt s c1.length)) := hnpd
          have e4 : ¬ ((core (vCopySt s c1.length)).streamState = .processing ∧ (remainingInputBlockSize (core (vCopySt s c1.length)) = 0 ∨ (0 : Nat) ≠ 0)) := by
            intro hh
            rcases hh.2 with h0 | h0
            · rw [hrbs1] at h0; omega
            · exact h0 rfl
          have e5 : ¬ ((core (vCopySt s c1.length)).streamState = .flushRequested) := by
            rw [hprocM]; simp
          simp only [if_neg e0, if_neg e1, if_neg e2, if_neg e3, if_neg e4, if_neg e5]
        have hn0 : n = 0 := by
          cases hrest with
          | nil _ => rfl
          | cons hs' _ _ => rw [hend] at hs'; cases hs'
        have hb1 : b1 = ⟨core (vCopySt s c1.length), out, [], 0⟩ := by
          cases hrest with
          | nil _ => rfl
          | cons hs' _ _ => rw [hend] at hs'; cases hs'
        subst hb1
        have hlog1 : ∀ z, vstep o op2 ⟨s, out, c1 ++ c2, (c1 ++ c2).length⟩ = some z →
            vlog o op2 1 ⟨s, out, c1 ++ c2, (c1 ++ c2).length⟩ = vlog o 0 (n + 1) ⟨s, out, c1, c1.length⟩ := by
          intro z hz
          rw [hn0, vlog_succ _ hz, vlog_succ _ hs0, hvM, hvA]
          rfl
        by_cases hc2 : c2 = []
        · subst hc2
          refine ⟨1, _, .cons hstepM (noflush_of_processing hS.proc) (.nil _), Or.inl ?_, hlog1 _ hstepM⟩
          simp [hk1, Nat.min_eq_right (Nat.le_of_lt hr')]
        · -- the second request starts with a copy, which the merged request has already done
          have hc2l : c2.length ≠ 0 := fun hh => hc2 (List.eq_nil_of_length_eq_zero hh)
          have hcC : remainingInputBlockSize (core (vCopySt s c1.length)) ≠ 0 ∧ c2.length ≠ 0 := ⟨by rw [hrbs1]; omega, hc2l⟩
          have hstepC : vstep o op2 ⟨core (vCopySt s c1.length), out, c2, c2.length⟩
              = some ⟨core (vCopySt (core (vCopySt s c1.length)) (min (remainingInputBlockSize s - c1.length) c2.length)), out,
                      c2.drop (min (remainingInputBlockSize s - c1.length) c2.length),
                      c2.length - min (remainingInputBlockSize s - c1.length) c2.length⟩ := by
            unfold vstep
            have e0 : ¬ ((core (vCopySt s c1.length)).isInitialized = false) := hi'
            have e1 : ¬ fastMode (core (vCopySt s c1.length)).params := hG.nf
            simp only [if_neg e0, if_neg e1, if_pos hcC]
            unfold vCopy
            simp only [hrbs1]
            rw [if_neg (by omega)]
          refine ⟨1, _, .cons hstepM (noflush_of_processing hS.proc) (.nil _), Or.inr ⟨?_, noflush_of_processing hS.proc,
            vreq_copy (a := ⟨core (vCopySt s c1.length), out, c2, c2.length⟩) hG.init hG.nf hcC⟩, hlog1 _ hstepM⟩
          rw [hstepC, vCopySt_add]
          have hmin : min (remainingInputBlockSize s) (c1 ++ c2).length = c1.length + min (remainingInputBlockSize s - c1.length) c2.length := by
            rw [hlen]; omega
          rw [hmin, List.drop_append]
          generalize min (remainingInputBlockSize s - c1.length) c2.length = j
          have e1 : List.drop (c1.length + j) c1 = [] := List.drop_eq_nil_of_le (by omega)
          have e2 : c1.length + j - c1.length = j := by omega
          have e3 : c1.length + c2.length - (c1.length + j) = c2.length - j := by omega
          rw [e1, e2, hlen, e3, List.nil_append]
    · -- an encode step (the block is full)
      rw [if_neg hc, if_neg hnpd] at hs
      by_cases he : s.streamState = .processing ∧ (remainingInputBlockSize s = 0 ∨ (0 : Nat) ≠ 0)
      · rw [if_pos he] at hs
        have hr0 : remainingInputBlockSize s = 0 := by
          rcases he.2 with h0 | h0
          · exact h0
          · exact absurd rfl h0
        obtain ⟨s', p, hu', ha1, hf⟩ := uEncStep_good (a := ⟨s, out, c1, c1.length⟩) hG.hint hs
        simp only at hu' ha1
        have hfl : ∀ k : Nat, decide (k = 0 ∧ (0 : Nat) = 2) = false ∧ decide (k = 0 ∧ (0 : Nat) = 1) = false := by
          intro k; simp
        rw [(hfl c1.length).1, (hfl c1.length).2] at hu' ha1
        have hipw : s.inputPos < two64 := by
          have hnw : s.inputPos + (c1 ++ c2).length < two64 := hG.nowrap
          omega
        have hu := hS.pos.unprocessed hipw
        have huB : s.inputPos - s.lastProcessedPos = s.blockSize := by
          have hub := hS.pos.ub
          rw [rbs_def, hu] at hr0
          split at hr0
          · omega
          · have := blockSize_pos s; omega
        have hflM : decide ((c1 ++ c2).length = 0 ∧ op2 = 2) = false ∧ decide ((c1 ++ c2).length = 0 ∧ op2 = 1) = false := by
          rcases hsafe with h0 | h0 | h0
          · subst h0; simp
          · have : (c1 ++ c2).length ≠ 0 := by
              rw [hlen]; intro hh
              exact h0 (List.eq_nil_of_length_eq_zero (by omega))
            exact ⟨decide_eq_false (fun hh => this hh.1), decide_eq_false (fun hh => this hh.1)⟩
          · have : (c1 ++ c2).length ≠ 0 := by
              rw [hlen]; intro hh
              have hc10 : c1.length = 0 := by omega
              unfold NotBoundary at h0
              rw [huB, hc10, Nat.add_zero, Nat.mod_self] at h0
              exact h0 rfl
            exact ⟨decide_eq_false (fun hh => this hh.1), decide_eq_false (fun hh => this hh.1)⟩
        have hncM : ¬ (remainingInputBlockSize s ≠ 0 ∧ (c1 ++ c2).length ≠ 0) := fun hh => hh.1 hr0
        have heM : s.streamState = .processing ∧ (remainingInputBlockSize s = 0 ∨ op2 ≠ 0) := ⟨hS.proc, Or.inl hr0⟩
        have hstepM : vstep o op2 ⟨s, out, c1 ++ c2, (c1 ++ c2).length⟩
            = some ⟨core (markAfterEncode s' false false), out ++ p, c1 ++ c2, (c1 ++ c2).length⟩ := by
          unfold vstep
          simp only [if_neg hi', if_neg hG.nf, if_neg hncM, if_neg hnpd, if_pos heM]
          unfold uEncStep
          simp only [updateSizeHint_id hG.hint, hflM.1, hflM.2, hu', uEncOut]
        subst ha1
        have hmk : markAfterEncode s' false false = s' := by
          unfold markAfterEncode; simp
        obtain ⟨q1, q2, q3, q4⟩ := uEnc_pos hG.ncat hS.pos hu'
        have hune : s.unprocessed ≠ 0 := by
          rw [hu, huB]; exact Nat.pos_iff_ne_zero.mp (blockSize_pos s)
        have hlpE : s'.lastProcessedPos = s.inputPos := q4 hune hipw
        have hf' := hf
        rw [St.frame_eq_iff] at hf'
        have hBs : s'.blockSize = s.blockSize := blockSize_of_params hf'.1
        have hpos1 : VPos (core (markAfterEncode s' false false)) := by
          rw [hmk]
          refine ⟨q1, by show s'.lastProcessedPos ≤ s'.inputPos; rw [q3]; exact q2, ?_⟩
          show s'.inputPos - s'.lastProcessedPos ≤ s'.blockSize
          rw [q3, hlpE, Nat.sub_self]; exact Nat.zero_le _
        have hS1 : VStart (core (markAfterEncode s' false false)) (c1 ++ c2) := by
          have g := vstep_good (hS.toGood out) hstepM
          refine ⟨⟨g.init, g.nf, g.ncat, g.hint, g.bs, g.nowrap, rfl⟩, ?_, hpos1⟩
          show (markAfterEncode s' false false).streamState = .processing
          rw [hmk, hf'.2.2.2.1]; exact hS.proc
        have hsafe1 : op2 = 0 ∨ c2 ≠ [] ∨ NotBoundary (core (markAfterEncode s' false false)) c1 := by
          rcases hsafe with h | h | h
          · exact Or.inl h
          · exact Or.inr (Or.inl h)
          · refine Or.inr (Or.inr ?_)
            unfold NotBoundary at h ⊢
            rw [hmk]
            show (s'.inputPos - s'.lastProcessedPos + c1.length) % s'.blockSize ≠ 0
            rw [q3, hlpE, hBs, Nat.sub_self, Nat.zero_add]
            rw [huB, Nat.add_mod_left] at h
            exact h
        obtain ⟨m, x, hpx, hx, hlog⟩ := ih _ _ _ _ hrest hterm hin hS1 hsafe1
        refine ⟨m + 1, x, .cons hstepM (noflush_of_processing hS.proc) hpx, hx, ?_⟩
        have hvM : vreq op2 ⟨s, out, c1 ++ c2, (c1 ++ c2).length⟩ = [reqOf s 0 false false] := by
          rw [vreq_enc (a := ⟨s, out, c1 ++ c2, (c1 ++ c2).length⟩) hG.init hG.nf hncM hnpd heM]
          simp only [hflM.1, hflM.2]
        have hvA : vreq 0 ⟨s, out, c1, c1.length⟩ = [reqOf s 0 false false] := by
          rw [vreq_enc (a := ⟨s, out, c1, c1.length⟩) hG.init hG.nf hc hnpd he]
          simp only [(hfl c1.length).1, (hfl c1.length).2]
        rw [vlog_succ _ hstepM, vlog_succ _ hs0, hlog, hvM, hvA]
      · rw [if_neg he] at hs
        have : ¬ (s.streamState = .flushRequested) := by rw [hS.proc]; simp
        rw [if_neg this] at hs
        cases hs

end BV.Stream
