/-
Lemmas for C17: `BrotliReverseBits` against the bit-reversal specification.
-/
import BV.Model.Huffman

namespace BV.Lemmas.HuffmanBits
open BV.Gen BV.Huffman

/-- specification: the `n` low bits of `b` in reverse order
(bit `i` of the result is bit `n - 1 - i` of `b`) -/
def revSpec : Nat → Nat → Nat
  | 0, _ => 0
  | n + 1, b => (b % 2) * 2 ^ n + revSpec n (b / 2)

theorem revSpec_lt (n b : Nat) : revSpec n b < 2 ^ n := by
  induction n generalizing b with
  | zero => simp [revSpec]
  | succ n ih =>
    simp only [revSpec]
    have := ih (b / 2)
    have h2 : b % 2 < 2 := Nat.mod_lt _ (by decide)
    have : b % 2 * 2 ^ n ≤ 1 * 2 ^ n := Nat.mul_le_mul_right _ (by omega)
    rw [Nat.pow_succ]; omega

/-- reversing `a + c` bits = reversed low `a` bits shifted up, then the reversed next `c` bits -/
theorem revSpec_add (a c b : Nat) :
    revSpec (a + c) b = revSpec a b * 2 ^ c + revSpec c (b / 2 ^ a) := by
  induction a generalizing b with
  | zero => simp [revSpec]
  | succ a ih =>
    have e : a + 1 + c = (a + c) + 1 := by omega
    rw [e]
    simp only [revSpec]
    rw [ih (b / 2), Nat.div_div_eq_div_mul, Nat.add_mul, Nat.mul_assoc, ← Nat.pow_add]
    have : 2 * 2 ^ a = 2 ^ (a + 1) := by rw [Nat.pow_succ]; omega
    rw [this]
    omega

theorem revSpec_mod (n b : Nat) : revSpec n (b % 2 ^ n) = revSpec n b := by
  induction n generalizing b with
  | zero => rfl
  | succ n ih =>
    simp only [revSpec]
    have h1 : b % 2 ^ (n + 1) % 2 = b % 2 := by
      rw [Nat.pow_succ, Nat.mul_comm]; exact Nat.mod_mul_right_mod _ _ _
    have h2 : b % 2 ^ (n + 1) / 2 = (b / 2) % 2 ^ n := by
      rw [Nat.pow_succ, Nat.mul_comm, Nat.mod_mul_right_div_self]
    rw [h1, h2, ih]

/-- reversing twice gives the low bits back -/
theorem revSpec_revSpec (n b : Nat) : revSpec n (revSpec n b) = b % 2 ^ n := by
  induction n generalizing b with
  | zero => simp [revSpec, Nat.mod_one]
  | succ n ih =>
    -- outer: split as n + 1 ; inner: as 1 + n
    have hin : revSpec (n + 1) b = (b % 2) * 2 ^ n + revSpec n (b / 2) := rfl
    have hout := revSpec_add n 1 (revSpec (n + 1) b)
    rw [hout]
    have hlt := revSpec_lt n (b / 2)
    have hp : 0 < 2 ^ n := Nat.pow_pos (by decide)
    have hdiv : revSpec (n + 1) b / 2 ^ n = b % 2 := by
      rw [hin, Nat.mul_comm, Nat.mul_add_div hp, Nat.div_eq_of_lt hlt]; simp
    have hmod : revSpec n (revSpec (n + 1) b) = revSpec n (revSpec n (b / 2)) := by
      rw [← revSpec_mod n (revSpec (n + 1) b), hin, Nat.mul_comm, Nat.mul_add_mod,
        Nat.mod_eq_of_lt hlt]
    rw [hdiv, hmod, ih]
    have h1 : revSpec 1 (b % 2) = b % 2 := by
      simp [revSpec]
    rw [h1]
    have h4 : b % 2 ^ (n + 1) = b % 2 + 2 * ((b / 2) % 2 ^ n) := by
      rw [Nat.pow_succ, Nat.mul_comm, Nat.mod_mul]
    rw [h4]; simp only [Nat.pow_one]; omega

theorem lut_eq (x : Nat) : lut x = revSpec 4 x := by
  have h : ∀ y : Fin 16, lut y.val = revSpec 4 y.val := by decide
  have := h ⟨x % 16, Nat.mod_lt _ (by decide)⟩
  simp only at this
  have e1 : lut x = lut (x % 16) := by simp [lut]
  have e2 : revSpec 4 x = revSpec 4 (x % 16) := (revSpec_mod 4 x).symm
  rw [e1, e2, this]

theorem or_eq_add (a x : Nat) (h : x < 16) : a * 16 ||| x = a * 16 + x := by
  have := Nat.shiftLeft_add_eq_or_of_lt (i := 4) (b := x) (by simpa using h) a
  simp [Nat.shiftLeft_eq] at this
  omega

/-- the nibble loop: after `k` more iterations the `4 (j + k)` low bits are reversed -/
theorem reverseLoop_spec (k j b : Nat) (hj : 4 * (j + k) ≤ 60) :
    reverseLoop k (revSpec (4 * j) b) (b / 2 ^ (4 * j - 4)) = revSpec (4 * (j + k)) b ∨ j = 0 := by
  induction k generalizing j with
  | zero => left; simp [reverseLoop]
  | succ k ih =>
    by_cases hj0 : j = 0
    · right; exact hj0
    left
    simp only [reverseLoop]
    have hlt := revSpec_lt (4 * j) b
    have hle : (2:Nat) ^ (4 * j) ≤ 2 ^ 56 := Nat.pow_le_pow_right (by decide) (by omega)
    have hsmall : revSpec (4 * j) b * 16 % u64 = revSpec (4 * j) b * 16 := by
      apply Nat.mod_eq_of_lt
      unfold u64
      have : (2:Nat) ^ 56 * 16 = 2 ^ 60 := by decide
      have : (2:Nat) ^ 60 < 18446744073709551616 := by decide
      omega
    have hdd : b / 2 ^ (4 * j - 4) / 16 = b / 2 ^ (4 * j) := by
      rw [Nat.div_div_eq_div_mul]
      have : 2 ^ (4 * j - 4) * 16 = 2 ^ (4 * j) := by
        have : 4 * j = (4 * j - 4) + 4 := by omega
        conv => rhs; rw [this, Nat.pow_add]
      rw [this]
    rw [hsmall, hdd, or_eq_add _ _ (by rw [lut_eq]; exact revSpec_lt 4 _), lut_eq]
    have hadd := revSpec_add (4 * j) 4 b
    have e16 : (2:Nat) ^ 4 = 16 := by decide
    rw [e16] at hadd
    rw [← hadd]
    have := ih (j + 1) (by omega)
    have e1 : 4 * j + 4 = 4 * (j + 1) := by omega
    have e2 : 4 * (j + 1) - 4 = 4 * j := by omega
    rw [e1]
    rw [e2] at this
    rcases this with h | h
    · rw [h]; congr 1; omega
    · omega

/-- `BrotliReverseBits(n, b)` reverses the `n` low bits of `b` (`1 ≤ n ≤ 16`) -/
theorem reverseBits_eq (n b : Nat) (h1 : 1 ≤ n) (h16 : n ≤ 16) :
    reverseBits n b = revSpec n b := by
  unfold reverseBits
  have hloop := reverseLoop_spec ((n - 1) / 4) 1 b (by omega)
  simp only [Nat.mul_one, Nat.sub_self, Nat.pow_zero, Nat.div_one] at hloop
  rw [← lut_eq] at hloop
  rcases hloop with hloop | hloop
  · simp only [hloop]
    have hs : (u64 - n % u64) % 4 = 4 * (1 + (n - 1) / 4) - n := by
      unfold u64; omega
    rw [hs, Nat.shiftRight_eq_div_pow]
    have hsplit : 4 * (1 + (n - 1) / 4) = n + (4 * (1 + (n - 1) / 4) - n) := by omega
    have hadd := revSpec_add n (4 * (1 + (n - 1) / 4) - n) b
    rw [← hsplit] at hadd
    rw [hadd]
    have hp : 0 < 2 ^ (4 * (1 + (n - 1) / 4) - n) := Nat.pow_pos (by decide)
    rw [Nat.mul_comm, Nat.mul_add_div hp, Nat.div_eq_of_lt (revSpec_lt _ _), Nat.add_zero]
    apply Nat.mod_eq_of_lt
    have := revSpec_lt n b
    have : (2:Nat) ^ n ≤ 2 ^ 16 := Nat.pow_le_pow_right (by decide) h16
    omega
  · omega


/-- bit `i` of the reversal is bit `n - 1 - i` of the input -/
theorem revSpec_testBit (n b i : Nat) :
    (revSpec n b).testBit i = (decide (i < n) && b.testBit (n - 1 - i)) := by
  induction n generalizing b i with
  | zero => simp [revSpec]
  | succ n ih =>
    simp only [revSpec]
    rw [Nat.mul_comm, Nat.testBit_two_pow_mul_add _ (revSpec_lt n (b / 2))]
    by_cases hi : i < n
    · simp only [hi, ↓reduceIte, ih, decide_true, Bool.true_and, Nat.testBit_div_two]
      have : i < n + 1 := by omega
      simp only [this, decide_true, Bool.true_and]
      congr 1; omega
    · simp only [hi, ↓reduceIte]
      by_cases hin : i = n
      · subst hin
        simp only [Nat.sub_self, Nat.lt_add_one, decide_true, Nat.add_sub_cancel, Bool.true_and]
        rw [Nat.testBit_zero, Nat.testBit_zero, Nat.mod_mod]
      · have h1 : ¬ i < n + 1 := by omega
        simp only [h1, decide_false, Bool.false_and]
        have hlt : b % 2 < 2 ^ (i - n) := by
          have : b % 2 < 2 := Nat.mod_lt _ (by decide)
          have : 2 ^ 1 ≤ 2 ^ (i - n) := Nat.pow_le_pow_right (by decide) (by omega)
          omega
        exact Nat.testBit_lt_two_pow hlt

end BV.Lemmas.HuffmanBits
