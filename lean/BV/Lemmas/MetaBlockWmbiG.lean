/-
C01 / meta-block writers, part 20: `WriteMetaBlockInternal` around the general writer — the lemmas of
`MetaBlockWmbi.lean` restated for the GENERAL reader `readMetaBlockFullG` / `readMetaBlocksG` (the stored and the
empty last meta-block are read by the same code in both readers).
-/
import BV.Lemmas.MetaBlockWmbi
import BV.Model.MetaBlockFull

namespace BV.MetaBlock
open BV.Gen BV.Bits BV.Huffman BV.PrefixArith BV.Recoder BV.HeaderSpec
open BV.Header (writeBits_ok skipPad_pad storeUncompressedMetaBlock writeEmptyLastMetaBlock lit
  storeUncompressedMetaBlockHeader jumpToByteBoundary)
open BV.Stored (writeMetaBlockInternal MbOracle MbOut litsWmbi)

/-- a piece of the stream that the RFC reader, started at bit position `pos` in decoder state `s`, consumes
exactly, ending at `pos'` in state `s'` (whatever follows) -/
def ReadsToG (wo : WordOracle) (window : Nat) (large : Bool) (pos : Nat) (s : RdSt) (bits : List Bool)
    (last : Bool) (pos' : Nat) (s' : RdSt) : Prop :=
  ∀ rest, readMetaBlockFullG wo window large pos s (bits ++ rest) = some (s', last, pos', rest)

theorem emptyLast_readsG (wo : WordOracle) (window : Nat) (large : Bool) (pos : Nat) (s : RdSt) :
    ReadsToG wo window large pos s (emptyLastBits pos) true (pos + (emptyLastBits pos).length) s := by
  intro rest
  have h : readMetaBlock pos (true :: true :: (List.replicate ((8 - (pos + 2) % 8) % 8) false ++ rest))
      = some (MetaBlock.lastEmpty, pos + 2 + (8 - (pos + 2) % 8) % 8, rest) := by
    simp [readMetaBlock, skipPad_pad]
  unfold readMetaBlockFullG emptyLastBits padTo8
  simp only [List.append_assoc, List.cons_append, List.nil_append, h]
  simp
  omega

theorem stored_readsG (wo : WordOracle) (window : Nat) (large : Bool) (data : List Nat) (pos : Nat) (s : RdSt)
    (h1 : 1 ≤ data.length) (h2 : data.length ≤ 2 ^ 24) (hb : ∀ b ∈ data, b < 256) :
    ReadsToG wo window large pos s (storedBits data pos) false (pos + (storedBits data pos).length)
      ⟨s.out ++ data, s.ring⟩ := by
  intro rest
  unfold readMetaBlockFullG
  rw [stored_read data pos rest h1 h2 hb]

/-- two consecutive pieces, the first not last -/
theorem readMetaBlocksG_two (wo : WordOracle) (window : Nat) (large : Bool) (pos p1 p2 : Nat) (s s1 s2 : RdSt)
    (b1 b2 rest : List Bool) (f : Nat) (h1 : ReadsToG wo window large pos s b1 false p1 s1)
    (h2 : ReadsToG wo window large p1 s1 b2 true p2 s2) :
    readMetaBlocksG wo window large (f + 2) pos s (b1 ++ (b2 ++ rest)) = some (s2, rest) := by
  simp only [readMetaBlocksG, h1 (b2 ++ rest), h2 rest]

theorem readMetaBlocksG_one (wo : WordOracle) (window : Nat) (large : Bool) (pos p1 : Nat) (s s1 : RdSt)
    (b1 rest : List Bool) (f : Nat) (h1 : ReadsToG wo window large pos s b1 true p1 s1) :
    readMetaBlocksG wo window large (f + 1) pos s (b1 ++ rest) = some (s1, rest) := by
  simp only [readMetaBlocksG, h1 rest]

/-- the stored branch of `WriteMetaBlockInternal`, with its closing empty last block where one is written -/
theorem wmbi_storedG (wo : WordOracle) (window : Nat) (large : Bool) (appendable actualIsLast : Bool)
    (data : List Nat) (w : Writer) (s : RdSt) (h1 : 1 ≤ data.length) (h2 : data.length ≤ 2 ^ 24)
    (hb : ∀ b ∈ data, b < 256) :
    ∃ r bits, ((storeUncompressedMetaBlock false data w).bind fun b =>
        (storeUncompressedMetaBlock (if appendable then false else actualIsLast) data w).bind fun f =>
        if (if appendable then false else actualIsLast) then Out.ok ({ body := b, fin := f } : MbOut)
        else (if actualIsLast != (if appendable then false else actualIsLast) then
            (writeEmptyLastMetaBlock f).bind fun f' => Out.ok { body := f, fin := f' }
          else Out.ok { body := f, fin := f })) = .ok r ∧ r.fin = w ++ bits ∧
      (actualIsLast = true → ∀ rest f, readMetaBlocksG wo window large (f + 2) w.length s (bits ++ rest)
        = some (⟨s.out ++ data, s.ring⟩, rest)) ∧
      (actualIsLast = false → ReadsToG wo window large w.length s bits false (w.length + bits.length)
        ⟨s.out ++ data, s.ring⟩) := by
  have hsr := stored_readsG wo window large data w.length s h1 h2 hb
  have her := emptyLast_readsG wo window large (w.length + (storedBits data w.length).length) ⟨s.out ++ data, s.ring⟩
  rw [stored_false_ok data w h1 h2, obind_ok]
  cases actualIsLast
  · -- not the end of the stream: one stored block
    refine ⟨⟨w ++ storedBits data w.length, w ++ storedBits data w.length⟩, storedBits data w.length, ?_, rfl,
      (fun h => by cases h), fun _ => hsr⟩
    simp only [Bool.false_eq_true, if_false, ite_self, stored_false_ok data w h1 h2, obind_ok, bne_self_eq_false]
  · cases appendable
    · -- the stored block is marked last: it carries its own `1,1` tail
      refine ⟨⟨w ++ storedBits data w.length,
          w ++ (storedBits data w.length ++ emptyLastBits (w.length + (storedBits data w.length).length))⟩,
        storedBits data w.length ++ emptyLastBits (w.length + (storedBits data w.length).length), ?_, rfl, ?_,
        (fun h => by cases h)⟩
      · simp only [Bool.false_eq_true, if_false, if_true, stored_true_ok data w h1 h2, obind_ok]
      · intro _ rest f
        rw [List.append_assoc]
        exact readMetaBlocksG_two wo window large _ _ _ s _ _ _ _ rest f hsr her
    · -- appendable: stored block, then the separate empty last block
      refine ⟨⟨w ++ storedBits data w.length,
          w ++ storedBits data w.length ++ emptyLastBits (w ++ storedBits data w.length).length⟩,
        storedBits data w.length ++ emptyLastBits (w.length + (storedBits data w.length).length), ?_, ?_, ?_,
        (fun h => by cases h)⟩
      · simp only [if_true, Bool.false_eq_true, if_false, stored_false_ok data w h1 h2, obind_ok,
          show (true != false) = true by rfl]
        rw [writeEmptyLast_ok, obind_ok]
      · simp [List.append_assoc]
      · intro _ rest f
        rw [List.append_assoc]
        exact readMetaBlocksG_two wo window large _ _ _ s _ _ _ _ rest f hsr her

/-- **`WriteMetaBlockInternal` decodes, whichever branch it takes.**  `o.attempt` = the bits of the compressed
attempt (any writer), assumed to be read by the RFC reader from state `s` to a state `s'` whose output is
`s.out ++ data` and to carry the ISLAST flag the function passes to the writer.  Then for every verdict of
`should_compress`, and whether or not the "bigger than input + 4" test replaces the attempt by the stored
representation, what the call leaves in the storage is read from `s` to a state whose output is `s.out ++ data`:
as a single non-last meta-block when the stream goes on, as the end of the stream (incl. the separate empty last
meta-block of appendable streams) when `actual_is_last`. -/
theorem wmbi_readsG (wo : WordOracle) (window : Nat) (large : Bool) (appendable catable actualIsLast : Bool)
    (data : List Nat) (o : MbOracle) (w : Writer) (s s' : RdSt)
    (hcat : catable = true → appendable = true) (h1 : 1 ≤ data.length) (h2 : data.length ≤ 2 ^ 24)
    (hw : w.length < 256) (hb : ∀ b ∈ data, b < 256) (hs' : s'.out = s.out ++ data)
    (hatt : o.shouldCompress = true → ReadsToG wo window large w.length s o.attempt
      (if appendable then false else actualIsLast) (w.length + o.attempt.length) s') :
    ∃ r bits s'', writeMetaBlockInternal appendable catable actualIsLast data o w = .ok r ∧ r.fin = w ++ bits ∧
      s''.out = s.out ++ data ∧
      (actualIsLast = true → ∀ rest f, readMetaBlocksG wo window large (f + 2) w.length s (bits ++ rest) = some (s'', rest)) ∧
      (actualIsLast = false → ReadsToG wo window large w.length s bits false (w.length + bits.length) s'') := by
  obtain ⟨l1, l8, l17, l18⟩ := wmbi_lits
  have hnc : (!appendable && catable) = false := by
    cases appendable <;> cases catable <;> simp at hcat ⊢
  obtain ⟨rS, bitsS, eS, fS, aS, bS⟩ := wmbi_storedG wo window large appendable actualIsLast data w s h1 h2 hb
  unfold writeMetaBlockInternal
  simp only [hnc, Bool.false_eq_true, if_false, l1, show ¬ data.length = 0 by omega, l8, l17, l18]
  by_cases hsc : o.shouldCompress = true
  · simp only [hsc, Bool.not_true, Bool.false_eq_true, if_false]
    by_cases hbig : data.length + 4 + w.length >>> 3 < (w ++ o.attempt).length >>> 3
    · -- the attempt is replaced by the stored representation
      rw [if_pos hbig, if_neg (by rw [Nat.mod_eq_of_lt hw]; simp)]
      exact ⟨rS, bitsS, ⟨s.out ++ data, s.ring⟩, eS, fS, rfl, aS, bS⟩
    · -- the attempt is kept
      rw [if_neg hbig]
      have hr := hatt hsc
      cases hal : actualIsLast
      · -- the stream goes on
        subst hal
        simp only [Bool.false_eq_true, if_false, ite_self] at hr
        refine ⟨⟨w ++ o.attempt, w ++ o.attempt⟩, o.attempt, s', ?_, rfl, hs', (fun h => by cases h), fun _ => hr⟩
        simp only [Bool.false_eq_true, if_false, ite_self, bne_self_eq_false]
      · subst hal
        cases happ : appendable
        · subst happ
          simp only [Bool.false_eq_true, if_false] at hr
          refine ⟨⟨w ++ o.attempt, w ++ o.attempt⟩, o.attempt, s', ?_, rfl, hs', ?_, (fun h => by cases h)⟩
          · simp only [Bool.false_eq_true, if_false, bne_self_eq_false]
          · intro _ rest f
            exact readMetaBlocksG_one wo window large _ _ s s' _ rest (f + 1) hr
        · subst happ
          simp only [if_true] at hr
          refine ⟨⟨w ++ o.attempt, w ++ o.attempt ++ emptyLastBits (w ++ o.attempt).length⟩,
            o.attempt ++ emptyLastBits (w ++ o.attempt).length, s', ?_, by simp [List.append_assoc], hs', ?_,
            (fun h => by cases h)⟩
          · simp only [if_true, show (true != false) = true by rfl]
            rw [writeEmptyLast_ok, obind_ok]
          · intro _ rest f
            rw [List.append_assoc]
            have her := emptyLast_readsG wo window large (w ++ o.attempt).length s'
            rw [List.length_append] at her
            exact readMetaBlocksG_two wo window large _ _ _ s s' s' _ _ rest f hr (by rw [List.length_append]; exact her)
  · -- `should_compress` said no
    have : o.shouldCompress = false := by simpa using hsc
    simp only [this, Bool.not_false, if_true]
    exact ⟨rS, bitsS, ⟨s.out ++ data, s.ring⟩, eS, fS, rfl, aS, bS⟩

end BV.MetaBlock
