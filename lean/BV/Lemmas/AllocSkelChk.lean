import BV.Model.AllocSkel
/-!
Soundness of the static checker `BV.Skel.chk` for the path semantics `BV.Skel.run`, for EVERY script
(every branch choice, loop count, zero-length allocation):

if `chk sk m = some o` and `m` over-approximates the places that hold a block, then running `sk`
loses nothing (no place is overwritten while it holds a block, no local goes out of scope holding
one) and the places that hold a block afterwards are over-approximated by `o.normal` (normal exit)
resp. `o.rets` (exit through `ret`).
-/
namespace BV.Skel
open BV.Ledger

/-- `m` over-approximates the places that hold a block -/
def Abs (m : List Var) (s : St) : Prop := ∀ p ∈ s.store, p.1 ∈ m

theorem Abs.mono {a b : List Var} {s : St} (h : ∀ v ∈ a, v ∈ b) (ha : Abs a s) : Abs b s :=
  fun p hp => h _ (ha p hp)

theorem subsetB_mem {a b : List Var} (h : subsetB a b = true) : ∀ v ∈ a, v ∈ b := by
  intro v hv
  simp only [subsetB, List.all_eq_true] at h
  have := h v hv
  simpa using this

theorem mem_joinO_left {a : List Var} {y : Option (List Var)} :
    ∃ c, joinO (some a) y = some c ∧ ∀ v ∈ a, v ∈ c := by
  cases y with
  | none => exact ⟨a, rfl, fun _ h => h⟩
  | some b => exact ⟨_, rfl, fun v h => List.mem_append_left _ h⟩

theorem mem_joinO_right {b : List Var} {x : Option (List Var)} :
    ∃ c, joinO x (some b) = some c ∧ ∀ v ∈ b, v ∈ c := by
  cases x with
  | none => exact ⟨b, rfl, fun _ h => h⟩
  | some a =>
    refine ⟨_, rfl, fun v h => ?_⟩
    by_cases hv : v ∈ a
    · exact List.mem_append_left _ hv
    · apply List.mem_append_right
      simp [List.mem_filter, h, hv]

/-- what `chk_sound` says about one run -/
def Post (o : AOut) (s : St) (r : Res) : Prop :=
  r.st.lost = s.lost ∧
  (r.returned = true → ∃ m', o.rets = some m' ∧ Abs m' r.st) ∧
  (r.returned = false → ∃ m', o.normal = some m' ∧ Abs m' r.st)

/-! ### micro-operations -/

theorem at_nil_of_not_mem {m : List Var} {s : St} (h : Abs m s) {v : Var} (hv : v ∉ m) : s.at v = [] := by
  simp only [St.at, List.map_eq_nil_iff, List.filter_eq_nil_iff]
  intro p hp
  have := h p hp
  simp only [decide_eq_true_eq]
  intro e
  exact hv (e ▸ this)

theorem doAlloc_sound {m : List Var} {s : St} (h : Abs m s) {v : Var} (hv : v ∉ m) (nz : Bool) :
    (doAlloc s v nz).lost = s.lost ∧ Abs (v :: m) (doAlloc s v nz) := by
  have hat := at_nil_of_not_mem h hv
  cases nz
  · refine ⟨by simp [doAlloc, hat], ?_⟩
    intro p hp
    simp only [doAlloc, St.without, Bool.false_eq_true, if_false, List.mem_filter] at hp
    exact List.mem_cons_of_mem _ (h p hp.1)
  · refine ⟨by simp [doAlloc, hat], ?_⟩
    intro p hp
    simp only [doAlloc, St.without, if_true, List.mem_append, List.mem_filter, List.mem_singleton] at hp
    rcases hp with hp | hp
    · exact List.mem_cons_of_mem _ (h p hp.1)
    · subst hp; exact List.mem_cons_self

theorem doFree_sound {m : List Var} {s : St} (h : Abs m s) (v : Var) :
    (doFree s v).lost = s.lost ∧ Abs (m.filter (fun u => u != v)) (doFree s v) := by
  refine ⟨rfl, ?_⟩
  intro p hp
  simp only [doFree, St.without, List.mem_filter] at hp
  simp only [List.mem_filter]
  refine ⟨h p hp.1, ?_⟩
  simpa using hp.2

theorem doMove_sound {m : List Var} {s : St} (h : Abs m s) (src dst : Var) (hne : src ≠ dst)
    (hd : m.any (fun u => isPre dst u) = false) :
    (doMove s src dst).lost = s.lost ∧ Abs (m.map (retag src dst)) (doMove s src dst) := by
  have hnone : s.store.filter (fun p => isPre dst p.1) = [] := by
    simp only [List.filter_eq_nil_iff]
    intro p hp hpre
    have hm := h p hp
    have : m.any (fun u => isPre dst u) = true := List.any_eq_true.mpr ⟨p.1, hm, hpre⟩
    rw [hd] at this
    exact Bool.noConfusion this
  refine ⟨by simp [doMove, hne, hnone], ?_⟩
  intro p hp
  simp only [doMove, hne, if_false, List.mem_map, List.mem_filter] at hp
  obtain ⟨q, ⟨hq, _⟩, rfl⟩ := hp
  exact List.mem_map.mpr ⟨q.1, h q hq, rfl⟩

theorem doExit_sound {m : List Var} {s : St} (h : Abs m s) (tag : Nat)
    (ht : m.any (fun v => v.head? == some tag) = false) :
    (doExit s tag).lost = s.lost ∧ Abs m (doExit s tag) := by
  have hnone : s.store.filter (fun p => p.1.head? = some tag) = [] := by
    simp only [List.filter_eq_nil_iff]
    intro p hp hhead
    have hm := h p hp
    have : m.any (fun v => v.head? == some tag) = true :=
      List.any_eq_true.mpr ⟨p.1, hm, by simpa using hhead⟩
    rw [ht] at this
    exact Bool.noConfusion this
  refine ⟨by simp [doExit, hnone], ?_⟩
  intro p hp
  simp only [doExit, List.mem_filter] at hp
  exact h p hp.1

/-! ### loops -/

theorem loopInv_spec (body : List Var → Option AOut) : ∀ (k : Nat) (m inv : List Var) (o : AOut),
    loopInv body k m = some (inv, o) →
    (∀ v ∈ m, v ∈ inv) ∧ body inv = some o ∧ (∀ m', o.normal = some m' → ∀ v ∈ m', v ∈ inv) := by
  intro k
  induction k with
  | zero => intro m inv o h; simp [loopInv] at h
  | succ k ih =>
    intro m inv o h
    simp only [loopInv] at h
    cases hb : body m with
    | none => simp [hb] at h
    | some o1 =>
      simp only [hb] at h
      cases hn : o1.normal with
      | none =>
        simp only [hn, Option.some.injEq, Prod.mk.injEq] at h
        obtain ⟨rfl, rfl⟩ := h
        exact ⟨fun _ h => h, hb, by intro m' hm'; rw [hn] at hm'; cases hm'⟩
      | some m1 =>
        simp only [hn] at h
        by_cases hs : subsetB m1 m = true
        · simp only [hs, if_true, Option.some.injEq, Prod.mk.injEq] at h
          obtain ⟨rfl, rfl⟩ := h
          refine ⟨fun _ h => h, hb, ?_⟩
          intro m' hm'
          rw [hn] at hm'
          cases hm'
          exact subsetB_mem hs
        · simp only [hs, if_false] at h
          obtain ⟨h1, h2, h3⟩ := ih _ inv o h
          exact ⟨fun v hv => h1 v (List.mem_append_left _ hv), h2, h3⟩

theorem iter_sound (f : St × List Nat → Res) (inv : List Var) (o : AOut)
    (hf : ∀ s sc, Abs inv s → Post o s (f (s, sc)))
    (hn : ∀ m', o.normal = some m' → ∀ v ∈ m', v ∈ inv) :
    ∀ (n : Nat) (s : St) (sc : List Nat), Abs inv s →
      (iter f n (s, sc)).st.lost = s.lost ∧
      ((iter f n (s, sc)).returned = true → ∃ m', o.rets = some m' ∧ Abs m' (iter f n (s, sc)).st) ∧
      ((iter f n (s, sc)).returned = false → Abs inv (iter f n (s, sc)).st) := by
  intro n
  induction n with
  | zero => intro s sc h; exact ⟨rfl, by simp [iter], fun _ => h⟩
  | succ n ih =>
    intro s sc h
    obtain ⟨p1, p2, p3⟩ := hf s sc h
    simp only [iter]
    by_cases hr : (f (s, sc)).returned = true
    · simp only [hr, if_true]
      exact ⟨p1, fun _ => p2 hr, fun h' => by first | cases h' | (rw [hr] at h'; cases h')⟩
    · have hr' : (f (s, sc)).returned = false := by simpa using hr
      simp only [hr', Bool.false_eq_true, if_false]
      obtain ⟨m', hm', ha⟩ := p3 hr'
      have hinv : Abs inv (f (s, sc)).st := Abs.mono (hn m' hm') ha
      obtain ⟨q1, q2, q3⟩ := ih (f (s, sc)).st (f (s, sc)).script hinv
      exact ⟨q1.trans p1, q2, q3⟩

/-! ### the checker -/

theorem chk_sound (sk : Sk) : ∀ (m : List Var) (o : AOut) (s : St) (sc : List Nat),
    chk sk m = some o → Abs m s → Post o s (run sk (s, sc)) := by
  induction sk with
  | skip =>
    intro m o s sc h ha
    simp only [chk, Option.some.injEq] at h
    subst h
    exact ⟨rfl, by simp [run], fun _ => ⟨m, rfl, ha⟩⟩
  | alloc ty v =>
    intro m o s sc h ha
    simp only [chk] at h
    by_cases hv : m.contains v = true
    · rw [if_pos hv] at h; cases h
    · simp only [hv, Bool.false_eq_true, if_false, Option.some.injEq] at h
      subst h
      have hv' : v ∉ m := by simpa using hv
      obtain ⟨h1, h2⟩ := doAlloc_sound ha hv' (sc.headD 1 != 0)
      exact ⟨h1, by simp [run], fun _ => ⟨_, rfl, h2⟩⟩
  | free ty v =>
    intro m o s sc h ha
    simp only [chk, Option.some.injEq] at h
    subst h
    obtain ⟨h1, h2⟩ := doFree_sound ha v
    exact ⟨h1, by simp [run], fun _ => ⟨_, rfl, h2⟩⟩
  | move src dst =>
    intro m o s sc h ha
    simp only [chk] at h
    by_cases he : src = dst
    · simp only [he, if_true, Option.some.injEq] at h
      subst h
      refine ⟨by simp [run, doMove, he], by simp [run], fun _ => ⟨m, rfl, ?_⟩⟩
      simpa [run, doMove, he] using ha
    · simp only [he, if_false] at h
      by_cases hd : m.any (fun u => isPre dst u) = true
      · simp [hd] at h
      · have hd' : m.any (fun u => isPre dst u) = false := by simpa using hd
        simp only [hd', Bool.false_eq_true, if_false, Option.some.injEq] at h
        subst h
        obtain ⟨h1, h2⟩ := doMove_sound ha src dst he hd'
        exact ⟨h1, by simp [run], fun _ => ⟨_, rfl, h2⟩⟩
  | seq a b iha ihb =>
    intro m o s sc h ha
    simp only [chk] at h
    cases hca : chk a m with
    | none => simp [hca] at h
    | some o1 =>
      simp only [hca] at h
      obtain ⟨p1, p2, p3⟩ := iha m o1 s sc hca ha
      cases hn : o1.normal with
      | none =>
        simp only [hn, Option.some.injEq] at h
        subst h
        -- the first part cannot end normally
        have hr : (run a (s, sc)).returned = true := by
          cases hrr : (run a (s, sc)).returned with
          | true => rfl
          | false => obtain ⟨m', hm', _⟩ := p3 hrr; rw [hn] at hm'; cases hm'
        simp only [run, hr, if_true]
        exact ⟨p1, p2, p3⟩
      | some m1 =>
        simp only [hn] at h
        cases hcb : chk b m1 with
        | none => simp [hcb] at h
        | some o2 =>
          simp only [hcb, Option.some.injEq] at h
          subst h
          simp only [run]
          by_cases hr : (run a (s, sc)).returned = true
          · simp only [hr, if_true]
            refine ⟨p1, fun _ => ?_, fun h' => by first | cases h' | (rw [hr] at h'; cases h')⟩
            obtain ⟨m', hm', hab⟩ := p2 hr
            simp only [hm']
            obtain ⟨c, hc, hsub⟩ := @mem_joinO_left m' o2.rets
            exact ⟨c, hc, Abs.mono hsub hab⟩
          · have hr' : (run a (s, sc)).returned = false := by simpa using hr
            simp only [hr', Bool.false_eq_true, if_false]
            obtain ⟨m', hm', hab⟩ := p3 hr'
            rw [hn] at hm'
            cases hm'
            obtain ⟨q1, q2, q3⟩ := ihb m1 o2 (run a (s, sc)).st (run a (s, sc)).script hcb hab
            refine ⟨q1.trans p1, fun hq => ?_, q3⟩
            obtain ⟨m'', hm'', hab'⟩ := q2 hq
            simp only [hm'']
            obtain ⟨c, hc, hsub⟩ := @mem_joinO_right m'' o1.rets
            exact ⟨c, hc, Abs.mono hsub hab'⟩
  | alt a b iha ihb =>
    intro m o s sc h ha
    simp only [chk] at h
    cases hca : chk a m with
    | none => simp [hca] at h
    | some o1 =>
      cases hcb : chk b m with
      | none => simp [hca, hcb] at h
      | some o2 =>
        simp only [hca, hcb, Option.some.injEq] at h
        subst h
        simp only [run]
        by_cases hc : sc.headD 0 = 0
        · simp only [hc, if_true]
          obtain ⟨p1, p2, p3⟩ := iha m o1 s sc.tail hca ha
          refine ⟨p1, fun hq => ?_, fun hq => ?_⟩
          · obtain ⟨m', hm', hab⟩ := p2 hq
            simp only [hm']
            obtain ⟨c, hc', hsub⟩ := @mem_joinO_left m' o2.rets
            exact ⟨c, hc', Abs.mono hsub hab⟩
          · obtain ⟨m', hm', hab⟩ := p3 hq
            simp only [hm']
            obtain ⟨c, hc', hsub⟩ := @mem_joinO_left m' o2.normal
            exact ⟨c, hc', Abs.mono hsub hab⟩
        · simp only [hc, if_false]
          obtain ⟨p1, p2, p3⟩ := ihb m o2 s sc.tail hcb ha
          refine ⟨p1, fun hq => ?_, fun hq => ?_⟩
          · obtain ⟨m', hm', hab⟩ := p2 hq
            simp only [hm']
            obtain ⟨c, hc', hsub⟩ := @mem_joinO_right m' o1.rets
            exact ⟨c, hc', Abs.mono hsub hab⟩
          · obtain ⟨m', hm', hab⟩ := p3 hq
            simp only [hm']
            obtain ⟨c, hc', hsub⟩ := @mem_joinO_right m' o1.normal
            exact ⟨c, hc', Abs.mono hsub hab⟩
  | loop b ihb =>
    intro m o s sc h ha
    simp only [chk] at h
    cases hl : loopInv (chk b) 64 m with
    | none => simp [hl] at h
    | some r =>
      obtain ⟨inv, o1⟩ := r
      simp only [hl, Option.some.injEq] at h
      subst h
      obtain ⟨h1, h2, h3⟩ := loopInv_spec (chk b) 64 m inv o1 hl
      have hinv : Abs inv s := Abs.mono h1 ha
      obtain ⟨q1, q2, q3⟩ := iter_sound (run b) inv o1 (fun s' sc' hs' => ihb inv o1 s' sc' h2 hs') h3
        (sc.headD 0) s sc.tail hinv
      simp only [run]
      exact ⟨q1, q2, fun hq => ⟨inv, rfl, q3 hq⟩⟩
  | ret =>
    intro m o s sc h ha
    simp only [chk, Option.some.injEq] at h
    subst h
    exact ⟨rfl, fun _ => ⟨m, rfl, ha⟩, by simp [run]⟩
  | scope tag b ihb =>
    intro m o s sc h ha
    simp only [chk] at h
    cases hcb : chk b m with
    | none => simp [hcb] at h
    | some o1 =>
      simp only [hcb] at h
      obtain ⟨p1, p2, p3⟩ := ihb m o1 s sc hcb ha
      -- whatever way the body ends, the join covers it
      have hcover : ∃ j, joinO o1.normal o1.rets = some j ∧ Abs j (run b (s, sc)).st := by
        cases hr : (run b (s, sc)).returned with
        | true =>
          obtain ⟨m', hm', hab⟩ := p2 hr
          simp only [hm']
          obtain ⟨c, hc, hsub⟩ := @mem_joinO_right m' o1.normal
          exact ⟨c, hc, Abs.mono hsub hab⟩
        | false =>
          obtain ⟨m', hm', hab⟩ := p3 hr
          simp only [hm']
          obtain ⟨c, hc, hsub⟩ := @mem_joinO_left m' o1.rets
          exact ⟨c, hc, Abs.mono hsub hab⟩
      obtain ⟨j, hj, habj⟩ := hcover
      simp only [hj] at h
      by_cases ht : j.any (fun v => v.head? == some tag) = true
      · simp [ht] at h
      · have ht' : j.any (fun v => v.head? == some tag) = false := by simpa using ht
        simp only [ht', Bool.false_eq_true, if_false, Option.some.injEq] at h
        subst h
        obtain ⟨e1, e2⟩ := doExit_sound habj tag ht'
        simp only [run]
        exact ⟨e1.trans p1, by simp, fun _ => ⟨j, rfl, e2⟩⟩
  | call f site binds =>
    intro m o s sc h _
    simp [chk] at h
  | «opaque» f =>
    intro m o s sc h ha
    simp only [chk, Option.some.injEq] at h
    subst h
    exact ⟨rfl, by simp [run], fun _ => ⟨m, rfl, ha⟩⟩

/-- **balancedFrom_sound**: a root skeleton accepted by the checker from the entry assumption `m0`, run from
    any state in which only places of `m0` hold a block, on ANY path: loses nothing, and every place that
    still holds a block lies under one of the declared out-parameters -/
theorem balancedFrom_sound (m0 : List Var) (esc : List Nat) (root : Sk) (h : balancedFrom m0 esc root = true)
    (s : St) (ha : Abs m0 s) (sc : List Nat) :
    (run root (s, sc)).st.lost = s.lost ∧
    ∀ p ∈ (run root (s, sc)).st.store, ∃ a, p.1.head? = some a ∧ a ∈ esc := by
  unfold balancedFrom at h
  cases hc : chk root m0 with
  | none => simp [hc] at h
  | some o =>
    obtain ⟨p1, p2, p3⟩ := chk_sound root m0 o s sc hc ha
    refine ⟨p1, ?_⟩
    obtain ⟨on, ort⟩ := o
    cases ort with
    | some r => cases on <;> simp [hc] at h
    | none =>
      have hr : (run root (s, sc)).returned = false := by
        cases hrr : (run root (s, sc)).returned with
        | false => rfl
        | true => obtain ⟨m', hm', _⟩ := p2 hrr; cases hm'
      obtain ⟨m', hm', hab⟩ := p3 hr
      cases on with
      | none => cases hm'
      | some mm =>
        simp only [Option.some.injEq] at hm'
        subst hm'
        simp only [hc, List.all_eq_true] at h
        intro p hp
        have := h p.1 (hab p hp)
        cases hh : p.1.head? with
        | none => simp [hh] at this
        | some a => exact ⟨a, rfl, by simpa [hh] using this⟩

/-- the special case of an empty entry assumption -/
theorem balancedEsc_sound (esc : List Nat) (root : Sk) (h : balancedEsc esc root = true) (s : St)
    (hs : s.store = []) (sc : List Nat) :
    (run root (s, sc)).st.lost = s.lost ∧
    ∀ p ∈ (run root (s, sc)).st.store, ∃ a, p.1.head? = some a ∧ a ∈ esc :=
  balancedFrom_sound [] esc root h s (by intro p hp; rw [hs] at hp; cases hp) sc

theorem entryVars_nil (root : Sk) : entryVars [] root = [] := by
  simp only [entryVars, List.filter_eq_nil_iff]
  intro v _
  cases v.head? <;> simp

theorem balanced_sound (root : Sk) (h : balanced root = true) (s : St) (hs : s.store = []) (sc : List Nat) :
    (run root (s, sc)).st.lost = s.lost ∧ (run root (s, sc)).st.store = [] := by
  obtain ⟨h1, h2⟩ := balancedEsc_sound [] root h s hs sc
  refine ⟨h1, ?_⟩
  cases hst : (run root (s, sc)).st.store with
  | nil => rfl
  | cons p rest =>
    obtain ⟨a, _, ha⟩ := h2 p (by rw [hst]; exact List.mem_cons_self)
    cases ha

end BV.Skel
