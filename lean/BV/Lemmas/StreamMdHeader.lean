import BV.Lemmas.StreamBits
/-
`write_metadata_header` against the spec reader: for every block size up to 2^24 and every
carry, the header (and the zero fill) parses back to exactly that size.
-/
namespace BV.Stream
open BV.Bits

/-- number of length bytes `write_metadata_header` uses for a non-empty block -/
def mdNbytes (n : Nat) : Nat := ((if n = 1 then 1 else Nat.log2 (n - 1) + 1) + 7) / 8

theorem mdNbytes_spec {n : Nat} (h1 : 1 ≤ n) (h2 : n ≤ 16777216) :
    1 ≤ mdNbytes n ∧ mdNbytes n ≤ 3 ∧ n - 1 < 2 ^ (8 * mdNbytes n) ∧
    (mdNbytes n ≤ 1 ∨ 2 ^ (8 * (mdNbytes n - 1)) ≤ n - 1) := by
  unfold mdNbytes
  by_cases hn1 : n = 1
  · subst hn1; simp
  · rw [if_neg hn1]
    have hm : n - 1 ≠ 0 := by omega
    have hlo : 2 ^ Nat.log2 (n - 1) ≤ n - 1 := Nat.log2_self_le hm
    have hhi : n - 1 < 2 ^ (Nat.log2 (n - 1) + 1) := Nat.lt_log2_self
    have hlt24 : Nat.log2 (n - 1) < 24 := (Nat.log2_lt hm).mpr (by omega)
    generalize hL : Nat.log2 (n - 1) = L at *
    -- three ranges of L
    have hcase : L < 8 ∨ (8 ≤ L ∧ L < 16) ∨ (16 ≤ L ∧ L < 24) := by omega
    rcases hcase with hc | ⟨hc1, hc2⟩ | ⟨hc1, hc2⟩
    · have hk : (L + 1 + 7) / 8 = 1 := by omega
      rw [hk]
      refine ⟨by omega, by omega, ?_, Or.inl (by omega)⟩
      have : 2 ^ (L + 1) ≤ 2 ^ (8 * 1) := Nat.pow_le_pow_right (by omega) (by omega)
      omega
    · have hk : (L + 1 + 7) / 8 = 2 := by omega
      rw [hk]
      refine ⟨by omega, by omega, ?_, Or.inr ?_⟩
      · have : 2 ^ (L + 1) ≤ 2 ^ (8 * 2) := Nat.pow_le_pow_right (by omega) (by omega)
        omega
      · have : 2 ^ (8 * (2 - 1)) ≤ 2 ^ L := Nat.pow_le_pow_right (by omega) (by omega)
        omega
    · have hk : (L + 1 + 7) / 8 = 3 := by omega
      rw [hk]
      refine ⟨by omega, by omega, ?_, Or.inr ?_⟩
      · have : 2 ^ (L + 1) ≤ 2 ^ (8 * 3) := Nat.pow_le_pow_right (by omega) (by omega)
        omega
      · have : 2 ^ (8 * (3 - 1)) ≤ 2 ^ L := Nat.pow_le_pow_right (by omega) (by omega)
        omega

/-- the spec reader on a header built from `k` length bytes holding `v` -/
theorem parseHeader_build (k v : Nat) (hk : k ≤ 3) (hv : v < 2 ^ (8 * k))
    (hmin : k ≤ 1 ∨ 2 ^ (8 * (k - 1)) ≤ v) (R : List Bool) :
    Spec.parseMetadataHeader ([false, true, true, false] ++ bitsOf 2 k ++ bitsOf (8 * k) v ++ R)
      = some (if k = 0 then 0 else v + 1, R) := by
  have hbits : bitsOf 2 k = [k % 2 == 1, k / 2 % 2 == 1] := by simp [bitsOf]
  rw [hbits]
  simp only [List.cons_append, List.nil_append, Spec.parseMetadataHeader]
  have hkk : ((if (k % 2 == 1) = true then 1 else 0) + 2 * (if (k / 2 % 2 == 1) = true then 1 else 0)) = k := by
    have : k = 0 ∨ k = 1 ∨ k = 2 ∨ k = 3 := by omega
    rcases this with rfl | rfl | rfl | rfl <;> rfl
  rw [hkk]
  have hlen : ¬ (bitsOf (8 * k) v ++ R).length < 8 * k := by
    rw [List.length_append, bitsOf_length]; omega
  rw [if_neg hlen]
  have htake : (bitsOf (8 * k) v ++ R).take (8 * k) = bitsOf (8 * k) v := by
    rw [List.take_append_of_le_length (by rw [bitsOf_length]; exact Nat.le_refl _)]
    rw [List.take_of_length_le (by rw [bitsOf_length]; exact Nat.le_refl _)]
  have hdrop : (bitsOf (8 * k) v ++ R).drop (8 * k) = R := by
    rw [List.drop_append_of_le_length (by rw [bitsOf_length]; exact Nat.le_refl _)]
    rw [List.drop_of_length_le (by rw [bitsOf_length]; exact Nat.le_refl _)]
    rfl
  simp only [htake, hdrop, valOf_bitsOf_lt hv]
  have hnot : ¬ (k > 1 ∧ v / 2 ^ (8 * (k - 1)) = 0) := by
    intro ⟨hk1, hz⟩
    rcases hmin with h | h
    · omega
    · have hpos : 0 < 2 ^ (8 * (k - 1)) := Nat.pow_pos (by omega)
      have : 1 ≤ v / 2 ^ (8 * (k - 1)) := (Nat.le_div_iff_mul_le hpos).mpr (by omega)
      omega
  rw [if_neg hnot]

/-- the header bits `write_metadata_header` appends behind the carry (before the zero fill) -/
def mdHeader (n : Nat) : List Bool :=
  [false, true, true, false] ++ bitsOf 2 (if n = 0 then 0 else mdNbytes n) ++
    bitsOf (8 * (if n = 0 then 0 else mdNbytes n)) (n - 1)

theorem mdHeader_length (n : Nat) : (mdHeader n).length = 6 + 8 * (if n = 0 then 0 else mdNbytes n) := by
  simp [mdHeader, bitsOf_length]; omega

theorem metadataHeaderBits_eq (n : Nat) (hn : n ≤ 16777216) (carry : Writer) :
    metadataHeaderBits n carry = padToByte (carry ++ mdHeader n) := by
  have e1 : carry ++ bitsOf 1 0 ++ bitsOf 2 3 ++ bitsOf 1 0 = carry ++ [false, true, true, false] := by
    simp [bitsOf]
  unfold metadataHeaderBits
  simp only [e1]
  by_cases h0 : n = 0
  · subst h0
    simp only [↓reduceIte, mdHeader, Nat.mul_zero, List.append_assoc]
    rfl
  · have hmod : (n % two32 + two32 - 1) % two32 = n - 1 := by
      have hlt : n < two32 := by unfold two32; omega
      rw [Nat.mod_eq_of_lt hlt]
      have : n + two32 - 1 = (n - 1) + two32 := by omega
      rw [this, Nat.add_mod_right, Nat.mod_eq_of_lt (by omega)]
    have hk : ((if n = 1 then 1 else Nat.log2 ((n % two32 + two32 - 1) % two32) + 1) + 7) / 8 = mdNbytes n := by
      rw [hmod]; rfl
    simp only [h0, ↓reduceIte, hk, mdHeader, List.append_assoc]

theorem padToByte_drop (a b : List Bool) :
    (padToByte (a ++ b)).drop a.length = b ++ List.replicate ((8 - (a.length + b.length) % 8) % 8) false := by
  unfold padToByte
  rw [List.append_assoc, List.drop_append_of_le_length (Nat.le_refl _), List.drop_of_length_le (Nat.le_refl _),
    List.length_append]
  rfl

/-- **metadata_header_inverse**, block form: behind any carry, the header written for a block of
`n ≤ 2^24` bytes, its zero fill and `n` payload bytes are read back by the spec as exactly that
payload, ending where the payload ends -/
theorem metadataHeader_parses (n : Nat) (hn : n ≤ 16777216) (carry : Writer) (payload rest : List Bool)
    (hp : payload.length = 8 * n) :
    Spec.parseMetadataBlock carry.length ((metadataHeaderBits n carry).drop carry.length ++ payload ++ rest)
      = some (payload, rest) := by
  rw [metadataHeaderBits_eq n hn, padToByte_drop]
  generalize hpad : (8 - (carry.length + (mdHeader n).length) % 8) % 8 = pad
  -- the header part
  have hparse : Spec.parseMetadataHeader (mdHeader n ++ List.replicate pad false ++ payload ++ rest)
      = some (n, List.replicate pad false ++ payload ++ rest) := by
    unfold mdHeader
    by_cases h0 : n = 0
    · subst h0
      have := parseHeader_build 0 0 (by omega) (by simp) (Or.inl (by omega)) (List.replicate pad false ++ payload ++ rest)
      simpa [List.append_assoc] using this
    · simp only [h0, ↓reduceIte]
      obtain ⟨k1, k3, kv, kmin⟩ := mdNbytes_spec (by omega) hn
      have := parseHeader_build (mdNbytes n) (n - 1) k3 kv kmin (List.replicate pad false ++ payload ++ rest)
      have hk0 : mdNbytes n ≠ 0 := by omega
      simp only [hk0, ↓reduceIte] at this
      have hn1 : n - 1 + 1 = n := by omega
      rw [hn1] at this
      simpa [List.append_assoc] using this
  unfold Spec.parseMetadataBlock
  simp only [List.append_assoc] at hparse ⊢
  rw [hparse]
  simp only
  have hused : carry.length + ((mdHeader n ++ (List.replicate pad false ++ (payload ++ rest))).length
      - (List.replicate pad false ++ (payload ++ rest)).length) = carry.length + (mdHeader n).length := by
    simp only [List.length_append]; omega
  rw [hused, hpad]
  have hlen : ¬ (List.replicate pad false ++ (payload ++ rest)).length < pad + 8 * n := by
    simp only [List.length_append, List.length_replicate, hp]; omega
  rw [if_neg hlen]
  have htake : (List.replicate pad false ++ (payload ++ rest)).take pad = List.replicate pad false := by
    rw [List.take_append_of_le_length (by simp), List.take_of_length_le (by simp)]
  rw [htake]
  have hany : (List.replicate pad false).any id = false := by
    simp
  rw [hany]
  simp only [Bool.false_eq_true, ↓reduceIte]
  have hdrop1 : (List.replicate pad false ++ (payload ++ rest)).drop pad = payload ++ rest := by
    rw [List.drop_append_of_le_length (by simp), List.drop_of_length_le (by simp)]; rfl
  have hdrop2 : (List.replicate pad false ++ (payload ++ rest)).drop (pad + 8 * n) = rest := by
    rw [← List.drop_drop, hdrop1, ← hp, List.drop_append_of_le_length (Nat.le_refl _), List.drop_of_length_le (Nat.le_refl _)]; rfl
  rw [hdrop1, hdrop2, ← hp, List.take_append_of_le_length (Nat.le_refl _), List.take_of_length_le (Nat.le_refl _)]

end BV.Stream
