/-
Lemmas for C17: `BrotliOptimizeHuffmanCountsForRle` keeps every occurring symbol
(a non-zero count stays non-zero), keeps the length and the `u32` range.  It does
NOT keep zeros zero.
-/
import BV.Lemmas.HuffmanCanon

namespace BV.Lemmas.HuffmanOptRle
open BV.Bits BV.Huffman BV.Lemmas.HuffmanCanon

/-- `cur` is a rewrite of `orig` that lost no occurring symbol -/
structure Keep (orig cur : List Nat) : Prop where
  hlen : cur.length = orig.length
  hnz : ∀ p, orig.getD p 0 ≠ 0 → cur.getD p 0 ≠ 0
  hu32 : ∀ x ∈ cur, x < u32

theorem Keep.refl (l : List Nat) (h : ∀ x ∈ l, x < u32) : Keep l l :=
  ⟨rfl, fun _ h => h, h⟩

theorem mem_set_lt (l : List Nat) (i v b : Nat) (hl : ∀ x ∈ l, x < b) (hv : v < b) :
    ∀ x ∈ l.set i v, x < b := by
  intro x hx
  rcases List.mem_or_eq_of_mem_set hx with h | h
  · exact hl x h
  · rw [h]; exact hv

theorem getAt_ok {l : List Nat} {i x : Nat} (h : getAt l i = .ok x) :
    i < l.length ∧ x = l.getD i 0 ∧ x ∈ l := by
  unfold getAt at h
  cases hi : l[i]? with
  | none => rw [hi] at h; cases h
  | some y =>
    rw [hi] at h
    injection h with h
    subst h
    have hlt : i < l.length := by
      by_cases hlt : i < l.length
      · exact hlt
      · rw [List.getElem?_eq_none (by omega)] at hi; cases hi
    refine ⟨hlt, by simp [List.getD_eq_getElem?_getD, hi], ?_⟩
    rw [List.getElem?_eq_getElem hlt] at hi
    injection hi with hi
    rw [← hi]; exact List.getElem_mem hlt

theorem setAt_ok {l r : List Nat} {i v : Nat} (h : setAt l i v = .ok r) :
    i < l.length ∧ r = l.set i v := by
  unfold setAt at h
  split at h
  · injection h with h; exact ⟨by assumption, h.symm⟩
  · cases h

/-- the isolated-zero filling loop -/
theorem fillLoop_keep (orig : List Nat) : ∀ (c i : Nat) (cur r : List Nat), Keep orig cur →
    fillLoop c i cur = .ok r → Keep orig r := by
  intro c
  induction c with
  | zero => intro i cur r hk h; simp only [fillLoop] at h; injection h with h; rw [← h]; exact hk
  | succ c ih =>
    intro i cur r hk h
    simp only [fillLoop] at h
    cases ha : getAt cur (i - 1) with
    | panic => rw [ha] at h; cases h
    | fuel => rw [ha] at h; cases h
    | ok a =>
    cases hb : getAt cur i with
    | panic => rw [ha, hb] at h; cases h
    | fuel => rw [ha, hb] at h; cases h
    | ok b =>
    cases hd : getAt cur (i + 1) with
    | panic => rw [ha, hb, hd] at h; cases h
    | fuel => rw [ha, hb, hd] at h; cases h
    | ok d =>
    rw [ha, hb, hd] at h
    simp only [Out.bind_ok] at h
    by_cases hc : a ≠ 0 ∧ b = 0 ∧ d ≠ 0
    · rw [if_pos hc] at h
      cases hs : setAt cur i 1 with
      | panic => rw [hs] at h; cases h
      | fuel => rw [hs] at h; cases h
      | ok cur' =>
        rw [hs] at h
        simp only [Out.bind_ok] at h
        obtain ⟨hi, rfl⟩ := setAt_ok hs
        apply ih (i + 1) _ r _ h
        refine ⟨by simp [hk.hlen], ?_, mem_set_lt cur i 1 u32 hk.hu32 (by decide)⟩
        intro p hp
        rw [getD_set _ _ _ _ hi]
        split
        · decide
        · exact hk.hnz p hp
    · rw [if_neg hc] at h
      simp only [Out.bind_ok] at h
      exact ih (i + 1) cur r hk h

/-- `setRun` writes `v` exactly at the positions `i - (k + cnt) .. i - k - 1` -/
theorem setRun_spec (i v : Nat) (hi : i < u64) : ∀ (c k : Nat) (arr r : List Nat), k + c ≤ i →
    setRun i v c k arr = .ok r →
    r.length = arr.length ∧
      ∀ p, r.getD p 0 = if i - (k + c) ≤ p ∧ p < i - k then v else arr.getD p 0 := by
  intro c
  induction c with
  | zero =>
    intro k arr r _ h
    simp only [setRun] at h
    injection h with h
    subst h
    refine ⟨rfl, fun p => ?_⟩
    rw [if_neg (by omega)]
  | succ c ih =>
    intro k arr r hk h
    simp only [setRun] at h
    have hidx : (i + u64 - k + u64 - 1) % u64 = i - k - 1 := by
      have : i + u64 - k + u64 - 1 = (i - k - 1) + 2 * u64 := by omega
      rw [this, Nat.add_mul_mod_self_right, Nat.mod_eq_of_lt (by omega)]
    rw [hidx] at h
    cases hs : setAt arr (i - k - 1) v with
    | panic => rw [hs] at h; cases h
    | fuel => rw [hs] at h; cases h
    | ok arr' =>
      rw [hs] at h
      simp only [Out.bind_ok] at h
      obtain ⟨hlt, rfl⟩ := setAt_ok hs
      obtain ⟨h1, h2⟩ := ih (k + 1) _ r (by omega) h
      refine ⟨by rw [h1]; simp, fun p => ?_⟩
      rw [h2 p, getD_set _ _ _ _ hlt]
      by_cases hp : p = i - k - 1
      · subst hp
        rw [if_pos rfl]
        by_cases hq : i - (k + 1 + c) ≤ i - k - 1 ∧ i - k - 1 < i - (k + 1)
        · rw [if_pos hq, if_pos (by omega)]
        · rw [if_neg hq, if_pos (by omega)]
      · have hne : ¬ (i - k - 1 = p) := fun h => hp h.symm
        rw [if_neg hne]
        by_cases hq : i - (k + 1 + c) ≤ p ∧ p < i - (k + 1)
        · rw [if_pos hq, if_pos (by omega)]
        · rw [if_neg hq, if_neg (by omega)]


theorem strideCount_spec (stride sum : Nat) (hs : 3 ≤ stride) (hst : stride < 2147483648)
    (hsum : sum ≤ stride * 4294967295) :
    strideCount stride sum < u32 ∧ (sum ≠ 0 → strideCount stride sum ≠ 0) ∧
      (sum = 0 → strideCount stride sum = 0) := by
  unfold strideCount
  have hmod : (sum + stride / 2) % u64 = sum + stride / 2 := by
    apply Nat.mod_eq_of_lt; unfold u64; omega
  rw [hmod]
  have hlt : (sum + stride / 2) / stride < 4294967296 := by
    rw [Nat.div_lt_iff_lt_mul (by omega)]; omega
  refine ⟨?_, ?_, ?_⟩
  · unfold u32
    by_cases h0 : sum = 0
    · simp [h0]
    · simp only [h0, ↓reduceIte]
      split <;> omega
  · intro h0
    simp only [h0, ↓reduceIte]
    split <;> omega
  · intro h0; simp [h0]

/-- the smoothing loop never loses an occurring symbol -/
theorem strideLoop_keep (orig good : List Nat) (length : Nat) (hlen : length < 2147483648) :
    ∀ (c i : Nat) (cur : List Nat) (stride limit sum : Nat) (r : List Nat),
    i + c = length + 1 → Keep orig cur → stride ≤ i → sum ≤ stride * 4294967295 →
    (sum = 0 → ∀ p, i - stride ≤ p → p < i → cur.getD p 0 = 0) →
    strideLoop good length c i cur stride limit sum = .ok r → Keep orig r := by
  intro c
  induction c with
  | zero =>
    intro i cur stride limit sum r _ hk _ _ _ h
    simp only [strideLoop] at h; injection h with h; rw [← h]; exact hk
  | succ c ih =>
    intro i cur stride limit sum r hic hk hst hsum hz h
    simp only [strideLoop] at h
    cases hb : strideBreak cur good length i limit with
    | panic => rw [hb] at h; cases h
    | fuel => rw [hb] at h; cases h
    | ok brk =>
    rw [hb] at h
    simp only [Out.bind_ok] at h
    -- the counts after the optional rewrite of the finished stride
    obtain ⟨cur1, hcur1, hk1, hsame⟩ : ∃ cur1,
        (if brk = true ∧ (stride ≥ 4 ∨ (stride ≥ 3 ∧ sum = 0)) then
          setRun i (strideCount stride sum % u32) stride 0 cur else Out.ok cur) = .ok cur1 ∧
        Keep orig cur1 ∧ (¬ brk = true → cur1 = cur) := by
      by_cases hw : brk = true ∧ (stride ≥ 4 ∨ (stride ≥ 3 ∧ sum = 0))
      · rw [if_pos hw] at h ⊢
        cases hsr : setRun i (strideCount stride sum % u32) stride 0 cur with
        | panic => rw [hsr] at h; cases h
        | fuel => rw [hsr] at h; cases h
        | ok cur1 =>
          refine ⟨cur1, rfl, ?_, fun hn => absurd hw.1 hn⟩
          obtain ⟨hl1, hv1⟩ := setRun_spec i _ (by unfold u64; omega) stride 0 cur cur1 (by omega) hsr
          have hs3 : 3 ≤ stride := by rcases hw.2 with h4 | h3 <;> omega
          obtain ⟨hc1, hc2, hc3⟩ := strideCount_spec stride sum hs3 (by omega) hsum
          have hmodc : strideCount stride sum % u32 = strideCount stride sum :=
            Nat.mod_eq_of_lt hc1
          refine ⟨by rw [hl1]; exact hk.hlen, ?_, ?_⟩
          · intro p hp
            rw [hv1 p]
            simp only [Nat.zero_add, Nat.sub_zero]
            by_cases hwin : i - stride ≤ p ∧ p < i
            · rw [if_pos hwin, hmodc]
              by_cases hs0 : sum = 0
              · exact absurd (hz hs0 p hwin.1 hwin.2) (hk.hnz p hp)
              · exact hc2 hs0
            · rw [if_neg hwin]; exact hk.hnz p hp
          · intro x hx
            obtain ⟨p, hp, hpx⟩ := List.getElem_of_mem hx
            have := hv1 p
            rw [List.getD_eq_getElem?_getD, List.getElem?_eq_getElem hp] at this
            simp only [Option.getD_some] at this
            rw [← hpx, this]
            split
            · rw [hmodc]; exact hc1
            · rw [hl1] at hp
              apply hk.hu32
              rw [List.getD_eq_getElem?_getD, List.getElem?_eq_getElem hp]; simp
      · rw [if_neg hw]
        exact ⟨cur, rfl, hk, fun _ => rfl⟩
    rw [hcur1] at h
    simp only [Out.bind_ok] at h
    cases hl : (if brk = true then strideLimit cur1 length i else Out.ok limit) with
    | panic => rw [hl] at h; cases h
    | fuel => rw [hl] at h; cases h
    | ok limit1 =>
    rw [hl] at h
    simp only [Out.bind_ok] at h
    by_cases hil : i = length
    · -- last iteration
      have hc0 : c = 0 := by omega
      subst hc0
      simp only [hil, ne_eq, not_true_eq_false, ↓reduceIte, strideLoop] at h
      injection h with h
      rw [← h]; exact hk1
    · simp only [ne_eq, hil, not_false_eq_true, ↓reduceIte] at h
      cases hx : getAt cur1 i with
      | panic => rw [hx] at h; cases h
      | fuel => rw [hx] at h; cases h
      | ok x =>
      rw [hx] at h
      simp only [Out.bind_ok] at h
      obtain ⟨hxi, hxv, hxm⟩ := getAt_ok hx
      have hx32 : x < 4294967296 := hk1.hu32 x hxm
      by_cases hbrk : brk = true
      · simp only [hbrk, ↓reduceIte, Nat.zero_add] at h
        have hm : x % u64 = x := Nat.mod_eq_of_lt (by unfold u64; omega)
        rw [hm] at h
        apply ih (i + 1) cur1 1 _ x r (by omega) hk1 (by omega) (by omega) ?_ h
        intro hx0 p hp1 hp2
        have : p = i := by omega
        rw [this, ← hxv]; exact hx0
      · have hcur : cur1 = cur := hsame hbrk
        subst hcur
        simp only [hbrk, Bool.false_eq_true, ↓reduceIte] at h
        have hm : (sum + x) % u64 = sum + x := Nat.mod_eq_of_lt (by unfold u64; omega)
        rw [hm] at h
        apply ih (i + 1) cur1 (stride + 1) _ (sum + x) r (by omega) hk1 (by omega) (by omega) ?_ h
        intro hs0 p hp1 hp2
        by_cases hpi : p = i
        · rw [hpi, ← hxv]; omega
        · exact hz (by omega) p (by omega) (by omega)


theorem trimLoop_le (counts : List Nat) : ∀ (l r : Nat), trimLoop counts l = .ok r →
    r = 0 ∨ r ≤ counts.length := by
  intro l
  induction l with
  | zero => intro r h; simp only [trimLoop] at h; injection h with h; left; exact h.symm
  | succ l ih =>
    intro r h
    simp only [trimLoop] at h
    cases hc : getAt counts l with
    | panic => rw [hc] at h; cases h
    | fuel => rw [hc] at h; cases h
    | ok c =>
      rw [hc] at h
      simp only [Out.bind_ok] at h
      split at h
      · exact ih r h
      · injection h with h
        right
        have := (getAt_ok hc).1
        omega

/-- `BrotliOptimizeHuffmanCountsForRle`: whenever it returns, the length is unchanged,
every non-zero count is still non-zero and every count is still a `u32` -/
theorem optimize_keep (length0 : Nat) (counts good r : List Nat) (hb : ∀ x ∈ counts, x < u32)
    (hl : counts.length < 2147483648)
    (h : optimizeHuffmanCountsForRle length0 counts good = .ok r) : Keep counts r := by
  unfold optimizeHuffmanCountsForRle at h
  cases h1 : countNonzeroLoop counts length0 0 0 with
  | panic => rw [h1] at h; cases h
  | fuel => rw [h1] at h; cases h
  | ok nzc =>
  rw [h1] at h
  simp only [Out.bind_ok] at h
  split at h
  · injection h with h; rw [← h]; exact Keep.refl counts hb
  · cases h2 : trimLoop counts length0 with
    | panic => rw [h2] at h; cases h
    | fuel => rw [h2] at h; cases h
    | ok length =>
    rw [h2] at h
    simp only [Out.bind_ok] at h
    split at h
    · injection h with h; rw [← h]; exact Keep.refl counts hb
    · rename_i hl0
      have hlen : length < 2147483648 := by
        rcases trimLoop_le counts length0 length h2 with h0 | h0 <;> omega
      cases h3 : smallestLoop counts length 0 0 1073741824 with
      | panic => rw [h3] at h; cases h
      | fuel => rw [h3] at h; cases h
      | ok p =>
      obtain ⟨nonzeros, smallest⟩ := p
      rw [h3] at h
      simp only [Out.bind_ok] at h
      split at h
      · injection h with h; rw [← h]; exact Keep.refl counts hb
      · cases h4 : (if smallest < 4 ∧ length - nonzeros < 6 then fillLoop (length - 1 - 1) 1 counts
            else Out.ok counts) with
        | panic => rw [h4] at h; cases h
        | fuel => rw [h4] at h; cases h
        | ok counts1 =>
        rw [h4] at h
        simp only [Out.bind_ok] at h
        have hk1 : Keep counts counts1 := by
          split at h4
          · exact fillLoop_keep counts _ _ counts counts1 (Keep.refl counts hb) h4
          · injection h4 with h4; rw [← h4]; exact Keep.refl counts hb
        split at h
        · injection h with h; rw [← h]; exact hk1
        · cases h5 : getAt counts1 0 with
          | panic => rw [h5] at h; cases h
          | fuel => rw [h5] at h; cases h
          | ok symbol =>
          rw [h5] at h
          simp only [Out.bind_ok] at h
          cases h6 : markLoop counts1 length (length + 1) 0 symbol 0 (good.map fun _ => 0) with
          | panic => rw [h6] at h; cases h
          | fuel => rw [h6] at h; cases h
          | ok good1 =>
          rw [h6] at h
          simp only [Out.bind_ok] at h
          cases h7 : getAt counts1 1 with
          | panic => rw [h7] at h; cases h
          | fuel => rw [h7] at h; cases h
          | ok c1 =>
          rw [h7] at h
          simp only [Out.bind_ok] at h
          cases h8 : getAt counts1 2 with
          | panic => rw [h8] at h; cases h
          | fuel => rw [h8] at h; cases h
          | ok c2 =>
          rw [h8] at h
          simp only [Out.bind_ok] at h
          exact strideLoop_keep counts good1 length hlen (length + 1) 0 counts1 0 _ 0 r (by omega)
            hk1 (Nat.le_refl _) (by omega) (fun _ p h1 h2 => by omega) h

end BV.Lemmas.HuffmanOptRle
