/-
A whole member from `new_brotli_file` on: strip of the previous end marker, look-ahead,
header realignment, copy-out, pass-through — closed form of the emitted bytes under ANY
slicing / capacity schedule (C12 `slicing_irrelevant`, C03 `concat_bits`).
-/
import BV.Lemmas.ConcatSplit

namespace BV.Concat
open Outcome BV.Gen

/-- the header bytes still to be copied out -/
def owedOf (d : NewStreamData) (w : Nat) : List Nat :=
  (d.bytes_so_far.toList.drop w).take (d.num_bytes_read - w)

theorem owedOf_length (d : NewStreamData) (w : Nat) (h : d.num_bytes_read ≤ 5) :
    (owedOf d w).length = d.num_bytes_read - w := by
  unfold owedOf
  simp only [List.length_take, List.length_drop, B5.toList_length]; omega

/-- result of the header copy-out started with `q` already written by this header (`pre` is
older output of the same call): conservation `q ++ owed = written ++ still owed` -/
structure CopyGen (s : State) (d : NewStreamData) (w : Nat) (pre q : List Nat) (cap : Nat)
    (y : State × List Nat × Nat) : Prop where
  out : ∃ P, y.2.1 = pre ++ P ∧ q ++ owedOf d w = P ++ held y.1
  settled : Settled y.1
  code : y.2.2 = SUCCESS ∨ y.2.2 = NEEDS_MORE_OUTPUT
  done : y.2.2 = SUCCESS → y.1.new_stream_pending = none ∧ y.1.last_bytes_len = 1
  more : y.2.2 = NEEDS_MORE_OUTPUT → y.1.new_stream_pending ≠ none ∧ y.2.1.length = cap
  ws : y.1.window_size = s.window_size

theorem shiftCopyOut_cons_gen (s : State) (d : NewStreamData) (w : Nat) (pre q : List Nat) (cap : Nat)
    (y : State × List Nat × Nat) (hw : d.num_bytes_written = some w) (hwr : w ≤ d.num_bytes_read)
    (hr5 : d.num_bytes_read ≤ 5) (hlen : (pre ++ q).length ≤ cap)
    (hne : q ≠ [] ∨ (w < d.num_bytes_read ∧ (pre ++ q).length < cap))
    (hsan : s.last_byte_sanitized = true)
    (h : shiftCopyOut s d (pre ++ q) cap = ok y) : CopyGen s d w pre q cap y := by
  unfold shiftCopyOut at h
  rw [hw] at h
  dsimp only at h
  rw [hdr5] at h
  rw [if_neg (by omega), if_neg (by omega), if_neg (by omega), if_neg (by omega)] at h
  have hmod : min (cap - (pre ++ q).length) (d.num_bytes_read - w) % 256
      = min (cap - (pre ++ q).length) (d.num_bytes_read - w) := Nat.mod_eq_of_lt (by omega)
  rw [hmod, if_neg (by omega)] at h
  have hH := owedOf_length d w hr5
  by_cases hc : w + min (cap - (pre ++ q).length) (d.num_bytes_read - w) ≠ d.num_bytes_read
  · rw [if_pos hc] at h
    simp only [Outcome.ok.injEq] at h
    subst h
    have hk : min (cap - (pre ++ q).length) (d.num_bytes_read - w) = cap - (pre ++ q).length := by omega
    refine ⟨⟨q ++ (d.bytes_so_far.toList.drop w).take (cap - (pre ++ q).length), ?_, ?_⟩,
      Or.inr ⟨_, _, rfl, rfl, ?_⟩, Or.inr rfl, fun e => by simp at e, fun _ => ⟨by simp, ?_⟩, ?_⟩
    · dsimp only; rw [hk, List.append_assoc]
    · unfold held owedOf
      dsimp only
      rw [hk, List.append_assoc]
      congr 1
      exact take_split _ _ _ _ (by omega)
    · dsimp only; split <;> exact hsan
    · dsimp only
      rw [hk]
      have hpq : (pre ++ q).length = pre.length + q.length := List.length_append
      simp only [List.length_append, List.length_take, List.length_drop, B5.toList_length]
      omega
    · dsimp only; split <;> rfl
  · rw [if_neg hc] at h
    have hk : min (cap - (pre ++ q).length) (d.num_bytes_read - w) = d.num_bytes_read - w := by omega
    simp only [hk] at h
    have hfull : (pre ++ q ++ (d.bytes_so_far.toList.drop w).take (d.num_bytes_read - w)) = pre ++ (q ++ owedOf d w) := by
      unfold owedOf; rw [List.append_assoc]
    have hnn : q ++ owedOf d w ≠ [] := by
      intro e
      have := congrArg List.length e
      rw [List.length_append, hH, List.length_nil] at this
      rcases hne with hq | hq
      · exact hq (List.eq_nil_of_length_eq_zero (by omega))
      · omega
    obtain ⟨ys, b, hys⟩ : ∃ ys b, q ++ owedOf d w = ys ++ [b] :=
      ⟨_, _, (List.dropLast_concat_getLast hnn).symm⟩
    rw [hfull, hys, ← List.append_assoc] at h
    simp only [List.getLast?_append, List.getLast?_singleton, Option.some_or] at h
    rw [if_neg (by
      have h1 := congrArg List.length hys
      have hpq : (pre ++ q).length = pre.length + q.length := List.length_append
      simp only [List.length_append, List.length_cons, List.length_nil, hH] at h1 ⊢
      omega)] at h
    simp only [Outcome.ok.injEq] at h
    subst h
    refine ⟨⟨ys, by simp, ?_⟩, Or.inl rfl, Or.inl rfl, fun _ => ⟨rfl, rfl⟩, fun e => by simp at e, ?_⟩
    · rw [hys]; unfold held; simp
    · dsimp only; split <;> rfl

/-- the realignment does not look at the output buffer beyond "is there room for one byte" -/
theorem shiftRealign_rel (s : State) (nsp : NewStreamData) (wo v : Nat) (out : List Nat) (cap : Nat)
    (h : out.length < cap) :
    shiftRealign s nsp wo v out cap
      = Outcome.map (fun r => (r.1, r.2.1, out ++ r.2.2)) (shiftRealign s nsp wo v [] 1) := by
  unfold shiftRealign push
  have h1 : ([] : List Nat).length < 1 := by simp
  simp only [h, h1, if_true]
  cases packB5 nsp.bytes_so_far nsp.num_bytes_read with
  | panic t => simp
  | ok bsf =>
    simp only [bind_ok]
    by_cases c1 : v < wo
    · simp [c1]
    rw [if_neg c1, if_neg c1]
    by_cases c2 : v - wo ≥ 64
    · simp [c2]
    rw [if_neg c2, if_neg c2]
    cases forRange (realignStep ((bsf >>> wo) &&& ((1 <<< (v - wo)) - 1)) s.last_byte_bit_offset)
        ((v - wo + 7) / 8) 0 [s.last_bytes.1, 0, 0, 0, 0, 0] with
    | panic t => simp
    | ok rh =>
      simp only [bind_ok]
      by_cases c3 : s.last_byte_bit_offset + v < wo
      · simp [c3]
      rw [if_neg c3, if_neg c3]
      by_cases c4 : nsp.num_bytes_read < (v + 7) / 8
      · simp [c4]
      rw [if_neg c4, if_neg c4]
      cases copyWholeLoop nsp.bytes_so_far ((v + 7) / 8) ((s.last_byte_bit_offset + v - wo + 7) / 8)
          (nsp.num_bytes_read - (v + 7) / 8) rh with
      | panic t => simp
      | ok rh2 =>
        simp only [bind_ok]
        cases idx Site.shiftRhIndex rh2 0 with
        | panic t => simp
        | ok r0 =>
          simp only [bind_ok]
          by_cases c5 : ((s.last_byte_bit_offset + v - wo + 7) / 8 + (nsp.num_bytes_read - (v + 7) / 8)) % 256 < 1
          · simp [c5]
          rw [if_neg c5, if_neg c5]
          cases B5.ofList? (rh2.drop 1) with
          | none => simp
          | some b5 => simp

/-- The decision part of `shift_and_check_new_stream_header` for a fresh header, without any
reference to the output buffer: either a terminal code, or the state / pending data with which
the copy-out starts and the bytes `q` the header writes first. -/
def shiftHead (s : State) (nsp : NewStreamData) : Outcome (Nat ⊕ (State × NewStreamData × List Nat)) :=
  if nsp.num_bytes_read > NUM_STREAM_HEADER_BYTES then Outcome.panic .shiftSliceRead else
  (parseWindowSize (nsp.bytes_so_far.toList.take nsp.num_bytes_read)).bind fun pw =>
  match pw with
  | none => ok (.inl INVALID_WINDOW_SIZE)
  | some (windowSize, windowOffset) =>
    if s.window_size = 0 then
      if s.last_byte_bit_offset ≠ 0 then Outcome.panic .shiftAssertOffset0 else
      ok (.inr ({ s with window_size := windowSize ||| (if windowOffset = 14 then LARGE_WINDOW_FLAG else 0),
                         any_bytes_emitted := true },
                { nsp with num_bytes_written := some 1 }, [nsp.bytes_so_far.b0]))
    else
      if windowSize > (s.window_size &&& NOT_LARGE_WINDOW_FLAG) then ok (.inl WINDOW_SIZE_LARGER) else
      if (decide (windowOffset = 14)) ≠ (decide ((s.window_size &&& LARGE_WINDOW_FLAG) ≠ 0)) then
        ok (.inl NOT_CRAFTED_FOR_CONCAT) else
      (detectVarlenOffset (nsp.bytes_so_far.toList.take nsp.num_bytes_read)).bind fun vo =>
      match vo with
      | none => ok (.inl NOT_CRAFTED_FOR_CONCAT)
      | some varlenOffset =>
        if (varlenOffset + 7) / 8 > nsp.num_bytes_read then ok (.inl NOT_CRAFTED_FOR_CONCAT) else
        (shiftRealign s nsp windowOffset varlenOffset [] 1).bind fun r => ok (.inr r)

/-- continuation of `shiftHead`: terminal code, or copy-out -/
def shiftFinish (s : State) (out : List Nat) (cap : Nat) :
    Nat ⊕ (State × NewStreamData × List Nat) → Outcome (State × List Nat × Nat)
  | .inl c => ok (s, out, c)
  | .inr (s', n', q) => shiftCopyOut s' n' (out ++ q) cap

theorem shiftAndCheck_factor (s : State) (nsp : NewStreamData) (out : List Nat) (cap : Nat)
    (hw : nsp.num_bytes_written = none) (hout : out.length < cap) :
    shiftAndCheckNewStreamHeader s nsp out cap = (shiftHead s nsp).bind (shiftFinish s out cap) := by
  unfold shiftAndCheckNewStreamHeader shiftHead
  rw [hw]
  dsimp only
  by_cases c0 : nsp.num_bytes_read > NUM_STREAM_HEADER_BYTES
  · simp [c0]
  rw [if_neg c0, if_neg c0]
  cases parseWindowSize (nsp.bytes_so_far.toList.take nsp.num_bytes_read) with
  | panic t => simp
  | ok pw =>
    simp only [bind_ok]
    cases pw with
    | none => simp [shiftFinish]
    | some wo =>
      obtain ⟨wsz, wo⟩ := wo
      dsimp only
      by_cases c1 : s.window_size = 0
      · rw [if_pos c1, if_pos c1]
        by_cases c2 : s.last_byte_bit_offset ≠ 0
        · rw [if_pos c2, if_pos c2]; simp
        rw [if_neg c2, if_neg c2]
        unfold push
        rw [if_pos hout]
        simp [shiftFinish]
      rw [if_neg c1, if_neg c1]
      by_cases c3 : wsz > (s.window_size &&& NOT_LARGE_WINDOW_FLAG)
      · rw [if_pos c3, if_pos c3]; simp [shiftFinish]
      rw [if_neg c3, if_neg c3]
      by_cases c4 : (decide (wo = 14)) ≠ (decide ((s.window_size &&& LARGE_WINDOW_FLAG) ≠ 0))
      · rw [if_pos c4, if_pos c4]; simp [shiftFinish]
      rw [if_neg c4, if_neg c4]
      cases detectVarlenOffset (nsp.bytes_so_far.toList.take nsp.num_bytes_read) with
      | panic t => simp
      | ok vo =>
        simp only [bind_ok]
        cases vo with
        | none => simp [shiftFinish]
        | some v =>
          dsimp only
          by_cases c5 : (v + 7) / 8 > nsp.num_bytes_read
          · rw [if_pos c5, if_pos c5]; simp [shiftFinish]
          rw [if_neg c5, if_neg c5, shiftRealign_rel s nsp wo v out cap hout]
          cases shiftRealign s nsp wo v [] 1 with
          | panic t => simp
          | ok r => simp [shiftFinish]

end BV.Concat
