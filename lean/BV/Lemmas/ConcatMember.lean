/-
A whole member from `new_brotli_file` on: strip of the previous end marker, look-ahead,
header realignment, copy-out, pass-through — closed form of the emitted bytes under ANY
slicing / capacity schedule (C12 `slicing_irrelevant`, C03 `concat_bits`).
-/
import BV.Lemmas.ConcatSplit

namespace BV.Concat
open Outcome BV.Gen

/-- the header bytes still to be copied out -/
def owedOf (d : NewStreamData) (w : Nat) : List Nat :=
  (d.bytes_so_far.toList.drop w).take (d.num_bytes_read - w)

theorem owedOf_length (d : NewStreamData) (w : Nat) (h : d.num_bytes_read ≤ 5) :
    (owedOf d w).length = d.num_bytes_read - w := by
  unfold owedOf
  simp only [List.length_take, List.length_drop, B5.toList_length]; omega

/-- result of the header copy-out started with `q` already written by this header (`pre` is
older output of the same call): conservation `q ++ owed = written ++ still owed` -/
structure CopyGen (s : State) (d : NewStreamData) (w : Nat) (pre q : List Nat) (cap : Nat)
    (y : State × List Nat × Nat) : Prop where
  out : ∃ P, y.2.1 = pre ++ P ∧ q ++ owedOf d w = P ++ held y.1
  settled : Settled y.1
  code : y.2.2 = SUCCESS ∨ y.2.2 = NEEDS_MORE_OUTPUT
  done : y.2.2 = SUCCESS → y.1.new_stream_pending = none ∧ y.1.last_bytes_len = 1
  more : y.2.2 = NEEDS_MORE_OUTPUT → y.1.new_stream_pending ≠ none ∧ y.2.1.length = cap
  ws : y.1.window_size = s.window_size
  len_le : y.2.1.length ≤ cap

theorem shiftCopyOut_cons_gen (s : State) (d : NewStreamData) (w : Nat) (pre q : List Nat) (cap : Nat)
    (y : State × List Nat × Nat) (hw : d.num_bytes_written = some w) (hwr : w ≤ d.num_bytes_read)
    (hr5 : d.num_bytes_read ≤ 5) (hlen : (pre ++ q).length ≤ cap)
    (hne : q ≠ [] ∨ (w < d.num_bytes_read ∧ (pre ++ q).length < cap))
    (hsan : s.last_byte_sanitized = true)
    (h : shiftCopyOut s d (pre ++ q) cap = ok y) : CopyGen s d w pre q cap y := by
  unfold shiftCopyOut at h
  rw [hw] at h
  dsimp only at h
  rw [hdr5] at h
  rw [if_neg (by omega), if_neg (by omega), if_neg (by omega), if_neg (by omega)] at h
  have hmod : min (cap - (pre ++ q).length) (d.num_bytes_read - w) % 256
      = min (cap - (pre ++ q).length) (d.num_bytes_read - w) := Nat.mod_eq_of_lt (by omega)
  rw [hmod, if_neg (by omega)] at h
  have hH := owedOf_length d w hr5
  by_cases hc : w + min (cap - (pre ++ q).length) (d.num_bytes_read - w) ≠ d.num_bytes_read
  · rw [if_pos hc] at h
    simp only [Outcome.ok.injEq] at h
    subst h
    have hk : min (cap - (pre ++ q).length) (d.num_bytes_read - w) = cap - (pre ++ q).length := by omega
    refine ⟨⟨q ++ (d.bytes_so_far.toList.drop w).take (cap - (pre ++ q).length), ?_, ?_⟩,
      Or.inr ⟨_, _, rfl, rfl, ?_⟩, Or.inr rfl, fun e => by simp at e, fun _ => ⟨by simp, ?_⟩, ?_, ?_⟩
    · dsimp only; rw [hk, List.append_assoc]
    · unfold held owedOf
      dsimp only
      rw [hk, List.append_assoc]
      congr 1
      exact take_split _ _ _ _ (by omega)
    · dsimp only; split <;> exact hsan
    · dsimp only
      rw [hk]
      have hpq : (pre ++ q).length = pre.length + q.length := List.length_append
      simp only [List.length_append, List.length_take, List.length_drop, B5.toList_length]
      omega
    · dsimp only; split <;> rfl
    · dsimp only
      rw [hk]
      have hpq : (pre ++ q).length = pre.length + q.length := List.length_append
      simp only [List.length_append, List.length_take, List.length_drop, B5.toList_length]
      omega
  · rw [if_neg hc] at h
    have hk : min (cap - (pre ++ q).length) (d.num_bytes_read - w) = d.num_bytes_read - w := by omega
    simp only [hk] at h
    have hfull : (pre ++ q ++ (d.bytes_so_far.toList.drop w).take (d.num_bytes_read - w)) = pre ++ (q ++ owedOf d w) := by
      unfold owedOf; rw [List.append_assoc]
    have hnn : q ++ owedOf d w ≠ [] := by
      intro e
      have := congrArg List.length e
      rw [List.length_append, hH, List.length_nil] at this
      rcases hne with hq | hq
      · exact hq (List.eq_nil_of_length_eq_zero (by omega))
      · omega
    obtain ⟨ys, b, hys⟩ : ∃ ys b, q ++ owedOf d w = ys ++ [b] :=
      ⟨_, _, (List.dropLast_concat_getLast hnn).symm⟩
    rw [hfull, hys, ← List.append_assoc] at h
    simp only [List.getLast?_append, List.getLast?_singleton, Option.some_or] at h
    rw [if_neg (by
      have h1 := congrArg List.length hys
      have hpq : (pre ++ q).length = pre.length + q.length := List.length_append
      simp only [List.length_append, List.length_cons, List.length_nil, hH] at h1 ⊢
      omega)] at h
    simp only [Outcome.ok.injEq] at h
    subst h
    refine ⟨⟨ys, by simp, ?_⟩, Or.inl rfl, Or.inl rfl, fun _ => ⟨rfl, rfl⟩, fun e => by simp at e, ?_, ?_⟩
    · rw [hys]; unfold held; simp
    · dsimp only; split <;> rfl
    · dsimp only
      have h1 := congrArg List.length hys
      have hpq : (pre ++ q).length = pre.length + q.length := List.length_append
      simp only [List.length_append, List.length_cons, List.length_nil, hH, List.length_dropLast] at h1 ⊢
      omega

/-- the realignment does not look at the output buffer beyond "is there room for one byte" -/
theorem shiftRealign_rel (s : State) (nsp : NewStreamData) (wo v : Nat) (out : List Nat) (cap : Nat)
    (h : out.length < cap) :
    shiftRealign s nsp wo v out cap
      = Outcome.map (fun r => (r.1, r.2.1, out ++ r.2.2)) (shiftRealign s nsp wo v [] 1) := by
  unfold shiftRealign push
  have h1 : ([] : List Nat).length < 1 := by simp
  simp only [h, h1, if_true]
  cases packB5 nsp.bytes_so_far nsp.num_bytes_read with
  | panic t => simp
  | ok bsf =>
    simp only [bind_ok]
    by_cases c1 : v < wo
    · simp [c1]
    rw [if_neg c1, if_neg c1]
    by_cases c2 : v - wo ≥ 64
    · simp [c2]
    rw [if_neg c2, if_neg c2]
    cases forRange (realignStep ((bsf >>> wo) &&& ((1 <<< (v - wo)) - 1)) s.last_byte_bit_offset)
        ((v - wo + 7) / 8) 0 [s.last_bytes.1, 0, 0, 0, 0, 0] with
    | panic t => simp
    | ok rh =>
      simp only [bind_ok]
      by_cases c3 : s.last_byte_bit_offset + v < wo
      · simp [c3]
      rw [if_neg c3, if_neg c3]
      by_cases c4 : nsp.num_bytes_read < (v + 7) / 8
      · simp [c4]
      rw [if_neg c4, if_neg c4]
      cases copyWholeLoop nsp.bytes_so_far ((v + 7) / 8) ((s.last_byte_bit_offset + v - wo + 7) / 8)
          (nsp.num_bytes_read - (v + 7) / 8) rh with
      | panic t => simp
      | ok rh2 =>
        simp only [bind_ok]
        cases idx Site.shiftRhIndex rh2 0 with
        | panic t => simp
        | ok r0 =>
          simp only [bind_ok]
          by_cases c5 : ((s.last_byte_bit_offset + v - wo + 7) / 8 + (nsp.num_bytes_read - (v + 7) / 8)) % 256 < 1
          · simp [c5]
          rw [if_neg c5, if_neg c5]
          cases B5.ofList? (rh2.drop 1) with
          | none => simp
          | some b5 => simp

/-- The decision part of `shift_and_check_new_stream_header` for a fresh header, without any
reference to the output buffer: either a terminal code, or the state / pending data with which
the copy-out starts and the bytes `q` the header writes first. -/
def shiftHead (s : State) (nsp : NewStreamData) : Outcome (Nat ⊕ (State × NewStreamData × List Nat)) :=
  if nsp.num_bytes_read > NUM_STREAM_HEADER_BYTES then Outcome.panic .shiftSliceRead else
  (parseWindowSize (nsp.bytes_so_far.toList.take nsp.num_bytes_read)).bind fun pw =>
  match pw with
  | none => ok (.inl INVALID_WINDOW_SIZE)
  | some (windowSize, windowOffset) =>
    if s.window_size = 0 then
      if s.last_byte_bit_offset ≠ 0 then Outcome.panic .shiftAssertOffset0 else
      ok (.inr ({ s with window_size := windowSize ||| (if windowOffset = 14 then LARGE_WINDOW_FLAG else 0),
                         any_bytes_emitted := true },
                { nsp with num_bytes_written := some 1 }, [nsp.bytes_so_far.b0]))
    else
      if windowSize > (s.window_size &&& NOT_LARGE_WINDOW_FLAG) then ok (.inl WINDOW_SIZE_LARGER) else
      if (decide (windowOffset = 14)) ≠ (decide ((s.window_size &&& LARGE_WINDOW_FLAG) ≠ 0)) then
        ok (.inl NOT_CRAFTED_FOR_CONCAT) else
      (detectVarlenOffset (nsp.bytes_so_far.toList.take nsp.num_bytes_read)).bind fun vo =>
      match vo with
      | none => ok (.inl NOT_CRAFTED_FOR_CONCAT)
      | some varlenOffset =>
        if (varlenOffset + 7) / 8 > nsp.num_bytes_read then ok (.inl NOT_CRAFTED_FOR_CONCAT) else
        (shiftRealign s nsp windowOffset varlenOffset [] 1).bind fun r => ok (.inr r)

/-- continuation of `shiftHead`: terminal code, or copy-out -/
def shiftFinish (s : State) (out : List Nat) (cap : Nat) :
    Nat ⊕ (State × NewStreamData × List Nat) → Outcome (State × List Nat × Nat)
  | .inl c => ok (s, out, c)
  | .inr (s', n', q) => shiftCopyOut s' n' (out ++ q) cap

theorem shiftAndCheck_factor (s : State) (nsp : NewStreamData) (out : List Nat) (cap : Nat)
    (hw : nsp.num_bytes_written = none) (hout : out.length < cap) :
    shiftAndCheckNewStreamHeader s nsp out cap = (shiftHead s nsp).bind (shiftFinish s out cap) := by
  unfold shiftAndCheckNewStreamHeader shiftHead
  rw [hw]
  dsimp only
  by_cases c0 : nsp.num_bytes_read > NUM_STREAM_HEADER_BYTES
  · simp [c0]
  rw [if_neg c0, if_neg c0]
  cases parseWindowSize (nsp.bytes_so_far.toList.take nsp.num_bytes_read) with
  | panic t => simp
  | ok pw =>
    simp only [bind_ok]
    cases pw with
    | none => simp [shiftFinish]
    | some wo =>
      obtain ⟨wsz, wo⟩ := wo
      dsimp only
      by_cases c1 : s.window_size = 0
      · rw [if_pos c1, if_pos c1]
        by_cases c2 : s.last_byte_bit_offset ≠ 0
        · rw [if_pos c2, if_pos c2]; simp
        rw [if_neg c2, if_neg c2]
        unfold push
        rw [if_pos hout]
        simp [shiftFinish]
      rw [if_neg c1, if_neg c1]
      by_cases c3 : wsz > (s.window_size &&& NOT_LARGE_WINDOW_FLAG)
      · rw [if_pos c3, if_pos c3]; simp [shiftFinish]
      rw [if_neg c3, if_neg c3]
      by_cases c4 : (decide (wo = 14)) ≠ (decide ((s.window_size &&& LARGE_WINDOW_FLAG) ≠ 0))
      · rw [if_pos c4, if_pos c4]; simp [shiftFinish]
      rw [if_neg c4, if_neg c4]
      cases detectVarlenOffset (nsp.bytes_so_far.toList.take nsp.num_bytes_read) with
      | panic t => simp
      | ok vo =>
        simp only [bind_ok]
        cases vo with
        | none => simp [shiftFinish]
        | some v =>
          dsimp only
          by_cases c5 : (v + 7) / 8 > nsp.num_bytes_read
          · rw [if_pos c5, if_pos c5]; simp [shiftFinish]
          rw [if_neg c5, if_neg c5, shiftRealign_rel s nsp wo v out cap hout]
          cases shiftRealign s nsp wo v [] 1 with
          | panic t => simp
          | ok r => simp [shiftFinish]

/-- `stream` with a member pending, given the outcome of the strip -/
theorem stream_of_flush (s s1 : State) (nsp0 : NewStreamData) (inp : List Nat) (cap : Nat) (o1 : List Nat)
    (hp : s.new_stream_pending = some nsp0)
    (hf : flushPreviousStream s [] cap = ok (s1, o1, SUCCESS)) :
    stream s inp cap =
      ((if nsp0.num_bytes_written.isNone ∧ nsp0.num_bytes_read < NUM_STREAM_HEADER_BYTES then
          (headerLoop nsp0 inp 0).bind fun x => ok (x.1, x.2, { s1 with new_stream_pending := some x.1 })
        else ok (nsp0, 0, s1)).bind fun x =>
      if x.1.num_bytes_written.isNone ∧ ¬ x.1.sufficient then ok ⟨x.2.2, NEEDS_MORE_INPUT, x.2.1, o1⟩ else
      if cap = o1.length then ok ⟨x.2.2, NEEDS_MORE_OUTPUT, x.2.1, o1⟩ else
      (shiftAndCheckNewStreamHeader x.2.2 x.1 o1 cap).bind fun y =>
      if y.2.2 ≠ SUCCESS then ok ⟨y.1, y.2.2, x.2.1, y.2.1⟩ else
      if y.2.1.length = cap then ok ⟨y.1, NEEDS_MORE_OUTPUT, x.2.1, y.2.1⟩ else
      streamTail y.1 inp x.2.1 y.2.1 cap) := by
  unfold stream
  rw [hp]
  dsimp only
  rw [hf]
  simp only [bind_ok, SUCCESS, ne_eq, not_true_eq_false, if_false]

/-- what `shiftHead` hands to the copy-out -/
theorem shiftHead_inr (s : State) (nsp : NewStreamData) (s' : State) (n' : NewStreamData) (q : List Nat)
    (hI : Inv s) (hr5 : nsp.num_bytes_read ≤ 5) (hsuf : nsp.sufficient = true)
    (h : shiftHead s nsp = ok (.inr (s', n', q))) :
    (∃ w, n'.num_bytes_written = some w ∧ w ≤ n'.num_bytes_read) ∧ n'.num_bytes_read ≤ 5 ∧ q.length = 1 ∧
    s'.last_byte_sanitized = s.last_byte_sanitized ∧ s'.window_size ≠ 0 ∧
    s'.last_byte_bit_offset = s.last_byte_bit_offset := by
  have hrd := sufficient_read nsp hsuf
  unfold shiftHead at h
  rw [hdr5, if_neg (by omega)] at h
  have hlen : (List.take nsp.num_bytes_read nsp.bytes_so_far.toList).length = nsp.num_bytes_read := by
    simp only [List.length_take, B5.toList_length]; omega
  obtain ⟨pw, hpweq, hpw2⟩ := sat_iff.mp (parseWindowSize_sat (List.take nsp.num_bytes_read nsp.bytes_so_far.toList)
    (by omega))
  rw [hpweq] at h
  simp only [bind_ok] at h
  cases pw with
  | none => simp at h
  | some wo =>
    obtain ⟨wsz, wo⟩ := wo
    obtain ⟨hw10, hw30, hwo⟩ := hpw2 wsz wo rfl
    dsimp only at h
    by_cases c1 : s.window_size = 0
    · rw [if_pos c1] at h
      by_cases c2 : s.last_byte_bit_offset ≠ 0
      · rw [if_pos c2] at h; simp at h
      rw [if_neg c2] at h
      simp only [Outcome.ok.injEq, Sum.inr.injEq, Prod.mk.injEq] at h
      obtain ⟨rfl, rfl, rfl⟩ := h
      refine ⟨⟨1, rfl, by dsimp only; omega⟩, hr5, rfl, rfl, ?_, rfl⟩
      dsimp only
      have := @Nat.left_le_or wsz (if wo = 14 then LARGE_WINDOW_FLAG else 0)
      omega
    rw [if_neg c1] at h
    by_cases c3 : wsz > (s.window_size &&& NOT_LARGE_WINDOW_FLAG)
    · rw [if_pos c3] at h; simp at h
    rw [if_neg c3] at h
    by_cases c4 : (decide (wo = 14)) ≠ (decide ((s.window_size &&& LARGE_WINDOW_FLAG) ≠ 0))
    · rw [if_pos c4] at h; simp at h
    rw [if_neg c4] at h
    obtain ⟨vo, hvoeq, hvo⟩ := sat_iff.mp (detectVarlenOffset_sat (List.take nsp.num_bytes_read nsp.bytes_so_far.toList)
      (by omega) (by omega))
    rw [hvoeq] at h
    simp only [bind_ok] at h
    cases vo with
    | none => simp at h
    | some v =>
      dsimp only at h
      by_cases c5 : (v + 7) / 8 > nsp.num_bytes_read
      · rw [if_pos c5] at h; simp at h
      rw [if_neg c5] at h
      obtain ⟨w', o', hpe, _, hov⟩ := hvo v rfl
      rw [hpweq] at hpe
      simp only [Outcome.ok.injEq, Option.some.injEq, Prod.mk.injEq] at hpe
      obtain ⟨_, rfl⟩ := hpe
      obtain ⟨r, hreq, e1, e2, e3, e4⟩ := sat_iff.mp (shiftRealign_sat s nsp wo v [] 1 hI.off_lt hr5 (by omega) hov
        (by omega) (by simp))
      rw [hreq] at h
      simp only [bind_ok, Outcome.ok.injEq, Sum.inr.injEq] at h
      subst h
      dsimp only at e1 e2 e3 e4
      refine ⟨⟨0, e2, Nat.zero_le _⟩, e3, by simpa using e4, by rw [e1], by rw [e1]; exact c1, by rw [e1]⟩

/-- capacity-free description of what a member in its header phase will do once all of `x`
has been offered: strip result `(s1, o1)`, complete look-ahead `nspF` after `k` bytes, accepted
header with first bytes `q` and copy-out data `n'` (`w` bytes already counted as written) -/
structure HdrPlan (s : State) (x : List Nat) (nsp0 : NewStreamData) (s1 : State) (o1 : List Nat)
    (nspF : NewStreamData) (k : Nat) (s' : State) (n' : NewStreamData) (q : List Nat) (w : Nat) : Prop where
  pending : s.new_stream_pending = some nsp0
  fresh : nsp0.num_bytes_written = none
  strip : flushPreviousStream s [] 1 = ok (s1, o1, SUCCESS)
  look : headerLoop nsp0 x 0 = ok (nspF, k)
  suff : nspF.sufficient = true
  head : shiftHead { s1 with new_stream_pending := some nspF } nspF = ok (.inr (s', n', q))
  written : n'.num_bytes_written = some w

/-- everything the member owes the output, given its plan -/
def planOwed (o1 q : List Nat) (n' : NewStreamData) (w : Nat) (x : List Nat) (k : Nat) : List Nat :=
  o1 ++ q ++ owedOf n' w ++ x.drop k

/-- what one call does to a member in its header phase -/
inductive CallOutcome (s : State) (x : List Nat) (s1 : State) (o1 : List Nat) (nspF : NewStreamData) (k : Nat)
    (s' : State) (n' : NewStreamData) (q : List Nat) (w : Nat) (r : Ret) : Prop where
  /-- no room for the strip: nothing happened -/
  | stalled (h : r = ⟨s, NEEDS_MORE_OUTPUT, 0, []⟩)
  /-- strip and look-ahead done, no room for the header: still in the header phase -/
  | waiting (hst : r.st = { s1 with new_stream_pending := some nspF }) (hcode : r.code = NEEDS_MORE_OUTPUT)
      (hcons : r.consumed = k) (hprod : r.produced = o1)
  /-- the header was accepted in this call -/
  | accepted (hset : Settled r.st)
      (hcons : r.produced ++ held r.st = o1 ++ q ++ owedOf n' w ++ (x.drop k).take (r.consumed - k))
      (hk : k ≤ r.consumed) (hle : r.consumed ≤ x.length)
      (hcode : r.code = NEEDS_MORE_INPUT ∨ r.code = NEEDS_MORE_OUTPUT)
      (hlen : r.st.new_stream_pending = none → r.st.last_bytes_len = min 2 (1 + (r.consumed - k)))
      (hcopy : r.st.new_stream_pending ≠ none → r.consumed = k ∧ r.code = NEEDS_MORE_OUTPUT)
      (hws : r.st.window_size = s'.window_size)

theorem flush_nocap_code (s s1 : State) (o1 : List Nat) (code : Nat)
    (h1 : flushPreviousStream s [] 1 = ok (s1, o1, SUCCESS))
    (hf : flushPreviousStream s [] 0 = ok (s, [], code)) (hcode : ¬ code = SUCCESS) :
    code = NEEDS_MORE_OUTPUT := by
  cases hs : s.last_byte_sanitized with
  | true => rw [flush_sanitized s [] 0 hs] at hf; simp at hf; exact absurd hf.symm hcode
  | false =>
    by_cases h0 : s.last_bytes_len = 0
    · unfold flushPreviousStream at hf; simp [hs, h0] at hf; exact absurd hf.2.symm hcode
    · rw [flush_unsanitized s [] 1 hs h0] at h1
      rw [flush_unsanitized s [] 0 hs h0] at hf
      by_cases a1 : s.last_bytes_len * 8 ≥ 256
      · simp [a1] at h1
      rw [if_neg a1] at h1 hf
      by_cases a2 : s.last_bytes_len * 8 < 1
      · simp [a2] at h1
      rw [if_neg a2] at h1 hf
      cases hfl : findHighLoop (s.last_bytes.1 + (s.last_bytes.2 <<< 8)) (s.last_bytes_len * 8)
          (s.last_bytes_len * 8) 0 (s.last_bytes_len * 8 - 1) with
      | panic t => rw [hfl] at h1; simp at h1
      | ok index =>
        rw [hfl] at h1 hf
        simp only [bind_ok] at h1 hf
        by_cases a3 : index = 0
        · simp [a3] at h1
        rw [if_neg a3] at h1 hf
        by_cases a4 : ((s.last_bytes.1 + (s.last_bytes.2 <<< 8)) >>> (index - 1)) ≠ 3
        · simp [a4] at h1
        rw [if_neg a4] at h1 hf
        by_cases a5 : index - 1 ≥ 8
        · rw [flushStrip_ge8_nocap _ _ _ a5] at hf
          simp only [Outcome.ok.injEq, Prod.mk.injEq] at hf
          exact hf.2.2.symm
        · rw [flushStrip_lt8 _ _ _ _ _ (by omega), flushFin_lt8 _ _ _ (by omega)] at hf
          simp only [Outcome.ok.injEq, Prod.mk.injEq] at hf
          exact absurd hf.2.2.symm hcode

theorem flush_any_cap (s s1 : State) (o1 : List Nat) (cap : Nat)
    (h1 : flushPreviousStream s [] 1 = ok (s1, o1, SUCCESS)) :
    flushPreviousStream s [] cap = ok (s1, o1, SUCCESS) ∨
    (cap = 0 ∧ flushPreviousStream s [] cap = ok (s, [], NEEDS_MORE_OUTPUT)) := by
  by_cases hc : 1 ≤ cap
  · left; rw [flush_room_irrelevant_gen s cap 1 hc (Nat.le_refl _)]; exact h1
  · have hc0 : cap = 0 := by omega
    subst hc0
    cases hf : flushPreviousStream s [] 0 with
    | panic t =>
      -- the only cap dependence is the room check, which cannot panic
      exfalso
      cases hs : s.last_byte_sanitized with
      | true => rw [flush_sanitized s [] 0 hs] at hf; simp at hf
      | false =>
        by_cases h0 : s.last_bytes_len = 0
        · unfold flushPreviousStream at hf; simp [hs, h0] at hf
        · rw [flush_unsanitized s [] 1 hs h0] at h1
          rw [flush_unsanitized s [] 0 hs h0] at hf
          by_cases a1 : s.last_bytes_len * 8 ≥ 256
          · simp [a1] at h1
          rw [if_neg a1] at h1 hf
          by_cases a2 : s.last_bytes_len * 8 < 1
          · simp [a2] at h1
          rw [if_neg a2] at h1 hf
          cases hfl : findHighLoop (s.last_bytes.1 + (s.last_bytes.2 <<< 8)) (s.last_bytes_len * 8)
              (s.last_bytes_len * 8) 0 (s.last_bytes_len * 8 - 1) with
          | panic t => rw [hfl] at h1; simp at h1
          | ok index =>
            rw [hfl] at h1 hf
            simp only [bind_ok] at h1 hf
            by_cases a3 : index = 0
            · simp [a3] at hf
            rw [if_neg a3] at h1 hf
            by_cases a4 : ((s.last_bytes.1 + (s.last_bytes.2 <<< 8)) >>> (index - 1)) ≠ 3
            · simp [a4] at hf
            rw [if_neg a4] at h1 hf
            by_cases a5 : index - 1 ≥ 8
            · rw [flushStrip_ge8_nocap _ _ _ a5] at hf; simp at hf
            · rw [flushStrip_lt8 _ _ _ _ _ (by omega), flushFin_lt8 _ _ _ (by omega)] at hf; simp at hf
    | ok r =>
      obtain ⟨sX, oX, code⟩ := r
      by_cases hcode : code = SUCCESS
      · subst hcode
        obtain ⟨rfl, _, _, hall⟩ := flush_stall s sX oX hf
        left
        rw [hall [] 1] at h1
        simp only [Outcome.ok.injEq, Prod.mk.injEq] at h1
        obtain ⟨rfl, rfl, _⟩ := h1
        rfl
      · right
        obtain ⟨e1, e2⟩ := flush_sat_unchanged s sX oX code hf hcode
        subst e1 e2
        refine ⟨rfl, ?_⟩
        rw [flush_nocap_code sX s1 o1 code h1 hf hcode]

theorem Inv.with_pending {s : State} (h : Inv s) (d : NewStreamData) (_hsome : s.new_stream_pending.isSome = true)
    (hr : d.num_bytes_read ≤ 5) (hw : d.num_bytes_written = none) :
    Inv { s with new_stream_pending := some d } := by
  refine ⟨h.len_le, h.off_lt, h.ws0, fun e => ⟨rfl, (h.san e).2⟩, h.tail, fun d' hd' => ?_⟩
  simp only [Option.some.injEq] at hd'
  subst hd'
  exact ⟨hr, fun w hw' => by rw [hw] at hw'; simp at hw'⟩

theorem take_drop_glue (x : List Nat) (k c : Nat) (hk : k ≤ c) :
    (x.drop k).take (c - k) ++ x.drop c = x.drop k := by
  have : x.drop c = (x.drop k).drop (c - k) := by rw [List.drop_drop]; congr 1; omega
  rw [this, List.take_append_drop]

/-- ONE call on a member in its header phase that is offered all the remaining input -/
theorem member_call (s : State) (x : List Nat) (nsp0 : NewStreamData) (s1 : State) (o1 : List Nat)
    (nspF : NewStreamData) (k : Nat) (s' : State) (n' : NewStreamData) (q : List Nat) (w : Nat)
    (plan : HdrPlan s x nsp0 s1 o1 nspF k s' n' q w) (hI : Inv s) (cap : Nat) (r : Ret)
    (h : stream s x cap = ok r) : CallOutcome s x s1 o1 nspF k s' n' q w r := by
  have hp := plan.pending
  rcases flush_any_cap s s1 o1 cap plan.strip with hf | ⟨hc0, hf⟩
  · -- the strip happens (or happened) in this call
    have hfl := flush_inv s [] cap hI (Nat.zero_le _) (by rw [hp]; rfl)
    rw [hf, sat_ok] at hfl
    obtain ⟨hfp, hI1⟩ := hfl
    dsimp only at hI1
    have hsan1 : s1.last_byte_sanitized = true := hfp.sanit rfl
    have hp1 : s1.new_stream_pending = some nsp0 := by rw [← hp]; exact hfp.pending
    have hole : o1.length ≤ cap := hfp.out_le
    obtain ⟨hr50, _⟩ := hI.pend nsp0 hp
    have hls := headerLoop_sat x nsp0 0 hr50
    rw [plan.look, sat_ok] at hls
    obtain ⟨hwF, hr5F, _, hkx, _, _⟩ := hls
    dsimp only at hwF hr5F hkx
    have hwF' : nspF.num_bytes_written = none := by rw [hwF]; exact plan.fresh
    rw [stream_of_flush s s1 nsp0 x cap o1 hp hf] at h
    -- the look-ahead step yields (nspF, k, s2)
    have hstep : (if nsp0.num_bytes_written.isNone = true ∧ nsp0.num_bytes_read < NUM_STREAM_HEADER_BYTES then
          (headerLoop nsp0 x 0).bind fun x => ok (x.1, x.2, { s1 with new_stream_pending := some x.1 })
        else ok (nsp0, 0, s1)) = ok (nspF, k, { s1 with new_stream_pending := some nspF }) := by
      by_cases hc : nsp0.num_bytes_written.isNone = true ∧ nsp0.num_bytes_read < NUM_STREAM_HEADER_BYTES
      · rw [if_pos hc, plan.look]; rfl
      · rw [if_neg hc]
        have h5 : nsp0.num_bytes_read = 5 := by
          rw [hdr5] at hc
          have : nsp0.num_bytes_written.isNone = true := by rw [plan.fresh]; rfl
          have : ¬ nsp0.num_bytes_read < 5 := fun e => hc ⟨this, e⟩
          omega
        have hs0 : nsp0.sufficient = true := (sufficient_iff nsp0).mpr (Or.inr h5)
        have := plan.look
        rw [headerLoop_sufficient nsp0 hs0 x 0] at this
        simp only [Outcome.ok.injEq, Prod.mk.injEq] at this
        obtain ⟨e1, e2⟩ := this
        subst e1 e2
        rw [state_eta_pending s1 nsp0 hp1]
    rw [hstep] at h
    simp only [bind_ok] at h
    rw [if_neg (by rw [plan.suff]; simp)] at h
    have hI2 : Inv { s1 with new_stream_pending := some nspF } :=
      hI1.with_pending nspF (by rw [hp1]; rfl) hr5F hwF'
    by_cases hfull : cap = o1.length
    · rw [if_pos hfull] at h
      simp only [Outcome.ok.injEq] at h
      subst h
      exact CallOutcome.waiting rfl rfl rfl rfl
    rw [if_neg hfull] at h
    have hlt : o1.length < cap := by omega
    rw [shiftAndCheck_factor _ nspF o1 cap hwF' hlt, plan.head] at h
    simp only [bind_ok, shiftFinish] at h
    obtain ⟨⟨w', hw', hwle⟩, hr5', hq1, hsan', hws', _⟩ :=
      shiftHead_inr _ nspF s' n' q hI2 hr5F plan.suff plan.head
    have hww : w' = w := by rw [plan.written] at hw'; simp at hw'; exact hw'.symm
    subst hww
    cases hsc : shiftCopyOut s' n' (o1 ++ q) cap with
    | panic t => rw [hsc] at h; simp at h
    | ok y =>
      rw [hsc] at h
      simp only [bind_ok] at h
      have hqne : q ≠ [] := fun e => by rw [e] at hq1; simp at hq1
      have hg := shiftCopyOut_cons_gen s' n' w' o1 q cap y plan.written hwle hr5'
        (by rw [List.length_append, hq1]; omega) (Or.inl hqne) (by rw [hsan']; exact hsan1) hsc
      obtain ⟨P, hP1, hP2⟩ := hg.out
      rcases hg.code with c0 | c2
      · obtain ⟨d1, d2⟩ := hg.done c0
        rw [if_neg (by rw [c0]; simp)] at h
        by_cases hfull2 : y.2.1.length = cap
        · rw [if_pos hfull2] at h
          simp only [Outcome.ok.injEq] at h
          subst h
          refine CallOutcome.accepted hg.settled ?_ (Nat.le_refl _) (by simpa using hkx) (Or.inr rfl)
            (fun _ => by dsimp only; rw [d2]; simp) (fun hne => absurd d1 hne) hg.ws
          dsimp only
          rw [hP1, Nat.sub_self, List.take_zero, List.append_nil, List.append_assoc, ← hP2, List.append_assoc]
        · rw [if_neg hfull2] at h
          obtain ⟨P2, t1, _, t4, t5, t6, t7, t8⟩ :=
            streamTail_cons y.1 x k y.2.1 cap d1 (by omega) (by simpa using hkx) hg.len_le r h
          have hpr : r.st.new_stream_pending = none := by rw [t7]; exact d1
          refine CallOutcome.accepted (Or.inl hpr) ?_ (by omega) t4 t8 (fun _ => by rw [t6, d2])
            (fun hne => absurd hpr hne) (by rw [t7]; exact hg.ws)
          rw [t1, hP1, held_none r.st hpr]
          have e5 : held y.1 = [y.1.last_bytes.1, y.1.last_bytes.2].take y.1.last_bytes_len := held_none y.1 d1
          rw [List.append_assoc, List.append_assoc, ← t5, ← e5, ← List.append_assoc P, ← hP2]
          simp [List.append_assoc]
      · obtain ⟨e1, e2⟩ := hg.more c2
        rw [if_pos (by rw [c2]; simp)] at h
        simp only [Outcome.ok.injEq] at h
        subst h
        refine CallOutcome.accepted hg.settled ?_ (Nat.le_refl _) (by simpa using hkx) (Or.inr c2)
          (fun e => absurd e e1) (fun _ => ⟨rfl, c2⟩) hg.ws
        dsimp only
        rw [hP1, Nat.sub_self, List.take_zero, List.append_nil, List.append_assoc, ← hP2, List.append_assoc]
  · -- no room for the completed byte of the strip
    subst hc0
    unfold stream at h
    rw [hp] at h
    dsimp only at h
    rw [hf] at h
    simp only [bind_ok, ne_eq] at h
    rw [if_pos (by simp)] at h
    simp only [Outcome.ok.injEq] at h
    exact CallOutcome.stalled h.symm

/-- result of a complete protocol run over a buffer that completes the member's header -/
structure MemberRun (acc : List Nat) (o1 q : List Nat) (n' : NewStreamData) (w : Nat) (x : List Nat) (k : Nat)
    (s' : State) (R : Run) : Prop where
  cons : R.emitted ++ held R.st = acc ++ planOwed o1 q n' w x k
  code : R.code = NEEDS_MORE_INPUT
  pending : R.st.new_stream_pending = none
  len : R.st.last_bytes_len = min 2 (1 + (x.length - k))
  inv : Inv R.st
  ws : R.st.window_size = s'.window_size

theorem feedBuffer_member : ∀ (fuel : Nat) (s : State) (x caps acc : List Nat) (R : Run)
    (nsp0 : NewStreamData) (s1 : State) (o1 : List Nat) (nspF : NewStreamData) (k : Nat) (s' : State)
    (n' : NewStreamData) (q : List Nat) (w : Nat),
    HdrPlan s x nsp0 s1 o1 nspF k s' n' q w → Inv s → Started s →
    feedBuffer fuel s x caps acc = some R → MemberRun acc o1 q n' w x k s' R := by
  intro fuel
  induction fuel with
  | zero => intro s x caps acc R _ _ _ _ _ _ _ _ _ _ _ _ h; simp [feedBuffer] at h
  | succ f ih =>
    intro s x caps acc R nsp0 s1 o1 nspF k s' n' q w plan hI hS h
    unfold feedBuffer at h
    dsimp only at h
    cases hst : stream s x (caps.headD (x.length + 8)) with
    | panic t => rw [hst] at h; simp at h
    | ok r =>
      rw [hst] at h
      dsimp only at h
      have hpost := stream_sat s x (caps.headD (x.length + 8)) hI hS
      rw [hst, sat_ok] at hpost
      have hc := member_call s x nsp0 s1 o1 nspF k s' n' q w plan hI _ r hst
      cases hc with
      | stalled hr =>
        subst hr
        simp only [isTerminal, NEEDS_MORE_OUTPUT, NEEDS_MORE_INPUT, List.drop_zero, List.append_nil] at h
        rw [if_neg (by simp), if_neg (by simp)] at h
        exact ih s x caps.tail acc R nsp0 s1 o1 nspF k s' n' q w plan hI hS h
      | waiting hst2 hcode hcons hprod =>
        have hnt : isTerminal r.code = false := by rw [hcode]; decide
        rw [hnt] at h
        simp only [Bool.false_eq_true, if_false] at h
        rw [if_neg (by rw [hcode]; simp)] at h
        rw [hcons, hprod, hst2] at h
        -- the new plan: strip and look-ahead are done
        obtain ⟨hr50, _⟩ := hI.pend nsp0 plan.pending
        have hls := headerLoop_sat x nsp0 0 hr50
        rw [plan.look, sat_ok] at hls
        have hwF : nspF.num_bytes_written = none := by rw [hls.1]; exact plan.fresh
        have hI2 : Inv { s1 with new_stream_pending := some nspF } := by rw [← hst2]; exact hpost.inv
        have hS2 : Started { s1 with new_stream_pending := some nspF } := by rw [← hst2]; exact hpost.started
        have hfl := flush_inv s [] 1 hI (Nat.zero_le _) (by rw [plan.pending]; rfl)
        rw [plan.strip, sat_ok] at hfl
        have hsan1 : s1.last_byte_sanitized = true := hfl.1.sanit rfl
        have plan2 : HdrPlan { s1 with new_stream_pending := some nspF } (x.drop k) nspF
            { s1 with new_stream_pending := some nspF } [] nspF 0 s' n' q w :=
          ⟨rfl, hwF, flush_sanitized _ [] 1 hsan1, headerLoop_sufficient nspF plan.suff _ 0, plan.suff,
            plan.head, plan.written⟩
        have hR := ih _ (x.drop k) caps.tail (acc ++ o1) R nspF _ [] nspF 0 s' n' q w plan2 hI2 hS2 h
        refine ⟨?_, hR.code, hR.pending, ?_, hR.inv, hR.ws⟩
        · rw [hR.cons]; unfold planOwed; simp [List.append_assoc]
        · rw [hR.len]; simp
      | accepted hset hcons hk hle hcode hlen hcopy hws =>
        have hnt : isTerminal r.code = false := by
          rcases hcode with e | e <;> rw [e] <;> decide
        rw [hnt] at h
        simp only [Bool.false_eq_true, if_false] at h
        by_cases hdone : r.code = NEEDS_MORE_INPUT ∧ x.drop r.consumed = []
        · rw [if_pos hdone] at h
          simp only [Option.some.injEq] at h
          subst h
          have hall : r.consumed = x.length := by
            have := List.drop_eq_nil_iff.mp hdone.2
            omega
          have hpn : r.st.new_stream_pending = none := by
            cases hq : r.st.new_stream_pending with
            | none => rfl
            | some d =>
              have := (hcopy (by rw [hq]; simp)).2
              rw [hdone.1] at this; simp at this
          refine ⟨?_, hdone.1, hpn, ?_, hpost.inv, hws⟩
          · dsimp only
            rw [List.append_assoc, hcons]
            unfold planOwed
            have := take_drop_glue x k r.consumed hk
            rw [hdone.2, List.append_nil] at this
            rw [this]
          · have := hlen hpn; rw [hall] at this; exact this
        · rw [if_neg hdone] at h
          have hR := feedBuffer_cons f r.st (x.drop r.consumed) caps.tail (acc ++ r.produced) R hpost.inv
            hpost.started hset h
          refine ⟨?_, hR.code, hR.pending, ?_, hR.inv, by rw [hR.ws, hws]⟩
          · rw [hR.cons]
            unfold planOwed
            calc acc ++ r.produced ++ held r.st ++ List.drop r.consumed x
                = acc ++ (r.produced ++ held r.st) ++ List.drop r.consumed x := by simp [List.append_assoc]
              _ = acc ++ (o1 ++ q ++ owedOf n' w ++ ((x.drop k).take (r.consumed - k) ++ x.drop r.consumed)) := by
                rw [hcons]; simp [List.append_assoc]
              _ = acc ++ (o1 ++ q ++ owedOf n' w ++ x.drop k) := by rw [take_drop_glue x k r.consumed hk]
          · rw [hR.len]
            have hdl : (List.drop r.consumed x).length = x.length - r.consumed := by simp
            rw [hdl]
            cases hq : r.st.new_stream_pending with
            | none =>
              have := hlen hq
              unfold baseLen
              rw [hq]
              dsimp only
              rw [this]
              omega
            | some d =>
              obtain ⟨c0, _⟩ := hcopy (by rw [hq]; simp)
              unfold baseLen
              rw [hq]
              dsimp only
              rw [c0]

/-! ### the other outcomes of a header phase -/

theorem flushFin_code (s : State) (out : List Nat) (i : Nat) (r : State × List Nat × Nat)
    (h : flushFin s out i = ok r) : r.2.2 = SUCCESS := by
  unfold flushFin at h
  dsimp only at h
  split at h
  · simp at h
  · simp only [Outcome.ok.injEq] at h; subst h; rfl

theorem flushStrip_code (s : State) (out : List Nat) (cap lb i : Nat) (r : State × List Nat × Nat)
    (h : flushStrip s out cap lb i = ok r) : r.2.2 = SUCCESS ∨ r.2.2 = NEEDS_MORE_OUTPUT := by
  unfold flushStrip at h
  split at h
  · simp only [Outcome.ok.injEq] at h; subst h; exact Or.inr rfl
  split at h
  · simp at h
  dsimp only at h
  split at h
  · split at h
    · cases hp : push Site.flushOutIndex out cap ((lb &&& ((1 <<< i) - 1)) % 256) with
      | panic t => rw [hp] at h; simp at h
      | ok o =>
        rw [hp] at h
        simp only [bind_ok] at h
        split at h
        · simp at h
        · exact Or.inl (flushFin_code _ _ _ r h)
    · simp only [Outcome.ok.injEq] at h; subst h; exact Or.inr rfl
  · exact Or.inl (flushFin_code _ _ _ r h)

/-- a strip that fails does so whatever room is offered -/
theorem flush_fail_any_cap (s s1 : State) (o1 : List Nat) (cap : Nat)
    (h1 : flushPreviousStream s [] 1 = ok (s1, o1, NOT_CRAFTED_FOR_APPEND)) :
    flushPreviousStream s [] cap = ok (s, [], NOT_CRAFTED_FOR_APPEND) := by
  cases hs : s.last_byte_sanitized with
  | true => rw [flush_sanitized s [] 1 hs] at h1; simp at h1
  | false =>
    by_cases h0 : s.last_bytes_len = 0
    · unfold flushPreviousStream at h1; simp [hs, h0] at h1
    · rw [flush_unsanitized s [] 1 hs h0] at h1
      rw [flush_unsanitized s [] cap hs h0]
      by_cases a1 : s.last_bytes_len * 8 ≥ 256
      · simp [a1] at h1
      rw [if_neg a1] at h1 ⊢
      by_cases a2 : s.last_bytes_len * 8 < 1
      · simp [a2] at h1
      rw [if_neg a2] at h1 ⊢
      cases hfl : findHighLoop (s.last_bytes.1 + (s.last_bytes.2 <<< 8)) (s.last_bytes_len * 8)
          (s.last_bytes_len * 8) 0 (s.last_bytes_len * 8 - 1) with
      | panic t => rw [hfl] at h1; simp at h1
      | ok index =>
        rw [hfl] at h1
        simp only [bind_ok] at h1 ⊢
        by_cases a3 : index = 0
        · rw [if_pos a3]
        rw [if_neg a3] at h1 ⊢
        by_cases a4 : ((s.last_bytes.1 + (s.last_bytes.2 <<< 8)) >>> (index - 1)) ≠ 3
        · rw [if_pos a4]
        rw [if_neg a4] at h1
        exfalso
        have := flushStrip_code _ _ _ _ _ _ h1
        simp at this

/-- common part of the analysis of one call on a header-phase state offered all of `x` -/
theorem header_call_prefix (s : State) (x : List Nat) (nsp0 : NewStreamData) (s1 : State) (o1 : List Nat)
    (nspX : NewStreamData) (k : Nat)
    (hp : s.new_stream_pending = some nsp0) (hfresh : nsp0.num_bytes_written = none)
    (hstrip : flushPreviousStream s [] 1 = ok (s1, o1, SUCCESS))
    (hlook : headerLoop nsp0 x 0 = ok (nspX, k)) (hI : Inv s) (cap : Nat) (r : Ret)
    (h : stream s x cap = ok r) :
    r = ⟨s, NEEDS_MORE_OUTPUT, 0, []⟩ ∨
    (Inv { s1 with new_stream_pending := some nspX } ∧ s1.last_byte_sanitized = true ∧ o1.length ≤ cap ∧
      nspX.num_bytes_written = none ∧ nspX.num_bytes_read ≤ 5 ∧ k ≤ x.length ∧
      (nspX.sufficient = false → k = x.length) ∧
      (if nspX.sufficient = false then ok ⟨{ s1 with new_stream_pending := some nspX }, NEEDS_MORE_INPUT, k, o1⟩ else
       if cap = o1.length then ok ⟨{ s1 with new_stream_pending := some nspX }, NEEDS_MORE_OUTPUT, k, o1⟩ else
       (shiftAndCheckNewStreamHeader { s1 with new_stream_pending := some nspX } nspX o1 cap).bind fun y =>
       if y.2.2 ≠ SUCCESS then ok ⟨y.1, y.2.2, k, y.2.1⟩ else
       if y.2.1.length = cap then ok ⟨y.1, NEEDS_MORE_OUTPUT, k, y.2.1⟩ else
       streamTail y.1 x k y.2.1 cap) = ok r) := by
  rcases flush_any_cap s s1 o1 cap hstrip with hf | ⟨hc0, hf⟩
  · right
    have hfl := flush_inv s [] cap hI (Nat.zero_le _) (by rw [hp]; rfl)
    rw [hf, sat_ok] at hfl
    obtain ⟨hfp, hI1⟩ := hfl
    dsimp only at hI1
    have hsan1 : s1.last_byte_sanitized = true := hfp.sanit rfl
    have hp1 : s1.new_stream_pending = some nsp0 := by rw [← hp]; exact hfp.pending
    have hole : o1.length ≤ cap := hfp.out_le
    obtain ⟨hr50, _⟩ := hI.pend nsp0 hp
    have hls := headerLoop_sat x nsp0 0 hr50
    rw [hlook, sat_ok] at hls
    obtain ⟨hwF, hr5F, _, hkx, _, hsx⟩ := hls
    dsimp only at hwF hr5F hkx hsx
    have hwF' : nspX.num_bytes_written = none := by rw [hwF]; exact hfresh
    rw [stream_of_flush s s1 nsp0 x cap o1 hp hf] at h
    have hstep : (if nsp0.num_bytes_written.isNone = true ∧ nsp0.num_bytes_read < NUM_STREAM_HEADER_BYTES then
          (headerLoop nsp0 x 0).bind fun x => ok (x.1, x.2, { s1 with new_stream_pending := some x.1 })
        else ok (nsp0, 0, s1)) = ok (nspX, k, { s1 with new_stream_pending := some nspX }) := by
      by_cases hc : nsp0.num_bytes_written.isNone = true ∧ nsp0.num_bytes_read < NUM_STREAM_HEADER_BYTES
      · rw [if_pos hc, hlook]; rfl
      · rw [if_neg hc]
        have h5 : nsp0.num_bytes_read = 5 := by
          rw [hdr5] at hc
          have : nsp0.num_bytes_written.isNone = true := by rw [hfresh]; rfl
          have : ¬ nsp0.num_bytes_read < 5 := fun e => hc ⟨this, e⟩
          omega
        have hs0 : nsp0.sufficient = true := (sufficient_iff nsp0).mpr (Or.inr h5)
        have := hlook
        rw [headerLoop_sufficient nsp0 hs0 x 0] at this
        simp only [Outcome.ok.injEq, Prod.mk.injEq] at this
        obtain ⟨e1, e2⟩ := this
        subst e1 e2
        rw [state_eta_pending s1 nsp0 hp1]
    rw [hstep] at h
    simp only [bind_ok] at h
    refine ⟨hI1.with_pending nspX (by rw [hp1]; rfl) hr5F hwF', hsan1, hole, hwF', hr5F, by simpa using hkx, ?_, ?_⟩
    · intro hns
      rcases hsx with e | e
      · rw [e] at hns; simp at hns
      · simpa using e
    · cases hsf : nspX.sufficient with
      | false =>
        rw [if_pos ⟨by rw [hwF']; rfl, by rw [hsf]; simp⟩] at h
        simp only [if_true]
        exact h
      | true =>
        rw [if_neg (by rw [hsf]; simp)] at h
        simp only [Bool.true_eq_false, if_false]
        exact h
  · left
    subst hc0
    unfold stream at h
    rw [hp] at h
    dsimp only at h
    rw [hf] at h
    simp only [bind_ok, ne_eq] at h
    rw [if_pos (by simp)] at h
    simp only [Outcome.ok.injEq] at h
    exact h.symm

/-- the buffer ends before the look-ahead is complete: the run takes all of it, emits the
strip's byte (if any) and waits in the header phase -/
theorem feedBuffer_partial : ∀ (fuel : Nat) (s : State) (x caps acc : List Nat) (R : Run)
    (nsp0 : NewStreamData) (s1 : State) (o1 : List Nat) (nspX : NewStreamData) (k : Nat),
    s.new_stream_pending = some nsp0 → nsp0.num_bytes_written = none →
    flushPreviousStream s [] 1 = ok (s1, o1, SUCCESS) → headerLoop nsp0 x 0 = ok (nspX, k) →
    nspX.sufficient = false → Inv s →
    feedBuffer fuel s x caps acc = some R →
    R = ⟨{ s1 with new_stream_pending := some nspX }, NEEDS_MORE_INPUT, acc ++ o1⟩ ∧ k = x.length := by
  intro fuel
  induction fuel with
  | zero => intro s x caps acc R _ _ _ _ _ _ _ _ _ _ _ h; simp [feedBuffer] at h
  | succ f ih =>
    intro s x caps acc R nsp0 s1 o1 nspX k hp hfresh hstrip hlook hins hI h
    unfold feedBuffer at h
    dsimp only at h
    cases hst : stream s x (caps.headD (x.length + 8)) with
    | panic t => rw [hst] at h; simp at h
    | ok r =>
      rw [hst] at h
      dsimp only at h
      rcases header_call_prefix s x nsp0 s1 o1 nspX k hp hfresh hstrip hlook hI _ r hst with hr | ⟨_, _, _, _, _, _, hkx, hr⟩
      · subst hr
        simp only [isTerminal, NEEDS_MORE_OUTPUT, NEEDS_MORE_INPUT, List.drop_zero, List.append_nil] at h
        rw [if_neg (by simp), if_neg (by simp)] at h
        exact ih s x caps.tail acc R nsp0 s1 o1 nspX k hp hfresh hstrip hlook hins hI h
      · rw [if_pos hins] at hr
        simp only [Outcome.ok.injEq] at hr
        subst hr
        have hk := hkx hins
        simp only [isTerminal, NEEDS_MORE_INPUT] at h
        rw [if_neg (by simp), if_pos ⟨trivial, by rw [hk]; simp⟩] at h
        simp only [Option.some.injEq] at h
        exact ⟨h.symm, hk⟩

theorem shiftHead_inl_code (s : State) (nsp : NewStreamData) (c : Nat) (h : shiftHead s nsp = ok (.inl c)) :
    c = INVALID_WINDOW_SIZE ∨ c = WINDOW_SIZE_LARGER ∨ c = NOT_CRAFTED_FOR_CONCAT := by
  unfold shiftHead at h
  split at h
  · simp at h
  cases hpw : parseWindowSize (nsp.bytes_so_far.toList.take nsp.num_bytes_read) with
  | panic t => rw [hpw] at h; simp at h
  | ok pw =>
    rw [hpw] at h
    simp only [bind_ok] at h
    cases pw with
    | none => simp at h; exact Or.inl h.symm
    | some wo =>
      obtain ⟨wsz, wo⟩ := wo
      dsimp only at h
      split at h
      · split at h <;> simp at h
      split at h
      · simp at h; exact Or.inr (Or.inl h.symm)
      split at h
      · simp at h; exact Or.inr (Or.inr h.symm)
      cases hvo : detectVarlenOffset (nsp.bytes_so_far.toList.take nsp.num_bytes_read) with
      | panic t => rw [hvo] at h; simp at h
      | ok vo =>
        rw [hvo] at h
        simp only [bind_ok] at h
        cases vo with
        | none => simp at h; exact Or.inr (Or.inr h.symm)
        | some v =>
          dsimp only at h
          split at h
          · simp at h; exact Or.inr (Or.inr h.symm)
          · cases hsr : shiftRealign s nsp wo v [] 1 with
            | panic t => rw [hsr] at h; simp at h
            | ok r => rw [hsr] at h; simp at h

/-- the header is refused: the run reports the terminal code, having emitted only the strip's byte -/
theorem feedBuffer_rejected : ∀ (fuel : Nat) (s : State) (x caps acc : List Nat) (R : Run)
    (nsp0 : NewStreamData) (s1 : State) (o1 : List Nat) (nspX : NewStreamData) (k c : Nat),
    s.new_stream_pending = some nsp0 → nsp0.num_bytes_written = none →
    flushPreviousStream s [] 1 = ok (s1, o1, SUCCESS) → headerLoop nsp0 x 0 = ok (nspX, k) →
    nspX.sufficient = true → shiftHead { s1 with new_stream_pending := some nspX } nspX = ok (.inl c) →
    Inv s → Started s →
    feedBuffer fuel s x caps acc = some R →
    R = ⟨{ s1 with new_stream_pending := some nspX }, c, acc ++ o1⟩ := by
  intro fuel
  induction fuel with
  | zero => intro s x caps acc R _ _ _ _ _ _ _ _ _ _ _ _ _ _ h; simp [feedBuffer] at h
  | succ f ih =>
    intro s x caps acc R nsp0 s1 o1 nspX k c hp hfresh hstrip hlook hsuf hhead hI hS h
    have hcode := shiftHead_inl_code _ _ c hhead
    have hterm : isTerminal c = true := by rcases hcode with e | e | e <;> rw [e] <;> decide
    unfold feedBuffer at h
    dsimp only at h
    cases hst : stream s x (caps.headD (x.length + 8)) with
    | panic t => rw [hst] at h; simp at h
    | ok r =>
      rw [hst] at h
      dsimp only at h
      have hpost := stream_sat s x (caps.headD (x.length + 8)) hI hS
      rw [hst, sat_ok] at hpost
      rcases header_call_prefix s x nsp0 s1 o1 nspX k hp hfresh hstrip hlook hI _ r hst with
        hr | ⟨hI2, hsan1, hole, hwX, hr5X, _, _, hr⟩
      · subst hr
        simp only [isTerminal, NEEDS_MORE_OUTPUT, NEEDS_MORE_INPUT, List.drop_zero, List.append_nil] at h
        rw [if_neg (by simp), if_neg (by simp)] at h
        exact ih s x caps.tail acc R nsp0 s1 o1 nspX k c hp hfresh hstrip hlook hsuf hhead hI hS h
      · rw [if_neg (by rw [hsuf]; simp)] at hr
        by_cases hfull : caps.headD (x.length + 8) = o1.length
        · rw [if_pos hfull] at hr
          simp only [Outcome.ok.injEq] at hr
          have hnt : isTerminal r.code = false := by rw [← hr]; rfl
          rw [hnt] at h
          simp only [Bool.false_eq_true, if_false] at h
          rw [if_neg (by rw [← hr]; simp)] at h
          rw [← hr] at h hpost
          dsimp only at h
          have hS2 : Started { s1 with new_stream_pending := some nspX } := hpost.started
          have := ih { s1 with new_stream_pending := some nspX } (x.drop k) caps.tail (acc ++ o1) R nspX
            { s1 with new_stream_pending := some nspX } [] nspX 0 c rfl hwX
            (flush_sanitized _ [] 1 hsan1) (headerLoop_sufficient nspX hsuf _ 0) hsuf hhead hI2 hS2 h
          rw [this]; simp
        · rw [if_neg hfull, shiftAndCheck_factor _ nspX o1 _ hwX (by omega), hhead] at hr
          simp only [bind_ok, shiftFinish] at hr
          rw [if_pos (by rcases hcode with e | e | e <;> rw [e] <;> simp)] at hr
          simp only [Outcome.ok.injEq] at hr
          subst hr
          rw [hterm] at h
          simp only [if_true, Option.some.injEq] at h
          exact h.symm

end BV.Concat
