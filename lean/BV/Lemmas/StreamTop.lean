import BV.Lemmas.StreamMeta
/-
`compress_stream` as a whole refines the contract automaton.
-/
namespace BV.Stream
open BV.Bits

theorem absC_updateSizeHint (s : St) (n : Nat) : absC (updateSizeHint s n) = absC s := by
  obtain ⟨_, _, _, _, _, _, u7, u8, u9, _, _, _, u13, _⟩ := updateSizeHint_fields s n
  unfold absC
  rw [u7, u8, u9, u13]

/-- the initial cursors of a call -/
def Io.start (input : Bytes) (cap : Nat) : Io := { input := input, availIn := input.length, availOut := cap }

theorem compressStream_refines {o : Oracle} {fuel op cap : Nat} {input : Bytes} {s s' : St} {io' : Io} {r : Bool}
    (hop : op ≤ 3) (hI : Inv s) (hw : s.inputPos + input.length < two64)
    (h : compressStream o fuel s op input cap = .ok (s', io', r)) :
    r = Contract.accepts (absC s) op input.length ∧
    (r = true → Inv s' ∧ io'.availIn ≤ input.length ∧
      Contract.succ (absC s) op input.length (input.length - io'.availIn) (absC s')) := by
  unfold compressStream at h
  rw [ensureInitialized_id hI.init] at h
  simp only at h
  split at h
  · -- inside a metadata block with the wrong size or the wrong operation
    rename_i hg
    simp only [Out.ok.injEq, Prod.mk.injEq] at h
    obtain ⟨rfl, rfl, rfl⟩ := h
    refine ⟨?_, by intro hh; cases hh⟩
    rw [absC_md hI.init hg.1]
    unfold Contract.accepts
    rcases hg.2 with h2 | h2
    · simp [h2]
    · simp [h2]
  · rename_i hg
    split at h
    · -- EMIT_METADATA
      rename_i hop3
      subst hop3
      have hIu := inv_updateSizeHint hI 0
      obtain ⟨_, _, _, _, _, _, u7, _, u9, _⟩ := updateSizeHint_fields s 0
      by_cases hrm : s.remainingMetadata = u32Max
      · -- not inside a block
        by_cases hst : s.streamState = .processing
        · rw [absC_processing hI.init hrm hst]
          by_cases hle : input.length ≤ 16777216
          · have hm := md_refines (o := o) (fuel := fuel) (s := updateSizeHint s 0) (io := { input := input, availIn := input.length, availOut := cap })
                hIu (Or.inr ⟨u7.trans hrm, u9.trans hst, hle⟩) h
            obtain ⟨hr, hI', hav, hcase⟩ := hm
            refine ⟨by rw [hr]; simp [Contract.accepts, hle], fun _ => ⟨hI', hav, ?_⟩⟩
            unfold Contract.succ
            simp only [↓reduceIte]
            rcases hcase with ⟨c1, c2, c3⟩ | ⟨c1, c2, c3⟩
            · exact Or.inl ⟨s'.remainingMetadata, absC_md hI'.init c1, c2, c3⟩
            · refine Or.inr ⟨absC_processing hI'.init c1 c2, ?_⟩
              simp only [c3]; omega
          · unfold processMetadata at h
            rw [if_pos (by simpa using hle)] at h
            simp only [Out.ok.injEq, Prod.mk.injEq] at h
            obtain ⟨rfl, rfl, rfl⟩ := h
            exact ⟨by simp [Contract.accepts, hle], by intro hh; cases hh⟩
        · -- flushing / finishing / finished: refused
          have hacc : Contract.accepts (absC s) 3 input.length = false := by
            rw [absC_eq hI hrm]
            cases hs : s.streamState
            · exact absurd hs hst
            · simp [Contract.accepts]
            · by_cases hp : s.pending.length = 0 <;> simp [Contract.accepts, hp]
            · have := hI.mdIff.mp (Or.inl hs); exact absurd hrm this
            · have := hI.mdIff.mp (Or.inr hs); exact absurd hrm this
          rw [hacc]
          unfold processMetadata at h
          split at h
          · simp only [Out.ok.injEq, Prod.mk.injEq] at h
            obtain ⟨rfl, rfl, rfl⟩ := h
            exact ⟨rfl, by intro hh; cases hh⟩
          · have hme : mdEnter (updateSizeHint s 0) input.length = updateSizeHint s 0 := by
              unfold mdEnter; rw [if_neg (by rw [u9]; exact hst)]
            rw [hme] at h
            have hnmd : (updateSizeHint s 0).streamState ≠ .metadataHead ∧ (updateSizeHint s 0).streamState ≠ .metadataBody := by
              rw [u9]
              constructor
              · intro hh; exact absurd hrm (hI.mdIff.mp (Or.inl hh))
              · intro hh; exact absurd hrm (hI.mdIff.mp (Or.inr hh))
            rw [if_pos hnmd] at h
            simp only [Out.ok.injEq, Prod.mk.injEq] at h
            obtain ⟨rfl, rfl, rfl⟩ := h
            exact ⟨rfl, by intro hh; cases hh⟩
      · -- inside a block, with exactly the remaining bytes
        have hav : input.length = s.remainingMetadata := by
          by_cases hne : input.length = s.remainingMetadata
          · exact hne
          · exact absurd ⟨hrm, Or.inl hne⟩ hg
        have hm := md_refines (o := o) (fuel := fuel) (s := updateSizeHint s 0) (io := { input := input, availIn := input.length, availOut := cap })
            hIu (Or.inl ⟨by rw [u7]; exact hrm, by rw [u7]; exact hav⟩) h
        obtain ⟨hr, hI', hav', hcase⟩ := hm
        rw [absC_md hI.init hrm]
        refine ⟨by rw [hr]; simp [Contract.accepts, hav], fun _ => ⟨hI', hav', ?_⟩⟩
        unfold Contract.succ
        simp only
        rcases hcase with ⟨c1, c2, c3⟩ | ⟨c1, c2, c3⟩
        · simp only at c2 c3
          refine Or.inl ⟨s'.remainingMetadata, absC_md hI'.init c1, by omega, ?_⟩
          rw [hav] at c3 ⊢; exact c3
        · refine Or.inr ⟨absC_processing hI'.init c1 c2, ?_⟩
          simp only [c3]; omega
    · rename_i hop3
      have hop2 : op ≤ 2 := by omega
      have hrm : s.remainingMetadata = u32Max := by
        by_cases hne : s.remainingMetadata = u32Max
        · exact hne
        · exact absurd ⟨hne, Or.inr hop3⟩ hg
      have hnmd : ¬ (s.streamState = .metadataHead ∨ s.streamState = .metadataBody) := by
        intro hh; exact absurd hrm (hI.mdIff.mp hh)
      rw [if_neg hnmd] at h
      split at h
      · -- input offered while flushing / finishing / finished
        rename_i hbad
        simp only [Out.ok.injEq, Prod.mk.injEq] at h
        obtain ⟨rfl, rfl, rfl⟩ := h
        refine ⟨?_, by intro hh; cases hh⟩
        rw [absC_eq hI hrm]
        have hn : input.length ≠ 0 := hbad.2
        cases hs : s.streamState
        · exact absurd hs hbad.1
        · simp [Contract.accepts, hn]
        · by_cases hp : s.pending.length = 0 <;> simp [Contract.accepts, hp, hn]
        · exact absurd (Or.inl hs) hnmd
        · exact absurd (Or.inr hs) hnmd
      · rename_i hok
        have hacc : s.streamState ≠ .processing → input.length = 0 := by
          intro hh
          by_cases hne : input.length = 0
          · exact hne
          · exact absurd ⟨hh, hne⟩ hok
        have haccept : Contract.accepts (absC s) op input.length = true := by
          rw [absC_eq hI hrm]
          cases hs : s.streamState
          · simp [Contract.accepts, hop3]
          · have := hacc (by rw [hs]; simp); simp [Contract.accepts, hop3, this]
          · have := hacc (by rw [hs]; simp)
            by_cases hp : s.pending.length = 0 <;> simp [Contract.accepts, hp, hop3, this]
          · exact absurd (Or.inl hs) hnmd
          · exact absurd (Or.inr hs) hnmd
        rw [haccept]
        split at h
        · rename_i hfast
          have hfm : fastMode s.params := ⟨hfast.1, by simpa using hfast.2.1, by simpa using hfast.2.2⟩
          obtain ⟨hr, hI', _, hav, _, hsucc⟩ := fast_refines (io := { input := input, availIn := input.length, availOut := cap })
            hop2 hI hrm hfm hacc h
          exact ⟨hr, fun _ => ⟨hI', hav, hsucc⟩⟩
        · obtain ⟨hr, hI', _, hav, _, hsucc⟩ := slow_refines (io := { input := input, availIn := input.length, availOut := cap })
            hop2 hI hrm hw hacc h
          exact ⟨hr, fun _ => ⟨hI', hav, hsucc⟩⟩

end BV.Stream
