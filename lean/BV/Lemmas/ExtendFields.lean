/-
Bridge from w-e2e's model of `extend_last_command` (`BV.E2E.extendLastCommand`, BV/Model/E2E.lean, tied by engine `e2e`)
to the FIELD hypotheses of `BV.Cbr.Merged.extend` (BV/Lemmas/CbrMerge.lean) — w-compose.  Whatever the function
returns, the new command has the insert length and distance fields of the old one and its copy length and copy length
code are exactly `n` larger (`n` = the number of bytes it swallowed), as long as the 25-bit length field does not carry
(`copy_len + n < 2^25`: "the copy length is at most the metablock size") and the length-code delta is one of the
encoder's (`< 64`, non-negative).  NOT registered in a check (it depends on a file another worker is still editing).
-/
import BV.Model.E2E
import BV.Lemmas.MatchCmd

namespace BV.E2E
open BV.Hasher BV.Recoder BV.PrefixArith BV.MetaBlock BV.MatchFinder

theorem copyLenField_add (f n : Nat) (hd : f >>> 25 < 64) (hn : f % 33554432 + n < 33554432) :
    copyLenCode ((f + n) % U32) = copyLenCode f + n ∧ ((f + n) % U32) % 33554432 = f % 33554432 + n := by
  have hU : U32 = 4294967296 := rfl
  rw [Nat.shiftRight_eq_div_pow] at hd
  have h25 : (2 : Nat) ^ 25 = 33554432 := by decide
  rw [h25] at hd
  have hlt : f + n < 4294967296 := by omega
  have e1 : (f + n) % U32 = f + n := by rw [hU]; exact Nat.mod_eq_of_lt hlt
  have hq : (f + n) / 33554432 = f / 33554432 := by omega
  have hr : (f + n) % 33554432 = f % 33554432 + n := by omega
  refine ⟨?_, by rw [e1]; exact hr⟩
  rw [e1]
  unfold copyLenCode
  simp only [Nat.shiftRight_eq_div_pow, h25, hq]
  have hand : ∀ x : Nat, x &&& 0x01ffffff = x % 33554432 := fun x => by
    have := Nat.and_two_pow_sub_one_eq_mod x 25
    simpa using this
  rw [hand, hand, hr]
  have hm := small_delta_bits ⟨f / 33554432, hd⟩
  simp only at hm
  rw [hm]
  rw [if_pos (by omega), if_pos (by omega)]
  have p32 : (2 : Nat) ^ 32 = 4294967296 := by decide
  rw [p32, Nat.mod_eq_of_lt (show f % 33554432 + n + f / 33554432 < 4294967296 by omega),
    Nat.mod_eq_of_lt (show f % 33554432 + f / 33554432 < 4294967296 by omega)]
  omega

/-- **`extendLastCommand_fields`** — the field part of `Merged.extend`'s hypotheses holds for whatever
`extend_last_command` returns -/
theorem extendLastCommand_fields (e : EParams) (data : ByteArray) (mask lp : Nat) (dc0 : Int) (c c' : Cmd)
    (bytes wlp n : Nat) (h : extendLastCommand e data mask lp dc0 c bytes wlp = some (c', n))
    (hd : c.copyLenField >>> 25 < 64) (hn : copyLen c + n < 33554432) :
    c'.insertLen = c.insertLen ∧ c'.distPrefix = c.distPrefix ∧ c'.distExtra = c.distExtra ∧
    copyLenCode c'.copyLenField = copyLenCode c.copyLenField + n ∧ copyLen c' = copyLen c + n := by
  unfold extendLastCommand at h
  simp only [] at h
  split at h
  · cases h
  · split at h
    · split at h
      · cases h
      · rename_i m _
        simp only [Option.some.injEq, Prod.mk.injEq] at h
        obtain ⟨rfl, rfl⟩ := h
        obtain ⟨a, b⟩ := copyLenField_add c.copyLenField m hd (by simpa [copyLen] using hn)
        exact ⟨rfl, rfl, rfl, a, by simpa [copyLen] using b⟩
    · simp only [Option.some.injEq, Prod.mk.injEq] at h
      obtain ⟨rfl, rfl⟩ := h
      exact ⟨rfl, rfl, rfl, rfl, rfl⟩

end BV.E2E
