/-
C14, distances: `Command::distance_index_and_offset` + the recoder's `final_distance` denote the distance
RFC 7932 assigns to the stored (symbol, extra bits) pair, for every (npostfix, ndirect), given that the
`nbits` half of `dist_prefix_` is the RFC's NDISTBITS (what `Command::init` stores; C18 proves the
encoder side).  Independent spec: `BV.PrefixArith.rfcDistDecode` and `BV.Recoder.rfcDistance`.
-/
import BV.Lemmas.RecoderLit
namespace BV.Recoder
open BV.PrefixArith

/-- what `Command::init` / `init_insert` establish about the stored distance fields (relative to the
distance parameters in force): the `nbits` half of `dist_prefix_` is the RFC's NDISTBITS of the symbol,
and the distance denoted is a real distance (< 2^31) -/
structure DistWF (c : Cmd) (dp : DistParams) : Prop where
  prefix_u16 : c.distPrefix < 65536
  long : c.distPrefix % 1024 ≥ 16 + dp.ndirect →
    c.distPrefix / 1024 = rfcDistNBits dp.npostfix dp.ndirect (c.distPrefix % 1024) ∧
    rfcDistDecode dp.npostfix dp.ndirect (c.distPrefix % 1024) c.distExtra < 2 ^ 31

/-- entries of a distance cache are `i32` values -/
def CacheOk (cache : List Int) : Prop := cache.length = 4 ∧ ∀ x ∈ cache, -(2 ^ 31 : Int) ≤ x ∧ x < 2 ^ 31

theorem toUsize_pos (d : Int) (h0 : 0 ≤ d) (h1 : d < 2 ^ 64) : toUsize d = d.toNat := by
  unfold toUsize
  rw [Int.emod_eq_of_lt h0 h1]

theorem toI32_small (n : Nat) (h : n < 2 ^ 31) : toI32 n = (n : Int) := by
  unfold toI32
  have : n % 2 ^ 32 = n := Nat.mod_eq_of_lt (by omega)
  rw [this, if_pos h]

theorem toI32_range (n : Nat) : -(2 ^ 31 : Int) ≤ toI32 n ∧ toI32 n < 2 ^ 31 := by
  unfold toI32
  have : n % 2 ^ 32 < 2 ^ 32 := Nat.mod_lt _ (by decide)
  split <;> omega

theorem long_code_agree (c : Cmd) (dp : DistParams) (wf : DistWF c dp) (hlong : c.distPrefix % 1024 ≥ 16 + dp.ndirect)
    (idx : Nat) (off : Int) (h : distanceIndexAndOffset c dp = some (idx, off)) :
    idx = 0 ∧ off = ((rfcDistDecode dp.npostfix dp.ndirect (c.distPrefix % 1024) c.distExtra : Nat) : Int) := by
  obtain ⟨hn, hD⟩ := wf.long hlong
  have hu := wf.prefix_u16
  unfold distanceIndexAndOffset at h
  simp only at h
  rw [if_neg (by omega), if_neg (by omega)] at h
  have hmod : c.distPrefix % 65536 = c.distPrefix := Nat.mod_eq_of_lt hu
  rw [hmod, hn] at h
  unfold rfcDistDecode at hD ⊢
  rw [if_neg (by omega)] at hD ⊢
  simp only at hD ⊢
  -- name the atoms
  have e1 : c.distPrefix % 1024 - dp.ndirect - 16 = c.distPrefix % 1024 - 16 - dp.ndirect := by omega
  rw [e1] at hD ⊢
  generalize hdc : c.distPrefix % 1024 - 16 - dp.ndirect = dcode at *
  generalize hP : 2 ^ dp.npostfix = P at *
  have hP0 : 0 < P := by rw [← hP]; exact Nat.two_pow_pos _
  generalize hN : rfcDistNBits dp.npostfix dp.ndirect (c.distPrefix % 1024) = nb at *
  generalize hA : (2 + dcode / P % 2) * 2 ^ nb = A at *
  have hnb1 : 1 ≤ nb := by rw [← hN]; unfold rfcDistNBits; exact Nat.le_add_right 1 _
  have hA4 : 4 ≤ A := by
    rw [← hA]
    have : 2 ^ 1 ≤ 2 ^ nb := Nat.pow_le_pow_right (by decide) hnb1
    have h2 : 2 ≤ 2 + dcode / P % 2 := by omega
    calc 4 = 2 * 2 ^ 1 := by decide
      _ ≤ (2 + dcode / P % 2) * 2 ^ nb := Nat.mul_le_mul h2 this
  generalize hX : (A - 4 + c.distExtra) * P = X at *
  have hXge : A - 4 + c.distExtra ≤ X := by rw [← hX]; exact Nat.le_mul_of_pos_right _ hP0
  have hA32 : A % 2 ^ 32 = A := Nat.mod_eq_of_lt (by omega)
  by_cases hnp : dp.npostfix ≥ 32 ∨ nb ≥ 32
  · rw [if_pos hnp] at h; cases h
  · rw [if_neg hnp, hA32, if_neg (by omega), if_neg (by omega), hX, Nat.mod_eq_of_lt (by omega), if_neg (by omega)] at h
    cases h
    exact ⟨rfl, rfl⟩


theorem rfcDistance_long (np nd : Nat) (ring : List Int) (k x : Nat) :
    rfcDistance np nd ring (k + 16) x = some (((rfcDistDecode np nd (k + 16) x : Nat) : Int), true) := by
  unfold rfcDistance
  rfl

theorem finalDistance_zero (cache : List Int) (n : Nat) (h : n < 2 ^ 64) :
    finalDistance cache 0 (n : Int) = some n := by
  unfold finalDistance
  rw [if_pos rfl, toUsize_pos _ (by omega) (by omega)]
  simp

theorem finalDistance_idx (cache : List Int) (hc : CacheOk cache) (idx : Nat) (h1 : 1 ≤ idx) (off : Int)
    (hoff : -3 ≤ off ∧ off ≤ 3) (x : Int) (hx : cache[idx - 1]? = some x) (hpos : 0 < x + off) :
    finalDistance cache idx off = some (x + off).toNat := by
  unfold finalDistance
  rw [if_neg (by omega), hx]
  have hm : x ∈ cache := List.mem_of_getElem? hx
  have := hc.2 x hm
  simp only
  rw [toUsize_pos _ (by omega) (by omega)]

theorem short_agree (np nd : Nat) (r0 r1 r2 r3 : Int) (sym x : Nat) (hs : sym < 16) (idx : Nat) (off : Int)
    (h : shortCodeTable[sym]? = some (idx, off)) :
    ∃ v, [r0, r1, r2, r3][idx - 1]? = some v ∧
      rfcDistance np nd [r0, r1, r2, r3] sym x = some (v + off, decide (idx ≠ 1 ∨ off ≠ 0)) ∧
      1 ≤ idx ∧ -3 ≤ off ∧ off ≤ 3 := by
  have hcases : sym = 0 ∨ sym = 1 ∨ sym = 2 ∨ sym = 3 ∨ sym = 4 ∨ sym = 5 ∨ sym = 6 ∨ sym = 7 ∨ sym = 8 ∨
      sym = 9 ∨ sym = 10 ∨ sym = 11 ∨ sym = 12 ∨ sym = 13 ∨ sym = 14 ∨ sym = 15 := by omega
  rcases hcases with h' | h' | h' | h' | h' | h' | h' | h' | h' | h' | h' | h' | h' | h' | h' | h' <;> subst h' <;>
    simp [shortCodeTable] at h <;> obtain ⟨rfl, rfl⟩ := h <;> simp [rfcDistance] <;> omega

/-- the model's `(prev_dist_index, dist_offset)` + `final_distance` denote the RFC's distance, and the
"0 distance symbol" test is the RFC's "do not push to the ring" -/
theorem dist_agree (c : Cmd) (dp : DistParams) (wf : DistWF c dp) (cache : List Int) (hc : CacheOk cache)
    (idx : Nat) (off : Int) (h1 : distanceIndexAndOffset c dp = some (idx, off))
    (d : Int) (upd : Bool)
    (h3 : rfcDistance dp.npostfix dp.ndirect cache (c.distPrefix % 1024) c.distExtra = some (d, upd)) (hd : 0 < d) :
    finalDistance cache idx off = some d.toNat ∧ (upd = true ↔ (idx ≠ 1 ∨ off ≠ 0)) := by
  by_cases hshort : c.distPrefix % 1024 < 16
  · -- short codes
    unfold distanceIndexAndOffset at h1
    simp only at h1
    rw [if_pos hshort] at h1
    have hlen := hc.1
    match cache, hlen, hc with
    | [r0, r1, r2, r3], _, hcOk =>
      obtain ⟨v, hv, hr, hi1, ho1, ho2⟩ := short_agree dp.npostfix dp.ndirect r0 r1 r2 r3 _ c.distExtra hshort idx off h1
      rw [hr] at h3
      cases h3
      exact ⟨finalDistance_idx _ hcOk idx hi1 off ⟨ho1, ho2⟩ v hv hd, by simp⟩
  · obtain ⟨k, hk⟩ : ∃ k, c.distPrefix % 1024 = k + 16 := ⟨c.distPrefix % 1024 - 16, by omega⟩
    rw [hk, rfcDistance_long] at h3
    cases h3
    by_cases hdirect : c.distPrefix % 1024 < 16 + dp.ndirect
    · unfold distanceIndexAndOffset at h1
      simp only at h1
      rw [if_neg hshort, if_pos hdirect] at h1
      cases h1
      have hv : rfcDistDecode dp.npostfix dp.ndirect (k + 16) c.distExtra = c.distPrefix % 1024 + 1 - 16 := by
        unfold rfcDistDecode
        rw [if_pos (by omega)]
        omega
      rw [hv]
      refine ⟨?_, by simp⟩
      rw [finalDistance_zero _ _ (by omega)]
      simp
    · obtain ⟨hi, ho⟩ := long_code_agree c dp wf (by omega) idx off h1
      subst hi
      rw [ho, hk]
      have hD := (wf.long (by omega)).2
      rw [hk] at hD
      refine ⟨?_, by simp⟩
      rw [finalDistance_zero _ _ (by omega)]
      simp

end BV.Recoder
