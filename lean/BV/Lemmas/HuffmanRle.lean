/-
Lemmas for C17 part 1: the run-length serialisation of a code-length vector
(`BrotliWriteHuffmanTree`) read back by the RFC 7932 §3.5 expansion.
-/
import BV.Model.Huffman

namespace BV.Lemmas.HuffmanRle
open BV.Huffman

/-! ### the digit loop against the chained repeat count -/

/-- Repeat count denoted by a block of repeat codes whose extra-bits values are
`D` in *emission* order (the decoder reads them last-to-first), chaining factor
`k` (4 for code 16, 8 for code 17): the decoder's recurrence. -/
def valD (k : Nat) : List Nat → Nat
  | [] => 0
  | e :: rest => (if valD k rest > 0 then k * (valD k rest - 2) else 0) + 3 + e

theorem valD_ge_three (k : Nat) (D : List Nat) (h : D ≠ []) : 3 ≤ valD k D := by
  cases D with
  | nil => exact absurd rfl h
  | cons e rest => simp only [valD]; omega

/-- the base-4 digit loop of `BrotliWriteHuffmanTreeRepetitions` emits digits whose
chained value is `r + 3` -/
theorem valD_repDigits2 (r : Nat) : valD 4 (repDigits 2 r) = r + 3 := by
  induction r using Nat.strongRecOn with
  | _ r ih =>
    rw [repDigits]
    by_cases hq : r / 2 ^ 2 = 0
    · have h4 : r / 4 = 0 := hq
      simp only [hq, ↓reduceDIte, valD, gt_iff_lt, Nat.lt_irrefl, ↓reduceIte]
      show 0 + 3 + r % 4 = r + 3
      omega
    · simp only [hq, ↓reduceDIte, valD]
      have hq' : r / 4 ≠ 0 := hq
      have hlt : r / 4 - 1 < r := by omega
      have e : r / 2 ^ 2 - 1 = r / 4 - 1 := rfl
      rw [e, ih _ hlt]
      have : (2:Nat) ^ 2 = 4 := rfl
      rw [this]
      simp only [show r / 4 - 1 + 3 > 0 by omega, ↓reduceIte]
      omega

/-- the base-8 digit loop of `…RepetitionsZeros` -/
theorem valD_repDigits3 (r : Nat) : valD 8 (repDigits 3 r) = r + 3 := by
  induction r using Nat.strongRecOn with
  | _ r ih =>
    rw [repDigits]
    by_cases hq : r / 2 ^ 3 = 0
    · have h8 : r / 8 = 0 := hq
      simp only [hq, ↓reduceDIte, valD, gt_iff_lt, Nat.lt_irrefl, ↓reduceIte]
      show 0 + 3 + r % 8 = r + 3
      omega
    · simp only [hq, ↓reduceDIte, valD]
      have hq' : r / 8 ≠ 0 := hq
      have hlt : r / 8 - 1 < r := by omega
      have e : r / 2 ^ 3 - 1 = r / 8 - 1 := rfl
      rw [e, ih _ hlt]
      have : (2:Nat) ^ 3 = 8 := rfl
      rw [this]
      simp only [show r / 8 - 1 + 3 > 0 by omega, ↓reduceIte]
      omega

theorem repDigits_ne_nil (b r : Nat) : repDigits b r ≠ [] := by
  rw [repDigits]; simp

theorem repDigits2_lt (r : Nat) : ∀ e ∈ repDigits 2 r, e < 4 := by
  induction r using Nat.strongRecOn with
  | _ r ih =>
    rw [repDigits]
    intro e he
    simp only [List.mem_cons] at he
    rcases he with rfl | he
    · exact Nat.mod_lt _ (by decide)
    · split at he
      · simp at he
      · rename_i hq
        have hq' : r / 4 ≠ 0 := hq
        exact ih (r / 2 ^ 2 - 1) (by show r / 4 - 1 < r; omega) e he

theorem repDigits3_lt (r : Nat) : ∀ e ∈ repDigits 3 r, e < 8 := by
  induction r using Nat.strongRecOn with
  | _ r ih =>
    rw [repDigits]
    intro e he
    simp only [List.mem_cons] at he
    rcases he with rfl | he
    · exact Nat.mod_lt _ (by decide)
    · split at he
      · simp at he
      · rename_i hq
        have hq' : r / 8 ≠ 0 := hq
        exact ih (r / 2 ^ 3 - 1) (by show r / 8 - 1 < r; omega) e he


/-! ### folding the RFC expansion over blocks -/

/-- the RFC expansion continued from state `s` -/
def run (s : ExpandState) (l : List (Nat × Nat)) : ExpandState :=
  l.foldl (fun s p => expandStep s p.1 p.2) s

theorem run_append (s : ExpandState) (a b : List (Nat × Nat)) :
    run s (a ++ b) = run (run s a) b := List.foldl_append ..

@[simp] theorem run_nil (s : ExpandState) : run s [] = s := rfl
@[simp] theorem run_cons (s : ExpandState) (p : Nat × Nat) (l : List (Nat × Nat)) :
    run s (p :: l) = run (expandStep s p.1 p.2) l := rfl

theorem rfcExpand_eq_run (l : List (Nat × Nat)) :
    rfcExpandCodeLengths l = (run ⟨[], 8, none⟩ l).out := rfl

abbrev oldOf := pendingRepeat

theorem step16 (s : ExpandState) (e : Nat) :
    expandStep s 16 e =
      ⟨s.out ++ List.replicate
          ((if oldOf s s.prevNonZero > 0 then 4 * (oldOf s s.prevNonZero - 2) else 0) + 3 + e
            - oldOf s s.prevNonZero) s.prevNonZero,
       s.prevNonZero,
       some (s.prevNonZero,
          (if oldOf s s.prevNonZero > 0 then 4 * (oldOf s s.prevNonZero - 2) else 0) + 3 + e)⟩ := by
  simp [expandStep]

theorem step17 (s : ExpandState) (e : Nat) :
    expandStep s 17 e =
      ⟨s.out ++ List.replicate
          ((if oldOf s 0 > 0 then 8 * (oldOf s 0 - 2) else 0) + 3 + e - oldOf s 0) 0,
       s.prevNonZero,
       some (0, (if oldOf s 0 > 0 then 8 * (oldOf s 0 - 2) else 0) + 3 + e)⟩ := by
  simp [expandStep]

theorem stepLit (s : ExpandState) (v e : Nat) (h : v < 16) :
    expandStep s v e = ⟨s.out ++ [v], if v ≠ 0 then v else s.prevNonZero, none⟩ := by
  simp [expandStep, h]

/-- a `Reverse`d block of code-16 entries with emission-order digits `D`, read
from a state with no pending repeat of the previous non-zero length -/
theorem block16 (D : List Nat) (hD : D ≠ []) (s : ExpandState)
    (h0 : oldOf s s.prevNonZero = 0) :
    run s (D.reverse.map fun e => (16, e)) =
      ⟨s.out ++ List.replicate (valD 4 D) s.prevNonZero, s.prevNonZero,
        some (s.prevNonZero, valD 4 D)⟩ := by
  induction D with
  | nil => exact absurd rfl hD
  | cons e rest ih =>
    rw [List.reverse_cons, List.map_append, run_append]
    by_cases hr : rest = []
    · subst hr
      simp only [List.reverse_nil, List.map_nil, run_nil, List.map_cons, run_cons, step16, h0, valD]
      simp
    · rw [ih hr]
      have h3 := valD_ge_three 4 rest hr
      simp only [List.map_cons, List.map_nil, run_cons, run_nil, step16, pendingRepeat, valD, ↓reduceIte]
      simp only [show valD 4 rest > 0 by omega, ↓reduceIte, List.append_assoc,
        List.replicate_append_replicate]
      congr 3
      omega

theorem block17 (D : List Nat) (hD : D ≠ []) (s : ExpandState)
    (h0 : oldOf s 0 = 0) :
    run s (D.reverse.map fun e => (17, e)) =
      ⟨s.out ++ List.replicate (valD 8 D) 0, s.prevNonZero, some (0, valD 8 D)⟩ := by
  induction D with
  | nil => exact absurd rfl hD
  | cons e rest ih =>
    rw [List.reverse_cons, List.map_append, run_append]
    by_cases hr : rest = []
    · subst hr
      simp only [List.reverse_nil, List.map_nil, run_nil, List.map_cons, run_cons, step17, h0, valD]
      simp
    · rw [ih hr]
      have h3 := valD_ge_three 8 rest hr
      simp only [List.map_cons, List.map_nil, run_cons, run_nil, step17, pendingRepeat, valD, ↓reduceIte]
      simp only [show valD 8 rest > 0 by omega, ↓reduceIte, List.append_assoc,
        List.replicate_append_replicate]
      congr 3
      omega

/-- `n` literal entries of the same code length -/
theorem blockLit (n v : Nat) (hv : v < 16) (s : ExpandState) :
    run s (List.replicate n (v, 0)) =
      if n = 0 then s
      else ⟨s.out ++ List.replicate n v, if v ≠ 0 then v else s.prevNonZero, none⟩ := by
  induction n generalizing s with
  | zero => simp
  | succ n ih =>
    rw [List.replicate_succ, run_cons, ih, stepLit _ _ _ hv]
    by_cases hn : n = 0
    · subst hn; simp
    · simp only [hn, ↓reduceIte, Nat.add_eq_zero_iff, Nat.succ_ne_self, and_false,
        List.append_assoc, List.singleton_append]
      simp only [List.replicate_succ, ExpandState.mk.injEq, true_and, and_true]
      by_cases hv0 : v = 0 <;> simp [hv0]


/-! ### the two repetition writers -/

/-- `BrotliWriteHuffmanTreeRepetitionsZeros` read back: `reps` zeros -/
theorem zerosBlock (reps : Nat) (h1 : 1 ≤ reps) (s : ExpandState) (h0 : oldOf s 0 = 0) :
    (run s (writeRepsZeros reps)).out = s.out ++ List.replicate reps 0 ∧
    (run s (writeRepsZeros reps)).prevNonZero = s.prevNonZero ∧
    ∀ x, oldOf (run s (writeRepsZeros reps)) x ≠ 0 → x = 0 ∧ 3 ≤ reps := by
  unfold writeRepsZeros
  by_cases h11 : reps = 11
  · subst h11
    simp only [↓reduceIte, show ¬ (10 < 3) by decide, run_append]
    have hl : run s [(0, 0)] = ⟨s.out ++ [0], s.prevNonZero, none⟩ := by
      simp [stepLit]
    rw [hl, block17 _ (repDigits_ne_nil 3 _) _ (by simp [pendingRepeat]), valD_repDigits3]
    refine ⟨by simp [List.replicate_succ], rfl, ?_⟩
    intro x hx
    simp only [pendingRepeat] at hx
    split at hx <;> simp_all
  · simp only [h11, ↓reduceIte, List.nil_append]
    by_cases h3 : reps < 3
    · simp only [h3, ↓reduceIte]
      rw [blockLit _ _ (by decide)]
      simp only [show reps ≠ 0 by omega, ↓reduceIte, ne_eq, not_true_eq_false]
      refine ⟨by first | rfl | trivial, by first | rfl | trivial, ?_⟩
      intro x hx; simp [pendingRepeat] at hx
    · simp only [h3, ↓reduceIte]
      rw [block17 _ (repDigits_ne_nil 3 _) _ h0, valD_repDigits3]
      have e : reps - 3 + 3 = reps := by omega
      rw [e]
      refine ⟨rfl, rfl, ?_⟩
      intro x hx
      simp only [pendingRepeat] at hx
      split at hx <;> simp_all <;> omega

/-- the part of `BrotliWriteHuffmanTreeRepetitions` after the optional first literal -/
def writeRepsTail (v r : Nat) : List (Nat × Nat) :=
  (if r = 7 then [(v, 0)] else []) ++
    (if (if r = 7 then 6 else r) < 3 then List.replicate (if r = 7 then 6 else r) (v, 0)
     else (repDigits 2 ((if r = 7 then 6 else r) - 3)).reverse.map fun e => (16, e))

theorem writeReps_eq (prev v reps : Nat) :
    writeReps prev v reps =
      (if prev ≠ v then [(v, 0)] else []) ++
        writeRepsTail v (if prev ≠ v then (reps + u64 - 1) % u64 else reps) := by
  unfold writeReps writeRepsTail
  by_cases h : prev = v <;> simp only [h, ne_eq, not_true_eq_false, not_false_eq_true, ↓reduceIte,
    List.append_assoc] <;> split <;> split <;> rfl

theorem tailBlock (v r : Nat) (hv0 : v ≠ 0) (hv : v < 16) (s1 : ExpandState)
    (hp1 : s1.prevNonZero = v) (h01 : oldOf s1 v = 0) (hr0 : r = 0 → s1.rep = none) :
    (run s1 (writeRepsTail v r)).out = s1.out ++ List.replicate r v ∧
    (run s1 (writeRepsTail v r)).prevNonZero = v ∧
    ∀ x, oldOf (run s1 (writeRepsTail v r)) x ≠ 0 → x = v ∧ 3 ≤ r := by
  unfold writeRepsTail
  by_cases h7 : r = 7
  · subst h7
    simp only [↓reduceIte, show ¬ (6 < 3) by decide, run_append]
    have hl : run s1 [(v, 0)] = ⟨s1.out ++ [v], v, none⟩ := by
      simp [stepLit, hv, hv0]
    rw [hl, block16 _ (repDigits_ne_nil 2 _) _ (by simp [pendingRepeat]), valD_repDigits2]
    refine ⟨by simp [List.replicate_succ], rfl, ?_⟩
    intro x hx
    simp only [pendingRepeat] at hx
    split at hx <;> simp_all
  · simp only [h7, ↓reduceIte, List.nil_append]
    by_cases h3 : r < 3
    · simp only [h3, ↓reduceIte]
      rw [blockLit _ _ hv]
      by_cases hr : r = 0
      · subst hr
        simp only [↓reduceIte, List.replicate_zero, List.append_nil, true_and]
        refine ⟨hp1, ?_⟩
        intro x hx
        simp [pendingRepeat, hr0 rfl] at hx
      · simp only [hr, ↓reduceIte, ne_eq, hv0, not_false_eq_true]
        refine ⟨by first | rfl | trivial, by first | rfl | trivial, ?_⟩
        intro x hx; simp [pendingRepeat] at hx
    · simp only [h3, ↓reduceIte]
      rw [block16 _ (repDigits_ne_nil 2 _) _ (by rw [hp1]; exact h01), valD_repDigits2]
      have e : r - 3 + 3 = r := by omega
      rw [e, hp1]
      refine ⟨rfl, rfl, ?_⟩
      intro x hx
      simp only [pendingRepeat] at hx
      split at hx <;> simp_all <;> omega

/-- `BrotliWriteHuffmanTreeRepetitions` read back: `reps` copies of `v` -/
theorem nzBlock (prev v reps : Nat) (hv0 : v ≠ 0) (hv : v < 16) (h1 : 1 ≤ reps) (hr : reps < u64)
    (s : ExpandState) (hp : s.prevNonZero = prev) (h0 : oldOf s v = 0) :
    (run s (writeReps prev v reps)).out = s.out ++ List.replicate reps v ∧
    (run s (writeReps prev v reps)).prevNonZero = v ∧
    ∀ x, oldOf (run s (writeReps prev v reps)) x ≠ 0 → x = v ∧ 3 ≤ reps := by
  rw [writeReps_eq]
  by_cases hpv : prev = v
  · simp only [hpv, ne_eq, not_true_eq_false, ↓reduceIte, List.nil_append]
    exact tailBlock v reps hv0 hv s (hp.trans hpv) h0 (by omega)
  · simp only [ne_eq, hpv, not_false_eq_true, ↓reduceIte, run_append]
    have hl : run s [(v, 0)] = ⟨s.out ++ [v], v, none⟩ := by
      simp [stepLit, hv, hv0]
    have hm : (reps + u64 - 1) % u64 = reps - 1 := by
      have : reps + u64 - 1 = (reps - 1) + u64 := by omega
      rw [this, Nat.add_mod_right, Nat.mod_eq_of_lt (by omega)]
    rw [hl, hm]
    have t := tailBlock v (reps - 1) hv0 hv ⟨s.out ++ [v], v, none⟩ rfl
      (by simp [pendingRepeat]) (fun _ => rfl)
    refine ⟨?_, t.2.1, ?_⟩
    · rw [t.1]
      have : reps = (reps - 1) + 1 := by omega
      conv => rhs; rw [this, List.replicate_succ]
      simp
    · intro x hx
      have := t.2.2 x hx
      omega


/-! ### runs -/

theorem take_runLen (v : Nat) (l : List Nat) (k : Nat) (hk : k ≤ runLen v l) :
    l.take k = List.replicate k v := by
  induction l generalizing k with
  | nil => simp [runLen] at hk; subst hk; rfl
  | cons x xs ih =>
    cases k with
    | zero => rfl
    | succ k =>
      simp only [runLen] at hk
      split at hk
      · rename_i hx
        subst hx
        simp [List.replicate_succ, ih k (by omega)]
      · omega

theorem head_drop_runLen (v : Nat) (l : List Nat) : (l.drop (runLen v l)).head? ≠ some v := by
  induction l with
  | nil => simp [runLen]
  | cons x xs ih =>
    simp only [runLen]
    split
    · simpa using ih
    · rename_i hx; simp; exact hx

/-! ### the whole serialisation -/

/-- no repeat is pending for the value that comes next -/
def Good (s : ExpandState) (l : List Nat) : Prop :=
  ∀ x, l.head? = some x → oldOf s x = 0

theorem writeLoop_roundtrip (useNZ useZ : Bool) :
    ∀ (n : Nat) (l : List Nat), l.length = n → l.length < u64 → (∀ x ∈ l, x < 16) →
    ∀ (prev : Nat) (s : ExpandState), s.prevNonZero = prev → Good s l →
      (run s (writeLoop useNZ useZ prev l)).out = s.out ++ l := by
  intro n
  induction n using Nat.strongRecOn with
  | _ n ih =>
    intro l hn hlen hlt prev s hp hg
    cases l with
    | nil => rw [writeLoop]; simp
    | cons v rest =>
      rw [writeLoop]
      -- the number of repetitions handled in this step
      generalize hreps :
        (if (v ≠ 0 ∧ useNZ = true) ∨ (v = 0 ∧ useZ = true) then 1 + runLen v rest else 1) = reps
      have hrl := runLen_le v rest
      have hreps1 : 1 ≤ reps := by rw [← hreps]; split <;> omega
      have hrepsle : reps - 1 ≤ runLen v rest := by rw [← hreps]; split <;> omega
      have hmax : 3 ≤ reps → reps - 1 = runLen v rest := by
        rw [← hreps]; split <;> omega
      have hlen' : (v :: rest).length = rest.length + 1 := rfl
      have hsplit : v :: rest = List.replicate reps v ++ rest.drop (reps - 1) := by
        have h1 : reps = (reps - 1) + 1 := by omega
        conv => rhs; rw [h1, List.replicate_succ, ← take_runLen v rest (reps - 1) hrepsle]
        simp
      have hv : v < 16 := hlt v (by simp)
      have hrest : ∀ x ∈ rest.drop (reps - 1), x < 16 := fun x hx =>
        hlt x (List.mem_cons_of_mem _ (List.mem_of_mem_drop hx))
      have hdl : (rest.drop (reps - 1)).length < n := by
        rw [List.length_drop, ← hn, hlen']; omega
      have hg0 : oldOf s v = 0 := hg v rfl
      by_cases hv0 : v = 0
      · simp only [hv0, ↓reduceIte, run_append]
        subst hv0
        obtain ⟨ho, hpz, hpost⟩ := zerosBlock reps hreps1 s hg0
        rw [ih _ hdl _ rfl (by rw [List.length_drop]; omega) hrest prev _ (hpz.trans hp)]
        · rw [ho, List.append_assoc, ← hsplit]
        · intro x hx
          by_cases hox : oldOf (run s (writeRepsZeros reps)) x = 0
          · exact hox
          · exfalso
            obtain ⟨hx0, h3⟩ := hpost x hox
            subst hx0
            rw [hmax h3] at hx
            exact head_drop_runLen 0 rest hx
      · simp only [hv0, ↓reduceIte, run_append]
        obtain ⟨ho, hpz, hpost⟩ := nzBlock prev v reps hv0 hv hreps1
          (by rw [hlen'] at hlen; omega) s hp hg0
        rw [ih _ hdl _ rfl (by rw [List.length_drop]; omega) hrest v _ hpz]
        · rw [ho, List.append_assoc, ← hsplit]
        · intro x hx
          by_cases hox : oldOf (run s (writeReps prev v reps)) x = 0
          · exact hox
          · exfalso
            obtain ⟨hxv, h3⟩ := hpost x hox
            subst hxv
            rw [hmax h3] at hx
            exact head_drop_runLen x rest hx

theorem trim_lt (d : List Nat) (h : ∀ x ∈ d, x < 16) : ∀ x ∈ trimTrailingZeros d, x < 16 := by
  intro x hx
  unfold trimTrailingZeros at hx
  rw [List.mem_reverse] at hx
  exact h x (List.mem_reverse.mp ((List.dropWhile_sublist _).mem hx))

theorem trim_length_le (d : List Nat) : (trimTrailingZeros d).length ≤ d.length := by
  unfold trimTrailingZeros
  rw [List.length_reverse]
  have := (List.dropWhile_sublist (fun x => x == 0) (l := d.reverse)).length_le
  simpa using this


theorem dropWhile_zero_pad (l : List Nat) :
    List.replicate (l.length - (l.dropWhile (· == 0)).length) 0 ++ l.dropWhile (· == 0) = l := by
  induction l with
  | nil => rfl
  | cons x xs ih =>
    by_cases hx : x = 0
    · subst hx
      simp only [List.dropWhile_cons, beq_self_eq_true, ↓reduceIte, List.length_cons]
      have hle : (xs.dropWhile (· == 0)).length ≤ xs.length := (List.dropWhile_sublist _).length_le
      have : xs.length + 1 - (xs.dropWhile (· == 0)).length
          = (xs.length - (xs.dropWhile (· == 0)).length) + 1 := by omega
      rw [this, List.replicate_succ, List.cons_append, ih]
    · simp [hx]

theorem trim_pad (d : List Nat) :
    trimTrailingZeros d ++ List.replicate (d.length - (trimTrailingZeros d).length) 0 = d := by
  unfold trimTrailingZeros
  have := dropWhile_zero_pad d.reverse
  have h2 := congrArg List.reverse this
  simp only [List.reverse_append, List.reverse_replicate, List.reverse_reverse,
    List.length_reverse] at h2 ⊢
  exact h2


/-! ### the serialisation is never longer than the vector -/

theorem repDigits_length (b r : Nat) : (repDigits b r).length ≤ r + 1 := by
  induction r using Nat.strongRecOn with
  | _ r ih =>
    rw [repDigits]
    by_cases hq : r / 2 ^ b = 0
    · simp [hq]
    · simp only [hq, ↓reduceDIte, List.length_cons]
      have hle : r / 2 ^ b ≤ r := Nat.div_le_self _ _
      generalize r / 2 ^ b = q at hq hle ⊢
      have := ih (q - 1) (by omega)
      omega

theorem writeRepsZeros_length (reps : Nat) (h1 : 1 ≤ reps) :
    (writeRepsZeros reps).length ≤ reps := by
  unfold writeRepsZeros
  by_cases h11 : reps = 11
  · subst h11
    have := repDigits_length 3 (10 - 3)
    simp only [↓reduceIte, show ¬ (10 < 3) by decide, List.length_append, List.length_cons,
      List.length_nil, List.length_map, List.length_reverse]
    omega
  · simp only [h11, ↓reduceIte, List.nil_append]
    split
    · simp
    · have := repDigits_length 3 (reps - 3)
      simp only [List.length_map, List.length_reverse]
      omega

theorem writeRepsTail_length (v r : Nat) : (writeRepsTail v r).length ≤ r := by
  unfold writeRepsTail
  by_cases h7 : r = 7
  · subst h7
    have := repDigits_length 2 (6 - 3)
    simp only [↓reduceIte, show ¬ (6 < 3) by decide, List.length_append, List.length_cons,
      List.length_nil, List.length_map, List.length_reverse]
    omega
  · simp only [h7, ↓reduceIte, List.nil_append]
    split
    · simp
    · have := repDigits_length 2 (r - 3)
      simp only [List.length_map, List.length_reverse]
      omega

theorem writeReps_length (prev v reps : Nat) (h1 : 1 ≤ reps) (hr : reps < u64) :
    (writeReps prev v reps).length ≤ reps := by
  rw [writeReps_eq]
  by_cases hpv : prev = v
  · simp only [hpv, ne_eq, not_true_eq_false, ↓reduceIte, List.nil_append]
    exact writeRepsTail_length v reps
  · have hm : (reps + u64 - 1) % u64 = reps - 1 := by
      have : reps + u64 - 1 = (reps - 1) + u64 := by omega
      rw [this, Nat.add_mod_right, Nat.mod_eq_of_lt (by omega)]
    simp only [ne_eq, hpv, not_false_eq_true, ↓reduceIte, hm, List.length_append,
      List.length_cons, List.length_nil]
    have := writeRepsTail_length v (reps - 1)
    omega

theorem writeLoop_length (useNZ useZ : Bool) :
    ∀ (n : Nat) (l : List Nat), l.length = n → l.length < u64 → ∀ prev,
      (writeLoop useNZ useZ prev l).length ≤ l.length := by
  intro n
  induction n using Nat.strongRecOn with
  | _ n ih =>
    intro l hn hlen prev
    cases l with
    | nil => rw [writeLoop]; simp
    | cons v rest =>
      rw [writeLoop]
      generalize hreps :
        (if (v ≠ 0 ∧ useNZ = true) ∨ (v = 0 ∧ useZ = true) then 1 + runLen v rest else 1) = reps
      have hrl := runLen_le v rest
      have hreps1 : 1 ≤ reps := by rw [← hreps]; split <;> omega
      have hrepsle : reps - 1 ≤ rest.length := by rw [← hreps]; split <;> omega
      have hlen' : (v :: rest).length = rest.length + 1 := rfl
      have hdl : (rest.drop (reps - 1)).length < n := by
        rw [List.length_drop, ← hn, hlen']; omega
      have hd : (rest.drop (reps - 1)).length = rest.length - (reps - 1) := List.length_drop
      by_cases hv0 : v = 0
      · simp only [hv0, ↓reduceIte, List.length_append, List.length_cons]
        have h1 := writeRepsZeros_length reps hreps1
        have h2 := ih _ hdl _ rfl (by omega) prev
        omega
      · simp only [hv0, ↓reduceIte, List.length_append, List.length_cons]
        have h1 := writeReps_length prev v reps hreps1 (by omega)
        have h2 := ih _ hdl _ rfl (by omega) v
        omega

end BV.Lemmas.HuffmanRle
