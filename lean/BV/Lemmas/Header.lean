/-
Lemmas about the header model (`BV/Model/Header.lean`) for C15:
parameter sanitising, the window bits and their RFC reading.
Every statement unfolds the literals harvested from the Rust source
(`BV.Gen.lits_*`): changing a constant in `/repo` re-checks (and, if the
property no longer holds, breaks) these proofs.
-/
import BV.Model.Header
import BV.Lemmas.HeaderSpec

namespace BV.Header
open BV.Bits BV.HeaderSpec

/-! ## `SanitizeParams` -/

theorem sanitize_lgwin (p : Params) :
    (sanitizeParams true p).lgwin = max 10 (min (if p.largeWindow then 30 else 24) p.lgwin) := by
  simp only [sanitizeParams, lit, litsSan, BV.Gen.lits_SanitizeParams, List.getD_cons_zero, List.getD_cons_succ]
  cases p.largeWindow <;> simp <;> omega

/-- with the feature `disallow_large_window_size` the large range is never granted -/
theorem sanitize_lgwin_no_large (p : Params) :
    (sanitizeParams false p).lgwin = max 10 (min 24 p.lgwin) := by
  simp only [sanitizeParams, lit, litsSan, BV.Gen.lits_SanitizeParams, List.getD_cons_zero, List.getD_cons_succ]
  simp <;> omega

theorem sanitize_quality (ok : Bool) (p : Params) :
    (sanitizeParams ok p).quality = min 11 (max 0 p.quality) := by
  simp only [sanitizeParams, lit, litsSan, BV.Gen.lits_SanitizeParams, List.getD_cons_zero, List.getD_cons_succ]
  simp

theorem sanitize_flags (ok : Bool) (p : Params) :
    (sanitizeParams ok p).largeWindow = p.largeWindow ∧ (sanitizeParams ok p).catable = p.catable ∧
    (sanitizeParams ok p).appendable = (p.appendable || p.catable) ∧
    (sanitizeParams ok p).useDictionary = p.useDictionary ∧
    (sanitizeParams ok p).magicNumber = p.magicNumber ∧ (sanitizeParams ok p).sizeHint = p.sizeHint := by
  simp only [sanitizeParams]
  cases p.catable <;> cases p.appendable <;> simp

/-- the range in which `EncodeWindowBits` is called: its `i32` subtractions and
shifts are exact there -/
theorem sanitized_lgwin_range (p : Params) :
    10 ≤ (sanitizeParams true p).lgwin ∧ (sanitizeParams true p).lgwin ≤ 30 ∧
    (p.largeWindow = false → (sanitizeParams true p).lgwin ≤ 24) := by
  rw [sanitize_lgwin]
  cases p.largeWindow <;> simp <;> omega

/-! ## `ensure_initialized` -/

theorem init_params_lgwin (p : Params) :
    (ensureInitialized true p).params.lgwin = (sanitizeParams true p).lgwin := rfl

theorem init_params_quality (p : Params) :
    (ensureInitialized true p).params.quality = (sanitizeParams true p).quality := rfl

theorem init_params_large (p : Params) :
    (ensureInitialized true p).params.largeWindow = p.largeWindow := rfl

/-- the declared window is the specification's clamp of the request -/
theorem header_lgwin (p : Params) :
    headerLgwin (ensureInitialized true p).params = clampWindow p.quality p.lgwin p.largeWindow := by
  have h1 := sanitize_lgwin p
  have h2 := sanitize_quality true p
  simp only [ensureInitialized, headerLgwin, clampWindow, lit, litsInit, BV.Gen.lits_ensure_initialized,
    List.getD_cons_zero, List.getD_cons_succ]
  simp only [h1, h2]
  cases p.largeWindow <;> simp <;> omega

theorem clampWindow_range (q w : Int) (lw : Bool) :
    10 ≤ clampWindow q w lw ∧ clampWindow q w lw ≤ 30 ∧ (lw = false → clampWindow q w lw ≤ 24) := by
  simp only [clampWindow]
  cases lw <;> simp <;> omega

/-! ## `EncodeWindowBits` read back by the RFC reader -/

/-- normal form: windows 10‥24 -/
theorem wbits_roundtrip_small (w : Nat) (h1 : 10 ≤ w) (h2 : w ≤ 24) (rest : List Bool) :
    readWbits (bitsOf (encodeWindowBits w false).2 (encodeWindowBits w false).1 ++ rest)
      = some (w, false, rest) := by
  have : w = 10 ∨ w = 11 ∨ w = 12 ∨ w = 13 ∨ w = 14 ∨ w = 15 ∨ w = 16 ∨ w = 17 ∨ w = 18 ∨ w = 19 ∨
      w = 20 ∨ w = 21 ∨ w = 22 ∨ w = 23 ∨ w = 24 := by omega
  rcases this with h | h | h | h | h | h | h | h | h | h | h | h | h | h | h <;> subst h <;> rfl

/-- large-window form: windows 10‥30 -/
theorem wbits_roundtrip_large (w : Nat) (h1 : 10 ≤ w) (h2 : w ≤ 30) (rest : List Bool) :
    readWbits (bitsOf (encodeWindowBits w true).2 (encodeWindowBits w true).1 ++ rest)
      = some (w, true, rest) := by
  have : w = 10 ∨ w = 11 ∨ w = 12 ∨ w = 13 ∨ w = 14 ∨ w = 15 ∨ w = 16 ∨ w = 17 ∨ w = 18 ∨ w = 19 ∨
      w = 20 ∨ w = 21 ∨ w = 22 ∨ w = 23 ∨ w = 24 ∨ w = 25 ∨ w = 26 ∨ w = 27 ∨ w = 28 ∨ w = 29 ∨ w = 30 := by
    omega
  rcases this with h | h | h | h | h | h | h | h | h | h | h | h | h | h | h | h | h | h | h | h | h <;>
    subst h <;> rfl

/-- number of header bits by form -/
theorem wbits_count (w : Nat) (h1 : 10 ≤ w) (h2 : w ≤ 30) (lw : Bool) :
    (encodeWindowBits w lw).2 =
      if lw then 14 else if w = 16 then 1 else if 18 ≤ w then 4 else 7 := by
  have : w = 10 ∨ w = 11 ∨ w = 12 ∨ w = 13 ∨ w = 14 ∨ w = 15 ∨ w = 16 ∨ w = 17 ∨ w = 18 ∨ w = 19 ∨
      w = 20 ∨ w = 21 ∨ w = 22 ∨ w = 23 ∨ w = 24 ∨ w = 25 ∨ w = 26 ∨ w = 27 ∨ w = 28 ∨ w = 29 ∨ w = 30 := by
    omega
  rcases this with h | h | h | h | h | h | h | h | h | h | h | h | h | h | h | h | h | h | h | h | h <;>
    subst h <;> cases lw <;> rfl

/-- `last_bytes_` has no bit above `last_bytes_bits_` (the two bytes put into the
storage carry nothing but the header) -/
theorem wbits_high_zero (w : Nat) (h1 : 10 ≤ w) (h2 : w ≤ 30) (lw : Bool) (h3 : lw = false → w ≤ 24) :
    (encodeWindowBits w lw).1 / 2 ^ (encodeWindowBits w lw).2 = 0 := by
  cases lw
  · have h4 := h3 rfl
    have : w = 10 ∨ w = 11 ∨ w = 12 ∨ w = 13 ∨ w = 14 ∨ w = 15 ∨ w = 16 ∨ w = 17 ∨ w = 18 ∨ w = 19 ∨
        w = 20 ∨ w = 21 ∨ w = 22 ∨ w = 23 ∨ w = 24 := by omega
    rcases this with h | h | h | h | h | h | h | h | h | h | h | h | h | h | h <;> subst h <;> rfl
  · have : w = 10 ∨ w = 11 ∨ w = 12 ∨ w = 13 ∨ w = 14 ∨ w = 15 ∨ w = 16 ∨ w = 17 ∨ w = 18 ∨ w = 19 ∨
        w = 20 ∨ w = 21 ∨ w = 22 ∨ w = 23 ∨ w = 24 ∨ w = 25 ∨ w = 26 ∨ w = 27 ∨ w = 28 ∨ w = 29 ∨ w = 30 := by
      omega
    rcases this with h | h | h | h | h | h | h | h | h | h | h | h | h | h | h | h | h | h | h | h | h <;>
      subst h <;> rfl

/-- the pending bits after `ensure_initialized` are exactly
`EncodeWindowBits(clamp(request), large_window)` -/
theorem pending_eq (p : Params) :
    pendingWriter (ensureInitialized true p) =
      bitsOf (encodeWindowBits (clampWindow p.quality p.lgwin p.largeWindow) p.largeWindow).2
             (encodeWindowBits (clampWindow p.quality p.lgwin p.largeWindow) p.largeWindow).1 := by
  have h := header_lgwin p
  simp only [pendingWriter, ensureInitialized] at *
  rw [h]
  rfl

end BV.Header
