import BV.Lemmas.StreamTerm4
/-
Termination of a whole `compress_stream` call, and preservation of the bound on the carry size
that the potentials use.
-/
namespace BV.Stream
open BV.Bits

/-- the per-call bound on the staging buffer: what it is now, or what `get_brotli_storage` can be asked
for while `n` more bytes are offered (`2 * span + 527`, `span ≤ unflushed bytes + n`) — a function of
the state and the call alone -/
def callCap (s : St) (n : Nat) : Nat := max s.storageSize (2 * (s.inputPos + n - s.lastFlushPos) + 527 + 2 * n)

theorem cap_callCap (s : St) (input : Bytes) (cap : Nat) :
    Cap (callCap s input.length) s { input := input, availIn := input.length, availOut := cap } := by
  unfold Cap callCap
  refine ⟨Nat.le_max_left _ _, ?_, ?_⟩
  · exact Nat.le_trans (by show 2 * (s.inputPos + input.length - s.lastFlushPos) + 527 ≤ 2 * (s.inputPos + input.length - s.lastFlushPos) + 527 + 2 * input.length; omega) (Nat.le_max_right _ _)
  · exact Nat.le_trans (by show 2 * input.length + 527 ≤ 2 * (s.inputPos + input.length - s.lastFlushPos) + 527 + 2 * input.length; omega) (Nat.le_max_right _ _)

/-- fuel that suffices for one call (`n` bytes offered, `M` a bound on the staging buffer during the
call: `Cap M`, e.g. `callCap s n`) -/
def callPot (M : Nat) (s : St) (n : Nat) : Nat :=
  (2 * n + 2) * (M + 8) + 17 * n + s.pending.length + 16

theorem padB_le (s : St) : padB s ≤ 4 := by unfold padB; split <;> omega

theorem slowLoop_lbb {o : Oracle} {op : Nat} {c0 : SState} {n total : Nat} (hop : op ≤ 2) :
    ∀ fuel s io s' io' r, SlowInv op c0 n total s io → s.lastBytesBits ≤ 14 →
      slowLoop o op fuel s io = .ok (s', io', r) → s'.lastBytesBits ≤ 14 := by
  intro fuel
  induction fuel with
  | zero => intro s io s' io' r _ _ h; simp [slowLoop] at h
  | succ k ih =>
    intro s io s' io' r hP hl h
    unfold slowLoop at h
    split at h
    · simp at h
    · simp at h
    · rename_i s1 io1 hs
      exact absurd rfl (slowInv_step hP hs).1
    · rename_i s1 io1 hs
      have hnp : s.streamState ≠ .processing → io.availIn = 0 := by
        intro hne
        rcases hP.st with h1 | ⟨_, h2, _⟩
        · exact hP.nonproc (by rw [← h1]; exact hne)
        · exact h2
      obtain ⟨_, _, d2⟩ := slowStep_decreases (M := 0) hP.inv (by rw [hP.sum]; exact hP.nowrap) hnp hl hop hs
      exact ih _ _ _ _ _ (slowInv_step hP hs).2 d2 h
    · rename_i s1 io1 hs
      simp only [Out.ok.injEq, Prod.mk.injEq] at h
      obtain ⟨rfl, rfl, rfl⟩ := h
      obtain ⟨e1, _, _⟩ := slowStep_brk hs
      rw [(checkFlushComplete_frame s1).2.2.2.2.2.2.2.2.2.1, e1]
      exact hl

theorem slowPot_le (op M : Nat) (s : St) (io : Io) : slowPot op M s io ≤ (2 * io.availIn + 1) * (M + 8) + 4 + s.pending.length := by
  unfold slowPot
  have := padB_le s
  have h1 : (2 * io.availIn + (if canEnc op s io then 1 else 0)) * (M + 8) ≤ (2 * io.availIn + 1) * (M + 8) := by
    apply Nat.mul_le_mul_right
    split <;> omega
  omega

theorem fastPot_le (M : Nat) (s : St) (io : Io) : fastPot M s io ≤ (io.availIn + 1) * (M + 8) + 4 + s.pending.length := by
  unfold fastPot
  have := padB_le s
  have h1 : (io.availIn + (if s.streamState = .processing then 1 else 0)) * (M + 8) ≤ (io.availIn + 1) * (M + 8) := by
    apply Nat.mul_le_mul_right
    split <;> omega
  omega

theorem mdPot_le (M : Nat) (s : St) : mdPot M s ≤ (M + 8) + 8 + 17 * s.remainingMetadata + s.pending.length := by
  unfold mdPot
  have h1 : (if s.inputPos ≠ s.lastFlushPos then 1 else 0) * (M + 8) ≤ M + 8 := by
    split
    · rw [Nat.one_mul]; exact Nat.le_refl _
    · rw [Nat.zero_mul]; exact Nat.zero_le _
  have h2 : (if s.streamState = .metadataHead then 8 else 0) ≤ 8 := by split <;> omega
  omega

theorem mul_mono_aux {a b X : Nat} (h : a ≤ b) : a * X ≤ b * X := Nat.mul_le_mul_right X h

/-- **every call terminates**: with at least `callPot` fuel, `compress_stream` returns a value or
a modelled panic — its loops cannot spin.  Hypotheses: the state invariant, a carry of at most 14
bits (true initially and preserved, `compressStream_lbb`), and `Cap M`: `M` bounds the staging buffer
as it is and as this call can grow it.  NO hypothesis on the oracle: what an invocation leaves pending
is bounded by the machine's own `storage[1 + (storage_ix >> 3)]` checks. -/
theorem compressStream_terminates {o : Oracle} {M fuel op cap : Nat} {input : Bytes} {s : St}
    (hC : Cap M s { input := input, availIn := input.length, availOut := cap })
    (hop : op ≤ 3) (hI : Inv s) (hw : s.inputPos + input.length < two64) (hl : s.lastBytesBits ≤ 14)
    (hfuel : callPot M s input.length < fuel) :
    compressStream o fuel s op input cap ≠ .fuel := by
  unfold compressStream
  rw [ensureInitialized_id hI.init]
  simp only
  split
  · simp
  · rename_i hg
    split
    · -- metadata
      rename_i hop3
      have hIu := inv_updateSizeHint hI 0
      obtain ⟨_, _, _, _, _, u6, u7, _, u9, u10, _, _, u13, u14, _⟩ := updateSizeHint_fields s 0
      unfold processMetadata
      split
      · simp
      · rename_i hle
        split
        · simp
        · rename_i hgood
          have hle' : input.length ≤ 16777216 := by simpa using hle
          -- the loop invariant at entry (as in `md_refines`)
          have hP : MdInv input.length (mdEnter (updateSizeHint s 0) input.length) { input := input, availIn := input.length, availOut := cap } := by
            unfold mdEnter
            by_cases hpr : (updateSizeHint s 0).streamState = .processing
            · rw [if_pos hpr]
              have hmod : input.length % two32 = input.length := Nat.mod_eq_of_lt (lt_two32_of_le hle')
              refine ⟨?_, Or.inl (by simp), ?_, ?_, Nat.le_refl _⟩
              · refine ⟨hIu.init, hIu.fl_le, hIu.lp_le, hIu.ip_lt, hIu.blk, ?_, ?_, ?_, hIu.q01, ?_⟩
                · intro hle2
                  have := hIu.lastFin hle2
                  rw [hpr] at this; cases this
                · simp only [hmod]
                  constructor
                  · intro _; have := u32Max_gt; omega
                  · intro _; exact Or.inl trivial
                · intro _; simp only [hmod]; exact hle'
                · intro hfl; cases hfl
              · simp only [hmod]; exact hle'
              · simp only [hmod]
            · rw [if_neg hpr]
              have hme : mdEnter (updateSizeHint s 0) input.length = updateSizeHint s 0 := by
                unfold mdEnter; rw [if_neg hpr]
              have hst : (updateSizeHint s 0).streamState = .metadataHead ∨ (updateSizeHint s 0).streamState = .metadataBody := by
                simp only at hgood
                rw [hme] at hgood
                by_cases h1 : (updateSizeHint s 0).streamState = .metadataHead
                · exact Or.inl h1
                · by_cases h2 : (updateSizeHint s 0).streamState = .metadataBody
                  · exact Or.inr h2
                  · exact absurd ⟨h1, h2⟩ hgood
              have hrm : (updateSizeHint s 0).remainingMetadata ≠ u32Max := hIu.mdIff.mp hst
              have hav : input.length = (updateSizeHint s 0).remainingMetadata := by
                rw [u7]
                by_cases hne : input.length = s.remainingMetadata
                · exact hne
                · exact absurd ⟨by rw [← u7]; exact hrm, Or.inl hne⟩ hg
              exact ⟨hIu, hst, hIu.mdLe hrm, hav, Nat.le_refl _⟩
          obtain ⟨m1, m2, m3, _, _⟩ := mdEnter_fields (updateSizeHint s 0) input.length
          have hMC : MCap M (mdEnter (updateSizeHint s 0) input.length) := by
            have h0 := mcap_of_cap hC
            have e1 : (mdEnter (updateSizeHint s 0) input.length).storageSize = s.storageSize := by
              unfold mdEnter updateSizeHint; split <;> split <;> rfl
            have e2 : (mdEnter (updateSizeHint s 0) input.length).inputPos = s.inputPos := by
              unfold mdEnter updateSizeHint; split <;> split <;> rfl
            have e3 : (mdEnter (updateSizeHint s 0) input.length).lastFlushPos = s.lastFlushPos := by
              unfold mdEnter updateSizeHint; split <;> split <;> rfl
            unfold MCap at h0 ⊢
            rw [e1, e2, e3]; exact h0
          refine mdLoop_terminates fuel _ _ hP (by rw [m3, u14]; exact hl) hMC ?_
          show mdPot M (mdEnter (updateSizeHint s 0) input.length) < fuel
          have hb := mdPot_le M (mdEnter (updateSizeHint s 0) input.length)
          have hrm : (mdEnter (updateSizeHint s 0) input.length).remainingMetadata = input.length := by
            have := hP.avail; simp only at this; exact this.symm
          rw [hrm, m1, u13] at hb
          unfold callPot at hfuel
          have h2 : (M + 8) ≤ (2 * input.length + 2) * (M + 8) := by
            calc M + 8 = 1 * (M + 8) := by rw [Nat.one_mul]
              _ ≤ _ := Nat.mul_le_mul_right _ (by omega)
          omega
    · rename_i hop3
      have hop2 : op ≤ 2 := by omega
      have hrm : s.remainingMetadata = u32Max := by
        by_cases hne : s.remainingMetadata = u32Max
        · exact hne
        · exact absurd ⟨hne, Or.inr hop3⟩ hg
      have hnmd : ¬ (s.streamState = .metadataHead ∨ s.streamState = .metadataBody) := by
        intro hh; exact absurd hrm (hI.mdIff.mp hh)
      rw [if_neg hnmd]
      split
      · simp
      · rename_i hok
        have hacc : s.streamState ≠ .processing → input.length = 0 := by
          intro hh
          by_cases hne : input.length = 0
          · exact hne
          · exact absurd ⟨hh, hne⟩ hok
        unfold callPot at hfuel
        split
        · -- quality 0/1 loop
          unfold compressStreamFast
          rename_i hfast
          rw [if_neg (by rcases hfast.1 with h | h <;> simp [h])]
          have hb := fastPot_le M s { input := input, availIn := input.length, availOut := cap }
          simp only at hb
          have h2 : (input.length + 1) * (M + 8) ≤ (2 * input.length + 2) * (M + 8) := Nat.mul_le_mul_right _ (by omega)
          have := fastLoop_terminates (o := o) (op := op) (M := M) hop2 fuel s { input := input, availIn := input.length, availOut := cap } hl hC (by omega)
          split
          · simp
          · simp
          · rename_i hh; exact absurd hh this
        · have hb := slowPot_le op M s { input := input, availIn := input.length, availOut := cap }
          simp only at hb
          have h2 : (2 * input.length + 1) * (M + 8) ≤ (2 * input.length + 2) * (M + 8) := Nat.mul_le_mul_right _ (by omega)
          exact slowLoop_terminates (c0 := s.streamState) (n := input.length) (total := s.inputPos + input.length) hop2 fuel s _
            ⟨hI, rfl, hw, hrm, Nat.le_refl _, hacc, Or.inl rfl⟩ hl hC (by omega)

/-! ### the carry stays at most 14 bits across calls -/

theorem fastLoop_lbb {o : Oracle} {op : Nat} (hop : op ≤ 2) :
    ∀ fuel s io s' io', s.lastBytesBits ≤ 14 → fastLoop o op fuel s io = .ok (s', io') → s'.lastBytesBits ≤ 14 := by
  intro fuel
  induction fuel with
  | zero => intro s io s' io' _ h; simp [fastLoop] at h
  | succ k ih =>
    intro s io s' io' hl h
    unfold fastLoop at h
    split at h
    · simp at h
    · simp at h
    · rename_i s1 io1 hs
      exact ih _ _ _ _ (fastStep_decreases (M := 0) hl hop hs).2.2 h
    · rename_i s1 io1 hs
      simp only [Out.ok.injEq, Prod.mk.injEq] at h
      obtain ⟨rfl, rfl⟩ := h
      obtain ⟨e1, _, _⟩ := fastStep_brk hs
      rw [e1]; exact hl

theorem mdLoop_lbb {o : Oracle} {n : Nat} :
    ∀ fuel s io s' io' r, MdInv n s io → s.lastBytesBits ≤ 14 →
      processMetadataLoop o fuel s io = .ok (s', io', r) → s'.lastBytesBits ≤ 14 := by
  intro fuel
  induction fuel with
  | zero => intro s io s' io' r _ _ h; simp [processMetadataLoop] at h
  | succ k ih =>
    intro s io s' io' r hP hl h
    unfold processMetadataLoop at h
    split at h
    · simp at h
    · simp at h
    · rename_i s1 io1 hs
      exact absurd rfl (mdStep_spec hP hs).1
    · rename_i s1 io1 hs
      obtain ⟨_, d2⟩ := mdStep_decreases (M := 0) hP hl hs
      rcases (mdStep_spec hP hs).2 with h1 | ⟨h1, _⟩
      · exact ih _ _ _ _ _ h1 d2 h
      · cases h1
    · rename_i s1 io1 hs
      simp only [Out.ok.injEq, Prod.mk.injEq] at h
      obtain ⟨rfl, rfl, rfl⟩ := h
      -- a `break` step leaves the carry alone
      unfold processMetadataStep at hs
      split at hs
      · simp at hs
      · simp at hs
      · simp at hs
      · rename_i s2 io2 hp
        obtain ⟨e1, e2, _, _⟩ := push_false hp
        have e1' := e1.symm; have e2' := e2.symm
        subst e1' e2'
        split at hs
        · simp only [Out.ok.injEq, Prod.mk.injEq] at hs
          obtain ⟨rfl, _, _⟩ := hs
          exact hl
        · split at hs
          · split at hs
            · simp at hs
            · simp at hs
            · split at hs <;> simp at hs
          · split at hs
            · simp only at hs
              split at hs <;> simp at hs
            · split at hs
              · simp only [Out.ok.injEq, Prod.mk.injEq] at hs
                obtain ⟨rfl, _, _⟩ := hs
                exact hl
              · split at hs
                · simp only at hs
                  split at hs <;> simp at hs
                · simp only at hs
                  split at hs <;> simp at hs

theorem encodeWindowBits_bits (w : Int) (l : Bool) : (encodeWindowBits w l).2 ≤ 14 := by
  unfold encodeWindowBits
  split
  · simp
  · split
    · simp
    · split
      · simp
      · split <;> simp

theorem ensureInitialized_lbb (s : St) (h : s.isInitialized = false) : (ensureInitialized s).lastBytesBits ≤ 14 := by
  unfold ensureInitialized
  rw [h]
  simp only [Bool.false_eq_true, ↓reduceIte]
  exact encodeWindowBits_bits _ _

/-- the carry never exceeds 14 bits: preserved by every call -/
theorem compressStream_lbb {o : Oracle} {fuel op cap : Nat} {input : Bytes} {s s' : St} {io' : Io} {r : Bool}
    (hop : op ≤ 3) (hI : Inv s) (hw : s.inputPos + input.length < two64) (hl : s.lastBytesBits ≤ 14)
    (h : compressStream o fuel s op input cap = .ok (s', io', r)) : s'.lastBytesBits ≤ 14 := by
  cases r
  · rcases (refused_unchanged hop hI hw h).1 with rfl | rfl
    · exact hl
    · rw [(updateSizeHint_fields s 0).2.2.2.2.2.2.2.2.2.2.2.2.2.1]; exact hl
  · have hacc := (compressStream_refines hop hI hw h).1
    unfold compressStream at h
    rw [ensureInitialized_id hI.init] at h
    simp only at h
    split at h
    · simp at h
    · rename_i hg
      split at h
      · rename_i hop3
        subst hop3
        have hIu := inv_updateSizeHint hI 0
        obtain ⟨_, _, _, _, _, u6, u7, _, u9, u10, _, _, u13, u14, _⟩ := updateSizeHint_fields s 0
        unfold processMetadata at h
        split at h
        · simp at h
        · rename_i hle
          split at h
          · simp at h
          · rename_i hgood
            have hle' : input.length ≤ 16777216 := by simpa using hle
            have hP : MdInv input.length (mdEnter (updateSizeHint s 0) input.length) { input := input, availIn := input.length, availOut := cap } := by
              unfold mdEnter
              by_cases hpr : (updateSizeHint s 0).streamState = .processing
              · rw [if_pos hpr]
                have hmod : input.length % two32 = input.length := Nat.mod_eq_of_lt (lt_two32_of_le hle')
                refine ⟨?_, Or.inl (by simp), ?_, ?_, Nat.le_refl _⟩
                · refine ⟨hIu.init, hIu.fl_le, hIu.lp_le, hIu.ip_lt, hIu.blk, ?_, ?_, ?_, hIu.q01, ?_⟩
                  · intro hle2
                    have := hIu.lastFin hle2
                    rw [hpr] at this; cases this
                  · simp only [hmod]
                    constructor
                    · intro _; have := u32Max_gt; omega
                    · intro _; exact Or.inl trivial
                  · intro _; simp only [hmod]; exact hle'
                  · intro hfl; cases hfl
                · simp only [hmod]; exact hle'
                · simp only [hmod]
              · rw [if_neg hpr]
                have hme : mdEnter (updateSizeHint s 0) input.length = updateSizeHint s 0 := by
                  unfold mdEnter; rw [if_neg hpr]
                have hst : (updateSizeHint s 0).streamState = .metadataHead ∨ (updateSizeHint s 0).streamState = .metadataBody := by
                  simp only at hgood
                  rw [hme] at hgood
                  by_cases h1 : (updateSizeHint s 0).streamState = .metadataHead
                  · exact Or.inl h1
                  · by_cases h2 : (updateSizeHint s 0).streamState = .metadataBody
                    · exact Or.inr h2
                    · exact absurd ⟨h1, h2⟩ hgood
                have hrm : (updateSizeHint s 0).remainingMetadata ≠ u32Max := hIu.mdIff.mp hst
                have hav : input.length = (updateSizeHint s 0).remainingMetadata := by
                  rw [u7]
                  by_cases hne : input.length = s.remainingMetadata
                  · exact hne
                  · exact absurd ⟨by rw [← u7]; exact hrm, Or.inl hne⟩ hg
                exact ⟨hIu, hst, hIu.mdLe hrm, hav, Nat.le_refl _⟩
            obtain ⟨_, _, m3, _, _⟩ := mdEnter_fields (updateSizeHint s 0) input.length
            exact mdLoop_lbb fuel _ _ _ _ _ hP (by rw [m3, u14]; exact hl) h
      · rename_i hop3
        have hop2 : op ≤ 2 := by omega
        have hrm : s.remainingMetadata = u32Max := by
          by_cases hne : s.remainingMetadata = u32Max
          · exact hne
          · exact absurd ⟨hne, Or.inr hop3⟩ hg
        have hnmd : ¬ (s.streamState = .metadataHead ∨ s.streamState = .metadataBody) := by
          intro hh; exact absurd hrm (hI.mdIff.mp hh)
        rw [if_neg hnmd] at h
        split at h
        · simp at h
        · rename_i hok
          have haccp : s.streamState ≠ .processing → input.length = 0 := by
            intro hh
            by_cases hne : input.length = 0
            · exact hne
            · exact absurd ⟨hh, hne⟩ hok
          split at h
          · unfold compressStreamFast at h
            rename_i hfast
            rw [if_neg (by rcases hfast.1 with h1 | h1 <;> simp [h1])] at h
            split at h
            · rename_i s1 io1 hl1
              simp only [Out.ok.injEq, Prod.mk.injEq] at h
              obtain ⟨rfl, rfl, _⟩ := h
              rw [(checkFlushComplete_frame s1).2.2.2.2.2.2.2.2.2.1]
              exact fastLoop_lbb hop2 fuel _ _ _ _ hl hl1
            · simp at h
            · simp at h
          · exact slowLoop_lbb (c0 := s.streamState) (n := input.length) (total := s.inputPos + input.length) hop2 fuel s _ _ _ _
              ⟨hI, rfl, hw, hrm, Nat.le_refl _, haccp, Or.inl rfl⟩ hl h

end BV.Stream
