import BV.Lemmas.HasherLoop
/-! `AdvHasher`: the 4-at-a-time and 32-at-a-time paths equal per-position `Store`s. -/
namespace BV.Hasher

theorem or_shl (x b s : Nat) (hx : x < 2 ^ s) : x ||| (b <<< s) = x + b * 2 ^ s := by
  rw [Nat.or_comm, ← Nat.shiftLeft_add_eq_or_of_lt hx, Nat.shiftLeft_eq, Nat.add_comm]

theorem word7_eq (b0 b1 b2 b3 b4 b5 b6 : Nat) (h0 : b0 < 256) (h1 : b1 < 256) (h2 : b2 < 256)
    (h3 : b3 < 256) (h4 : b4 < 256) (h5 : b5 < 256) (h6 : b6 < 256) :
    Adv.word7 [b0, b1, b2, b3, b4, b5, b6] =
      b0 + b1 * 2 ^ 8 + b2 * 2 ^ 16 + b3 * 2 ^ 24 + b4 * 2 ^ 32 + b5 * 2 ^ 40 + b6 * 2 ^ 48 := by
  show b0 ||| b1 <<< 8 ||| b2 <<< 16 ||| b3 <<< 24 ||| b4 <<< 32 ||| b5 <<< 40 ||| b6 <<< 48 = _
  rw [or_shl _ _ 8 (by omega), or_shl _ _ 16 (by omega), or_shl _ _ 24 (by omega),
    or_shl _ _ 32 (by omega), or_shl _ _ 40 (by omega), or_shl _ _ 48 (by omega)]

theorem word7_sel (b0 b1 b2 b3 b4 b5 b6 : Nat) (h0 : b0 < 256) (h1 : b1 < 256) (h2 : b2 < 256)
    (h3 : b3 < 256) (h4 : b4 < 256) (h5 : b5 < 256) (h6 : b6 < 256) :
    (Adv.word7 [b0, b1, b2, b3, b4, b5, b6] &&& 0xffffffff = le [b0, b1, b2, b3]) ∧
    ((Adv.word7 [b0, b1, b2, b3, b4, b5, b6] >>> 8) &&& 0xffffffff = le [b1, b2, b3, b4]) ∧
    ((Adv.word7 [b0, b1, b2, b3, b4, b5, b6] >>> 16) &&& 0xffffffff = le [b2, b3, b4, b5]) ∧
    ((Adv.word7 [b0, b1, b2, b3, b4, b5, b6] >>> 24) &&& 0xffffffff = le [b3, b4, b5, b6]) := by
  rw [word7_eq _ _ _ _ _ _ _ h0 h1 h2 h3 h4 h5 h6]
  have hm : (0xffffffff : Nat) = 2 ^ 32 - 1 := by decide
  simp only [hm, Nat.and_two_pow_sub_one_eq_mod, Nat.shiftRight_eq_div_pow, le]
  refine ⟨?_, ?_, ?_, ?_⟩ <;> omega

theorem list_len7 {w : List Nat} (h : w.length = 7) :
    ∃ b0 b1 b2 b3 b4 b5 b6, w = [b0, b1, b2, b3, b4, b5, b6] := by
  match w, h with
  | [b0, b1, b2, b3, b4, b5, b6], _ => exact ⟨b0, b1, b2, b3, b4, b5, b6, rfl⟩

/-- hypotheses on the hash parameters of an `AdvHasher`:
* `keyBound`: `key << block_bits` computed in `u32` (`Store`) and in `usize` (batched paths) agree,
  i.e. keys are below `2^(32 - block_bits)` (bucket_bits + block_bits ≤ 32 for every real kind);
* `coh`: when the look-ahead is 4 (the only case in which the batched paths run) the
  specialization's `load_and_mix_word` is the inline formula the batched paths hard-code. -/
structure AdvP.Ok (P : AdvP) : Prop where
  keyBound : ∀ w, ((P.mixWord w >>> P.shift) % U32) <<< P.blockBits < U32
  coh : P.lookahead = 4 → ∀ w : List Nat, w.length = 4 → (∀ b ∈ w, b < 256) →
    (P.mixWord w >>> P.shift) % U32 = Adv.mixInline P (le w)

namespace Adv

/-- one position in normal form: counter step on `num`, then the bucket write -/
def stepNF (P : AdvP) (key v : Nat) (st : AdvSt) : Option AdvSt :=
  match numStep P key st.num with
  | none => none
  | some (r, num) =>
    match wr st.buckets ((key <<< P.blockBits) + r) v with
    | none => none
    | some b => some ⟨num, b⟩

theorem quad_eq_steps (P : AdvP) (w7 : List Nat) (v : Nat) (st : AdvSt) :
    quad P w7 v st =
      (stepNF P (mixInline P (word7 w7)) (v % U32) st).bind fun s1 =>
      (stepNF P (mixInline P (word7 w7 >>> 8)) ((v + 1) % U32) s1).bind fun s2 =>
      (stepNF P (mixInline P (word7 w7 >>> 16)) ((v + 2) % U32) s2).bind fun s3 =>
      stepNF P (mixInline P (word7 w7 >>> 24)) ((v + 3) % U32) s3 := by
  obtain ⟨num, buckets⟩ := st
  simp only [quad, stepNF]
  cases h0 : numStep P (mixInline P (word7 w7)) num with
  | none => simp
  | some p0 =>
    obtain ⟨r0, n1⟩ := p0
    simp only []
    cases hw0 : wr buckets ((mixInline P (word7 w7) <<< P.blockBits) + r0) (v % U32) with
    | none =>
      simp only [Option.bind_none]
      cases numStep P (mixInline P (word7 w7 >>> 8)) n1 with
      | none => rfl
      | some p1 =>
        obtain ⟨r1, n2⟩ := p1
        simp only []
        cases numStep P (mixInline P (word7 w7 >>> 16)) n2 with
        | none => rfl
        | some p2 =>
          obtain ⟨r2, n3⟩ := p2
          simp only []
          cases numStep P (mixInline P (word7 w7 >>> 24)) n3 with
          | none => rfl
          | some p3 => rfl
    | some b1 =>
      simp only [Option.bind_some]
      cases h1 : numStep P (mixInline P (word7 w7 >>> 8)) n1 with
      | none => simp
      | some p1 =>
        obtain ⟨r1, n2⟩ := p1
        simp only []
        cases hw1 : wr b1 ((mixInline P (word7 w7 >>> 8) <<< P.blockBits) + r1) ((v + 1) % U32) with
        | none =>
          simp only [Option.bind_none]
          cases numStep P (mixInline P (word7 w7 >>> 16)) n2 with
          | none => rfl
          | some p2 =>
            obtain ⟨r2, n3⟩ := p2
            simp only []
            cases numStep P (mixInline P (word7 w7 >>> 24)) n3 with
            | none => rfl
            | some p3 => rfl
        | some b2 =>
          simp only [Option.bind_some]
          cases h2 : numStep P (mixInline P (word7 w7 >>> 16)) n2 with
          | none => simp
          | some p2 =>
            obtain ⟨r2, n3⟩ := p2
            simp only []
            cases hw2 : wr b2 ((mixInline P (word7 w7 >>> 16) <<< P.blockBits) + r2) ((v + 2) % U32) with
            | none =>
              simp only [Option.bind_none]
              cases numStep P (mixInline P (word7 w7 >>> 24)) n3 with
              | none => rfl
              | some p3 => rfl
            | some b3 =>
              simp only [Option.bind_some]
              cases h3 : numStep P (mixInline P (word7 w7 >>> 24)) n3 with
              | none => rfl
              | some p3 => rfl

theorem store_none {P : AdvP} {data : ByteArray} {mask ix : Nat}
    (h : win data (ix &&& mask) P.lookahead = none) (st : AdvSt) : store P data mask ix st = none := by
  obtain ⟨num, buckets⟩ := st
  simp [store, hashAt, h]

theorem rd_of_lt {a : Tab} {i : Nat} (h : i < a.size) : rd a i = some a[i] := by simp [rd, h]
theorem rd_of_not_lt {a : Tab} {i : Nat} (h : ¬ i < a.size) : rd a i = none := by simp [rd, h]
theorem wr_of_lt {a : Tab} {i : Nat} (v : Nat) (h : i < a.size) : wr a i v = some (a.set i v h) := by
  simp [wr, h]

theorem store_nf {P : AdvP} (hP : P.Ok) {data : ByteArray} {mask ix : Nat} {w : List Nat}
    (h : win data (ix &&& mask) P.lookahead = some w) (st : AdvSt) :
    store P data mask ix st = stepNF P ((P.mixWord w >>> P.shift) % U32) (ix % U32) st := by
  obtain ⟨num, buckets⟩ := st
  have hk := hP.keyBound w
  simp only [store, hashAt, h, Option.map_some, stepNF, numStep]
  by_cases hlt : (P.mixWord w >>> P.shift) % U32 < num.size
  · simp only [rd_of_lt hlt, wr_of_lt _ hlt, Nat.mod_eq_of_lt hk,
      Nat.mod_mod_of_dvd _ (show U16 ∣ U32 by decide), Nat.add_comm (_ &&& P.blockMask)]
    generalize wr buckets _ _ = o
    cases o <;> rfl
  · simp only [rd_of_not_lt hlt]

theorem straddleStep_eq_store {P : AdvP} (hP : P.Ok) (data : ByteArray) (mask p : Nat) (st : AdvSt) :
    straddleStep P data mask p st = store P data mask p st := by
  cases hw : win data (p &&& mask) P.lookahead with
  | none => rw [store_none hw]; obtain ⟨num, buckets⟩ := st; simp [straddleStep, hashAt, hw]
  | some w =>
    rw [store_nf hP hw]
    obtain ⟨num, buckets⟩ := st
    simp only [straddleStep, hashAt, hw, Option.map_some, stepNF, numStep]
    by_cases hlt : (P.mixWord w >>> P.shift) % U32 < num.size
    · simp only [rd_of_lt hlt, wr_of_lt _ hlt, Nat.mod_mod_of_dvd _ (show U16 ∣ U32 by decide)]
      generalize wr buckets _ _ = o
      cases o <;> rfl
    · simp only [rd_of_not_lt hlt]

theorem mixInline_and (P : AdvP) (x : Nat) : mixInline P (x &&& 0xffffffff) = mixInline P x := by
  simp only [mixInline, Nat.and_assoc, Nat.and_self]

/-- the unrolled body over a 7-byte window is four `Store`s, provided the four positions
`v .. v+3` lie at the consecutive offsets `p .. p+3` -/
theorem quad_eq_stores {P : AdvP} (hP : P.Ok) (h4 : P.lookahead = 4) {data : ByteArray}
    {mask p v : Nat} {w7 : List Nat} (hw : win data p 7 = some w7)
    (hm : ∀ j, j ≤ 3 → (v + j) &&& mask = p + j) (st : AdvSt) :
    quad P w7 v st = forRange (store P data mask) v 4 st := by
  have hlt := win_lt hw
  obtain ⟨b0, b1, b2, b3, b4, b5, b6, rfl⟩ := list_len7 (win_length hw)
  have hb : ∀ b ∈ [b0, b1, b2, b3, b4, b5, b6], b < 256 := hlt
  simp only [List.mem_cons, List.not_mem_nil, or_false, forall_eq_or_imp, forall_eq] at hb
  obtain ⟨hb0, hb1, hb2, hb3, hb4, hb5, hb6⟩ := hb
  obtain ⟨s0, s1, s2, s3⟩ := word7_sel b0 b1 b2 b3 b4 b5 b6 hb0 hb1 hb2 hb3 hb4 hb5 hb6
  have w0 := win_sub hw 0 4 (by omega)
  have w1 := win_sub hw 1 4 (by omega)
  have w2 := win_sub hw 2 4 (by omega)
  have w3 := win_sub hw 3 4 (by omega)
  simp only [List.drop_zero, List.drop_succ_cons, List.take_succ_cons, List.take_zero] at w0 w1 w2 w3
  have hm0 : v &&& mask = p := by simpa using hm 0 (by omega)
  simp only [Nat.add_zero] at w0
  rw [← hm0, ← h4] at w0
  rw [← hm 1 (by omega), ← h4] at w1
  rw [← hm 2 (by omega), ← h4] at w2
  rw [← hm 3 (by omega), ← h4] at w3
  have c0 := hP.coh h4 [b0, b1, b2, b3] rfl (by simp; omega)
  have c1 := hP.coh h4 [b1, b2, b3, b4] rfl (by simp; omega)
  have c2 := hP.coh h4 [b2, b3, b4, b5] rfl (by simp; omega)
  have c3 := hP.coh h4 [b3, b4, b5, b6] rfl (by simp; omega)
  rw [quad_eq_steps, forRange_four, store_nf hP w0, c0, ← s0, mixInline_and]
  cases stepNF P (mixInline P (word7 [b0, b1, b2, b3, b4, b5, b6])) (v % U32) st with
  | none => rfl
  | some st1 =>
    simp only [Option.bind_some]
    rw [store_nf hP w1, c1, ← s1, mixInline_and]
    cases stepNF P (mixInline P (word7 [b0, b1, b2, b3, b4, b5, b6] >>> 8)) ((v + 1) % U32) st1 with
    | none => rfl
    | some st2 =>
      simp only [Option.bind_some]
      rw [store_nf hP w2, c2, ← s2, mixInline_and]
      cases stepNF P (mixInline P (word7 [b0, b1, b2, b3, b4, b5, b6] >>> 16)) ((v + 2) % U32) st2 with
      | none => rfl
      | some st3 =>
        simp only [Option.bind_some]
        rw [store_nf hP w3, c3, ← s3, mixInline_and]

/-- if the 7-byte window does not exist, the fourth `Store` panics -/
theorem stores_none_of_win7 {P : AdvP} (h4 : P.lookahead = 4) {data : ByteArray} {mask p v : Nat}
    (hw : win data p 7 = none) (hm : (v + 3) &&& mask = p + 3) (st : AdvSt) :
    forRange (store P data mask) v 4 st = none := by
  apply forRange_last_none (store P data mask) 3
  intro y
  apply store_none
  rw [hm, h4]
  exact win_none_of_le hw (by omega)

/-- one iteration of the `StoreRangeOptBatch` loop is four `Store`s -/
theorem chunk_eq {P : AdvP} (hP : P.Ok) (h4 : P.lookahead = 4) (data : ByteArray)
    (k ixStart c : Nat) (st : AdvSt) :
    chunk P data (2 ^ k - 1) ixStart c st
      = forRange (store P data (2 ^ k - 1)) (ixStart + c * 4) 4 st := by
  unfold chunk
  simp only []
  split
  · rw [forRange_congr (g := fun j y => store P data (2 ^ k - 1) (ixStart + c * 4 + j) y) 4 0 st
      (fun i y _ _ => straddleStep_eq_store hP data _ _ y)]
    exact forRange_shift (store P data (2 ^ k - 1)) (ixStart + c * 4) 4 0 st
  · rename_i hns
    have hc := fun j hj => ringmask_consecutive (ixStart + c * 4) k j hns hj
    cases hw : win data ((ixStart + c * 4) &&& (2 ^ k - 1)) 7 with
    | none => simp only []; exact (stores_none_of_win7 h4 hw (hc 3 (by omega)) st).symm
    | some w7 => simp only []; exact quad_eq_stores hP h4 hw hc st

/-- with exactly sized tables the prefix slices are the whole tables -/
theorem onTables_exact {P : AdvP} {st : AdvSt} (hsz : sizesAsserted P st = true)
    (f : AdvSt → Option AdvSt) : onTables P st f = f st := by
  obtain ⟨num, buckets⟩ := st
  simp only [sizesAsserted, Bool.and_eq_true, beq_iff_eq] at hsz
  obtain ⟨h1, h2⟩ := hsz
  unfold onTables
  have e1 : P.bucketSize * (1 <<< P.blockBits) = buckets.size := h2.symm
  have e2 : P.bucketSize = num.size := h1.symm
  simp only [e1]
  simp only [e2, Nat.lt_irrefl, or_self, if_false, Array.extract_size]
  cases f ⟨num, buckets⟩ with
  | none => rfl
  | some st' => simp

/-- `StoreRange` of an `AdvHasher` is the fold of `Store` -/
theorem storeRange_eq_fold {P : AdvP} (hP : P.Ok) (data : ByteArray) (k s e : Nat) (st : AdvSt)
    (hsz : sizesAsserted P st = true) :
    storeRange P data (2 ^ k - 1) s e st = forRange (store P data (2 ^ k - 1)) s (e - s) st := by
  unfold storeRange storeRangeOptBatch
  by_cases hge : e ≥ s + P.lookahead * 2 ∧ P.lookahead = 4
  · have h4 := hge.2
    have hfun : chunk P data (2 ^ k - 1) s
        = fun c y => forRange (store P data (2 ^ k - 1)) (s + c * 4) 4 y := by
      funext c y; exact chunk_eq hP h4 data k s c y
    have hge' : e ≥ s + 4 * 2 := by have := hge.1; rw [h4] at this; exact this
    simp only [h4, hge', and_self, if_true, onTables_exact hsz, hfun]
    rw [forRange_chunks (store P data (2 ^ k - 1)) 4 s ((e - s) / 4) 0 st]
    simp only [Nat.zero_mul, Nat.add_zero]
    have hsplit : e - s = (e - s) / 4 * 4 + (e - (s + (e - s) / 4 * 4)) := by omega
    conv => rhs; rw [hsplit, forRange_add]
    cases forRange (store P data (2 ^ k - 1)) s ((e - s) / 4 * 4) st <;> rfl
  · simp only [hge, if_false]

theorem usize_max_eq : USIZE_MAX = 2 ^ 64 - 1 := by decide

/-- one `chunk_id` of `BulkStoreRangeOptMemFetch` is 32 `Store`s (positions are `usize`) -/
theorem memFetchChunk_eq {P : AdvP} (hP : P.Ok) (h4 : P.lookahead = 4) (data : ByteArray)
    (ixStart c : Nat) (hlt : ixStart + c * 32 + 32 ≤ 2 ^ 64) (st : AdvSt) :
    memFetchChunk P data ixStart c st
      = forRange (store P data USIZE_MAX) (ixStart + c * 32) 32 st := by
  have hmask : ∀ x, x < 2 ^ 64 → x &&& USIZE_MAX = x := by
    intro x hx; rw [usize_max_eq, and_ringmask, Nat.mod_eq_of_lt hx]
  unfold memFetchChunk
  simp only []
  cases hw : win data (ixStart + c * 32) 35 with
  | none =>
    simp only []
    symm
    apply forRange_last_none (store P data USIZE_MAX) 31
    intro y
    apply store_none
    rw [hmask _ (by omega), h4]
    exact win_none_of_le hw (by omega)
  | some d64 =>
    simp only []
    rw [forRange_congr (g := fun q y => forRange (store P data USIZE_MAX) (ixStart + c * 32 + q * 4) 4 y) 8 0 st]
    · rw [forRange_chunks (store P data USIZE_MAX) 4 (ixStart + c * 32) 8 0 st]
      simp
    · intro q y _ hq
      have hq8 : q < 8 := by omega
      have hsh : q <<< 2 = q * 4 := by rw [Nat.shiftLeft_eq]
      rw [hsh]
      have hw7 := win_sub hw (q * 4) 7 (by omega)
      exact quad_eq_stores hP h4 hw7 (fun j hj => by rw [hmask _ (by omega)]) y

/-- `BulkStoreRange` of an `AdvHasher` is the fold of `Store` (ring masks and `usize::MAX`) -/
theorem bulkStoreRange_eq_fold {P : AdvP} (hP : P.Ok) (data : ByteArray) (mask s e : Nat)
    (he : e ≤ 2 ^ 64) (st : AdvSt) (hsz : sizesAsserted P st = true) :
    bulkStoreRange P data mask s e st = forRange (store P data mask) s (e - s) st := by
  unfold bulkStoreRange bulkStoreRangeOptMemFetch
  by_cases hge : mask = USIZE_MAX ∧ e > s + 32 ∧ P.lookahead = 4
  · obtain ⟨hm, hgt, h4⟩ := hge
    subst hm
    simp only [hgt, h4, and_self, if_true, onTables_exact hsz]
    rw [forRange_congr (g := fun c y => forRange (store P data USIZE_MAX) (s + c * 32) 32 y)
      ((e - s) / 32) 0 st]
    · rw [forRange_chunks (store P data USIZE_MAX) 32 s ((e - s) / 32) 0 st]
      simp only [Nat.zero_mul, Nat.add_zero]
      have hsplit : e - s = (e - s) / 32 * 32 + (e - (s + (e - s) / 32 * 32)) := by omega
      conv => rhs; rw [hsplit, forRange_add]
      cases forRange (store P data USIZE_MAX) s ((e - s) / 32 * 32) st <;> rfl
    · intro c y _ hc
      have : c * 32 + 32 ≤ (e - s) / 32 * 32 := by
        have : c + 1 ≤ (e - s) / 32 := by omega
        calc c * 32 + 32 = (c + 1) * 32 := by omega
          _ ≤ (e - s) / 32 * 32 := Nat.mul_le_mul_right 32 this
      exact memFetchChunk_eq hP h4 data s c (by omega) y
  · simp only [hge, if_false]

end Adv
end BV.Hasher
