/-
Helper lemmas for C07, part 3: the safety invariant `Inv` of the pool model and its
preservation by every transition.
-/
import BV.Lemmas.PoolBasic

set_option linter.unusedSimpArgs false
set_option linter.unnecessarySimpa false
set_option linter.unusedVariables false

namespace BV.Lemmas.Pool
open BV.Gen BV.FixedQueue BV.Pool BV.Lemmas.FixedQueue

/-! ### history bookkeeping -/

section hist
variable (t : Nat) (h : List (Nat × Ev)) (id v : Nat) (b : Bool)
@[simp] theorem joinedIds_exit : joinedIds ((t, .exit) :: h) = joinedIds h := rfl
@[simp] theorem joinedIds_pop : joinedIds ((t, .pop id) :: h) = joinedIds h := rfl
@[simp] theorem joinedIds_wait : joinedIds ((t, .wait) :: h) = joinedIds h := rfl
@[simp] theorem joinedIds_run : joinedIds ((t, .run id) :: h) = joinedIds h := rfl
@[simp] theorem joinedIds_publish : joinedIds ((t, .publish id) :: h) = joinedIds h := rfl
@[simp] theorem joinedIds_wake : joinedIds ((t, .wake) :: h) = joinedIds h := rfl
@[simp] theorem joinedIds_spawn : joinedIds ((t, .spawn id) :: h) = joinedIds h := rfl
@[simp] theorem joinedIds_join : joinedIds ((t, .join id v) :: h) = id :: joinedIds h := rfl
@[simp] theorem joinedIds_unwrap : joinedIds ((t, .unwrap b) :: h) = joinedIds h := rfl
@[simp] theorem joinedIds_drop : joinedIds ((t, .drop b) :: h) = joinedIds h := rfl
@[simp] theorem joinedIds_joinW : joinedIds ((t, .joinW b) :: h) = joinedIds h := rfl
@[simp] theorem joinedIds_spurious : joinedIds ((t, .spurious) :: h) = joinedIds h := rfl
@[simp] theorem joinedIds_ite_drop (c : Bool) :
    joinedIds ((t, if c then Ev.drop b else Ev.joinW b) :: h) = joinedIds h := by
  cases c <;> rfl

@[simp] theorem runCount_exit : runCount id ((t, .exit) :: h) = runCount id h := rfl
@[simp] theorem runCount_pop (x : Nat) : runCount id ((t, .pop x) :: h) = runCount id h := rfl
@[simp] theorem runCount_wait : runCount id ((t, .wait) :: h) = runCount id h := rfl
@[simp] theorem runCount_run (x : Nat) :
    runCount id ((t, .run x) :: h) = eqInd x id + runCount id h := rfl
@[simp] theorem runCount_publish (x : Nat) : runCount id ((t, .publish x) :: h) = runCount id h := rfl
@[simp] theorem runCount_wake : runCount id ((t, .wake) :: h) = runCount id h := rfl
@[simp] theorem runCount_spawn (x : Nat) : runCount id ((t, .spawn x) :: h) = runCount id h := rfl
@[simp] theorem runCount_join (x : Nat) : runCount id ((t, .join x v) :: h) = runCount id h := rfl
@[simp] theorem runCount_unwrap : runCount id ((t, .unwrap b) :: h) = runCount id h := rfl
@[simp] theorem runCount_drop : runCount id ((t, .drop b) :: h) = runCount id h := rfl
@[simp] theorem runCount_joinW : runCount id ((t, .joinW b) :: h) = runCount id h := rfl
@[simp] theorem runCount_spurious : runCount id ((t, .spurious) :: h) = runCount id h := rfl
@[simp] theorem runCount_ite_drop (c : Bool) :
    runCount id ((t, if c then Ev.drop b else Ev.joinW b) :: h) = runCount id h := by
  cases c <;> rfl
end hist

theorem cntJ_append (id : Nat) (l : List Job) (j : Job) :
    cntJ id (l ++ [j]) = cntJ id l + eqInd j.workId id := by
  simp only [cntJ, eqInd, List.countP_append, List.countP_cons, List.countP_nil, beq_iff_eq]; omega

theorem cntJ_cons (id : Nat) (l : List Job) (j : Job) :
    cntJ id (j :: l) = cntJ id l + eqInd j.workId id := by
  simp only [cntJ, eqInd, List.countP_cons, beq_iff_eq]

theorem cntR_append (id : Nat) (l : List Reply) (r : Reply) :
    cntR id (l ++ [r]) = cntR id l + eqInd r.workId id := by
  simp only [cntR, eqInd, List.countP_append, List.countP_cons, List.countP_nil, beq_iff_eq]; omega

theorem cntR_cons (id : Nat) (l : List Reply) (r : Reply) :
    cntR id (r :: l) = cntR id l + eqInd r.workId id := by
  simp only [cntR, eqInd, List.countP_cons, beq_iff_eq]

theorem cntR_perm (id : Nat) {l l' : List Reply} (h : l.Perm l') : cntR id l = cntR id l' :=
  List.Perm.countP_eq _ h

theorem count_cons_nat (id x : Nat) (l : List Nat) :
    (x :: l).count id = l.count id + eqInd x id := by
  simp only [eqInd, List.count_cons, beq_iff_eq]

/-! ### the invariant -/

def isJoining : SPc → Bool
  | .joining _ => true
  | _ => false

@[simp] theorem isJoining_wake (p : SPc) : isJoining p.wake = isJoining p := by cases p <;> rfl

/-- the pool has been dropped and `drop` has returned (while `drop` is parked in a
`JoinHandle::join` the `d` op is still the head of `prog`) -/
def dropped (s : State) : Bool := s.immediateShutdown && !isJoining s.spc

@[simp] theorem dropped_log (s : State) (t : Nat) (e : Ev) : dropped (s.log t e) = dropped s := rfl
@[simp] theorem dropped_setW (s : State) (i : Nat) (p : WPc) : dropped (s.setW i p) = dropped s := rfl
@[simp] theorem dropped_notifyAll (s : State) : dropped s.notifyAll = dropped s := by
  simp [dropped]

theorem dropped_of_spc {s : State} (h : s.spc = .ready ∨ s.spc = .woken) :
    dropped s = s.immediateShutdown := by
  rcases h with h | h <;> simp [dropped, h, isJoining]

/-- safety invariant of the pool (under the caller contract) -/
structure Inv (s : State) : Prop where
  wfJ : WF s.jobs
  wfR : WF s.results
  /-- `num_in_progress` = number of workers between pop and publish -/
  nip : s.numInProgress = wsum busy s.workers
  /-- strong count = submitter's handle + one per queued job + one per job not yet dropped -/
  arc : s.arc = 1 + s.jobs.size + wsum holdsArc s.workers
  /-- every spawned id is in exactly one of: jobs queue, one worker, results queue, joined;
  no other id is anywhere -/
  part : ∀ id, cntJ id s.jobs.items + wsum (hasId id) s.workers + cntR id s.results.items
      + (joinedIds s.hist).count id = below id s.curWorkId
  total : s.jobs.size + s.numInProgress + s.results.size + (joinedIds s.hist).length = s.curWorkId
  bound : s.curWorkId ≤ (joinedIds s.hist).length + MAX_THREADS
  contr : contractFrom s.curWorkId (joinedIds s.hist) (dropped s) s.prog = true
  spawnedIds : s.spawned.map Job.workId = List.range s.curWorkId
  noShutdown : s.shutdown = false
  /-- `drop` only parks after it has set `immediate_shutdown` -/
  joinImm : isJoining s.spc = true → s.immediateShutdown = true

theorem sums_set {ws : List WPc} {i : Nat} {p : WPc} (hw : ws[i]? = some p) (p' : WPc) :
    wsum busy (ws.set i p') + busy p = wsum busy ws + busy p' ∧
    wsum holdsArc (ws.set i p') + holdsArc p = wsum holdsArc ws + holdsArc p' ∧
    ∀ id, wsum (hasId id) (ws.set i p') + hasId id p = wsum (hasId id) ws + hasId id p' :=
  ⟨wsum_set _ _ hw, wsum_set _ _ hw, fun _ => wsum_set _ _ hw⟩

theorem sums_set_wake {ws : List WPc} {i : Nat} {p : WPc} (hw : ws[i]? = some p) (p' : WPc) :
    wsum busy ((ws.map WPc.wake).set i p') + busy p = wsum busy ws + busy p' ∧
    wsum holdsArc ((ws.map WPc.wake).set i p') + holdsArc p = wsum holdsArc ws + holdsArc p' ∧
    ∀ id, wsum (hasId id) ((ws.map WPc.wake).set i p') + hasId id p
      = wsum (hasId id) ws + hasId id p' :=
  ⟨wsum_set_wake _ busy_wake _ hw, wsum_set_wake _ holdsArc_wake _ hw,
   fun id => wsum_set_wake _ (hasId_wake id) _ hw⟩

theorem sums_wake (ws : List WPc) :
    wsum busy (ws.map WPc.wake) = wsum busy ws ∧
    wsum holdsArc (ws.map WPc.wake) = wsum holdsArc ws ∧
    ∀ id, wsum (hasId id) (ws.map WPc.wake) = wsum (hasId id) ws :=
  ⟨wsum_map_wake _ busy_wake _, wsum_map_wake _ holdsArc_wake _,
   fun id => wsum_map_wake _ (hasId_wake id) _⟩

theorem inv_init (n : Nat) (p : List Op) (hc : contract p = true) : Inv (init n p) := by
  refine ⟨wf_new, wf_new, ?_, ?_, ?_, ?_, ?_, hc, rfl, rfl, by simp [init, isJoining]⟩
  · simp [init, wsum_replicate, busy]
  · simp [init, wsum_replicate, holdsArc, FixedQueue.new]
  · intro id; simp [init, items_new, wsum_replicate, hasId, cntJ, cntR, joinedIds, below_zero]
  · simp [init, FixedQueue.new, joinedIds]
  · simp [init]

/-- under `Inv` a popped head slot is what the abstraction says -/
theorem pop_some_spec {q : FixedQueue Job} (w : WF q) {j : Job} {q' : FixedQueue Job}
    (h : q.pop = (some j, q')) : WF q' ∧ q.items = j :: q'.items ∧ q.size = q'.size + 1 := by
  obtain ⟨p1, p2, p3, p4⟩ := pop_spec w
  rw [h] at p1 p2 p3 p4
  simp only at p1 p2 p3 p4
  have hl := w.length_items
  cases hi : q.items with
  | nil => rw [hi] at p1; simp at p1
  | cons a t =>
    rw [hi] at p1 p3 hl
    simp only [List.head?_cons, Option.some.injEq] at p1
    simp only [List.tail_cons] at p3
    subst p1
    refine ⟨p2, by rw [p3], ?_⟩
    simp at hl; omega

theorem pop_none_spec {q : FixedQueue Job} (w : WF q) {q' : FixedQueue Job}
    (h : q.pop = (none, q')) : q' = q ∧ q.size = 0 := by
  obtain ⟨p1, p2, p3, p4⟩ := pop_spec w
  rw [h] at p1
  simp only at p1
  have hl := w.length_items
  cases hi : q.items with
  | nil =>
    rw [hi] at hl
    have h0 : q.size = 0 := by simpa using hl.symm
    rw [pop_empty q h0] at h
    exact ⟨by cases h; rfl, h0⟩
  | cons a t => rw [hi] at p1; simp at p1

theorem inv_step {s s' : State} {c : Choice} (I : Inv s) (h : step s c = .ok s') : Inv s' := by
  have hJ := I.wfJ.length_items
  have hR := I.wfR.length_items
  apply step_elim h
  · -- exitA
    intro i _ hw _ hs'
    obtain ⟨hb, ha, hi⟩ := sums_set hw .exited
    simp only [busy, holdsArc, hasId] at hb ha hi
    subst hs'
    refine ⟨I.wfJ, I.wfR, ?_, ?_, ?_, ?_, ?_, ?_, I.spawnedIds, I.noShutdown, by simpa using I.joinImm⟩
    · simp; have := I.nip; omega
    · simp; have := I.arc; omega
    · intro id; simp; have := I.part id; have := hi id; omega
    · simpa using I.total
    · simpa using I.bound
    · simpa [dropped] using I.contr
  · -- pop
    intro i j jobs' _ hw _ hpop hs'
    obtain ⟨w', hit, hsz⟩ := pop_some_spec I.wfJ hpop
    obtain ⟨hb, ha, hi⟩ := sums_set_wake hw (.atRun j)
    simp only [busy, holdsArc, hasId] at hb ha hi
    subst hs'
    refine ⟨w', I.wfR, ?_, ?_, ?_, ?_, ?_, ?_, I.spawnedIds, I.noShutdown, by simpa using I.joinImm⟩
    · simp; have := I.nip; omega
    · simp; have := I.arc; omega
    · intro id
      have := I.part id
      rw [hit, cntJ_cons] at this
      have := hi id
      simp; omega
    · simp; have := I.total; omega
    · simpa using I.bound
    · simpa [dropped] using I.contr
  · -- exitS
    intro i jobs' _ hw _ hpop hsd hs'
    rw [I.noShutdown] at hsd; cases hsd
  · -- waitW
    intro i jobs' _ hw _ hpop _ hs'
    obtain ⟨rfl, _⟩ := pop_none_spec I.wfJ hpop
    obtain ⟨hb, ha, hi⟩ := sums_set hw .waiting
    simp only [busy, holdsArc, hasId] at hb ha hi
    subst hs'
    refine ⟨I.wfJ, I.wfR, ?_, ?_, ?_, ?_, ?_, ?_, I.spawnedIds, I.noShutdown, by simpa using I.joinImm⟩
    · simp; have := I.nip; omega
    · simp; have := I.arc; omega
    · intro id; simp; have := I.part id; have := hi id; omega
    · simpa using I.total
    · simpa using I.bound
    · simpa [dropped] using I.contr
  · -- run
    intro i j _ hw hs'
    obtain ⟨hb, ha, hi⟩ := sums_set hw (.atLockB ⟨j.workId, j.index⟩)
    simp only [busy, holdsArc, hasId] at hb ha hi
    subst hs'
    refine ⟨I.wfJ, I.wfR, ?_, ?_, ?_, ?_, ?_, ?_, I.spawnedIds, I.noShutdown, by simpa using I.joinImm⟩
    · simp; have := I.nip; omega
    · simp; have := I.arc; omega
    · intro id; simp; have := I.part id; have := hi id; omega
    · simpa using I.total
    · simpa using I.bound
    · simpa [dropped] using I.contr
  · -- publish
    intro i r results' _ hw hn hpush hs'
    obtain ⟨hb, ha, hi⟩ := sums_set_wake hw .atLockA
    simp only [busy, holdsArc, hasId] at hb ha hi
    have hlt : s.results.size < MAX_THREADS := by
      have := I.total; have := I.bound; omega
    obtain ⟨q', e1, w', hit, hsz, _⟩ := push_spec I.wfR r hlt
    rw [hpush] at e1; cases e1
    subst hs'
    refine ⟨I.wfJ, w', ?_, ?_, ?_, ?_, ?_, ?_, I.spawnedIds, I.noShutdown, by simpa using I.joinImm⟩
    · simp; have := I.nip; omega
    · simp; have := I.arc; omega
    · intro id
      have := I.part id
      have := hi id
      simp [hit, cntR_append]; omega
    · simp; have := I.total; omega
    · simpa using I.bound
    · simpa [dropped] using I.contr
  · -- wake
    intro i _ hw hs'
    obtain ⟨hb, ha, hi⟩ := sums_set hw .atLockA
    simp only [busy, holdsArc, hasId] at hb ha hi
    subst hs'
    refine ⟨I.wfJ, I.wfR, ?_, ?_, ?_, ?_, ?_, ?_, I.spawnedIds, I.noShutdown, by simpa using I.joinImm⟩
    · simp; have := I.nip; omega
    · simp; have := I.arc; omega
    · intro id; simp; have := I.part id; have := hi id; omega
    · simpa using I.total
    · simpa using I.bound
    · simpa [dropped] using I.contr
  · -- spawn
    intro idx rest jobs' _ hspc hp _ hpush hs'
    obtain ⟨hb, ha, hi⟩ := sums_wake s.workers
    have hc := I.contr
    rw [hp, dropped_of_spc hspc] at hc
    simp only [contractFrom, Bool.and_eq_true, Bool.not_eq_true', decide_eq_true_eq] at hc
    obtain ⟨⟨himm, hlt⟩, hrest⟩ := hc
    have hlt' : s.jobs.size < MAX_THREADS := by have := I.total; omega
    obtain ⟨q', e1, w', hit, hsz, _⟩ := push_spec I.wfJ ⟨s.curWorkId, idx⟩ hlt'
    rw [hpush] at e1; cases e1
    subst hs'
    refine ⟨w', I.wfR, ?_, ?_, ?_, ?_, ?_, ?_, ?_, I.noShutdown, by simp [isJoining]⟩
    · simp; have := I.nip; omega
    · simp; have := I.arc; omega
    · intro id
      have := I.part id
      have := hi id
      simp [hit, cntJ_append, below_succ]; omega
    · simp; have := I.total; omega
    · simp; omega
    · simpa [dropped, isJoining] using hrest
    · simp [I.spawnedIds, List.range_succ]
  · -- spawnWait
    intro idx rest _ hspc hp _ hs'
    have hc := I.contr
    rw [dropped_of_spc hspc] at hc
    subst hs'
    exact ⟨I.wfJ, I.wfR, I.nip, I.arc, by simpa using I.part, by simpa using I.total,
      by simpa using I.bound, by simpa [dropped, isJoining] using hc, I.spawnedIds, I.noShutdown,
      by simp [isJoining]⟩
  · -- join
    intro n rest j r results' _ hspc hp hsp hrm hs'
    have hc := I.contr
    rw [hp, dropped_of_spc hspc] at hc
    simp only [contractFrom, Bool.and_eq_true, Bool.not_eq_true', decide_eq_true_eq] at hc
    obtain ⟨⟨⟨himm, hn⟩, hnj⟩, hrest⟩ := hc
    -- the handle's work id is n
    have hjn : j.workId = n := by
      have h1 : (s.spawned.map Job.workId)[n]? = some j.workId := by simp [hsp]
      rw [I.spawnedIds] at h1
      rw [List.getElem?_range hn] at h1
      cases h1; rfl
    rcases remove_spec I.wfR (matchId j.workId) with ⟨_, h2⟩ | ⟨k, x, q', h1, h2, _, h4, h5, h6, h7⟩
    · rw [hrm] at h2; cases h2
    rw [hrm] at h4; cases h4
    have hk : k < s.results.items.length := by
      rcases Nat.lt_or_ge k s.results.items.length with h | h
      · exact h
      · rw [List.getElem?_eq_none h] at h1; cases h1
    have hperm := removeAbs_perm s.results.items k hk
    rw [List.getElem?_eq_getElem hk] at h1
    cases h1
    rw [← h6] at hperm
    have hid : s.results.items[k].workId = j.workId := by simpa [matchId] using h2
    subst hs'
    refine ⟨I.wfJ, h5, I.nip, I.arc, ?_, ?_, ?_, ?_, I.spawnedIds, I.noShutdown, by simp [isJoining]⟩
    · intro id
      have := I.part id
      rw [← cntR_perm id hperm, cntR_cons, hid] at this
      simp [count_cons_nat]; omega
    · simp; have := I.total; omega
    · simp; have := I.bound; omega
    · simpa [hjn, dropped, isJoining] using hrest
  · -- joinWait
    intro n rest j results' _ hspc hp hsp hrm hs'
    have hc := I.contr
    rw [dropped_of_spc hspc] at hc
    rcases remove_spec I.wfR (matchId j.workId) with ⟨_, h2⟩ | ⟨k, x, q', _, _, _, h4, _⟩
    · rw [hrm] at h2; cases h2
      subst hs'
      exact ⟨I.wfJ, I.wfR, I.nip, I.arc, by simpa using I.part, by simpa using I.total,
        by simpa using I.bound, by simpa [dropped, isJoining] using hc, I.spawnedIds, I.noShutdown,
        by simp [isJoining]⟩
    · rw [hrm] at h4; cases h4
  · -- unwrap
    intro rest _ hspc hp hs'
    have hc := I.contr
    rw [hp, dropped_of_spc hspc] at hc
    simp only [contractFrom] at hc
    subst hs'
    exact ⟨I.wfJ, I.wfR, I.nip, I.arc, by simpa using I.part, by simpa using I.total,
      by simpa using I.bound, by simpa [dropped, isJoining] using hc, I.spawnedIds, I.noShutdown,
      by simp [isJoining]⟩
  · -- drop
    intro rest _ hspc hp hs'
    have hc := I.contr
    rw [hp, dropped_of_spc hspc] at hc
    simp only [contractFrom, Bool.and_eq_true, Bool.not_eq_true'] at hc
    obtain ⟨himm, hrest⟩ := hc
    obtain ⟨hb, ha, hi⟩ := sums_wake s.workers
    rcases joinFrom_cases ({ s with immediateShutdown := true }.notifyAll) 1 rest true
      (Nat.le_refl _) with ⟨t, _, _, _, _, _, e⟩ | ⟨_, e⟩
    · rw [e] at hs'; subst hs'
      refine ⟨I.wfJ, I.wfR, ?_, ?_, ?_, ?_, ?_, ?_, I.spawnedIds, I.noShutdown, by simp⟩
      · simp; have := I.nip; omega
      · simp; have := I.arc; omega
      · intro id; simp; have := I.part id; have := hi id; omega
      · simpa using I.total
      · simpa using I.bound
      · simp [dropped, isJoining, hp, contractFrom, hrest]
    · rw [e] at hs'; subst hs'
      refine ⟨I.wfJ, I.wfR, ?_, ?_, ?_, ?_, ?_, ?_, I.spawnedIds, I.noShutdown, by simp [isJoining]⟩
      · simp; have := I.nip; omega
      · simp; have := I.arc; omega
      · intro id; simp; have := I.part id; have := hi id; omega
      · simpa using I.total
      · simpa using I.bound
      · simp [dropped, isJoining, hrest]
  · -- joinW
    intro t rest _ hspc hp _ hs'
    have himm := I.joinImm (by simp [hspc, isJoining])
    have hc0 := I.contr
    rw [hp] at hc0
    simp only [dropped, hspc, isJoining, himm, contractFrom, Bool.and_eq_true] at hc0
    rcases joinFrom_cases s (t + 1) rest false (by omega) with ⟨t', _, _, _, _, _, e⟩ | ⟨_, e⟩
    · rw [e] at hs'; subst hs'
      refine ⟨I.wfJ, I.wfR, I.nip, I.arc, by simpa using I.part, by simpa using I.total,
        by simpa using I.bound, ?_, I.spawnedIds, I.noShutdown, by simp [himm]⟩
      simp [dropped, isJoining, hp, contractFrom, hc0.2]
    · rw [e] at hs'; subst hs'
      refine ⟨I.wfJ, I.wfR, I.nip, I.arc, by simpa using I.part, by simpa using I.total,
        by simpa using I.bound, ?_, I.spawnedIds, I.noShutdown, by simp [isJoining]⟩
      simp [dropped, isJoining, himm, hc0.2]
  · -- spurS
    intro _ hspc hs'
    have hc := I.contr
    simp only [dropped, hspc, isJoining] at hc
    subst hs'
    exact ⟨I.wfJ, I.wfR, I.nip, I.arc, by simpa using I.part, by simpa using I.total,
      by simpa using I.bound, by simpa [dropped, isJoining] using hc, I.spawnedIds, I.noShutdown,
      by simp [isJoining]⟩
  · -- spurW
    intro tid _ _ hw hs'
    obtain ⟨hb, ha, hi⟩ := sums_set hw .woken
    simp only [busy, holdsArc, hasId] at hb ha hi
    subst hs'
    refine ⟨I.wfJ, I.wfR, ?_, ?_, ?_, ?_, ?_, ?_, I.spawnedIds, I.noShutdown, by simpa using I.joinImm⟩
    · simp; have := I.nip; omega
    · simp; have := I.arc; omega
    · intro id; simp; have := I.part id; have := hi id; omega
    · simpa using I.total
    · simpa using I.bound
    · simpa [dropped] using I.contr

end BV.Lemmas.Pool
