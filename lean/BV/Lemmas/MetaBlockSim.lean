/-
C01 / meta-block writers, part 4: the command loop.  `StoreDataWithHuffmanCodes` on a command array that
satisfies `cmdOK` and `lockstep`, read by `readCommands`, is a run of C14's RFC decoder `decSteps` on the
same raw command array.
-/
import BV.Lemmas.MetaBlockData

namespace BV.MetaBlock
open BV.Gen BV.Bits BV.Huffman BV.PrefixArith BV.Recoder
open BV.Header (writeBits_ok)
open BV.Lemmas.HuffmanRead (takeBits_bitsOf)

/-- C14's decoder step, with its copy half expressed by the reader's `applyCopy` -/
theorem decStep_eq (wo : WordOracle) (np nd window : Nat) (mb : Bytes) (s : DecSt) (c : Cmd) :
    decStep wo np nd window mb s c =
      if mb.length - s.cursor = 0 then none else
      if c.insertLen > mb.length - s.cursor then none else
      if s.cursor + c.insertLen = mb.length then
        some { s with out := s.out ++ (mb.drop s.cursor).take c.insertLen, cursor := s.cursor + c.insertLen }
      else
        (applyCopy wo window np nd mb.length (s.cursor + c.insertLen) (copyLenCode c.copyLenField)
          (s.out ++ (mb.drop s.cursor).take c.insertLen) s.ring (c.distPrefix % 1024) c.distExtra).map
          fun r => ⟨r.2.out, r.2.ring, s.cursor + c.insertLen + r.1⟩ := by
  unfold decStep applyCopy
  simp only
  split
  · rfl
  split
  · rfl
  split
  · rfl
  cases hrd : rfcDistance np nd s.ring (c.distPrefix % 1024) c.distExtra with
  | none => simp
  | some p =>
    obtain ⟨d, upd⟩ := p
    simp only
    split
    · simp
    split
    · split
      · simp
      · simp
    · split
      · simp
      · cases hw : wo (copyLenCode c.copyLenField)
          ((d.toNat - min (s.out ++ List.take c.insertLen (List.drop s.cursor mb)).length window - 1) %
            2 ^ dictSizeBits.getD (copyLenCode c.copyLenField) 0)
          ((d.toNat - min (s.out ++ List.take c.insertLen (List.drop s.cursor mb)).length window - 1) /
            2 ^ dictSizeBits.getD (copyLenCode c.copyLenField) 0) with
        | none => simp
        | some word =>
          simp only
          split
          · simp
          · simp

/-- a real distance (`< 2^31`) has at most 30 extra bits -/
theorem nbits_le (np nd ds extra : Nat) (h : ¬ ds < 16 + nd) (hlt : rfcDistDecode np nd ds extra < 2 ^ 31) :
    rfcDistNBits np nd ds ≤ 30 := by
  unfold rfcDistDecode at hlt
  simp only [h, if_false] at hlt
  generalize rfcDistNBits np nd ds = nb at *
  generalize (ds - nd - 16) / 2 ^ np % 2 = q at *
  generalize (ds - nd - 16) % 2 ^ np = r at *
  have h1 : 2 * 2 ^ nb ≤ (2 + q) * 2 ^ nb := Nat.mul_le_mul_right _ (by omega)
  have h2 : (2 + q) * 2 ^ nb - 4 + extra ≤ ((2 + q) * 2 ^ nb - 4 + extra) * 2 ^ np :=
    Nat.le_mul_of_pos_right _ (Nat.pow_pos (by decide))
  rcases Nat.lt_or_ge nb 31 with h3 | h3
  · omega
  · have h4 : 2 ^ 31 ≤ 2 ^ nb := Nat.pow_le_pow_right (by decide) h3
    generalize (2 + q) * 2 ^ nb = X at *
    generalize 2 ^ nb = Y at *
    have p31 : (2 : Nat) ^ 31 = 2147483648 := by decide
    rw [p31] at hlt h4
    omega

theorem takeBits_zero (bs : List Bool) : takeBits 0 bs = some (0, bs) := by
  simp [takeBits, valOf]

/-- the distance part of a command that is followed by a copy (`copy_len() ≠ 0`): what the writer
appends, and the reader's copy half on it = `applyCopy` on the command's distance fields -/
theorem readCopy_ok (wo : WordOracle) (window np nd A : Nat) (distD distB : List Nat) (dist : Code) (c : Cmd)
    (hc : cmdOK A np nd c = true) (hcl : copyLen c ≠ 0)
    (hio : c.cmdPrefix ≥ 128 → SymIO distD distB dist (c.distPrefix % 1024)) :
    ∃ dbits, (∀ w, (if copyLen c ≠ 0 ∧ c.cmdPrefix ≥ 128 then do
          let w ← storeSym distD distB (c.distPrefix % 1024) w
          writeBits ((c.distPrefix / 1024) % 256) c.distExtra w
        else Out.ok w) = .ok (w ++ dbits)) ∧
      ∀ mlen done cl out ring rest,
        readCopy wo window np nd dist mlen done (rfcCmdDecode c.cmdPrefix).2.2 cl out ring (dbits ++ rest)
          = match applyCopy wo window np nd mlen done cl out ring (c.distPrefix % 1024) c.distExtra with
            | none => none
            | some (n, s) => some (n, s, rest) := by
  simp only [cmdOK, Bool.and_eq_true, decide_eq_true_eq] at hc
  obtain ⟨⟨⟨⟨⟨⟨⟨_, _⟩, _⟩, _⟩, himp⟩, _⟩, hp16⟩, hdist⟩ := hc
  have himp0 : (rfcCmdDecode c.cmdPrefix).2.2 = decide (c.cmdPrefix / 64 < 2) := rfl
  by_cases h128 : c.cmdPrefix ≥ 128
  · -- explicit distance symbol
    obtain ⟨sb, hs, hr⟩ := hio h128
    have hnb : c.distPrefix / 1024 % 256 = c.distPrefix / 1024 := Nat.mod_eq_of_lt (by omega)
    have hfalse : (rfcCmdDecode c.cmdPrefix).2.2 = false := by
      rw [himp0]; simp; omega
    by_cases hshort : c.distPrefix % 1024 < 16 + nd
    · simp only [hshort, if_true, Bool.and_eq_true, decide_eq_true_eq] at hdist
      refine ⟨sb, ?_, ?_⟩
      · intro w
        rw [if_pos ⟨hcl, h128⟩, hs w, Out.bind_ok, hnb, hdist.1, hdist.2,
          writeBits_ok 0 0 _ (by decide) (by decide)]
        simp [bitsOf]
      · intro mlen done cl out ring rest
        unfold readCopy
        rw [hfalse]
        simp only [Bool.false_eq_true, if_false, hr, hshort, if_true, takeBits_zero, hdist.2]
        cases applyCopy wo window np nd mlen done cl out ring (c.distPrefix % 1024) 0 <;> rfl
    · simp only [hshort, if_false, Bool.and_eq_true, decide_eq_true_eq] at hdist
      obtain ⟨⟨hn, hx⟩, hD⟩ := hdist
      have h30 := nbits_le np nd _ _ hshort hD
      rw [hn] at hx
      refine ⟨sb ++ bitsOf (rfcDistNBits np nd (c.distPrefix % 1024)) c.distExtra, ?_, ?_⟩
      · intro w
        rw [if_pos ⟨hcl, h128⟩, hs w, Out.bind_ok, hnb, hn, writeBits_ok _ _ _ hx (by omega), List.append_assoc]
      · intro mlen done cl out ring rest
        unfold readCopy
        rw [hfalse]
        simp only [Bool.false_eq_true, if_false, List.append_assoc, hr, hshort, takeBits_bitsOf _ _ _ hx]
        cases applyCopy wo window np nd mlen done cl out ring (c.distPrefix % 1024) c.distExtra <;> rfl
  · -- implied distance symbol 0
    have hds : c.distPrefix % 1024 = 0 := by
      rcases Bool.or_eq_true _ _ |>.mp himp with h | h
      · exact absurd (of_decide_eq_true h) h128
      · simpa using h
    have htrue : (rfcCmdDecode c.cmdPrefix).2.2 = true := by
      rw [himp0]; simp; omega
    have hshort : c.distPrefix % 1024 < 16 + nd := by omega
    simp only [hshort, if_true, Bool.and_eq_true, decide_eq_true_eq] at hdist
    refine ⟨[], ?_, ?_⟩
    · intro w
      rw [if_neg (by intro h; exact h128 h.2)]
      simp
    · intro mlen done cl out ring rest
      unfold readCopy
      rw [htrue, hds]
      simp only [if_true, List.nil_append, show (0 : Nat) < 16 + nd by omega, takeBits_zero, hdist.2]
      cases applyCopy wo window np nd mlen done cl out ring 0 0 <;> rfl

end BV.MetaBlock
