/-
C01 / meta-block writers, part 4: the command loop.  `StoreDataWithHuffmanCodes` on a command array that
satisfies `cmdOK` and `lockstep`, read by `readCommands`, is a run of C14's RFC decoder `decSteps` on the
same raw command array.
-/
import BV.Lemmas.MetaBlockData

namespace BV.MetaBlock
open BV.Gen BV.Bits BV.Huffman BV.PrefixArith BV.Recoder
open BV.Header (writeBits_ok)
open BV.Lemmas.HuffmanRead (takeBits_bitsOf)

/-- C14's decoder step, with its copy half expressed by the reader's `applyCopy` -/
theorem decStep_eq (wo : WordOracle) (np nd window : Nat) (mb : Bytes) (s : DecSt) (c : Cmd) :
    decStep wo np nd window mb s c =
      if mb.length - s.cursor = 0 then none else
      if c.insertLen > mb.length - s.cursor then none else
      if s.cursor + c.insertLen = mb.length then
        some { s with out := s.out ++ (mb.drop s.cursor).take c.insertLen, cursor := s.cursor + c.insertLen }
      else
        (applyCopy wo window np nd mb.length (s.cursor + c.insertLen) (copyLenCode c.copyLenField)
          (s.out ++ (mb.drop s.cursor).take c.insertLen) s.ring (c.distPrefix % 1024) c.distExtra).map
          fun r => ⟨r.2.out, r.2.ring, s.cursor + c.insertLen + r.1⟩ := by
  unfold decStep applyCopy
  simp only
  split
  · rfl
  split
  · rfl
  split
  · rfl
  cases hrd : rfcDistance np nd s.ring (c.distPrefix % 1024) c.distExtra with
  | none => simp
  | some p =>
    obtain ⟨d, upd⟩ := p
    simp only
    split
    · simp
    split
    · split
      · simp
      · simp
    · split
      · simp
      · cases hw : wo (copyLenCode c.copyLenField)
          ((d.toNat - min (s.out ++ List.take c.insertLen (List.drop s.cursor mb)).length window - 1) %
            2 ^ dictSizeBits.getD (copyLenCode c.copyLenField) 0)
          ((d.toNat - min (s.out ++ List.take c.insertLen (List.drop s.cursor mb)).length window - 1) /
            2 ^ dictSizeBits.getD (copyLenCode c.copyLenField) 0) with
        | none => simp
        | some word =>
          simp only
          split
          · simp
          · simp

/-- a real distance (`< 2^31`) has at most 30 extra bits -/
theorem nbits_le (np nd ds extra : Nat) (h : ¬ ds < 16 + nd) (hlt : rfcDistDecode np nd ds extra < 2 ^ 31) :
    rfcDistNBits np nd ds ≤ 30 := by
  unfold rfcDistDecode at hlt
  simp only [h, if_false] at hlt
  generalize rfcDistNBits np nd ds = nb at *
  generalize (ds - nd - 16) / 2 ^ np % 2 = q at *
  generalize (ds - nd - 16) % 2 ^ np = r at *
  have h1 : 2 * 2 ^ nb ≤ (2 + q) * 2 ^ nb := Nat.mul_le_mul_right _ (by omega)
  have h2 : (2 + q) * 2 ^ nb - 4 + extra ≤ ((2 + q) * 2 ^ nb - 4 + extra) * 2 ^ np :=
    Nat.le_mul_of_pos_right _ (Nat.pow_pos (by decide))
  rcases Nat.lt_or_ge nb 31 with h3 | h3
  · omega
  · have h4 : 2 ^ 31 ≤ 2 ^ nb := Nat.pow_le_pow_right (by decide) h3
    generalize (2 + q) * 2 ^ nb = X at *
    generalize 2 ^ nb = Y at *
    have p31 : (2 : Nat) ^ 31 = 2147483648 := by decide
    rw [p31] at hlt h4
    omega

theorem takeBits_zero (bs : List Bool) : takeBits 0 bs = some (0, bs) := by
  simp [takeBits, valOf]

/-- the distance part of a command that is followed by a copy (`copy_len() ≠ 0`): what the writer
appends, and the reader's copy half on it = `applyCopy` on the command's distance fields -/
theorem readCopy_ok (wo : WordOracle) (window np nd A : Nat) (distD distB : List Nat) (dist : Code) (c : Cmd)
    (hc : cmdOK A np nd c = true) (hcl : copyLen c ≠ 0)
    (hio : c.cmdPrefix ≥ 128 → SymIO distD distB dist (c.distPrefix % 1024)) :
    ∃ dbits, (∀ w, (if copyLen c ≠ 0 ∧ c.cmdPrefix ≥ 128 then do
          let w ← storeSym distD distB (c.distPrefix % 1024) w
          writeBits ((c.distPrefix / 1024) % 256) c.distExtra w
        else Out.ok w) = .ok (w ++ dbits)) ∧
      ∀ mlen done cl out ring rest,
        readCopy wo window np nd dist mlen done (rfcCmdDecode c.cmdPrefix).2.2 cl out ring (dbits ++ rest)
          = match applyCopy wo window np nd mlen done cl out ring (c.distPrefix % 1024) c.distExtra with
            | none => none
            | some (n, s) => some (n, s, rest) := by
  simp only [cmdOK, Bool.and_eq_true, decide_eq_true_eq] at hc
  obtain ⟨⟨⟨⟨⟨⟨⟨_, _⟩, _⟩, _⟩, himp⟩, _⟩, hp16⟩, hdist0⟩ := hc
  have hdist : (if c.distPrefix % 1024 < 16 + nd then decide (c.distPrefix / 1024 = 0) && decide (c.distExtra = 0)
      else decide (c.distPrefix / 1024 = rfcDistNBits np nd (c.distPrefix % 1024)) &&
        decide (c.distExtra < 2 ^ (c.distPrefix / 1024)) &&
        decide (rfcDistDecode np nd (c.distPrefix % 1024) c.distExtra < 2 ^ 31)) = true := by
    rcases (Bool.or_eq_true _ _).mp hdist0 with h | h
    · exact absurd (of_decide_eq_true h) hcl
    · exact h
  have himp0 : (rfcCmdDecode c.cmdPrefix).2.2 = decide (c.cmdPrefix / 64 < 2) := rfl
  by_cases h128 : c.cmdPrefix ≥ 128
  · -- explicit distance symbol
    obtain ⟨sb, hs, hr⟩ := hio h128
    have hnb : c.distPrefix / 1024 % 256 = c.distPrefix / 1024 := Nat.mod_eq_of_lt (by omega)
    have hfalse : (rfcCmdDecode c.cmdPrefix).2.2 = false := by
      rw [himp0]; simp; omega
    by_cases hshort : c.distPrefix % 1024 < 16 + nd
    · simp only [hshort, if_true, Bool.and_eq_true, decide_eq_true_eq] at hdist
      refine ⟨sb, ?_, ?_⟩
      · intro w
        rw [if_pos ⟨hcl, h128⟩, hs w, Out.bind_ok, hnb, hdist.1, hdist.2,
          writeBits_ok 0 0 _ (by decide) (by decide)]
        simp [bitsOf]
      · intro mlen done cl out ring rest
        unfold readCopy
        rw [hfalse]
        simp only [Bool.false_eq_true, if_false, hr, hshort, if_true, takeBits_zero, hdist.2]
        cases applyCopy wo window np nd mlen done cl out ring (c.distPrefix % 1024) 0 <;> rfl
    · simp only [hshort, if_false, Bool.and_eq_true, decide_eq_true_eq] at hdist
      obtain ⟨⟨hn, hx⟩, hD⟩ := hdist
      have h30 := nbits_le np nd _ _ hshort hD
      rw [hn] at hx
      refine ⟨sb ++ bitsOf (rfcDistNBits np nd (c.distPrefix % 1024)) c.distExtra, ?_, ?_⟩
      · intro w
        rw [if_pos ⟨hcl, h128⟩, hs w, Out.bind_ok, hnb, hn, writeBits_ok _ _ _ hx (by omega), List.append_assoc]
      · intro mlen done cl out ring rest
        unfold readCopy
        rw [hfalse]
        simp only [Bool.false_eq_true, if_false, List.append_assoc, hr, hshort, takeBits_bitsOf _ _ _ hx]
        cases applyCopy wo window np nd mlen done cl out ring (c.distPrefix % 1024) c.distExtra <;> rfl
  · -- implied distance symbol 0
    have hds : c.distPrefix % 1024 = 0 := by
      rcases Bool.or_eq_true _ _ |>.mp himp with h | h
      · exact absurd (of_decide_eq_true h) h128
      · simpa using h
    have htrue : (rfcCmdDecode c.cmdPrefix).2.2 = true := by
      rw [himp0]; simp; omega
    have hshort : c.distPrefix % 1024 < 16 + nd := by omega
    simp only [hshort, if_true, Bool.and_eq_true, decide_eq_true_eq] at hdist
    refine ⟨[], ?_, ?_⟩
    · intro w
      rw [if_neg (by intro h; exact h128 h.2)]
      simp
    · intro mlen done cl out ring rest
      unfold readCopy
      rw [htrue, hds]
      simp only [if_true, List.nil_append, show (0 : Nat) < 16 + nd by omega, takeBits_zero, hdist.2]
      cases applyCopy wo window np nd mlen done cl out ring 0 0 <;> rfl

theorem lockstep_cursor (wo : WordOracle) (np nd window : Nat) (mb : Bytes) (s : DecSt) (p : Nat) (cs : List Cmd)
    (h : lockstep wo np nd window mb s p cs = true) : s.cursor = p := by
  cases cs with
  | nil => simp [lockstep] at h; exact h.1
  | cons c cs => simp only [lockstep, Bool.and_eq_true, decide_eq_true_eq] at h; exact h.1

theorem rdst_eta (r : RdSt) : (⟨r.out, r.ring⟩ : RdSt) = r := by cases r; rfl

theorem storeData_sim (wo : WordOracle) (window np nd A : Nat) (ring : Bytes) (mask start : Nat) (mb : Bytes)
    (litD litB cmdD cmdB distD distB : List Nat) (lit cmd dist : Code)
    (hR : RingHolds ring mask start mb) :
    ∀ (cmds : List Cmd) (ds : DecSt) (w : Writer),
      lockstep wo np nd window mb ds ds.cursor cmds = true →
      (∀ b ∈ litsOf mb ds.cursor cmds, SymIO litD litB lit b) →
      (∀ c ∈ cmds, cmdOK A np nd c = true) →
      (∀ c ∈ cmds, SymIO cmdD cmdB cmd c.cmdPrefix) →
      (∀ c ∈ cmds, copyLen c ≠ 0 → c.cmdPrefix ≥ 128 → SymIO distD distB dist (c.distPrefix % 1024)) →
      ∃ db fin, storeData ring mask litD litB cmdD cmdB distD distB cmds (posOf start ds.cursor) w = .ok (w ++ db) ∧
        decSteps wo np nd window mb ds cmds = some fin ∧ fin.cursor = mb.length ∧
        ∀ (rest : List Bool) (f : Nat), cmds.length + 1 ≤ f →
          readCommands wo window np nd lit cmd dist mb.length f ds.cursor ⟨ds.out, ds.ring⟩ (db ++ rest)
            = some (⟨fin.out, fin.ring⟩, rest) := by
  intro cmds
  induction cmds with
  | nil =>
    intro ds w hl _ _ _ _
    simp only [lockstep, Bool.and_eq_true, decide_eq_true_eq] at hl
    refine ⟨[], ds, by simp [storeData], rfl, hl.2, ?_⟩
    intro rest f hf
    obtain ⟨f', rfl⟩ : ∃ f', f = f' + 1 := ⟨f - 1, by simp at hf; omega⟩
    simp [readCommands, hl.2]
  | cons c cs ih =>
    intro ds w hl hlit hok hcmd hdist
    simp only [litsOf] at hlit
    simp only [lockstep, Bool.and_eq_true, decide_eq_true_eq] at hl
    obtain ⟨_, hl⟩ := hl
    cases hd : decStep wo np nd window mb ds c with
    | none => rw [hd] at hl; simp at hl
    | some s' =>
      rw [hd] at hl
      simp only at hl
      rw [decStep_eq] at hd
      have hrem : ¬ (mb.length - ds.cursor = 0) := by
        intro h; rw [if_pos h] at hd; cases hd
      rw [if_neg hrem] at hd
      have hins : ¬ (c.insertLen > mb.length - ds.cursor) := by
        intro h; rw [if_pos h] at hd; cases hd
      rw [if_neg hins] at hd
      have hcok := hok c (by simp)
      obtain ⟨ic, cc, ib, ie, cb, ce, hsym, hic, hcc, hit, hct, hib, hie, hcb, hce, hextra⟩ := cmd_facts A np nd c hcok
      obtain ⟨sb, hs, hr⟩ := hcmd c (by simp)
      obtain ⟨lb, hl1, hl2⟩ := storeLits_ok ring mask start mb litD litB lit hR c.insertLen ds.cursor
        (w ++ sb ++ (bitsOf ie (c.insertLen - ib) ++ bitsOf ce (copyLenCode c.copyLenField - cb))) (by omega)
        (fun b hb => hlit b (List.mem_append_left _ hb))
      have hri := fun out r => readInsert_ok lit cmd mb.length ds.cursor out c.cmdPrefix ic cc ib ie cb ce c.insertLen
        (copyLenCode c.copyLenField) sb lb r ((mb.drop ds.cursor).take c.insertLen) hr hsym hic hcc hit hct hib hie hcb hce
        (by omega) hl2
      simp only [List.append_assoc] at hri
      by_cases hterm : ds.cursor + c.insertLen = mb.length
      · -- the insert half completes the meta-block
        rw [if_pos hterm] at hd hl
        simp only [Bool.and_eq_true, decide_eq_true_eq, List.isEmpty_iff] at hl
        obtain ⟨hnil, hc0⟩ := hl
        subst hnil
        injection hd with hd
        refine ⟨sb ++ ((bitsOf ie (c.insertLen - ib) ++ bitsOf ce (copyLenCode c.copyLenField - cb)) ++ lb), s', ?_, ?_, ?_, ?_⟩
        · unfold storeData
          rw [hs w, Out.bind_ok, hextra, Out.bind_ok, hl1, Out.bind_ok]
          simp only [hc0, ne_eq, not_true_eq_false, false_and, if_false, Out.bind_ok, storeData]
          simp [List.append_assoc]
        · simp only [decSteps]
          rw [decStep_eq, if_neg hrem, if_neg hins, if_pos hterm, hd]
        · rw [← hd]; exact hterm
        · intro rest f hf
          obtain ⟨f', rfl⟩ : ∃ f', f = f' + 1 := ⟨f - 1, by simp at hf; omega⟩
          unfold readCommands
          rw [if_neg (by omega)]
          simp only [List.append_assoc]
          rw [hri]
          simp only [hterm, if_true]
          rw [← hd]
      · -- a copy follows
        rw [if_neg hterm] at hd hl
        simp only [Bool.and_eq_true, decide_eq_true_eq] at hl
        obtain ⟨hcl, hl⟩ := hl
        have hcur := lockstep_cursor _ _ _ _ _ _ _ _ hl
        cases hac : applyCopy wo window np nd mb.length (ds.cursor + c.insertLen) (copyLenCode c.copyLenField)
            (ds.out ++ (mb.drop ds.cursor).take c.insertLen) ds.ring (c.distPrefix % 1024) c.distExtra with
        | none => rw [hac] at hd; simp at hd
        | some nr =>
          obtain ⟨n, r⟩ := nr
          rw [hac] at hd
          simp only [Option.map_some, Option.some.injEq] at hd
          have hn : n = copyLen c := by
            rw [← hd] at hcur; simp only at hcur; omega
          subst hn
          obtain ⟨dbits, hdw, hdr⟩ := readCopy_ok wo window np nd A distD distB dist c hcok hcl (hdist c (by simp) hcl)
          rw [← hcur] at hl
          have hs'c : s'.cursor = ds.cursor + c.insertLen + copyLen c := by rw [← hd]
          obtain ⟨db', fin, h1, h2, h3, h4⟩ := ih s'
            (w ++ sb ++ (bitsOf ie (c.insertLen - ib) ++ bitsOf ce (copyLenCode c.copyLenField - cb)) ++ lb ++ dbits)
            hl (fun b hb => hlit b (List.mem_append_right _ (by rw [← hs'c]; exact hb))) (fun x hx => hok x (List.mem_cons_of_mem _ hx)) (fun x hx => hcmd x (List.mem_cons_of_mem _ hx))
            (fun x hx => hdist x (List.mem_cons_of_mem _ hx))
          refine ⟨sb ++ ((bitsOf ie (c.insertLen - ib) ++ bitsOf ce (copyLenCode c.copyLenField - cb)) ++ (lb ++ (dbits ++ db'))),
            fin, ?_, ?_, h3, ?_⟩
          · unfold storeData
            rw [hs w, Out.bind_ok, hextra, Out.bind_ok, hl1, Out.bind_ok]
            simp only
            rw [hdw, Out.bind_ok, posOf_add, ← hs'c, h1]
            simp [List.append_assoc]
          · simp only [decSteps]
            rw [decStep_eq, if_neg hrem, if_neg hins, if_neg hterm, hac]
            simp only [Option.map_some, hd]
            exact h2
          · intro rest f hf
            obtain ⟨f', rfl⟩ : ∃ f', f = f' + 1 := ⟨f - 1, by simp at hf; omega⟩
            unfold readCommands
            rw [if_neg (by omega)]
            simp only [List.append_assoc]
            rw [hri]
            simp only [hterm, if_false]
            rw [hdr, hac]
            simp only
            have e1 : (r : RdSt) = ⟨s'.out, s'.ring⟩ := by rw [← hd]
            rw [e1, ← hs'c]
            exact h4 rest f' (by simp at hf; omega)
/-- every command of a lockstep array produces at least one byte: the number of commands is at most
the number of bytes left, so the reader's fuel `MLEN + 1` suffices -/
theorem lockstep_length (wo : WordOracle) (np nd window : Nat) (mb : Bytes) :
    ∀ (cs : List Cmd) (s : DecSt) (p : Nat), lockstep wo np nd window mb s p cs = true →
      p + cs.length ≤ mb.length := by
  intro cs
  induction cs with
  | nil => intro s p h; simp [lockstep] at h; simp; omega
  | cons c cs ih =>
    intro s p h
    simp only [lockstep, Bool.and_eq_true, decide_eq_true_eq] at h
    obtain ⟨hp, h⟩ := h
    cases hd : decStep wo np nd window mb s c with
    | none => rw [hd] at h; simp at h
    | some s' =>
      rw [hd] at h
      simp only at h
      rw [decStep_eq] at hd
      have hrem : ¬ (mb.length - s.cursor = 0) := by
        intro h; rw [if_pos h] at hd; cases hd
      by_cases ht : p + c.insertLen = mb.length
      · rw [if_pos ht] at h
        simp only [Bool.and_eq_true, decide_eq_true_eq, List.isEmpty_iff] at h
        rw [h.1]; simp; omega
      · rw [if_neg ht] at h
        simp only [Bool.and_eq_true, decide_eq_true_eq] at h
        have := ih s' _ h.2
        simp only [List.length_cons]
        omega

end BV.MetaBlock
