import BV.Lemmas.ZopfliUpd3
/-! `StartPosQueue::push`: every live slot of the queue keeps holding a sound start position.
(Not yet used by a registered theorem: part of the open `EvaluateNode` layer.) -/
namespace BV.Zopfli
open BV.Hasher BV.MatchFinder BV.Recoder BV.PrefixArith BV.MetaBlock BV.Cbr BV

theorem and7 (x : Nat) : x &&& 7 = x % 8 := by
  rw [show (7 : Nat) = 2 ^ 3 - 1 by decide, Nat.and_two_pow_sub_one_eq_mod]

/-- slot of `at(j)` after a push = the push offset plus `j` -/
theorem slot_new (j idx : Nat) (hj : j < 8) :
    (wsub j (idx + 1)) % 8 = ((U64 - 1 - idx % U64) % 8 + j) % 8 := by
  have hU : U64 = 18446744073709551616 := rfl
  unfold wsub
  rw [hU]
  omega

/-- slot of the old `at(j)` = the push offset plus `j + 1` -/
theorem slot_old (j idx : Nat) (hj : j < 8) :
    (wsub j idx) % 8 = ((U64 - 1 - idx % U64) % 8 + (j + 1)) % 8 := by
  have hU : U64 = 18446744073709551616 := rfl
  unfold wsub
  rw [hU]
  omega

/-- the bubble loop only permutes entries: a predicate true of every entry of the array stays true -/
theorem pushLoop_all {K : Type} (ops : CostOps K) (P : PosData K → Prop) :
    ∀ (n off : Nat) (q q' : Array (PosData K)), pushLoop ops n off q = some q' →
      (∀ (i : Nat) (pd : PosData K), q[i]? = some pd → P pd) → q'.size = q.size ∧ ∀ (i : Nat) (pd : PosData K), q'[i]? = some pd → P pd := by
  intro n
  induction n with
  | zero =>
    intro off q q' h hp
    rw [pushLoop] at h
    injection h with h; subst h; exact ⟨rfl, hp⟩
  | succ n ih =>
    intro off q q' h hp
    rw [pushLoop] at h
    cases ha : q[off &&& 7]? with
    | none => simp only [ha] at h; cases h
    | some a =>
      cases hb : q[(off + 1) &&& 7]? with
      | none => simp only [ha, hb] at h; cases h
      | some b =>
        simp only [ha, hb] at h
        have hP2 : ∀ (i : Nat) (pd : PosData K), (if ops.lt b.costdiff a.costdiff = true then (q.set! (off &&& 7) b).set! ((off + 1) &&& 7) a else q)[i]?
            = some pd → P pd := by
          intro i pd hi
          split at hi
          · simp only [Array.set!, Array.getElem?_setIfInBounds] at hi
            split at hi
            · split at hi
              · injection hi with hi; subst hi; exact hp _ _ ha
              · cases hi
            · split at hi
              · split at hi
                · injection hi with hi; subst hi; exact hp _ _ hb
                · cases hi
              · exact hp i pd hi
          · exact hp i pd hi
        have hsz : (if ops.lt b.costdiff a.costdiff = true then (q.set! (off &&& 7) b).set! ((off + 1) &&& 7) a else q).size = q.size := by
          split <;> simp
        obtain ⟨e1, e2⟩ := ih (off + 1) _ q' h hP2
        exact ⟨by rw [e1, hsz], e2⟩

end BV.Zopfli
