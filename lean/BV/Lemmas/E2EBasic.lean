/-
Helper lemmas for BV/Props/C01E2E.lean: `WrapPosition` below 2^30, the meta-block bytes read from the ring slice,
the list view of the slice, `InputPairFromMaskedInput` on a slice at least as long as the ring.
-/
import BV.Model.E2E
import BV.Props.C01Chain

namespace BV.E2E
open BV.Hasher BV.MatchFinder BV.Recoder BV.Cbr BV.Bits BV.MetaBlock

theorem wrapPosition_small {p : Nat} (h : p < 2 ^ 30) : wrapPosition p = p := by
  unfold wrapPosition
  have h0 : p >>> 30 = 0 := by rw [Nat.shiftRight_eq_div_pow]; exact Nat.div_eq_of_lt h
  simp only [h0]
  rw [if_neg (by omega)]
  exact Nat.mod_eq_of_lt (by unfold U32; omega)

theorem mbBytes_spec (data : ByteArray) (mask : Nat) :
    ∀ (n pos : Nat) (l : Bytes), mbBytes data mask pos n = .ok l →
      l.length = n ∧ ∀ j, j < n → byteAt data ((pos + j) &&& mask) = some (l.getD j 0) := by
  intro n
  induction n with
  | zero =>
    intro pos l h
    simp only [mbBytes, Out.ok.injEq] at h
    subst h
    exact ⟨rfl, fun j hj => absurd hj (Nat.not_lt_zero _)⟩
  | succ n ih =>
    intro pos l h
    rw [mbBytes] at h
    cases hb : byteAt data (pos &&& mask) with
    | none => rw [hb] at h; cases h
    | some b =>
      rw [hb] at h
      cases hr : mbBytes data mask (pos + 1) n with
      | panic => rw [hr] at h; cases h
      | fuel => rw [hr] at h; cases h
      | ok l' =>
        rw [hr] at h
        simp only [Out.bind, Out.ok.injEq] at h
        subst h
        obtain ⟨hl, hj⟩ := ih (pos + 1) l' hr
        refine ⟨by simp [hl], ?_⟩
        intro j hjn
        cases j with
        | zero => simpa using hb
        | succ j =>
          have := hj j (by omega)
          rw [show pos + 1 + j = pos + (j + 1) by omega] at this
          simpa using this

theorem ringList_getAt {data : ByteArray} {i b : Nat} (h : byteAt data i = some b) : getAt (ringList data) i = .ok b := by
  unfold byteAt at h
  split at h
  · rename_i hi
    simp only [Option.some.injEq] at h
    unfold getAt ringList
    have hi' : i < data.data.size := hi
    have : (List.map (fun x : UInt8 => x.toNat) data.data.toList)[i]? = some b := by
      rw [List.getElem?_map, Array.getElem?_toList, Array.getElem?_eq_getElem hi']
      simp only [Option.map_some, Option.some.injEq]
      rw [← h]
      show data.data[i].toNat = (data.data[i]!).toNat
      rw [getElem!_pos data.data i hi']
    rw [this]
  · cases h

theorem ringList_length (data : ByteArray) : (ringList data).length = data.size := by
  show (List.map (fun x : UInt8 => x.toNat) data.data.toList).length = data.data.size
  rw [List.length_map, Array.length_toList]

theorem inputPairCheck_ok' (ring : Bytes) (start len mask : Nat) (hr : mask + 1 ≤ ring.length)
    (hl : len ≤ mask + 1) : inputPairCheck ring start len mask = .ok () := by
  have hm : start &&& mask ≤ mask := Nat.and_le_right
  have key : inputPairFromMaskedInput ring start len mask ≠ none := by
    unfold inputPairFromMaskedInput
    simp only
    by_cases hwrap : (start &&& mask) + len > mask + 1
    · rw [if_pos hwrap, if_pos ⟨by omega, by omega⟩]; simp
    · rw [if_neg hwrap, if_pos (by omega)]; simp
  unfold inputPairCheck
  cases hx : inputPairFromMaskedInput ring start len mask with
  | none => exact absurd hx key
  | some _ => rfl

end BV.E2E
