import BV.Lemmas.CbrDict
import BV.Model.Zopfli
/-! One command of `BrotliZopfliCreateCommands`: `Command::init` on an ARBITRARY distance code that
denotes the distance (Zopfli picks its short codes from its own table, not through `ComputeDistanceCode`)
and on a copy-length code that may be SMALLER than the copy length (static-dictionary words under
transforms that add bytes) — the RFC decoder step on it, and `cmdOK`. -/
namespace BV.Zopfli
open BV.Hasher BV.MatchFinder BV.Recoder BV.PrefixArith BV.MetaBlock BV.Cbr

/-! ### `copy_len_` packing with a negative delta -/

theorem neg_delta_bits : ∀ e : Fin 65, 1 ≤ e.val →
    ((128 - e.val) ||| (((128 - e.val) &&& 0x40) <<< 1)) % 256 = 256 - e.val := by decide

theorem packCopyLen_neg (lc e : Nat) (hlen : lc + e < 2 ^ 25) (he1 : 1 ≤ e) (he : e ≤ 64) :
    packCopyLen (lc + e) lc = (128 - e) * 2 ^ 25 + (lc + e) := by
  have hd8 : (lc + 256 - (lc + e) % 256) % 256 = 256 - e := by omega
  have hsh : ((256 - e) <<< 25) % 2 ^ 32 = (128 - e) <<< 25 := by
    rw [Nat.shiftLeft_eq, Nat.shiftLeft_eq]; omega
  have hor : (lc + e) ||| ((128 - e) <<< 25) = (128 - e) <<< 25 + (lc + e) := by
    rw [Nat.or_comm]; exact (Nat.shiftLeft_add_eq_or_of_lt (by omega) (128 - e)).symm
  unfold packCopyLen
  simp only [hd8, hsh, hor]
  rw [Nat.shiftLeft_eq]
  exact Nat.mod_eq_of_lt (by omega)

theorem copyLenCode_pack_neg (lc e : Nat) (hlen : lc + e < 2 ^ 25) (he1 : 1 ≤ e) (he : e ≤ 64) :
    copyLenCode (packCopyLen (lc + e) lc) = lc := by
  unfold copyLenCode
  simp only [packCopyLen_neg lc e hlen he1 he]
  have hmod : ((128 - e) * 2 ^ 25 + (lc + e)) >>> 25 = 128 - e := by
    rw [Nat.shiftRight_eq_div_pow]; omega
  have hlow : ((128 - e) * 2 ^ 25 + (lc + e)) &&& 0x01ffffff = lc + e := by
    rw [show (0x01ffffff : Nat) = 2 ^ 25 - 1 by decide, Nat.and_two_pow_sub_one_eq_mod]; omega
  have hm8 := neg_delta_bits ⟨e, by omega⟩ he1
  simp only at hm8
  simp only [hmod, hlow, hm8]
  rw [if_neg (by omega)]
  omega

/-- `copy_len_code()` and `copy_len()` of the field `Command::init` packs, for every delta an `i8`
restricted to 7 bits can carry: `-64 ≤ code - len ≤ 63` -/
theorem pack_fields (len lc : Nat) (hlen : len < 2 ^ 25) (h1 : lc ≤ len + 63) (h2 : len ≤ lc + 64) :
    copyLenCode (packCopyLen len lc) = lc ∧ packCopyLen len lc % 33554432 = len := by
  by_cases hge : len ≤ lc
  · obtain ⟨delta, rfl⟩ : ∃ delta, lc = len + delta := ⟨lc - len, by omega⟩
    exact ⟨copyLenCode_pack len delta hlen (by omega), by rw [packCopyLen_eq len delta hlen (by omega)]; omega⟩
  · obtain ⟨e, rfl⟩ : ∃ e, len = lc + e := ⟨len - lc, by omega⟩
    exact ⟨copyLenCode_pack_neg lc e hlen (by omega) (by omega),
      by rw [packCopyLen_neg lc e hlen (by omega) (by omega)]; omega⟩

/-- the fields `decStep` reads from `Command::init(.., copylen, copylen_code, distance_code)` -/
theorem commandInit_fields' (np nd ins len lc code : Nat) (hp : np ≤ 3) (hnd : nd ≤ 120) (hcode : code < 2 ^ 31)
    (hins : ins < 2 ^ 32) (hlen : len < 2 ^ 25) (h1 : lc ≤ len + 63) (h2 : len ≤ lc + 64) :
    (commandInit np nd ins len lc code).insertLen = ins ∧
    copyLenCode (commandInit np nd ins len lc code).copyLenField = lc ∧
    (commandInit np nd ins len lc code).distPrefix % 1024 = (prefixEncodeCopyDistance code nd np).sym ∧
    (commandInit np nd ins len lc code).distExtra = (prefixEncodeCopyDistance code nd np).extra ∧
    copyLen (commandInit np nd ins len lc code) = len := by
  obtain ⟨f1, _, f3, f4⟩ := commandInit_fields np nd ins len code hp hnd hcode hins hlen 0 (by omega)
  obtain ⟨g1, g2⟩ := pack_fields len lc hlen h1 h2
  exact ⟨f1, g1, f3, f4, g2⟩

/-- `cmdOK` of a command built by `Command::init` (no postfix bits / direct codes) for any
copy-length code within the 7-bit delta of the copy length -/
theorem cmdOK_commandInit' (large : Bool) (ins len lc code : Nat) (hins : ins ≤ 2 ^ 24)
    (hlen : len < 2 ^ 25) (h1 : lc ≤ len + 63) (h2 : len ≤ lc + 64) (hc2 : 2 ≤ lc) (hcu : lc < 2 ^ 24 + 2118)
    (hcode : code < 2 ^ 31) (hstd : large = false → code < 2 ^ 26 + 12) :
    cmdOK (distAlphabetSize large 0 0) 0 0 (commandInit 0 0 ins len lc code) = true := by
  obtain ⟨f1, f2, f3, f4, _⟩ := commandInit_fields' 0 0 ins len lc code (by omega) (by omega) hcode (by omega) hlen h1 h2
  have p24 : (2 : Nat) ^ 24 = 16777216 := by decide
  have hnb := BV.Props.C18.dist_nbits_le 0 0 code hcode (by omega)
  have hpk : (commandInit 0 0 ins len lc code).distPrefix
      = (prefixEncodeCopyDistance code 0 0).nbits * 1024 + (prefixEncodeCopyDistance code 0 0).sym ∧
      (prefixEncodeCopyDistance code 0 0).sym < 1024 := by
    have hs : (prefixEncodeCopyDistance code 0 0).sym < 1024 := by rw [← f3]; exact Nat.mod_lt _ (by decide)
    refine ⟨?_, hs⟩
    simp only [commandInit, DistCode.packed]
    rw [BV.Lemmas.PrefixArith.or_eq_add_of_lt _ _ hs]
    exact Nat.mod_eq_of_lt (by omega)
  obtain ⟨hpk1, hsym⟩ := hpk
  have hdiv : (commandInit 0 0 ins len lc code).distPrefix / 1024 = (prefixEncodeCopyDistance code 0 0).nbits := by
    rw [hpk1]; omega
  have hand : (prefixEncodeCopyDistance code 0 0).packed &&& 0x3ff = (prefixEncodeCopyDistance code 0 0).sym := by
    rw [show (0x3ff : Nat) = 2 ^ 10 - 1 by decide, Nat.and_two_pow_sub_one_eq_mod]
    have := f3; simp only [commandInit] at this; exact this
  obtain ⟨i1, _, _⟩ := BV.Props.C18.ins_code_exact ins (by omega)
  obtain ⟨c1, _, _⟩ := BV.Props.C18.copy_code_exact lc hc2 (by omega)
  unfold cmdOK
  simp only [f1, f2, f3, f4, hdiv, Bool.and_eq_true, decide_eq_true_eq, Bool.or_eq_true]
  refine ⟨⟨⟨⟨⟨⟨⟨?_, by omega⟩, hc2⟩, by omega⟩, ?_⟩, ?_⟩, ?_⟩, ?_⟩
  · simp only [commandInit, hand]
  · by_cases hz : (prefixEncodeCopyDistance code 0 0).sym = 0
    · right; simp [hz]
    · left
      have hb : ((prefixEncodeCopyDistance code 0 0).packed &&& 0x3ff == 0) = false := by
        rw [hand]; simp [hz]
      simp only [commandInit, hb, getLengthCode]
      exact combine_ge_128 ⟨_, i1⟩ ⟨_, c1⟩
  · by_cases hdir : code < 16 + 0
    · rw [(BV.Props.C18.dist_direct_exact 0 0 code hdir).1]
      simp only [distAlphabetSize]; split <;> omega
    · cases large with
      | true =>
        have := BV.Props.C18.dist_symbol_lt_alphabet 0 0 code (by omega) 30 hnb
        simp only [distAlphabetSize, if_true]; omega
      | false =>
        have h24 := nbits_le_24 code (hstd rfl)
        have := BV.Props.C18.dist_symbol_lt_alphabet 0 0 code (by omega) 24 h24
        simp only [distAlphabetSize]; simp; omega
  · rw [hpk1]; omega
  · right
    by_cases hdir : code < 16 + 0
    · have e := (BV.Props.C18.dist_direct_exact 0 0 code hdir).1
      rw [e]
      simp only []
      rw [if_pos (by omega)]
      simp
    · obtain ⟨e1, e2, e3, e4, e5⟩ := BV.Props.C18.dist_encode_exact 0 0 code (by omega)
      rw [if_neg (by omega)]
      simp only [Bool.and_eq_true, decide_eq_true_eq]
      exact ⟨⟨e1, e3⟩, by omega⟩

/-! ### the decoder step -/

/-- **a copy command with ANY distance code that denotes the distance replays to the matched bytes**
(`decStep_emitCommand` without `ComputeDistanceCode`): `hrfc` says that under the RFC 7932 rules the
code's symbol and extra bits denote `dist` relative to the decoder's ring of last distances -/
theorem decStep_copy (w : WordOracle) (np nd window : Nat) (hp : np ≤ 3) (hnd : nd ≤ 120)
    (mb : Bytes) (s : DecSt) (ins len dist code : Nat) (upd : Bool)
    (hins : ins < 2 ^ 32) (hroom : s.cursor + ins < mb.length) (hfit : s.cursor + ins + len ≤ mb.length)
    (hlen : len < 2 ^ 25) (hcode : code < 2 ^ 31)
    (hd1 : 1 ≤ dist) (hdw : dist ≤ min (s.out.length + ins) window)
    (hrfc : rfcDistance np nd s.ring (prefixEncodeCopyDistance code nd np).sym
      (prefixEncodeCopyDistance code nd np).extra = some ((dist : Int), upd))
    (hmatch : ∀ k, k < len →
      (s.out ++ (mb.drop s.cursor).take (ins + len)).getD (s.out.length + ins + k) 0 =
      (s.out ++ (mb.drop s.cursor).take (ins + len)).getD (s.out.length + ins - dist + k) 0) :
    decStep w np nd window mb s (commandInit np nd ins len len code)
      = some ⟨s.out ++ (mb.drop s.cursor).take (ins + len),
          if upd then (dist : Int) :: s.ring.take 3 else s.ring, s.cursor + ins + len⟩ := by
  obtain ⟨f1, f2, f3, f4, _⟩ := commandInit_fields' np nd ins len len code hp hnd hcode hins hlen (by omega) (by omega)
  have htake : ((mb.drop s.cursor).take ins).length = ins := by
    rw [List.length_take, List.length_drop]; omega
  have hsplit : (mb.drop s.cursor).take (ins + len)
      = (mb.drop s.cursor).take ins ++ (mb.drop (s.cursor + ins)).take len := by
    rw [List.take_add, List.drop_drop]
  have hX : ((mb.drop (s.cursor + ins)).take len).length = len := by
    rw [List.length_take, List.length_drop]; omega
  have hcopy : copyBytes len dist (s.out ++ (mb.drop s.cursor).take ins)
      = s.out ++ (mb.drop s.cursor).take (ins + len) := by
    rw [hsplit, ← List.append_assoc]
    apply copyBytes_of_match len dist _ _ hX hd1
    · rw [List.length_append, htake]; exact Nat.le_trans hdw (Nat.min_le_left _ _)
    · intro k hk
      have := hmatch k hk
      rw [hsplit, ← List.append_assoc] at this
      rw [List.length_append, htake]
      exact this
  unfold decStep
  simp only [f1, f2, f3, f4, hrfc]
  have hrem : ¬ (mb.length - s.cursor = 0) := by omega
  have hinsle : ¬ (ins > mb.length - s.cursor) := by omega
  have hcur : ¬ (s.cursor + ins = mb.length) := by omega
  rw [if_neg hrem, if_neg hinsle, if_neg hcur]
  have hpos : ¬ ((dist : Int) ≤ 0) := by omega
  rw [if_neg hpos]
  simp only [Int.toNat_natCast, List.length_append, htake]
  have hfit' : ¬ (s.cursor + ins + len > mb.length) := by omega
  rw [if_pos hdw, if_neg hfit']
  simp only [hcopy]

/-- **a static-dictionary reference (distance beyond the window, long distance code) replays to the
word the decoder's oracle expands** — for any transform, i.e. also when the expansion is longer than
the word (`len > lc`) -/
theorem decStep_dict (w : WordOracle) (window : Nat) (mb : Bytes) (s : DecSt) (ins len lc dist : Nat)
    (c0 c1 c2 c3 : Int) (hring : s.ring = [c0, c1, c2, c3]) (hc : CacheI32 [c0, c1, c2, c3])
    (hins : ins < 2 ^ 32) (hroom : s.cursor + ins < mb.length) (hfit : s.cursor + ins + len ≤ mb.length)
    (hlen : len < 2 ^ 25) (hl1 : lc ≤ len + 63) (hl2 : len ≤ lc + 64) (h4 : 4 ≤ lc) (h24 : lc ≤ 24)
    (hgt : dist > min (s.out.length + ins) window) (hd31 : dist + 15 < 2 ^ 31)
    (hw : w lc ((dist - min (s.out.length + ins) window - 1) % 2 ^ dictSizeBits.getD lc 0)
        ((dist - min (s.out.length + ins) window - 1) / 2 ^ dictSizeBits.getD lc 0)
      = some ((mb.drop (s.cursor + ins)).take len)) :
    decStep w 0 0 window mb s (commandInit 0 0 ins len lc (dist + 15))
      = some ⟨s.out ++ (mb.drop s.cursor).take (ins + len), s.ring, s.cursor + ins + len⟩ := by
  obtain ⟨f1, f2, f3, f4, _⟩ := commandInit_fields' 0 0 ins len lc (dist + 15) (by omega) (by omega) (by omega) hins hlen hl1 hl2
  obtain ⟨code, _, _, hcd, hrfc⟩ := computeDistanceCode_sound 0 0 dist 0 c0 c1 c2 c3 [] (by omega) (by omega) hc
  have hcode : code = dist + 15 := hcd (by omega)
  subst hcode
  have htake : ((mb.drop s.cursor).take ins).length = ins := by
    rw [List.length_take, List.length_drop]; omega
  have hwl : ((mb.drop (s.cursor + ins)).take len).length = len := by
    rw [List.length_take, List.length_drop]; omega
  unfold decStep
  simp only [f1, f2, f3, f4, hring, hrfc]
  have hrem : ¬ (mb.length - s.cursor = 0) := by omega
  have hinsle : ¬ (ins > mb.length - s.cursor) := by omega
  have hcur : ¬ (s.cursor + ins = mb.length) := by omega
  rw [if_neg hrem, if_neg hinsle, if_neg hcur]
  have hposn : ¬ ((dist : Int) ≤ 0) := by omega
  rw [if_neg hposn]
  simp only [Int.toNat_natCast, List.length_append, htake]
  rw [if_neg (by omega), if_neg (by omega), hw]
  simp only [hwl]
  rw [if_neg (by omega)]
  congr 2
  rw [List.append_assoc, List.take_add, List.drop_drop]

/-- every RFC short code except 0 updates the ring; code 0 ("last distance") does not -/
theorem rfcDistance_flag (np nd : Nat) (ring : List Int) (sym extra : Nat) (d : Int) (u : Bool)
    (h : rfcDistance np nd ring sym extra = some (d, u)) : u = decide (sym ≠ 0) := by
  unfold rfcDistance at h
  split at h <;>
    first
    | (simp only [Option.map_eq_some_iff, Prod.mk.injEq] at h; obtain ⟨_, _, _, rfl⟩ := h; rfl)
    | (simp only [Option.some.injEq, Prod.mk.injEq] at h
       obtain ⟨_, rfl⟩ := h
       have : sym ≠ 0 := by intro e; subst e; simp_all
       simp [this])

end BV.Zopfli
