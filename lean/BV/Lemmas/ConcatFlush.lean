/-
The state invariant of the concatenator and the specifications of
`flush_previous_stream`, `append_eof_metablock_to_last_bytes`, `finish`.
-/
import BV.Lemmas.ConcatBasic

namespace BV.Concat
open Outcome BV.Gen

/-- field ranges that hold in every state reachable through the public API -/
structure Inv (s : State) : Prop where
  len_le : s.last_bytes_len ≤ 2
  off_lt : s.last_byte_bit_offset < 8
  /-- before the first header is accepted nothing is buffered -/
  ws0 : s.window_size = 0 → s.last_bytes_len = 0 ∧ s.last_byte_bit_offset = 0
  /-- a stripped tail waits for the next member's header and occupies one byte -/
  san : s.last_byte_sanitized = true → s.new_stream_pending.isSome = true ∧ s.last_bytes_len ≤ 1
  /-- a stripped tail holds exactly `last_byte_bit_offset` data bits in `last_bytes[0]`; the second
  slot is clean -/
  tail : s.last_byte_sanitized = true → s.last_bytes_len ≠ 0 →
    s.last_bytes.2 = 0 ∧ s.last_bytes.1 < 2 ^ s.last_byte_bit_offset
  pend : ∀ d, s.new_stream_pending = some d → d.num_bytes_read ≤ 5 ∧
    ∀ w, d.num_bytes_written = some w → w < d.num_bytes_read ∧ s.window_size ≠ 0

/-- the caller announced a member (`new_brotli_file`) before streaming into a fresh instance -/
def Started (s : State) : Prop := s.window_size = 0 → s.new_stream_pending.isSome = true

theorem findHighLoop_sat (lb max : Nat) (hmax : max ≤ 16) :
    ∀ fuel i idx0, i + fuel = max → idx0 < max →
      (findHighLoop lb max fuel i idx0).sat (fun index => index < max) := by
  intro fuel
  induction fuel with
  | zero => intro i idx0 h h0; simpa [findHighLoop] using h0
  | succ f ih =>
    intro i idx0 h h0
    unfold findHighLoop
    refine sat_ite (fun _ => by omega) (fun _ => ?_)
    refine sat_ite (fun _ => by omega) (fun _ => ?_)
    dsimp only
    refine sat_ite (fun _ => by omega) (fun _ => ?_)
    refine sat_ite (fun _ => by simp; omega) (fun _ => ?_)
    exact ih (i+1) _ (by omega) (by omega)

/-- what `flush_previous_stream` guarantees -/
structure FlushPost (s : State) (out : List Nat) (cap : Nat) (r : State × List Nat × Nat) : Prop where
  code : r.2.2 = SUCCESS ∨ r.2.2 = NEEDS_MORE_OUTPUT ∨ r.2.2 = NOT_CRAFTED_FOR_APPEND
  unchanged : r.2.2 ≠ SUCCESS → r.1 = s ∧ r.2.1 = out
  full : r.2.2 = NEEDS_MORE_OUTPUT → cap ≤ out.length
  pending : r.1.new_stream_pending = s.new_stream_pending
  ws : r.1.window_size = s.window_size
  len_le : r.1.last_bytes_len ≤ s.last_bytes_len
  len1 : r.2.2 = SUCCESS → r.1.last_bytes_len ≤ 1
  off_lt : r.1.last_byte_bit_offset < 8
  len0 : s.last_bytes_len = 0 → r.1.last_byte_bit_offset = s.last_byte_bit_offset
  out_le : r.2.1.length ≤ cap
  out_ge : out.length ≤ r.2.1.length
  sanit : r.2.2 = SUCCESS → r.1.last_byte_sanitized = true

theorem flushFin_sat (s0 s : State) (out0 out : List Nat) (cap index : Nat) (hi : index < 8)
    (h1 : s.new_stream_pending = s0.new_stream_pending) (h2 : s.window_size = s0.window_size)
    (h3 : s.last_bytes_len ≤ s0.last_bytes_len) (h3' : s.last_bytes_len ≤ 2)
    (h3'' : s.last_bytes_len = 2 → s0.last_bytes_len = 2) (h4 : out.length ≤ cap)
    (h5 : out0.length ≤ out.length) (h6 : s0.last_bytes_len ≠ 0) :
    (flushFin s out index).sat (FlushPost s0 out0 cap) := by
  unfold flushFin
  dsimp only
  refine sat_ite (fun _ => by omega) (fun _ => ?_)
  simp only [sat_ok]
  by_cases hc : s.last_bytes_len = 2 ∧ index < 8
  · simp only [hc, and_self, if_true]
    constructor <;> simp [SUCCESS, *] <;> omega
  · simp only [hc, if_false]
    constructor <;> simp [SUCCESS, *] <;> omega

theorem flush_sat (s : State) (out : List Nat) (cap : Nat) (hlen : s.last_bytes_len ≤ 2)
    (hoff : s.last_byte_bit_offset < 8) (hsan : s.last_byte_sanitized = true → s.last_bytes_len ≤ 1)
    (hout : out.length ≤ cap) :
    (flushPreviousStream s out cap).sat (FlushPost s out cap) := by
  unfold flushPreviousStream
  refine sat_ite (fun hs => ?_) (fun hs => ?_)
  · refine sat_ite (fun h0 => ?_) (fun h0 => ?_)
    · simp only [sat_ok]
      constructor <;> simp [SUCCESS, *]
    · dsimp only
      refine sat_ite (fun _ => by omega) (fun _ => ?_)
      refine sat_ite (fun _ => by omega) (fun _ => ?_)
      refine sat_bind _ (findHighLoop_sat _ (s.last_bytes_len * 8) (by omega) (s.last_bytes_len * 8) 0
        (s.last_bytes_len * 8 - 1) (by omega) (by omega)) ?_
      intro index hidx
      refine sat_ite (fun _ => ?_) (fun hi0 => ?_)
      · simp only [sat_ok]
        constructor <;> simp [SUCCESS, NOT_CRAFTED_FOR_APPEND, NEEDS_MORE_OUTPUT, *]
      refine sat_ite (fun _ => ?_) (fun _ => ?_)
      · simp only [sat_ok]
        constructor <;> simp [SUCCESS, NOT_CRAFTED_FOR_APPEND, NEEDS_MORE_OUTPUT, *]
      unfold flushStrip
      refine sat_ite (fun hc => ?_) (fun hc => ?_)
      · simp only [sat_ok]
        constructor <;> simp [SUCCESS, NOT_CRAFTED_FOR_APPEND, NEEDS_MORE_OUTPUT, *]
      refine sat_ite (fun _ => by omega) (fun _ => ?_)
      dsimp only
      refine sat_ite (fun h8 => ?_) (fun h8 => ?_)
      · refine sat_ite (fun hroom => ?_) (fun hroom => by omega)
        unfold push
        rw [if_pos (by omega)]
        simp only [bind_ok]
        refine sat_ite (fun _ => by omega) (fun _ => ?_)
        refine flushFin_sat s _ out _ cap _ (by omega) rfl rfl (by simp) (by simp; omega)
          (by simp; omega) (by simp; omega) (by simp) h0
      · refine flushFin_sat s _ out _ cap _ (by omega) rfl rfl (by simp) (by simpa using hlen)
          (by simp) hout (Nat.le_refl _) h0
  · simp only [sat_ok]
    have hs' : s.last_byte_sanitized = true := by simpa using hs
    have := hsan hs'
    constructor <;> simp [SUCCESS, *]

/-! ### `flush_previous_stream` case by case -/

theorem flush_sanitized (s : State) (out : List Nat) (cap : Nat) (h : s.last_byte_sanitized = true) :
    flushPreviousStream s out cap = ok (s, out, SUCCESS) := by
  unfold flushPreviousStream; simp [h]

theorem flushFin_lt8 (s : State) (out : List Nat) (index : Nat) (h : index < 8) :
    flushFin s out index = ok ({ (if s.last_bytes_len = 2 ∧ index < 8 then { s with last_bytes_len := 1 } else s) with
      last_byte_bit_offset := index, last_byte_sanitized := true }, out, SUCCESS) := by
  unfold flushFin
  simp [h]

theorem flushStrip_lt8 (s : State) (out : List Nat) (cap lb index : Nat) (h : index < 8) :
    flushStrip s out cap lb index =
      flushFin { s with last_bytes := ((lb &&& ((1 <<< index) - 1)) % 256, ((lb &&& ((1 <<< index) - 1)) >>> 8) % 256) }
        out index := by
  unfold flushStrip
  have h1 : ¬ (index ≥ 8 ∧ cap ≤ out.length) := fun c => by omega
  have h2 : ¬ index ≥ 16 := by omega
  have h3 : ¬ index ≥ 8 := by omega
  rw [if_neg h1, if_neg h2]
  dsimp only
  rw [if_neg h3]

theorem flushStrip_ge8_nocap (s : State) (lb index : Nat) (h : index ≥ 8) :
    flushStrip s [] 0 lb index = ok (s, [], NEEDS_MORE_OUTPUT) := by
  unfold flushStrip
  simp [h]

theorem flushStrip_ge8_room (s : State) (out : List Nat) (cap lb index : Nat) (h : index ≥ 8) (h16 : index < 16)
    (hroom : out.length < cap) (hl : 1 ≤ s.last_bytes_len) :
    flushStrip s out cap lb index =
      flushFin { s with last_bytes := (((lb &&& ((1 <<< index) - 1)) >>> 8) % 256, 0), any_bytes_emitted := true,
                        last_bytes_len := s.last_bytes_len - 1 }
        (out ++ [(lb &&& ((1 <<< index) - 1)) % 256]) (index - 8) := by
  unfold flushStrip push
  have h1 : ¬ (index ≥ 8 ∧ cap ≤ out.length) := fun c => by omega
  rw [if_neg h1, if_neg (by omega)]
  dsimp only
  rw [if_pos h, if_pos (by omega), if_pos hroom]
  simp only [bind_ok]
  rw [if_neg (by omega)]

/-- the shape of `flush_previous_stream` on an unsanitised, non-empty tail -/
theorem flush_unsanitized (s : State) (out : List Nat) (cap : Nat) (hs : s.last_byte_sanitized = false)
    (h0 : s.last_bytes_len ≠ 0) :
    flushPreviousStream s out cap =
      if s.last_bytes_len * 8 ≥ 256 then Outcome.panic .flushLenMul8 else
      if s.last_bytes_len * 8 < 1 then Outcome.panic .flushMaxSub1 else
      (findHighLoop (s.last_bytes.1 + (s.last_bytes.2 <<< 8)) (s.last_bytes_len * 8) (s.last_bytes_len * 8) 0
        (s.last_bytes_len * 8 - 1)).bind fun index =>
      if index = 0 then ok (s, out, NOT_CRAFTED_FOR_APPEND) else
      if ((s.last_bytes.1 + (s.last_bytes.2 <<< 8)) >>> (index - 1)) ≠ 3 then ok (s, out, NOT_CRAFTED_FOR_APPEND) else
      flushStrip s out cap (s.last_bytes.1 + (s.last_bytes.2 <<< 8)) (index - 1) := by
  unfold flushPreviousStream
  simp only [hs, Bool.false_eq_true, not_false_eq_true, if_true, h0, if_false]

theorem mask_lo (x i : Nat) (hi : i < 8) :
    (x &&& ((1 <<< i) - 1)) % 256 < 2 ^ i ∧ ((x &&& ((1 <<< i) - 1)) >>> 8) % 256 = 0 := by
  rw [Nat.one_shiftLeft, Nat.and_two_pow_sub_one_eq_mod, Nat.shiftRight_eq_div_pow]
  have h1 : x % 2 ^ i < 2 ^ i := Nat.mod_lt _ (Nat.pow_pos (by decide))
  have h2 : 2 ^ i ≤ 2 ^ 7 := Nat.pow_le_pow_right (by decide) (by omega)
  have h3 : x % 2 ^ i / 2 ^ 8 = 0 := Nat.div_eq_of_lt (by omega)
  rw [h3]
  exact ⟨by omega, rfl⟩

theorem mask_hi (x i : Nat) (h8 : 8 ≤ i) (h16 : i < 16) :
    ((x &&& ((1 <<< i) - 1)) >>> 8) % 256 < 2 ^ (i - 8) := by
  rw [Nat.one_shiftLeft, Nat.and_two_pow_sub_one_eq_mod, Nat.shiftRight_eq_div_pow]
  have h1 : x % 2 ^ i < 2 ^ i := Nat.mod_lt _ (Nat.pow_pos (by decide))
  have e : 2 ^ i = 2 ^ 8 * 2 ^ (i - 8) := by rw [← Nat.pow_add]; congr 1; omega
  have h2 : x % 2 ^ i / 2 ^ 8 < 2 ^ (i - 8) := by
    apply Nat.div_lt_of_lt_mul; rw [← e]; exact h1
  have h3 : 2 ^ (i - 8) ≤ 2 ^ 7 := Nat.pow_le_pow_right (by decide) (by omega)
  have : x % 2 ^ i / 2 ^ 8 % 256 = x % 2 ^ i / 2 ^ 8 := Nat.mod_eq_of_lt (by omega)
  rw [this]; exact h2

/-- after a successful strip the kept tail is clean: exactly `last_byte_bit_offset` bits in
`last_bytes[0]`, nothing in `last_bytes[1]` -/
theorem flush_tail (s : State) (out : List Nat) (cap : Nat) (hlen : s.last_bytes_len ≤ 2)
    (hns : s.last_byte_sanitized = false) (r : State × List Nat × Nat)
    (h : flushPreviousStream s out cap = ok r) (hc : r.2.2 = SUCCESS) (hl : r.1.last_bytes_len ≠ 0) :
    r.1.last_bytes.2 = 0 ∧ r.1.last_bytes.1 < 2 ^ r.1.last_byte_bit_offset := by
  by_cases h0 : s.last_bytes_len = 0
  · exfalso
    unfold flushPreviousStream at h
    simp only [hns, Bool.false_eq_true, not_false_eq_true, if_true, h0, Outcome.ok.injEq] at h
    subst h; exact hl rfl
  rw [flush_unsanitized s out cap hns h0, if_neg (by omega), if_neg (by omega)] at h
  obtain ⟨index, hidx, hlt⟩ := sat_iff.mp (findHighLoop_sat (s.last_bytes.1 + (s.last_bytes.2 <<< 8))
    (s.last_bytes_len * 8) (by omega) (s.last_bytes_len * 8) 0 (s.last_bytes_len * 8 - 1) (by omega) (by omega))
  rw [hidx] at h
  simp only [bind_ok] at h
  by_cases hi0 : index = 0
  · rw [if_pos hi0] at h; simp only [Outcome.ok.injEq] at h; subst h; simp at hc
  rw [if_neg hi0] at h
  by_cases h3 : ((s.last_bytes.1 + (s.last_bytes.2 <<< 8)) >>> (index - 1)) ≠ 3
  · rw [if_pos h3] at h; simp only [Outcome.ok.injEq] at h; subst h; simp at hc
  rw [if_neg h3] at h
  by_cases h8 : index - 1 ≥ 8
  · by_cases hroom : out.length < cap
    · rw [flushStrip_ge8_room s out cap _ _ h8 (by omega) hroom (by omega), flushFin_lt8 _ _ _ (by omega)] at h
      simp only [Outcome.ok.injEq] at h
      subst h
      dsimp only
      refine ⟨by split <;> rfl, ?_⟩
      have := mask_hi (s.last_bytes.1 + (s.last_bytes.2 <<< 8)) (index - 1) h8 (by omega)
      split <;> exact this
    · exfalso
      unfold flushStrip at h
      rw [if_pos ⟨h8, by omega⟩] at h
      simp only [Outcome.ok.injEq] at h; subst h; simp at hc
  · rw [flushStrip_lt8 s out cap _ _ (by omega), flushFin_lt8 _ _ _ (by omega)] at h
    simp only [Outcome.ok.injEq] at h
    subst h
    dsimp only
    obtain ⟨m1, m2⟩ := mask_lo (s.last_bytes.1 + (s.last_bytes.2 <<< 8)) (index - 1) (by omega)
    refine ⟨?_, ?_⟩
    · split <;> exact m2
    · split <;> exact m1

theorem flush_inv (s : State) (out : List Nat) (cap : Nat) (hI : Inv s) (hout : out.length ≤ cap)
    (hp : s.new_stream_pending.isSome = true) :
    (flushPreviousStream s out cap).sat (fun r => FlushPost s out cap r ∧ Inv r.1) := by
  obtain ⟨r, hreq, hr⟩ := sat_iff.mp (flush_sat s out cap hI.len_le hI.off_lt (fun h => (hI.san h).2) hout)
  rw [hreq, sat_ok]
  refine ⟨hr, ?_⟩
  by_cases hc : r.2.2 = SUCCESS
  · refine ⟨?_, hr.off_lt, ?_, ?_, ?_, ?_⟩
    · have := hr.len_le; have := hI.len_le; omega
    · intro h; rw [hr.ws] at h
      have h0 := hI.ws0 h
      have h1 := hr.len_le
      have h2 := hr.len0 h0.1
      omega
    · intro _
      rw [hr.pending]
      exact ⟨hp, hr.len1 hc⟩
    · intro _ hl
      cases hs : s.last_byte_sanitized with
      | true =>
        rw [flush_sanitized s out cap hs] at hreq
        simp only [Outcome.ok.injEq] at hreq
        subst hreq
        exact hI.tail hs hl
      | false => exact flush_tail s out cap hI.len_le hs r hreq hc hl
    · intro d hd
      rw [hr.pending] at hd
      rw [hr.ws]
      exact hI.pend d hd
  · obtain ⟨e, _⟩ := hr.unchanged hc
    rw [e]; exact hI

/-! ### finish -/

theorem appendEof_sat (s : State) (hs : s.last_byte_sanitized = true) (hl : s.last_bytes_len = 1)
    (ho : s.last_byte_bit_offset < 8) :
    (appendEofMetablockToLastBytes s).sat (fun r =>
      r.last_byte_sanitized = false ∧ 1 ≤ r.last_bytes_len ∧ r.last_bytes_len ≤ 2 ∧
      r.last_byte_bit_offset < 8 ∧ r.new_stream_pending = s.new_stream_pending ∧
      r.window_size = s.window_size ∧ r.any_bytes_emitted = s.any_bytes_emitted) := by
  unfold appendEofMetablockToLastBytes
  refine sat_ite (fun h => by simp [hs] at h) (fun _ => ?_)
  dsimp only
  refine sat_ite (fun _ => by omega) (fun _ => ?_)
  refine sat_ite (fun _ => by omega) (fun _ => ?_)
  refine sat_ite (fun _ => by omega) (fun _ => ?_)
  refine sat_ite (fun _ => by omega) (fun _ => ?_)
  refine sat_ite (fun _ => by omega) (fun _ => ?_)
  refine sat_ite (fun _ => ?_) (fun _ => ?_)
  · refine sat_ite (fun _ => ?_) (fun _ => ?_)
    · refine sat_ite (fun _ => by omega) (fun _ => ?_)
      show _ ∧ _ ∧ _ ∧ _ ∧ _ ∧ _ ∧ _
      refine ⟨rfl, ?_, ?_, ?_, rfl, rfl, rfl⟩ <;> dsimp only <;> omega
    · show _ ∧ _ ∧ _ ∧ _ ∧ _ ∧ _ ∧ _
      refine ⟨rfl, ?_, ?_, ?_, rfl, rfl, rfl⟩ <;> dsimp only <;> omega
  · show _ ∧ _ ∧ _ ∧ _ ∧ _ ∧ _ ∧ _
    refine ⟨rfl, ?_, ?_, ?_, rfl, rfl, rfl⟩ <;> dsimp only <;> omega

theorem finishLoop_sat (cap : Nat) : ∀ (len : Nat) (s : State) (out : List Nat), out.length ≤ cap →
    (finishLoop cap len s out).sat (fun r =>
      r.1.last_byte_sanitized = s.last_byte_sanitized ∧ r.1.last_byte_bit_offset = s.last_byte_bit_offset ∧
      r.1.window_size = s.window_size ∧ r.1.new_stream_pending = s.new_stream_pending ∧
      r.1.last_bytes_len + r.2.1.length = len + out.length ∧ r.2.1.length ≤ cap ∧
      (r.2.2 = none → r.1.last_bytes_len = 0 ∧ (len ≠ 0 → r.1.any_bytes_emitted = true) ∧
        (len = 0 → r.1.any_bytes_emitted = s.any_bytes_emitted)) ∧
      (∀ c, r.2.2 = some c → c = NEEDS_MORE_OUTPUT ∧ r.2.1.length = cap ∧ r.1.last_bytes_len ≠ 0)) := by
  intro len
  induction len with
  | zero => intro s out h; simp [finishLoop, h]
  | succ n ih =>
    intro s out h
    unfold finishLoop
    refine sat_ite (fun hc => ?_) (fun hc => ?_)
    · simp [hc]
    · unfold push
      rw [if_pos (by omega)]
      simp only [bind_ok]
      refine sat_mono (ih _ (out ++ [s.last_bytes.1]) (by simp; omega)) ?_
      intro r hr
      simp only [List.length_append, List.length_cons, List.length_nil] at hr
      obtain ⟨h1, h2, h3, h4, h5, h6, h7, h8⟩ := hr
      refine ⟨h1, h2, h3, h4, by omega, h6, ?_, h8⟩
      intro hn
      obtain ⟨a, b, c⟩ := h7 hn
      refine ⟨a, fun _ => ?_, fun h => by omega⟩
      by_cases hz : n = 0
      · rw [c hz]
      · exact b hz

/-- what `finish` guarantees -/
structure FinishPost (s : State) (cap : Nat) (r : Ret) : Prop where
  inv : Inv r.st
  ws : r.st.window_size = s.window_size
  pending : r.st.new_stream_pending = s.new_stream_pending
  consumed : r.consumed = 0
  bound : r.produced.length ≤ cap
  code : r.code = SUCCESS ∨ (r.code = NEEDS_MORE_OUTPUT ∧ r.produced.length = cap)
  total : r.st.last_bytes_len + r.produced.length ≤ 2
  nmo : r.code = NEEDS_MORE_OUTPUT → r.st.last_bytes_len ≠ 0 ∨ cap = 0
  done : r.code = SUCCESS → r.st.last_bytes_len = 0 ∧ r.st.any_bytes_emitted = true

theorem finish_sat (s : State) (cap : Nat) (hI : Inv s) : (finish s cap).sat (FinishPost s cap) := by
  unfold finish
  -- first the optional end-marker append
  have h1 : (if s.last_byte_sanitized = true ∧ s.last_bytes_len ≠ 0 then appendEofMetablockToLastBytes s
      else ok s).sat (fun s1 => s1.last_bytes_len ≤ 2 ∧ s1.last_byte_bit_offset < 8 ∧
        s1.new_stream_pending = s.new_stream_pending ∧ s1.window_size = s.window_size ∧
        (s1.last_byte_sanitized = true → s.last_byte_sanitized = true ∧ s1.last_bytes_len = 0) ∧
        (s.window_size = 0 → s1.last_bytes_len = 0 ∧ s1.last_byte_bit_offset = 0)) := by
    refine sat_ite (fun hc => ?_) (fun hc => ?_)
    · have hl : s.last_bytes_len = 1 := by have := (hI.san hc.1).2; omega
      refine sat_mono (appendEof_sat s hc.1 hl hI.off_lt) ?_
      intro r ⟨a, b, c, d, e, f, _⟩
      refine ⟨c, d, e, f, fun h => by simp [a] at h, fun h => ?_⟩
      have := (hI.ws0 h).1; omega
    · show _ ∧ _ ∧ _ ∧ _ ∧ _ ∧ _
      refine ⟨hI.len_le, hI.off_lt, rfl, rfl, fun h => ⟨h, ?_⟩, hI.ws0⟩
      by_cases h0 : s.last_bytes_len = 0
      · exact h0
      · exact absurd ⟨h, h0⟩ hc
  refine sat_bind _ h1 ?_
  intro s1 ⟨a1, a2, a3, a4, a5, a6⟩
  refine sat_bind _ (finishLoop_sat cap s1.last_bytes_len s1 [] (by simp)) ?_
  intro r ⟨b1, b2, b3, b4, b5, b6, b7, b8⟩
  simp only [List.length_nil, Nat.add_zero] at b5
  have hinv : ∀ (st : State), st.last_bytes_len = r.1.last_bytes_len →
      st.last_byte_bit_offset = r.1.last_byte_bit_offset → st.window_size = r.1.window_size →
      st.new_stream_pending = r.1.new_stream_pending → st.last_byte_sanitized = r.1.last_byte_sanitized →
      Inv st := by
    intro st e1 e2 e3 e4 e5
    refine ⟨by omega, by omega, ?_, ?_, ?_, ?_⟩
    · intro h
      have := a6 (by omega)
      omega
    · intro h
      rw [e5, b1] at h
      obtain ⟨hs, hz⟩ := a5 h
      rw [e4, b4, a3, e1]
      exact ⟨(hI.san hs).1, by omega⟩
    · intro h hl
      rw [e5, b1] at h
      obtain ⟨hs, hz⟩ := a5 h
      omega
    · intro d hd
      rw [e4, b4, a3] at hd
      rw [e3, b3, a4]
      exact hI.pend d hd
  obtain ⟨r1, r2, r3⟩ := r
  dsimp only at *
  cases r3 with
  | some c =>
    obtain ⟨hc1, hc2, hc3⟩ := b8 c rfl
    dsimp only
    rw [sat_ok]
    exact ⟨hinv _ rfl rfl rfl rfl rfl, by rw [b3, a4], by rw [b4, a3], rfl, b6, Or.inr ⟨hc1, hc2⟩, by show r1.last_bytes_len + r2.length ≤ 2; omega,
      fun _ => Or.inl hc3, fun h => by simp [hc1] at h⟩
  | none =>
    obtain ⟨n1, n2, n3⟩ := b7 rfl
    dsimp only
    refine sat_ite (fun he => ?_) (fun he => ?_)
    · have hlen0 : s1.last_bytes_len = 0 := by
        by_cases hz : s1.last_bytes_len = 0
        · exact hz
        · have := n2 hz; simp [this] at he
      refine sat_ite (fun hfull => ?_) (fun hfull => ?_)
      · rw [sat_ok]
        exact ⟨hinv _ rfl rfl rfl rfl rfl, by rw [b3, a4], by rw [b4, a3], rfl, b6,
          Or.inr ⟨rfl, hfull.symm⟩, by show r1.last_bytes_len + r2.length ≤ 2; omega,
          fun _ => Or.inr (by omega), fun h => by simp at h⟩
      · unfold push
        rw [if_pos (by omega)]
        simp only [bind_ok]
        rw [sat_ok]
        refine ⟨hinv _ rfl rfl rfl rfl rfl, by simp [b3, a4], by simp [b4, a3], rfl, ?_, Or.inl rfl, ?_,
          fun h => by simp at h, fun _ => ⟨n1, rfl⟩⟩
        · simp; omega
        · simp; omega
    · rw [sat_ok]
      refine ⟨hinv _ rfl rfl rfl rfl rfl, by rw [b3, a4], by rw [b4, a3], rfl, b6, Or.inl rfl, by show r1.last_bytes_len + r2.length ≤ 2; omega,
        fun h => by simp at h, fun _ => ⟨n1, by simpa using he⟩⟩

end BV.Concat
