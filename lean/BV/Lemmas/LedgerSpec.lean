import BV.Lemmas.LedgerEntry
/-!
What a clean, balanced judgement means in terms of plain event counts — the reading of property C09
that does not mention the judge's state: every block that was handed out was handed out once, freed
once, and that one free went through the allocator that produced it.
-/
namespace BV.Ledger

def isFreeOf (b : BlockId) : Ev → Bool
  | .free _ x => x == b
  | _ => false

/-- number of times `b` was handed out -/
def nAlloc (log : List Ev) (b : BlockId) : Nat := log.count (Ev.alloc b)
/-- number of `free` calls naming `b`, through any allocator -/
def nFree (log : List Ev) (b : BlockId) : Nat := log.countP (isFreeOf b)
/-- number of `free` calls naming `b` through the allocator that produced it -/
def nFreeOwn (log : List Ev) (b : BlockId) : Nat := log.count (Ev.free b.alloc b)

structure Counts (j : Judge) (pre : List Ev) : Prop where
  sub : ∀ b ∈ j.live, b ∈ j.seen
  nodup : j.live.Nodup
  alloc : ∀ b, nAlloc pre b = if b ∈ j.seen then 1 else 0
  free : ∀ b, nFree pre b = if b ∈ j.seen ∧ b ∉ j.live then 1 else 0
  own : ∀ b, nFreeOwn pre b = nFree pre b

theorem counts_step (j : Judge) (pre : List Ev) (ev : Ev) (h : Counts j pre) (hbad : (j.step ev).bad = 0)
    (hb0 : j.bad = 0) : Counts (j.step ev) (pre ++ [ev]) := by
  have hsub' := step_live_sub_seen j ev h.sub
  have hnd' := step_nodup j ev h.sub h.nodup
  cases ev with
  | alloc x =>
    have hx : x ∉ j.seen := by
      intro hx
      simp [Judge.step, hx, Judge.bad] at hbad
    have hxl : x ∉ j.live := fun hl => hx (h.sub x hl)
    refine ⟨hsub', hnd', ?_, ?_, ?_⟩
    · intro b
      simp only [nAlloc, List.count_append, Judge.step, hx, if_false, List.mem_cons]
      have := h.alloc b
      simp only [nAlloc] at this
      rw [this]
      by_cases hbx : b = x
      · subst hbx; simp [hx]
      · have : ¬ (Ev.alloc x = Ev.alloc b) := by intro e; injection e with e; exact hbx e.symm
        simp [hbx, List.count_cons, this]
    · intro b
      simp only [nFree, List.countP_append, Judge.step, hx, if_false, List.mem_cons]
      have := h.free b
      simp only [nFree] at this
      rw [this]
      by_cases hbx : b = x
      · subst hbx; simp [hx, isFreeOf]
      · simp [hbx, isFreeOf]
    · intro b
      have h1 := h.own b
      simp only [nFreeOwn, nFree, List.count_append, List.countP_append] at h1 ⊢
      rw [h1]
      simp [isFreeOf]
  | free via x =>
    have hxl : x ∈ j.live := by
      apply Classical.byContradiction
      intro hxl
      simp only [Judge.step, hxl, if_false] at hbad
      simp [Judge.bad] at hb0
      split at hbad <;> simp [Judge.bad] at hbad <;> omega
    have hvia : via = x.alloc := by
      apply Classical.byContradiction
      intro hv
      simp [Judge.step, hxl, hv, Judge.bad] at hbad
    subst hvia
    have hstep : j.step (Ev.free x.alloc x) = { j with live := j.live.erase x, frees := j.frees + 1 } := by
      simp [Judge.step, hxl]
    have hxs : x ∈ j.seen := h.sub x hxl
    have hxe : x ∉ j.live.erase x := fun hm => ((List.Nodup.mem_erase_iff h.nodup).mp hm).1 rfl
    refine ⟨hsub', hnd', ?_, ?_, ?_⟩
    · intro b
      rw [hstep]
      simp only [nAlloc, List.count_append]
      have := h.alloc b
      simp only [nAlloc] at this
      rw [this]
      simp
    · intro b
      rw [hstep]
      simp only [nFree, List.countP_append]
      have := h.free b
      simp only [nFree] at this
      rw [this]
      by_cases hbx : b = x
      · subst hbx
        simp [hxs, hxl, hxe, isFreeOf]
      · have hme : b ∈ j.live.erase x ↔ b ∈ j.live := List.mem_erase_of_ne hbx
        have : (x == b) = false := by simp; exact fun e => hbx e.symm
        simp [hme, isFreeOf, this]
    · intro b
      have h1 := h.own b
      simp only [nFreeOwn, nFree, List.count_append, List.countP_append] at h1 ⊢
      rw [h1]
      by_cases hbx : b = x
      · subst hbx; simp [isFreeOf]
      · have h2 : (x == b) = false := by simp; exact fun e => hbx e.symm
        have h3 : ¬ (Ev.free x.alloc x = Ev.free b.alloc b) := by
          intro e; injection e with _ e2; exact hbx e2.symm
        simp [isFreeOf, h2, List.count_cons, h3]
  | drop x =>
    refine ⟨hsub', hnd', ?_, ?_, ?_⟩
    · intro b
      have h1 := h.alloc b
      have h2 : nAlloc (pre ++ [Ev.drop x]) b = nAlloc pre b := by simp [nAlloc, List.count_append]
      rw [h2, h1]
      rfl
    · intro b
      have h1 := h.free b
      have h2 : nFree (pre ++ [Ev.drop x]) b = nFree pre b := by simp [nFree, List.countP_append, isFreeOf]
      rw [h2, h1]
      rfl
    · intro b
      have h1 := h.own b
      simp only [nFreeOwn, nFree, List.count_append, List.countP_append] at h1 ⊢
      simp [h1, isFreeOf]

theorem counts_foldl (evs : List Ev) : ∀ (j : Judge) (pre : List Ev), Counts j pre →
    (evs.foldl Judge.step j).bad = 0 → Counts (evs.foldl Judge.step j) (pre ++ evs) := by
  induction evs with
  | nil => intro j pre h _; simpa using h
  | cons e es ih =>
    intro j pre h hbad
    simp only [List.foldl_cons] at hbad ⊢
    have hmono := foldl_bad_mono es (j.step e)
    have h1 : (j.step e).bad = 0 := by omega
    have h0 : j.bad = 0 := by have := step_bad_mono j e; omega
    have := ih (j.step e) (pre ++ [e]) (counts_step j pre e h h1 h0) hbad
    simpa using this

theorem counts_judge (log : List Ev) (h : (judge log).bad = 0) : Counts (judge log) log := by
  have := counts_foldl log {} [] ⟨by simp, by simp, by simp [nAlloc], by simp [nFree], by simp [nFreeOwn, nFree]⟩ h
  simpa [judge] using this

end BV.Ledger
