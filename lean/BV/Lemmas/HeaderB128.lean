/-
`encode_base_128` against the specification reader `decodeBase128` (C15
`base128_roundtrip`): for every `u64` value the encoder emits 1‥10 bytes, each
`< 256`, that decode to the value, whatever follows.
-/
import BV.Model.Header
import BV.Lemmas.HeaderSpec
namespace BV.Header
open BV.Bits BV.HeaderSpec
theorem or128 (x : Nat) (h : x < 128) : x ||| 128 = x + 128 := by
  have : ∀ y : Fin 128, y.val ||| 128 = y.val + 128 := by decide
  exact this ⟨x, h⟩

theorem b128_step (v : Nat) :
    (v &&& lit litsB128 2) = v % 128 ∧ (v >>> lit litsB128 3) = v / 128 ∧ lit litsB128 4 = 0 ∧ lit litsB128 5 = 128 := by
  refine ⟨?_, ?_, rfl, rfl⟩
  · show v &&& 127 = v % 128
    exact Nat.and_two_pow_sub_one_eq_mod v 7
  · show v >>> 7 = v / 128
    exact Nat.shiftRight_eq_div_pow v 7

theorem loop_spec : ∀ (k v : Nat) (acc : List Nat) (rest : List Nat), 0 < k → v < 128 ^ k →
    ∃ enc, encodeBase128Loop k v acc = acc ++ enc ∧ decodeBase128 (enc ++ rest) = some (v, rest) ∧
      1 ≤ enc.length ∧ enc.length ≤ k ∧ ∀ b ∈ enc, b < 256 := by
  intro k
  induction k with
  | zero => intro v acc rest h; omega
  | succ k ih =>
    intro v acc rest _ hv
    obtain ⟨e1, e2, e3, e4⟩ := b128_step v
    unfold encodeBase128Loop
    simp only [e1, e2, e3, e4]
    by_cases hz : v / 128 = 0
    · simp only [hz, ne_eq, not_true_eq_false, ↓reduceIte]
      refine ⟨[v % 128], rfl, ?_, by simp, by simp, ?_⟩
      · have : v < 128 := by omega
        simp [decodeBase128, Nat.mod_eq_of_lt this, this]
      · intro b hb; simp at hb; omega
    · simp only [hz, ne_eq, not_false_eq_true, ↓reduceIte]
      have hk : 0 < k := by
        rcases Nat.eq_zero_or_pos k with h | h
        · subst h; simp at hv; omega
        · exact h
      have hv' : v / 128 < 128 ^ k := by
        rw [Nat.div_lt_iff_lt_mul (by decide)]; rw [Nat.pow_succ] at hv; exact hv
      obtain ⟨enc, h1, h2, h3, h4, h5⟩ := ih (v / 128) (acc ++ [v % 128 ||| 128]) rest hk hv'
      have hor := or128 (v % 128) (Nat.mod_lt _ (by decide))
      refine ⟨(v % 128 + 128) :: enc, ?_, ?_, by simp, by simp; omega, ?_⟩
      · rw [h1, hor]; simp
      · simp only [List.cons_append, decodeBase128]
        have : ¬ (v % 128 + 128 < 128) := by omega
        simp only [this, ↓reduceIte, h2]
        congr 2
        omega
      · intro b hb
        simp at hb
        rcases hb with rfl | hb
        · have := Nat.mod_lt v (show 128 > 0 by decide); omega
        · exact h5 b hb

theorem encodeBase128_spec (v : Nat) (hv : v < 2 ^ 64) (rest : List Nat) :
    decodeBase128 (encodeBase128 v ++ rest) = some (v, rest) ∧
    1 ≤ (encodeBase128 v).length ∧ (encodeBase128 v).length ≤ 10 ∧ ∀ b ∈ encodeBase128 v, b < 256 := by
  have h := loop_spec 10 v [] rest (by decide) (by omega)
  obtain ⟨enc, h1, h2, h3, h4, h5⟩ := h
  have : encodeBase128 v = enc := by
    simp only [encodeBase128, Nat.mod_eq_of_lt hv, BV.Gen.MAX_SIZE_ENCODING]
    simpa using h1
  rw [this]
  exact ⟨h2, h3, h4, h5⟩

end BV.Header
