import BV.Lemmas.StreamTotal
import BV.Lemmas.StreamStore
/-
`TinyOK` and the carry bound (`last_bytes_bits_ ≤ 14`) through every atomic step, every call and
`take_output`, with NO hypothesis on the payload encoder (the versions in `StreamTiny2` /
`StreamTerm5` carry `OracleBounded` only because they were proved together with termination).
With `StoreOK` (`StreamStore`, already free of oracle hypotheses) this gives: after ANY call
from a fresh instance the pending bytes lie inside the buffer `next_out_` points into.
-/
namespace BV.Stream
open BV.Bits

/-- what is carried along: `tiny_buf_` discipline and the carry bound -/
def TinyL (s : St) : Prop := TinyOK s ∧ s.lastBytesBits ≤ 14

theorem fastEncode_out_fields (s1 : St) (io : Io) (ans : Ans) (req : Req) (bs : Nat) (ip il ff : Bool) :
    (fastEncode s1 io ans req bs ip il ff).1.lastBytesBits < 8
    ∧ (ip = true → (fastEncode s1 io ans req bs ip il ff).1.nextOut = s1.nextOut ∧ (fastEncode s1 io ans req bs ip il ff).1.pending = s1.pending)
    ∧ (ip = false → (fastEncode s1 io ans req bs ip il ff).1.nextOut = .dyn 0) := by
  have hc := (carryOf_lt (bitsOf s1.lastBytesBits s1.lastBytes ++ ans.bits)).2
  cases ip <;> simp [fastEncode, hc]

theorem fastStorage_out (s : St) (ip : Bool) (n : Nat) :
    (fastStorage s ip n).pending = s.pending ∧ (fastStorage s ip n).nextOut = s.nextOut
    ∧ (fastStorage s ip n).streamState = s.streamState := by
  unfold fastStorage
  split
  · exact ⟨rfl, rfl, rfl⟩
  · obtain ⟨g1, _, _, _, g5, g6, _⟩ := growStorage_frame s n
    rw [St.frame_eq_iff] at g1
    exact ⟨g5, g6, g1.2.2.2.1⟩

/-- **every atomic step keeps `TinyOK` and the carry bound** -/
theorem step_tinyL {o : Oracle} {op : Nat} (c : St × Io) (e : Ev) (c1 : St × Io)
    (hQ : TinyL c.1) (hs : Step o op c e c1) : TinyL c1.1 := by
  obtain ⟨hT, hl⟩ := hQ
  cases hs with
  | init hf => exact ⟨tinyOK_fresh hf, ensureInitialized_lbb _ (isFreshInit hf)⟩
  | @copy s s1 io hI hw hop hnf hst hrm hc hn h =>
    obtain ⟨_, _, _, _, c5, _, _, _, c9, _, c11, c12, _⟩ := copy_fields hI.init h
    refine ⟨⟨?_, ?_, ?_⟩, by show s1.lastBytesBits ≤ 14; rw [c11]; exact hl⟩
    · intro off ho
      show off + s1.pending.length ≤ 16 ∧ (s1.pending.length ≠ 0 → s1.lastBytesBits = 0)
      rw [c9, c11]; exact hT.fits off (c12 ▸ ho)
    · intro hn'
      show s1.pending.length = 0
      rw [c9]; exact hT.none (c12 ▸ hn')
    · intro hb
      have : s1.streamState = .processing := c5.trans hst
      rw [this] at hb; cases hb
  | @pad s s1 io hI hc hz h =>
    refine ⟨tinyOK_pad hT hl hc.2 (by rw [hc.1]; simp) h, ?_⟩
    show s1.lastBytesBits ≤ 14
    rw [(pad_frame h).2.2.2.2.1]; omega
  | @push s s1 io io1 hI hc h =>
    refine ⟨tinyOK_push hT hl h, ?_⟩
    show s1.lastBytesBits ≤ 14
    rcases push_shape hc h with rfl | ⟨_, _, h3, _⟩
    · exact hl
    · rw [h3]; exact hl
  | @encSlow s s2 io req hI hop hnf hrm hnc hnp hpend hst hgo h =>
    obtain ⟨_, _, _, _, _, _, _, _, u9, _, _, _, _, u14, _⟩ := updateSizeHint_fields s io.availIn
    have hT1 := tinyOK_hint hT io.availIn
    have hst1 : (updateSizeHint s io.availIn).streamState = .processing := u9.trans hst
    have hT2 := tinyOK_encode hT1 (by rw [hst1]; simp) h
    obtain ⟨f, _⟩ := encodeData_frame h
    rw [St.frame_eq_iff] at f
    have hst2 : s2.streamState = .processing := f.2.2.2.1.trans hst1
    refine ⟨tinyOK_mark hT2 _ _ hst2, ?_⟩
    show (markAfterEncode s2 _ _).lastBytesBits ≤ 14
    rw [(markAfterEncode_fields s2 _ _).2.2.2.2.2.2.2.2.1]
    rcases encodeData_lbb h with h8 | h8
    · omega
    · rw [h8, u14]; exact hl
  | cfc hI hop hrm hnp hfl =>
    exact ⟨tinyOK_cfc hT, by show (checkFlushComplete _).lastBytesBits ≤ 14; rw [(checkFlushComplete_frame _).2.2.2.2.2.2.2.2.2.1]; exact hl⟩
  | @fastFlush s io hI hfm hrm hnp hpend hst hop1 hz =>
    exact ⟨⟨fun off ho => hT.fits off ho, fun hn => hT.none hn, fun hb => by cases hb⟩, hl⟩
  | @fastBlock s io hI hfm hop hrm hnp hpend hst hgo hnf hcap hin hfit =>
    obtain ⟨g5, g6, gst⟩ := fastStorage_out s (fastInplace s io) (fastMaxOut s io)
    obtain ⟨k1, k2, k3⟩ := fastEncode_out_fields (fastS1 s io) io (o s.nEnc (fastReq op s io)) (fastReq op s io) (fastBs s io)
      (fastInplace s io) (fastReq op s io).isLast (fastReq op s io).forceFlush
    have e8 := (fastEncode_fields (fastS1 s io) io (o s.nEnc (fastReq op s io)) (fastReq op s io) (fastBs s io)
      (fastInplace s io) (fastReq op s io).isLast (fastReq op s io).forceFlush).2.2.2.2.2.2.2.1
    have hnb : (fastRes o op s io).1.streamState ≠ .metadataBody := by
      unfold fastRes
      rw [e8]
      have : (fastS1 s io).streamState = .processing := gst.trans hst
      rw [this]
      cases (fastReq op s io).isLast <;> cases (fastReq op s io).forceFlush <;> simp
    have k1' : (fastRes o op s io).1.lastBytesBits < 8 := by unfold fastRes; exact k1
    have k2' : fastInplace s io = true → (fastRes o op s io).1.nextOut = s.nextOut ∧ (fastRes o op s io).1.pending.length = 0 := by
      intro hip
      obtain ⟨n1, n2⟩ := k2 hip
      unfold fastRes
      rw [n1, n2]
      refine ⟨g6, ?_⟩
      show (fastStorage s (fastInplace s io) (fastMaxOut s io)).pending.length = 0
      rw [g5, hpend]; rfl
    have k3' : fastInplace s io = false → (fastRes o op s io).1.nextOut = .dyn 0 := by unfold fastRes; exact k3
    generalize fastRes o op s io = fr at hnb k1' k2' k3'
    have hA : TinyOK fr.1 := by
      by_cases hip : fastInplace s io = true
      · obtain ⟨n1, hp0⟩ := k2' hip
        refine ⟨?_, fun _ => hp0, fun hb => absurd hb hnb⟩
        intro off ho
        rw [n1] at ho
        have := (hT.fits off ho).1
        rw [hp0]
        exact ⟨by omega, fun hne => absurd rfl hne⟩
      · have hip' : fastInplace s io = false := by simpa using hip
        exact tinyOK_dyn (off := 0) (k3' hip') (fun hb => absurd hb hnb)
    have hB : fr.1.lastBytesBits ≤ 14 := by omega
    exact ⟨hA, hB⟩
  | @mdEnter s io hI hop hentry =>
    refine ⟨tinyOK_mdEnter (tinyOK_hint hT 0) _, ?_⟩
    show (mdEnter (updateSizeHint s 0) io.availIn).lastBytesBits ≤ 14
    have : (mdEnter (updateSizeHint s 0) io.availIn).lastBytesBits = (updateSizeHint s 0).lastBytesBits := by
      unfold mdEnter; split <;> rfl
    rw [this, (updateSizeHint_fields s 0).2.2.2.2.2.2.2.2.2.2.2.2.2.1]; exact hl
  | @mdEnc s s' io req n hM hop hpend hne h =>
    refine ⟨tinyOK_encode hT (fun hb => hne (hT.body hb).2) h, ?_⟩
    show s'.lastBytesBits ≤ 14
    rcases encodeData_lbb h with h8 | h8
    · omega
    · rw [h8]; exact hl
  | @mdHead s io n hM hop hpend hlf hst hok =>
    have h1 := metadataHeaderBits_length_le s.remainingMetadata hM.rmLe s.carry
    have hc : s.carry.length = s.lastBytesBits := by unfold St.carry; exact bitsOf_length _ _
    rw [hc] at h1
    have h2 := toBytes_length (metadataHeaderBits s.remainingMetadata s.carry)
    refine ⟨⟨?_, ?_, ?_⟩, by show (mdHeadSt s).lastBytesBits ≤ 14; simp [mdHeadSt]⟩
    · intro off ho
      have ho' : NextOut.tiny 0 = NextOut.tiny off := ho
      simp only [NextOut.tiny.injEq] at ho'
      subst ho'
      show 0 + (toBytes (metadataHeaderBits s.remainingMetadata s.carry)).length ≤ 16 ∧ _
      rw [h2]
      exact ⟨by omega, fun _ => rfl⟩
    · intro hn; cases hn
    · intro _; exact ⟨rfl, hlf⟩
  | @mdDone s io n hM hop hpend hlf hst hz =>
    exact ⟨⟨fun off ho => hT.fits off ho, fun hn => hT.none hn, fun hb => by cases hb⟩, hl⟩
  | @mdOut s io n hM hop hpend hlf hst hnz hao hle =>
    exact ⟨⟨fun off ho => hT.fits off ho, fun hn => hT.none hn, fun hb => hT.body hb⟩, hl⟩
  | @mdTiny s io n hM hop hpend hlf hst hnz hao hle =>
    refine ⟨⟨?_, ?_, fun hb => hT.body hb⟩, hl⟩
    · intro off ho
      have ho' : NextOut.tiny 0 = NextOut.tiny off := ho
      simp only [NextOut.tiny.injEq] at ho'
      subst ho'
      show 0 + (io.input.take (mdTinyN s)).length ≤ 16 ∧ _
      rw [List.length_take]
      have : mdTinyN s ≤ 16 := Nat.min_le_right _ _
      exact ⟨by omega, fun _ => (hT.body hst).1⟩
    · intro hn; cases hn

/-- **`TinyOK` and the carry bound are preserved by every call**, accepted or refused, all four
operations, whatever the payload encoder answers -/
theorem tinyL_call {o : Oracle} {fuel op cap : Nat} {input : Bytes} {s s' : St} {io' : Io} {r : Bool}
    (hop : op ≤ 3) (hI : Inv s) (hw : s.inputPos + input.length < two64) (hQ : TinyL s)
    (h : compressStream o fuel s op input cap = .ok (s', io', r)) : TinyL s' := by
  cases r with
  | false =>
    rcases (refused_unchanged hop hI hw h).1 with rfl | rfl
    · exact hQ
    · exact ⟨tinyOK_hint hQ.1 0, by rw [(updateSizeHint_fields s 0).2.2.2.2.2.2.2.2.2.2.2.2.2.1]; exact hQ.2⟩
  | true =>
    obtain ⟨evs, hevs⟩ := call_steps hop hI hw h
    exact Steps.induct (fun c => TinyL c.1) (fun c e c1 => step_tinyL c e c1) hevs hQ

/-- the same from a state that may still be fresh -/
theorem tinyL_call_run {o : Oracle} {fuel op cap : Nat} {input : Bytes} {s s' : St} {io' : Io} {r : Bool}
    (hop : op ≤ 3) (hR : IsFresh s ∨ Inv s) (hw : s.inputPos + input.length < two64) (hQ : IsFresh s ∨ TinyL s)
    (h : compressStream o fuel s op input cap = .ok (s', io', r)) : TinyL s' := by
  rcases hR with hf | hI
  · rw [compressStream_ensure] at h
    have hip : (ensureInitialized s).inputPos = 0 := by
      obtain ⟨p, rfl⟩ := hf
      simp [ensureInitialized, St.new]
    exact tinyL_call hop (inv_fresh hf).1 (by rw [hip]; omega)
      ⟨tinyOK_fresh hf, ensureInitialized_lbb s (isFreshInit hf)⟩ h
  · rcases hQ with hf | hQ
    · exact absurd hI.init (by rw [isFreshInit hf]; simp)
    · exact tinyL_call hop hI hw hQ h

theorem tinyL_take {s s' : St} {size : Nat} {out : Bytes} (hQ : TinyL s)
    (h : takeOutput s size = .ok (s', out)) : TinyL s' := by
  refine ⟨tinyOK_take hQ.1 h, ?_⟩
  unfold takeOutput at h
  split at h
  · simp at h
  · split at h
    · simp only [Out.ok.injEq, Prod.mk.injEq] at h
      obtain ⟨rfl, _⟩ := h
      rw [(checkFlushComplete_frame _).2.2.2.2.2.2.2.2.2.1]
      exact hQ.2
    · simp only [Out.ok.injEq, Prod.mk.injEq] at h
      obtain ⟨rfl, _⟩ := h
      exact hQ.2

end BV.Stream
