/-
C01 / meta-block writers, part 7: from C17's facts about one `BuildAndStoreHuffmanTree` call to the
`CodeFacts` the assembly needs: the reader's `readCode`, and symbol-by-symbol agreement (`SymIO`) of the
writer's `depth` / `bits` tables with the code the reader holds.
-/
import BV.Lemmas.MetaBlockTrivial
import BV.Props.C17

namespace BV.MetaBlock
open BV.Gen BV.Bits BV.Huffman BV.PrefixArith BV.Recoder
open BV.Header (writeBits_ok)
open BV.Lemmas.HuffmanRead (takeBits_bitsOf bitsOf_length readSym_spec)
open BV.Lemmas.HuffmanCanon (canonicalCodes_getD countLen_append)

theorem getD_take (l : List Nat) (a i : Nat) (h : i < a) : (l.take a).getD i 0 = l.getD i 0 := by
  simp [List.getD_eq_getElem?_getD, List.getElem?_take, h]

theorem getD_replicate_zero (n i : Nat) : (List.replicate n 0).getD i 0 = 0 := by
  rw [List.getD_eq_getElem?_getD, List.getElem?_replicate]; split <;> rfl

/-- a vector that is zero from index `a` on: its first `b` entries are its first `a` entries and zeros -/
theorem take_split_zeros (l : List Nat) (a b : Nat) (hab : a ≤ b) (hb : b ≤ l.length)
    (hz : ∀ i, a ≤ i → i < b → l.getD i 0 = 0) : l.take b = l.take a ++ List.replicate (b - a) 0 := by
  apply List.ext_getElem?
  intro i
  rcases Nat.lt_or_ge i a with h | h
  · rw [List.getElem?_append_left (by rw [List.length_take]; omega), List.getElem?_take, List.getElem?_take,
      if_pos (by omega), if_pos h]
  · rw [List.getElem?_append_right (by rw [List.length_take]; omega), List.length_take,
      Nat.min_eq_left (by omega), List.getElem?_replicate, List.getElem?_take]
    by_cases hib : i < b
    · rw [if_pos hib, if_pos (by omega)]
      have := hz i h hib
      rw [List.getD_eq_getElem?_getD, List.getElem?_eq_getElem (by omega)] at this
      rw [List.getElem?_eq_getElem (by omega)]
      simpa using this
    · rw [if_neg hib, if_neg (by omega)]

theorem countLen_replicate_zero (n l : Nat) (hl : l ≠ 0) : countLen (List.replicate n 0) l = 0 := by
  unfold countLen
  rw [List.length_eq_zero_iff, List.filter_eq_nil_iff]
  intro x hx
  rw [List.eq_of_mem_replicate hx]
  simpa using fun h => hl h.symm

theorem firstCode_append_zeros (lens : List Nat) (n : Nat) : ∀ l, firstCode (lens ++ List.replicate n 0) l = firstCode lens l := by
  intro l
  induction l with
  | zero => rfl
  | succ l ih =>
    unfold firstCode
    rw [ih]
    by_cases h0 : l = 0
    · simp [h0]
    · simp only [h0, if_false, countLen_append, countLen_replicate_zero n l h0, Nat.add_zero]

/-- trailing zero lengths do not change the canonical code of the other symbols -/
theorem canonical_append_zeros (lens : List Nat) (n i : Nat) (hi : i < lens.length) :
    (canonicalCodes (lens ++ List.replicate n 0)).getD i 0 = (canonicalCodes lens).getD i 0 := by
  rw [canonicalCodes_getD _ i (by rw [List.length_append]; omega), canonicalCodes_getD _ i hi]
  have e1 : (lens ++ List.replicate n 0).getD i 0 = lens.getD i 0 := by
    simp [List.getD_eq_getElem?_getD, List.getElem?_append_left hi]
  rw [e1, firstCode_append_zeros, List.take_append_of_le_length (by omega)]

theorem kraft_append_zeros (L : Nat) (lens : List Nat) (n : Nat) :
    kraftSum L (lens ++ List.replicate n 0) = kraftSum L lens := by
  rw [BV.Lemmas.HuffmanStoreRead.kraftSum_append, BV.Lemmas.HuffmanStoreRead.kraftSum_replicate_zero, Nat.add_zero]

theorem filter_append_zeros (lens : List Nat) (n : Nat) :
    ((lens ++ List.replicate n 0).filter (· ≠ 0)).length = (lens.filter (· ≠ 0)).length := by
  rw [List.filter_append]
  have : (List.replicate n 0).filter (· ≠ 0) = [] := by
    rw [List.filter_eq_nil_iff]; intro x hx; rw [List.eq_of_mem_replicate hx]; simp
  rw [this, List.append_nil]

/-- the writer's tables (depths complete for limit 15, bit patterns = bit-reversed canonical codes)
agree, on every symbol of non-zero depth, with the RFC decoder holding the first `A` depths -/
theorem symIO_of_lens (depth' bits' : List Nat) (len A s : Nat)
    (hA : A ≤ len) (hlen : len ≤ depth'.length) (hblen : len ≤ bits'.length)
    (hz : ∀ i, A ≤ i → i < len → depth'.getD i 0 = 0)
    (hall : ∀ v, v < len → depth'.getD v 0 ≤ 15) (hk : kraftSum 15 (depth'.take len) = 2 ^ 15)
    (hbits : ∀ i, i < len → depth'.getD i 0 ≠ 0 →
      bits'.getD i 0 = reverseBits (depth'.getD i 0) ((canonicalCodes (depth'.take len)).getD i 0))
    (h2 : 2 ≤ ((depth'.take len).filter (· ≠ 0)).length)
    (hs : s < len) (h0 : depth'.getD s 0 ≠ 0) :
    SymIO depth' bits' (Code.lens (depth'.take A)) s := by
  have hsA : s < A := by
    rcases Nat.lt_or_ge s A with h | h
    · exact h
    · exact absurd (hz s h hs) h0
  have hsplit := take_split_zeros depth' A len hA hlen hz
  have hlA : (depth'.take A).length = A := by rw [List.length_take]; omega
  have hd := hall s hs
  have hgs : (depth'.take A).getD s 0 = depth'.getD s 0 := getD_take _ _ _ hsA
  have hcan : (canonicalCodes (depth'.take len)).getD s 0 = (canonicalCodes (depth'.take A)).getD s 0 := by
    rw [hsplit, canonical_append_zeros _ _ _ (by omega)]
  have hlt : reverseBits (depth'.getD s 0) ((canonicalCodes (depth'.take len)).getD s 0) < 2 ^ depth'.getD s 0 := by
    rw [BV.Lemmas.HuffmanBits.reverseBits_eq _ _ (by omega) (by omega)]
    exact BV.Lemmas.HuffmanBits.revSpec_lt _ _
  refine ⟨bitsOf (depth'.getD s 0) (bits'.getD s 0), ?_, ?_⟩
  · intro w
    unfold storeSym
    rw [getAt_getD depth' s (by omega), Out.bind_ok, getAt_getD bits' s (by omega), Out.bind_ok,
      hbits s hs h0, writeBits_ok _ _ _ hlt (by omega)]
  · intro rest
    have hallA : ∀ x ∈ depth'.take A, x ≤ 15 := by
      intro x hx
      obtain ⟨i, hi, rfl⟩ := List.getElem_of_mem hx
      rw [hlA] at hi
      have := hall i (by omega)
      rw [List.getD_eq_getElem?_getD, List.getElem?_eq_getElem (by omega)] at this
      simpa [List.getElem_take] using this
    have hkA : kraftSum 15 (depth'.take A) ≤ 2 ^ 15 := by
      rw [hsplit, kraft_append_zeros] at hk; omega
    have h2A : 2 ≤ ((List.range (depth'.take A).length).filter fun t => (depth'.take A).getD t 0 != 0).length := by
      rw [BV.Lemmas.HuffmanStoreTree.filter_range_getD (depth'.take A) (fun x => x != 0)]
      rw [hsplit, filter_append_zeros] at h2
      have e : (fun x : Nat => x != 0) = (fun x => decide (x ≠ 0)) := by
        funext x; by_cases hx : x = 0 <;> simp [hx]
      rw [e]; exact h2
    have := readSym_spec (depth'.take A) s rest (by omega) hallA hkA (by rw [hgs]; exact h0) h2A
    rw [hgs, ← hcan, ← hbits s hs h0] at this
    exact this

end BV.MetaBlock
