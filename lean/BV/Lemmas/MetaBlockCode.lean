/-
C01 / meta-block writers, part 7: from C17's facts about one `BuildAndStoreHuffmanTree` call to the
`CodeFacts` the assembly needs: the reader's `readCode`, and symbol-by-symbol agreement (`SymIO`) of the
writer's `depth` / `bits` tables with the code the reader holds.
-/
import BV.Lemmas.MetaBlockHisto
import BV.Props.C17
import BV.Lemmas.HuffmanEntryPoints

namespace BV.MetaBlock
open BV.Gen BV.Bits BV.Huffman BV.PrefixArith BV.Recoder
open BV.Header (writeBits_ok)
open BV.Lemmas.HuffmanRead (takeBits_bitsOf bitsOf_length readSym_spec)
open BV.Lemmas.HuffmanCanon (canonicalCodes_getD countLen_append)

/-- what the round trip needs of one stored prefix code: the appended description is read back to a
code that agrees with the writer's tables on every symbol the histogram counts -/
def CodeFacts (hist : List Nat) (len A : Nat) (w w' : Writer) (depth' bits' : List Nat) : Prop :=
  ∃ cb code, w' = w ++ cb ∧ (∀ rest, readCode A (cb ++ rest) = some (code, rest)) ∧
    ∀ s, s < len → hist.getD s 0 ≠ 0 → SymIO depth' bits' code s

theorem getD_take (l : List Nat) (a i : Nat) (h : i < a) : (l.take a).getD i 0 = l.getD i 0 := by
  simp [List.getD_eq_getElem?_getD, List.getElem?_take, h]

theorem getD_replicate_zero (n i : Nat) : (List.replicate n 0).getD i 0 = 0 := by
  rw [List.getD_eq_getElem?_getD, List.getElem?_replicate]; split <;> rfl

/-- a vector that is zero from index `a` on: its first `b` entries are its first `a` entries and zeros -/
theorem take_split_zeros (l : List Nat) (a b : Nat) (hab : a ≤ b) (hb : b ≤ l.length)
    (hz : ∀ i, a ≤ i → i < b → l.getD i 0 = 0) : l.take b = l.take a ++ List.replicate (b - a) 0 := by
  apply List.ext_getElem?
  intro i
  rcases Nat.lt_or_ge i a with h | h
  · rw [List.getElem?_append_left (by rw [List.length_take]; omega), List.getElem?_take, List.getElem?_take,
      if_pos (by omega), if_pos h]
  · rw [List.getElem?_append_right (by rw [List.length_take]; omega), List.length_take,
      Nat.min_eq_left (by omega), List.getElem?_replicate, List.getElem?_take]
    by_cases hib : i < b
    · rw [if_pos hib, if_pos (by omega)]
      have := hz i h hib
      rw [List.getD_eq_getElem?_getD, List.getElem?_eq_getElem (by omega)] at this
      rw [List.getElem?_eq_getElem (by omega)]
      simpa using this
    · rw [if_neg hib, if_neg (by omega)]

theorem countLen_replicate_zero (n l : Nat) (hl : l ≠ 0) : countLen (List.replicate n 0) l = 0 := by
  unfold countLen
  rw [List.length_eq_zero_iff, List.filter_eq_nil_iff]
  intro x hx
  rw [List.eq_of_mem_replicate hx]
  simpa using fun h => hl h.symm

theorem firstCode_append_zeros (lens : List Nat) (n : Nat) : ∀ l, firstCode (lens ++ List.replicate n 0) l = firstCode lens l := by
  intro l
  induction l with
  | zero => rfl
  | succ l ih =>
    unfold firstCode
    rw [ih]
    by_cases h0 : l = 0
    · simp [h0]
    · simp only [h0, if_false, countLen_append, countLen_replicate_zero n l h0, Nat.add_zero]

/-- trailing zero lengths do not change the canonical code of the other symbols -/
theorem canonical_append_zeros (lens : List Nat) (n i : Nat) (hi : i < lens.length) :
    (canonicalCodes (lens ++ List.replicate n 0)).getD i 0 = (canonicalCodes lens).getD i 0 := by
  rw [canonicalCodes_getD _ i (by rw [List.length_append]; omega), canonicalCodes_getD _ i hi]
  have e1 : (lens ++ List.replicate n 0).getD i 0 = lens.getD i 0 := by
    simp [List.getD_eq_getElem?_getD, List.getElem?_append_left hi]
  rw [e1, firstCode_append_zeros, List.take_append_of_le_length (by omega)]

theorem kraft_append_zeros (L : Nat) (lens : List Nat) (n : Nat) :
    kraftSum L (lens ++ List.replicate n 0) = kraftSum L lens := by
  rw [BV.Lemmas.HuffmanStoreRead.kraftSum_append, BV.Lemmas.HuffmanStoreRead.kraftSum_replicate_zero, Nat.add_zero]

theorem filter_append_zeros (lens : List Nat) (n : Nat) :
    ((lens ++ List.replicate n 0).filter (· ≠ 0)).length = (lens.filter (· ≠ 0)).length := by
  rw [List.filter_append]
  have : (List.replicate n 0).filter (· ≠ 0) = [] := by
    rw [List.filter_eq_nil_iff]; intro x hx; rw [List.eq_of_mem_replicate hx]; simp
  rw [this, List.append_nil]

/-- the writer's tables (depths complete for limit 15, bit patterns = bit-reversed canonical codes)
agree, on every symbol of non-zero depth, with the RFC decoder holding the first `A` depths -/
theorem symIO_of_lens (depth' bits' : List Nat) (len A s : Nat)
    (hA : A ≤ len) (hlen : len ≤ depth'.length) (hblen : len ≤ bits'.length)
    (hz : ∀ i, A ≤ i → i < len → depth'.getD i 0 = 0)
    (hall : ∀ v, v < len → depth'.getD v 0 ≤ 15) (hk : kraftSum 15 (depth'.take len) = 2 ^ 15)
    (hbits : ∀ i, i < len → depth'.getD i 0 ≠ 0 →
      bits'.getD i 0 = reverseBits (depth'.getD i 0) ((canonicalCodes (depth'.take len)).getD i 0))
    (h2 : 2 ≤ ((depth'.take len).filter (· ≠ 0)).length)
    (hs : s < len) (h0 : depth'.getD s 0 ≠ 0) :
    SymIO depth' bits' (Code.lens (depth'.take A)) s := by
  have hsA : s < A := by
    rcases Nat.lt_or_ge s A with h | h
    · exact h
    · exact absurd (hz s h hs) h0
  have hsplit := take_split_zeros depth' A len hA hlen hz
  have hlA : (depth'.take A).length = A := by rw [List.length_take]; omega
  have hd := hall s hs
  have hgs : (depth'.take A).getD s 0 = depth'.getD s 0 := getD_take _ _ _ hsA
  have hcan : (canonicalCodes (depth'.take len)).getD s 0 = (canonicalCodes (depth'.take A)).getD s 0 := by
    rw [hsplit, canonical_append_zeros _ _ _ (by omega)]
  have hlt : reverseBits (depth'.getD s 0) ((canonicalCodes (depth'.take len)).getD s 0) < 2 ^ depth'.getD s 0 := by
    rw [BV.Lemmas.HuffmanBits.reverseBits_eq _ _ (by omega) (by omega)]
    exact BV.Lemmas.HuffmanBits.revSpec_lt _ _
  refine ⟨bitsOf (depth'.getD s 0) (bits'.getD s 0), ?_, ?_⟩
  · intro w
    unfold storeSym
    rw [getAt_getD depth' s (by omega), Out.bind_ok, getAt_getD bits' s (by omega), Out.bind_ok,
      hbits s hs h0, writeBits_ok _ _ _ hlt (by omega)]
  · intro rest
    have hallA : ∀ x ∈ depth'.take A, x ≤ 15 := by
      intro x hx
      obtain ⟨i, hi, rfl⟩ := List.getElem_of_mem hx
      rw [hlA] at hi
      have := hall i (by omega)
      rw [List.getD_eq_getElem?_getD, List.getElem?_eq_getElem (by omega)] at this
      simpa [List.getElem_take] using this
    have hkA : kraftSum 15 (depth'.take A) ≤ 2 ^ 15 := by
      rw [hsplit, kraft_append_zeros] at hk; omega
    have h2A : 2 ≤ ((List.range (depth'.take A).length).filter fun t => (depth'.take A).getD t 0 != 0).length := by
      rw [BV.Lemmas.HuffmanStoreTree.filter_range_getD (depth'.take A) (fun x => x != 0)]
      rw [hsplit, filter_append_zeros] at h2
      have e : (fun x : Nat => x != 0) = (fun x => decide (x ≠ 0)) := by
        funext x; by_cases hx : x = 0 <;> simp [hx]
      rw [e]; exact h2
    have := readSym_spec (depth'.take A) s rest (by omega) hallA hkA (by rw [hgs]; exact h0) h2A
    rw [hgs, ← hcan, ← hbits s hs h0] at this
    exact this

theorem placeLens_single_zero (A s0 i : Nat) : (placeLens A [s0] [0]).getD i 0 = 0 := by
  simp only [placeLens]
  rw [List.getD_eq_getElem?_getD, List.getElem?_set]
  split
  · split <;> simp
  · rw [List.getElem?_replicate]; split <;> rfl

/-- a description that `readPrefixCode` reads to a vector with a non-zero length is not the NSYM = 1
form, so `readCode` returns the same vector -/
theorem readCode_of_prefix (A : Nat) (bs r : List Bool) (l : List Nat)
    (h : readPrefixCode A bs = some (l, r)) (hnz : ∃ i, l.getD i 0 ≠ 0) :
    readCode A bs = some (Code.lens l, r) := by
  unfold readCode
  split
  · rename_i r' heq
    exfalso
    obtain ⟨i, hi⟩ := hnz
    rcases bs with _ | ⟨b0, _ | ⟨b1, _ | ⟨b2, _ | ⟨b3, t⟩⟩⟩⟩
    · simp [takeBits] at heq
    · simp [takeBits] at heq
    · simp [takeBits] at heq
    · simp [takeBits] at heq
    · simp only [takeBits, List.length_cons] at heq
      rw [if_pos (by omega)] at heq
      simp only [List.take_succ_cons, List.take_zero, valOf, Option.some.injEq, Prod.mk.injEq] at heq
      obtain ⟨hv, _⟩ := heq
      have hb : b0 = true ∧ b1 = false ∧ b2 = false ∧ b3 = false := by
        cases b0 <;> cases b1 <;> cases b2 <;> cases b3 <;> simp at hv ⊢
      obtain ⟨rfl, rfl, rfl, rfl⟩ := hb
      simp only [readPrefixCode, takeBits, List.length_cons, Option.bind_eq_bind] at h
      rw [if_pos (by omega)] at h
      simp only [List.take_succ_cons, List.take_zero, List.drop_succ_cons, List.drop_zero, valOf, Option.bind_some,
        List.length_cons] at h
      rw [if_pos (by decide), if_pos (by omega)] at h
      simp only [Bool.false_eq_true, if_false, Nat.mul_zero, Nat.add_zero, Option.bind_some, if_true] at h
      split at h
      · simp only [Option.bind_some, Option.some.injEq, Prod.mk.injEq] at h
        rw [← h.1] at hi
        exact hi (placeLens_single_zero _ _ _)
      · simp at h
  · rw [h]

theorem filter_nz_congr : ∀ (l1 l2 : List Nat), l1.length = l2.length →
    (∀ v, v < l1.length → (l1.getD v 0 ≠ 0 ↔ l2.getD v 0 ≠ 0)) →
    (l1.filter (· ≠ 0)).length = (l2.filter (· ≠ 0)).length := by
  intro l1
  induction l1 with
  | nil => intro l2 hl _; cases l2 with | nil => rfl | cons _ _ => simp at hl
  | cons x xs ih =>
    intro l2 hl h
    cases l2 with
    | nil => simp at hl
    | cons y ys =>
      have h0 := h 0 (by simp)
      simp only [List.getD_cons_zero] at h0
      have := ih ys (by simpa using hl) (fun v hv => by
        have := h (v + 1) (by simp; omega)
        simpa using this)
      rw [List.filter_cons, List.filter_cons]
      by_cases hx : x = 0
      · have hy : y = 0 := by
          rcases Nat.eq_zero_or_pos y with h | h
          · exact h
          · exact absurd hx (h0.mpr (by omega))
        have e1 : decide (x ≠ 0) = false := by simp [hx]
        have e2 : decide (y ≠ 0) = false := by simp [hy]
        rw [e1, e2]
        simp only [Bool.false_eq_true, if_false]
        exact this
      · have hy : y ≠ 0 := h0.mp hx
        have e1 : decide (x ≠ 0) = true := by simp [hx]
        have e2 : decide (y ≠ 0) = true := by simp [hy]
        rw [e1, e2]
        simp only [if_true, List.length_cons]
        rw [this]

theorem exists_nz_of_filter (l : List Nat) (h : 1 ≤ (l.filter (· ≠ 0)).length) :
    ∃ s, s < l.length ∧ l.getD s 0 ≠ 0 := by
  obtain ⟨x, hx⟩ := List.exists_mem_of_length_pos (by omega : 0 < (l.filter (· ≠ 0)).length)
  rw [List.mem_filter] at hx
  obtain ⟨i, hi, rfl⟩ := List.getElem_of_mem hx.1
  refine ⟨i, hi, ?_⟩
  rw [List.getD_eq_getElem?_getD, List.getElem?_eq_getElem hi]
  simpa using hx.2

theorem bitsOf_inj (n a b : Nat) (ha : a < 2 ^ n) (hb : b < 2 ^ n) (h : bitsOf n a = bitsOf n b) : a = b := by
  have := congrArg valOf h
  rw [BV.Lemmas.HuffmanRead.valOf_bitsOf, BV.Lemmas.HuffmanRead.valOf_bitsOf, Nat.mod_eq_of_lt ha,
    Nat.mod_eq_of_lt hb] at this
  exact this

/-- the NSYM = 1 description is read by `readCode` as the single symbol -/
theorem readCode_single (A s : Nat) (rest : List Bool) (hs : s < A) (hb : s < 2 ^ alphabetBits A) :
    readCode A (bitsOf 4 1 ++ bitsOf (alphabetBits A) s ++ rest) = some (Code.single s, rest) := by
  unfold readCode
  rw [List.append_assoc, takeBits_bitsOf 4 1 _ (by decide)]
  simp only
  rw [takeBits_bitsOf _ _ _ hb]
  simp [hs]

/-- the all-zero tables of the NSYM = 1 case write nothing for the symbol -/
theorem symIO_single (n s : Nat) (hs : s < n) :
    SymIO (List.replicate n 0) (List.replicate n 0) (Code.single s) s := by
  refine ⟨[], ?_, ?_⟩
  · intro w
    unfold storeSym
    rw [getAt_getD _ s (by simpa using hs), Out.bind_ok, Out.bind_ok,
      getD_replicate_zero, writeBits_ok 0 0 w (by decide) (by decide)]
    simp [bitsOf]
  · intro rest
    simp [Code.read]

open BV.Lemmas.HuffmanCreate (GoodDepth) in
open BV.Lemmas.HuffmanEntry (GoodBits) in
/-- **one `BuildAndStoreHuffmanTree` call round-trips** (all forms: NSYM = 1 incl. the empty histogram,
the simple forms NSYM = 2..4, the complex form), from C17's `build_and_store_roundtrip` -/
theorem codeFacts_of_build (h : List Nat) (len A : Nat) (w0 w1 : Writer) (d b : List Nat)
    (hlen : len ≤ h.length) (h704 : len ≤ 704) (hsum : h.sum ≤ 2 ^ 25) (hA1 : 1 ≤ A) (hA : A ≤ len)
    (hz : ∀ i, A ≤ i → h.getD i 0 = 0) (hAb : A ≤ 2 ^ alphabetBits A)
    (hb : buildAndStoreHuffmanTree h len A scratchTree (List.replicate len 0) (List.replicate len 0) w0 = .ok (d, b, w1)) :
    CodeFacts h len A w0 w1 d b := by
  have hst : scratchTree.length = 1409 := by unfold scratchTree; rw [List.length_replicate]
  have hsum' : (h.take len).sum ≤ 2 ^ 25 := Nat.le_trans (BV.Lemmas.HuffmanEntry.sum_take_le h len) hsum
  have key := fun rest => BV.Lemmas.HuffmanEntryPoints.build_and_store_roundtrip h len A len scratchTree w0 rest d b w1
    hlen h704 hsum' (by omega) (by omega) (Nat.le_refl _) hA1 hA (fun i hi _ => hz i hi) hb
  obtain ⟨cb, e, _, _, _⟩ := key []
  have key' : ∀ rest,
      (2 ≤ ((h.take len).filter (· ≠ 0)).length →
        readPrefixCode A (cb ++ rest) = some (d.take A, rest) ∧
        GoodDepth h len 15 (List.replicate len 0) d ∧ GoodBits len d (List.replicate len 0) b) ∧
      (∀ s, s < len → h.getD s 0 ≠ 0 → ((h.take len).filter (· ≠ 0)).length = 1 →
          cb = bitsOf 4 1 ++ bitsOf (alphabetBits A) s ∧ d = List.replicate len 0 ∧ b = List.replicate len 0) ∧
      (((h.take len).filter (· ≠ 0)).length = 0 →
          cb = bitsOf 4 1 ++ bitsOf (alphabetBits A) 0 ∧ d = List.replicate len 0 ∧ b = List.replicate len 0) := by
    intro rest
    obtain ⟨cb', e', k⟩ := key rest
    have : cb' = cb := List.append_cancel_left (e'.symm.trans e)
    rw [this] at k
    exact k
  have hgt : ∀ s, s < len → (h.take len).getD s 0 = h.getD s 0 := fun s hs => getD_take h len s hs
  have htl : (h.take len).length = len := by rw [List.length_take]; omega
  rcases Nat.lt_or_ge ((h.take len).filter (· ≠ 0)).length 2 with hnz | hnz
  · rcases Nat.eq_zero_or_pos ((h.take len).filter (· ≠ 0)).length with h0 | h1
    · -- empty histogram
      obtain ⟨ecb, ed, eb⟩ := (key' []).2.2 h0
      refine ⟨cb, Code.single 0, e, ?_, ?_⟩
      · intro rest
        rw [ecb]
        exact readCode_single A 0 rest (by omega) (Nat.pow_pos (by decide))
      · intro s hs hne
        exfalso
        have := BV.Lemmas.HuffmanStoreTree.one_nz (h.take len) s (by omega) (by rw [hgt s hs]; exact hne)
        omega
    · -- a single symbol
      obtain ⟨s, hs, hne⟩ := exists_nz_of_filter (h.take len) h1
      rw [htl] at hs
      rw [hgt s hs] at hne
      have hsA : s < A := by
        rcases Nat.lt_or_ge s A with h | h
        · exact h
        · exact absurd (hz s h) hne
      obtain ⟨ecb, ed, eb⟩ := (key' []).2.1 s hs hne (by omega)
      refine ⟨cb, Code.single s, e, ?_, ?_⟩
      · intro rest
        rw [ecb]
        exact readCode_single A s rest hsA (by omega)
      · intro s' hs' hne'
        have hs'A : s' < A := by
          rcases Nat.lt_or_ge s' A with h | h
          · exact h
          · exact absurd (hz s' h) hne'
        obtain ⟨ecb', _, _⟩ := (key' []).2.1 s' hs' hne' (by omega)
        have hss : s' = s := by
          have := ecb'.symm.trans ecb
          exact bitsOf_inj _ _ _ (by omega) (by omega) (List.append_cancel_left this)
        rw [hss, ed, eb]
        exact symIO_single len s hs
  · -- two or more symbols
    obtain ⟨_, hg, hgb⟩ := (key' []).1 hnz
    have hdl : d.length = len := by rw [hg.hlen]; simp
    have hbl : b.length = len := by rw [hgb.1]; simp
    have hzd : ∀ i, A ≤ i → i < len → d.getD i 0 = 0 := by
      intro i hi hil
      rcases Nat.eq_zero_or_pos (d.getD i 0) with h0 | h0
      · exact h0
      · exact absurd (hz i hi) ((hg.hsupp i hil).mp (by omega))
    have h2d : 2 ≤ ((d.take len).filter (· ≠ 0)).length := by
      rw [filter_nz_congr (d.take len) (h.take len) (by rw [List.length_take, htl]; omega) (by
        intro v hv
        rw [List.length_take, hdl, Nat.min_self] at hv
        rw [getD_take d len v hv, hgt v hv]
        exact hg.hsupp v hv)]
      exact hnz
    refine ⟨cb, Code.lens (d.take A), e, ?_, ?_⟩
    · intro rest
      obtain ⟨hr, _, _⟩ := (key' rest).1 hnz
      obtain ⟨s, hs, hne⟩ := exists_nz_of_filter (h.take len) (by omega)
      rw [htl] at hs
      rw [hgt s hs] at hne
      have hsA : s < A := by
        rcases Nat.lt_or_ge s A with h | h
        · exact h
        · exact absurd (hz s h) hne
      exact readCode_of_prefix A _ rest _ hr ⟨s, by rw [getD_take d A s hsA]; exact (hg.hsupp s hs).mpr hne⟩
    · intro s hs hne
      exact symIO_of_lens d b len A s hA (by omega) (by omega) hzd hg.hlim hg.hkraft
        (fun i hi h0 => by have := hgb.2.2 i hi; rw [if_pos h0] at this; exact this)
        h2d hs ((hg.hsupp s hs).mpr hne)

open BV.Lemmas.HuffmanSimple BV.Lemmas.HuffmanEntry in
/-- **`BuildAndStoreHuffmanTree` as the trivial writer calls it does not panic** (no index out of range, no
`BrotliWriteBits` assertion, the tree construction terminates), whatever the histogram -/
theorem build_total (h : List Nat) (len A : Nat) (w0 : Writer)
    (hlen : len ≤ h.length) (h704 : len ≤ 704) (hsum : h.sum ≤ 2 ^ 25) (hA1 : 1 ≤ A) (hA : A ≤ len)
    (hz : ∀ i, A ≤ i → h.getD i 0 = 0) :
    ∃ d b w1, buildAndStoreHuffmanTree h len A scratchTree (List.replicate len 0) (List.replicate len 0) w0
      = .ok (d, b, w1) := by
  have hst : scratchTree.length = 1409 := by unfold scratchTree; rw [List.length_replicate]
  have hsum' : (h.take len).sum ≤ 2 ^ 25 := Nat.le_trans (sum_take_le h len) hsum
  have hu : ∀ s ∈ ascNZ h len 0, s < A := by
    intro s hs
    obtain ⟨_, h2, h3⟩ := (mem_ascNZ h len 0 s).mp hs
    by_cases hsa : s < A
    · exact hsa
    · exact absurd (hz s (by omega)) h3
  by_cases hc1 : (ascNZ h len 0).length ≤ 1
  · have hh : (ascNZ h len 0).headD 0 < A := by
      match hL : ascNZ h len 0 with
      | [] => exact hA1
      | a :: _ => exact hu a (by rw [hL]; simp)
    obtain ⟨sbits, _, hb, _⟩ := build_single_roundtrip h len A scratchTree (List.replicate len 0)
      (List.replicate len 0) w0 [] hlen hc1 hh hA1 (by omega)
      (by rw [List.length_replicate]; omega) (by rw [List.length_replicate]; omega)
    exact ⟨_, _, _, hb⟩
  · by_cases hc4 : (ascNZ h len 0).length ≤ 4
    · obtain ⟨d1, b1, sbits, hb, _⟩ := build_simple_roundtrip h len A scratchTree
        (List.replicate len 0) (List.replicate len 0) w0 [] hlen h704 hsum' ⟨by omega, hc4⟩ (by omega)
        (by simp) (by simp) hu (by omega)
      exact ⟨_, _, _, hb⟩
    · obtain ⟨d1, b1, sbits, hb, _⟩ := build_complex_roundtrip h len A scratchTree
        (List.replicate len 0) (List.replicate len 0) w0 [] A hlen h704 hsum' (by omega) (by omega) (by omega)
        (by simp) (by simp) hA hu
      exact ⟨_, _, _, hb⟩

end BV.MetaBlock

namespace BV.MetaBlock
open BV.Gen BV.Bits BV.Huffman BV.PrefixArith BV.Recoder
open BV.Lemmas.HuffmanCreate BV.Lemmas.HuffmanEntry BV.Lemmas.HuffmanSimple BV.Lemmas.HuffmanFastStore
open BV.Lemmas.HuffmanEntryPoints

/-- the `while total != 0` scan of the fast builder with `total` = the sum of the histogram never runs off
the end of the histogram -/
theorem fastScan_total : ∀ (hs : List Nat) (total len count : Nat) (symbols : List Nat), total = hs.sum →
    hs.sum < u64 → ∃ r, fastScan hs total len count symbols = .ok r := by
  intro hs
  induction hs with
  | nil => intro total len count symbols ht _; simp [fastScan, ht]
  | cons x xs ih =>
    intro total len count symbols ht hlt
    simp only [List.sum_cons] at ht hlt
    unfold fastScan
    by_cases h0 : total = 0
    · simp [h0]
    · rw [if_neg h0]
      by_cases hx : x ≠ 0
      · rw [if_pos hx]
        apply ih
        · have : total + u64 - x = xs.sum + u64 := by omega
          rw [this, Nat.add_mod_right, Nat.mod_eq_of_lt (by omega)]
        · omega
      · rw [if_neg hx]
        apply ih
        · have : x = 0 := by simpa using hx
          omega
        · omega

/-- **`BrotliBuildAndStoreHuffmanTreeFast` as the fast writer calls it does not panic** -/
theorem fast_total (h : List Nat) (A n : Nat) (w0 : Writer) (h704 : h.length ≤ 704) (hsum : h.sum ≤ 2 ^ 25)
    (hA1 : 1 ≤ A) (hAn : A ≤ n) (hA : A ≤ 65536) (hz : ∀ i, A ≤ i → h.getD i 0 = 0) :
    ∃ d b w1, buildAndStoreHuffmanTreeFast h h.sum (alphabetBits A) (List.replicate n 0) (List.replicate n 0) w0
      = .ok (d, b, w1) := by
  have p25 : (2 : Nat) ^ 25 = 33554432 := by decide
  obtain ⟨⟨count, symbols, length⟩, hscan⟩ := fastScan_total h h.sum 0 0 [0, 0, 0, 0] rfl (by unfold u64; omega)
  obtain ⟨_, hlh, hcnt, hsym⟩ := fastScan_full h h h.sum 0 0 [0, 0, 0, 0] count length symbols rfl hscan
  simp only [Nat.sub_zero, Nat.zero_add, Nat.zero_le, Nat.max_eq_right] at hlh hcnt hsym
  have hlast := fastScan_last h h h.sum 0 0 [0, 0, 0, 0] count length symbols rfl (fun _ => Or.inl rfl) hscan
  have hlA : length ≤ A := by
    rcases hlast with h0 | h0
    · omega
    · by_cases hc : length ≤ A
      · exact hc
      · exact absurd (hz (length - 1) (by omega)) h0
  have hu : ∀ s ∈ ascNZ h length 0, s < A := by
    intro s hs
    obtain ⟨_, h2, _⟩ := (mem_ascNZ h length 0 s).mp hs
    omega
  by_cases hc1 : count ≤ 1
  · have hsym' := hsym (by omega)
    have hs0 : symbols.getD 0 0 = (ascNZ h length 0).headD 0 := by
      rw [hsym']
      match hL : ascNZ h length 0, (show (ascNZ h length 0).length ≤ 1 by omega) with
      | [], _ => rfl
      | [a], _ => rfl
      | _ :: _ :: _, hn' => simp at hn'
    have hh : symbols.getD 0 0 < A := by
      rw [hs0]
      match hL : ascNZ h length 0 with
      | [] => exact hA1
      | a :: _ => exact hu a (by rw [hL]; simp)
    obtain ⟨sbits, _, hb, _⟩ := fast_single_roundtrip h h.sum A (List.replicate n 0) (List.replicate n 0) w0 []
      count length symbols hscan hc1 hh hA1 hA (by rw [List.length_replicate]; omega)
      (by rw [List.length_replicate]; omega)
    exact ⟨_, _, _, hb⟩
  · by_cases hc4 : count ≤ 4
    · obtain ⟨d1, b1, sbits, hb, _⟩ := fast_simple_roundtrip h h.sum A (List.replicate n 0) (List.replicate n 0) w0 []
        count length symbols hscan ⟨by omega, hc4⟩ h704 hsum (by simp; omega) (by simp; omega) hu hA
      exact ⟨_, _, _, hb⟩
    · obtain ⟨d1, b1, sbits, hb, _⟩ := fast_complex_roundtrip h h.sum (alphabetBits A) A (List.replicate n 0)
        (List.replicate n 0) w0 [] count length symbols hscan (by omega) h704 hsum (by simp; omega) (by simp; omega) hlA
      exact ⟨_, _, _, hb⟩

end BV.MetaBlock

namespace BV.MetaBlock
open BV.Gen BV.Bits BV.Huffman BV.PrefixArith BV.Recoder
open BV.Lemmas.HuffmanCreate BV.Lemmas.HuffmanEntry BV.Lemmas.HuffmanEntryPoints

/-- **one `BrotliBuildAndStoreHuffmanTreeFast` call round-trips** (NSYM = 1 incl. the empty histogram, the
simple forms, the static-code-length-code form), from C17's `fast_build_and_store_roundtrip` -/
theorem codeFacts_of_fast (h : List Nat) (A n : Nat) (w0 w1 : Writer) (d b : List Nat)
    (h704 : h.length ≤ 704) (hsum : h.sum ≤ 2 ^ 25) (hA1 : 1 ≤ A) (hAn : A ≤ n) (hA : A ≤ 65536)
    (hz : ∀ i, A ≤ i → h.getD i 0 = 0) (hAb : A ≤ 2 ^ alphabetBits A)
    (hb : buildAndStoreHuffmanTreeFast h h.sum (alphabetBits A) (List.replicate n 0) (List.replicate n 0) w0
      = .ok (d, b, w1)) :
    CodeFacts h h.length A w0 w1 d b := by
  have p25 : (2 : Nat) ^ 25 = 33554432 := by decide
  have key := fun rest => fast_build_and_store_roundtrip h A n w0 rest d b w1 h704 hsum hA1 hAn hA hz hb
  obtain ⟨cb, count, symbols, length, e, hscan, hcount, hlA, _, _, _⟩ := key []
  have key' : ∀ rest,
      (2 ≤ count → readPrefixCode A (cb ++ rest) = some (d.take A, rest) ∧
        GoodDepth h length 14 (List.replicate n 0) d ∧ GoodBits length d (List.replicate n 0) b) ∧
      (∀ s, h.getD s 0 ≠ 0 → count = 1 →
          cb = bitsOf 4 1 ++ bitsOf (alphabetBits A) s ∧ d = List.replicate n 0 ∧ b = List.replicate n 0) ∧
      (count = 0 → cb = bitsOf 4 1 ++ bitsOf (alphabetBits A) 0 ∧ d = List.replicate n 0 ∧ b = List.replicate n 0) := by
    intro rest
    obtain ⟨cb', count', symbols', length', e', hscan', _, _, k⟩ := key rest
    have : cb' = cb := List.append_cancel_left (e'.symm.trans e)
    rw [this] at k
    rw [hscan] at hscan'
    injection hscan' with hscan'
    injection hscan' with q1 q2
    injection q2 with q2 q3
    rw [← q1, ← q3] at k
    exact k
  have hcov := fastScan_covers h h h.sum 0 0 [0, 0, 0, 0] count length symbols rfl rfl (by unfold u64; omega) hscan
  have hsA : ∀ s, h.getD s 0 ≠ 0 → s < A := by
    intro s hne
    rcases Nat.lt_or_ge s A with h | h
    · exact h
    · exact absurd (hz s h) hne
  rcases Nat.lt_or_ge count 2 with hnz | hnz
  · rcases Nat.eq_zero_or_pos count with h0 | h1
    · obtain ⟨ecb, ed, eb⟩ := (key' []).2.2 h0
      refine ⟨cb, Code.single 0, e, ?_, ?_⟩
      · intro rest
        rw [ecb]
        exact readCode_single A 0 rest (by omega) (Nat.pow_pos (by decide))
      · intro s hs hne
        exfalso
        have := BV.Lemmas.HuffmanStoreTree.one_nz h s hs hne
        omega
    · obtain ⟨s, hs, hne⟩ := exists_nz_of_filter h (by omega)
      have hsa := hsA s hne
      obtain ⟨ecb, ed, eb⟩ := (key' []).2.1 s hne (by omega)
      refine ⟨cb, Code.single s, e, ?_, ?_⟩
      · intro rest
        rw [ecb]
        exact readCode_single A s rest hsa (by omega)
      · intro s' hs' hne'
        have hs'a := hsA s' hne'
        obtain ⟨ecb', _, _⟩ := (key' []).2.1 s' hne' (by omega)
        have hss : s' = s := by
          have := ecb'.symm.trans ecb
          exact bitsOf_inj _ _ _ (by omega) (by omega) (List.append_cancel_left this)
        rw [hss, ed, eb]
        exact symIO_single n s (by omega)
  · obtain ⟨_, hg, hgb⟩ := (key' []).1 hnz
    have hdl : d.length = n := by rw [hg.hlen]; simp
    have hbl : b.length = n := by rw [hgb.1]; simp
    have hframe : ∀ i, length ≤ i → d.getD i 0 = 0 := by
      intro i hi
      rw [List.getD_eq_getElem?_getD, hg.hframe i hi, ← List.getD_eq_getElem?_getD, getD_replicate_zero]
    have hsplit : d.take n = d.take length ++ List.replicate (n - length) 0 :=
      take_split_zeros d length n (by omega) (by omega) (fun i hi _ => hframe i hi)
    have hall14 : ∀ x ∈ d.take length, x ≤ 14 := by
      intro x hx
      obtain ⟨i, hi, rfl⟩ := List.getElem_of_mem hx
      rw [List.length_take] at hi
      have := hg.hlim i (by omega)
      rw [List.getD_eq_getElem?_getD, List.getElem?_eq_getElem (by omega)] at this
      simpa [List.getElem_take] using this
    have hk15 : kraftSum 15 (d.take n) = 2 ^ 15 := by
      rw [hsplit, kraft_append_zeros]
      exact BV.Props.C17.kraft_limit_mono _ hall14 hg.hkraft
    have hlen_le : length ≤ h.length := by
      rcases Nat.lt_or_ge h.length length with hlt | hge
      · exfalso
        -- `length ≤ A`, and a scan that stops at `length` has passed `length` entries
        obtain ⟨_, hlh, _, _⟩ := BV.Lemmas.HuffmanSimple.fastScan_full h h h.sum 0 0 [0, 0, 0, 0] count length symbols rfl hscan
        simp only [Nat.sub_zero, Nat.zero_add, Nat.zero_le, Nat.max_eq_right] at hlh
        omega
      · exact hge
    have h2d : 2 ≤ ((d.take n).filter (· ≠ 0)).length := by
      rw [hsplit, filter_append_zeros]
      have hfl : (h.filter (· ≠ 0)).length = ((h.take length).filter (· ≠ 0)).length := by
        conv => lhs; rw [← List.take_append_drop length h]
        rw [List.filter_append]
        have : (h.drop length).filter (· ≠ 0) = [] := by
          rw [List.filter_eq_nil_iff]
          intro a ha
          obtain ⟨i, hi, hai⟩ := List.getElem_of_mem ha
          have := hcov (length + i) (by omega)
          rw [List.getD_eq_getElem?_getD] at this
          rw [List.getElem_drop] at hai
          rw [List.getElem?_eq_getElem (by simp at hi; omega)] at this
          simp only [Option.getD_some] at this
          simp [← hai, this]
        rw [this, List.append_nil]
      rw [filter_nz_congr (d.take length) (h.take length) (by rw [List.length_take, List.length_take]; omega) (by
        intro v hv
        rw [List.length_take] at hv
        rw [getD_take d length v (by omega), getD_take h length v (by omega)]
        exact hg.hsupp v (by omega)), ← hfl, ← hcount]
      exact hnz
    refine ⟨cb, Code.lens (d.take A), e, ?_, ?_⟩
    · intro rest
      obtain ⟨hr, _, _⟩ := (key' rest).1 hnz
      obtain ⟨s, hs, hne⟩ := exists_nz_of_filter h (by omega)
      have hsa := hsA s hne
      have hsl : s < length := by
        rcases Nat.lt_or_ge s length with h | h
        · exact h
        · exact absurd (hcov s h) hne
      exact readCode_of_prefix A _ rest _ hr ⟨s, by rw [getD_take d A s hsa]; exact (hg.hsupp s hsl).mpr hne⟩
    · intro s hs hne
      have hsa := hsA s hne
      have hsl : s < length := by
        rcases Nat.lt_or_ge s length with h | h
        · exact h
        · exact absurd (hcov s h) hne
      refine symIO_of_lens d b n A s hAn (by omega) (by omega) (fun i hi _ => hframe i (by omega)) ?_ hk15 ?_ h2d
        (by omega) ((hg.hsupp s hsl).mpr hne)
      · intro v _
        rcases Nat.lt_or_ge v length with hv | hv
        · have := hg.hlim v hv; omega
        · rw [hframe v hv]; omega
      · intro i _ h0
        have hil : i < length := by
          rcases Nat.lt_or_ge i length with h | h
          · exact h
          · exact absurd (hframe i h) h0
        have := hgb.2.2 i hil
        rw [if_pos h0] at this
        rw [this, hsplit, canonical_append_zeros _ _ _ (by rw [List.length_take]; omega)]

end BV.MetaBlock
