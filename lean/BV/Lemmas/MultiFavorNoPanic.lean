/-
The favor branch of `CompressMulti` cannot panic: building the shared index — `BulkStoreRange(input,
usize::MAX, stored_end, range.end − overlap)` on the calling thread, before the last job runs —
reads only `input[.. range.end)` and indexes inside the tables the constructors allocate.
(`BV.Multi.compressMulti` has no panic site for this code; these lemmas justify that.)
Per kind: `Store` at a position whose look-ahead window lies inside the buffer, on tables of the
constructor's sizes, with a hash that stays inside the table, returns `some` and keeps the sizes.
-/
import BV.Lemmas.MultiFavorKinds

namespace BV.Lemmas.Multi
open BV.Multi BV.Hasher

theorem forRange_isSome {σ : Type} {f : Nat → σ → Option σ} {I : σ → Prop} (n : Nat) :
    ∀ (s : Nat) (x : σ), I x → (∀ i y, s ≤ i → i < s + n → I y → ∃ z, f i y = some z ∧ I z) →
      ∃ z, forRange f s n x = some z ∧ I z := by
  induction n with
  | zero => intro s x hx _; exact ⟨x, rfl, hx⟩
  | succ n ih =>
    intro s x hx h
    obtain ⟨y, hy, hIy⟩ := h s x (Nat.le_refl _) (by omega) hx
    rw [forRange_succ, hy]
    exact ih (s + 1) y hIy (fun i z h1 h2 hz => h i z (by omega) (by omega) hz)

theorem Basic.store_some {P : BasicP} {d : ByteArray} {mask ix : Nat} {b : Tab} (hs : P.sweep ≠ 0)
    (hfit : ∀ w, P.hash w % U32 + P.sweep ≤ b.size) (hw : (ix &&& mask) + 8 ≤ d.size) :
    ∃ b', Basic.store P d mask ix b = some b' ∧ b'.size = b.size := by
  have hoff : (ix >>> 3) % P.sweep % U32 < P.sweep :=
    Nat.lt_of_le_of_lt (Nat.mod_le _ _) (Nat.mod_lt _ (Nat.pos_of_ne_zero hs))
  simp only [Basic.store, Basic.hashAt, win, if_pos hw, Option.map_some, if_neg hs]
  have := hfit ((List.range 8).map fun k => (d.get! ((ix &&& mask) + k)).toNat)
  have hlt : (P.hash ((List.range 8).map fun k => (d.get! ((ix &&& mask) + k)).toNat) % U32 + (ix >>> 3) % P.sweep % U32) % U32 < b.size :=
    Nat.lt_of_le_of_lt (Nat.mod_le _ _) (by omega)
  exact ⟨_, Adv.wr_of_lt _ hlt, by simp⟩

theorem H9.store_some {P : H9P} {d : ByteArray} {mask ix : Nat} {st : AdvSt}
    (hkey : ∀ w, P.hash w % U32 < 2 ^ 15) (hn : st.num.size = 2 ^ 15) (hb : st.buckets.size = 2 ^ 23)
    (hw : (ix &&& mask) + 4 ≤ d.size) :
    ∃ st', H9.store P d mask ix st = some st' ∧ st'.num.size = 2 ^ 15 ∧ st'.buckets.size = 2 ^ 23 := by
  obtain ⟨num, buckets⟩ := st
  simp only at hn hb
  simp only [H9.store, win, if_pos hw]
  have hk := hkey ((List.range 4).map fun k => (d.get! ((ix &&& mask) + k)).toNat)
  generalize P.hash ((List.range 4).map fun k => (d.get! ((ix &&& mask) + k)).toNat) % U32 = key at hk
  have hk' : key < num.size := by omega
  rw [Adv.rd_of_lt hk']
  simp only []
  have hminor : num[key] &&& H9.BLOCK_MASK ≤ 255 := Nat.and_le_right
  have hidx : (num[key] &&& H9.BLOCK_MASK) + (key <<< H9.BLOCK_BITS) < buckets.size := by
    rw [Nat.shiftLeft_eq, hb]
    simp only [H9.BLOCK_BITS]
    omega
  rw [Adv.wr_of_lt _ hidx]
  simp only []
  rw [Adv.wr_of_lt _ hk']
  exact ⟨_, rfl, by simp [hn], by simp [hb]⟩

theorem Adv.store_some {P : AdvP} {d : ByteArray} {mask ix : Nat} {st : AdvSt}
    (hkey : ∀ w, (P.mixWord w >>> P.shift) % U32 < P.bucketSize) (hm : P.blockMask < 2 ^ P.blockBits)
    (hn : st.num.size = P.bucketSize) (hb : st.buckets.size = P.bucketSize * 2 ^ P.blockBits)
    (hw : (ix &&& mask) + P.lookahead ≤ d.size) :
    ∃ st', Adv.store P d mask ix st = some st' ∧ st'.num.size = P.bucketSize ∧
      st'.buckets.size = P.bucketSize * 2 ^ P.blockBits := by
  obtain ⟨num, buckets⟩ := st
  simp only at hn hb
  simp only [Adv.store, Adv.hashAt, win, if_pos hw, Option.map_some]
  have hk := hkey ((List.range P.lookahead).map fun k => (d.get! ((ix &&& mask) + k)).toNat)
  generalize (P.mixWord ((List.range P.lookahead).map fun k => (d.get! ((ix &&& mask) + k)).toNat) >>> P.shift) % U32 = key at hk
  have hk' : key < num.size := by omega
  rw [Adv.rd_of_lt hk']
  simp only []
  have hminor : num[key] &&& P.blockMask ≤ P.blockMask := Nat.and_le_right
  have hidx : (num[key] &&& P.blockMask) + (key <<< P.blockBits) % U32 < buckets.size := by
    have h1 : (key <<< P.blockBits) % U32 ≤ key * 2 ^ P.blockBits := by
      rw [Nat.shiftLeft_eq]; exact Nat.mod_le _ _
    have h2 : (key + 1) * 2 ^ P.blockBits ≤ P.bucketSize * 2 ^ P.blockBits := Nat.mul_le_mul_right _ (by omega)
    have h3 : (key + 1) * 2 ^ P.blockBits = key * 2 ^ P.blockBits + 2 ^ P.blockBits := Nat.succ_mul _ _
    rw [hb]
    omega
  rw [Adv.wr_of_lt _ hidx]
  simp only []
  rw [Adv.wr_of_lt _ hk']
  exact ⟨_, rfl, by simp [hn], by simp [hb]⟩


/-- a lifted bulk store that is a fold of a never-panicking `Store` does not panic -/
theorem liftBulk_isSome {σ : Type} {bulk : ByteArray → Nat → Nat → Nat → σ → Option σ}
    {store : ByteArray → Nat → σ → Option σ} {I : σ → Prop} {bound : Nat}
    (hfold : ∀ d s e st, I st → e ≤ bound → bulk d USIZE_MAX s e st = forRange (store d) s (e - s) st)
    (x : σ) (hx : I x) (d : List Nat) (m : Nat) (hm : m ≤ bound)
    (hstep : ∀ i y, i < m → I y → ∃ z, store (toBA d) i y = some z ∧ I z) :
    ∃ z, liftBulk bulk (some x) d 0 m = some z ∧ I z := by
  simp only [liftBulk, Option.bind_some]
  rw [hfold _ 0 m x hx hm, Nat.sub_zero]
  exact forRange_isSome m 0 x hx (fun i y _ h2 hy => hstep i y (by omega) hy)

theorem and_usize_le (ix : Nat) : ix &&& USIZE_MAX ≤ ix := Nat.and_le_left

/-- the shared index of a `BasicHasher` kind: never `none`, table length unchanged -/
theorem shared_no_panic_basic {P : BasicP} (hP : P.Ok) (hs : P.sweep ≠ 0) (len : Nat)
    (hfit : ∀ w, P.hash w % U32 + P.sweep ≤ len)
    (input : List Nat) (t n j : Nat) (ht : 0 < t) (hj : j ≤ t) (hn : n ≤ input.length) :
    ∃ b, (prebuilt (basicModel P len) input t n 7 j).1 = some b ∧ b.size = len := by
  rw [prebuilt_closed (basicModel P len) (basicModel_additive hP len)]
  have hle : bnd t n j ≤ n := bnd_le t n j ht hj
  split
  · exact liftBulk_isSome (I := fun b => b.size = len) (bound := bnd t n j - 7)
      (store := fun d => Basic.store P d USIZE_MAX)
      (fun d s e st _ _ => basic_fold hP d s e st) _ (by simp) input _ (Nat.le_refl _)
      (fun i y hi hy => by
        have hw : (i &&& USIZE_MAX) + 8 ≤ (toBA input).size := by
          rw [toBA_size]; have := and_usize_le i; omega
        obtain ⟨b', h1, h2⟩ := Basic.store_some (P := P) (mask := USIZE_MAX) (b := y) hs (by rw [hy]; exact hfit) hw
        exact ⟨b', h1, h2.trans hy⟩)
  · exact ⟨_, rfl, by simp⟩

/-- the shared index of `H9` -/
theorem shared_no_panic_h9 {P : H9P} (hkey : ∀ w, P.hash w % U32 < 2 ^ 15)
    (input : List Nat) (t n j : Nat) (ht : 0 < t) (hj : j ≤ t) (hn : n ≤ input.length) :
    ∃ st, (prebuilt (h9Model P) input t n 3 j).1 = some st := by
  rw [prebuilt_closed (h9Model P) (h9Model_additive P)]
  have hle : bnd t n j ≤ n := bnd_le t n j ht hj
  split
  · obtain ⟨z, hz, _⟩ := liftBulk_isSome (bulk := H9.bulkStoreRange P)
      (I := fun st => st.num.size = 2 ^ 15 ∧ st.buckets.size = 2 ^ 23) (bound := bnd t n j - 3)
      (store := fun d => H9.store P d USIZE_MAX)
      (fun _ _ _ _ _ _ => rfl) ⟨Array.replicate (1 <<< 15) 0, Array.replicate (1 <<< 23) 0⟩
      ⟨by simp, by simp⟩ input _ (Nat.le_refl _)
      (fun i y hi hy => by
        have hw : (i &&& USIZE_MAX) + 4 ≤ (toBA input).size := by
          rw [toBA_size]; have := and_usize_le i; omega
        obtain ⟨st', h1, h2, h3⟩ := H9.store_some (P := P) (mask := USIZE_MAX) (st := y) hkey hy.1 hy.2 hw
        exact ⟨st', h1, h2, h3⟩)
    exact ⟨z, hz⟩
  · exact ⟨_, rfl⟩

/-- the shared index of an `AdvHasher` kind (input length a `usize`) -/
theorem shared_no_panic_adv {P : AdvP} (hP : P.Ok) (hkey : ∀ w, (P.mixWord w >>> P.shift) % U32 < P.bucketSize)
    (hm : P.blockMask < 2 ^ P.blockBits) (hla : 1 ≤ P.lookahead)
    (input : List Nat) (t n j : Nat) (ht : 0 < t) (hj : j ≤ t) (hn : n ≤ input.length) (hn64 : n ≤ 2 ^ 64) :
    ∃ st, (prebuilt (advModel P) input t n (P.lookahead - 1) j).1 = some st := by
  rw [prebuilt_closed_from (advModel P) (2 ^ 64) (advModel_additive hP) input t n _ ht hn64 j hj]
  have hle : bnd t n j ≤ n := bnd_le t n j ht hj
  have hpow : (1 <<< P.blockBits) = 2 ^ P.blockBits := by rw [Nat.shiftLeft_eq, Nat.one_mul]
  split
  · obtain ⟨z, hz, _⟩ := liftBulk_isSome (bulk := Adv.bulkStoreRange P)
      (I := fun st => Adv.sizesAsserted P st = true ∧ st.num.size = P.bucketSize ∧
        st.buckets.size = P.bucketSize * 2 ^ P.blockBits) (bound := 2 ^ 64)
      (store := fun d => Adv.store P d USIZE_MAX)
      (fun d s e st hst he => Adv.bulkStoreRange_eq_fold hP d USIZE_MAX s e he st hst.1)
      ⟨Array.replicate P.bucketSize 0, Array.replicate (P.bucketSize * (1 <<< P.blockBits)) 0⟩
      ⟨Adv.init_sizesAsserted P, by simp, by simp [hpow]⟩ input (bnd t n j - (P.lookahead - 1)) (by omega)
      (fun i y hi hy => by
        have hw : (i &&& USIZE_MAX) + P.lookahead ≤ (toBA input).size := by
          rw [toBA_size]; have := and_usize_le i; omega
        obtain ⟨st', h1, h2, h3⟩ := Adv.store_some (P := P) (mask := USIZE_MAX) (st := y) hkey hm hy.2.1 hy.2.2 hw
        exact ⟨st', h1, Adv.store_sizesAsserted hy.1 h1, h2, h3⟩)
    exact ⟨z, hz⟩
  · exact ⟨_, rfl⟩

/-! ### the job's own index (`StoreLookaheadThenStore` over its kept prefix) -/

/-- one `BulkStoreRange(d, usize::MAX, 0, m)` from the constructor's tables, `m + 7 ≤ d.len()` -/
theorem basic_bulk0_isSome {P : BasicP} (hP : P.Ok) (hs : P.sweep ≠ 0) (len : Nat)
    (hfit : ∀ w, P.hash w % U32 + P.sweep ≤ len) (d : List Nat) (m : Nat) (hm : m + 7 ≤ d.length) :
    ∃ b, (basicModel P len).bulk (basicModel P len).empty d 0 m = some b ∧ b.size = len :=
  liftBulk_isSome (I := fun b => b.size = len) (bound := m)
    (store := fun d => Basic.store P d USIZE_MAX)
    (fun d s e st _ _ => basic_fold hP d s e st) _ (by simp) d m (Nat.le_refl _)
    (fun i y hi hy => by
      have hw : (i &&& USIZE_MAX) + 8 ≤ (toBA d).size := by
        rw [toBA_size]; have := and_usize_le i; omega
      obtain ⟨b', h1, h2⟩ := Basic.store_some (P := P) (mask := USIZE_MAX) (b := y) hs (by rw [hy]; exact hfit) hw
      exact ⟨b', h1, h2.trans hy⟩)

theorem h9_bulk0_isSome {P : H9P} (hkey : ∀ w, P.hash w % U32 < 2 ^ 15) (d : List Nat) (m : Nat)
    (hm : m + 3 ≤ d.length) : ∃ st, (h9Model P).bulk (h9Model P).empty d 0 m = some st := by
  obtain ⟨z, hz, _⟩ := liftBulk_isSome (bulk := H9.bulkStoreRange P)
    (I := fun st => st.num.size = 2 ^ 15 ∧ st.buckets.size = 2 ^ 23) (bound := m)
    (store := fun d => H9.store P d USIZE_MAX)
    (fun _ _ _ _ _ _ => rfl) ⟨Array.replicate (1 <<< 15) 0, Array.replicate (1 <<< 23) 0⟩
    ⟨by simp, by simp⟩ d m (Nat.le_refl _)
    (fun i y hi hy => by
      have hw : (i &&& USIZE_MAX) + 4 ≤ (toBA d).size := by
        rw [toBA_size]; have := and_usize_le i; omega
      obtain ⟨st', h1, h2, h3⟩ := H9.store_some (P := P) (mask := USIZE_MAX) (st := y) hkey hy.1 hy.2 hw
      exact ⟨st', h1, h2, h3⟩)
  exact ⟨z, hz⟩

theorem adv_bulk0_isSome {P : AdvP} (hP : P.Ok) (hkey : ∀ w, (P.mixWord w >>> P.shift) % U32 < P.bucketSize)
    (hmk : P.blockMask < 2 ^ P.blockBits) (hla : 1 ≤ P.lookahead) (d : List Nat) (m : Nat)
    (hm : m + (P.lookahead - 1) ≤ d.length) (hm64 : m ≤ 2 ^ 64) :
    ∃ st, (advModel P).bulk (advModel P).empty d 0 m = some st := by
  have hpow : (1 <<< P.blockBits) = 2 ^ P.blockBits := by rw [Nat.shiftLeft_eq, Nat.one_mul]
  obtain ⟨z, hz, _⟩ := liftBulk_isSome (bulk := Adv.bulkStoreRange P)
    (I := fun st => Adv.sizesAsserted P st = true ∧ st.num.size = P.bucketSize ∧
      st.buckets.size = P.bucketSize * 2 ^ P.blockBits) (bound := 2 ^ 64)
    (store := fun d => Adv.store P d USIZE_MAX)
    (fun d s e st hst he => Adv.bulkStoreRange_eq_fold hP d USIZE_MAX s e he st hst.1)
    ⟨Array.replicate P.bucketSize 0, Array.replicate (P.bucketSize * (1 <<< P.blockBits)) 0⟩
    ⟨Adv.init_sizesAsserted P, by simp, by simp [hpow]⟩ d m hm64
    (fun i y hi hy => by
      have hw : (i &&& USIZE_MAX) + P.lookahead ≤ (toBA d).size := by
        rw [toBA_size]; have := and_usize_le i; omega
      obtain ⟨st', h1, h2, h3⟩ := Adv.store_some (P := P) (mask := USIZE_MAX) (st := y) hkey hmk hy.2.1 hy.2.2 hw
      exact ⟨st', h1, Adv.store_sizesAsserted hy.1 h1, h2, h3⟩)
  exact ⟨z, hz⟩

/-- the kept part of the prefix has at least `kept` bytes, and `kept ≤ size` -/
theorem dict_length (input : List Nat) (size lgwin quality : Nat) (hsz : size ≤ input.length) :
    (dictPlan size lgwin quality).kept ≤ ((input.take size).drop (dictPlan size lgwin quality).dropped).length ∧
    (dictPlan size lgwin quality).kept ≤ size := by
  simp only [List.length_drop, List.length_take, Nat.min_eq_left hsz]
  by_cases h0 : size = 0 ∨ quality = 0 ∨ quality = 1
  · simp [dictPlan, h0]
  · by_cases h1 : size > 2 ^ lgwin - 16
    · simp only [dictPlan, h0, h1, if_false, if_true]; omega
    · simp only [dictPlan, h0, h1, if_false]; omega

/-- `selfbuilt` does not panic as soon as one bulk store from the empty index over a buffer that
covers its look-ahead does not -/
theorem selfbuilt_isSome {σ : Type} (M : HasherModel (Option σ)) (he : ∃ x, M.empty = some x) (overlap : Nat)
    (hb : ∀ (d : List Nat) (m : Nat), m + overlap ≤ d.length → m ≤ 2 ^ 64 → ∃ st, M.bulk M.empty d 0 m = some st)
    (input : List Nat) (size lgwin quality : Nat) (hsz : size ≤ input.length) (h64 : size ≤ 2 ^ 64) :
    ∃ st, selfbuilt M input size lgwin quality overlap = some st := by
  unfold selfbuilt
  obtain ⟨hlen, hk⟩ := dict_length input size lgwin quality hsz
  dsimp only
  by_cases hgt : (dictPlan size lgwin quality).kept > overlap
  · rw [if_pos hgt]
    exact hb _ _ (by omega) (by omega)
  · rw [if_neg hgt]
    exact he

/-! ### the hash ranges of the real kinds -/

theorem basicHash_lt (hashLen bucketBits : Nat) (hb : bucketBits ≤ 64) (w : List Nat) :
    basicHash hashLen bucketBits w < 2 ^ bucketBits := by
  simp only [basicHash]
  exact shr_lt_of_lt (Nat.mod_lt _ (by decide)) hb

theorem adv32_key_lt (bucketBits blockBits : Nat) (hb : bucketBits ≤ 32) (w : List Nat) :
    ((adv32P bucketBits blockBits).mixWord w >>> (adv32P bucketBits blockBits).shift) % U32
      < (adv32P bucketBits blockBits).bucketSize := by
  simp only [adv32P]
  have e : (1 <<< bucketBits) = 2 ^ bucketBits := by rw [Nat.shiftLeft_eq, Nat.one_mul]
  rw [e]
  have h1 : (le w * kHashMul32) &&& 0xffffffff < 2 ^ 32 :=
    Nat.lt_of_le_of_lt Nat.and_le_right (by decide)
  exact Nat.lt_of_le_of_lt (Nat.mod_le _ _) (shr_lt_of_lt h1 hb)

theorem adv64_key_lt (bucketBits blockBits hashLen : Nat) (hb : bucketBits ≤ 64) (w : List Nat) :
    ((adv64P bucketBits blockBits hashLen).mixWord w >>> (adv64P bucketBits blockBits hashLen).shift) % U32
      < (adv64P bucketBits blockBits hashLen).bucketSize := by
  simp only [adv64P]
  have e : (1 <<< bucketBits) = 2 ^ bucketBits := by rw [Nat.shiftLeft_eq, Nat.one_mul]
  rw [e]
  exact Nat.lt_of_le_of_lt (Nat.mod_le _ _) (shr_lt_of_lt (Nat.mod_lt _ (by decide)) hb)

theorem mask_lt (blockBits : Nat) : (1 <<< blockBits) - 1 < 2 ^ blockBits := by
  rw [Nat.shiftLeft_eq, Nat.one_mul]
  have := Nat.pow_pos (n := blockBits) (show 0 < 2 by decide)
  omega

theorem h9std_key_lt (w : List Nat) : H9std.hash w % U32 < 2 ^ 15 := by
  simp only [H9std]
  have h1 : le w * kHashMul32 % U32 < 2 ^ 32 := Nat.mod_lt _ (by decide)
  have h2 : (le w * kHashMul32 % U32) >>> (32 - 15) < 2 ^ 15 := shr_lt_of_lt h1 (by decide)
  exact Nat.lt_of_le_of_lt (Nat.mod_le _ _) h2

end BV.Lemmas.Multi
