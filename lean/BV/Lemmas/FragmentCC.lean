/-
C01 / fragment writers, part 9: `CreateCommands` of the two-pass writer (model `createCommands`: the real
hash-table match finder) — basic facts: the wrapping arithmetic is exact on the ranges that occur, a table whose
entries are earlier positions stays such (`TB`), `IsMatch` / `FindMatchLengthWithLimit` answers mean byte equality,
and the candidate search `scan` returns only verified candidates in front of the position, within the distance limit.
-/
import BV.Lemmas.FragmentStep
namespace BV.Fragment
open BV.Bits BV.MetaBlock BV.Huffman BV.PrefixArith BV.Recoder

theorem bind_ok_iff {α β : Type} (x : Out α) (f : α → Out β) (b : β) :
    (x >>= f) = .ok b ↔ ∃ a, x = .ok a ∧ f a = .ok b := by
  cases x with
  | ok a =>
    constructor
    · intro h; exact ⟨a, rfl, h⟩
    · intro h; obtain ⟨a', h1, h2⟩ := h; cases h1; exact h2
  | panic =>
    constructor
    · intro h; cases h
    · intro h; obtain ⟨_, h1, _⟩ := h; cases h1
  | fuel =>
    constructor
    · intro h; cases h
    · intro h; obtain ⟨_, h1, _⟩ := h; cases h1

/-! ### wrapping arithmetic -/

theorem asI32_small (v : Nat) (h : v < 2147483648) : asI32 v = (v : Int) := by
  have e32 : two32 = 4294967296 := rfl
  unfold asI32
  have : v % two32 = v := Nat.mod_eq_of_lt (by omega)
  rw [this, if_pos h]

theorem i32AsUsize_nat (v : Nat) : i32AsUsize (v : Int) = v := by
  unfold i32AsUsize
  rw [if_pos (by omega)]
  exact Int.toNat_natCast v

theorem i32AsUsize_neg1 : i32AsUsize (-1) = two64 - 1 := by decide

theorem wsub_le (a b : Nat) (h : b ≤ a) (ha : a < 18446744073709551616) : wsub a b = a - b := by
  have e64 : two64 = 18446744073709551616 := rfl
  unfold wsub
  rw [Nat.mod_eq_of_lt (show b < two64 by omega)]
  have : a + two64 - b = (a - b) + two64 := by omega
  rw [this, Nat.add_mod_right]
  exact Nat.mod_eq_of_lt (by omega)

theorem wsub_gt (a b : Nat) (h : a < b) (hb : b < 18446744073709551616) : wsub a b = a + 18446744073709551616 - b := by
  have e64 : two64 = 18446744073709551616 := rfl
  unfold wsub
  rw [Nat.mod_eq_of_lt (show b < two64 by omega), e64]
  exact Nat.mod_eq_of_lt (by omega)

/-! ### the hash table holds earlier positions -/

/-- every entry of the table is a position in `[0, n)` -/
def TB (t : Array Int) (n : Nat) : Prop := ∀ i, i < t.size → 0 ≤ t.getD i 0 ∧ t.getD i 0 < (n : Int)

theorem TB.mono {t : Array Int} {n n' : Nat} (h : TB t n) (hn : n ≤ n') : TB t n' := fun i hi =>
  ⟨(h i hi).1, by have := (h i hi).2; omega⟩

theorem tset_TB (t t' : Array Int) (hh v n : Nat) (h : tset t hh v = .ok t') (ht : TB t n) (hv : v < n)
    (h31 : v < 2147483648) : TB t' n := by
  unfold tset at h
  by_cases hlt : hh < t.size
  · rw [if_pos hlt] at h
    injection h with h
    subst h
    intro i hi
    rw [Array.size_setIfInBounds] at hi
    rw [Array.getD_eq_getD_getElem?, Array.getElem?_setIfInBounds]
    by_cases e : hh = i
    · rw [if_pos e, if_pos hlt, asI32_small v h31]
      simp only [Option.getD_some]
      omega
    · rw [if_neg e, ← Array.getD_eq_getD_getElem?]
      exact ht i hi
  · rw [if_neg hlt] at h; cases h

theorem tget_TB (t : Array Int) (hh cand n : Nat) (h : tget t hh = .ok cand) (ht : TB t n) : cand < n := by
  unfold tget at h
  by_cases hlt : hh < t.size
  · rw [if_pos hlt] at h
    injection h with h
    obtain ⟨h0, h1⟩ := ht hh hlt
    rw [← h]
    unfold i32AsUsize
    rw [if_pos h0]
    omega
  · rw [if_neg hlt] at h; cases h

/-! ### `IsMatch`, `FindMatchLengthWithLimit` -/

theorem load32_eq (a : Array Nat) (hb : ∀ i, a.getD i 0 < 256) (i j x y : Nat) (hx : load32 a i = .ok x)
    (hy : load32 a j = .ok y) (hxy : x = y) : ∀ k, k < 4 → a.getD (i + k) 0 = a.getD (j + k) 0 := by
  unfold load32 at hx hy
  by_cases h1 : i + 4 ≤ a.size
  · by_cases h2 : j + 4 ≤ a.size
    · rw [if_pos h1] at hx
      rw [if_pos h2] at hy
      injection hx with hx
      injection hy with hy
      have b0 := hb i; have b1 := hb (i + 1); have b2 := hb (i + 2); have b3 := hb (i + 3)
      have c0 := hb j; have c1 := hb (j + 1); have c2 := hb (j + 2); have c3 := hb (j + 3)
      intro k hk
      have : k = 0 ∨ k = 1 ∨ k = 2 ∨ k = 3 := by omega
      rcases this with rfl | rfl | rfl | rfl <;> (try simp only [Nat.add_zero]) <;> omega
    · rw [if_neg h2] at hy; cases hy
  · rw [if_neg h1] at hx; cases hx

theorem isMatch_true (a : Array Nat) (hb : ∀ i, a.getD i 0 < 256) (i j len : Nat) (hl : len = 4 ∨ len = 6)
    (h : isMatch a i j len = .ok true) : ∀ k, k < len → a.getD (i + k) 0 = a.getD (j + k) 0 := by
  unfold isMatch at h
  by_cases h0 : i > a.size ∨ j > a.size
  · rw [if_pos h0] at h; cases h
  rw [if_neg h0] at h
  cases hx : load32 a i with
  | panic => rw [hx] at h; cases h
  | fuel => rw [hx] at h; cases h
  | ok x =>
  cases hy : load32 a j with
  | panic => rw [hx, hy] at h; cases h
  | fuel => rw [hx, hy] at h; cases h
  | ok y =>
  rw [hx, hy] at h
  simp only [bind_ok'] at h
  by_cases hxy : x ≠ y
  · rw [if_pos hxy] at h; cases h
  rw [if_neg hxy] at h
  have hxy' : x = y := by omega
  have h4 := load32_eq a hb i j x y hx hy hxy'
  by_cases hl4 : len = 4
  · intro k hk; exact h4 k (by omega)
  rw [if_neg hl4] at h
  have hl6 : len = 6 := by omega
  by_cases hr : i + 5 < a.size ∧ j + 5 < a.size
  · rw [if_pos hr] at h
    injection h with h
    simp only [Bool.and_eq_true, beq_iff_eq] at h
    intro k hk
    by_cases hk4 : k < 4
    · exact h4 k hk4
    · have : k = 4 ∨ k = 5 := by omega
      rcases this with rfl | rfl
      · exact h.1
      · exact h.2
  · rw [if_neg hr] at h
    split at h <;> cases h

theorem fml_go (a : Array Nat) (i j : Nat) : ∀ (f k : Nat),
    (∀ k', k' < k → a.getD (i + k') 0 = a.getD (j + k') 0) →
    findMatchLength.go a i j f k ≤ k + f ∧
      ∀ k', k' < findMatchLength.go a i j f k → a.getD (i + k') 0 = a.getD (j + k') 0 := by
  intro f
  induction f with
  | zero => intro k hk; exact ⟨by simp [findMatchLength.go], by simpa [findMatchLength.go] using hk⟩
  | succ f ih =>
    intro k hk
    rw [findMatchLength.go]
    by_cases he : (a.getD (i + k) 0 == a.getD (j + k) 0) = true
    · rw [if_pos he]
      obtain ⟨l1, l2⟩ := ih (k + 1) (fun k' hk' => by
        by_cases e : k' = k
        · subst e; exact beq_iff_eq.mp he
        · exact hk k' (by omega))
      exact ⟨by omega, l2⟩
    · rw [if_neg he]
      exact ⟨by omega, hk⟩

theorem findMatchLength_ok (a : Array Nat) (i j limit n : Nat) (h : findMatchLength a i j limit = .ok n) :
    n ≤ limit ∧ ∀ k, k < n → a.getD (i + k) 0 = a.getD (j + k) 0 := by
  unfold findMatchLength at h
  split at h
  · cases h
  · injection h with h
    subst h
    have := fml_go a i j limit 0 (fun k' hk' => by omega)
    exact ⟨by omega, this.2⟩

theorem getD_toList (a : Array Nat) (i : Nat) : a.toList.getD i 0 = a.getD i 0 := by
  rw [List.getD_eq_getElem?_getD, Array.getD_eq_getD_getElem?, Array.getElem?_toList]

/-! ### the candidate search -/

theorem scan_succ (inp : Array Nat) (shift minMatch ipLimit f skip nextIp nextHash : Nat) (c : CC) :
    scan inp shift minMatch ipLimit (f + 1) skip nextIp nextHash c =
    if nextIp + skip / 32 > ipLimit then
      Out.ok ({ c with ip := nextIp }, none)
    else
      load64 inp (nextIp + skip / 32) >>= fun v =>
      isMatch inp nextIp (wsub nextIp (i32AsUsize c.lastDist)) minMatch >>= fun m =>
      if m = true ∧ wsub nextIp (i32AsUsize c.lastDist) < nextIp then
        tset c.table nextHash nextIp >>= fun t =>
        if wsub nextIp (wsub nextIp (i32AsUsize c.lastDist)) > 262128 then
          scan inp shift minMatch ipLimit f ((skip + 1) % two32) (nextIp + skip / 32) (hashAt v 0 shift minMatch)
            { c with table := t, ip := nextIp }
        else
          Out.ok ({ c with table := t, ip := nextIp }, some (wsub nextIp (i32AsUsize c.lastDist)))
      else
        tget c.table nextHash >>= fun cand =>
        tset c.table nextHash nextIp >>= fun t =>
        isMatch inp nextIp cand minMatch >>= fun m =>
        if m = true then
          if wsub nextIp cand > 262128 then
            scan inp shift minMatch ipLimit f ((skip + 1) % two32) (nextIp + skip / 32) (hashAt v 0 shift minMatch)
              { c with table := t, ip := nextIp }
          else
            Out.ok ({ c with table := t, ip := nextIp }, some cand)
        else
          scan inp shift minMatch ipLimit f ((skip + 1) % two32) (nextIp + skip / 32) (hashAt v 0 shift minMatch)
            { c with table := t, ip := nextIp } := by
  rw [scan]

/-- `scan` (the candidate search of `CreateCommands`) changes only the table and the position; a candidate it
returns lies in front of the position, within `2^18 − 16`, and `IsMatch` confirmed it; table entries stay
earlier positions. -/
theorem scan_ok (inp : Array Nat) (shift minMatch ipLimit ipEnd : Nat) (hlim : ipLimit ≤ ipEnd)
    (hend : ipEnd < 2147483648) :
    ∀ (f skip nextIp nextHash : Nat) (c c' : CC) (r : Option Nat),
      scan inp shift minMatch ipLimit f skip nextIp nextHash c = .ok (c', r) →
      TB c.table nextIp → 32 ≤ skip → skip + f ≤ 4294967295 → nextIp ≤ ipEnd →
      c'.cmds = c.cmds ∧ c'.lits = c.lits ∧ c'.nextEmit = c.nextEmit ∧ c'.lastDist = c.lastDist ∧
      TB c'.table (c'.ip + 1) ∧ nextIp ≤ c'.ip ∧ c'.ip ≤ ipEnd ∧
      ∀ cand, r = some cand → cand < c'.ip ∧ c'.ip - cand ≤ 262128 ∧ c'.ip < ipLimit ∧
        isMatch inp c'.ip cand minMatch = .ok true := by
  have e32 : two32 = 4294967296 := rfl
  intro f
  induction f with
  | zero => intro skip nextIp nextHash c c' r h; simp [scan] at h
  | succ f ih =>
  intro skip nextIp nextHash c c' r h htb hskip hfuel hnip
  rw [scan_succ] at h
  have hbt : 1 ≤ skip / 32 := by omega
  have hsk : (skip + 1) % two32 = skip + 1 := Nat.mod_eq_of_lt (by omega)
  by_cases hexit : nextIp + skip / 32 > ipLimit
  · rw [if_pos hexit] at h
    injection h with h
    injection h with h1 h2
    subst h1 h2
    exact ⟨rfl, rfl, rfl, rfl, htb.mono (Nat.le_succ _), Nat.le_refl _, hnip, fun cand hc => by cases hc⟩
  rw [if_neg hexit] at h
  cases hv : load64 inp (nextIp + skip / 32) with
  | panic => rw [hv] at h; cases h
  | fuel => rw [hv] at h; cases h
  | ok v =>
  rw [hv] at h
  rw [bind_ok'] at h
  cases hm : isMatch inp nextIp (wsub nextIp (i32AsUsize c.lastDist)) minMatch with
  | panic => rw [hm] at h; cases h
  | fuel => rw [hm] at h; cases h
  | ok m =>
  rw [hm] at h
  rw [bind_ok'] at h
  -- what the recursive calls give
  have hrec : ∀ (sk' nip' nh' : Nat) (cc : CC),
      scan inp shift minMatch ipLimit f sk' nip' nh' cc = .ok (c', r) →
      sk' = skip + 1 → nip' = nextIp + skip / 32 →
      cc.cmds = c.cmds → cc.lits = c.lits → cc.nextEmit = c.nextEmit → cc.lastDist = c.lastDist →
      TB cc.table (nextIp + 1) →
      c'.cmds = c.cmds ∧ c'.lits = c.lits ∧ c'.nextEmit = c.nextEmit ∧ c'.lastDist = c.lastDist ∧
      TB c'.table (c'.ip + 1) ∧ nextIp ≤ c'.ip ∧ c'.ip ≤ ipEnd ∧
      ∀ cand, r = some cand → cand < c'.ip ∧ c'.ip - cand ≤ 262128 ∧ c'.ip < ipLimit ∧
        isMatch inp c'.ip cand minMatch = .ok true := by
    intro sk' nip' nh' cc hs e1 e2 b1 b2 b3 b4 ht
    subst e1 e2
    obtain ⟨a1, a2, a3, a4, a5, a6, a7, a8⟩ := ih (skip + 1) (nextIp + skip / 32) nh' cc c' r hs
      (ht.mono (by omega)) (by omega) (by omega) (by omega)
    exact ⟨a1.trans b1, a2.trans b2, a3.trans b3, a4.trans b4, a5, by omega, a7, a8⟩
  by_cases hfirst : m = true ∧ wsub nextIp (i32AsUsize c.lastDist) < nextIp
  · rw [if_pos hfirst] at h
    cases ht : tset c.table nextHash nextIp with
    | panic => rw [ht] at h; cases h
    | fuel => rw [ht] at h; cases h
    | ok t =>
    rw [ht] at h
    rw [bind_ok'] at h
    have htb' : TB t (nextIp + 1) := tset_TB c.table t nextHash nextIp (nextIp + 1) ht (htb.mono (by omega))
      (by omega) (by omega)
    by_cases hfar : wsub nextIp (wsub nextIp (i32AsUsize c.lastDist)) > 262128
    · rw [if_pos hfar] at h
      exact hrec _ _ _ _ h hsk rfl rfl rfl rfl rfl htb'
    · rw [if_neg hfar] at h
      injection h with h
      injection h with h1 h2
      subst h1 h2
      refine ⟨rfl, rfl, rfl, rfl, htb', Nat.le_refl _, by simp only []; omega, ?_⟩
      intro cand hc
      injection hc with hc
      subst hc
      simp only []
      rw [wsub_le nextIp _ (by omega) (by omega)] at hfar
      refine ⟨hfirst.2, by omega, by omega, ?_⟩
      rw [hm, hfirst.1]
  · rw [if_neg hfirst] at h
    cases hg : tget c.table nextHash with
    | panic => rw [hg] at h; cases h
    | fuel => rw [hg] at h; cases h
    | ok cand =>
    rw [hg] at h
    rw [bind_ok'] at h
    have hcand : cand < nextIp := tget_TB c.table nextHash cand nextIp hg htb
    cases ht : tset c.table nextHash nextIp with
    | panic => rw [ht] at h; cases h
    | fuel => rw [ht] at h; cases h
    | ok t =>
    rw [ht] at h
    rw [bind_ok'] at h
    have htb' : TB t (nextIp + 1) := tset_TB c.table t nextHash nextIp (nextIp + 1) ht (htb.mono (by omega))
      (by omega) (by omega)
    cases hm2 : isMatch inp nextIp cand minMatch with
    | panic => rw [hm2] at h; cases h
    | fuel => rw [hm2] at h; cases h
    | ok m2 =>
    rw [hm2] at h
    rw [bind_ok'] at h
    by_cases hm2t : m2 = true
    · rw [if_pos hm2t] at h
      by_cases hfar : wsub nextIp cand > 262128
      · rw [if_pos hfar] at h
        exact hrec _ _ _ _ h hsk rfl rfl rfl rfl rfl htb'
      · rw [if_neg hfar] at h
        injection h with h
        injection h with h1 h2
        subst h1 h2
        refine ⟨rfl, rfl, rfl, rfl, htb', Nat.le_refl _, by simp only []; omega, ?_⟩
        intro cand' hc
        injection hc with hc
        subst hc
        simp only []
        rw [wsub_le nextIp _ (by omega) (by omega)] at hfar
        refine ⟨hcand, by omega, by omega, ?_⟩
        rw [hm2, hm2t]
    · rw [if_neg hm2t] at h
      exact hrec _ _ _ _ h hsk rfl rfl rfl rfl rfl htb'

end BV.Fragment
