/-
C01 / meta-block writers, part 2: one command.  What `StoreCommandExtra` writes for a command that
`Command::init` could have built (`cmdOK`) is the RFC 7932 §5 extra-bits field of the command symbol:
insert extra bits, then copy extra bits, and the symbol decodes (`rfcCmdDecode`, `rfcInsTable`,
`rfcCopyTable`) to the command's insert length and copy length code.  (Uses C18.)
-/
import BV.Lemmas.MetaBlockHeader
import BV.Lemmas.HeaderStoredDecode

namespace BV.MetaBlock
open BV.Gen BV.Bits BV.Huffman BV.PrefixArith BV.Recoder
open BV.Header (writeBits_ok bitsOf_add)
open BV.Lemmas.HuffmanRead (takeBits_bitsOf bitsOf_length)

/-- writer tables `depth` / `bits` and reader code `code` agree on symbol `s`: the bits
`BrotliWriteBits(depth[s], bits[s])` appends are decoded to `s` by the reader, which stops behind them -/
def SymIO (depth bits : List Nat) (code : Code) (s : Nat) : Prop :=
  ∃ sb : List Bool, (∀ w, storeSym depth bits s w = .ok (w ++ sb)) ∧
    ∀ rest, code.read (sb ++ rest) = some (s, rest)

theorem getAt_ok {α : Type} (l : List α) (i : Nat) (x : α) (h : l[i]? = some x) : getAt l i = .ok x := by
  simp [getAt, h]

theorem getAt_getD (l : List Nat) (i : Nat) (h : i < l.length) : getAt l i = .ok (l.getD i 0) := by
  unfold getAt
  rw [List.getD_eq_getElem?_getD, List.getElem?_eq_getElem h]
  rfl

theorem bitsOf_pair (m n a b : Nat) (ha : a < 2 ^ m) :
    bitsOf (m + n) (b * 2 ^ m ||| a) = bitsOf m a ++ bitsOf n b := by
  have hp : 0 < 2 ^ m := Nat.pow_pos (by decide)
  rw [Nat.or_comm, BV.Stored.or_eq_add_shift a b m ha, bitsOf_add]
  congr 1
  · apply BV.Stored.bitsOf_congr
    rw [Nat.add_mul_mod_self_right]
  · rw [Nat.add_mul_div_right _ _ hp, Nat.div_eq_of_lt ha, Nat.zero_add]

theorem ins_extra_le : ∀ i : Fin 24, kInsExtra.getD i.val 0 ≤ 24 ∧ kInsBase.getD i.val 0 ≤ 22594 := by decide
theorem copy_extra_le : ∀ i : Fin 24, kCopyExtra.getD i.val 0 ≤ 24 ∧ kCopyBase.getD i.val 0 ≤ 2118 := by decide

theorem rfcIns_get : ∀ i : Fin 24, rfcInsTable[i.val]? = some (kInsBase.getD i.val 0, kInsExtra.getD i.val 0) := by
  decide
theorem rfcCopy_get : ∀ i : Fin 24, rfcCopyTable[i.val]? = some (kCopyBase.getD i.val 0, kCopyExtra.getD i.val 0) := by
  decide

/-- `StoreCommandExtra` once its four table reads succeed -/
theorem storeCommandExtraM_eq (c : Cmd) (w : Writer) (ie ib cb ce : Nat)
    (h1 : getAt kInsExtra (getInsertLengthCode c.insertLen) = .ok ie)
    (h2 : getAt kInsBase (getInsertLengthCode c.insertLen) = .ok ib)
    (h3 : getAt kCopyBase (getCopyLengthCode (copyLenCode c.copyLenField)) = .ok cb)
    (h4 : getAt kCopyExtra (getCopyLengthCode (copyLenCode c.copyLenField)) = .ok ce) :
    storeCommandExtraM c w = writeBits ((ie + ce) % 256)
      ((((copyLenCode c.copyLenField + two32 - cb) % two32) * 2 ^ ie) % two64 |||
        ((c.insertLen + two32 - ib) % two32)) w := by
  unfold storeCommandExtraM
  simp only [h1, h2, h3, h4]
  rw [Out.bind_ok, Out.bind_ok, Out.bind_ok, Out.bind_ok]

/-- facts about one well-formed command: symbol, tables, extra bits -/
theorem cmd_facts (A np nd : Nat) (c : Cmd) (h : cmdOK A np nd c = true) :
    ∃ ic cc ib ie cb ce : Nat,
      c.cmdPrefix < 704 ∧ (rfcCmdDecode c.cmdPrefix).1 = ic ∧ (rfcCmdDecode c.cmdPrefix).2.1 = cc ∧
      rfcInsTable[ic]? = some (ib, ie) ∧ rfcCopyTable[cc]? = some (cb, ce) ∧
      ib ≤ c.insertLen ∧ c.insertLen - ib < 2 ^ ie ∧
      cb ≤ copyLenCode c.copyLenField ∧ copyLenCode c.copyLenField - cb < 2 ^ ce ∧
      ∀ w, storeCommandExtraM c w
        = .ok (w ++ (bitsOf ie (c.insertLen - ib) ++ bitsOf ce (copyLenCode c.copyLenField - cb))) := by
  simp only [cmdOK, Bool.and_eq_true, decide_eq_true_eq] at h
  obtain ⟨⟨⟨⟨⟨⟨⟨hpre, hins⟩, hc2⟩, hcu⟩, _⟩, _⟩, _⟩, _⟩ := h
  generalize hclc : copyLenCode c.copyLenField = clc at *
  have p24 : (2 : Nat) ^ 24 = 16777216 := by decide
  obtain ⟨i1, i2, i3⟩ := BV.Props.C18.ins_code_exact c.insertLen (by rw [p24]; omega)
  obtain ⟨c1, c2, c3⟩ := BV.Props.C18.copy_code_exact clc hc2 (by rw [p24]; omega)
  generalize hic : getInsertLengthCode c.insertLen = ic at *
  generalize hcc : getCopyLengthCode clc = cc at *
  obtain ⟨s1, s2⟩ := BV.Props.C18.cmd_symbol_exact ⟨ic, i1⟩ ⟨cc, c1⟩ (c.distPrefix % 1024 == 0)
  simp only at s1 s2
  have hpre' : c.cmdPrefix = combineLengthCodes ic cc (c.distPrefix % 1024 == 0) := by
    rw [hpre]; unfold getLengthCode; rw [hic, hcc]
  obtain ⟨ie24, ib24⟩ := ins_extra_le ⟨ic, i1⟩
  obtain ⟨ce24, cb24⟩ := copy_extra_le ⟨cc, c1⟩
  simp only at ie24 ib24 ce24 cb24
  have hie := rfcIns_get ⟨ic, i1⟩
  have hce := rfcCopy_get ⟨cc, c1⟩
  simp only at hie hce
  generalize hIB : kInsBase.getD ic 0 = ib at *
  generalize hIE : kInsExtra.getD ic 0 = ie at *
  generalize hCB : kCopyBase.getD cc 0 = cb at *
  generalize hCE : kCopyExtra.getD cc 0 = ce at *
  refine ⟨ic, cc, ib, ie, cb, ce, by rw [hpre']; exact s1, by rw [hpre', s2], by rw [hpre', s2], hie, hce,
    i2, by omega, c2, by omega, ?_⟩
  intro w
  have l1 : kInsExtra.length = 24 := by decide
  have l2 : kInsBase.length = 24 := by decide
  have l3 : kCopyBase.length = 24 := by decide
  have l4 : kCopyExtra.length = 24 := by decide
  have g1 := getAt_getD kInsExtra ic (by omega)
  have g2 := getAt_getD kInsBase ic (by omega)
  have g3 := getAt_getD kCopyBase cc (by omega)
  have g4 := getAt_getD kCopyExtra cc (by omega)
  rw [hIE] at g1
  rw [hIB] at g2
  rw [hCB] at g3
  rw [hCE] at g4
  rw [← hic] at g1 g2
  rw [← hcc, ← hclc] at g3 g4
  rw [storeCommandExtraM_eq c w ie ib cb ce g1 g2 g3 g4, hclc]
  have e1 : (c.insertLen + two32 - ib) % two32 = c.insertLen - ib := by
    unfold two32
    have : c.insertLen + 4294967296 - ib = (c.insertLen - ib) + 4294967296 := by omega
    rw [this, Nat.add_mod_right, Nat.mod_eq_of_lt (by omega)]
  have e2 : (clc + two32 - cb) % two32 = clc - cb := by
    unfold two32
    have : clc + 4294967296 - cb = (clc - cb) + 4294967296 := by omega
    rw [this, Nat.add_mod_right, Nat.mod_eq_of_lt (by omega)]
  rw [e1, e2]
  have hiep : 2 ^ ie ≤ 2 ^ 24 := Nat.pow_le_pow_right (by decide) ie24
  have hcep : 2 ^ ce ≤ 2 ^ 24 := Nat.pow_le_pow_right (by decide) ce24
  have hprod : (clc - cb) * 2 ^ ie < 2 ^ ce * 2 ^ ie := Nat.mul_lt_mul_of_pos_right (by omega) (Nat.pow_pos (by decide))
  have hprod2 : 2 ^ ce * 2 ^ ie ≤ 2 ^ 24 * 2 ^ 24 := Nat.mul_le_mul hcep hiep
  have p48 : (2 : Nat) ^ 24 * 2 ^ 24 = 281474976710656 := by decide
  have e3 : (clc - cb) * 2 ^ ie % two64 = (clc - cb) * 2 ^ ie := Nat.mod_eq_of_lt (by unfold two64; omega)
  rw [e3, Nat.mod_eq_of_lt (show ie + ce < 256 by omega)]
  have hlt : (clc - cb) * 2 ^ ie ||| (c.insertLen - ib) < 2 ^ (ie + ce) := by
    rw [Nat.or_comm, BV.Stored.or_eq_add_shift _ _ _ (show c.insertLen - ib < 2 ^ ie by omega), Nat.pow_add]
    have : (clc - cb) + 1 ≤ 2 ^ ce := by omega
    have := Nat.mul_le_mul_right (2 ^ ie) this
    rw [Nat.add_mul, Nat.one_mul] at this
    have h5 : 2 ^ ce * 2 ^ ie = 2 ^ ie * 2 ^ ce := Nat.mul_comm _ _
    omega
  rw [writeBits_ok _ _ _ hlt (by omega), bitsOf_pair ie ce _ _ (by omega)]

end BV.MetaBlock
