import BV.Lemmas.MatchLoops
/-! `FindLongestMatch` of the three families: what is returned with `true` is a sound copy or a
static-dictionary reference — for every table, every distance cache, every data buffer. -/
namespace BV.MatchFinder
open BV.Hasher

/-- the result of a successful search: a copy inside the window or a dictionary reference -/
def Sound (dict : Option (List DictItem)) (data : ByteArray) (m cm curIx maxLength maxBackward
    maxDistance : Nat) (o : SR) : Prop :=
  CopyOK data m cm curIx maxLength maxBackward o ∨
    ∃ items, dict = some items ∧ DictOK items data cm maxLength maxBackward maxDistance o

theorem dictPhase_sound {lbs : Nat} {dict : Option (List DictItem)} {data : ByteArray}
    {m cm curIx maxLength maxBackward maxDistance : Nat} {s : LoopSt} {c c' : Common} {f : Bool} {o : SR}
    (hI : Inv data m cm curIx maxLength maxBackward s)
    (h : Adv.dictPhase lbs dict data cm maxLength maxBackward maxDistance s c = some (f, o, c'))
    (hf : f = true) : Sound dict data m cm curIx maxLength maxBackward maxDistance o := by
  unfold Adv.dictPhase at h
  cases dict with
  | none =>
    simp only [Option.some.injEq, Prod.mk.injEq] at h
    obtain ⟨h1, h2, _⟩ := h
    subst h2
    exact Or.inl (hI.2 (by rw [h1]; exact hf))
  | some items =>
    simp only [] at h
    by_cases hfound : ¬ s.found = true
    · rw [if_pos hfound] at h
      by_cases hcm : cm > data.size
      · rw [if_pos hcm] at h; cases h
      · rw [if_neg hcm] at h
        exact Or.inr ⟨items, rfl, (search_sound h).1 hf⟩
    · rw [if_neg hfound] at h
      simp only [Option.some.injEq, Prod.mk.injEq] at h
      obtain ⟨_, h2, _⟩ := h
      subst h2
      exact Or.inl (hI.2 (Decidable.of_not_not hfound))

/-! ### AdvHasher -/

theorem Adv.scan_inv {P : AdvP} {lbs : Nat} {data : ByteArray} {mask curIx cm maxLength maxBackward : Nat}
    {s s' : LoopSt} {st st' : AdvSt} (hI : Inv data mask cm curIx maxLength maxBackward s)
    (h : Adv.scan P lbs data mask curIx cm maxLength maxBackward s st = some (s', st')) :
    Inv data mask cm curIx maxLength maxBackward s' := by
  obtain ⟨num, buckets⟩ := st
  unfold Adv.scan at h
  simp only [] at h
  cases hk : BV.Hasher.Adv.hashAt P data cm with
  | none => simp only [hk] at h; cases h
  | some key =>
    simp only [hk] at h
    cases hn : rd num key with
    | none => simp only [hn] at h; cases h
    | some n =>
      simp only [hn] at h
      by_cases hsz : (key <<< P.blockBits) % U32 + 1 <<< P.blockBits > buckets.size ∨ 1 <<< P.blockBits ≤ P.blockMask
      · rw [if_pos hsz] at h; cases h
      · rw [if_neg hsz] at h
        -- the loop
        have hloop : ∀ s1, (if n ≠ 0 then
            Adv.bucketLoop lbs data mask curIx cm maxLength maxBackward P.blockMask
              (fun j => if j < 1 <<< P.blockBits then rd buckets ((key <<< P.blockBits) % U32 + j) else none)
              (n - if n > 1 <<< P.blockBits then n - 1 <<< P.blockBits else 0) n s
          else some s) = some s1 → Inv data mask cm curIx maxLength maxBackward s1 := by
          intro s1 hs1
          by_cases hn0 : n ≠ 0
          · rw [if_pos hn0] at hs1; exact Adv.bucketLoop_inv _ _ _ _ _ hI hs1
          · rw [if_neg hn0] at hs1; injection hs1 with hs1; subst hs1; exact hI
        revert h
        generalize (if n ≠ 0 then
            Adv.bucketLoop lbs data mask curIx cm maxLength maxBackward P.blockMask
              (fun j => if j < 1 <<< P.blockBits then rd buckets ((key <<< P.blockBits) % U32 + j) else none)
              (n - if n > 1 <<< P.blockBits then n - 1 <<< P.blockBits else 0) n s
          else some s) = lr at hloop
        intro h
        cases lr with
        | none => cases h
        | some s1 =>
          have hI1 := hloop s1 rfl
          simp only [] at h
          by_cases hslot : (n % U32) &&& P.blockMask ≥ 1 <<< P.blockBits
          · rw [if_pos hslot] at h; cases h
          · rw [if_neg hslot] at h
            cases hw1 : wr buckets ((key <<< P.blockBits) % U32 + ((n % U32) &&& P.blockMask)) (curIx % U32) with
            | none => simp only [hw1] at h; cases h
            | some b1 =>
              simp only [hw1] at h
              cases hw2 : wr num key ((n + 1) % U16) with
              | none => simp only [hw2] at h; cases h
              | some n1 =>
                simp only [hw2, Option.some.injEq, Prod.mk.injEq] at h
                obtain ⟨rfl, _⟩ := h
                exact hI1

/-- `AdvHasher::FindLongestMatch` -/
theorem Adv.findLongestMatch_sound {P : AdvP} {numLast lbs : Nat} {dict : Option (List DictItem)}
    {data : ByteArray} {mask : Nat} {cache : List Int} {curIx maxLength maxBackward maxDistance : Nat}
    {out o : SR} {st st' : AdvSt} {c c' : Common} (hc : curIx < U64)
    (h : Adv.findLongestMatch P numLast lbs dict data mask cache curIx maxLength maxBackward maxDistance
      out st c = some (true, o, st', c')) :
    Sound dict data mask (curIx &&& mask) curIx maxLength maxBackward maxDistance o := by
  unfold Adv.findLongestMatch at h
  simp only [] at h
  by_cases hcm : curIx &&& mask > data.size
  · rw [if_pos hcm] at h; cases h
  · rw [if_neg hcm] at h
    cases h1 : forRange (Adv.cacheStep lbs data mask curIx (curIx &&& mask) maxLength maxBackward cache) 0 numLast
        ⟨out.score, out.len, { out with len := 0, lenXCode := 0 }, false⟩ with
    | none => simp only [h1] at h; cases h
    | some s1 =>
      simp only [h1] at h
      have hI1 : Inv data mask (curIx &&& mask) curIx maxLength maxBackward s1 :=
        forRange_inv (I := Inv data mask (curIx &&& mask) curIx maxLength maxBackward)
          (fun i x y hx hxy => Adv.cacheStep_inv hc i x y hx hxy) numLast 0 _ s1
          ⟨rfl, fun hh => (by cases hh)⟩ h1
      cases h2 : Adv.scan P lbs data mask curIx (curIx &&& mask) maxLength maxBackward s1 st with
      | none => simp only [h2] at h; cases h
      | some r =>
        obtain ⟨s2, st2⟩ := r
        simp only [h2] at h
        have hI2 := Adv.scan_inv hI1 h2
        cases h3 : Adv.dictPhase lbs dict data (curIx &&& mask) maxLength maxBackward maxDistance s2 c with
        | none => simp only [h3] at h; cases h
        | some r3 =>
          obtain ⟨f, o3, c3⟩ := r3
          simp only [h3, Option.some.injEq, Prod.mk.injEq] at h
          obtain ⟨rfl, rfl, _, _⟩ := h
          exact dictPhase_sound hI2 h3 rfl

/-! ### H9 -/

theorem H9.scan_inv {P : H9P} {lbs : Nat} {data : ByteArray} {mask curIx cm maxLength maxBackward : Nat}
    {s s' : LoopSt} {st st' : AdvSt} (hI : Inv data mask cm curIx maxLength maxBackward s)
    (h : H9.scan P lbs data mask curIx cm maxLength maxBackward s st = some (s', st')) :
    Inv data mask cm curIx maxLength maxBackward s' := by
  obtain ⟨num, buckets⟩ := st
  unfold H9.scan at h
  simp only [] at h
  by_cases hcond : maxLength ≥ 4 ∧ cm + s.bestLen ≤ mask
  · rw [if_pos hcond] at h
    cases hw : win data cm 4 with
    | none => simp only [hw] at h; cases h
    | some w =>
      simp only [hw] at h
      by_cases hsz : (P.hash w % U32) <<< BV.Hasher.H9.BLOCK_BITS + 256 > buckets.size
      · rw [if_pos hsz] at h; cases h
      · rw [if_neg hsz] at h
        cases hn : rd num (P.hash w % U32) with
        | none => simp only [hn] at h; cases h
        | some n =>
          simp only [hn] at h
          cases hb : byteAt data (cm + s.bestLen) with
          | none => simp only [hb] at h; cases h
          | some pbv =>
            simp only [hb] at h
            cases hl : H9.bucketLoop lbs data mask curIx cm maxLength maxBackward
                (fun j => if j < 256 then rd buckets ((P.hash w % U32) <<< BV.Hasher.H9.BLOCK_BITS + j) else none)
                (n - if n > 256 then n - 256 else 0) n ⟨s, pbv⟩ with
            | none => simp only [hl] at h; cases h
            | some t =>
              simp only [hl] at h
              have hI1 := H9.bucketLoop_inv _ _ _ ⟨s, pbv⟩ t hI hl
              cases hw1 : wr buckets ((P.hash w % U32) <<< BV.Hasher.H9.BLOCK_BITS + (n &&& BV.Hasher.H9.BLOCK_MASK))
                  (curIx % U32) with
              | none => simp only [hw1] at h; cases h
              | some b1 =>
                simp only [hw1] at h
                cases hw2 : wr num (P.hash w % U32) ((n + 1) % U16) with
                | none => simp only [hw2] at h; cases h
                | some n1 =>
                  simp only [hw2, Option.some.injEq, Prod.mk.injEq] at h
                  obtain ⟨rfl, _⟩ := h
                  exact hI1
  · rw [if_neg hcond] at h
    simp only [Option.some.injEq, Prod.mk.injEq] at h
    obtain ⟨rfl, _⟩ := h
    exact hI

/-- `H9::FindLongestMatch` -/
theorem H9.findLongestMatch_sound {P : H9P} {lbs : Nat} {dict : Option (List DictItem)}
    {data : ByteArray} {mask : Nat} {cache : List Int} {curIx maxLength maxBackward maxDistance : Nat}
    {out o : SR} {st st' : AdvSt} {c c' : Common} (hc : curIx < U64)
    (h : H9.findLongestMatch P lbs dict data mask cache curIx maxLength maxBackward maxDistance
      out st c = some (true, o, st', c')) :
    Sound dict data mask (curIx &&& mask) curIx maxLength maxBackward maxDistance o := by
  unfold H9.findLongestMatch at h
  simp only [] at h
  cases h1 : forRange (H9.cacheStep lbs data mask curIx (curIx &&& mask) maxLength maxBackward cache) 0 16
      ⟨out.score, out.len, { out with lenXCode := 0 }, false⟩ with
  | none => simp only [h1] at h; cases h
  | some s1 =>
    simp only [h1] at h
    have hI1 : Inv data mask (curIx &&& mask) curIx maxLength maxBackward s1 :=
      forRange_inv (I := Inv data mask (curIx &&& mask) curIx maxLength maxBackward)
        (fun i x y hx hxy => H9.cacheStep_inv hc i x y hx hxy) 16 0 _ s1
        ⟨rfl, fun hh => (by cases hh)⟩ h1
    cases h2 : H9.scan P lbs data mask curIx (curIx &&& mask) maxLength maxBackward s1 st with
    | none => simp only [h2] at h; cases h
    | some r =>
      obtain ⟨s2, st2⟩ := r
      simp only [h2] at h
      have hI2 := H9.scan_inv hI1 h2
      cases h3 : Adv.dictPhase lbs dict data (curIx &&& mask) maxLength maxBackward maxDistance s2 c with
      | none => simp only [h3] at h; cases h
      | some r3 =>
        obtain ⟨f, o3, c3⟩ := r3
        simp only [h3, Option.some.injEq, Prod.mk.injEq] at h
        obtain ⟨rfl, rfl, _, _⟩ := h
        exact dictPhase_sound hI2 h3 rfl

/-! ### BasicHasher -/

theorem Basic.phase1Take_sound {P : BasicP} {lbs : Nat} {data : ByteArray} {m curIx cm key maxLength
    maxBackward cachedBackward len : Nat} {out : SR} {b : Tab} {c : Common} {r : Basic.Ret ⊕ Basic.SweepSt}
    (hI1 : ∀ score, Inv data m cm curIx maxLength maxBackward
      ((⟨out.score, out.len, out, false⟩ : LoopSt).take len cachedBackward score))
    (h : Basic.phase1Take P lbs data curIx cm key cachedBackward len out b c = some r) :
    (∀ ret, r = .inl ret → CopyOK data m cm curIx maxLength maxBackward ret.2.1) ∧
    (∀ t, r = .inr t → Inv data m cm curIx maxLength maxBackward t.s) := by
  unfold Basic.phase1Take at h
  simp only [] at h
  cases hb2 : byteAt data (cm + len) with
  | none => simp only [hb2] at h; cases h
  | some cc =>
    simp only [hb2] at h
    by_cases hs1 : P.sweep = 1
    · rw [if_pos hs1] at h
      cases hw : wr b key (curIx % U32) with
      | none => simp only [hw] at h; cases h
      | some b1 =>
        simp only [hw, Option.some.injEq] at h
        refine ⟨fun ret hh => ?_, fun t hh => ?_⟩
        · rw [← h] at hh; injection hh with hh; rw [← hh]; exact (hI1 _).2 rfl
        · rw [← h] at hh; cases hh
    · rw [if_neg hs1] at h
      simp only [Option.some.injEq] at h
      refine ⟨fun ret hh => ?_, fun t hh => ?_⟩
      · rw [← h] at hh; cases hh
      · rw [← h] at hh; injection hh with hh; rw [← hh]; exact hI1 _

theorem Basic.phase1_sound {P : BasicP} {lbs : Nat} {data : ByteArray} {mask curIx cm key maxLength
    maxBackward cachedBackward cc0 : Nat} {out : SR} {b : Tab} {c : Common} {r : Basic.Ret ⊕ Basic.SweepSt}
    (hc : curIx < U64) (hcb : cachedBackward < U64) (hx : out.lenXCode = 0)
    (h : Basic.phase1 P lbs data mask curIx cm key maxLength maxBackward cachedBackward cc0 out b c = some r) :
    (∀ ret, r = .inl ret → CopyOK data (mask % U32) cm curIx maxLength maxBackward ret.2.1) ∧
    (∀ t, r = .inr t → Inv data (mask % U32) cm curIx maxLength maxBackward t.s) := by
  have hI0 : Inv data (mask % U32) cm curIx maxLength maxBackward ⟨out.score, out.len, out, false⟩ :=
    ⟨hx, fun hh => (by cases hh)⟩
  have hnone : ∀ r', (some (Sum.inr ⟨⟨out.score, out.len, out, false⟩, cc0⟩) : Option (Basic.Ret ⊕ Basic.SweepSt)) = some r' →
      (∀ ret, r' = .inl ret → CopyOK data (mask % U32) cm curIx maxLength maxBackward ret.2.1) ∧
      (∀ t, r' = .inr t → Inv data (mask % U32) cm curIx maxLength maxBackward t.s) := by
    intro r' hr
    simp only [Option.some.injEq] at hr
    refine ⟨fun ret hh => ?_, fun t hh => ?_⟩
    · rw [← hr] at hh; cases hh
    · rw [← hr] at hh; injection hh with hh; rw [← hh]; exact hI0
  unfold Basic.phase1 at h
  simp only [] at h
  by_cases hcond : wsub curIx cachedBackward < curIx ∧ cachedBackward ≤ maxBackward
  · rw [if_pos hcond] at h
    cases hb : byteAt data ((wsub curIx cachedBackward &&& (mask % U32)) + out.len) with
    | none => simp only [hb] at h; cases h
    | some pb =>
      simp only [hb] at h
      by_cases hcc : cc0 = pb
      · rw [if_pos hcc] at h
        cases hf : findMatchLengthWithLimitMin4 data (wsub curIx cachedBackward &&& (mask % U32)) cm maxLength with
        | none => simp only [hf] at h; cases h
        | some len =>
          simp only [hf] at h
          by_cases hl : len ≠ 0
          · rw [if_pos hl] at h
            obtain ⟨hlen, hag⟩ := min4_sound hf
            exact Basic.phase1Take_sound
              (fun score => hI0.take_backward hc hcb hcond.1 hcond.2 hlen
                (fun h4 => by have := min4_ge4 hf hl h4; omega) hag score) h
          · rw [if_neg hl] at h; exact hnone r h
      · rw [if_neg hcc] at h; exact hnone r h
  · rw [if_neg hcond] at h; exact hnone r h

theorem Basic.phase2Single_sound {lbs : Nat} {data : ByteArray} {mask curIx cm maxLength maxBackward
    bestLenIn prev : Nat} {t : Basic.SweepSt} {b : Tab} {c : Common} {r : Basic.Ret ⊕ Basic.SweepSt}
    (hI : Inv data (mask % U32) cm curIx maxLength maxBackward t.s)
    (h : Basic.phase2Single lbs data mask curIx cm maxLength maxBackward bestLenIn prev t b c = some r) :
    (∀ ret, r = .inl ret → ret.1 = true → CopyOK data (mask % U32) cm curIx maxLength maxBackward ret.2.1) ∧
    (∀ t', r = .inr t' → Inv data (mask % U32) cm curIx maxLength maxBackward t'.s) := by
  unfold Basic.phase2Single at h
  simp only [] at h
  cases hb : byteAt data ((prev &&& (mask % U32)) + bestLenIn) with
  | none => simp only [hb] at h; cases h
  | some pb =>
    simp only [hb] at h
    by_cases hp : t.cc ≠ pb
    · rw [if_pos hp] at h
      injection h with h; subst h
      exact ⟨fun ret hh ht => (by injection hh with hh; subst hh; cases ht), fun t' hh => (by cases hh)⟩
    · rw [if_neg hp] at h
      by_cases hw : wsub curIx prev = 0 ∨ wsub curIx prev > maxBackward
      · rw [if_pos hw] at h
        injection h with h; subst h
        exact ⟨fun ret hh ht => (by injection hh with hh; subst hh; cases ht), fun t' hh => (by cases hh)⟩
      · rw [if_neg hw] at h
        cases hf : findMatchLengthWithLimitMin4 data (prev &&& (mask % U32)) cm maxLength with
        | none => simp only [hf] at h; cases h
        | some len =>
          simp only [hf] at h
          by_cases hl : len ≠ 0
          · rw [if_pos hl] at h
            injection h with h; subst h
            obtain ⟨hlen, hag⟩ := min4_sound hf
            have := hI.take_prev (fun hh => hw (Or.inl hh)) (fun hh => hw (Or.inr hh)) hlen
              (fun h4 => by have := min4_ge4 hf hl h4; omega) hag
              (scoreBackward lbs len (wsub curIx prev))
            exact ⟨fun ret hh _ => by injection hh with hh; subst hh; exact this.2 rfl,
              fun t' hh => (by cases hh)⟩
          · rw [if_neg hl] at h
            injection h with h; subst h
            exact ⟨fun ret hh => (by cases hh), fun t' hh => by injection hh with hh; subst hh; exact hI⟩

theorem Basic.phase2_sound {P : BasicP} {lbs : Nat} {data : ByteArray} {mask curIx cm key maxLength
    maxBackward bestLenIn : Nat} {t : Basic.SweepSt} {b b' : Tab} {c : Common}
    {r : Basic.Ret ⊕ Basic.SweepSt}
    (hI : Inv data (mask % U32) cm curIx maxLength maxBackward t.s)
    (h : Basic.phase2 P lbs data mask curIx cm key maxLength maxBackward bestLenIn t b c = some (r, b')) :
    (∀ ret, r = .inl ret → ret.1 = true → CopyOK data (mask % U32) cm curIx maxLength maxBackward ret.2.1) ∧
    (∀ t', r = .inr t' → Inv data (mask % U32) cm curIx maxLength maxBackward t'.s) := by
  unfold Basic.phase2 at h
  by_cases hs1 : P.sweep = 1
  · rw [if_pos hs1] at h
    cases hr : rd b key with
    | none => simp only [hr] at h; cases h
    | some prev =>
      simp only [hr] at h
      cases hw : wr b key (curIx % U32) with
      | none => simp only [hw] at h; cases h
      | some b1 =>
        simp only [hw] at h
        cases hp : Basic.phase2Single lbs data mask curIx cm maxLength maxBackward bestLenIn prev t b1 c with
        | none => simp only [hp] at h; cases h
        | some r1 =>
          simp only [hp, Option.some.injEq, Prod.mk.injEq] at h
          obtain ⟨rfl, _⟩ := h
          exact Basic.phase2Single_sound hI hp
  · rw [if_neg hs1] at h
    by_cases hk : key + P.sweep ≤ b.size
    · rw [if_pos hk] at h
      cases hl : Basic.sweepLoop lbs data mask curIx cm maxLength maxBackward b key P.sweep 0 t with
      | none => simp only [hl] at h; cases h
      | some t1 =>
        simp only [hl, Option.some.injEq, Prod.mk.injEq] at h
        obtain ⟨rfl, _⟩ := h
        exact ⟨fun ret hh => (by cases hh), fun t' hh => by
          injection hh with hh; subst hh; exact Basic.sweepLoop_inv b key _ _ _ _ hI hl⟩
    · rw [if_neg hk] at h; cases h

theorem Basic.dictStep_sound {useDict : Bool} {lbs : Nat} {dict : Option (List DictItem)}
    {data : ByteArray} {m curIx cm maxLength maxBackward maxDistance : Nat} {s : LoopSt}
    {c c' : Common} {f : Bool} {o : SR}
    (hI : Inv data m cm curIx maxLength maxBackward s)
    (h : Basic.dictStep useDict lbs dict data cm maxLength maxBackward maxDistance s c = some (f, o, c'))
    (hf : f = true) : Sound dict data m cm curIx maxLength maxBackward maxDistance o := by
  unfold Basic.dictStep at h
  cases dict with
  | none =>
    simp only [Option.some.injEq, Prod.mk.injEq] at h
    obtain ⟨h1, h2, _⟩ := h
    subst h2
    exact Or.inl (hI.2 (by rw [h1]; exact hf))
  | some items =>
    simp only [] at h
    by_cases hcond : useDict = true ∧ ¬ s.found = true
    · rw [if_pos hcond] at h
      exact Or.inr ⟨items, rfl, (search_sound h).1 hf⟩
    · rw [if_neg hcond] at h
      simp only [Option.some.injEq, Prod.mk.injEq] at h
      obtain ⟨h1, h2, _⟩ := h
      subst h2
      exact Or.inl (hI.2 (by rw [h1]; exact hf))

theorem Basic.phase3_sound {P : BasicP} {useDict : Bool} {lbs : Nat} {dict : Option (List DictItem)}
    {data : ByteArray} {m curIx cm key maxLength maxBackward maxDistance : Nat} {s : LoopSt} {b b' : Tab}
    {c c' : Common} {f : Bool} {o : SR}
    (hI : Inv data m cm curIx maxLength maxBackward s)
    (h : Basic.phase3 P useDict lbs dict data curIx cm key maxLength maxBackward maxDistance s b c
      = some (f, o, b', c')) (hf : f = true) :
    Sound dict data m cm curIx maxLength maxBackward maxDistance o := by
  unfold Basic.phase3 at h
  cases hd : Basic.dictStep useDict lbs dict data cm maxLength maxBackward maxDistance s c with
  | none => simp only [hd] at h; cases h
  | some r =>
    obtain ⟨f1, o1, c1⟩ := r
    simp only [hd] at h
    by_cases hs0 : P.sweep = 0
    · rw [if_pos hs0] at h; cases h
    · rw [if_neg hs0] at h
      cases hw : wr b (key + (curIx >>> 3) % P.sweep) (curIx % U32) with
      | none => simp only [hw] at h; cases h
      | some b1 =>
        simp only [hw, Option.some.injEq, Prod.mk.injEq] at h
        obtain ⟨rfl, rfl, _, _⟩ := h
        exact Basic.dictStep_sound hI hd hf

theorem Basic.finish2_inv {P : BasicP} {useDict : Bool} {lbs : Nat} {dict : Option (List DictItem)}
    {data : ByteArray} {curIx cm key maxLength maxBackward maxDistance : Nat} {c : Common}
    {r2 : Option ((Basic.Ret ⊕ Basic.SweepSt) × Tab)} {ret : Basic.Ret}
    (h : Basic.finish2 P useDict lbs dict data curIx cm key maxLength maxBackward maxDistance c r2 = some ret) :
    (∃ b, r2 = some (.inl ret, b)) ∨
    (∃ t b, r2 = some (.inr t, b) ∧
      Basic.phase3 P useDict lbs dict data curIx cm key maxLength maxBackward maxDistance t.s b c = some ret) := by
  unfold Basic.finish2 at h
  cases r2 with
  | none => cases h
  | some p =>
    obtain ⟨r, b⟩ := p
    cases r with
    | inl r => injection h with h; subst h; exact Or.inl ⟨b, rfl⟩
    | inr t => exact Or.inr ⟨t, b, rfl, h⟩

theorem Basic.finish1_inv {P : BasicP} {useDict : Bool} {lbs : Nat} {dict : Option (List DictItem)}
    {data : ByteArray} {mask curIx cm key maxLength maxBackward maxDistance bestLenIn : Nat} {b : Tab}
    {c : Common} {r1 : Option (Basic.Ret ⊕ Basic.SweepSt)} {ret : Basic.Ret}
    (h : Basic.finish1 P useDict lbs dict data mask curIx cm key maxLength maxBackward maxDistance bestLenIn
      b c r1 = some ret) :
    r1 = some (.inl ret) ∨
    (∃ t, r1 = some (.inr t) ∧
      Basic.finish2 P useDict lbs dict data curIx cm key maxLength maxBackward maxDistance c
        (Basic.phase2 P lbs data mask curIx cm key maxLength maxBackward bestLenIn t b c) = some ret) := by
  unfold Basic.finish1 at h
  cases r1 with
  | none => cases h
  | some r =>
    cases r with
    | inl r => injection h with h; subst h; exact Or.inl rfl
    | inr t => exact Or.inr ⟨t, rfl, h⟩

/-- `BasicHasher::FindLongestMatch` -/
theorem Basic.findLongestMatch_sound {P : BasicP} {useDict : Bool} {lbs : Nat}
    {dict : Option (List DictItem)} {data : ByteArray} {mask : Nat} {cache : List Int}
    {curIx maxLength maxBackward maxDistance : Nat} {out o : SR} {b b' : Tab} {c c' : Common}
    (hc : curIx < U64)
    (h : Basic.findLongestMatch P useDict lbs dict data mask cache curIx maxLength maxBackward maxDistance
      out b c = some (true, o, b', c')) :
    Sound dict data (mask % U32) (curIx &&& mask) curIx maxLength maxBackward maxDistance o := by
  unfold Basic.findLongestMatch at h
  obtain ⟨key, _, h⟩ := Option.bind_eq_some_iff.mp h
  obtain ⟨cc0, _, h⟩ := Option.bind_eq_some_iff.mp h
  obtain ⟨c0, _, h⟩ := Option.bind_eq_some_iff.mp h
  rcases Basic.finish1_inv h with h1 | ⟨t, h1, h⟩
  · obtain ⟨p1a, _⟩ := Basic.phase1_sound hc (i32ToUsize_lt c0) rfl h1
    exact Or.inl (p1a _ rfl)
  · obtain ⟨_, p1b⟩ := Basic.phase1_sound hc (i32ToUsize_lt c0) rfl h1
    have hI1 := p1b t rfl
    rcases Basic.finish2_inv h with ⟨b2, h2⟩ | ⟨t2, b2, h2, h3⟩
    · obtain ⟨p2a, _⟩ := Basic.phase2_sound hI1 h2
      exact Or.inl (p2a _ rfl rfl)
    · obtain ⟨_, p2b⟩ := Basic.phase2_sound hI1 h2
      exact Basic.phase3_sound (p2b t2 rfl) h3 rfl

end BV.MatchFinder
