import BV.Lemmas.CbrLoop
/-! Discharging the per-command obligation of the loop theorem (NPOSTFIX = NDIRECT = 0). -/
namespace BV.Cbr
open BV.Hasher BV.MatchFinder BV.Recoder BV.PrefixArith BV.MetaBlock

theorem packCopyLen_eq (len delta : Nat) (hlen : len < 2 ^ 25) (hdelta : delta < 64) :
    packCopyLen len (len + delta) = delta * 2 ^ 25 + len := by
  have hd8 : (len + delta + 256 - len % 256) % 256 = delta := by omega
  have hsh : (delta <<< 25) % 2 ^ 32 = delta <<< 25 := by
    rw [Nat.shiftLeft_eq]; exact Nat.mod_eq_of_lt (by omega)
  have hor : len ||| (delta <<< 25) = delta <<< 25 + len := by
    rw [Nat.or_comm]; exact (Nat.shiftLeft_add_eq_or_of_lt (by omega) delta).symm
  unfold packCopyLen
  simp only [hd8, hsh, hor]
  rw [Nat.shiftLeft_eq]
  exact Nat.mod_eq_of_lt (by omega)

theorem copyLen_commandInit (np nd ins len delta code : Nat) (hlen : len < 2 ^ 25) (hdelta : delta < 64) :
    copyLen (commandInit np nd ins len (len + delta) code) = len := by
  simp only [copyLen, commandInit, packCopyLen_eq len delta hlen hdelta]
  omega

/-- `cmdOK` of the closing insert-only command -/
theorem cmdOK_initInsert (large : Bool) (l : Nat) (hl : l ≤ 2 ^ 24) :
    cmdOK (distAlphabetSize large 0 0) 0 0 (initInsert l) = true := by
  have hU : U32 = 4294967296 := rfl
  have p24 : (2 : Nat) ^ 24 = 16777216 := by decide
  have hins : (initInsert l).insertLen = l := by simp only [initInsert]; exact Nat.mod_eq_of_lt (by omega)
  have hclc : copyLenCode (initInsert l).copyLenField = 4 := by simp only [initInsert]; decide
  have hdp : (initInsert l).distPrefix = 1040 := by simp only [initInsert]; decide
  obtain ⟨i1, _, _⟩ := BV.Props.C18.ins_code_exact l (by omega)
  have c1 : getCopyLengthCode 4 < 24 := by decide
  unfold cmdOK
  simp only [hins, hclc, hdp, copyLen_initInsert, Bool.and_eq_true, decide_eq_true_eq, Bool.or_eq_true]
  refine ⟨⟨⟨⟨⟨⟨⟨?_, by omega⟩, by omega⟩, by omega⟩, ?_⟩, ?_⟩, by omega⟩, Or.inl trivial⟩
  · simp only [initInsert]; rfl
  · left
    simp only [initInsert, getLengthCode]
    exact combine_ge_128 ⟨_, i1⟩ ⟨_, c1⟩
  · simp only [distAlphabetSize]; split <;> omega

/-- the per-command obligation for copies: with the ring buffer holding the text, a sound copy
becomes a command the decoder executes, and the command is `cmdOK` -/
theorem emitHyp_copy (C : Ctx) (p : Params) (large : Bool) (hnp : p.npostfix = 0) (hnd : p.ndirect = 0) (tail : Nat)
    (hv : RingView C.data C.k tail (C.hist ++ C.mb) C.lo (C.hist.length + C.mb.length))
    (htail : tail ≤ 2 ^ C.k) (hmt : C.mb.length ≤ tail)
    (hlo : C.lo ≤ C.hist.length - maxBackwardLimit p)
    (hwin : maxBackwardLimit p + 15 < 2 ^ 31) (hstd : large = false → maxBackwardLimit p ≤ 2 ^ 26 - 4)
    (hmb : C.mb.length ≤ 2 ^ 24) :
    EmitHyp (fun _ => False) C p (fun c => cmdOK (distAlphabetSize large 0 0) 0 0 c = true) := by
  intro d pos ins sr cache hout hpos hlt hring hc hcl hs
  rcases hs with ⟨h1, h2, h3, h4, h5, h6⟩ | ⟨items, hno, dd, hdd, hrest⟩
  · -- a copy
    obtain ⟨c0, c1, c2, c3, rest, rfl⟩ : ∃ c0 c1 c2 c3 rest, cache = c0 :: c1 :: c2 :: c3 :: rest := by
      match cache, hcl with
      | c0 :: c1 :: c2 :: c3 :: rest, _ => exact ⟨c0, c1, c2, c3, rest, rfl⟩
    have hlen2 : 2 ≤ sr.len := h5 (by omega)
    have hcur : d.cursor + ins + sr.len ≤ C.mb.length := by omega
    have hdw : sr.distance ≤ maxBackwardLimit p := Nat.le_trans h2 (Nat.min_le_right _ _)
    obtain ⟨cmd, cache', he, hds, _, hci, hcl'⟩ := emit_copy C.w p.npostfix p.ndirect (maxBackwardLimit p)
      (by omega) (by omega) C.data C.k tail C.hist C.mb C.lo hv htail hmt d hout (by omega) pos ins hpos sr c0 c1 c2 c3 rest
      (by simpa using hring) hc (by omega) (by omega) hcur (by omega) h4 h1 h2 (by omega) (by omega) h6
    -- the command is `commandInit` on the computed distance code
    obtain ⟨code, hcode, hcle, _, _⟩ := computeDistanceCode_sound p.npostfix p.ndirect sr.distance
      (min pos (maxBackwardLimit p)) c0 c1 c2 c3 rest h1 (by omega) hc
    have hcmd : cmd = commandInit 0 0 ins sr.len (sr.len + 0) code := by
      unfold emitCommand at he
      simp only [hcode, Option.some.injEq, Prod.mk.injEq] at he
      rw [← he.1, h4, hnp, hnd]; simp
    refine ⟨cmd, cache', _, he, hds, by simp only [], by simp only [], by simp only [], hci, hcl', ?_, ?_, by omega, ?_⟩
    · rw [hcmd]; simp only [commandInit]
      exact Nat.mod_eq_of_lt (by have : U32 = 4294967296 := rfl; omega)
    · rw [hcmd]; exact copyLen_commandInit 0 0 ins sr.len 0 code (by omega) (by omega)
    · rw [hcmd]
      exact cmdOK_commandInit large ins sr.len 0 code (by omega) (by omega) (by omega) (by omega) (by omega) (by omega)
        (fun hl => by have := hstd hl; omega)
  · exact absurd (hno dd hdd (by
      obtain ⟨h0, h1, _⟩ := hrest
      intro hz; rw [hz] at h1; simp at h1; omega)) id

end BV.Cbr
