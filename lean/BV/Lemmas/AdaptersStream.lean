import BV.Lemmas.StreamExit
import BV.Lemmas.StreamTerm5
import BV.Lemmas.StreamAbsorb
/-
Bridge from the stream-machine model (M8, `BV/Model/Stream.lean`, another worker's — imported, not
edited) to the oracle hypotheses of the adapters (M9): cursor balance of one `compress_stream`
call, and a cross-call potential that every "stalled" call lowers.
-/
namespace BV.Stream
open BV.Bits

/-- output side of `inject_flush_or_push_output`: what leaves `pending` arrives in `out` -/
theorem push_io {s s' : St} {io io' : Io} {b : Bool} (h : injectFlushOrPushOutput s io = .ok (s', io', b)) :
    io'.out.length + io'.availOut = io.out.length + io.availOut ∧ io'.availIn = io.availIn := by
  refine ⟨?_, (push_frame h).2.2.2.2.2.2.2.2.1⟩
  unfold injectFlushOrPushOutput at h
  split at h
  · split at h
    · simp only [Out.ok.injEq, Prod.mk.injEq] at h
      obtain ⟨_, rfl, _⟩ := h; rfl
    · simp at h
    · simp at h
  · simp only at h
    split_all h
    all_goals first
      | (simp at h; done)
      | (simp only [Out.ok.injEq, Prod.mk.injEq] at h; obtain ⟨_, rfl, _⟩ := h
         simp only [List.length_append, List.length_take]; omega)
      | (simp only [Out.ok.injEq, Prod.mk.injEq] at h; obtain ⟨_, rfl, _⟩ := h; rfl)

/-- one iteration of the main loop: input is only consumed, the output cursor stays balanced -/
theorem slowStep_io {o : Oracle} {op : Nat} {s s' : St} {io io' : Io} {c : Ctl}
    (h : slowStep o op s io = .ok (s', io', c)) :
    io'.availIn ≤ io.availIn ∧ io'.out.length + io'.availOut = io.out.length + io.availOut := by
  unfold slowStep at h
  simp only at h
  split at h
  · split at h
    · simp at h
    · split at h
      · simp only [Out.ok.injEq, Prod.mk.injEq] at h
        obtain ⟨_, rfl, _⟩ := h
        exact ⟨Nat.sub_le _ _, rfl⟩
      · simp at h
      · simp at h
  · split at h
    · simp at h
    · simp at h
    · rename_i s1 io1 hp
      simp only [Out.ok.injEq, Prod.mk.injEq] at h
      obtain ⟨_, rfl, _⟩ := h
      obtain ⟨p1, p2⟩ := push_io hp
      exact ⟨Nat.le_of_eq p2, p1⟩
    · rename_i s1 io1 hp
      obtain ⟨p1, p2⟩ := push_io hp
      split at h
      · split at h
        · simp at h
        · simp at h
        · split at h
          · simp only [Out.ok.injEq, Prod.mk.injEq] at h
            obtain ⟨_, rfl, _⟩ := h
            exact ⟨Nat.le_of_eq p2, p1⟩
          · simp only [Out.ok.injEq, Prod.mk.injEq] at h
            obtain ⟨_, rfl, _⟩ := h
            exact ⟨Nat.le_of_eq p2, p1⟩
      · simp only [Out.ok.injEq, Prod.mk.injEq] at h
        obtain ⟨_, rfl, _⟩ := h
        exact ⟨Nat.le_of_eq p2, p1⟩

/-- the bound on the staging buffer a state carries by itself (no input on offer): what the buffer
is, or what `get_brotli_storage` is asked for when the unflushed bytes are encoded -/
def stateCap (s : St) : Nat := max s.storageSize (2 * (s.inputPos - s.lastFlushPos) + 527)

theorem mcap_stateCap (s : St) : MCap (stateCap s) s := ⟨Nat.le_max_left _ _, Nat.le_max_right _ _⟩

theorem stateCap_le_of_mcap {M : Nat} {s : St} (h : MCap M s) : stateCap s ≤ M := Nat.max_le.mpr ⟨h.1, h.2⟩

theorem callCap_zero (s : St) : callCap s 0 = stateCap s := by
  unfold callCap stateCap
  simp

theorem slowLoop_stalled {o : Oracle} {op M K fuel : Nat} {s s' : St} {io io' : Io} {r : Bool}
    (hop : op ≤ 2) (hI : Inv s) (hrm : s.remainingMetadata = u32Max) (hw : s.inputPos + io.availIn < two64)
    (hacc : s.streamState ≠ .processing → io.availIn = 0)
    (hC : Cap M s io) (hK : MCap K s) (hl : s.lastBytesBits ≤ 14)
    (h : slowLoop o op fuel s io = .ok (s', io', r)) :
    r = true ∧ io'.availIn ≤ io.availIn ∧ io'.out.length + io'.availOut = io.out.length + io.availOut ∧
    ∃ s1, s' = checkFlushComplete s1 ∧ slowStep o op s1 io' = .ok (s1, io', .brk) ∧
      SlowInv op s.streamState io.availIn (s.inputPos + io.availIn) s1 io' ∧ s1.lastBytesBits ≤ 14 ∧
      (io'.availIn = io.availIn → (s1 = s ∧ io' = io) ∨ slowPot op M s1 io' < slowPot op M s io) ∧
      (io'.availIn = io.availIn → MCap K s1) := by
  let P : St → Io → Prop := fun t tio =>
    SlowInv op s.streamState io.availIn (s.inputPos + io.availIn) t tio ∧ t.lastBytesBits ≤ 14 ∧
    tio.availIn ≤ io.availIn ∧ tio.out.length + tio.availOut = io.out.length + io.availOut ∧
    (tio.availIn = io.availIn → (t = s ∧ tio = io) ∨ slowPot op M t tio < slowPot op M s io) ∧
    Cap M t tio ∧ (tio.availIn = io.availIn → MCap K t)
  have hP0 : P s io := ⟨⟨hI, rfl, hw, hrm, Nat.le_refl _, hacc, Or.inl rfl⟩, hl, Nat.le_refl _, rfl, fun _ => Or.inl ⟨rfl, rfl⟩, hC, fun _ => hK⟩
  have hstep : ∀ t tio t' tio' c, P t tio → slowStep o op t tio = .ok (t', tio', c) → c ≠ .fail ∧ P t' tio' := by
    intro t tio t' tio' c ⟨p1, p2, p3, p4, p5, p6, p7⟩ hs
    obtain ⟨c1, c2⟩ := slowInv_step p1 hs
    obtain ⟨q1, q2⟩ := slowStep_io hs
    refine ⟨c1, ?_⟩
    cases c with
    | fail => exact absurd rfl c1
    | brk =>
      obtain ⟨e1, e2, _⟩ := slowStep_brk hs
      subst e1 e2
      exact ⟨p1, p2, p3, p4, p5, p6, p7⟩
    | cont =>
      have hwt : t.inputPos + tio.availIn < two64 := by rw [p1.sum]; exact p1.nowrap
      have hnp : t.streamState ≠ .processing → tio.availIn = 0 := by
        intro hne
        rcases p1.st with h1 | ⟨_, h2, _⟩
        · exact p1.nonproc (by rw [← h1]; exact hne)
        · exact h2
      obtain ⟨dM, _, d2⟩ := slowStep_decreases (M := M) p1.inv hwt hnp p2 hop hs
      obtain ⟨_, dK, _⟩ := slowStep_decreases (M := K) p1.inv hwt hnp p2 hop hs
      obtain ⟨d1, d3⟩ := dM p6
      refine ⟨c2, d2, Nat.le_trans q1 p3, by rw [q2, p4], ?_, d3, ?_⟩
      · intro heq
        right
        have : tio.availIn = io.availIn := by omega
        rcases p5 this with ⟨e1, e2⟩ | hlt
        · subst e1 e2; exact d1
        · exact Nat.lt_trans d1 hlt
      · intro heq
        have h1 : tio.availIn = io.availIn := by omega
        exact dK (p7 h1) (by omega)
  obtain ⟨hr, s1, ⟨p1, p2, p3, p4, p5, _, p7⟩, hs', hbrk⟩ := slowLoop_exit P hstep fuel s io s' io' r hP0 h
  exact ⟨hr, p3, p4, s1, hs', hbrk, p1, p2, p5, p7⟩
theorem fastStep_io {o : Oracle} {op : Nat} {s s' : St} {io io' : Io} {b : Bool}
    (h : fastStep o op s io = .ok (s', io', b)) :
    io'.out.length + io'.availOut = io.out.length + io.availOut := by
  unfold fastStep at h
  split at h
  · simp at h
  · simp at h
  · rename_i s1 io1 hp
    simp only [Out.ok.injEq, Prod.mk.injEq] at h
    obtain ⟨_, rfl, _⟩ := h
    exact (push_io hp).1
  · rename_i s1 io1 hp
    have p1 := (push_io hp).1
    split at h
    · simp only at h
      split at h
      · simp only [Out.ok.injEq, Prod.mk.injEq] at h
        obtain ⟨_, rfl, _⟩ := h
        exact p1
      · split at h
        · simp at h
        · split at h
          · simp at h
          · split at h
            · simp at h
            · rename_i hcap2 hbs hfit
              simp only [Out.ok.injEq, Prod.mk.injEq] at h
              obtain ⟨_, rfl, _⟩ := h
              rw [← p1]
              generalize min (2 ^ s1.params.lgwin.toNat) io1.availIn = bs at *
              generalize (o s1.nEnc { site := 2, lo := bs, hi := s1.inputPos, isLast := decide (io1.availIn = bs ∧ op = 2), forceFlush := decide (io1.availIn = bs ∧ op = 1) }) = ans at *
              unfold fastEncode
              by_cases hin : (2 * bs + 503) % two64 ≤ io1.availOut
              · have hd : decide ((2 * bs + 503) % two64 ≤ io1.availOut) = true := decide_eq_true hin
                rw [hd] at hfit ⊢
                simp only [fastCap, fastStorage, if_true] at hfit ⊢
                have hwl := wholeBytes_length (bitsOf s1.lastBytesBits s1.lastBytes ++ ans.bits)
                simp only [List.length_append, bitsOf_length] at hwl
                simp only [List.length_append]
                omega
              · have hd : decide ((2 * bs + 503) % two64 ≤ io1.availOut) = false := decide_eq_false hin
                rw [hd]
                simp
    · simp only [Out.ok.injEq, Prod.mk.injEq] at h
      obtain ⟨_, rfl, _⟩ := h
      exact p1
theorem fastLoop_stalled {o : Oracle} {op M K fuel : Nat} {s s' : St} {io io' : Io}
    (hop : op ≤ 2) (hI : Inv s) (hrm : s.remainingMetadata = u32Max) (hfm : fastMode s.params)
    (hacc : s.streamState ≠ .processing → io.availIn = 0)
    (hC : Cap M s io) (hK : MCap K s) (hl : s.lastBytesBits ≤ 14)
    (h : fastLoop o op fuel s io = .ok (s', io')) :
    io'.availIn ≤ io.availIn ∧ io'.out.length + io'.availOut = io.out.length + io.availOut ∧
    fastStep o op s' io' = .ok (s', io', false) ∧
    FastInv op s.streamState io.availIn s' io' ∧ s'.lastBytesBits ≤ 14 ∧
    (io'.availIn = io.availIn → (s' = s ∧ io' = io) ∨ fastPot M s' io' < fastPot M s io) ∧
    (io'.availIn = io.availIn → MCap K s') := by
  let P : St → Io → Prop := fun t tio =>
    FastInv op s.streamState io.availIn t tio ∧ t.lastBytesBits ≤ 14 ∧
    tio.availIn ≤ io.availIn ∧ tio.out.length + tio.availOut = io.out.length + io.availOut ∧
    (tio.availIn = io.availIn → (t = s ∧ tio = io) ∨ fastPot M t tio < fastPot M s io) ∧
    Cap M t tio ∧ (tio.availIn = io.availIn → MCap K t)
  have hP0 : P s io := ⟨⟨hI, hfm, hrm, Nat.le_refl _, hacc, Or.inl rfl⟩, hl, Nat.le_refl _, rfl, fun _ => Or.inl ⟨rfl, rfl⟩, hC, fun _ => hK⟩
  have hstep : ∀ t tio t' tio' b, P t tio → fastStep o op t tio = .ok (t', tio', b) → P t' tio' := by
    intro t tio t' tio' b ⟨p1, p2, p3, p4, p5, p6, p7⟩ hs
    have c2 := fastInv_step p1 hs
    have q1 := (fastStep_spec p1.inv p1.fm hs).2.2.1
    have q2 := fastStep_io hs
    cases b with
    | false =>
      obtain ⟨e1, e2, _⟩ := fastStep_brk hs
      subst e1 e2
      exact ⟨p1, p2, p3, p4, p5, p6, p7⟩
    | true =>
      obtain ⟨dM, _, d2⟩ := fastStep_decreases (M := M) p2 hop hs
      obtain ⟨_, dK, _⟩ := fastStep_decreases (M := K) p2 hop hs
      obtain ⟨d1, d3⟩ := dM p6
      refine ⟨c2, d2, Nat.le_trans q1 p3, by rw [q2, p4], ?_, d3, ?_⟩
      · intro heq
        right
        have : tio.availIn = io.availIn := by omega
        rcases p5 this with ⟨e1, e2⟩ | hlt
        · subst e1 e2; exact d1
        · exact Nat.lt_trans d1 hlt
      · intro heq
        have h1 : tio.availIn = io.availIn := by omega
        exact dK (p7 h1) (by omega)
  obtain ⟨⟨p1, p2, p3, p4, p5, _, p7⟩, hbrk⟩ := fastLoop_exit P hstep fuel s io s' io' hP0 h
  exact ⟨p3, p4, hbrk, p1, p2, p5, p7⟩
/-- what holds of an encoder state between two API calls outside a metadata block -/
structure Good (s : St) : Prop where
  inv : Inv s
  rm : s.remainingMetadata = u32Max
  lbb : s.lastBytesBits ≤ 14
  quiet : s.streamState = .flushRequested → s.pending.length ≠ 0

/-- cross-call rank for PROCESS / FINISH requests: a function of the STATE alone (`stateCap s` bounds what
the one encode still due can leave pending; it does not grow in a call that consumes nothing) -/
def rankPF (s : St) : Nat :=
  (if s.streamState = .finished then 0 else 1) * (stateCap s + 8) + padB s + s.pending.length

/-- cross-call rank for FLUSH requests -/
def rankFl (s : St) : Nat :=
  (if s.streamState = .processing then 1 else 0) * (stateCap s + 8) + padB s + s.pending.length

/-- the facts both loops deliver at their exit, in one shape: `c` is the 0/1 "an encode is due"
indicator of the loop's potential -/
structure ExitFacts (op M cap : Nat) (s : St) (a : Nat) (s1 : St) (io' : Io) (c0 c1 : Nat) : Prop where
  inv1 : Inv s1
  rm1 : s1.remainingMetadata = u32Max
  lbb1 : s1.lastBytesBits ≤ 14
  st : s1.streamState = s.streamState ∨ (s.streamState = .processing ∧ io'.availIn = 0 ∧
        ((op = 1 ∧ s1.streamState = .flushRequested) ∨ (op = 2 ∧ s1.streamState = .finished)))
  noPad : ¬(s1.streamState = .flushRequested ∧ s1.lastBytesBits ≠ 0)
  noPush : ¬(s1.pending.length ≠ 0 ∧ io'.availOut ≠ 0)
  c0le : c0 ≤ 1
  c0proc : op ≠ 0 → a = 0 → c0 = (if s.streamState = .processing then 1 else 0)
  c1proc : s1.streamState = .processing → (op ≠ 0 ∨ a ≠ 0) → io'.availIn = a → s1.pending.length = 0 → False
  c1val : (op ≠ 0 ∨ a ≠ 0) → io'.availIn = a → c1 = (if s1.streamState = .processing then 1 else 0)
  pot : io'.availIn = a → (s1 = s ∧ io'.availOut = cap) ∨
        c1 * (M + 8) + padB s1 + s1.pending.length < c0 * (M + 8) + padB s + s.pending.length
  kmono : io'.availIn = a → stateCap s1 ≤ stateCap s

theorem stall_of_exit {op M cap a c0 c1 : Nat} {s s1 : St} {io' : Io} (hG : Good s)
    (hacc : s.streamState ≠ .processing → a = 0) (hM0 : a = 0 → M = stateCap s)
    (hE : ExitFacts op M cap s a s1 io' c0 c1) :
    Good (checkFlushComplete s1) ∧ (0 < cap → io'.availIn = a →
    (op = 0 → a ≠ 0 → rankPF (checkFlushComplete s1) < rankPF s) ∧
    (op = 2 → a = 0 → isFinished (checkFlushComplete s1) = false → rankPF (checkFlushComplete s1) < rankPF s) ∧
    (op = 1 → a = 0 → hasMoreOutput (checkFlushComplete s1) = true → rankFl (checkFlushComplete s1) < rankFl s)) := by
  obtain ⟨k1, k2, k3, k4, k5, k6, k7, k8, k9, k10, k11, k12⟩ := checkFlushComplete_frame s1
  have hst := checkFlushComplete_state s1
  have hpadB : padB (checkFlushComplete s1) = padB s1 := by unfold padB; rw [k10]
  have hKc : stateCap (checkFlushComplete s1) = stateCap s1 := by unfold stateCap; rw [k2, k5, k12]
  have hnmd : ∀ t : St, Inv t → t.remainingMetadata = u32Max → t.streamState = .processing ∨ t.streamState = .flushRequested ∨ t.streamState = .finished := by
    intro t hI hrm
    cases hs : t.streamState
    · exact Or.inl rfl
    · exact Or.inr (Or.inl rfl)
    · exact Or.inr (Or.inr rfl)
    · exact absurd hrm (hI.mdIff.mp (Or.inl hs))
    · exact absurd hrm (hI.mdIff.mp (Or.inr hs))
  have hgood : Good (checkFlushComplete s1) := by
    refine ⟨inv_checkFlushComplete hE.inv1, k3.trans hE.rm1, by rw [k10]; exact hE.lbb1, ?_⟩
    intro hfl
    rw [hst] at hfl
    rw [k8]
    by_cases hc : s1.streamState = .flushRequested ∧ s1.pending.length = 0
    · rw [if_pos hc] at hfl; cases hfl
    · rw [if_neg hc] at hfl; intro h0; exact hc ⟨hfl, h0⟩
  refine ⟨hgood, ?_⟩
  intro hcap hcons
  have hkm := hE.kmono hcons
  refine ⟨?_, ?_, ?_⟩
  · -- PROCESS with input on offer
    intro h0 ha
    have hc1 := hE.c1val (Or.inr ha) hcons
    have hs0 : s.streamState = .processing := by
      cases hs : s.streamState
      · rfl
      all_goals exact absurd (hacc (by rw [hs]; simp)) ha
    have hs1 : s1.streamState = .processing := by
      rcases hE.st with h | ⟨_, h, _⟩
      · rw [h, hs0]
      · rw [hcons] at h; exact absurd h ha
    have hp1 : s1.pending.length ≠ 0 := fun hz => hE.c1proc hs1 (Or.inr ha) hcons hz
    have hst' : (checkFlushComplete s1).streamState = .processing := by rw [hst, hs1]; simp
    rcases hE.pot hcons with ⟨e1, e2⟩ | hlt
    · exact absurd e2 (by have := hE.noPush; omega)
    · unfold rankPF
      rw [hst', hs0, hpadB, k8, hKc]
      rw [hc1, hs1] at hlt
      have := hE.c0le
      simp only [if_true] at hlt
      simp only [reduceCtorEq, if_false]
      generalize M + 8 = X at *
      have : c0 * X ≤ 1 * X := Nat.mul_le_mul_right X hE.c0le
      omega
  · -- FINISH
    intro h2 ha hnf
    have hMe := hM0 ha
    subst hMe
    have hc1 := hE.c1val (Or.inl (by omega)) hcons
    have hc0 := hE.c0proc (by omega) ha
    rcases hE.pot hcons with ⟨e1, e2⟩ | hlt
    · -- no step at all: the state was already drained
      subst e1
      have hp : s1.pending.length = 0 := by have := hE.noPush; omega
      rcases hnmd s1 hG.inv hG.rm with h | h | h
      · exact absurd hp (fun hz => hE.c1proc h (Or.inl (by omega)) hcons hz)
      · exact absurd hp (hG.quiet h)
      · exfalso
        have : isFinished (checkFlushComplete s1) = true := by
          unfold isFinished; rw [hst, k8, h]; simp [hp]
        rw [this] at hnf; cases hnf
    · unfold rankPF
      rw [hpadB, k8, hst, hKc]
      rw [hc1, hc0] at hlt
      rcases hnmd s hG.inv hG.rm with h | h | h
      · -- from PROCESSING: the loop ends in PROCESSING or FINISHED
        rw [h] at hlt ⊢
        simp only [if_true, reduceCtorEq, if_false] at hlt ⊢
        rcases hE.st with h1 | ⟨_, _, h1⟩
        · rw [h] at h1; rw [h1] at hlt ⊢; simp only [if_true, reduceCtorEq, false_and, if_false] at hlt ⊢; omega
        · rcases h1 with ⟨h1, _⟩ | ⟨_, h1⟩
          · omega
          · rw [h1] at hlt ⊢; simp only [reduceCtorEq, if_false, false_and, if_true] at hlt ⊢; omega
      · rw [h] at hlt ⊢
        have h1 : s1.streamState = .flushRequested := by
          rcases hE.st with h1 | ⟨h1, _⟩
          · rw [h1, h]
          · rw [h] at h1; cases h1
        rw [h1] at hlt ⊢
        simp only [reduceCtorEq, if_false] at hlt ⊢
        split <;> simp only [reduceCtorEq, if_false] <;> omega
      · rw [h] at hlt ⊢
        have h1 : s1.streamState = .finished := by
          rcases hE.st with h1 | ⟨h1, _⟩
          · rw [h1, h]
          · rw [h] at h1; cases h1
        rw [h1] at hlt ⊢
        simp only [reduceCtorEq, if_false, false_and, if_true] at hlt ⊢
        omega
  · -- FLUSH
    intro h1 ha hmore
    have hMe := hM0 ha
    subst hMe
    have hc1 := hE.c1val (Or.inl (by omega)) hcons
    have hc0 := hE.c0proc (by omega) ha
    have hp1 : s1.pending.length ≠ 0 := by
      unfold hasMoreOutput at hmore; rw [k8] at hmore; simpa using hmore
    rcases hE.pot hcons with ⟨e1, e2⟩ | hlt
    · exact absurd e2 (by have := hE.noPush; omega)
    · unfold rankFl
      have hflip : (if s1.streamState = .flushRequested ∧ s1.pending.length = 0 then SState.processing else s1.streamState) = s1.streamState :=
        if_neg (fun hh => hp1 hh.2)
      rw [hpadB, k8, hst, hflip, hKc]
      rw [hc1, hc0] at hlt
      have hmul : (if s1.streamState = .processing then 1 else 0) * (stateCap s1 + 8)
          ≤ (if s1.streamState = .processing then 1 else 0) * (stateCap s + 8) := Nat.mul_le_mul_left _ (by omega)
      generalize (if s1.streamState = .processing then 1 else 0) * (stateCap s1 + 8) = A at *
      generalize (if s1.streamState = .processing then 1 else 0) * (stateCap s + 8) = B at *
      omega

theorem exitFacts_slow {o : Oracle} {op M cap : Nat} {s s1 : St} {io io' : Io}
    (hio : io.availOut = cap)
    (hS : SlowInv op s.streamState io.availIn (s.inputPos + io.availIn) s1 io') (hl : s1.lastBytesBits ≤ 14)
    (hbrk : slowStep o op s1 io' = .ok (s1, io', .brk))
    (hpot : io'.availIn = io.availIn → (s1 = s ∧ io' = io) ∨ slowPot op M s1 io' < slowPot op M s io)
    (hkm : io'.availIn = io.availIn → MCap (stateCap s) s1) :
    ExitFacts op M cap s io.availIn s1 io' (if canEnc op s io then 1 else 0) (if canEnc op s1 io' then 1 else 0) := by
  obtain ⟨_, _, b1, b2, b3, b4⟩ := slowStep_brk hbrk
  refine ⟨hS.inv, hS.rm, hl, hS.st, b2, b3, by split <;> omega, ?_, ?_, ?_, ?_, fun hav => stateCap_le_of_mcap (hkm hav)⟩
  · intro hop ha
    by_cases hp : s.streamState = .processing
    · have hce : canEnc op s io := by unfold canEnc; exact ⟨hp, Or.inr ⟨hop, ha⟩⟩
      rw [if_pos hce, if_pos hp]
    · have hce : ¬ canEnc op s io := by unfold canEnc; exact fun hh => hp hh.1
      rw [if_neg hce, if_neg hp]
  · intro hp hor hav hz
    apply b4
    refine ⟨hz, hp, ?_⟩
    rcases hor with h | h
    · exact Or.inr h
    · left
      by_cases hr : remainingInputBlockSize s1 = 0
      · exact hr
      · exact absurd ⟨hr, by rw [hav]; exact h⟩ b1
  · intro hor hav
    by_cases hp : s1.streamState = .processing
    · have : remainingInputBlockSize s1 = 0 ∨ (op ≠ 0 ∧ io'.availIn = 0) := by
        by_cases ha : io.availIn = 0
        · rcases hor with h | h
          · exact Or.inr ⟨h, by rw [hav]; exact ha⟩
          · exact absurd ha h
        · left
          by_cases hr : remainingInputBlockSize s1 = 0
          · exact hr
          · exact absurd ⟨hr, by rw [hav]; exact ha⟩ b1
      have hce : canEnc op s1 io' := by unfold canEnc; exact ⟨hp, this⟩
      rw [if_pos hce, if_pos hp]
    · have hce : ¬ canEnc op s1 io' := by unfold canEnc; exact fun hh => hp hh.1
      rw [if_neg hce, if_neg hp]
  · intro hav
    rcases hpot hav with ⟨e1, e2⟩ | hlt
    · left; subst e2; exact ⟨e1, hio⟩
    · right
      unfold slowPot at hlt
      rw [hav] at hlt
      simp only [Nat.add_mul] at hlt
      omega

theorem exitFacts_fast {o : Oracle} {op M cap : Nat} {s s1 : St} {io io' : Io}
    (hio : io.availOut = cap)
    (hS : FastInv op s.streamState io.availIn s1 io') (hl : s1.lastBytesBits ≤ 14)
    (hbrk : fastStep o op s1 io' = .ok (s1, io', false))
    (hpot : io'.availIn = io.availIn → (s1 = s ∧ io' = io) ∨ fastPot M s1 io' < fastPot M s io)
    (hkm : io'.availIn = io.availIn → MCap (stateCap s) s1) :
    ExitFacts op M cap s io.availIn s1 io' (if s.streamState = .processing then 1 else 0) (if s1.streamState = .processing then 1 else 0) := by
  obtain ⟨_, _, b2, b3, b4⟩ := fastStep_brk hbrk
  refine ⟨hS.inv, hS.rm, hl, hS.st, b2, b3, by split <;> omega, fun _ _ => rfl, ?_, fun _ _ => rfl, ?_, fun hav => stateCap_le_of_mcap (hkm hav)⟩
  · intro hp hor hav hz
    apply b4
    refine ⟨hz, hp, ?_⟩
    rcases hor with h | h
    · exact Or.inr h
    · exact Or.inl (by rw [hav]; exact h)
  · intro hav
    rcases hpot hav with ⟨e1, e2⟩ | hlt
    · left; subst e2; exact ⟨e1, hio⟩
    · right
      unfold fastPot at hlt
      rw [hav] at hlt
      simp only [Nat.add_mul] at hlt
      omega
theorem good_updateSizeHint {s : St} (hG : Good s) (n : Nat) : Good (updateSizeHint s n) := by
  obtain ⟨_, _, _, _, _, _, f7, _, f9, _, _, _, f13, f14, _⟩ := updateSizeHint_fields s n
  exact ⟨inv_updateSizeHint hG.inv n, f7.trans hG.rm, by rw [f14]; exact hG.lbb, by rw [f9, f13]; exact hG.quiet⟩

/-- one PROCESS / FLUSH / FINISH call from a good state: cursors balanced, good state again, and —
if it was accepted, had output room and consumed nothing — the rank of the request kind went down.
No hypothesis on the oracle: the potential runs with the per-call storage bound `callCap`. -/
theorem call_good {o : Oracle} {op cap fuel : Nat} {input : Bytes} {s s' : St} {io' : Io} {r : Bool}
    (hop : op ≤ 2) (hG : Good s) (hw : s.inputPos + input.length < two64)
    (h : compressStream o fuel s op input cap = .ok (s', io', r)) :
    io'.out.length + io'.availOut = cap ∧ io'.availIn ≤ input.length ∧ Good s' ∧
    (r = true → 0 < cap → io'.availIn = input.length →
      (op = 0 → input.length ≠ 0 → rankPF s' < rankPF s) ∧
      (op = 2 → input.length = 0 → isFinished s' = false → rankPF s' < rankPF s) ∧
      (op = 1 → input.length = 0 → hasMoreOutput s' = true → rankFl s' < rankFl s)) := by
  have hC := cap_callCap s input cap
  have hM0 : input.length = 0 → callCap s input.length = stateCap s := by
    intro h0; rw [h0]; exact callCap_zero s
  cases r with
  | false =>
    obtain ⟨hs, hio⟩ := refused_unchanged (by omega) hG.inv hw h
    subst hio
    refine ⟨by simp [Io.start], Nat.le_refl _, ?_, fun hh => absurd hh (by simp)⟩
    rcases hs with rfl | rfl
    · exact hG
    · exact good_updateSizeHint hG 0
  | true =>
    have hI := hG.inv
    have hrm := hG.rm
    unfold compressStream at h
    rw [ensureInitialized_id hI.init] at h
    simp only at h
    rw [if_neg (by simp [hrm]), if_neg (by omega)] at h
    have hnmd : ¬ (s.streamState = .metadataHead ∨ s.streamState = .metadataBody) := by
      intro hh; exact absurd hrm (hI.mdIff.mp hh)
    rw [if_neg hnmd] at h
    split at h
    · simp at h
    · rename_i hok
      have hacc : s.streamState ≠ .processing → input.length = 0 := by
        intro hh
        by_cases hne : input.length = 0
        · exact hne
        · exact absurd ⟨hh, hne⟩ hok
      split at h
      · rename_i hfast
        have hfm : fastMode s.params := ⟨hfast.1, by simpa using hfast.2.1, by simpa using hfast.2.2⟩
        unfold compressStreamFast at h
        split at h
        · simp at h
        · split at h
          · rename_i s1 io1 hl
            simp only [Out.ok.injEq, Prod.mk.injEq] at h
            obtain ⟨rfl, rfl, _⟩ := h
            obtain ⟨q1, q2, q3, q4, q5, q6, q7⟩ := fastLoop_stalled (io := { input := input, availIn := input.length, availOut := cap }) hop hI hrm hfm hacc hC (mcap_stateCap s) hG.lbb hl
            have hE := exitFacts_fast (M := callCap s input.length) (cap := cap) (io := { input := input, availIn := input.length, availOut := cap }) rfl q4 q5 q3 q6 q7
            obtain ⟨g1, g2⟩ := stall_of_exit hG (a := input.length) hacc hM0 hE
            refine ⟨by simpa using q2, q1, g1, ?_⟩
            intro _ hcap hcons
            exact g2 hcap hcons
          · simp at h
          · simp at h
      · obtain ⟨q0, q1, q2, s1, e1, q3, q4, q5, q6, q7⟩ := slowLoop_stalled (io := { input := input, availIn := input.length, availOut := cap }) hop hI hrm hw hacc hC (mcap_stateCap s) hG.lbb h
        subst e1
        have hE := exitFacts_slow (M := callCap s input.length) (cap := cap) (io := { input := input, availIn := input.length, availOut := cap }) rfl q4 q5 q3 q6 q7
        obtain ⟨g1, g2⟩ := stall_of_exit hG (a := input.length) hacc hM0 hE
        refine ⟨by simpa using q2, q1, g1, ?_⟩
        intro _ hcap hcons
        exact g2 hcap hcons
end BV.Stream
