import BV.Model.FFI
/-
Hypotheses on the Rust calls under the C ABI wrappers (checked on every twin call by the harness)
and the small lemmas of C13.
-/
namespace BV.FFI

/-- `compress_stream` moves offset and counter together (C20's obligation; the harness checks
`offset + available = what was offered` on every twin call) -/
structure CursorsAgree (c : StreamCall) (a : StreamAns) : Prop where
  inEq : a.inOff + a.availIn = c.availIn
  outEq : a.outOff + a.availOut = c.availOut

/-- the `total_out` cell is stored exactly by the calls that deliver bytes, with the encoder's
running total (encode.rs `inject_flush_or_push_output`, the in-place branch of the fast path, the
metadata copy) -/
def TotalTracks (c : StreamCall) (a : StreamAns) : Prop :=
  a.toWritten = if a.outOff = 0 then none else some (c.encTotal + a.outOff)

theorem ptrAdd_some (p k : Nat) : ptrAdd (some p) k = some (p + k) := rfl
theorem ptrAdd_zero (p : Option Nat) : ptrAdd p 0 = p := by cases p <;> rfl

/-- the handed-out chunks of a schedule of `take_output(size)` / push-`k` events over the pending
bytes, and what is left -/
inductive Hand where
  | take (size : Nat)     -- `BrotliEncoderTakeOutput(&size)`
  | push (k : Nat)        -- a stream call copies `min k pending` bytes to the caller's buffer
deriving DecidableEq, Repr

def handOut : Bytes → List Hand → List Bytes × Bytes
  | pending, [] => ([], pending)
  | pending, .take size :: rest =>
    let (bs, _, left) := takeOutput pending size
    let (chunks, final) := handOut left rest
    (bs :: chunks, final)
  | pending, .push k :: rest =>
    let (chunks, final) := handOut (pending.drop (min k pending.length)) rest
    (pending.take (min k pending.length) :: chunks, final)

theorem takeOutput_spec (pending : Bytes) (size : Nat) :
    (takeOutput pending size).1 ++ (takeOutput pending size).2.2 = pending ∧
    (takeOutput pending size).2.1 = (takeOutput pending size).1.length ∧
    (takeOutput pending size).1.length = (if size = 0 then pending.length else min size pending.length) := by
  unfold takeOutput
  by_cases hs : size = 0
  · subst hs
    by_cases hp : pending.length = 0
    · have : pending = [] := List.eq_nil_of_length_eq_zero hp
      subst this; simp
    · simp [hp]
  · by_cases hm : min size pending.length = 0
    · have hp : pending.length = 0 := by omega
      have : pending = [] := List.eq_nil_of_length_eq_zero hp
      subst this; simp [hs]
    · simp [hs, hm, List.length_take]

end BV.FFI
