/-
Helper lemmas for C02 `ranges_tile`: the pieces `[i*n/t, (i+1)*n/t)` tile `[0, n)`.
-/
import BV.Model.Multi

namespace BV.Lemmas.Multi
open BV.Multi BV.Multi.Res

/-- the boundary function of `get_range` -/
def bnd (t n k : Nat) : Nat := k * n / t

theorem bnd_zero (t n : Nat) : bnd t n 0 = 0 := by simp [bnd]

theorem bnd_top (t n : Nat) (ht : 0 < t) : bnd t n t = n := by
  unfold bnd; rw [Nat.mul_comm]; exact Nat.mul_div_cancel n ht

theorem bnd_mono (t n : Nat) {a b : Nat} (h : a ≤ b) : bnd t n a ≤ bnd t n b :=
  Nat.div_le_div_right (Nat.mul_le_mul_right n h)

theorem bnd_le (t n k : Nat) (ht : 0 < t) (hk : k ≤ t) : bnd t n k ≤ n := by
  have := bnd_mono t n hk
  rwa [bnd_top t n ht] at this

/-- no overflow below the stated bound -/
theorem mul_lt_of_lt (i t n : Nat) (hi : i < t) (hnt : n * t < U64) : (i + 1) * n < U64 ∧ i * n < U64 := by
  have h1 : (i + 1) * n ≤ t * n := Nat.mul_le_mul_right n hi
  have h2 : i * n ≤ (i + 1) * n := Nat.mul_le_mul_right n (Nat.le_succ i)
  have h3 : t * n = n * t := Nat.mul_comm t n
  omega

/-- `t = alloc_per_thread.len()` is a `usize` -/
theorem getRange_eq (i t n : Nat) (hi : i < t) (ht64 : t < U64) (hnt : n * t < U64) :
    getRange i t n = ok (bnd t n i, bnd t n (i + 1)) := by
  obtain ⟨h1, h2⟩ := mul_lt_of_lt i t n hi hnt
  have ht : t ≠ 0 := by omega
  unfold getRange
  rw [if_neg (by omega), if_neg ht, if_neg (by omega), if_neg (by omega)]
  rfl

theorem getRangeWrap_eq (i t n : Nat) (hi : i < t) (ht64 : t < U64) (hnt : n * t < U64) :
    getRangeWrap i t n = ok (bnd t n i, bnd t n (i + 1)) := by
  obtain ⟨h1, h2⟩ := mul_lt_of_lt i t n hi hnt
  have ht : t ≠ 0 := by omega
  unfold getRangeWrap
  rw [if_neg ht, Nat.mod_eq_of_lt h2, Nat.mod_eq_of_lt (show i + 1 < U64 by omega), Nat.mod_eq_of_lt h1]
  rfl

/-- the first `k` pieces of any list, glued, are its first `bnd k` elements -/
theorem pieces_prefix {α : Type} (l : List α) (t n : Nat) :
    ∀ k, ((List.range k).flatMap fun i => (l.drop (bnd t n i)).take (bnd t n (i + 1) - bnd t n i))
      = l.take (bnd t n k) := by
  intro k
  induction k with
  | zero => simp [bnd_zero]
  | succ k ih =>
    rw [List.range_succ, List.flatMap_append, ih]
    simp only [List.flatMap_cons, List.flatMap_nil, List.append_nil]
    have hm : bnd t n k ≤ bnd t n (k + 1) := bnd_mono t n (Nat.le_succ k)
    have e : bnd t n (k + 1) = bnd t n k + (bnd t n (k + 1) - bnd t n k) := by omega
    conv => rhs; rw [e, List.take_add]

end BV.Lemmas.Multi
