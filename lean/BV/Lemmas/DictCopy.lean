/-
C10, decoder copy path: frame of one speculative copy, the invariant "every dictionary byte still within
max_distance is intact" (`DictLive`) and the exact condition `CopySafe` under which a copy preserves it.
-/
import BV.Model.Dict
namespace BV.Dict

/-- end of the ring range a copy of `i ≥ 1` bytes at `pos` may write: the speculative 16-byte blocks overshoot
`pos + i` by at most 15 bytes -/
def writeEnd (pos i : Nat) : Nat := if i ≤ 16 then pos + 16 else if i ≤ 32 then pos + 32 else pos + i

theorem writeEnd_le (pos i : Nat) (hi : 1 ≤ i) : writeEnd pos i ≤ pos + i + 15 ∧ pos + 16 ≤ writeEnd pos i ∧ pos + i ≤ writeEnd pos i := by
  unfold writeEnd; split
  · omega
  · split <;> omega

theorem memmove16_frame (ring : Nat → Nat) (dst src j : Nat) (h : j < dst ∨ dst + 16 ≤ j) :
    memmove16 ring dst src j = ring j := by
  unfold memmove16; rw [if_neg (by omega)]

theorem wrapCopyLoop_frame (R dist : Nat) : ∀ (i : Nat) (ring : Nat → Nat) (pos j : Nat), (j < pos ∨ pos + i ≤ j) →
    wrapCopyLoop R dist i ring pos j = ring j := by
  intro i
  induction i with
  | zero => intro ring pos j _; rfl
  | succ i ih =>
    intro ring pos j h
    rw [wrapCopyLoop, ih _ _ _ (by omega)]
    show (if j = pos then _ else ring j) = ring j
    rw [if_neg (by omega)]

/-- **frame of one copy**: whichever path is taken (speculative block only, two blocks, block + `memcpy_within_slice`,
or the byte-wise wrap copy), only ring indices in `[pos, writeEnd pos i)` are written -/
theorem decCopy_frame (R : Nat) (ring ring' : Nat → Nat) (pos dist i : Nat) (hi : 1 ≤ i)
    (h : decCopy R ring pos dist i = some ring') (j : Nat) (hj : j < pos ∨ writeEnd pos i ≤ j) :
    ring' j = ring j := by
  obtain ⟨w1, w2, w3⟩ := writeEnd_le pos i hi
  unfold decCopy at h
  simp only at h
  split at h
  · cases h
  · split at h
    · cases h
      rw [wrapCopyLoop_frame _ _ _ _ _ _ (by omega), memmove16_frame _ _ _ _ (by omega)]
    · split at h
      · cases h
        rw [wrapCopyLoop_frame _ _ _ _ _ _ (by omega), memmove16_frame _ _ _ _ (by omega)]
      · split at h
        · rename_i h16
          split at h
          · rename_i h32
            have hw : writeEnd pos i = pos + i := by unfold writeEnd; rw [if_neg (by omega), if_neg (by omega)]
            unfold memcpyWithin at h
            split at h
            · split at h
              · cases h
                simp only
                rw [if_neg (by omega), memmove16_frame _ _ _ _ (by omega)]
              · cases h
            · split at h
              · cases h
                simp only
                rw [if_neg (by omega), memmove16_frame _ _ _ _ (by omega)]
              · cases h
          · rename_i h32
            have hw : writeEnd pos i = pos + 32 := by unfold writeEnd; rw [if_neg (by omega), if_pos (by omega)]
            cases h
            rw [memmove16_frame _ _ _ _ (by omega), memmove16_frame _ _ _ _ (by omega)]
        · cases h
          rw [memmove16_frame _ _ _ _ (by omega)]

theorem decWrite_frame (ring : Nat → Nat) (pos : Nat) (b : List Nat) (j : Nat) (h : j < pos ∨ pos + b.length ≤ j) :
    decWrite ring pos b j = ring j := by
  unfold decWrite; rw [if_neg (by omega)]

/-- the dictionary bytes the decoder can still be asked for at stream position `pos` are intact: the byte `k`
positions before position 0 is reachable iff `pos + k ≤ max_distance(pos) = min (pos + d') mbd`, i.e.
`k ≤ d'` and `pos + k ≤ mbd` -/
def DictLive (D : Dec) (R : Nat) (ring : Nat → Nat) (pos : Nat) : Prop :=
  ∀ k, 1 ≤ k → k ≤ D.dEff → pos + k ≤ D.mbd → ring (R - k) = D.dict (D.d - k)

theorem dictLive_alloc (D : Dec) (R : Nat) (hR : D.dEff ≤ R) : DictLive D R (D.ringAt R) 0 := by
  intro k hk1 hk _
  unfold Dec.ringAt
  have hd : D.dEff ≤ D.d := by unfold Dec.dEff; omega
  rw [if_pos (by omega)]
  congr 1
  omega

/-- the exact condition under which a copy of `i` bytes at `pos` cannot hurt the dictionary tail: the ring was not
shrunk, or every byte the copy may write (speculative overshoot included) lies below the dictionary -/
def CopySafe (D : Dec) (R pos i : Nat) : Prop := R = 2 ^ D.wbits ∨ writeEnd pos i ≤ R - D.dEff

/-- **`dict_tail_readable`** (copy step): under `CopySafe`, after the copy every dictionary byte that is still
within `max_distance` of the new position is intact -/
theorem dictLive_copy (D : Dec) (R : Nat) (ring ring' : Nat → Nat) (pos dist i : Nat)
    (hi : 1 ≤ i) (hlive : DictLive D R ring pos) (hsafe : CopySafe D R pos i)
    (h : decCopy R ring pos dist i = some ring') : DictLive D R ring' (pos + i) := by
  intro k hk1 hk hreach
  obtain ⟨w1, w2, w3⟩ := writeEnd_le pos i hi
  have hunch : ring' (R - k) = ring (R - k) := by
    apply decCopy_frame R ring ring' pos dist i hi h
    rcases hsafe with hfull | hbelow
    · -- full ring: a clobbered index is further than mbd from every later position
      right
      unfold Dec.mbd at hreach
      rw [← hfull] at hreach
      omega
    · right; omega
  rw [hunch]
  exact hlive k hk1 hk (by omega)

/-- literals / dictionary words are written exactly: they never touch the dictionary tail while the output fits -/
theorem dictLive_write (D : Dec) (R : Nat) (ring : Nat → Nat) (pos : Nat) (b : List Nat)
    (hlive : DictLive D R ring pos) (hfit : pos + b.length + D.dEff ≤ R ∨ R = 2 ^ D.wbits) :
    DictLive D R (decWrite ring pos b) (pos + b.length) := by
  intro k hk1 hk hreach
  rw [decWrite_frame _ _ _ _ (by
    rcases hfit with h1 | h2
    · right; omega
    · right; unfold Dec.mbd at hreach; rw [← h2] at hreach; omega)]
  exact hlive k hk1 hk (by omega)

end BV.Dict
