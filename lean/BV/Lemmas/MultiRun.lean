/-
Helper lemmas for C02/C06: inversion and evaluation of `compressMulti`.
-/
import BV.Lemmas.MultiTotal

namespace BV.Lemmas.Multi
open BV.Multi BV.Multi.Res

/-- the joined results the stitch loop sees for jobs `0 .. t-2` -/
def joinedList (sp : Spawner) (t : Nat) (jobs : Nat → JobRes) : List Joined :=
  ((List.range (t - 1)).map jobs).map (joined sp)

/-- the part of `CompressMulti` after the jobs have run -/
def tailRun (cap : Nat) (js : List Joined) (last : JobRes) : Res MultiRet :=
  (stitch cap js acc0).bind fun r =>
  match r with
  | .inr e => ok ⟨.error e, [], false⟩
  | .inl a => (stitchLast cap a last).bind fun a => finishUp cap a

theorem onCaller_ok {i : Nat} {r r' : JobRes} (h : onCaller i r = ok r') : r' = r ∧ r ≠ .panic ∧ r ≠ .spin := by
  cases r with
  | ok b => simp only [onCaller, ok.injEq] at h; subst h; simp
  | err => simp only [onCaller, ok.injEq] at h; subst h; simp
  | panic => simp [onCaller] at h
  | spin => simp [onCaller] at h

/-- every returning call went through the stitch loop with the last job's own result -/
theorem compressMulti_inv {sp : Spawner} {t : Nat} {jobs : Nat → JobRes} {cap : Nat} {r : MultiRet}
    (h : compressMulti sp t jobs cap = ok r) :
    t ≠ 0 ∧ jobs (t - 1) ≠ .panic ∧ jobs (t - 1) ≠ .spin ∧
    tailRun cap (joinedList sp t jobs) (jobs (t - 1)) = ok r := by
  unfold compressMulti at h
  by_cases ht : t = 0
  · rw [if_pos ht] at h; cases h
  rw [if_neg ht] at h
  by_cases hp : sp = .pool ∧ t > 1 ∧ t > BV.Gen.MAX_THREADS
  · rw [if_pos hp] at h; cases h
  rw [if_neg hp] at h
  obtain ⟨_, _, h⟩ := bind_eq_ok h
  obtain ⟨last, hl, h⟩ := bind_eq_ok h
  obtain ⟨e1, e2, e3⟩ := onCaller_ok hl
  subst e1
  exact ⟨ht, e2, e3, h⟩

/-- evaluation when no job panics or spins -/
theorem compressMulti_clean (sp : Spawner) (t : Nat) (jobs : Nat → JobRes) (cap : Nat) (ht : t ≠ 0)
    (hp : sp = .pool → t ≤ BV.Gen.MAX_THREADS) (hc : Clean jobs t) :
    compressMulti sp t jobs cap = tailRun cap (joinedList sp t jobs) (jobs (t - 1)) := by
  unfold compressMulti
  rw [if_neg ht, if_neg (by intro ⟨h1, _, h3⟩; have := hp h1; omega)]
  have hin : (if sp = .inline then inlineSpawns jobs (List.range (t - 1)) else ok ()) = ok () := by
    by_cases hs : sp = .inline
    · rw [if_pos hs]
      exact inlineSpawns_clean jobs _ fun i hi => hc i (by simp at hi; omega)
    · rw [if_neg hs]
  rw [hin, bind_ok]
  have hl := hc (t - 1) (by omega)
  rw [onCaller_clean (t - 1) _ hl.1 hl.2, bind_ok]
  rfl

theorem joinedList_fine (sp : Spawner) (t : Nat) (jobs : Nat → JobRes) (hc : Clean jobs t) :
    ∀ j, j ∈ joinedList sp t jobs → joinedFine j := by
  intro j hj
  simp only [joinedList, List.mem_map, List.mem_range] at hj
  obtain ⟨r, ⟨i, hi, rfl⟩, rfl⟩ := hj
  have := hc i (by omega)
  exact joined_fine sp _ this.1 this.2

/-- a clean run returns, hands the input back and stays inside the buffer -/
theorem tailRun_total (cap : Nat) (js : List Joined) (last : JobRes) (hj : ∀ j, j ∈ js → joinedFine j) :
    ∃ r, tailRun cap js last = ok r ∧ r.returned = true ∧ r.out.length ≤ cap := by
  obtain ⟨a, h1, k1⟩ := stitch_total cap js acc0 hj (acc0_ok cap)
  obtain ⟨a2, h2, k2⟩ := stitchLast_total cap a last k1
  obtain ⟨r, h3, h4, h5⟩ := finishUp_total cap a2 k2
  exact ⟨r, by simp only [tailRun, h1, bind_ok, h2, h3], h4, h5⟩

theorem finishUp_ok {cap : Nat} {a : Acc} {r : MultiRet} {k : Nat} (h : finishUp cap a = ok r) (hk : r.result = .ok k) :
    isOk a.res ∧ spliceFinish cap a.cat a.out = some r.out ∧ k = r.out.length ∧ r.returned = true := by
  unfold finishUp at h
  cases hr : a.res with
  | error e => rw [hr] at h; simp only [ok.injEq] at h; subst h; cases hk
  | ok k0 =>
    rw [hr] at h
    dsimp only at h
    cases hf : BV.Concat.finish a.cat (cap - a.out.length) with
    | panic s => rw [hf] at h; cases h
    | ok f =>
      rw [hf] at h
      simp only [ok.injEq] at h
      subst h
      dsimp only at hk
      unfold finishRes at hk
      by_cases hc : f.code = BV.Concat.SUCCESS
      · rw [if_pos hc] at hk
        injection hk with hk
        refine ⟨⟨k0, rfl⟩, ?_, hk.symm, rfl⟩
        simp only [spliceFinish, hf, if_pos hc]
      · rw [if_neg hc] at hk; cases hk

theorem stitchLast_ok {cap : Nat} {a a' : Acc} {lr : JobRes} (h : stitchLast cap a lr = ok a') (hk : isOk a'.res) :
    isOk a.res ∧ ∃ bytes, lr = .ok bytes ∧ spliceMembers cap [bytes] a.cat a.out = some (a'.cat, a'.out) := by
  obtain ⟨k, hk⟩ := hk
  have hstart : isOk a.res := by
    rcases isOk_or_isErr a.res with h1 | ⟨e, he⟩
    · exact h1
    · cases lr <;> simp only [stitchLast, stitchArm, errArm, he, ok.injEq] at h <;> subst h <;> rw [he] at hk <;> cases hk
  obtain ⟨k0, hk0⟩ := hstart
  refine ⟨⟨k0, hk0⟩, ?_⟩
  cases lr with
  | ok bytes =>
    simp only [stitchLast, stitchArm, hk0] at h
    obtain ⟨r, hs, hout, hcat, hcode⟩ := stitchOk_ok h
    rcases hcode with ⟨hg, _⟩ | ⟨_, ⟨e, he⟩⟩
    · refine ⟨bytes, rfl, ?_⟩
      simp only [spliceMembers, hs, if_pos hg, hout, hcat]
    · rw [he] at hk; cases hk
  | err => simp only [stitchLast, errArm, hk0, ok.injEq] at h; subst h; cases hk
  | panic => simp only [stitchLast, errArm, hk0, ok.injEq] at h; subst h; cases hk
  | spin => simp only [stitchLast, errArm, hk0, ok.injEq] at h; subst h; cases hk

end BV.Lemmas.Multi
