import BV.Lemmas.StreamLtsLoops
/-
An accepted `compress_stream` call is a sequence of atomic steps.
-/
namespace BV.Stream
open BV.Bits

/-- the loop invariant of `process_metadata` at loop entry (as inside `md_refines`) -/
theorem mdInv_enter {s : St} {io : Io} (hI : Inv s)
    (hentry : (s.remainingMetadata ≠ u32Max ∧ io.availIn = s.remainingMetadata) ∨
              (s.remainingMetadata = u32Max ∧ s.streamState = .processing ∧ io.availIn ≤ 16777216)) :
    MdInv io.availIn (mdEnter s io.availIn) io := by
  unfold mdEnter
  rcases hentry with ⟨h1, h2⟩ | ⟨h1, h2, h3⟩
  · have hst := hI.mdIff.mpr h1
    have hnp : s.streamState ≠ .processing := by rcases hst with h | h <;> rw [h] <;> simp
    rw [if_neg hnp]
    exact ⟨hI, hst, hI.mdLe h1, h2, Nat.le_refl _⟩
  · rw [if_pos h2]
    have hmod : io.availIn % two32 = io.availIn := Nat.mod_eq_of_lt (lt_two32_of_le h3)
    refine ⟨?_, Or.inl (by simp), ?_, ?_, Nat.le_refl _⟩
    · refine ⟨hI.init, hI.fl_le, hI.lp_le, hI.ip_lt, hI.blk, ?_, ?_, ?_, hI.q01, ?_⟩
      · intro hle2
        have := hI.lastFin hle2
        rw [h2] at this; cases this
      · simp only [hmod]
        constructor
        · intro _; have := u32Max_gt; omega
        · intro _; exact Or.inl trivial
      · intro _; simp only [hmod]; exact h3
      · intro hfl; cases hfl
    · simp only [hmod]; exact h3
    · simp only [hmod]

/-- an accepted PROCESS / FLUSH / FINISH call: atomic steps none of which is `check_flush_complete`,
then `check_flush_complete` -/
theorem call_steps2 {o : Oracle} {fuel op cap : Nat} {input : Bytes} {s s' : St} {io' : Io}
    (hop2 : op ≤ 2) (hI : Inv s) (hw : s.inputPos + input.length < two64)
    (h : compressStream o fuel s op input cap = .ok (s', io', true)) :
    ∃ evs s1, Steps o op (s, Io.start input cap) evs (s1, io') ∧ (∀ e ∈ evs, e ≠ .tau 0)
      ∧ Step o op (s1, io') (.tau 0) (s', io') ∧ s' = checkFlushComplete s1
      ∧ ExitOK op s1 io' := by
  unfold compressStream at h
  rw [ensureInitialized_id hI.init] at h
  simp only at h
  split at h
  · simp at h
  · rename_i hg
    have hop3 : op ≠ 3 := by omega
    rw [if_neg hop3] at h
    have hrm : s.remainingMetadata = u32Max := by
      by_cases hne : s.remainingMetadata = u32Max
      · exact hne
      · exact absurd ⟨hne, Or.inr hop3⟩ hg
    have hnmd : ¬ (s.streamState = .metadataHead ∨ s.streamState = .metadataBody) := by
      intro hh; exact absurd hrm (hI.mdIff.mp hh)
    rw [if_neg hnmd] at h
    split at h
    · simp at h
    · rename_i hok
      have hacc : s.streamState ≠ .processing → input.length = 0 := by
        intro hh
        by_cases hne : input.length = 0
        · exact hne
        · exact absurd ⟨hh, hne⟩ hok
      split at h
      · rename_i hfast
        have hfm : fastMode s.params := ⟨hfast.1, by simpa using hfast.2.1, by simpa using hfast.2.2⟩
        unfold compressStreamFast at h
        rw [if_neg (by rcases hfast.1 with h1 | h1 <;> simp [h1])] at h
        split at h
        · rename_i s1 io1 hl1
          simp only [Out.ok.injEq, Prod.mk.injEq] at h
          obtain ⟨rfl, rfl, _⟩ := h
          have hP0 : FastInv op s.streamState input.length s { input := input, availIn := input.length, availOut := cap } :=
            ⟨hI, hfm, hrm, Nat.le_refl _, hacc, Or.inl rfl⟩
          obtain ⟨hP1, hnp, hx, evs, hevs, hnt⟩ := fastLoop_steps hop2 fuel _ _ _ _ hP0 hl1
          exact ⟨evs, s1, hevs, hnt, Step.cfc hP1.inv hop2 hP1.rm hnp hP1.nonprocZero, rfl, hx⟩
        · simp at h
        · simp at h
      · rename_i hnfast
        have hnf : ¬ fastMode s.params := by
          intro hh
          exact hnfast ⟨hh.1, by simp [hh.2.1], by simp [hh.2.2]⟩
        exact slowLoop_steps (c0 := s.streamState) (n := input.length) (total := s.inputPos + input.length) hop2 fuel s _ _ _ _ hnf
          ⟨hI, rfl, hw, hrm, Nat.le_refl _, hacc, Or.inl rfl⟩ h

/-- **an accepted call is a sequence of atomic steps** (from an initialised state) -/
theorem call_steps {o : Oracle} {fuel op cap : Nat} {input : Bytes} {s s' : St} {io' : Io}
    (hop : op ≤ 3) (hI : Inv s) (hw : s.inputPos + input.length < two64)
    (h : compressStream o fuel s op input cap = .ok (s', io', true)) :
    ∃ evs, Steps o op (s, Io.start input cap) evs (s', io') := by
  by_cases hop2 : op ≤ 2
  · obtain ⟨evs, s1, h1, _, h2, _⟩ := call_steps2 hop2 hI hw h
    exact ⟨evs ++ [.tau 0], h1.append (.one h2)⟩
  have hop3 : op = 3 := by omega
  subst hop3
  unfold compressStream at h
  rw [ensureInitialized_id hI.init] at h
  simp only at h
  split at h
  · simp at h
  · rename_i hg
    simp only [↓reduceIte] at h
    have hIu := inv_updateSizeHint hI 0
    obtain ⟨_, _, _, _, _, _, u7, _, u9, _⟩ := updateSizeHint_fields s 0
    unfold processMetadata at h
    split at h
    · simp at h
    · rename_i hle
      split at h
      · simp at h
      · rename_i hgood
        have hle' : input.length ≤ 16777216 := by simpa using hle
        have hentry : (s.remainingMetadata ≠ u32Max ∧ input.length = s.remainingMetadata) ∨
            (s.remainingMetadata = u32Max ∧ s.streamState = .processing ∧ input.length ≤ 16777216) := by
          by_cases hrm : s.remainingMetadata = u32Max
          · refine Or.inr ⟨hrm, ?_, hle'⟩
            by_cases hpr : s.streamState = .processing
            · exact hpr
            · exfalso
              have hme : mdEnter (updateSizeHint s 0) input.length = updateSizeHint s 0 := by
                unfold mdEnter; rw [if_neg (by rw [u9]; exact hpr)]
              simp only at hgood
              rw [hme, u9] at hgood
              apply hgood
              constructor
              · intro hh; exact absurd hrm (hI.mdIff.mp (Or.inl hh))
              · intro hh; exact absurd hrm (hI.mdIff.mp (Or.inr hh))
          · refine Or.inl ⟨hrm, ?_⟩
            by_cases hne : input.length = s.remainingMetadata
            · exact hne
            · exact absurd ⟨hrm, Or.inl hne⟩ hg
        have hentryU : ((updateSizeHint s 0).remainingMetadata ≠ u32Max ∧ input.length = (updateSizeHint s 0).remainingMetadata) ∨
            ((updateSizeHint s 0).remainingMetadata = u32Max ∧ (updateSizeHint s 0).streamState = .processing ∧ input.length ≤ 16777216) := by
          rw [u7, u9]; exact hentry
        have hP := mdInv_enter (io := { input := input, availIn := input.length, availOut := cap }) hIu hentryU
        obtain ⟨evs, hevs⟩ := mdLoop_steps fuel _ _ _ _ _ hP h
        exact ⟨.tau 2 :: evs, .cons (Step.mdEnter (io := Io.start input cap) hI rfl hentry) hevs⟩

/-- the first call on a fresh encoder: initialisation, then atomic steps -/
theorem call_steps_fresh {o : Oracle} {fuel op cap : Nat} {input : Bytes} {s s' : St} {io' : Io}
    (hop : op ≤ 3) (hf : IsFresh s) (hw : input.length < two64)
    (h : compressStream o fuel s op input cap = .ok (s', io', true)) :
    ∃ evs, Steps o op (s, Io.start input cap) (.window (ensureInitialized s).carry :: evs) (s', io') := by
  rw [compressStream_ensure] at h
  have hI := (inv_fresh hf).1
  have hip : (ensureInitialized s).inputPos = 0 := by
    obtain ⟨p, rfl⟩ := hf
    simp [ensureInitialized, St.new]
  obtain ⟨evs, hevs⟩ := call_steps hop hI (by rw [hip]; omega) h
  exact ⟨evs, .cons (Step.init hf) hevs⟩

end BV.Stream
