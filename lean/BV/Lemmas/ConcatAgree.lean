/-
The concatenator's own header parsers agree with the RFC reader of `BV.HeaderSpec`:
`parse_window_size` = `readWbits`, `detect_varlen_offset` = end of the first meta-block header
(for metadata / uncompressed first blocks).  (C03 `concat_stored_decodes`)
-/
import BV.Lemmas.ConcatStored

namespace BV.Concat
open Outcome BV.Gen BV.HeaderSpec BV.Framing

/-- compare the two window parsers on a first byte that is not of the large-window form -/
def agreeSmall (b0 : Nat) : Bool :=
  match pwsCore b0 (Outcome.panic .pwsIndex1), readWbits (BV.Bits.bitsOf 8 b0) with
  | .ok (some (w, o)), some (w', lg, r) => w == w' && lg == false && r.length + o == 8
  | _, _ => false

theorem agreeSmall_all : ∀ b0 : Fin 256, 127 &&& b0.val ≠ 17 → agreeSmall b0.val = true := by decide +kernel

/-- …and on the large-window form `11 xx` -/
def agreeLarge (b1 : Nat) : Bool :=
  match pwsCore 17 (ok b1), readWbits (BV.Bits.bitsOf 8 17 ++ BV.Bits.bitsOf 8 b1) with
  | .ok (some (w, o)), some (w', lg, r) => w == w' && lg == true && o == 14 && r.length == 2
  | .ok none, none => true
  | _, _ => false

theorem agreeLarge_all : ∀ b1 : Fin 256, agreeLarge b1.val = true := by decide +kernel

theorem readWbits_large_bits (d0 d1 d2 d3 d4 d5 d6 d7 : Bool) (Y : List Bool) :
    readWbits ([true, false, false, false, true, false, false, false] ++ ([d0, d1, d2, d3, d4, d5, d6, d7] ++ Y))
      = if 10 ≤ BV.Bits.valOf [d0, d1, d2, d3, d4, d5] ∧ BV.Bits.valOf [d0, d1, d2, d3, d4, d5] ≤ 30
        then some (BV.Bits.valOf [d0, d1, d2, d3, d4, d5], true, d6 :: d7 :: Y) else none := by
  have e1 : BV.Bits.valOf [false, false, false] = 0 := by decide
  have e2 : BV.Bits.valOf [true, false, false] = 1 := by decide
  simp only [List.cons_append, List.nil_append, readWbits, e1, e2, ne_eq, not_true_eq_false, if_false,
    Nat.one_ne_zero, if_true]

theorem readWbits_ext (A : List Bool) (w : Nat) (lg : Bool) (r : List Bool) (h : readWbits A = some (w, lg, r))
    (Y : List Bool) : readWbits (A ++ Y) = some (w, lg, r ++ Y) := by
  obtain ⟨wb, e, hw, _, _⟩ := readWbits_local A w lg r h
  rw [e, List.append_assoc]; exact hw _

/-- `parse_window_size` on the look-ahead = `readWbits` on the member's bits -/
theorem parse_agrees (m : List Nat) (w : Nat) (lg : Bool) (r : List Bool)
    (hb : ∀ y, y ∈ m → y < 256) (hlen : need (m.headD 0) ≤ m.length)
    (h : readWbits (bytesToBits m) = some (w, lg, r)) :
    parseWindowSize (m.take (need (m.headD 0))) = ok (some (w, (bytesToBits m).length - r.length)) := by
  have h4 : 4 ≤ m.length := by unfold need at hlen; split at hlen <;> omega
  obtain ⟨b0, t0, rfl, h3⟩ := exists_cons m 3 h4
  obtain ⟨b1, t1, rfl, _⟩ := exists_cons t0 2 h3
  have hb0 : b0 < 256 := hb b0 (by simp)
  have hb1 : b1 < 256 := hb b1 (by simp)
  have htake : (b0 :: b1 :: t1).take (need ((b0 :: b1 :: t1).headD 0)) = b0 :: b1 :: t1.take (need b0 - 2) := by
    simp only [List.headD_cons]
    have : need b0 = (need b0 - 2) + 1 + 1 := by unfold need; split <;> omega
    rw [this, List.take_succ_cons, List.take_succ_cons]
    simp
  rw [htake, parseWindowSize_cons2]
  rw [bytesToBits_cons, bytesToBits_cons, ← bitsOf_eq, ← bitsOf_eq] at h
  by_cases h17 : 127 &&& b0 = 17
  · -- large-window form (or the rejected 0x91)
    have hb0' : b0 = 17 ∨ b0 = 145 := by
      have : ∀ b : Fin 256, 127 &&& b.val = 17 → b.val = 17 ∨ b.val = 145 := by decide +kernel
      exact this ⟨b0, hb0⟩ h17
    rcases hb0' with rfl | rfl
    · have ha := agreeLarge_all ⟨b1, hb1⟩
      unfold agreeLarge at ha
      dsimp only at ha
      have hext : ∀ w' lg' r', readWbits (BV.Bits.bitsOf 8 17 ++ BV.Bits.bitsOf 8 b1) = some (w', lg', r') →
          w' = w ∧ r = r' ++ bytesToBits t1 := by
        intro w' lg' r' hh
        have := readWbits_ext _ w' lg' r' hh (bytesToBits t1)
        rw [List.append_assoc, h] at this
        simp only [Option.some.injEq, Prod.mk.injEq] at this
        exact ⟨this.1.symm, this.2.2⟩
      cases hp : pwsCore 17 (ok b1) with
      | panic t => rw [hp] at ha; simp at ha
      | ok po =>
        rw [hp] at ha
        cases hrw : readWbits (BV.Bits.bitsOf 8 17 ++ BV.Bits.bitsOf 8 b1) with
        | none =>
          exfalso
          -- the reader would reject every continuation
          rw [hrw] at ha
          have : ∀ b : Fin 256, readWbits (BV.Bits.bitsOf 8 17 ++ BV.Bits.bitsOf 8 b.val) = none →
              ∀ Y, readWbits (BV.Bits.bitsOf 8 17 ++ (BV.Bits.bitsOf 8 b.val ++ Y)) = none := by
            intro b hn Y
            have e17 : BV.Bits.bitsOf 8 17 = [true, false, false, false, true, false, false, false] := by decide
            rw [e17] at hn ⊢
            obtain ⟨d0, d1, d2, d3, d4, d5, d6, d7, hd⟩ : ∃ d0 d1 d2 d3 d4 d5 d6 d7,
                BV.Bits.bitsOf 8 b.val = [d0, d1, d2, d3, d4, d5, d6, d7] :=
              ⟨_, _, _, _, _, _, _, _, rfl⟩
            rw [hd] at hn ⊢
            have h1 := readWbits_large_bits d0 d1 d2 d3 d4 d5 d6 d7 []
            have h2 := readWbits_large_bits d0 d1 d2 d3 d4 d5 d6 d7 Y
            rw [List.append_nil, hn] at h1
            rw [h2]
            split at h1
            · simp at h1
            · rename_i hc; rw [if_neg hc]
          have := this ⟨b1, hb1⟩ hrw (bytesToBits t1)
          rw [h] at this; simp at this
        | some tr =>
          obtain ⟨w', lg', r'⟩ := tr
          rw [hrw] at ha
          obtain ⟨e1, e2⟩ := hext w' lg' r' hrw
          cases po with
          | none => simp at ha
          | some wo =>
            obtain ⟨pw, o⟩ := wo
            simp only [Bool.and_eq_true, beq_iff_eq] at ha
            obtain ⟨⟨⟨f1, _⟩, f3⟩, f4⟩ := ha
            rw [e2]
            simp only [List.length_append, bytesToBits_length, List.length_cons]
            rw [f1, e1, f3]
            congr 3
            omega
    · exfalso
      have e145 : BV.Bits.bitsOf 8 145 = [true, false, false, false, true, false, false, true] := by decide
      rw [e145] at h
      simp [readWbits, BV.Bits.valOf] at h
  · have ha := agreeSmall_all ⟨b0, hb0⟩ h17
    unfold agreeSmall at ha
    dsimp only at ha
    cases hp : pwsCore b0 (Outcome.panic .pwsIndex1) with
    | panic t => rw [hp] at ha; simp at ha
    | ok po =>
      rw [hp] at ha
      cases po with
      | none => simp at ha
      | some wo =>
        obtain ⟨pw, o⟩ := wo
        cases hrw : readWbits (BV.Bits.bitsOf 8 b0) with
        | none => rw [hrw] at ha; simp at ha
        | some tr =>
          obtain ⟨w', lg', r'⟩ := tr
          rw [hrw] at ha
          simp only [Bool.and_eq_true, beq_iff_eq] at ha
          obtain ⟨⟨f1, _⟩, f3⟩ := ha
          have := readWbits_ext _ w' lg' r' hrw (BV.Bits.bitsOf 8 b1 ++ bytesToBits t1)
          rw [h] at this
          simp only [Option.some.injEq, Prod.mk.injEq] at this
          obtain ⟨e1, _, e3⟩ := this
          rw [pwsCore_mono b0 _ (ok b1) _ hp, e3]
          simp only [List.length_append, bytesToBits_length, BV.Header.length_bitsOf, List.length_cons]
          rw [f1, ← e1]
          congr 3
          omega

/-! ### `detect_varlen_offset` -/

/-- the `u64` packing loop of `detect_varlen_offset` on a 4- or 5-byte look-ahead -/
theorem packLE_value (bs : List Nat) (hb : ∀ y, y ∈ bs → y < 256) (hl : bs.length = 4 ∨ bs.length = 5) :
    ∃ H0, packLE .dvoShl bs 0 0 = ok H0 ∧ bytesToBits bs = bitsOf (8 * bs.length) H0 := by
  rcases hl with hl | hl
  · match bs, hl with
    | [a, b, c, d], _ =>
      have ha := hb a (by simp); have hb' := hb b (by simp); have hc := hb c (by simp); have hd := hb d (by simp)
      have e0 : (0 ||| a <<< 0) = a := by simp
      have e1 : a ||| b <<< 8 = a + b * 2 ^ 8 := or_shl_add _ _ _ (by omega)
      have e2 : (a + b * 2 ^ 8) ||| c <<< 16 = a + b * 2 ^ 8 + c * 2 ^ 16 := or_shl_add _ _ _ (by omega)
      have e3 : (a + b * 2 ^ 8 + c * 2 ^ 16) ||| d <<< 24 = a + b * 2 ^ 8 + c * 2 ^ 16 + d * 2 ^ 24 :=
        or_shl_add _ _ _ (by omega)
      refine ⟨a + b * 2 ^ 8 + c * 2 ^ 16 + d * 2 ^ 24, ?_, ?_⟩
      · simp only [packLE, Nat.reduceMul, Nat.reduceAdd, Nat.reduceLeDiff, ge_iff_le, if_false, e0, e1, e2, e3,
          Nat.zero_add]
      · have := bytesToBits_le 4 [a, b, c, d] (a + b * 2 ^ 8 + c * 2 ^ 16 + d * 2 ^ 24) (by
          intro j hj
          have hj' : j = 0 ∨ j = 1 ∨ j = 2 ∨ j = 3 := by omega
          unfold leByte
          simp only [Nat.shiftRight_eq_div_pow]
          rcases hj' with rfl | rfl | rfl | rfl <;> simp <;> omega)
        simpa using this
  · match bs, hl with
    | [a, b, c, d, e], _ =>
      have ha := hb a (by simp); have hb' := hb b (by simp); have hc := hb c (by simp); have hd := hb d (by simp)
      have he := hb e (by simp)
      have e0 : (0 ||| a <<< 0) = a := by simp
      have e1 : a ||| b <<< 8 = a + b * 2 ^ 8 := or_shl_add _ _ _ (by omega)
      have e2 : (a + b * 2 ^ 8) ||| c <<< 16 = a + b * 2 ^ 8 + c * 2 ^ 16 := or_shl_add _ _ _ (by omega)
      have e3 : (a + b * 2 ^ 8 + c * 2 ^ 16) ||| d <<< 24 = a + b * 2 ^ 8 + c * 2 ^ 16 + d * 2 ^ 24 :=
        or_shl_add _ _ _ (by omega)
      have e4 : (a + b * 2 ^ 8 + c * 2 ^ 16 + d * 2 ^ 24) ||| e <<< 32
          = a + b * 2 ^ 8 + c * 2 ^ 16 + d * 2 ^ 24 + e * 2 ^ 32 := or_shl_add _ _ _ (by omega)
      refine ⟨a + b * 2 ^ 8 + c * 2 ^ 16 + d * 2 ^ 24 + e * 2 ^ 32, ?_, ?_⟩
      · simp only [packLE, Nat.reduceMul, Nat.reduceAdd, Nat.reduceLeDiff, ge_iff_le, if_false, e0, e1, e2, e3, e4,
          Nat.zero_add]
      · have := bytesToBits_le 5 [a, b, c, d, e] (a + b * 2 ^ 8 + c * 2 ^ 16 + d * 2 ^ 24 + e * 2 ^ 32) (by
          intro j hj
          have hj' : j = 0 ∨ j = 1 ∨ j = 2 ∨ j = 3 ∨ j = 4 := by omega
          unfold leByte
          simp only [Nat.shiftRight_eq_div_pow]
          rcases hj' with rfl | rfl | rfl | rfl | rfl <;> simp <;> omega)
        simpa using this

/-- a field of `j` bits at bit `p` of a value, read off its bit string -/
theorem field_value (N v p j : Nat) (h : p + j ≤ N) :
    (v >>> p) % 2 ^ j = BV.Bits.valOf (((bitsOf N v).drop p).take j) := by
  have e : N = p + (j + (N - p - j)) := by omega
  rw [e, bitsOf_append, List.drop_left' (bitsOf_length p v), bitsOf_append,
    List.take_left' (bitsOf_length j _), valOf_bitsOf', Nat.shiftRight_eq_div_pow]

theorem and_one_eq (x : Nat) : x &&& 1 = x % 2 ^ 1 := by
  have := Nat.and_two_pow_sub_one_eq_mod x 1
  simp at this ⊢

theorem and_three_eq (x : Nat) : x &&& 3 = x % 2 ^ 2 := by
  have := Nat.and_two_pow_sub_one_eq_mod x 2
  simpa using this

/-- the packed look-ahead is smaller than `2^(8·length)` -/
theorem packLE_lt (bs : List Nat) (H0 : Nat) (h : bytesToBits bs = bitsOf (8 * bs.length) H0)
    (hb : ∀ y, y ∈ bs → y < 256) (hl : bs.length = 4 ∨ bs.length = 5)
    (hp : packLE .dvoShl bs 0 0 = ok H0) : H0 < 2 ^ (8 * bs.length) := by
  rcases hl with hl | hl
  · match bs, hl with
    | [a, b, c, d], _ =>
      have ha := hb a (by simp); have hb' := hb b (by simp); have hc := hb c (by simp); have hd := hb d (by simp)
      have e0 : (0 ||| a <<< 0) = a := by simp
      have e1 : a ||| b <<< 8 = a + b * 2 ^ 8 := or_shl_add _ _ _ (by omega)
      have e2 : (a + b * 2 ^ 8) ||| c <<< 16 = a + b * 2 ^ 8 + c * 2 ^ 16 := or_shl_add _ _ _ (by omega)
      have e3 : (a + b * 2 ^ 8 + c * 2 ^ 16) ||| d <<< 24 = a + b * 2 ^ 8 + c * 2 ^ 16 + d * 2 ^ 24 :=
        or_shl_add _ _ _ (by omega)
      simp only [packLE, Nat.reduceMul, Nat.reduceAdd, Nat.reduceLeDiff, ge_iff_le, if_false, e0, e1, e2, e3,
        Nat.zero_add, Outcome.ok.injEq] at hp
      subst hp
      simp only [List.length_cons, List.length_nil]
      omega
  · match bs, hl with
    | [a, b, c, d, e], _ =>
      have ha := hb a (by simp); have hb' := hb b (by simp); have hc := hb c (by simp); have hd := hb d (by simp)
      have he := hb e (by simp)
      have e0 : (0 ||| a <<< 0) = a := by simp
      have e1 : a ||| b <<< 8 = a + b * 2 ^ 8 := or_shl_add _ _ _ (by omega)
      have e2 : (a + b * 2 ^ 8) ||| c <<< 16 = a + b * 2 ^ 8 + c * 2 ^ 16 := or_shl_add _ _ _ (by omega)
      have e3 : (a + b * 2 ^ 8 + c * 2 ^ 16) ||| d <<< 24 = a + b * 2 ^ 8 + c * 2 ^ 16 + d * 2 ^ 24 :=
        or_shl_add _ _ _ (by omega)
      have e4 : (a + b * 2 ^ 8 + c * 2 ^ 16 + d * 2 ^ 24) ||| e <<< 32
          = a + b * 2 ^ 8 + c * 2 ^ 16 + d * 2 ^ 24 + e * 2 ^ 32 := or_shl_add _ _ _ (by omega)
      simp only [packLE, Nat.reduceMul, Nat.reduceAdd, Nat.reduceLeDiff, ge_iff_le, if_false, e0, e1, e2, e3, e4,
        Nat.zero_add, Outcome.ok.injEq] at hp
      subst hp
      simp only [List.length_cons, List.length_nil]
      omega

/-- `detect_varlen_offset` on the look-ahead: whenever it accepts (returns an offset `v`), `v` is the
end of the first meta-block header as the RFC reader sees it (metadata or uncompressed first
block); if that header lies inside the look-ahead it does accept. -/
theorem detect_agrees (m : List Nat) (w wo : Nat) (wb H rest : List Bool)
    (hb : ∀ y, y ∈ m → y < 256) (hlen : need (m.headD 0) ≤ m.length)
    (hparse : parseWindowSize (m.take (need (m.headD 0))) = ok (some (w, wo)))
    (hwb : wb.length = wo) (hwo : wo ≤ 14) (hbits : bytesToBits m = wb ++ H ++ rest)
    (hform : (∃ s0 s1 XB, H = [false, true, true, false, s0, s1] ++ XB ∧ XB.length = 8 * BV.Bits.valOf [s0, s1]) ∨
      (∃ c0 c1 XB, H = [false, c0, c1] ++ XB ++ [true] ∧ BV.Bits.valOf [c0, c1] ≠ 3 ∧
        XB.length = 4 * (4 + BV.Bits.valOf [c0, c1]))) :
    (wo + H.length ≤ 8 * need (m.headD 0) →
      detectVarlenOffset (m.take (need (m.headD 0))) = ok (some (wo + H.length))) ∧
    (∀ v, detectVarlenOffset (m.take (need (m.headD 0))) = ok (some v) → v = wo + H.length) := by
  have h45 : need (m.headD 0) = 4 ∨ need (m.headD 0) = 5 := by unfold need; split <;> simp
  have hbl : (m.take (need (m.headD 0))).length = need (m.headD 0) := by rw [List.length_take]; omega
  obtain ⟨H0, hpack, hH0⟩ := packLE_value (m.take (need (m.headD 0)))
    (fun y hy => hb y (List.mem_of_mem_take hy)) (by rw [hbl]; exact h45)
  have hH0lt := packLE_lt _ H0 hH0 (fun y hy => hb y (List.mem_of_mem_take hy)) (by rw [hbl]; exact h45) hpack
  rw [hbl] at hH0lt
  rw [hbl, bytesToBits_take, hbits] at hH0
  -- fields of the packed value are fields of the header bits
  have fld : ∀ p j, p + j ≤ H.length → wo + p + j ≤ 8 * need (m.headD 0) →
      (H0 >>> (wo + p)) % 2 ^ j = BV.Bits.valOf ((H.drop p).take j) := by
    intro p j hpj hin
    rw [field_value (8 * need (m.headD 0)) H0 (wo + p) j (by omega), ← hH0,
      take_drop_take _ _ _ _ (by omega), List.append_assoc, ← hwb, ← List.drop_drop,
      List.drop_left' rfl, List.drop_append_of_le_length (by omega),
      List.take_append_of_le_length (by rw [List.length_drop]; omega)]
  unfold detectVarlenOffset
  rw [hparse]
  simp only [bind_ok, hpack]
  have sh1 : H0 >>> wo >>> 1 = H0 >>> (wo + 1) := (Nat.shiftRight_add _ _ _).symm
  have sh3 : H0 >>> (wo + 1) >>> 2 = H0 >>> (wo + 3) := by rw [← Nat.shiftRight_add]
  have sh4 : H0 >>> (wo + 3) >>> 1 = H0 >>> (wo + 4) := by rw [← Nat.shiftRight_add]
  have hH3 : 3 ≤ H.length := by
    rcases hform with ⟨_, _, _, e, _⟩ | ⟨_, _, _, e, _⟩ <;> rw [e] <;> simp <;> omega
  have f0 : H0 >>> wo &&& 1 = BV.Bits.valOf ((H.drop 0).take 1) := by
    rw [and_one_eq]; exact fld 0 1 (by omega) (by omega)
  rcases hform with ⟨s0, s1, XB, rfl, hXB⟩ | ⟨c0, c1, XB, rfl, hmn, hXB⟩
  · have hHl : ([false, true, true, false, s0, s1] ++ XB).length = 6 + 8 * BV.Bits.valOf [s0, s1] := by
      simp [hXB]; omega
    have g0 : H0 >>> wo &&& 1 = 0 := by rw [f0]; rfl
    have g1 : H0 >>> (wo + 1) &&& 3 = 3 := by
      rw [and_three_eq, fld 1 2 (by rw [hHl]; omega) (by omega)]; rfl
    have g3 : H0 >>> (wo + 3) &&& 1 = 0 := by
      rw [and_one_eq, fld 3 1 (by rw [hHl]; omega) (by omega)]; rfl
    have g4 : H0 >>> (wo + 4) &&& (1 <<< 2 - 1) = BV.Bits.valOf [s0, s1] := by
      have : (1 <<< 2 - 1 : Nat) = 3 := by decide
      rw [this, and_three_eq, fld 4 2 (by rw [hHl]; omega) (by omega)]; rfl
    simp only [g0, ne_eq, not_true_eq_false, decide_false, Bool.false_eq_true, false_and, if_false, sh1, sh3, sh4,
      g1, if_true, g3, g4, hHl]
    have e : wo + 1 + 2 + 1 + 2 + BV.Bits.valOf [s0, s1] * 8 = wo + (6 + 8 * BV.Bits.valOf [s0, s1]) := by omega
    rw [e]
    exact ⟨fun _ => rfl, fun v hv => by simp only [Outcome.ok.injEq, Option.some.injEq] at hv; exact hv.symm⟩
  · have hHl : ([false, c0, c1] ++ XB ++ [true]).length = 4 + 4 * (4 + BV.Bits.valOf [c0, c1]) := by
      simp [hXB]; omega
    have g0 : H0 >>> wo &&& 1 = 0 := by rw [f0]; rfl
    have g1 : H0 >>> (wo + 1) &&& 3 = BV.Bits.valOf [c0, c1] := by
      rw [and_three_eq, fld 1 2 (by rw [hHl]; omega) (by omega)]; rfl
    have shn : H0 >>> (wo + 3) >>> ((BV.Bits.valOf [c0, c1] + 4) * 4)
        = H0 >>> (wo + (3 + 4 * (4 + BV.Bits.valOf [c0, c1]))) := by
      rw [← Nat.shiftRight_add]; congr 1; omega
    simp only [g0, ne_eq, not_true_eq_false, decide_false, Bool.false_eq_true, false_and, if_false, sh1, sh3,
      g1, hmn, shn, hHl]
    have e : wo + 1 + 2 + (BV.Bits.valOf [c0, c1] + 4) * 4 + 1 = wo + (4 + 4 * (4 + BV.Bits.valOf [c0, c1])) := by
      omega
    rw [e]
    by_cases hin : wo + (4 + 4 * (4 + BV.Bits.valOf [c0, c1])) ≤ 8 * need (m.headD 0)
    · have g5 : H0 >>> (wo + (3 + 4 * (4 + BV.Bits.valOf [c0, c1]))) &&& 1 = 1 := by
        rw [and_one_eq, fld (3 + 4 * (4 + BV.Bits.valOf [c0, c1])) 1 (by rw [hHl]; omega) (by omega)]
        have : ([false, c0, c1] ++ XB ++ [true]).drop (3 + 4 * (4 + BV.Bits.valOf [c0, c1])) = [true] := by
          rw [List.append_assoc, show 3 + 4 * (4 + BV.Bits.valOf [c0, c1]) = ([false, c0, c1] ++ XB).length by
            simp [hXB]; omega]
          rw [← List.append_assoc, List.drop_left' rfl]
        rw [this]; rfl
      simp only [g5, Nat.one_ne_zero, if_false]
      exact ⟨fun _ => trivial, fun v hv => by simp only [Outcome.ok.injEq, Option.some.injEq] at hv; exact hv.symm⟩
    · -- the ISUNCOMPRESSED bit lies beyond the look-ahead: the packed value has a zero there
      have hz : H0 >>> (wo + (3 + 4 * (4 + BV.Bits.valOf [c0, c1]))) = 0 := by
        rw [Nat.shiftRight_eq_div_pow]
        apply Nat.div_eq_of_lt
        exact Nat.lt_of_lt_of_le hH0lt (Nat.pow_le_pow_right (by decide) (by omega))
      simp only [hz, Nat.zero_and, if_true]
      exact ⟨fun h => absurd h hin, fun v hv => by simp at hv⟩

/-! ### assembling `concat_stored_decodes` -/

theorem flag_arith : ∀ (w0 : Fin 31) (l : Bool),
    ((w0.val ||| (if l then LARGE_WINDOW_FLAG else 0)) &&& NOT_LARGE_WINDOW_FLAG) = w0.val ∧
    (((w0.val ||| (if l then LARGE_WINDOW_FLAG else 0)) &&& LARGE_WINDOW_FLAG ≠ 0) ↔ l = true) := by
  decide +kernel

/-- what is asked of a later member: RFC-reader description, at least one block before the empty
last one, window not larger and same header form as the first member, two bytes behind the
look-ahead, and the concatenator's own header check passes -/
structure LaterInput (w0 : Nat) (lg0 : Bool) (m : List Nat) (bl : List MetaBlock) : Prop where
  stored : ∃ w, StoredBytes m w lg0 bl ∧ w ≤ w0
  nonempty : bl ≠ []
  long : need (m.headD 0) + 2 ≤ m.length
  accept : ∃ v, detectVarlenOffset (m.take (need (m.headD 0))) = ok (some v) ∧ (v + 7) / 8 ≤ need (m.headD 0)

theorem later_of_input (w0 : Nat) (lg0 : Bool) (hw0 : w0 ≤ 30) (m : List Nat) (bl : List MetaBlock)
    (h : LaterInput w0 lg0 m bl) :
    ∃ d H B C, d.m = m ∧ MemberOK (w0 ||| (if lg0 then LARGE_WINDOW_FLAG else 0)) d ∧
      (∀ nprev, gapBits nprev d ++ restData d = chunkBits (if nprev < 8 then nprev else nprev - 8) H B C) ∧
      ChunkSpec bl H B C d.n := by
  obtain ⟨w, hst, hwle⟩ := h.stored
  obtain ⟨wb, F, k, hsm⟩ := storedMember_of_bytes m w lg0 bl hst
  obtain ⟨b1, bl', rfl⟩ : ∃ b1 bl', bl = b1 :: bl' := by
    cases bl with
    | nil => exact absurd rfl h.nonempty
    | cons b1 bl' => exact ⟨b1, bl', rfl⟩
  have hla : need (m.headD 0) ≤ m.length := by have := h.long; omega
  -- window field
  have hrw : readWbits (bytesToBits m) = some (w, lg0, F ++ [true, true] ++ zeros k) := (storedMember_decodes _ _ _ _ _ _ _ hsm).1
  have hparse := parse_agrees m w lg0 _ hsm.bytes hla hrw
  have hwbl : (bytesToBits m).length - (F ++ [true, true] ++ zeros k).length = wb.length := by
    rw [hsm.bits]; simp [List.append_assoc]
  rw [hwbl] at hparse
  obtain ⟨fa, fb⟩ := flag_arith ⟨w0, by omega⟩ lg0
  dsimp only at fa fb
  obtain ⟨v, hv, hvfit⟩ := h.accept
  refine later_of_stored _ m w lg0 b1 bl' wb F k hsm h.long hparse (by rw [fa]; omega) ?_ ?_
  · intro hne
    apply hne
    have : (wb.length = 14) ↔ ((w0 ||| (if lg0 then LARGE_WINDOW_FLAG else 0)) &&& LARGE_WINDOW_FLAG ≠ 0) := by
      rw [fb, hsm.lgiff]
    exact decide_eq_decide.mpr this
  · intro H B p1 r1 hshape
    have hnl : H ≠ [true, true] := fun e => by
      have := hshape.last.mpr e
      cases hsm.frames0 with
      | cons _ _ _ p1' r1' _ _ _ hread hkind _ => exact hkind.2 this
    have hform := hshape.form
    have hform' : (∃ s0 s1 XB, H = [false, true, true, false, s0, s1] ++ XB ∧ XB.length = 8 * BV.Bits.valOf [s0, s1]) ∨
        (∃ c0 c1 XB, H = [false, c0, c1] ++ XB ++ [true] ∧ BV.Bits.valOf [c0, c1] ≠ 3 ∧
          XB.length = 4 * (4 + BV.Bits.valOf [c0, c1])) := by
      rcases hform with e | e | e
      · exact absurd e hnl
      · exact Or.inl e
      · exact Or.inr e
    have hbits : bytesToBits m = wb ++ H ++ (zeros (padLen (wb.length + H.length)) ++ B ++ r1) := by
      rw [hsm.bits, List.append_assoc wb F, List.append_assoc wb, hshape.split]
      simp [List.append_assoc]
    have hwo14 : wb.length ≤ 14 := by rcases hsm.wlen with e | e | e | e <;> omega
    obtain ⟨_, hval⟩ := detect_agrees m w wb.length wb H _ hsm.bytes hla hparse rfl hwo14 hbits hform'
    have := hval v hv
    subst this
    exact ⟨hv, hvfit⟩

/-- all later members -/
inductive LaterInputs (w0 : Nat) (lg0 : Bool) : List (List Nat) → List (List MetaBlock) → Prop where
  | nil : LaterInputs w0 lg0 [] []
  | cons (m : List Nat) (ms : List (List Nat)) (bl : List MetaBlock) (bls : List (List MetaBlock))
      (h : LaterInput w0 lg0 m bl) (hrest : LaterInputs w0 lg0 ms bls) : LaterInputs w0 lg0 (m :: ms) (bl :: bls)

theorem laterAll_of_inputs (w0 : Nat) (lg0 : Bool) (hw0 : w0 ≤ 30) (ms : List (List Nat))
    (bls : List (List MetaBlock)) (h : LaterInputs w0 lg0 ms bls) :
    ∃ ds, ds.map (·.m) = ms ∧ LaterAll (w0 ||| (if lg0 then LARGE_WINDOW_FLAG else 0)) ds bls := by
  induction h with
  | nil => exact ⟨[], rfl, LaterAll.nil⟩
  | cons m ms bl bls hm _ ih =>
    obtain ⟨ds, e, hall⟩ := ih
    obtain ⟨d, H, B, C, ed, hok, hbits, hspec⟩ := later_of_input w0 lg0 hw0 m bl hm
    exact ⟨d :: ds, by simp [ed, e], LaterAll.cons d ds bl bls H B C hok hbits hspec hall⟩

/-- how the members' bytes were fed -/
inductive FedBytes : List (List Nat) → List (List (List Nat) × List Nat) → Prop where
  | nil : FedBytes [] []
  | cons (m : List Nat) (ms : List (List Nat)) (bufs : List (List Nat)) (caps : List Nat)
      (rest : List (List (List Nat) × List Nat)) (hne : bufs ≠ []) (hfl : bufs.flatten = m) (h : FedBytes ms rest) :
      FedBytes (m :: ms) ((bufs, caps) :: rest)

theorem fed_of_bytes : ∀ (ds : List MemberData) (rest : List (List (List Nat) × List Nat)),
    FedBytes (ds.map (·.m)) rest → Fed ds rest := by
  intro ds
  induction ds with
  | nil => intro rest h; cases h; exact Fed.nil
  | cons d ds ih =>
    intro rest h
    simp only [List.map_cons] at h
    cases h with
    | cons _ _ bufs caps rest' hne hfl hr => exact Fed.cons d ds bufs caps rest' hne hfl (ih rest' hr)

end BV.Concat
