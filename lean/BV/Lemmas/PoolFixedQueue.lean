/-
Helper lemmas for C07, part 1: `FixedQueue` refines a list.
All lemmas are generic in `MAX_THREADS` (only `0 < MAX_THREADS` is used).
-/
import BV.Model.FixedQueue

set_option linter.unusedSimpArgs false
set_option linter.unnecessarySimpa false
set_option linter.unusedVariables false

namespace BV.Lemmas.FixedQueue
open BV.Gen BV.FixedQueue

variable {α : Type}

/-! ### slots -/

theorem slot_inj {s i j : Nat} (hi : i < MAX_THREADS) (hj : j < MAX_THREADS)
    (h : slot (s + i) = slot (s + j)) : i = j := by
  have h' : (s + i) % MAX_THREADS = (s + j) % MAX_THREADS := by
    have := congrArg Fin.val h; simpa [slot] using this
  rcases Nat.le_total i j with hij | hij
  · have h0 := Nat.sub_mod_eq_zero_of_mod_eq h'.symm
    have e : s + j - (s + i) = j - i := by omega
    rw [e, Nat.mod_eq_of_lt (by omega)] at h0
    omega
  · have h0 := Nat.sub_mod_eq_zero_of_mod_eq h'
    have e : s + i - (s + j) = i - j := by omega
    rw [e, Nat.mod_eq_of_lt (by omega)] at h0
    omega

theorem slot_ne {s i j : Nat} (hi : i < MAX_THREADS) (hj : j < MAX_THREADS) (h : i ≠ j) :
    slot (s + i) ≠ slot (s + j) := fun e => h (slot_inj hi hj e)

theorem slot_add_max (s : Nat) : slot (s + MAX_THREADS) = slot s := by
  simp [slot]

theorem at_put (q : FixedQueue α) (i j : Fin MAX_THREADS) (v : Option α) :
    (q.put i v).at j = if i = j then v else q.at j := by
  unfold FixedQueue.at FixedQueue.put
  simp only [Vector.getElem_set]
  by_cases h : i = j
  · simp [h]
  · have : i.val ≠ j.val := fun e => h (Fin.ext e)
    simp [h, this]

@[simp] theorem put_size (q : FixedQueue α) (i : Fin MAX_THREADS) (v : Option α) :
    (q.put i v).size = q.size := rfl
@[simp] theorem put_start (q : FixedQueue α) (i : Fin MAX_THREADS) (v : Option α) :
    (q.put i v).start = q.start := rfl

/-! ### well-formedness and the bridge to `items` -/

/-- representation invariant: the window `start .. start+size-1` (mod `MAX_THREADS`) is
fully occupied, every other slot is `None` (taken items are really moved out) -/
structure WF (q : FixedQueue α) : Prop where
  size_le : q.size ≤ MAX_THREADS
  full : ∀ i, i < q.size → (q.at (slot (q.start + i))).isSome
  empty : ∀ i, q.size ≤ i → i < MAX_THREADS → q.at (slot (q.start + i)) = none

theorem filterMap_getElem?_range (l : List α) :
    (List.range l.length).filterMap (fun i => l[i]?) = l := by
  induction l with
  | nil => rfl
  | cons a t ih =>
    rw [List.length_cons, List.range_succ_eq_map, List.filterMap_cons]
    simp only [List.getElem?_cons_zero, List.filterMap_map]
    congr 1

theorem filterMap_congr' {β : Type} {f g : β → Option α} {l : List β}
    (h : ∀ x, x ∈ l → f x = g x) : l.filterMap f = l.filterMap g := by
  induction l with
  | nil => rfl
  | cons a t ih =>
    simp only [List.filterMap_cons, h a (List.mem_cons_self)]
    rw [ih (fun x hx => h x (List.mem_cons_of_mem _ hx))]

/-- a list that agrees slot-wise with the window is the abstraction -/
theorem items_eq_of (q : FixedQueue α) (l : List α) (h1 : l.length = q.size)
    (h2 : ∀ i (h : i < l.length), q.at (slot (q.start + i)) = some l[i]) : q.items = l := by
  unfold FixedQueue.items
  rw [← h1]
  rw [filterMap_congr' (g := fun i => l[i]?)]
  · exact filterMap_getElem?_range l
  · intro i hi
    have hi' : i < l.length := by simpa using hi
    rw [h2 i hi', List.getElem?_eq_getElem hi']

theorem exists_list_of_isSome (g : Nat → Option α) (n : Nat) (h : ∀ i, i < n → (g i).isSome) :
    ∃ l : List α, l.length = n ∧ ∀ i (hi : i < l.length), g i = some l[i] := by
  induction n with
  | zero => exact ⟨[], rfl, fun i hi => absurd hi (by simp)⟩
  | succ n ih =>
    obtain ⟨l, hl, hg⟩ := ih (fun i hi => h i (by omega))
    have hn := h n (by omega)
    obtain ⟨x, hx⟩ := Option.isSome_iff_exists.mp hn
    refine ⟨l ++ [x], by simp [hl], ?_⟩
    intro i hi
    rw [List.getElem_append]
    by_cases c : i < l.length
    · simp [c, hg i c]
    · have : i = n := by simp at hi; omega
      subst this
      simp [c, hl, hx]

theorem WF.items_spec {q : FixedQueue α} (w : WF q) :
    q.items.length = q.size ∧
    ∀ i (h : i < q.items.length), q.at (slot (q.start + i)) = some q.items[i] := by
  obtain ⟨l, hl, hg⟩ := exists_list_of_isSome (fun i => q.at (slot (q.start + i))) q.size w.full
  have := items_eq_of q l hl hg
  rw [this]
  exact ⟨hl, hg⟩

theorem WF.length_items {q : FixedQueue α} (w : WF q) : q.items.length = q.size := w.items_spec.1

theorem WF.at_items {q : FixedQueue α} (w : WF q) (i : Nat) (h : i < q.items.length) :
    q.at (slot (q.start + i)) = some q.items[i] := w.items_spec.2 i h

/-! ### `new` -/

theorem new_at (i : Fin MAX_THREADS) : (new : FixedQueue α).at i = none := by
  simp [new, FixedQueue.at]

theorem wf_new : WF (new : FixedQueue α) :=
  ⟨Nat.zero_le _, fun i hi => absurd hi (by simp [new]), fun i _ _ => new_at _⟩

theorem items_new : (new : FixedQueue α).items = [] := rfl

/-! ### `push` -/

theorem push_full (q : FixedQueue α) (x : α) (h : q.size = MAX_THREADS) : q.push x = none := by
  simp [FixedQueue.push, h]

theorem push_spec {q : FixedQueue α} (w : WF q) (x : α) (h : q.size < MAX_THREADS) :
    ∃ q', q.push x = some q' ∧ WF q' ∧ q'.items = q.items ++ [x] ∧ q'.size = q.size + 1 ∧
      q'.start = q.start := by
  have hne : q.size ≠ MAX_THREADS := by omega
  refine ⟨{ q.put (slot (q.start + q.size)) (some x) with size := q.size + 1 },
    by simp [FixedQueue.push, hne], ?_, ?_, rfl, rfl⟩
  · refine ⟨by simp; omega, ?_, ?_⟩
    · intro i hi
      show ((q.put (slot (q.start + q.size)) (some x)).at (slot (q.start + i))).isSome
      simp only [put_size] at hi
      rw [at_put]
      by_cases c : i = q.size
      · subst c; simp
      · have : slot (q.start + q.size) ≠ slot (q.start + i) := slot_ne h (by omega) (Ne.symm c)
        simp only [this, if_false]
        exact w.full i (by omega)
    · intro i hi hi2
      show (q.put (slot (q.start + q.size)) (some x)).at (slot (q.start + i)) = none
      simp only [put_size] at hi
      rw [at_put]
      have : slot (q.start + q.size) ≠ slot (q.start + i) := slot_ne h hi2 (by omega)
      simp only [this, if_false]
      exact w.empty i (by omega) hi2
  · apply items_eq_of
    · simp [w.length_items]
    · intro i hi
      show (q.put (slot (q.start + q.size)) (some x)).at (slot (q.start + i)) = _
      rw [at_put, List.getElem_append]
      have hl := w.length_items
      by_cases c : i < q.items.length
      · have : slot (q.start + q.size) ≠ slot (q.start + i) := slot_ne h (by omega) (by omega)
        simp only [this, if_false, c, dif_pos]
        exact w.at_items i c
      · have : i = q.size := by simp at hi; omega
        subst this
        simp [c, hl]

/-! ### `pop` -/

theorem pop_empty (q : FixedQueue α) (h : q.size = 0) : q.pop = (none, q) := by
  simp [FixedQueue.pop, h]

theorem pop_spec {q : FixedQueue α} (w : WF q) :
    (q.pop).1 = q.items.head? ∧ WF (q.pop).2 ∧ (q.pop).2.items = q.items.tail ∧
    (q.pop).2.size = q.size - 1 := by
  have hl := w.length_items
  by_cases h0 : q.size = 0
  · rw [pop_empty q h0]
    have : q.items = [] := List.eq_nil_of_length_eq_zero (by omega)
    simp [this, w, h0]
  have hM := w.size_le
  have e : q.pop = (q.at (slot q.start),
      { q.put (slot q.start) none with start := q.start + 1, size := q.size - 1 }) := by
    simp [FixedQueue.pop, h0]
  rw [e]
  have hpos : 0 < q.items.length := by omega
  have a0 := w.at_items 0 hpos
  simp only [Nat.add_zero] at a0
  have key : ∀ i, i + 1 < MAX_THREADS →
      (q.put (slot q.start) none).at (slot (q.start + 1 + i)) = q.at (slot (q.start + (i + 1))) := by
    intro i hi
    rw [at_put]
    have : slot q.start ≠ slot (q.start + (i + 1)) := by
      have := slot_ne (s := q.start) (i := 0) (j := i + 1) (by omega) hi (by omega)
      simpa using this
    have e2 : q.start + 1 + i = q.start + (i + 1) := by omega
    simp only [e2, this, if_false]
  refine ⟨?_, ?_, ?_, rfl⟩
  · simp only [a0, List.head?_eq_getElem?, List.getElem?_eq_getElem hpos]
  · refine ⟨by simp; omega, ?_, ?_⟩
    · intro i hi
      show ((q.put (slot q.start) none).at (slot (q.start + 1 + i))).isSome
      simp only at hi
      rw [key i (by omega)]
      exact w.full (i + 1) (by omega)
    · intro i hi hi2
      show (q.put (slot q.start) none).at (slot (q.start + 1 + i)) = none
      simp only at hi
      by_cases c : i + 1 < MAX_THREADS
      · rw [key i c]; exact w.empty (i + 1) (by omega) c
      · have : q.start + 1 + i = q.start + MAX_THREADS := by omega
        rw [this, slot_add_max, at_put]; simp
  · apply items_eq_of
    · simp [hl]
    · intro i hi
      show (q.put (slot q.start) none).at (slot (q.start + 1 + i)) = _
      have hi' : i + 1 < q.items.length := by simp at hi; omega
      rw [key i (by omega), w.at_items (i + 1) hi', List.getElem_tail]

/-! ### `remove` -/

/-- what `remove` does to the abstract list when the first match is at position `k`:
the head is moved into the hole, the rest keeps its order -/
def removeAbs (l : List α) (k : Nat) : List α :=
  match l with
  | [] => []
  | a :: t => (t.set (k - 1) a |> fun t' => if k = 0 then t else t')

theorem removeAbs_zero (l : List α) : removeAbs l 0 = l.tail := by
  cases l <;> simp [removeAbs]

theorem removeAbs_succ (a : α) (t : List α) (k : Nat) : removeAbs (a :: t) (k + 1) = t.set k a := by
  simp [removeAbs]

theorem length_removeAbs (l : List α) (k : Nat) : (removeAbs l k).length = l.length - 1 := by
  cases l with
  | nil => rfl
  | cons a t => by_cases h : k = 0 <;> simp [removeAbs, h]

theorem getElem_removeAbs (l : List α) (k i : Nat) (hk : k < l.length) (h : i < (removeAbs l k).length) :
    (removeAbs l k)[i] = if i + 1 = k then l[0]'(by omega) else l[i + 1]'(by rw [length_removeAbs] at h; omega) := by
  cases l with
  | nil => simp at hk
  | cons a t =>
    cases k with
    | zero => simp [removeAbs]
    | succ k =>
      simp only [removeAbs_succ, List.getElem_set, List.getElem_cons_succ, List.getElem_cons_zero]
      by_cases c : k = i
      · subst c; simp
      · simp [c]
        intro e; omega

theorem set_perm (t : List α) (k : Nat) (a : α) (h : k < t.length) :
    (t[k] :: t.set k a).Perm (a :: t) := by
  induction t generalizing k with
  | nil => simp at h
  | cons b t ih =>
    cases k with
    | zero =>
      simp only [List.getElem_cons_zero, List.set_cons_zero]
      exact List.Perm.swap a b t
    | succ k =>
      have h' : k < t.length := by simpa using h
      simp only [List.getElem_cons_succ, List.set_cons_succ]
      have := ih k h'
      exact (List.Perm.swap b t[k] (t.set k a)).trans ((this.cons b).trans (List.Perm.swap a b t))

theorem removeAbs_perm (l : List α) (k : Nat) (h : k < l.length) :
    (l[k] :: removeAbs l k).Perm l := by
  cases l with
  | nil => simp at h
  | cons a t =>
    cases k with
    | zero => simp [removeAbs]
    | succ k =>
      simp only [removeAbs_succ, List.getElem_cons_succ]
      exact set_perm t k a (by simpa using h)

theorem removeAt_eq (q : FixedQueue α) (k : Nat) :
    q.removeAt k = some (q.at (slot (q.start + k)),
      { ((q.put (slot (q.start + k)) none).put (slot q.start) none).put (slot (q.start + k))
          ((q.put (slot (q.start + k)) none).at (slot q.start)) with
        start := q.start + 1, size := q.size - 1 }) := by
  have hisNone : ((q.put (slot (q.start + k)) none).put (slot q.start) none).at
      (slot (q.start + k)) = none := by
    simp only [at_put]; split <;> simp
  unfold FixedQueue.removeAt
  simp only [hisNone]
  rfl

/-- the `assert!` of `remove` can never fire, whatever the queue looks like -/
theorem removeAt_isSome (q : FixedQueue α) (k : Nat) : (q.removeAt k).isSome := by
  rw [removeAt_eq]; rfl

theorem removeAt_spec {q : FixedQueue α} (w : WF q) (k : Nat) (hk : k < q.size) :
    ∃ q' x, q.removeAt k = some (some x, q') ∧ q.items[k]? = some x ∧ WF q' ∧
      q'.items = removeAbs q.items k ∧ q'.size = q.size - 1 := by
  have hl := w.length_items
  have hM := w.size_le
  have hk' : k < q.items.length := by omega
  have hpos : 0 < q.items.length := by omega
  have a0 := w.at_items 0 hpos
  simp only [Nat.add_zero] at a0
  have ak := w.at_items k hk'
  have e := removeAt_eq q k
  -- name the two slots
  obtain ⟨S, hS⟩ : ∃ S, S = slot q.start := ⟨_, rfl⟩
  obtain ⟨T, hT⟩ : ∃ T, T = slot (q.start + k) := ⟨_, rfl⟩
  rw [← hS, ← hT] at e
  rw [← hS] at a0
  rw [← hT] at ak
  obtain ⟨q3, hq3d⟩ : ∃ q3, q3 = ((q.put T none).put S none).put T ((q.put T none).at S) := ⟨_, rfl⟩
  rw [← hq3d] at e
  have hq3 : ∀ x, q3.at x = if T = x then (if T = S then none else q.at S)
      else if S = x then none else q.at x := by
    intro x
    simp only [hq3d, at_put]
    by_cases c1 : T = x <;> simp [c1]
  have key : ∀ i, i + 1 < MAX_THREADS → q3.at (slot (q.start + 1 + i)) =
      if i + 1 = k then q.at S else q.at (slot (q.start + (i + 1))) := by
    intro i hi
    have e2 : q.start + 1 + i = q.start + (i + 1) := by omega
    rw [e2, hq3]
    have hS' : S ≠ slot (q.start + (i + 1)) := by
      have := slot_ne (s := q.start) (i := 0) (j := i + 1) (by omega) hi (by omega)
      rw [hS]; simpa using this
    by_cases c : i + 1 = k
    · have hTS : T ≠ S := by rw [hT, ← c]; exact fun e => hS' e.symm
      have hTx : T = slot (q.start + (i + 1)) := by rw [hT, c]
      rw [if_pos hTx, if_neg hTS, if_pos c]
    · have hT' : T ≠ slot (q.start + (i + 1)) := by
        rw [hT]; exact slot_ne (by omega) hi (Ne.symm c)
      simp [hT', hS', c]
  rw [ak] at e
  refine ⟨_, _, e, by simp [hk'], ?_, ?_, rfl⟩
  · refine ⟨by simp; omega, ?_, ?_⟩
    · intro i hi
      show (q3.at (slot (q.start + 1 + i))).isSome
      simp only at hi
      rw [key i (by omega)]
      by_cases c : i + 1 = k
      · simp [c, a0]
      · simp only [c, if_false]; exact w.full (i + 1) (by omega)
    · intro i hi hi2
      show q3.at (slot (q.start + 1 + i)) = none
      simp only at hi
      by_cases c : i + 1 < MAX_THREADS
      · rw [key i c]
        have : ¬ (i + 1 = k) := by omega
        simp only [this, if_false]
        exact w.empty (i + 1) (by omega) c
      · have : q.start + 1 + i = q.start + MAX_THREADS := by omega
        rw [this, slot_add_max, hq3, ← hS]
        by_cases c1 : T = S <;> simp [c1]
  · apply items_eq_of
    · simp [length_removeAbs, hl]
    · intro i hi
      show q3.at (slot (q.start + 1 + i)) = _
      have hi' : i + 1 < q.items.length := by rw [length_removeAbs] at hi; omega
      rw [key i (by omega), getElem_removeAbs _ _ _ hk' hi]
      by_cases c : i + 1 = k
      · simp [c, a0]
      · simp only [c, if_false]; exact w.at_items (i + 1) hi'

theorem removeLoop_spec (q : FixedQueue α) (f : Option α → Bool) (fuel index : Nat) :
    ((∀ i, index ≤ i → i < index + fuel → f (q.at (slot (q.start + i))) = false) ∧
      q.removeLoop f fuel index = some (none, q)) ∨
    (∃ k, index ≤ k ∧ k < index + fuel ∧ f (q.at (slot (q.start + k))) = true ∧
      (∀ i, index ≤ i → i < k → f (q.at (slot (q.start + i))) = false) ∧
      q.removeLoop f fuel index = q.removeAt k) := by
  induction fuel generalizing index with
  | zero => left; exact ⟨fun i h1 h2 => by omega, rfl⟩
  | succ fuel ih =>
    unfold FixedQueue.removeLoop
    by_cases c : f (q.at (slot (q.start + index))) = true
    · right
      exact ⟨index, Nat.le_refl _, by omega, c, fun i h1 h2 => by omega, by simp [c]⟩
    · simp only [c]
      rcases ih (index + 1) with ⟨h1, h2⟩ | ⟨k, h1, h2, h3, h4, h5⟩
      · left
        refine ⟨fun i hi1 hi2 => ?_, h2⟩
        by_cases e : i = index
        · subst e; simpa using c
        · exact h1 i (by omega) (by omega)
      · right
        refine ⟨k, by omega, by omega, h3, fun i hi1 hi2 => ?_, h5⟩
        by_cases e : i = index
        · subst e; simpa using c
        · exact h4 i (by omega) hi2

/-- `remove` on a well-formed queue: never panics; either nothing matches and the queue is
unchanged, or the FIRST matching item (position `k`) is returned and the abstract list
becomes `removeAbs items k` -/
theorem remove_spec {q : FixedQueue α} (w : WF q) (f : Option α → Bool) :
    ((∀ x, x ∈ q.items → f (some x) = false) ∧ q.remove f = some (none, q)) ∨
    (∃ k x q', q.items[k]? = some x ∧ f (some x) = true ∧
      (∀ i y, i < k → q.items[i]? = some y → f (some y) = false) ∧
      q.remove f = some (some x, q') ∧ WF q' ∧ q'.items = removeAbs q.items k ∧
      q'.size = q.size - 1) := by
  have hl := w.length_items
  by_cases h0 : q.size = 0
  · left
    have : q.items = [] := List.eq_nil_of_length_eq_zero (by omega)
    simp [this, FixedQueue.remove, h0]
  have er : q.remove f = q.removeLoop f q.size 0 := by simp [FixedQueue.remove, h0]
  rcases removeLoop_spec q f q.size 0 with ⟨h1, h2⟩ | ⟨k, _, h2, h3, h4, h5⟩
  · left
    refine ⟨fun x hx => ?_, er.trans h2⟩
    obtain ⟨i, hi, rfl⟩ := List.mem_iff_getElem.mp hx
    have := h1 i (Nat.zero_le _) (by omega)
    rwa [w.at_items i hi] at this
  · right
    have hk : k < q.size := by omega
    obtain ⟨q', x, e1, e2, e3, e4, e5⟩ := removeAt_spec w k hk
    refine ⟨k, x, q', e2, ?_, ?_, er.trans (h5.trans e1), e3, e4, e5⟩
    · have hk' : k < q.items.length := by omega
      rw [w.at_items k hk'] at h3
      rw [List.getElem?_eq_getElem hk'] at e2
      cases e2; exact h3
    · intro i y hi hy
      have hi' : i < q.items.length := by omega
      have := h4 i (Nat.zero_le _) hi
      rw [w.at_items i hi'] at this
      rw [List.getElem?_eq_getElem hi'] at hy
      cases hy; exact this

end BV.Lemmas.FixedQueue
