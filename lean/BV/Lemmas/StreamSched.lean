import BV.Lemmas.StreamRunHist
/-
Schedule independence (C05), part 1: the abstract machine.

`core s` erases the output side of a state (cursor, pending bytes, total, size of `storage_`);
an abstract configuration `Abs` is the core state, ALL bytes produced so far (delivered or still
pending) and the input not yet consumed.  `ustep` is the machine's behaviour on abstract
configurations — a FUNCTION, with no output capacity anywhere in it.  Every atomic step of the
real machine either leaves the abstract configuration alone (moving bytes to the caller) or is
exactly `ustep`.
-/
namespace BV.Stream
open BV.Bits

/-- the state with its output side erased -/
def core (s : St) : St := { s with nextOut := .none, pending := [], totalOut := 0, storageSize := 0 }

structure Abs where
  s : St
  out : Bytes
  input : Bytes
  availIn : Nat
deriving DecidableEq

def absOf (s : St) (io : Io) (del : Bytes) : Abs := ⟨core s, del ++ io.out ++ s.pending, io.input, io.availIn⟩

theorem core_idem (s : St) : core (core s) = core s := rfl

/-! ### the payload part of `encode_data` without its capacity checks -/

/-- `encPayload` minus the two `storage_` capacity checks -/
def encPayloadPure (s : St) (ans : Ans) (w0 w : Writer) (hdr : Nat) (isLast forceFlush : Bool) : St :=
  let predicted := w.drop w0.length
  let good := decide (predicted.length ≤ ans.bits.length) && ans.result
  let exact := decide (ans.bits.length = predicted.length)
  let s : St := { s with prefixBad := (s.prefixBad || !isPrefixOf' predicted ans.bits) }
  let wFull : Writer := w ++ ans.bits.drop predicted.length
  let headerOnly : St := { s with pending := (wholeBytes w).take hdr }
  if s.params.quality = 0 ∨ s.params.quality = 1 then
    if s.unprocessed = 0 ∧ !isLast then
      { headerOnly with oracleBad := (s.oracleBad || !good || !exact) }
    else
      { s with lastBytes := (carryOf wFull).1, lastBytesBits := (carryOf wFull).2, lastProcessedPos := s.inputPos, lastFlushPos := s.inputPos, nextOut := .dyn 0, pending := wholeBytes wFull, oracleBad := (s.oracleBad || !good) }
  else
    if !isLast ∧ !forceFlush ∧ !ans.emit then
      { headerOnly with lastProcessedPos := s.inputPos, oracleBad := (s.oracleBad || !good || !exact) }
    else if !isLast ∧ s.inputPos = s.lastFlushPos then
      { headerOnly with oracleBad := (s.oracleBad || !good || !ans.emit || !exact) }
    else
      { s with lastBytes := (carryOf wFull).1, lastBytesBits := (carryOf wFull).2, lastFlushPos := s.inputPos, lastProcessedPos := s.inputPos, nextOut := .dyn 0, pending := wholeBytes wFull, oracleBad := (s.oracleBad || !good || !ans.emit) }

theorem encPayload_pure {s s' : St} {ans : Ans} {w0 w : Writer} {hdr : Nat} {il ff res : Bool}
    (h : encPayload s ans w0 w hdr il ff = .ok (s', res)) : s' = encPayloadPure s ans w0 w hdr il ff := by
  unfold encPayload at h
  unfold encPayloadPure
  simp only at h ⊢
  split_all h
  all_goals first
    | (simp at h; done)
    | (simp only [Out.ok.injEq, Prod.mk.injEq] at h; obtain ⟨rfl, rfl⟩ := h; simp_all; done)
    | (simp only [Out.ok.injEq, Prod.mk.injEq] at h; obtain ⟨rfl, rfl⟩ := h
       cases il <;> cases ff <;> cases hem : ans.emit <;> simp_all)

end BV.Stream
