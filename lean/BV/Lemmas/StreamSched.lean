import BV.Lemmas.StreamRunHist
/-
Schedule independence (C05), part 1: the abstract machine.

`core s` erases the output side of a state (cursor, pending bytes, total, size of `storage_`);
an abstract configuration `Abs` is the core state, ALL bytes produced so far (delivered or still
pending) and the input not yet consumed.  `ustep` is the machine's behaviour on abstract
configurations — a FUNCTION, with no output capacity anywhere in it.  Every atomic step of the
real machine either leaves the abstract configuration alone (moving bytes to the caller) or is
exactly `ustep`.
-/
namespace BV.Stream
open BV.Bits

/-- the state with its output side erased -/
def core (s : St) : St := { s with nextOut := .none, pending := [], totalOut := 0, storageSize := 0 }

structure Abs where
  s : St
  out : Bytes
  input : Bytes
  availIn : Nat
deriving DecidableEq

def absOf (s : St) (io : Io) (del : Bytes) : Abs := ⟨core s, del ++ io.out ++ s.pending, io.input, io.availIn⟩

theorem core_idem (s : St) : core (core s) = core s := rfl

/-! ### the payload part of `encode_data` without its capacity checks -/

/-- `encPayload` minus the two `storage_` capacity checks -/
def encPayloadPure (s : St) (ans : Ans) (w0 w : Writer) (hdr : Nat) (isLast forceFlush : Bool) : St :=
  let predicted := w.drop w0.length
  let good := decide (predicted.length ≤ ans.bits.length) && ans.result
  let exact := decide (ans.bits.length = predicted.length)
  let s : St := { s with prefixBad := (s.prefixBad || !isPrefixOf' predicted ans.bits) }
  let wFull : Writer := w ++ ans.bits.drop predicted.length
  let headerOnly : St := { s with pending := (wholeBytes w).take hdr }
  if s.params.quality = 0 ∨ s.params.quality = 1 then
    if s.unprocessed = 0 ∧ !isLast then
      { headerOnly with oracleBad := (s.oracleBad || !good || !exact) }
    else
      { s with lastBytes := (carryOf wFull).1, lastBytesBits := (carryOf wFull).2, lastProcessedPos := s.inputPos, lastFlushPos := s.inputPos, nextOut := .dyn 0, pending := wholeBytes wFull, oracleBad := (s.oracleBad || !good) }
  else
    if !isLast ∧ !forceFlush ∧ !ans.emit then
      { headerOnly with lastProcessedPos := s.inputPos, oracleBad := (s.oracleBad || !good || !exact) }
    else if !isLast ∧ s.inputPos = s.lastFlushPos then
      { headerOnly with oracleBad := (s.oracleBad || !good || !ans.emit || !exact) }
    else
      { s with lastBytes := (carryOf wFull).1, lastBytesBits := (carryOf wFull).2, lastFlushPos := s.inputPos, lastProcessedPos := s.inputPos, nextOut := .dyn 0, pending := wholeBytes wFull, oracleBad := (s.oracleBad || !good || !ans.emit) }

theorem encPayload_pure {s s' : St} {ans : Ans} {w0 w : Writer} {hdr : Nat} {il ff res : Bool}
    (h : encPayload s ans w0 w hdr il ff = .ok (s', res)) : s' = encPayloadPure s ans w0 w hdr il ff := by
  unfold encPayload at h
  unfold encPayloadPure
  simp only at h ⊢
  split_all h
  all_goals first
    | (simp at h; done)
    | (simp only [Out.ok.injEq, Prod.mk.injEq] at h; obtain ⟨rfl, rfl⟩ := h; simp_all; done)
    | (simp only [Out.ok.injEq, Prod.mk.injEq] at h; obtain ⟨rfl, rfl⟩ := h
       cases il <;> cases ff <;> cases hem : ans.emit <;> simp_all)

theorem core_eq_iff {x y : St} : core x = core y ↔
    x.params = y.params ∧ x.inputPos = y.inputPos ∧ x.lastFlushPos = y.lastFlushPos ∧ x.lastProcessedPos = y.lastProcessedPos
    ∧ x.lastBytes = y.lastBytes ∧ x.lastBytesBits = y.lastBytesBits ∧ x.remainingMetadata = y.remainingMetadata
    ∧ x.streamState = y.streamState ∧ x.isLastBlockEmitted = y.isLastBlockEmitted ∧ x.isInitialized = y.isInitialized
    ∧ x.isFirstMb = y.isFirstMb ∧ x.ring = y.ring ∧ x.first2 = y.first2 ∧ x.nEnc = y.nEnc ∧ x.oracleBad = y.oracleBad
    ∧ x.prefixBad = y.prefixBad := by
  cases x; cases y
  simp only [core, St.mk.injEq]
  constructor
  · intro h; simp_all
  · intro h; simp_all

theorem encMagic_core {x y : St} (h : core x = core y) (w : Writer) :
    core (encMagic x w).1 = core (encMagic y w).1 ∧ (encMagic x w).2 = (encMagic y w).2 := by
  have h' := core_eq_iff.mp h
  obtain ⟨h1, _, _, _, _, _, _, _, _, _, h11, _⟩ := h'
  unfold encMagic
  rw [h1, h11]
  split
  · refine ⟨?_, rfl⟩
    rw [core_eq_iff] at h ⊢
    simp_all
  · exact ⟨h, rfl⟩

theorem encPrelude_core {x y x' : St} {w w' : Writer} {hdr hdr' bytes : Nat} (h : core x = core y)
    (hx : encPrelude x w hdr bytes = .ok (x', w', hdr')) :
    ∃ y', encPrelude y w hdr bytes = .ok (y', w', hdr') ∧ core x' = core y' := by
  cases x; cases y
  simp only [core, St.mk.injEq] at h
  obtain ⟨rfl, rfl, rfl, rfl, rfl, rfl, _, _, _, _, rfl, rfl, rfl, rfl, rfl, rfl, rfl, rfl, rfl, rfl⟩ := h
  unfold encPrelude at hx ⊢
  simp only at hx ⊢
  split_all hx
  all_goals first
    | (simp at hx; done)
    | (simp only [Out.ok.injEq, Prod.mk.injEq] at hx; obtain ⟨rfl, rfl, rfl⟩ := hx
       simp_all [core, Nat.not_lt_of_le])

theorem encPayloadPure_core {x y : St} (h : core x = core y) (ans : Ans) (w0 w : Writer) (hdr : Nat) (il ff : Bool) :
    core (encPayloadPure x ans w0 w hdr il ff) = core (encPayloadPure y ans w0 w hdr il ff)
    ∧ (encPayloadPure x ans w0 w hdr il ff).pending = (encPayloadPure y ans w0 w hdr il ff).pending := by
  obtain ⟨h1, h2, h3, h4, h5, h6, h7, h8, h9, h10, h11, h12, h13, h14, h15, h16⟩ := core_eq_iff.mp h
  have hu : wsub64 x.inputPos x.lastProcessedPos = wsub64 y.inputPos y.lastProcessedPos := by rw [h2, h4]
  rw [core_eq_iff]
  by_cases hq : x.params.quality = 0 ∨ x.params.quality = 1
  · have hq' : y.params.quality = 0 ∨ y.params.quality = 1 := h1 ▸ hq
    by_cases hz : wsub64 x.inputPos x.lastProcessedPos = 0 ∧ il = false
    · have hz' : wsub64 y.inputPos y.lastProcessedPos = 0 ∧ il = false := hu ▸ hz
      simp [encPayloadPure, St.unprocessed, hq, hz, hq', hz', *]
    · have hz' : ¬ (wsub64 y.inputPos y.lastProcessedPos = 0 ∧ il = false) := hu ▸ hz
      simp [encPayloadPure, St.unprocessed, hq, hz, hq', hz', *]
  · have hq' : ¬ (y.params.quality = 0 ∨ y.params.quality = 1) := h1 ▸ hq
    by_cases h3' : il = false ∧ ff = false ∧ ans.emit = false
    · simp [encPayloadPure, hq, hq', h3', *]
    · by_cases h4' : il = false ∧ x.inputPos = x.lastFlushPos
      · have h4'' : il = false ∧ y.inputPos = y.lastFlushPos := by rw [← h2, ← h3]; exact h4'
        have h3'' : ¬ (ff = false ∧ ans.emit = false) := fun hh => h3' ⟨h4'.1, hh⟩
        simp [encPayloadPure, hq, hq', h3'', h4', h4'', *]
      · have h4'' : ¬ (il = false ∧ y.inputPos = y.lastFlushPos) := by rw [← h2, ← h3]; exact h4'
        simp [encPayloadPure, hq, hq', h3', h4', h4'', *]

/-- the abstract `encode_data`: what a successful invocation does to the core state and which
bytes it produces — no capacity anywhere -/
def uEncOf (r : Out (St × Writer × Nat)) (ans : Ans) (c : Writer) (il ff : Bool) : Option (St × Bytes) :=
  match r with
  | .ok (a2, w, hdr) => some (core (encPayloadPure a2 ans c w hdr il ff), (encPayloadPure a2 ans c w hdr il ff).pending)
  | _ => none

def uEnc (o : Oracle) (a : St) (site : Nat) (il ff : Bool) : Option (St × Bytes) :=
  uEncOf (encPre3 (encMagic (encStart a il) a.carry) (a.unprocessed % two32)) (o a.nEnc (reqOf a site il ff)) a.carry il ff

theorem encStart_core (s : St) (il : Bool) : core (encEntry s il) = core (encStart (core s) il) := by
  unfold encEntry growStorage encStart core
  split <;> rfl

/-- **`encode_data` is blind to the output side**: a successful invocation (nothing pending) is the
abstract one on the core state -/
theorem encode_abs {o : Oracle} {s s' : St} {site : Nat} {il ff : Bool} {req : Req}
    (h : encodeData o s site il ff = .ok (s', true, req)) :
    uEnc o (core s) site il ff = some (core s', s'.pending) := by
  obtain ⟨_, hc⟩ := encodeData_ok_cases h
  rcases hc with ⟨_, hh, _⟩ | ⟨_, _, hh, _⟩ | ⟨_, _, hrest⟩
  · simp at hh
  · simp at hh
  · obtain ⟨s2, w, hdr, hpre3, hpay⟩ := encRest_split hrest
    have hpure := encPayload_pure hpay
    have hm := encMagic_core (encStart_core s il) s.carry
    have hpre : encPrelude (encMagic (encEntry s il) s.carry).1 (encMagic (encEntry s il) s.carry).2.1
        (encMagic (encEntry s il) s.carry).2.2 (s.unprocessed % two32) = .ok (s2, w, hdr) := hpre3
    have h21 := congrArg Prod.fst hm.2
    have h22 := congrArg Prod.snd hm.2
    rw [h21, h22] at hpre
    obtain ⟨y', hy, hcy⟩ := encPrelude_core hm.1 hpre
    have hy3 : encPre3 (encMagic (encStart (core s) il) s.carry) (s.unprocessed % two32) = .ok (y', w, hdr) := hy
    unfold uEnc
    have e1 : (core s).carry = s.carry := rfl
    have e2 : (core s).unprocessed = s.unprocessed := rfl
    have e3 : (core s).nEnc = s.nEnc := rfl
    have e4 : reqOf (core s) site il ff = reqOf s site il ff := rfl
    rw [e1, e2, e3, e4, hy3]
    unfold uEncOf
    obtain ⟨p1, p2⟩ := encPayloadPure_core hcy (o s.nEnc (reqOf s site il ff)) s.carry w hdr il ff
    simp only [Option.some.injEq, Prod.mk.injEq]
    rw [hpure]
    exact ⟨p1.symm, p2.symm⟩

/-! ### the abstract machine -/

instance (p : Params) : Decidable (fastMode p) := by unfold fastMode; infer_instance
instance (s : St) : Decidable (PadDue s) := by unfold PadDue; infer_instance

def uCopyOf (r : Out St) (a : Abs) (n : Nat) : Option Abs :=
  match r with
  | .ok s1 => some ⟨core s1, a.out, a.input.drop n, a.availIn - n⟩
  | _ => none

def uCopy (a : Abs) : Option Abs :=
  if min (remainingInputBlockSize a.s) a.availIn > a.input.length then none
  else uCopyOf (copyInputToRingBuffer a.s (a.input.take (min (remainingInputBlockSize a.s) a.availIn)) a.input.length) a
    (min (remainingInputBlockSize a.s) a.availIn)

def uPad (a : Abs) : Abs :=
  ⟨{ a.s with lastBytes := 0, lastBytesBits := 0 },
   a.out ++ sealBytes (a.s.lastBytes ||| (6 * 2 ^ a.s.lastBytesBits)) ((a.s.lastBytesBits + 6 + 7) / 8), a.input, a.availIn⟩

def uEncOut (r : Option (St × Bytes)) (a : Abs) (il ff : Bool) : Option Abs :=
  match r with
  | some (s', pend) => some ⟨core (markAfterEncode s' il ff), a.out ++ pend, a.input, a.availIn⟩
  | none => none

def uEncStep (o : Oracle) (op : Nat) (a : Abs) : Option Abs :=
  uEncOut (uEnc o (updateSizeHint a.s a.availIn) 0 (decide (a.availIn = 0 ∧ op = 2)) (decide (a.availIn = 0 ∧ op = 1))) a
    (decide (a.availIn = 0 ∧ op = 2)) (decide (a.availIn = 0 ∧ op = 1))

def uCfc (a : Abs) : Abs := { a with s := { a.s with streamState := .processing } }

def uFlushReq (a : Abs) : Abs := { a with s := { a.s with streamState := .flushRequested } }

def uFastBs (a : Abs) : Nat := min (2 ^ a.s.params.lgwin.toNat) a.availIn
def uFastReq (op : Nat) (a : Abs) : Req :=
  { site := 2, lo := uFastBs a, hi := a.s.inputPos, isLast := decide (a.availIn = uFastBs a ∧ op = 2),
    forceFlush := decide (a.availIn = uFastBs a ∧ op = 1) }

def uFast (o : Oracle) (op : Nat) (a : Abs) : Option Abs :=
  if uFastBs a > a.input.length then none else
  let ans := o a.s.nEnc (uFastReq op a)
  let w : Writer := a.s.carry ++ ans.bits
  let st := if (uFastReq op a).isLast then SState.finished else if (uFastReq op a).forceFlush then SState.flushRequested else a.s.streamState
  some ⟨{ a.s with nEnc := a.s.nEnc + 1, oracleBad := (a.s.oracleBad || !ans.result), lastBytes := (carryOf w).1,
                   lastBytesBits := (carryOf w).2, streamState := st },
        a.out ++ wholeBytes w, a.input.drop (uFastBs a), a.availIn - uFastBs a⟩

/-- **the abstract machine** for PROCESS / FLUSH / FINISH requests: one step, or `none` when the
request is complete.  No output capacity, cursor or buffer size occurs in it. -/
def ustep (o : Oracle) (op : Nat) (a : Abs) : Option Abs :=
  if a.s.isInitialized = false then some { a with s := core (ensureInitialized a.s) }
  else if fastMode a.s.params then
    if PadDue a.s then some (uPad a)
    else if a.s.streamState = .processing ∧ (a.availIn ≠ 0 ∨ op ≠ 0) then
      (if (uFastReq op a).forceFlush = true ∧ uFastBs a = 0 then some (uFlushReq a) else uFast o op a)
    else if a.s.streamState = .flushRequested then some (uCfc a)
    else none
  else
    if remainingInputBlockSize a.s ≠ 0 ∧ a.availIn ≠ 0 then uCopy a
    else if PadDue a.s then some (uPad a)
    else if a.s.streamState = .processing ∧ (remainingInputBlockSize a.s = 0 ∨ op ≠ 0) then uEncStep o op a
    else if a.s.streamState = .flushRequested then some (uCfc a)
    else none

/-! ### primitives commute with `core` -/

theorem core_updateSizeHint (s : St) (n : Nat) : core (updateSizeHint s n) = updateSizeHint (core s) n := by
  unfold updateSizeHint core
  split <;> rfl

theorem core_markAfterEncode (s : St) (a b : Bool) : core (markAfterEncode s a b) = core (markAfterEncode (core s) a b) := by
  unfold markAfterEncode core
  cases a <;> cases b <;> rfl

theorem markAfterEncode_pending (s : St) (a b : Bool) : (markAfterEncode s a b).pending = s.pending := by
  unfold markAfterEncode
  cases a <;> cases b <;> rfl

theorem core_ensure (s : St) : core (ensureInitialized (core s)) = core (ensureInitialized s) := by
  unfold ensureInitialized core
  split <;> rfl

theorem copy_core {x x' : St} {ch : Bytes} {av : Nat} (hi : x.isInitialized = true)
    (hx : copyInputToRingBuffer x ch av = .ok x') :
    ∃ y', copyInputToRingBuffer (core x) ch av = .ok y' ∧ core y' = core x' := by
  have hic : (core x).isInitialized = true := hi
  unfold copyInputToRingBuffer at hx ⊢
  rw [ensureInitialized_id hi] at hx
  rw [ensureInitialized_id hic]
  simp only at hx ⊢
  have e1 : (core x).ring = x.ring := rfl
  rw [e1]
  split at hx
  · rename_i rb hrw
    split at hx
    · simp at hx
    · rename_i hok
      simp only [Out.ok.injEq] at hx
      subst hx
      simp only [if_neg hok]
      exact ⟨_, rfl, rfl⟩
  · simp at hx
  · simp at hx


theorem ensure_pending (s : St) : (ensureInitialized s).pending = s.pending := by
  unfold ensureInitialized
  split <;> rfl

theorem push_core {s s1 : St} {io io1 : Io} {b : Bool} (hc : ¬ PadDue s)
    (h : injectFlushOrPushOutput s io = .ok (s1, io1, b)) : core s1 = core s := by
  unfold injectFlushOrPushOutput at h
  rw [if_neg (show ¬ (s.streamState = .flushRequested ∧ s.lastBytesBits ≠ 0) from hc)] at h
  simp only at h
  split_all h
  all_goals first
    | (simp at h; done)
    | (simp only [Out.ok.injEq, Prod.mk.injEq] at h; obtain ⟨rfl, rfl, rfl⟩ := h; rfl)

theorem fastEncode_abs (s : St) (io : Io) (ans : Ans) (req : Req) (bs : Nat) (ip il ff : Bool) (hp : s.pending = []) :
    core (fastEncode s io ans req bs ip il ff).1 =
      { core s with nEnc := s.nEnc + 1, oracleBad := (s.oracleBad || !ans.result),
                    lastBytes := (carryOf (s.carry ++ ans.bits)).1, lastBytesBits := (carryOf (s.carry ++ ans.bits)).2,
                    streamState := if il then SState.finished else if ff then SState.flushRequested else s.streamState }
    ∧ (fastEncode s io ans req bs ip il ff).2.out ++ (fastEncode s io ans req bs ip il ff).1.pending
        = io.out ++ wholeBytes (s.carry ++ ans.bits)
    ∧ (fastEncode s io ans req bs ip il ff).2.input = io.input.drop bs
    ∧ (fastEncode s io ans req bs ip il ff).2.availIn = io.availIn - bs := by
  unfold fastEncode core St.carry
  cases ip <;> simp [hp]


theorem core_init (s : St) : (core s).isInitialized = s.isInitialized := rfl

theorem uFastBs_abs (s : St) (io : Io) (del : Bytes) : uFastBs (absOf s io del) = fastBs s io := rfl
theorem uFastReq_abs (op : Nat) (s : St) (io : Io) (del : Bytes) : uFastReq op (absOf s io del) = fastReq op s io := rfl
theorem abs_input (s : St) (io : Io) (del : Bytes) : (absOf s io del).input = io.input := rfl
theorem abs_availIn (s : St) (io : Io) (del : Bytes) : (absOf s io del).availIn = io.availIn := rfl
theorem abs_s (s : St) (io : Io) (del : Bytes) : (absOf s io del).s = core s := rfl
theorem abs_out (s : St) (io : Io) (del : Bytes) : (absOf s io del).out = del ++ io.out ++ s.pending := rfl

set_option maxRecDepth 4000 in
/-- **every atomic step is a stutter or exactly one step of the abstract machine** -/
theorem step_abs {o : Oracle} {op : Nat} {s s' : St} {io io' : Io} {e : Ev}
    (h : Step o op (s, io) e (s', io')) (hop2 : op ≤ 2) (del : Bytes) :
    absOf s' io' del = absOf s io del ∨ ustep o op (absOf s io del) = some (absOf s' io' del) := by
  cases h with
  | init hf =>
    right
    have hi : (absOf s io del).s.isInitialized = false := by
      show s.isInitialized = false
      exact isFreshInit hf
    unfold ustep
    rw [if_pos hi]
    simp only [absOf, core_ensure, ensure_pending]
  | copy hI hw hop hnf hst hrm hc hn h =>
    right
    have hi : ¬ ((absOf s io del).s.isInitialized = false) := by
      show ¬ (s.isInitialized = false); rw [hI.init]; simp
    have hnf' : ¬ fastMode (absOf s io del).s.params := hnf
    have hc' : remainingInputBlockSize (absOf s io del).s ≠ 0 ∧ (absOf s io del).availIn ≠ 0 := hc
    unfold ustep
    rw [if_neg hi, if_neg hnf', if_pos hc']
    obtain ⟨y', hy, hcy⟩ := copy_core hI.init h
    obtain ⟨_, _, _, _, _, _, _, _, c9, _⟩ := copy_fields hI.init h
    unfold uCopy
    have hn' : ¬ (min (remainingInputBlockSize (absOf s io del).s) (absOf s io del).availIn > (absOf s io del).input.length) := by
      have : copyN s io ≤ io.input.length := hn
      show ¬ (copyN s io > io.input.length)
      omega
    rw [if_neg hn']
    have hy' : copyInputToRingBuffer (absOf s io del).s ((absOf s io del).input.take (min (remainingInputBlockSize (absOf s io del).s) (absOf s io del).availIn)) (absOf s io del).input.length = .ok y' := hy
    rw [hy']
    simp only [uCopyOf, absOf, hcy, c9]
    rfl
  | pad hI hc hz h =>
    right
    obtain ⟨nx, rfl⟩ := pad_result h
    have hi : ¬ ((absOf s io del).s.isInitialized = false) := by
      show ¬ (s.isInitialized = false); rw [hI.init]; simp
    have hc' : PadDue (absOf s io del).s := hc
    have hnc : ¬ (remainingInputBlockSize (absOf s io del).s ≠ 0 ∧ (absOf s io del).availIn ≠ 0) := by
      intro hh; exact hh.2 hz
    have hres : uPad (absOf s io del) = absOf (padResult s nx) io del := by
      simp [uPad, absOf, padResult, core, List.append_assoc]
    unfold ustep
    rw [if_neg hi]
    by_cases hfm : fastMode (absOf s io del).s.params
    · rw [if_pos hfm, if_pos hc', hres]
    · rw [if_neg hfm, if_neg hnc, if_pos hc', hres]
  | push hI hc h =>
    left
    obtain ⟨c1, _⟩ := push_conserve' hc h
    obtain ⟨_, _, _, _, _, _, _, a8, a9, _⟩ := push_frame h
    simp only [absOf, push_core hc h, a8, a9, List.append_assoc, c1]
  | encSlow hI hop hnf hrm hnc hnp hpend hst hgo h =>
    rename_i s2 req
    right
    have hi : ¬ ((absOf s io del).s.isInitialized = false) := by
      show ¬ (s.isInitialized = false); rw [hI.init]; simp
    have hnf' : ¬ fastMode (absOf s io del).s.params := hnf
    have hnc' : ¬ (remainingInputBlockSize (absOf s io del).s ≠ 0 ∧ (absOf s io del).availIn ≠ 0) := hnc
    have hnp' : ¬ PadDue (absOf s io del).s := hnp
    have hgo' : (absOf s io del).s.streamState = .processing ∧ (remainingInputBlockSize (absOf s io del).s = 0 ∨ op ≠ 0) := ⟨hst, hgo⟩
    unfold ustep
    rw [if_neg hi, if_neg hnf', if_neg hnc', if_neg hnp', if_pos hgo']
    have hu := encode_abs h
    rw [core_updateSizeHint] at hu
    unfold uEncStep
    have hu' : uEnc o (updateSizeHint (absOf s io del).s (absOf s io del).availIn) 0
        (decide ((absOf s io del).availIn = 0 ∧ op = 2)) (decide ((absOf s io del).availIn = 0 ∧ op = 1)) = some (core s2, s2.pending) := hu
    rw [hu']
    simp only [uEncOut, absOf, hpend, List.append_nil, markAfterEncode_pending]
    rw [← core_markAfterEncode]
  | cfc hI hop hrm hnp hfl =>
    by_cases hfc : s.streamState = .flushRequested ∧ s.pending.length = 0
    · right
      have hi : ¬ ((absOf s io del).s.isInitialized = false) := by
        show ¬ (s.isInitialized = false); rw [hI.init]; simp
      have hnp' : ¬ PadDue (absOf s io del).s := hnp
      have hst' : (absOf s io del).s.streamState = .flushRequested := hfc.1
      have hnproc : ¬ ((absOf s io del).s.streamState = .processing ∧ ((absOf s io del).availIn ≠ 0 ∨ op ≠ 0)) := by
        intro hh; rw [hst'] at hh; cases hh.1
      have hnproc2 : ¬ ((absOf s io del).s.streamState = .processing ∧ (remainingInputBlockSize (absOf s io del).s = 0 ∨ op ≠ 0)) := by
        intro hh; rw [hst'] at hh; cases hh.1
      have hnc : ¬ (remainingInputBlockSize (absOf s io del).s ≠ 0 ∧ (absOf s io del).availIn ≠ 0) := by
        intro hh; exact hh.2 (hfl (by rw [hfc.1]; simp))
      have hres : uCfc (absOf s io del) = absOf (checkFlushComplete s) io del := by
        unfold checkFlushComplete
        rw [if_pos hfc]
        simp [uCfc, absOf, core]
      unfold ustep
      rw [if_neg hi]
      by_cases hfm : fastMode (absOf s io del).s.params
      · rw [if_pos hfm, if_neg hnp', if_neg hnproc, if_pos hst', hres]
      · rw [if_neg hfm, if_neg hnc, if_neg hnp', if_neg hnproc2, if_pos hst', hres]
    · left
      unfold checkFlushComplete
      rw [if_neg hfc]
  | fastFlush hI hfm hrm hnp hpend hst hop1 hz =>
    right
    have hi : ¬ ((absOf s io del).s.isInitialized = false) := by
      show ¬ (s.isInitialized = false); rw [hI.init]; simp
    have hfm' : fastMode (absOf s io del).s.params := hfm
    have hnp' : ¬ PadDue (absOf s io del).s := hnp
    have hgo : (absOf s io del).s.streamState = .processing ∧ ((absOf s io del).availIn ≠ 0 ∨ op ≠ 0) := ⟨hst, Or.inr (by omega)⟩
    have hbs : uFastBs (absOf s io del) = 0 := by
      show min (2 ^ s.params.lgwin.toNat) io.availIn = 0
      rw [hz]; exact Nat.min_zero _
    have hff : (uFastReq op (absOf s io del)).forceFlush = true ∧ uFastBs (absOf s io del) = 0 := by
      refine ⟨?_, hbs⟩
      show decide ((absOf s io del).availIn = uFastBs (absOf s io del) ∧ op = 1) = true
      rw [hbs]
      have : (absOf s io del).availIn = 0 := hz
      simp [this, hop1]
    unfold ustep
    rw [if_neg hi, if_pos hfm', if_neg hnp', if_pos hgo, if_pos hff]
    rfl
  | fastBlock hI hfm hop hrm hnp hpend hst hgo hnf hcap hin hfit =>
    right
    have hi : ¬ ((absOf s io del).s.isInitialized = false) := by
      show ¬ (s.isInitialized = false); rw [hI.init]; simp
    have hfm' : fastMode (absOf s io del).s.params := hfm
    have hnp' : ¬ PadDue (absOf s io del).s := hnp
    have hgo' : (absOf s io del).s.streamState = .processing ∧ ((absOf s io del).availIn ≠ 0 ∨ op ≠ 0) := ⟨hst, hgo⟩
    have hnf' : ¬ ((uFastReq op (absOf s io del)).forceFlush = true ∧ uFastBs (absOf s io del) = 0) := by
      rw [uFastReq_abs, uFastBs_abs]; exact hnf
    have hin' : ¬ (uFastBs (absOf s io del) > (absOf s io del).input.length) := by
      rw [uFastBs_abs, abs_input]; exact hin
    unfold ustep
    rw [if_neg hi, if_pos hfm', if_neg hnp', if_pos hgo', if_neg hnf']
    unfold uFast
    rw [if_neg hin']
    simp only [uFastReq_abs, uFastBs_abs, abs_input, abs_availIn, abs_s, abs_out]
    obtain ⟨f1, f2, f3, _⟩ := fastStorage_fields s (fastInplace s io) (fastMaxOut s io)
    have hp1 : (fastS1 s io).pending = [] := by unfold fastS1; rw [f1, hpend]
    obtain ⟨g1, g2, g3, g4⟩ := fastEncode_abs (fastS1 s io) io (o s.nEnc (fastReq op s io)) (fastReq op s io) (fastBs s io)
      (fastInplace s io) (fastReq op s io).isLast (fastReq op s io).forceFlush hp1
    have hcs1 : core (fastS1 s io) = core s := by
      unfold fastS1 fastStorage growStorage core
      split
      · rfl
      · split <;> rfl
    have hcar : (fastS1 s io).carry = s.carry := by unfold St.carry fastS1; rw [f2, f3]
    obtain ⟨_, _, _, _, _, _, _, hss, _, _, _, _, _, hne, hob, _⟩ := core_eq_iff.mp hcs1
    simp only [Option.some.injEq]
    have hgoal : absOf (fastRes o op s io).1 (fastRes o op s io).2 del =
        ⟨core (fastRes o op s io).1, del ++ (fastRes o op s io).2.out ++ (fastRes o op s io).1.pending,
         (fastRes o op s io).2.input, (fastRes o op s io).2.availIn⟩ := rfl
    rw [hgoal]
    unfold fastRes
    simp only [Abs.mk.injEq]
    refine ⟨?_, ?_, g3.symm, g4.symm⟩
    · rw [g1, hcs1, hcar, hne, hob, hss]
      rfl
    · refine Eq.trans ?_ (congrArg (fun x => del ++ x) g2.symm |>.trans (List.append_assoc _ _ _).symm)
      rw [hcar, hpend]
      simp only [List.nil_append, List.append_assoc]
      rfl
  | mdEnter hI hop hentry => omega
  | mdEnc hM hop hpend hne h => omega
  | mdHead hM hop hpend hlf hst hok => omega
  | mdDone hM hop hpend hlf hst hz => omega
  | mdOut hM hop hpend hlf hst hnz hao hle => omega
  | mdTiny hM hop hpend hlf hst hnz hao hle => omega

end BV.Stream
