import BV.Lemmas.LedgerJudge
/-!
The ledger invariant: after any sequence of micro-actions that never overwrite a slot without freeing
it and only allocate from the instance's allocator,

* the judge has recorded nothing bad (no double free, no foreign / unknown free, no re-used identity),
* **the live set is exactly the multiset of blocks referenced from the slots** (plus `lost`),
* serial numbers are fresh, live blocks are distinct, every referenced block belongs to `m8`.
-/
namespace BV.Ledger

/-! ### slots -/

theorem Enc.get_set_same (e : Enc) (s : Slot) (v : List BlockId) : (e.set s v).get s = v := by
  cases s <;> rfl

theorem Enc.get_set_ne (e : Enc) {s t : Slot} (v : List BlockId) (h : s ≠ t) : (e.set s v).get t = e.get t := by
  cases s <;> cases t <;> first | rfl | exact absurd rfl h

theorem Enc.count_set (e : Enc) (s : Slot) (v : List BlockId) (b : BlockId) :
    (e.set s v).held.count b + (e.get s).count b = e.held.count b + v.count b := by
  cases s <;> simp [Enc.set, Enc.get, Enc.held, List.count_append] <;> omega

theorem Enc.count_get_le (e : Enc) (s : Slot) (b : BlockId) : (e.get s).count b ≤ e.held.count b := by
  cases s <;> simp [Enc.get, Enc.held, List.count_append] <;> omega

/-! ### the invariant -/

structure Inv (w : W) : Prop where
  bad : (judge w.log).bad = 0
  live : ∀ b, (judge w.log).live.count b = w.enc.held.count b + w.lost.count b
  ser : ∀ b ∈ (judge w.log).seen, b.n < w.next
  nodup : (judge w.log).live.Nodup
  own : ∀ b, 0 < w.enc.held.count b → b.alloc = w.m8

theorem Inv.init (m8 q : Nat) : Inv (W.init m8 q) := by
  refine ⟨rfl, ?_, ?_, ?_, ?_⟩ <;> simp [W.init, judge, Enc.held]

/-- an action that cannot break the invariant: allocation from the instance's own allocator, no
    overwriting without `free_cell` -/
def Act.safe (m8 : Nat) : Act → Prop
  | .alloc a _ _ => a = m8
  | .lose _ => False
  | _ => True

/-- actions that keep every block accounted for (a `lose` keeps the books right but the block is owed) -/
def Act.owned (m8 : Nat) : Act → Prop
  | .alloc a _ _ => a = m8
  | _ => True

theorem act_m8 (w : W) (a : Act) : (w.act a).m8 = w.m8 := by
  cases a <;> simp [W.act]
  split <;> rfl

theorem act_lost_safe (w : W) (a : Act) (h : a.safe w.m8) : (w.act a).lost = w.lost := by
  cases a <;> simp [W.act, Act.safe] at h ⊢
  split <;> rfl

theorem Inv.act {w : W} (hw : Inv w) (a : Act) (ha : a.owned w.m8) : Inv (w.act a) := by
  cases a with
  | free s =>
    have hle : ∀ b, (w.enc.get s).count b ≤ (judge w.log).live.count b := by
      intro b
      have := Enc.count_get_le w.enc s b
      rw [hw.live b]; omega
    have hown : ∀ b ∈ w.enc.get s, b.alloc = w.m8 := by
      intro b hb
      apply hw.own
      have := Enc.count_get_le w.enc s b
      have := List.count_pos_iff.mpr hb
      omega
    have hr := free_run w.m8 (w.enc.get s) (judge w.log) hw.nodup hle hown
    have hj : judge (w.act (.free s)).log = ((w.enc.get s).map (Ev.free w.m8)).foldl Judge.step (judge w.log) := by
      simp [W.act, judge_append]
    refine ⟨?_, ?_, ?_, ?_, ?_⟩
    · rw [hj, hr.bad]; exact hw.bad
    · intro b
      rw [hj, hr.live b, hw.live b]
      have h1 := Enc.count_set w.enc s [] b
      have h2 := Enc.count_get_le w.enc s b
      simp [W.act] at h1 ⊢
      omega
    · intro b hb
      rw [hj, hr.seen] at hb
      exact hw.ser b hb
    · rw [hj]; exact hr.nodup
    · intro b hb
      apply hw.own
      have h1 : (w.enc.set s []).held.count b + (w.enc.get s).count b = w.enc.held.count b := by
        simpa using Enc.count_set w.enc s [] b
      have hb' : 0 < (w.enc.set s []).held.count b := hb
      omega
  | alloc a s k =>
    simp only [Act.owned] at ha
    subst ha
    have hr := alloc_run w.m8 k w.next (judge w.log) hw.ser
    have hj : judge (w.act (.alloc w.m8 s k)).log = ((fresh w.m8 w.next k).map Ev.alloc).foldl Judge.step (judge w.log) := by
      simp [W.act, judge_append]
    refine ⟨?_, ?_, ?_, ?_, ?_⟩
    · rw [hj, hr.bad]; exact hw.bad
    · intro b
      rw [hj, hr.live b, hw.live b]
      have h1 := Enc.count_set w.enc s (w.enc.get s ++ fresh w.m8 w.next k) b
      simp [W.act, List.count_append] at h1 ⊢
      omega
    · intro b hb
      rw [hj, hr.seen] at hb
      rcases hb with hb | hb
      · have := hw.ser b hb
        simp [W.act]; omega
      · have := (mem_fresh.mp hb).2.2
        simp [W.act]; omega
    · rw [hj]
      apply List.nodup_iff_count.mpr
      intro b
      rw [hr.live b]
      have h1 := List.nodup_iff_count.mp hw.nodup b
      have h2 := count_fresh_le_one w.m8 w.next k b
      by_cases hb : b ∈ fresh w.m8 w.next k
      · have hnl : b ∉ (judge w.log).live := by
          intro hl
          have hlt := hw.ser b (by
            -- live ⊆ seen is not part of the invariant; use counts: a live block was allocated, hence seen
            exact live_sub_seen w.log b hl)
          have := (mem_fresh.mp hb).2.1
          omega
        have : (judge w.log).live.count b = 0 := List.count_eq_zero.mpr hnl
        omega
      · have : (fresh w.m8 w.next k).count b = 0 := List.count_eq_zero.mpr hb
        omega
    · intro b hb
      have h1 : (w.enc.set s (w.enc.get s ++ fresh w.m8 w.next k)).held.count b + (w.enc.get s).count b
          = w.enc.held.count b + ((w.enc.get s).count b + (fresh w.m8 w.next k).count b) := by
        simpa [List.count_append] using Enc.count_set w.enc s (w.enc.get s ++ fresh w.m8 w.next k) b
      have hb' : 0 < (w.enc.set s (w.enc.get s ++ fresh w.m8 w.next k)).held.count b := hb
      by_cases hf : 0 < (fresh w.m8 w.next k).count b
      · have := (mem_fresh.mp (List.count_pos_iff.mp hf)).1
        simpa [W.act] using this
      · have : b.alloc = w.m8 := hw.own b (by omega)
        simpa [W.act] using this
  | lose s =>
    refine ⟨?_, ?_, ?_, ?_, ?_⟩
    · simpa [W.act] using hw.bad
    · intro b
      have h0 := hw.live b
      have h1 := Enc.count_set w.enc s [] b
      have h2 := Enc.count_get_le w.enc s b
      simp [W.act, List.count_append] at h0 h1 ⊢
      omega
    · simpa [W.act] using hw.ser
    · simpa [W.act] using hw.nodup
    · intro b hb
      apply hw.own
      have h1 : (w.enc.set s []).held.count b + (w.enc.get s).count b = w.enc.held.count b := by
        simpa using Enc.count_set w.enc s [] b
      have hb' : 0 < (w.enc.set s []).held.count b := hb
      omega
  | move src dst =>
    by_cases hsd : src = dst
    · simp [W.act, hsd]; exact hw
    · have hcount : ∀ b, (w.act (.move src dst)).enc.held.count b = w.enc.held.count b := by
        intro b
        have h1 := Enc.count_set w.enc dst (w.enc.get dst ++ w.enc.get src) b
        have h2 := Enc.count_set (w.enc.set dst (w.enc.get dst ++ w.enc.get src)) src [] b
        rw [Enc.get_set_ne _ _ (Ne.symm hsd)] at h2
        simp [W.act, hsd, List.count_append] at h1 h2 ⊢
        omega
      refine ⟨?_, ?_, ?_, ?_, ?_⟩
      · simpa [W.act, hsd] using hw.bad
      · intro b
        rw [hcount b]
        simpa [W.act, hsd] using hw.live b
      · simpa [W.act, hsd] using hw.ser
      · simpa [W.act, hsd] using hw.nodup
      · intro b hb
        rw [hcount b] at hb
        simpa [W.act, hsd] using hw.own b hb

end BV.Ledger
