import BV.Lemmas.StreamRunLog
import BV.Model.StreamRun
/-
The `closed` flags of the run-level trace: `closesMb` (a function of the request, the oracle's
`emit` answer and the quality class) says exactly whether an invocation closed its meta-block —
i.e. where the meta-block boundaries (`last_flush_pos_`) are.
-/
namespace BV.Stream
open BV.Bits

/-- the quality never changes after initialisation -/
theorem step_quality {o : Oracle} {op : Nat} {s s' : St} {io io' : Io} {e : Ev}
    (h : Step o op (s, io) e (s', io')) (hi : s.isInitialized = true) : s'.params.quality = s.params.quality := by
  have := step_mode h hi
  unfold St.mode at this
  simp only [Prod.mk.injEq] at this
  exact this.1

theorem q01_congr {s s' : St} (h : s'.params.quality = s.params.quality) : s'.q01 = s.q01 := by
  unfold St.q01; rw [h]

/-- what the closed flag of an event means for `last_flush_pos_` -/
def Ev.cl (o : Oracle) (q01 : Bool) : Ev → Pos → Prop
  | .enc k req pre _ taken, p =>
    (closesMb o q01 k req = true → (if taken then p.ip else p.lf + pre) = p.ip) ∧
    (closesMb o q01 k req = false → taken = false)
  | _, _ => True

def LogCl (o : Oracle) (q01 : Bool) : Pos → List Ev → Prop
  | _, [] => True
  | p, e :: es => e.cl o q01 p ∧ LogCl o q01 (e.step p) es

theorem logCl_append {o : Oracle} {q : Bool} {p : Pos} {a b : List Ev} (h1 : LogCl o q p a) (h2 : LogCl o q (logPos p a) b) :
    LogCl o q p (a ++ b) := by
  induction a generalizing p with
  | nil => exact h2
  | cons e es ih => exact ⟨h1.1, ih h1.2 h2⟩

theorem takes_bool1 (il ff em : Bool) (P : Prop) [Decidable P]
    (ht : (!((!il && !ff && !em) || (!il && decide P))) = false) (hc : (false || il || ff || em) = true) : P := by
  cases il <;> cases ff <;> cases em <;> simp_all

theorem takes_bool2 (il ff em : Bool) (P : Prop) [Decidable P] (q : Bool)
    (hc : (q || il || ff || em) = false) : (!((!il && !ff && !em) || (!il && decide P))) = false := by
  cases il <;> cases ff <;> cases em <;> simp_all

/-- the closed flag of one `encode_data` invocation -/
theorem encodeData_cl {o : Oracle} {s s' : St} {site : Nat} {il ff : Bool} {req : Req} (hI : Inv s) (hsite : site ≠ 2)
    (h : encodeData o s site il ff = .ok (s', true, req)) : (encEv o s site il ff).cl o s.q01 s.pos := by
  obtain ⟨_, _, hdr, hM, _⟩ := encodeData_spec h
  obtain ⟨q1, q2, q3⟩ := encMid_pre hI h
  have hf := hM.frame
  rw [St.frame_eq_iff] at hf
  have hq : (encMid s il).1.params.quality = s.params.quality := by rw [hf.1]
  have hu := hI.unprocessed
  have hb : s.unprocessed % two32 ≤ s.unprocessed := Nat.mod_le _ _
  have hpos := hM.pos
  have hq01 := hI.q01
  have hle1 := hI.fl_le
  have hle2 := hI.lp_le
  have hlt := hI.ip_lt
  unfold encEv Ev.cl St.pos
  simp only
  generalize hs2 : (encMid s il).1 = s2 at *
  generalize s.unprocessed % two32 = m at hb hpos
  have hcl : closesMb o s.q01 s.nEnc (reqOf s site il ff) = (s.q01 || il || ff || (o s.nEnc (reqOf s site il ff)).emit) := by
    unfold closesMb reqOf
    simp only
    have : (site == 2) = false := by simpa using hsite
    rw [this, Bool.false_or]
  rw [hcl]
  have hqq : (s2.params.quality = 0 ∨ s2.params.quality = 1) ↔ s.q01 = true := by
    unfold St.q01; rw [hq]; simp
  generalize o s.nEnc (reqOf s site il ff) = ans at *
  refine ⟨?_, ?_⟩
  · intro hc
    cases ht : encTakes s2 ans il ff
    · simp only [Bool.false_eq_true, ↓reduceIte]
      rw [← q1, ← q3]
      unfold encTakes at ht
      by_cases hqs : s.q01 = true
      · rw [if_pos (hqq.mpr hqs)] at ht
        have hz : s2.unprocessed = 0 ∧ il = false := by simpa using ht
        -- lf2 = lp2 = ip
        have hlf_lp : s2.lastFlushPos = s2.lastProcessedPos := by
          have := hq01 ((by unfold St.q01 at hqs; simpa using hqs))
          rcases hpos with ⟨p1, p2⟩ | ⟨p1, p2⟩ <;> omega
        have hlp2 : s2.lastProcessedPos ≤ s2.inputPos := by
          rcases hpos with ⟨p1, p2⟩ | ⟨p1, p2⟩
          · omega
          · have : min 2 m ≤ m := Nat.min_le_right _ _
            omega
        have hw := wsub64_eq hlp2 (by rw [q3]; exact hlt)
        have hz1 : wsub64 s2.inputPos s2.lastProcessedPos = 0 := hz.1
        omega
      · have hnq : ¬ (s2.params.quality = 0 ∨ s2.params.quality = 1) := fun hh => hqs (hqq.mp hh)
        rw [if_neg hnq] at ht
        have hqf : s.q01 = false := by simpa using hqs
        rw [hqf] at hc
        exact (takes_bool1 il ff ans.emit (s2.inputPos = s2.lastFlushPos) ht hc).symm
    · simp
  · intro hc
    unfold encTakes
    have hnq : ¬ (s2.params.quality = 0 ∨ s2.params.quality = 1) := fun hh => by
      have := hqq.mp hh; rw [this] at hc; simp at hc
    rw [if_neg hnq]
    exact takes_bool2 il ff ans.emit _ _ hc

set_option maxRecDepth 4000 in
theorem step_cl {o : Oracle} {op : Nat} {s s' : St} {io io' : Io} {e : Ev}
    (h : Step o op (s, io) e (s', io')) : e.cl o s.q01 s.pos := by
  cases h with
  | encSlow hI hop hnf hrm hnc hnp hpend hst hgo h =>
    have hI2 := inv_updateSizeHint hI io.availIn
    have := encodeData_cl hI2 (by omega : (0 : Nat) ≠ 2) h
    rw [updateSizeHint_pos, q01_congr (updateSizeHint_fields s io.availIn).2.1] at this
    exact this
  | mdEnc hM hop hpend hne h => exact encodeData_cl hM.inv (by omega : (1 : Nat) ≠ 2) h
  | init hf => trivial
  | copy hI hw hop hnf hst hrm hc hn h => trivial
  | pad hI hc hz h => trivial
  | push hI hc h => trivial
  | cfc hI hop hrm hnp hfl => trivial
  | fastFlush hI hfm hrm hnp hpend hst hop1 hz => trivial
  | fastBlock hI hfm hop hrm hnp hpend hst hgo hnf hcap hin hfit => trivial
  | mdEnter hI hop hentry => trivial
  | mdHead hM hop hpend hlf hst hok => trivial
  | mdDone hM hop hpend hlf hst hz => trivial
  | mdOut hM hop hpend hlf hst hnz hao hle => trivial
  | mdTiny hM hop hpend hlf hst hnz hao hle => trivial

/-- along a sequence of steps from an initialised state the quality class is constant and every
event's closed flag means what `Ev.cl` says -/
theorem steps_cl {o : Oracle} {op : Nat} {c c' : St × Io} {log : List Ev} (h : Steps o op c log c')
    (hi : c.1.isInitialized = true) : c'.1.q01 = c.1.q01 ∧ LogCl o c.1.q01 c.1.pos log := by
  induction h with
  | nil c => exact ⟨rfl, trivial⟩
  | @cons c c1 c2 e es hs _ ih =>
    obtain ⟨s, io⟩ := c
    obtain ⟨s1, io1⟩ := c1
    have hq := q01_congr (step_quality hs hi)
    obtain ⟨i1, _⟩ := step_initialized hs
    obtain ⟨r1, r2⟩ := ih i1
    obtain ⟨p1, _⟩ := step_pos hs
    refine ⟨r1.trans hq, step_cl hs, ?_⟩
    have : s1.q01 = s.q01 := hq
    rw [this, p1] at r2
    exact r2

theorem closedFlags_append (o : Oracle) (q : Bool) (k : Nat) (a b : List Req) :
    closedFlags o q k (a ++ b) = closedFlags o q k a ++ closedFlags o q (k + a.length) b := by
  induction a generalizing k with
  | nil => simp [closedFlags]
  | cons r rs ih =>
    simp only [List.cons_append, closedFlags, List.length_cons, ih]
    have : k + 1 + rs.length = k + (rs.length + 1) := by omega
    rw [this]

end BV.Stream
