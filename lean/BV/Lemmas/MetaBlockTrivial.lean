/-
C01 / meta-block writers, part 6: assembling `BrotliStoreMetaBlockTrivial`.  Header, the 13 zero bits,
three prefix codes, the command loop, the final padding — against `readMetaBlockFull`.
The facts needed of each `BuildAndStoreHuffmanTree` call are the structure `CodeFacts`
(discharged in `MetaBlockCode.lean` from C17).
-/
import BV.Lemmas.MetaBlockCode

namespace BV.MetaBlock
open BV.Gen BV.Bits BV.Huffman BV.PrefixArith BV.Recoder BV.HeaderSpec
open BV.Header (skipPad_pad)

/-- the reader on the 13 zero bits: one block type per category, NPOSTFIX = NDIRECT = 0, context
mode 0, one literal tree, one distance tree -/
theorem read13 (wo : WordOracle) (window : Nat) (large : Bool) (mlen : Nat) (s : RdSt) (bs b1 b2 b3 : List Bool)
    (lit cmd dist : Code) (hl : readCode 256 bs = some (lit, b1)) (hc : readCode 704 b1 = some (cmd, b2))
    (hd : readCode (distAlphabetSize large 0 0) b2 = some (dist, b3)) :
    readCompressedBody wo window large mlen s (bitsOf 13 0 ++ bs) =
      readCommands wo window 0 0 lit cmd dist mlen (mlen + 1) 0 s b3 := by
  have e : bitsOf 13 0 = [false, false, false, false, false, false, false, false, false, false, false, false, false] := by
    decide
  rw [e]
  simp [readCompressedBody, readVarLen8, takeBits, valOf, hl, hc, hd]

theorem hist_mem (h : Histo) (n : Nat) (items : List Nat) (hi : HistoInv h n items) (s : Nat) (hs : s ∈ items) :
    h.data.getD s 0 ≠ 0 := (hi.mem s).mpr hs

theorem mem_lt_of_inv (h : Histo) (n : Nat) (items : List Nat) (hi : HistoInv h n items) (s : Nat) (hs : s ∈ items) :
    s < n := by
  have := (hi.mem s).mpr hs
  rw [← hi.len]
  rcases Nat.lt_or_ge s h.data.length with h1 | h1
  · exact h1
  · rw [List.getD_eq_getElem?_getD, List.getElem?_eq_none h1] at this; simp at this

theorem jump_length (w : Writer) : (jumpToByteBoundary w).length = w.length + (8 - w.length % 8) % 8 := by
  simp [jumpToByteBoundary]

theorem alphabet_facts (large : Bool) :
    256 ≤ 2 ^ alphabetBits 256 ∧ 704 ≤ 2 ^ alphabetBits 704 ∧
    distAlphabetSize large 0 0 ≤ 2 ^ alphabetBits (distAlphabetSize large 0 0) ∧
    1 ≤ distAlphabetSize large 0 0 ∧ distAlphabetSize large 0 0 ≤ 140 := by
  cases large <;> decide

/-- **assembly** for the trivial writer: it does not panic, and what it appends is read back. -/
theorem trivial_core (wo : WordOracle) (window : Nat) (large : Bool) (ring : Bytes) (start mask : Nat)
    (mb : Bytes) (isLast : Bool) (cmds : List Cmd) (hist : Bytes) (dc : List Int) (w : List Bool)
    (hR : RingHolds ring mask start mb) (h256 : ∀ b ∈ mb, b < 256)
    (h1 : 1 ≤ mb.length) (h2 : mb.length ≤ 2 ^ 24) (hst : start < two64)
    (hIP : inputPairCheck ring start mb.length mask = .ok ())
    (hok : ∀ c ∈ cmds, cmdOK (distAlphabetSize large 0 0) 0 0 c = true)
    (hlock : lockstep wo 0 0 window mb ⟨hist, dc, 0⟩ 0 cmds = true) :
    ∃ bits fin, storeMetaBlockTrivial ring start mb.length mask isLast (distAlphabetSize large 0 0) cmds w
        = .ok (w ++ bits) ∧
      decSteps wo 0 0 window mb ⟨hist, dc, 0⟩ cmds = some fin ∧ fin.cursor = mb.length ∧
      ∀ rest, readMetaBlockFull wo window large w.length ⟨hist, dc⟩ (bits ++ rest)
        = some (⟨fin.out, fin.ring⟩, isLast, (w ++ bits).length, rest) := by
  have p24 : (2 : Nat) ^ 24 = 16777216 := by decide
  have p25 : (2 : Nat) ^ 24 + 1 ≤ 2 ^ 25 := by decide
  obtain ⟨a1, a2, a3, a4, hA140⟩ := alphabet_facts large
  -- histograms
  have hrange := lockstep_inRange wo 0 0 window mb cmds _ _ hlock
  have hnum := lockstep_length wo 0 0 window mb cmds _ _ hlock
  have hbounds : ∀ c ∈ cmds, c.cmdPrefix < 704 ∧ c.distPrefix % 1024 < 544 := by
    intro c hc
    have hk := hok c hc
    obtain ⟨_, _, _, _, _, _, h704, _⟩ := cmd_facts _ 0 0 c hk
    simp only [cmdOK, Bool.and_eq_true, decide_eq_true_eq] at hk
    exact ⟨h704, by have := hk.1.1.2; omega⟩
  obtain ⟨lit, cmd, dist, hb, il, ic, id⟩ := buildHistograms_inv ring mask start mb hR h256 cmds 0
    (Histo.zero 256) (Histo.zero 704) (Histo.zero 544) [] [] [] (histoInv_zero _) (histoInv_zero _) (histoInv_zero _)
    hrange hbounds (by unfold two32; simp; omega) (by unfold two32; simp; omega) (by unfold two32; simp; omega)
  rw [posOf_zero start hst] at hb
  -- sums and supports of the three histograms
  have hlsum : lit.data.sum ≤ 2 ^ 25 := by
    rw [il.sum]; have := litsOf_length mb cmds 0 hrange; simp at this ⊢; omega
  have hcsum : cmd.data.sum ≤ 2 ^ 25 := by
    rw [ic.sum]; simp; omega
  have hdlen : (distsOf cmds).length ≤ cmds.length := by
    simp only [distsOf, List.length_map]; exact List.length_filter_le _ _
  have hdsum : dist.data.sum ≤ 2 ^ 25 := by
    rw [id.sum]; simp; omega
  have hzero_of_len : ∀ (hh : Histo) (n : Nat) (items : List Nat), HistoInv hh n items → ∀ i, n ≤ i → hh.data.getD i 0 = 0 := by
    intro hh n items hi i hle
    rw [List.getD_eq_getElem?_getD, List.getElem?_eq_none (by rw [hi.len]; exact hle)]; rfl
  have hdmem : ∀ c ∈ cmds, copyLen c ≠ 0 → c.cmdPrefix ≥ 128 → c.distPrefix % 1024 ∈ distsOf cmds := by
    intro c hc h0 h128
    simp only [distsOf, List.mem_map, List.mem_filter]
    exact ⟨c, ⟨hc, by simp [hasDist, h0, h128]⟩, rfl⟩
  have hdzero : ∀ i, distAlphabetSize large 0 0 ≤ i → dist.data.getD i 0 = 0 := by
    intro i hle
    rcases Nat.eq_zero_or_pos (dist.data.getD i 0) with h0 | h0
    · exact h0
    · exfalso
      have hm := (id.mem i).mp (by omega)
      simp only [List.nil_append, distsOf, List.mem_map, List.mem_filter] at hm
      obtain ⟨c, ⟨hc, _⟩, rfl⟩ := hm
      have hk := hok c hc
      simp only [cmdOK, Bool.and_eq_true, decide_eq_true_eq] at hk
      have := hk.1.1.2
      omega
  -- the three codes
  obtain ⟨litD, litB, w1, hb1⟩ := build_total lit.data 256 256 (w ++ headerBits isLast mb.length ++ bitsOf 13 0)
    (by rw [il.len]; omega) (by omega) hlsum (by omega) (by omega) (hzero_of_len lit 256 _ il)
  obtain ⟨cb1, litC, e1, r1, s1⟩ := codeFacts_of_build lit.data 256 256 _ w1 litD litB (by rw [il.len]; omega)
    (by omega) hlsum (by omega) (by omega) (hzero_of_len lit 256 _ il) a1 hb1
  obtain ⟨cmdD, cmdB, w2, hb2⟩ := build_total cmd.data 704 704 w1
    (by rw [ic.len]; omega) (by omega) hcsum (by omega) (by omega) (hzero_of_len cmd 704 _ ic)
  obtain ⟨cb2, cmdC, e2, r2, s2⟩ := codeFacts_of_build cmd.data 704 704 _ w2 cmdD cmdB (by rw [ic.len]; omega)
    (by omega) hcsum (by omega) (by omega) (hzero_of_len cmd 704 _ ic) a2 hb2
  obtain ⟨distD, distB, w3, hb3⟩ := build_total dist.data 140 (distAlphabetSize large 0 0) w2
    (by rw [id.len]; omega) (by omega) hdsum a4 hA140 hdzero
  obtain ⟨cb3, distC, e3, r3, s3⟩ := codeFacts_of_build dist.data 140 (distAlphabetSize large 0 0) _ w3 distD distB
    (by rw [id.len]; omega) (by omega) hdsum a4 hA140 hdzero a3 hb3
  -- the command loop
  obtain ⟨db, fin, hsd, hdec, hfin, hrd⟩ := storeData_sim wo window 0 0 (distAlphabetSize large 0 0) ring mask start mb
    litD litB cmdD cmdB distD distB litC cmdC distC hR cmds ⟨hist, dc, 0⟩ w3 hlock
    (fun b hb => s1 b (mem_lt_of_inv lit 256 _ il b (by simpa using hb)) (hist_mem lit 256 _ il b (by simpa using hb)))
    hok
    (fun c hc => s2 c.cmdPrefix (mem_lt_of_inv cmd 704 _ ic _ (by simp; exact ⟨c, hc, rfl⟩))
      (hist_mem cmd 704 _ ic _ (by simp; exact ⟨c, hc, rfl⟩)))
    (fun c hc h0 h128 => s3 (c.distPrefix % 1024)
      (by
        have hk := hok c hc
        simp only [cmdOK, Bool.and_eq_true, decide_eq_true_eq] at hk
        have := hk.1.1.2
        omega)
      (hist_mem dist 544 _ id _ (by simpa using hdmem c hc h0 h128)))
  simp only at hsd hrd
  rw [posOf_zero start hst] at hsd
  have hconst : BROTLI_NUM_LITERAL_SYMBOLS = 256 ∧ BROTLI_NUM_COMMAND_SYMBOLS = 704 ∧
      BROTLI_NUM_HISTOGRAM_DISTANCE_SYMBOLS = 544 ∧ MAX_SIMPLE_DISTANCE_ALPHABET_SIZE = 140 := by decide
  obtain ⟨c1, c2, c3, c4⟩ := hconst
  have hw3 : w3 ++ db = w ++ (headerBits isLast mb.length ++ (bitsOf 13 0 ++ (cb1 ++ (cb2 ++ (cb3 ++ db))))) := by
    rw [e3, e2, e1]; simp [List.append_assoc]
  refine ⟨headerBits isLast mb.length ++ (bitsOf 13 0 ++ (cb1 ++ (cb2 ++ (cb3 ++ (db ++
    (if isLast then List.replicate ((8 - (w3 ++ db).length % 8) % 8) false else [])))))), fin, ?_, hdec, hfin, ?_⟩
  · unfold storeMetaBlockTrivial
    rw [hIP, Out.bind_ok, storeHeader_ok isLast mb.length w h1 h2, Out.bind_ok, c1, c2, c3, c4, hb, Out.bind_ok]
    simp only
    rw [BV.Header.writeBits_ok 13 0 _ (by decide) (by decide), Out.bind_ok, hb1, Out.bind_ok]
    simp only
    rw [hb2, Out.bind_ok]
    simp only
    rw [hb3, Out.bind_ok]
    simp only
    rw [hsd, Out.bind_ok]
    cases isLast
    · simp only [Bool.false_eq_true, if_false, List.append_nil]; rw [hw3]
    · simp only [if_true, jumpToByteBoundary]; rw [hw3]; simp [List.append_assoc]
  · intro rest
    have hrd := hrd ((if isLast then List.replicate ((8 - (w3 ++ db).length % 8) % 8) false else []) ++ rest)
      (mb.length + 1) (by omega)
    unfold readMetaBlockFull
    simp only [List.append_assoc]
    rw [readHeader_ok isLast mb.length w.length _ h1 h2]
    simp only
    rw [read13 wo window large mb.length ⟨hist, dc⟩ _ _ _ _ litC cmdC distC (r1 _) (r2 _) (r3 _), hrd]
    simp only
    have hpos : ∀ PR : List Bool, w.length + (headerBits isLast mb.length).length +
        ((bitsOf 13 0 ++ (cb1 ++ (cb2 ++ (cb3 ++ (db ++ PR))))).length - PR.length) = (w3 ++ db).length := by
      intro PR
      rw [hw3]
      simp only [List.length_append]
      omega
    rw [hpos]
    cases isLast
    · simp [hw3, List.append_assoc]
    · simp only [if_true]
      rw [skipPad_pad]
      simp [hw3, List.append_assoc]
      omega

end BV.MetaBlock
