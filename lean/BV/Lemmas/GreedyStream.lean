/-
C01 / greedy builder, part 6: `AddSymbol` and a whole symbol stream through one splitter.
-/
import BV.Lemmas.GreedyFeed

namespace BV.Greedy
open BV.Bits BV.Recoder BV.MetaBlock

/-- a symbol stream `(static context, symbol)` through `AddSymbol` -/
def feed {F : Type} (ops : FOps F) : BS F → List (Nat × Nat) → Out (BS F)
  | s, [] => .ok s
  | s, p :: ps => (addSymbol ops s p.2 p.1).bind fun s => feed ops s ps

theorem feed_append {F : Type} (ops : FOps F) (s : BS F) (a b : List (Nat × Nat)) :
    feed ops s (a ++ b) = (feed ops s a).bind fun s => feed ops s b := by
  induction a generalizing s with
  | nil => rfl
  | cons p ps ih =>
    simp only [List.cons_append, feed]
    cases addSymbol ops s p.2 p.1 with
    | ok s' => exact ih s'
    | panic => rfl
    | fuel => rfl

theorem addSymbol_inv {F : Type} (ops : FOps F) (hirr : OracleOK ops) {N A K HH : Nat} {s : BS F} {rb : List Blk}
    {pend : List (Nat × Nat)} (h : Inv N A K HH s rb pend 0) (hd : Dyn s rb pend) (p : Nat × Nat) (hctx : p.1 < s.nc)
    (hsym : p.2 < A) (hroom : doneCount rb + pend.length + 1 ≤ N) :
    ∃ s' rb' pend', addSymbol ops s p.2 p.1 = .ok s' ∧ Inv N A K HH s' rb' pend' 0 ∧ Dyn s' rb' pend' ∧
      flat rb' ++ pend' = flat rb ++ pend ++ [p] ∧ s'.minBlockSize = s.minBlockSize ∧ s'.nc = s.nc := by
  have hcl := curr_lt h
  have hb := h.bound
  have hshape := h.shaped _ (slot_mem s s.curr hcl)
  obtain ⟨slot', a1, a2, a3, a4⟩ := addItem_spec s.nc s.H s.slots s.curr p.1 p.2 hcl hshape hctx (by have := h.AH; omega)
  have hcntle : ∀ c x, cnt (s.slots.getD s.curr []) c x ≤ pend.length := fun c x =>
    Nat.le_trans (cnt_le_total _ c x) h.ptot
  have hbs1 : (s.blockSize + 1) % two64 = pend.length + 1 := by rw [hd.bs]; exact mod64 _ (by omega)
  have hcurr_ne : ∀ t, t < s.numTypes → t ≠ s.curr := by
    intro t ht
    by_cases hne : rb = []
    · have := (h.nt0 hne).1; omega
    · have := h.curr hne; omega
  -- the state behind `HistogramAddItem` and `block_size_ += 1`
  have h2 : Inv N A K HH { s with slots := s.slots.set s.curr slot', blockSize := (s.blockSize + 1) % two64 } rb (pend ++ [p]) 0 :=
    { h with
      slen := by dsimp only; rw [List.length_set]; exact h.slen
      shaped := by
        intro slot hs
        rcases List.mem_or_eq_of_mem_set hs with h1 | h1
        · exact h.shaped slot h1
        · rw [h1]; exact a2
      zeroAbove := by
        intro slot hs c x hx
        rcases List.mem_or_eq_of_mem_set hs with h1 | h1
        · exact h.zeroAbove slot h1 c x hx
        · rw [h1, a4 c x, if_neg (by intro hh; omega)]
          exact h.zeroAbove _ (slot_mem s s.curr hcl) c x hx
      total := by rw [List.length_append, List.length_singleton]; omega
      cov := by
        intro b hb0 q hq
        dsimp only
        rw [getD_set_ne _ _ _ _ _ (fun e => hcurr_ne b.t (h.tlt b hb0) e.symm)]
        exact h.cov b hb0 q hq
      pcov := by
        intro q hq
        dsimp only
        rw [getD_set_eq _ _ _ _ hcl, a4 q.1 q.2]
        rcases List.mem_append.mp hq with hq' | hq'
        · have := h.pcov q hq'
          refine ⟨this.1, ?_⟩
          split
          · have := hcntle q.1 q.2
            rw [Nat.mod_eq_of_lt (by unfold two32; omega)]; omega
          · exact this.2
        · simp only [List.mem_singleton] at hq'
          subst hq'
          refine ⟨hctx, ?_⟩
          rw [if_pos ⟨rfl, rfl⟩]
          have := hcntle q.1 q.2
          rw [Nat.mod_eq_of_lt (by unfold two32; omega)]; omega
      tot := by
        intro t ht
        dsimp only
        rw [getD_set_ne _ _ _ _ _ (fun e => hcurr_ne t ht e.symm)]
        exact h.tot t ht
      ptot := by
        dsimp only
        rw [getD_set_eq _ _ _ _ hcl, List.length_append]
        have := h.ptot
        simp only [List.length_singleton]; omega }
  unfold addSymbol
  rw [a1, Out.bind_ok]
  dsimp only
  by_cases hfin : (s.blockSize + 1) % two64 = s.targetBlockSize
  · rw [if_pos hfin]
    have htb : s.targetBlockSize ≤ 2 ^ 24 := by have := hd.tb; have := h.total; omega
    obtain ⟨s', rb', e1, e2, e3, e4, e5, e6, e7, e8, e9, e10, e11, _⟩ := finishBlock_inv ops hirr false h2
      (by dsimp only; rw [hbs1, List.length_append]; rfl) (by dsimp only; rw [List.length_set]; exact hd.hh) hd.mt htb
    have hpl : (pend ++ [p]).length = s.targetBlockSize := by rw [← hfin, hbs1, List.length_append]; rfl
    have hmx : max (pend ++ [p]).length s.minBlockSize - (pend ++ [p]).length = 0 := by
      have := hd.mt; omega
    rw [hmx] at e2
    refine ⟨s', rb', [], e1, e2, ?_, by rw [List.append_nil, e4, List.append_assoc], e7, ?_⟩
    · refine ⟨e6, ?_, by rw [e7]; exact e8, ?_, ?_⟩
      · rw [e6]; have := h.min1; dsimp only at e8; omega
      · rw [e7, e5]; dsimp only at e9 ⊢; omega
      · rw [e11 rfl, e10]; dsimp only; rw [List.length_set]; exact hd.hh
    · rw [e2.ncEq, h.ncEq]
  · rw [if_neg hfin]
    refine ⟨_, rb, pend ++ [p], rfl, h2, ?_, by rw [List.append_assoc], rfl, rfl⟩
    refine ⟨by dsimp only; rw [hbs1, List.length_append]; rfl, ?_, hd.mt, hd.tb, by dsimp only; rw [List.length_set]; exact hd.hh⟩
    dsimp only
    have := hd.lt; have := hd.bs
    omega

theorem flat_length (rb : List Blk) : (flat rb).length = doneCount rb := by
  induction rb with
  | nil => rfl
  | cons b rest ih => rw [flat_cons, List.length_append, ih, doneCount_cons]; omega

theorem feed_inv {F : Type} (ops : FOps F) (hirr : OracleOK ops) {N A K HH : Nat} : ∀ (syms : List (Nat × Nat)) (s : BS F)
    (rb : List Blk) (pend : List (Nat × Nat)), Inv N A K HH s rb pend 0 → Dyn s rb pend →
    (∀ p ∈ syms, p.1 < K ∧ p.2 < A) → doneCount rb + pend.length + syms.length ≤ N →
    ∃ s' rb' pend', feed ops s syms = .ok s' ∧ Inv N A K HH s' rb' pend' 0 ∧ Dyn s' rb' pend' ∧
      flat rb' ++ pend' = flat rb ++ pend ++ syms ∧ s'.minBlockSize = s.minBlockSize
  | [], s, rb, pend, h, hd, _, _ => ⟨s, rb, pend, rfl, h, hd, by simp, rfl⟩
  | p :: ps, s, rb, pend, h, hd, hs, hn => by
    have hp := hs p (List.mem_cons_self)
    simp only [List.length_cons] at hn
    obtain ⟨s1, rb1, pend1, a1, a2, a3, a4, a5, _⟩ := addSymbol_inv ops hirr h hd p (by rw [h.ncEq]; exact hp.1) hp.2 (by omega)
    have hlen : doneCount rb1 + pend1.length = doneCount rb + pend.length + 1 := by
      have := congrArg List.length a4
      simp only [List.length_append, flat_length, List.length_singleton] at this
      exact this
    obtain ⟨s2, rb2, pend2, b1, b2, b3, b4, b5⟩ := feed_inv ops hirr ps s1 rb1 pend1 a2 a3
      (fun q hq => hs q (List.mem_cons_of_mem _ hq)) (by omega)
    refine ⟨s2, rb2, pend2, ?_, b2, b3, ?_, by rw [b5, a5]⟩
    · simp only [feed]; rw [a1]; exact b1
    · rw [b4, a4]; simp

/-- one splitter from `Init…` over a whole symbol stream to the final `FinishBlock` -/
theorem splitter_result {F : Type} (ops : FOps F) (hirr : OracleOK ops) {N A K HH : Nat} (s0 : BS F)
    (h0 : Inv N A K HH s0 [] [] 0) (hd0 : Dyn s0 [] []) (syms : List (Nat × Nat))
    (hs : ∀ p ∈ syms, p.1 < K ∧ p.2 < A) (hn : syms.length ≤ N) :
    ∃ s1 s rb slack, feed ops s0 syms = .ok s1 ∧ finishBlock ops s1 true = .ok s ∧ Inv N A K HH s rb [] slack ∧ rb ≠ [] ∧
      flat rb = syms ∧ s.histosSize = s.numTypes ∧ s.splitNumBlocks = rb.length ∧ s.minBlockSize = s0.minBlockSize := by
  obtain ⟨s1, rb1, pend1, a1, a2, a3, a4, a5⟩ := feed_inv ops hirr syms s0 [] [] h0 hd0 hs (by simpa [doneCount] using hn)
  have htb : s1.targetBlockSize ≤ 2 ^ 24 := by have := a3.tb; have := a2.total; have := a2.bound; omega
  obtain ⟨s, rb, e1, e2, e3, e4, _, _, e7, _, _, _, _, e12⟩ := finishBlock_inv ops hirr true a2 a3.bs a3.hh a3.mt htb
  refine ⟨s1, s, rb, _, a1, e1, e2, e3, ?_, (e12 rfl).1, (e12 rfl).2, by rw [e7, a5]⟩
  rw [e4, a4]; simp [flat]

end BV.Greedy
