/-
Lemmas for C17 part 7: decoding what the encoder writes.  A symbol written as
`BrotliWriteBits(depth, BrotliReverseBits(depth, canonical code))` is read back
by the RFC 7932 §3.2 prefix decoder.
-/
import BV.Lemmas.HuffmanPrefix

namespace BV.Lemmas.HuffmanRead
open BV.Bits BV.Huffman BV.Lemmas.HuffmanBits BV.Lemmas.HuffmanCanon BV.Lemmas.HuffmanPrefix

theorem valOf_bitsOf (n v : Nat) : valOf (bitsOf n v) = v % 2 ^ n := by
  induction n generalizing v with
  | zero => simp [bitsOf, valOf, Nat.mod_one]
  | succ n ih =>
    simp only [bitsOf, valOf, ih]
    have h2 : v % 2 < 2 := Nat.mod_lt _ (by decide)
    have e : v % 2 ^ (n + 1) = v % 2 + 2 * (v / 2 % 2 ^ n) := by
      rw [Nat.pow_succ, Nat.mul_comm, Nat.mod_mul]
    rw [e]
    rcases Nat.mod_two_eq_zero_or_one v with h | h <;> simp [h]

theorem bitsOf_length (n v : Nat) : (bitsOf n v).length = n := by
  induction n generalizing v with
  | zero => rfl
  | succ n ih => simp [bitsOf, ih]

/-- reading back `n` bits that were written -/
theorem takeBits_bitsOf (n v : Nat) (rest : List Bool) (hv : v < 2 ^ n) :
    takeBits n (bitsOf n v ++ rest) = some (v, rest) := by
  unfold takeBits
  have hl := bitsOf_length n v
  rw [if_pos (by simp [hl])]
  rw [List.take_left' hl, List.drop_left' hl, valOf_bitsOf, Nat.mod_eq_of_lt hv]

/-- the bits of a reversed code word, in stream order: most significant first -/
theorem bitsOf_rev_succ (m c : Nat) (hc : c < 2 ^ (m + 1)) :
    bitsOf (m + 1) (revSpec (m + 1) c)
      = (c / 2 ^ m == 1) :: bitsOf m (revSpec m (c % 2 ^ m)) := by
  have hadd := revSpec_add m 1 c
  have h1 : revSpec 1 (c / 2 ^ m) = c / 2 ^ m % 2 := by simp [revSpec]
  have hp : 0 < 2 ^ m := Nat.pow_pos (by decide)
  have hq : c / 2 ^ m < 2 := by
    rw [Nat.div_lt_iff_lt_mul hp]; rw [Nat.pow_succ] at hc; omega
  rw [h1, Nat.mod_eq_of_lt hq] at hadd
  simp only [bitsOf]
  rw [hadd, revSpec_mod, Nat.pow_one]
  generalize revSpec m c = R
  generalize c / 2 ^ m = q at hq
  have e1 : (R * 2 + q) % 2 = q := by omega
  have e2 : (R * 2 + q) / 2 = R := by omega
  rw [e1, e2]

theorem find_range_unique (p : Nat → Bool) (n s : Nat) (hs : s < n) (hp : p s = true)
    (hu : ∀ t, t < n → p t = true → t = s) : (List.range n).find? p = some s := by
  rw [List.find?_range_eq_some]
  refine ⟨hp, List.mem_range.mpr hs, ?_⟩
  intro j hj
  cases h : p j with
  | false => rfl
  | true => have := hu j (by omega) h; omega

theorem find_range_none (p : Nat → Bool) (n : Nat) (h : ∀ t, t < n → p t = false) :
    (List.range n).find? p = none := by
  rw [List.find?_eq_none]
  intro x hx
  rw [h x (List.mem_range.mp hx)]; simp

/-- the bit-by-bit decoder on the remaining `m` bits of the code word `c` of
symbol `s`, `k` bits already read with value `acc` -/
theorem readSymGo_spec (lens codes : List Nat) (s l c : Nat) (rest : List Bool)
    (hnone : ∀ k', 1 ≤ k' → k' < l → findSym lens codes k' (c / 2 ^ (l - k')) = none)
    (hsome : findSym lens codes l c = some s) :
    ∀ (m k acc c' f : Nat), 1 ≤ m → k + m = l → c' < 2 ^ m → c = acc * 2 ^ m + c' → m ≤ f →
      readSymGo lens codes f k acc (bitsOf m (revSpec m c') ++ rest) = some (s, rest) := by
  intro m
  induction m with
  | zero => intro k acc c' f h; omega
  | succ m ih =>
    intro k acc c' f _ hkl hc' hc hf
    obtain ⟨f', rfl⟩ : ∃ f', f = f' + 1 := ⟨f - 1, by omega⟩
    rw [bitsOf_rev_succ m c' hc']
    simp only [List.cons_append, readSymGo]
    have hp : 0 < 2 ^ m := Nat.pow_pos (by decide)
    have hq : c' / 2 ^ m < 2 := by
      rw [Nat.div_lt_iff_lt_mul hp]; rw [Nat.pow_succ] at hc'; omega
    have hbit : (if (c' / 2 ^ m == 1) = true then 1 else 0) = c' / 2 ^ m := by
      rcases Nat.lt_succ_iff_lt_or_eq.mp hq with h | h
      · have : c' / 2 ^ m = 0 := Nat.lt_one_iff.mp h
        simp [this]
      · simp [h]
    rw [hbit]
    have hdm := Nat.div_add_mod c' (2 ^ m)
    -- the accumulated value is the leading part of `c`
    have hacc : (2 * acc + c' / 2 ^ m) * 2 ^ m + c' % 2 ^ m = c := by
      rw [hc, Nat.pow_succ, Nat.add_mul]
      have t1 : 2 * acc * 2 ^ m = 2 * (acc * 2 ^ m) := Nat.mul_assoc _ _ _
      have t2 : acc * (2 ^ m * 2) = 2 * (acc * 2 ^ m) := by
        rw [← Nat.mul_assoc, Nat.mul_comm]
      have t3 : c' / 2 ^ m * 2 ^ m = 2 ^ m * (c' / 2 ^ m) := Nat.mul_comm _ _
      rw [t1, t2, t3]
      omega
    have hdiv : c / 2 ^ m = 2 * acc + c' / 2 ^ m := by
      rw [← hacc, Nat.mul_comm, Nat.mul_add_div hp, Nat.div_eq_of_lt (Nat.mod_lt _ hp)]
      omega
    by_cases hm0 : m = 0
    · subst hm0
      have : k + 1 = l := by omega
      have hc1 : 2 * acc + c' / 2 ^ 0 = c := by
        rw [← hdiv]; simp
      rw [this, hc1, hsome]
      simp [bitsOf]
    · have hn := hnone (k + 1) (by omega) (by omega)
      have hlk : l - (k + 1) = m := by omega
      rw [hlk, hdiv] at hn
      rw [hn]
      exact ih (k + 1) (2 * acc + c' / 2 ^ m) (c' % 2 ^ m) f' (by omega) (by omega)
        (Nat.mod_lt _ hp) hacc.symm (by omega)

/-- A symbol of a prefix code with at least two used symbols, Kraft sum `≤ 1`,
written as its canonical code bit-reversed (`BrotliWriteBits(len, bits)`), is
read back by the RFC decoder, which consumes exactly its bits. -/
theorem readSym_spec (lens : List Nat) (s : Nat) (rest : List Bool) (hs : s < lens.length)
    (hall : ∀ x ∈ lens, x ≤ 15) (hk : kraftSum 15 lens ≤ 2 ^ 15) (h0 : lens.getD s 0 ≠ 0)
    (h2 : 2 ≤ ((List.range lens.length).filter fun t => lens.getD t 0 != 0).length) :
    readSym lens
      (bitsOf (lens.getD s 0) (reverseBits (lens.getD s 0) ((canonicalCodes lens).getD s 0)) ++ rest)
      = some (s, rest) := by
  have hmem : lens.getD s 0 ∈ lens := by
    rw [List.getD_eq_getElem?_getD, List.getElem?_eq_getElem hs]; simp
  have hl15 := hall _ hmem
  have hfit := code_lt lens 15 s hs hall hk h0
  unfold readSym
  have hnot : ∀ t, (List.range lens.length).filter (fun t => lens.getD t 0 != 0) ≠ [t] := by
    intro t h; rw [h] at h2; simp at h2
  split
  · rename_i t heq; exact absurd heq (hnot t)
  · rw [reverseBits_eq _ _ (by omega) (by omega)]
    have hclen : (canonicalCodes lens).length = lens.length := by simp [canonicalCodes]
    refine readSymGo_spec lens (canonicalCodes lens) s (lens.getD s 0)
      ((canonicalCodes lens).getD s 0) rest ?_ ?_ (lens.getD s 0) 0 0 _ 15 (by omega) (by omega)
      hfit (by omega) hl15
    · intro k' hk1 hk2
      unfold findSym
      apply find_range_none
      intro t ht
      cases hp : (lens.getD t 0 == k' && (canonicalCodes lens).getD t 0
          == (canonicalCodes lens).getD s 0 / 2 ^ (lens.getD s 0 - k')) with
      | false => rfl
      | true =>
        exfalso
        simp only [Bool.and_eq_true, beq_iff_eq] at hp
        have hts : t ≠ s := by
          intro h; rw [h] at hp; omega
        have := prefix_free lens 15 t s ht hs hall hts (by omega) (by omega)
        rw [hp.1] at this
        exact this hp.2.symm
    · unfold findSym
      apply find_range_unique _ _ s hs
      · simp
      · intro t ht hp
        simp only [Bool.and_eq_true, beq_iff_eq] at hp
        by_cases hts : t = s
        · exact hts
        · exfalso
          have := prefix_free lens 15 t s ht hs hall hts (by omega) (by omega)
          rw [hp.1, Nat.sub_self, Nat.pow_zero, Nat.div_one] at this
          exact this hp.2.symm

end BV.Lemmas.HuffmanRead
