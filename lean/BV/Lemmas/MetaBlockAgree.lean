/-
C01 / meta-block writers, part 21: the GENERAL reader extends the single-type reader.  Whatever
`readMetaBlockFull` (NBLTYPES = 1 per category, NTREES = 1) accepts, `readMetaBlockFullG` reads to the same
result: with one block type `Cat.next` never switches, with an all-zero context map every context selects tree 0.
So every theorem stated with the single-type reader holds for the general reader.
-/
import BV.Lemmas.MetaBlockCtx

namespace BV.MetaBlock
open BV.Gen BV.Bits BV.Huffman BV.PrefixArith BV.Recoder BV.HeaderSpec

/-- the category of a meta-block with a single block type -/
def Cat.one : Cat := ⟨1, Code.single 0, Code.single 0, 0, 16777216, 1⟩

/-- the trees of a meta-block with one tree per category -/
def Trees.one (np nd m : Nat) (lit cmd dist : Code) : Trees :=
  ⟨np, nd, [m], List.replicate 64 0, List.replicate 4 0, [lit], [cmd], [dist]⟩

theorem getD_lt_of_all (l : List Nat) (B i : Nat) (hB : 0 < B) (h : l.all (· < B) = true) : l.getD i 0 < B := by
  rcases Nat.lt_or_ge i l.length with hi | hi
  · have := List.all_eq_true.mp h _ (getD_mem l i hi)
    simpa using this
  · rw [List.getD_eq_getElem?_getD, List.getElem?_eq_none hi]; exact hB

/-- the §7.1 context id is below 64, whatever the mode and the two values -/
theorem rfcLiteralContext_lt (mode p1 p2 : Nat) : rfcLiteralContext mode p1 p2 < 64 := by
  unfold rfcLiteralContext
  split
  · exact Nat.mod_lt _ (by decide)
  · split
    · exact Nat.mod_lt _ (by decide)
    · split
      · have a := getD_lt_of_all kUTF8ContextLookup 64 p1 (by decide) utf8_table.2
        have b := getD_lt_of_all kUTF8ContextLookup 64 (256 + p2) (by decide) utf8_table.2
        have : kUTF8ContextLookup.getD p1 0 ||| kUTF8ContextLookup.getD (256 + p2) 0 < 2 ^ 6 := Nat.or_lt_two_pow a b
        exact this
      · have a := getD_lt_of_all kSigned3BitContextLookup 8 p1 (by decide) signed_table.2
        have b := getD_lt_of_all kSigned3BitContextLookup 8 p2 (by decide) signed_table.2
        omega

theorem rfcDistanceContext_lt (cl : Nat) : rfcDistanceContext cl < 4 := by
  unfold rfcDistanceContext
  split
  · decide
  · split
    · decide
    · split <;> decide

theorem replicate_get (n i : Nat) (h : i < n) : (List.replicate n 0)[i]? = some 0 := by
  rw [List.getElem?_replicate, if_pos h]

theorem readLiteralsG_one (np nd m : Nat) (lit cmd dist : Code) : ∀ (n : Nat) (out acc : Bytes) (bs : List Bool),
    readLiteralsG (Trees.one np nd m lit cmd dist) n Cat.one (out ++ acc) bs
      = (readLiterals lit n acc bs).map fun p => (Cat.one, out ++ p.1, p.2) := by
  intro n
  induction n with
  | zero => intro out acc bs; rfl
  | succ n ih =>
    intro out acc bs
    unfold readLiteralsG readLiterals
    have hn : Cat.one.next bs = some (Cat.one, bs) := rfl
    rw [hn]
    simp only
    have hb : Cat.one.btype = 0 := rfl
    rw [hb, Nat.mul_zero, Nat.zero_add]
    have hm : (Trees.one np nd m lit cmd dist).cmapL = List.replicate 64 0 := rfl
    have hl : (Trees.one np nd m lit cmd dist).lit = [lit] := rfl
    rw [hm, replicate_get 64 _ (rfcLiteralContext_lt _ _ _)]
    simp only
    rw [hl]
    simp only [List.getElem?_cons_zero]
    cases lit.read bs with
    | none => rfl
    | some p =>
      obtain ⟨b, r⟩ := p
      simp only
      rw [List.append_assoc, ih]

theorem readInsertG_one (np nd m : Nat) (lit cmd dist : Code) (mlen done : Nat) (out : Bytes) (bs : List Bool) :
    readInsertG (Trees.one np nd m lit cmd dist) Cat.one Cat.one mlen done out bs
      = (readInsert lit cmd mlen done out bs).map fun p => (Cat.one, Cat.one, p.1, p.2.1, p.2.2.1, p.2.2.2.1, p.2.2.2.2) := by
  unfold readInsertG readInsert
  have hn : Cat.one.next bs = some (Cat.one, bs) := rfl
  rw [hn]
  simp only
  have hb : Cat.one.btype = 0 := rfl
  have hc : (Trees.one np nd m lit cmd dist).cmd = [cmd] := rfl
  rw [hb, hc]
  simp only [List.getElem?_cons_zero]
  cases cmd.read bs with
  | none => rfl
  | some p =>
    obtain ⟨sym, bs1⟩ := p
    simp only
    split
    · rfl
    · cases rfcInsTable[(rfcCmdDecode sym).1]? with
      | none => rfl
      | some ie =>
        obtain ⟨ib, ie⟩ := ie
        cases rfcCopyTable[(rfcCmdDecode sym).2.1]? with
        | none => rfl
        | some ce =>
          obtain ⟨cb, ce⟩ := ce
          simp only
          cases takeBits ie bs1 with
          | none => rfl
          | some q =>
            obtain ⟨e1, bs2⟩ := q
            simp only
            cases takeBits ce bs2 with
            | none => rfl
            | some q2 =>
              obtain ⟨e2, bs3⟩ := q2
              simp only
              split
              · rfl
              · have := readLiteralsG_one np nd m lit cmd dist (ib + e1) out [] bs3
                rw [List.append_nil] at this
                rw [this]
                cases readLiterals lit (ib + e1) [] bs3 with
                | none => rfl
                | some r => rfl

theorem readCopyG_one (wo : WordOracle) (window np nd m : Nat) (lit cmd dist : Code) (mlen done : Nat) (imp : Bool)
    (cl : Nat) (out : Bytes) (ring : List Int) (bs : List Bool) :
    readCopyG wo window (Trees.one np nd m lit cmd dist) Cat.one mlen done imp cl out ring bs
      = (readCopy wo window np nd dist mlen done imp cl out ring bs).map fun p => (Cat.one, p.1, p.2.1, p.2.2) := by
  unfold readCopyG readCopy
  have hnp : (Trees.one np nd m lit cmd dist).npostfix = np := rfl
  have hnd : (Trees.one np nd m lit cmd dist).ndirect = nd := rfl
  rw [hnp, hnd]
  cases imp with
  | true =>
    simp only [if_true]
    cases takeBits (if 0 < 16 + nd then 0 else rfcDistNBits np nd 0) bs with
    | none => rfl
    | some q =>
      obtain ⟨extra, bs1⟩ := q
      simp only
      cases applyCopy wo window np nd mlen done cl out ring 0 extra with
      | none => rfl
      | some r => rfl
  | false =>
    simp only [Bool.false_eq_true, if_false]
    have hn : Cat.one.next bs = some (Cat.one, bs) := rfl
    rw [hn]
    simp only
    have hb : Cat.one.btype = 0 := rfl
    have hm : (Trees.one np nd m lit cmd dist).cmapD = List.replicate 4 0 := rfl
    have hd : (Trees.one np nd m lit cmd dist).dist = [dist] := rfl
    rw [hb, Nat.mul_zero, Nat.zero_add, hm, replicate_get 4 _ (rfcDistanceContext_lt _)]
    simp only
    rw [hd]
    simp only [List.getElem?_cons_zero]
    cases dist.read bs with
    | none => rfl
    | some p =>
      obtain ⟨ds, bs1⟩ := p
      simp only
      cases takeBits (if ds < 16 + nd then 0 else rfcDistNBits np nd ds) bs1 with
      | none => rfl
      | some q =>
        obtain ⟨extra, bs2⟩ := q
        simp only
        cases applyCopy wo window np nd mlen done cl out ring ds extra with
        | none => rfl
        | some r => rfl

theorem readCommandsG_one (wo : WordOracle) (window np nd m : Nat) (lit cmd dist : Code) (mlen : Nat) :
    ∀ (f done : Nat) (s : RdSt) (bs : List Bool),
    readCommandsG wo window (Trees.one np nd m lit cmd dist) mlen f done Cat.one Cat.one Cat.one s bs
      = readCommands wo window np nd lit cmd dist mlen f done s bs := by
  intro f
  induction f with
  | zero => intro done s bs; rfl
  | succ f ih =>
    intro done s bs
    unfold readCommandsG readCommands
    split
    · rfl
    · rw [readInsertG_one]
      cases readInsert lit cmd mlen done s.out bs with
      | none => rfl
      | some p =>
        obtain ⟨ins, cl, imp, out, bs1⟩ := p
        simp only [Option.map_some]
        split
        · rfl
        · rw [readCopyG_one]
          cases readCopy wo window np nd dist mlen (done + ins) imp cl out s.ring bs1 with
          | none => rfl
          | some q =>
            obtain ⟨n, s', bs2⟩ := q
            simp only [Option.map_some]
            exact ih _ _ _

theorem readCatHeader_zero (bs r : List Bool) (h : readVarLen8 bs = some (0, r)) :
    readCatHeader bs = some (Cat.one, r) := by
  unfold readCatHeader
  rw [h]
  rfl

theorem readContextMap_zero (size : Nat) (bs r : List Bool) (h : readVarLen8 bs = some (0, r)) :
    readContextMap size bs = some (1, List.replicate size 0, r) := by
  unfold readContextMap
  rw [h]
  rfl

/-- **the general reader extends the single-type reader** (compressed body) -/
theorem readCompressedBodyG_extends (wo : WordOracle) (window : Nat) (large : Bool) (mlen : Nat) (s : RdSt)
    (bs : List Bool) (r : RdSt × List Bool) (h : readCompressedBody wo window large mlen s bs = some r) :
    readCompressedBodyG wo window large mlen s bs = some r := by
  unfold readCompressedBody at h
  unfold readCompressedBodyG
  cases h1 : readVarLen8 bs with
  | none => rw [h1] at h; cases h
  | some p1 =>
    obtain ⟨nl, b1⟩ := p1
    rw [h1] at h
    simp only at h
    by_cases e1 : nl = 0
    case neg => rw [if_pos e1] at h; cases h
    rw [if_neg (by omega)] at h
    subst e1
    rw [readCatHeader_zero bs b1 h1]
    simp only
    cases h2 : readVarLen8 b1 with
    | none => rw [h2] at h; cases h
    | some p2 =>
      obtain ⟨ni, b2⟩ := p2
      rw [h2] at h
      simp only at h
      by_cases e2 : ni = 0
      case neg => rw [if_pos e2] at h; cases h
      rw [if_neg (by omega)] at h
      subst e2
      rw [readCatHeader_zero b1 b2 h2]
      simp only
      cases h3 : readVarLen8 b2 with
      | none => rw [h3] at h; cases h
      | some p3 =>
        obtain ⟨ndt, b3⟩ := p3
        rw [h3] at h
        simp only at h
        by_cases e3 : ndt = 0
        case neg => rw [if_pos e3] at h; cases h
        rw [if_neg (by omega)] at h
        subst e3
        rw [readCatHeader_zero b2 b3 h3]
        simp only
        cases h4 : takeBits 2 b3 with
        | none => rw [h4] at h; cases h
        | some p4 =>
          obtain ⟨np, b4⟩ := p4
          rw [h4] at h
          simp only at h ⊢
          cases h5 : takeBits 4 b4 with
          | none => rw [h5] at h; cases h
          | some p5 =>
            obtain ⟨ndm, b5⟩ := p5
            rw [h5] at h
            simp only at h ⊢
            cases h6 : takeBits 2 b5 with
            | none => rw [h6] at h; cases h
            | some p6 =>
              obtain ⟨m, b6⟩ := p6
              rw [h6] at h
              simp only at h
              have hmodes : readModes Cat.one.nbl b5 = some ([m], b6) := by
                show readModes 1 b5 = _
                simp [readModes, h6]
              rw [hmodes]
              simp only
              cases h7 : readVarLen8 b6 with
              | none => rw [h7] at h; cases h
              | some p7 =>
                obtain ⟨tl, b7⟩ := p7
                rw [h7] at h
                simp only at h
                by_cases e7 : tl = 0
                case neg => rw [if_pos e7] at h; cases h
                rw [if_neg (by omega)] at h
                subst e7
                rw [readContextMap_zero _ b6 b7 h7]
                simp only
                cases h8 : readVarLen8 b7 with
                | none => rw [h8] at h; cases h
                | some p8 =>
                  obtain ⟨td, b8⟩ := p8
                  rw [h8] at h
                  simp only at h
                  by_cases e8 : td = 0
                  case neg => rw [if_pos e8] at h; cases h
                  rw [if_neg (by omega)] at h
                  subst e8
                  rw [readContextMap_zero _ b7 b8 h8]
                  simp only
                  cases h9 : readCode 256 b8 with
                  | none => rw [h9] at h; cases h
                  | some p9 =>
                    obtain ⟨lit, b9⟩ := p9
                    rw [h9] at h
                    simp only at h
                    cases h10 : readCode 704 b9 with
                    | none => rw [h10] at h; cases h
                    | some p10 =>
                      obtain ⟨cmd, b10⟩ := p10
                      rw [h10] at h
                      simp only at h
                      cases h11 : readCode (distAlphabetSize large np (ndm * 2 ^ np)) b10 with
                      | none => rw [h11] at h; cases h
                      | some p11 =>
                        obtain ⟨dist, b11⟩ := p11
                        rw [h11] at h
                        simp only at h
                        have hc1 : readCodes 256 1 b8 = some ([lit], b9) := by simp [readCodes, h9]
                        have hc2 : readCodes 704 Cat.one.nbl b9 = some ([cmd], b10) := by
                          show readCodes 704 1 b9 = _
                          simp [readCodes, h10]
                        have hc3 : readCodes (distAlphabetSize large np (ndm * 2 ^ np)) 1 b10 = some ([dist], b11) := by
                          simp [readCodes, h11]
                        rw [hc1]
                        simp only
                        rw [hc2]
                        simp only
                        rw [hc3]
                        simp only
                        have := readCommandsG_one wo window np (ndm * 2 ^ np) m lit cmd dist mlen (mlen + 1) 0 s b11
                        unfold Trees.one at this
                        rw [← h]
                        exact this

/-- **the general reader extends the single-type reader** (one meta-block of any kind) -/
theorem readMetaBlockFullG_extends (wo : WordOracle) (window : Nat) (large : Bool) (pos : Nat) (s : RdSt)
    (bs : List Bool) (x : RdSt × Bool × Nat × List Bool) (h : readMetaBlockFull wo window large pos s bs = some x) :
    readMetaBlockFullG wo window large pos s bs = some x := by
  unfold readMetaBlockFull at h
  unfold readMetaBlockFullG
  cases hh : HeaderSpec.readMetaBlock pos bs with
  | none => rw [hh] at h; cases h
  | some p =>
    obtain ⟨mbk, pos', r⟩ := p
    rw [hh] at h
    cases mbk with
    | lastEmpty => exact h
    | metadata _ => exact h
    | raw _ => exact h
    | compressed mlen isLast =>
      simp only at h ⊢
      cases hb : readCompressedBody wo window large mlen s r with
      | none => rw [hb] at h; cases h
      | some q =>
        rw [hb] at h
        rw [readCompressedBodyG_extends wo window large mlen s r q hb]
        exact h

/-- … and so does the meta-block loop -/
theorem readMetaBlocksG_extends (wo : WordOracle) (window : Nat) (large : Bool) : ∀ (f pos : Nat) (s : RdSt)
    (bs : List Bool) (x : RdSt × List Bool), readMetaBlocks wo window large f pos s bs = some x →
    readMetaBlocksG wo window large f pos s bs = some x := by
  intro f
  induction f with
  | zero => intro pos s bs x h; simp [readMetaBlocks] at h
  | succ f ih =>
    intro pos s bs x h
    unfold readMetaBlocks at h
    unfold readMetaBlocksG
    cases hm : readMetaBlockFull wo window large pos s bs with
    | none => rw [hm] at h; cases h
    | some q =>
      obtain ⟨s', last, pos', r⟩ := q
      rw [hm] at h
      rw [readMetaBlockFullG_extends wo window large pos s bs _ hm]
      cases last with
      | true => exact h
      | false => exact ih pos' s' r x h

end BV.MetaBlock
