import BV.Lemmas.StreamRunHist
import BV.Lemmas.AdaptersStream
/-
The byte LEDGER of the stream machine: what `total_out_` counts, and where the caller's cursors
stand, atom by atom (`Step`), call by call, history by history.  No hypothesis on the payload
encoder is used anywhere in this file.

`total_out_` is advanced (wrapping, u64) at exactly four places of encode.rs:
`inject_flush_or_push_output` (bytes copied to `next_out`), the in-place branch of
`compress_stream_fast` (bytes the fragment compressor wrote straight into `next_out`), the metadata
body copy of `process_metadata` (bytes copied from `next_in` to `next_out`) — and `take_output`
(bytes handed out by pointer).  So `total_out_` is the number of bytes DELIVERED, by either route.
-/
namespace BV.Stream
open BV.Bits

/-- where one call stands: the output cursor is balanced against the capacity offered, the input
slice still to be read is the offered slice minus the first `offered - available_in` bytes, and the
running total is the total at call entry plus the bytes stored at `next_out` so far -/
structure Ledger (G : Prop) (input : Bytes) (cap T0 : Nat) (c : St × Io) : Prop where
  outBal : c.2.out.length + c.2.availOut = cap
  inLe : c.2.availIn ≤ input.length
  inEq : c.2.input = input.drop (input.length - c.2.availIn)
  total : G → c.1.totalOut = (T0 + c.2.out.length) % two64

theorem Ledger.inLen {G : Prop} {input : Bytes} {cap T0 : Nat} {c : St × Io} (h : Ledger G input cap T0 c) :
    c.2.input.length = c.2.availIn := by
  rw [h.inEq, List.length_drop]
  have := h.inLe
  omega

theorem ledger_start (input : Bytes) (cap T0 : Nat) (s : St) :
    Ledger (s.totalOut = T0 % two64) input cap T0 (s, Io.start input cap) := by
  refine ⟨by simp [Io.start], by simp [Io.start], by simp [Io.start], ?_⟩
  intro hT
  simp only [Io.start, List.length_nil, Nat.add_zero]
  exact hT

/-- a step that leaves the cursors and the total alone -/
theorem Ledger.of_same {G : Prop} {input : Bytes} {cap T0 : Nat} {s s1 : St} {io io1 : Io} (h : Ledger G input cap T0 (s, io))
    (h1 : s1.totalOut = s.totalOut) (h2 : io1.out = io.out) (h3 : io1.availOut = io.availOut)
    (h4 : io1.availIn = io.availIn) (h5 : io1.input = io.input) : Ledger G input cap T0 (s1, io1) := by
  obtain ⟨a, b, c, d⟩ := h
  refine ⟨?_, ?_, ?_, ?_⟩
  · show io1.out.length + io1.availOut = cap
    rw [h2, h3]; exact a
  · show io1.availIn ≤ input.length
    rw [h4]; exact b
  · show io1.input = input.drop (input.length - io1.availIn)
    rw [h5, h4]; exact c
  · intro g
    show s1.totalOut = (T0 + io1.out.length) % two64
    rw [h1, h2]; exact d g

/-- a step that consumes `n ≤ available_in` bytes of input and nothing else -/
theorem Ledger.consume {G : Prop} {input : Bytes} {cap T0 : Nat} {s s1 : St} {io : Io} (h : Ledger G input cap T0 (s, io))
    (n : Nat) (hn : n ≤ io.availIn) (h1 : s1.totalOut = s.totalOut) :
    Ledger G input cap T0 (s1, { io with input := io.input.drop n, availIn := io.availIn - n }) := by
  obtain ⟨a, b, c, d⟩ := h
  refine ⟨a, ?_, ?_, ?_⟩
  · show io.availIn - n ≤ input.length
    have : io.availIn ≤ input.length := b
    omega
  · show io.input.drop n = input.drop (input.length - (io.availIn - n))
    have hc : io.input = input.drop (input.length - io.availIn) := c
    have : io.availIn ≤ input.length := b
    rw [hc, List.drop_drop]
    congr 1
    omega
  · intro g
    show s1.totalOut = (T0 + io.out.length) % two64
    rw [h1]; exact d g

/-- the same with the other fields of the cursors spelled out -/
theorem Ledger.consume' {G : Prop} {input : Bytes} {cap T0 : Nat} {s s1 : St} {io io1 : Io} (h : Ledger G input cap T0 (s, io))
    (n : Nat) (hn : n ≤ io.availIn) (h1 : s1.totalOut = s.totalOut) (h2 : io1.out = io.out) (h3 : io1.availOut = io.availOut)
    (h4 : io1.availIn = io.availIn - n) (h5 : io1.input = io.input.drop n) : Ledger G input cap T0 (s1, io1) := by
  have := h.consume (s1 := s1) n hn h1
  exact this.of_same rfl h2 h3 h4 h5

theorem add_mod_two64 (T0 a b : Nat) : ((T0 + a) % two64 + b) % two64 = (T0 + (a + b)) % two64 := by
  unfold two64; omega

theorem totalOut_updateSizeHint (s : St) (n : Nat) : (updateSizeHint s n).totalOut = s.totalOut := by
  unfold updateSizeHint; split <;> rfl

theorem totalOut_markAfterEncode (s : St) (il ff : Bool) : (markAfterEncode s il ff).totalOut = s.totalOut := by
  unfold markAfterEncode; split
  · rfl
  · split <;> rfl

theorem totalOut_mdEnter (s : St) (n : Nat) : (mdEnter s n).totalOut = s.totalOut := by
  unfold mdEnter; split <;> rfl

theorem totalOut_ensureInitialized (s : St) : (ensureInitialized s).totalOut = s.totalOut := by
  unfold ensureInitialized; split <;> rfl

theorem totalOut_fastStorage (s : St) (ip : Bool) (n : Nat) : (fastStorage s ip n).totalOut = s.totalOut := by
  unfold fastStorage growStorage
  split
  · rfl
  · split <;> rfl

theorem fastEncode_inplace_fields (s1 : St) (io : Io) (ans : Ans) (req : Req) (bs : Nat) (il ff : Bool) :
    (fastEncode s1 io ans req bs true il ff).1.totalOut = (s1.totalOut + (wholeBytes (bitsOf s1.lastBytesBits s1.lastBytes ++ ans.bits)).length) % two64
    ∧ (fastEncode s1 io ans req bs true il ff).2.out = io.out ++ wholeBytes (bitsOf s1.lastBytesBits s1.lastBytes ++ ans.bits)
    ∧ (fastEncode s1 io ans req bs true il ff).2.availOut = io.availOut - (wholeBytes (bitsOf s1.lastBytesBits s1.lastBytes ++ ans.bits)).length
    ∧ (fastEncode s1 io ans req bs true il ff).2.availIn = io.availIn - bs
    ∧ (fastEncode s1 io ans req bs true il ff).2.input = io.input.drop bs := by
  simp [fastEncode]

theorem fastEncode_staged_fields (s1 : St) (io : Io) (ans : Ans) (req : Req) (bs : Nat) (il ff : Bool) :
    (fastEncode s1 io ans req bs false il ff).1.totalOut = s1.totalOut
    ∧ (fastEncode s1 io ans req bs false il ff).2.out = io.out
    ∧ (fastEncode s1 io ans req bs false il ff).2.availOut = io.availOut
    ∧ (fastEncode s1 io ans req bs false il ff).2.availIn = io.availIn - bs
    ∧ (fastEncode s1 io ans req bs false il ff).2.input = io.input.drop bs := by
  simp [fastEncode]

/-- the push of `inject_flush_or_push_output` on the ledger -/
theorem push_ledger {G : Prop} {input : Bytes} {cap T0 : Nat} {s s1 : St} {io io1 : Io} {b : Bool}
    (hL : Ledger G input cap T0 (s, io)) (h : injectFlushOrPushOutput s io = .ok (s1, io1, b)) :
    Ledger G input cap T0 (s1, io1) := by
  obtain ⟨_, _, _, _, _, _, _, fi, fa, _⟩ := push_frame h
  obtain ⟨a, b', c, d⟩ := hL
  have hio := (push_io h).1
  refine ⟨by show io1.out.length + io1.availOut = cap; rw [hio]; exact a,
          by show io1.availIn ≤ input.length; rw [fa]; exact b',
          by show io1.input = input.drop (input.length - io1.availIn); rw [fi, fa]; exact c, ?_⟩
  intro g
  show s1.totalOut = (T0 + io1.out.length) % two64
  have d' : s.totalOut = (T0 + io.out.length) % two64 := d g
  unfold injectFlushOrPushOutput at h
  split at h
  · split at h
    · rename_i s2 hp
      simp only [Out.ok.injEq, Prod.mk.injEq] at h
      obtain ⟨rfl, rfl, _⟩ := h
      rw [(pad_frame hp).2.2.2.2.2.2.2.1]; exact d'
    · simp at h
    · simp at h
  · simp only at h
    split_all h
    all_goals first
      | (simp at h; done)
      | (simp only [Out.ok.injEq, Prod.mk.injEq] at h; obtain ⟨rfl, rfl, _⟩ := h
         simp only [List.length_append, List.length_take]
         rw [d', add_mod_two64]
         congr 2
         omega)
      | (simp only [Out.ok.injEq, Prod.mk.injEq] at h; obtain ⟨rfl, rfl, _⟩ := h; exact d')

/-- **every atomic step keeps the ledger** -/
theorem step_ledger {o : Oracle} {op : Nat} {G : Prop} {input : Bytes} {cap T0 : Nat} (hlen : input.length < two64)
    (c : St × Io) (e : Ev) (c1 : St × Io) (hL : Ledger G input cap T0 c) (hs : Step o op c e c1) :
    Ledger G input cap T0 c1 := by
  cases hs with
  | init hf => exact hL.of_same (totalOut_ensureInitialized _) rfl rfl rfl rfl
  | copy hI hw hop hnf hst hrm hc hn h =>
    exact hL.consume _ (Nat.min_le_right _ _) (copy_fields hI.init h).2.2.2.2.2.2.2.2.2.2.2.2.2.1
  | pad hI hc hz h => exact hL.of_same (pad_frame h).2.2.2.2.2.2.2.1 rfl rfl rfl rfl
  | push hI hc h => exact push_ledger hL h
  | encSlow hI hop hnf hrm hnc hnp hpend hst hgo h =>
    refine hL.of_same ?_ rfl rfl rfl rfl
    rw [totalOut_markAfterEncode, (encodeData_frame h).2.2.1, totalOut_updateSizeHint]
  | cfc hI hop hrm hnp hfl => exact hL.of_same (checkFlushComplete_frame _).2.2.2.2.2.2.2.2.2.2.1 rfl rfl rfl rfl
  | fastFlush hI hfm hrm hnp hpend hst hop1 hz => exact hL.of_same rfl rfl rfl rfl rfl
  | @fastBlock s io hI hfm hop hrm hnp hpend hst hgo hnf hcap hin hfit =>
    obtain ⟨a, b, c', d⟩ := hL
    have a' : io.out.length + io.availOut = cap := a
    have b' : io.availIn ≤ input.length := b
    have c'' : io.input = input.drop (input.length - io.availIn) := c'
    have hbs : fastBs s io ≤ io.availIn := Nat.min_le_right _ _
    have hin' : (input.drop (input.length - io.availIn)).drop (fastBs s io) = input.drop (input.length - (io.availIn - fastBs s io)) := by
      rw [List.drop_drop]; congr 1; omega
    by_cases hip : fastInplace s io = true
    · have hlb : (fastS1 s io).lastBytesBits = s.lastBytesBits := by
        unfold fastS1 fastStorage; rw [hip]; rfl
      have htot : (fastS1 s io).totalOut = s.totalOut := totalOut_fastStorage _ _ _
      have hfit' : (s.lastBytesBits + (o s.nEnc (fastReq op s io)).bits.length) / 8 + 2 ≤ io.availOut := by
        have := hfit
        simp only [fastCap, hip, if_true] at this
        omega
      obtain ⟨g1, g2, g3, g4, g5⟩ := fastEncode_inplace_fields (fastS1 s io) io (o s.nEnc (fastReq op s io)) (fastReq op s io)
        (fastBs s io) (fastReq op s io).isLast (fastReq op s io).forceFlush
      generalize hob : wholeBytes (bitsOf (fastS1 s io).lastBytesBits (fastS1 s io).lastBytes ++ (o s.nEnc (fastReq op s io)).bits) = ob at g1 g2 g3
      have hwl : ob.length ≤ (s.lastBytesBits + (o s.nEnc (fastReq op s io)).bits.length) / 8 := by
        rw [← hob, ← hlb]
        have := wholeBytes_length (bitsOf (fastS1 s io).lastBytesBits (fastS1 s io).lastBytes ++ (o s.nEnc (fastReq op s io)).bits)
        simpa only [List.length_append, bitsOf_length] using this
      unfold fastRes
      rw [hip]
      refine ⟨?_, ?_, ?_, ?_⟩
      · simp only [g2, g3, List.length_append]
        omega
      · simp only [g4]
        omega
      · simp only [g5, g4]
        rw [c'']; exact hin'
      · intro g
        have d' : s.totalOut = (T0 + io.out.length) % two64 := d g
        simp only [g1, g2]
        rw [htot, d', add_mod_two64, List.length_append]
    · have hip' : fastInplace s io = false := by simpa using hip
      obtain ⟨g1, g2, g3, g4, g5⟩ := fastEncode_staged_fields (fastS1 s io) io (o s.nEnc (fastReq op s io)) (fastReq op s io)
        (fastBs s io) (fastReq op s io).isLast (fastReq op s io).forceFlush
      unfold fastRes
      rw [hip']
      exact Ledger.consume' (s := s) (io := io) ⟨a, b, c', d⟩ (fastBs s io) hbs (g1.trans (totalOut_fastStorage _ _ _)) g2 g3 g4 g5
  | mdEnter hI hop hentry =>
    refine hL.of_same ?_ rfl rfl rfl rfl
    rw [totalOut_mdEnter, totalOut_updateSizeHint]
  | mdEnc hM hop hpend hne h => exact hL.of_same (encodeData_frame h).2.2.1 rfl rfl rfl rfl
  | mdHead hM hop hpend hlf hst hok => exact hL.of_same rfl rfl rfl rfl rfl
  | mdDone hM hop hpend hlf hst hz => exact hL.of_same rfl rfl rfl rfl rfl
  | @mdOut s io n hM hop hpend hlf hst hnz hao hle =>
    have hilen := hL.inLen
    obtain ⟨a, b, c', d⟩ := hL
    have a' : io.out.length + io.availOut = cap := a
    have b' : io.availIn ≤ input.length := b
    have c'' : io.input = input.drop (input.length - io.availIn) := c'
    have hilen' : io.input.length = io.availIn := hilen
    have hn1 : mdOutN s io ≤ io.availOut := by
      unfold mdOutN
      exact Nat.le_trans (Nat.mod_le _ _) (Nat.min_le_right _ _)
    have hn2 : mdOutN s io ≤ io.availIn := by omega
    have hsub : (io.availIn + two64 - mdOutN s io) % two64 = io.availIn - mdOutN s io :=
      sub_mod_two64 hn2 (by omega)
    unfold mdOutSt mdOutIo
    refine ⟨?_, ?_, ?_, ?_⟩
    · show (io.out ++ io.input.take (mdOutN s io)).length + (io.availOut - mdOutN s io) = cap
      simp only [List.length_append, List.length_take]
      omega
    · show (io.availIn + two64 - mdOutN s io) % two64 ≤ input.length
      rw [hsub]; omega
    · show io.input.drop (mdOutN s io) = input.drop (input.length - (io.availIn + two64 - mdOutN s io) % two64)
      rw [hsub, c'', List.drop_drop]; congr 1; omega
    · intro g
      have d' : s.totalOut = (T0 + io.out.length) % two64 := d g
      show (s.totalOut + mdOutN s io) % two64 = (T0 + (io.out ++ io.input.take (mdOutN s io)).length) % two64
      rw [d', add_mod_two64]
      simp only [List.length_append, List.length_take]
      congr 2
      omega
  | @mdTiny s io n hM hop hpend hlf hst hnz hao hle =>
    have hilen := hL.inLen
    obtain ⟨a, b, c', d⟩ := hL
    have b' : io.availIn ≤ input.length := b
    have c'' : io.input = input.drop (input.length - io.availIn) := c'
    have hilen' : io.input.length = io.availIn := hilen
    have hn2 : mdTinyN s ≤ io.availIn := by omega
    have hsub : (io.availIn + two64 - mdTinyN s) % two64 = io.availIn - mdTinyN s :=
      sub_mod_two64 hn2 (by omega)
    unfold mdTinySt mdTinyIo
    refine ⟨a, ?_, ?_, d⟩
    · show (io.availIn + two64 - mdTinyN s) % two64 ≤ input.length
      rw [hsub]; omega
    · show io.input.drop (mdTinyN s) = input.drop (input.length - (io.availIn + two64 - mdTinyN s) % two64)
      rw [hsub, c'', List.drop_drop]; congr 1; omega

/-- **one `compress_stream` call keeps the ledger** — accepted or refused, any of the four
operations, from any state satisfying the invariant; `T0` is any number the total at entry is
congruent to (the bytes delivered so far).  In particular the output cursor is balanced
(`outBal`), the input cursor is the offered slice minus what the counter lost (`inLe`, `inEq`) and
`total_out_` grew by exactly the bytes stored at `next_out` (`total`, under its guard: `T0` is
congruent to the total at entry). -/
theorem call_ledger {o : Oracle} {fuel op cap : Nat} (T0 : Nat) {input : Bytes} {s s' : St} {io' : Io} {r : Bool}
    (hop : op ≤ 3) (hI : Inv s) (hw : s.inputPos + input.length < two64)
    (h : compressStream o fuel s op input cap = .ok (s', io', r)) :
    Ledger (s.totalOut = T0 % two64) input cap T0 (s', io') := by
  have h0 := ledger_start input cap T0 s
  cases r with
  | false =>
    obtain ⟨hs, hio⟩ := refused_unchanged hop hI hw h
    subst hio
    rcases hs with rfl | rfl
    · exact h0
    · exact h0.of_same (totalOut_updateSizeHint _ _) rfl rfl rfl rfl
  | true =>
    obtain ⟨evs, hevs⟩ := call_steps hop hI hw h
    exact Steps.induct (Ledger (s.totalOut = T0 % two64) input cap T0) (step_ledger (by omega)) hevs h0

/-- the same for a call on an encoder that may still be fresh -/
theorem call_ledger_run {o : Oracle} {fuel op cap : Nat} (T0 : Nat) {input : Bytes} {s s' : St} {io' : Io} {r : Bool}
    (hop : op ≤ 3) (hR : IsFresh s ∨ Inv s) (hw : s.inputPos + input.length < two64)
    (h : compressStream o fuel s op input cap = .ok (s', io', r)) :
    Ledger (s.totalOut = T0 % two64) input cap T0 (s', io') := by
  rcases hR with hf | hI
  · rw [compressStream_ensure] at h
    have hip : (ensureInitialized s).inputPos = 0 := by
      obtain ⟨p, rfl⟩ := hf
      simp [ensureInitialized, St.new]
    have := call_ledger T0 hop (inv_fresh hf).1 (by rw [hip]; omega) h
    rw [totalOut_ensureInitialized] at this
    exact this
  · exact call_ledger T0 hop hI hw h

/-- `take_output` advances `total_out_` by the bytes it hands out -/
theorem take_total {s s' : St} {size : Nat} {out : Bytes} (h : takeOutput s size = .ok (s', out)) :
    s'.totalOut = (s.totalOut + out.length) % two64 ∨ (out = [] ∧ s' = s) := by
  unfold takeOutput at h
  split at h
  · simp at h
  · split at h
    · simp only [Out.ok.injEq, Prod.mk.injEq] at h
      obtain ⟨rfl, rfl⟩ := h
      left
      rw [(checkFlushComplete_frame _).2.2.2.2.2.2.2.2.2.2.1]
      have hc : takeCount s size ≤ s.pending.length := by unfold takeCount; split <;> omega
      simp only [takeAdvance, List.length_take]
      congr 2
      omega
    · simp only [Out.ok.injEq, Prod.mk.injEq] at h
      obtain ⟨rfl, rfl⟩ := h
      exact Or.inr ⟨rfl, rfl⟩

theorem take_total' {T0 : Nat} {s s' : St} {size : Nat} {out : Bytes} (hT : s.totalOut = T0 % two64)
    (h : takeOutput s size = .ok (s', out)) : s'.totalOut = (T0 + out.length) % two64 := by
  rcases take_total h with h1 | ⟨rfl, rfl⟩
  · rw [h1, hT]; unfold two64; omega
  · simpa using hT

theorem setParameter_totalOut (s : St) (id v : Nat) : (setParameter s id v).1.totalOut = s.totalOut := by
  unfold setParameter
  split
  · rfl
  · split <;> rfl

/-- **`total_out_` along a whole history**: after any sequence of `set_parameter` /
`compress_stream` (all four operations, accepted or refused) / `take_output` calls, `total_out_`
is the number of bytes delivered — through `next_out` by the stream calls AND by pointer through
`take_output` — modulo 2^64 -/
theorem run_total {o : Oracle} {fuel : Nat} {calls : List Call} {s0 s : St} {t0 t : Trace} (hR : RunOK s0)
    (hops : HistOK calls) (hw : s0.inputPos + histLen calls < two64)
    (hT : s0.totalOut = t0.delivered.length % two64)
    (h : run o fuel calls s0 t0 = .ok (s, t)) : s.totalOut = t.delivered.length % two64 := by
  induction calls generalizing s0 t0 with
  | nil =>
    simp only [run, Out.ok.injEq, Prod.mk.injEq] at h
    obtain ⟨rfl, rfl⟩ := h
    exact hT
  | cons c cs ih =>
    simp only [run] at h
    split at h
    · rename_i s1 t1 hc
      have hcok : CallOK s0 c := by
        cases c with
        | stream op chunk cap =>
          simp only [histLen, Call.len] at hw
          exact ⟨hops.1, by omega⟩
        | setParam id v => trivial
        | take n => trivial
      obtain ⟨hip, l1, f1⟩ := runCall_facts hR hcok hc
      have hops' : HistOK cs := by
        cases c with
        | stream op chunk cap => exact hops.2
        | setParam id v => exact hops
        | take n => exact hops
      have hw' : s1.inputPos + histLen cs < two64 := by
        simp only [histLen] at hw
        omega
      refine ih f1.ok hops' hw' ?_ h
      cases c with
      | setParam id v =>
        simp only [runCall, Out.ok.injEq, Prod.mk.injEq] at hc
        obtain ⟨rfl, rfl⟩ := hc
        rw [setParameter_totalOut]; exact hT
      | stream op chunk cap =>
        simp only [runCall] at hc
        split at hc
        · rename_i s2 io2 r2 hcs
          simp only [Out.ok.injEq, Prod.mk.injEq] at hc
          obtain ⟨rfl, rfl⟩ := hc
          have := (call_ledger_run _ hcok.1 hR.inv hcok.2 hcs).total hT
          simp only [Trace.afterStream, List.length_append]
          exact this
        · simp at hc
        · simp at hc
      | take n =>
        simp only [runCall] at hc
        split at hc
        · rename_i s2 out2 hcs
          simp only [Out.ok.injEq, Prod.mk.injEq] at hc
          obtain ⟨rfl, rfl⟩ := hc
          simp only [List.length_append]
          exact take_total' hT hcs
        · simp at hc
        · simp at hc
    · simp at h
    · simp at h

end BV.Stream
