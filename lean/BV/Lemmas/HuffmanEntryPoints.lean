/-
C17: the two builders (`BuildAndStoreHuffmanTree`, `BrotliBuildAndStoreHuffmanTreeFast`) as the
meta-block writers call them -- zero `depth` / `bits` arrays, any number of symbols in use --
in one statement each.  Packaging of the case theorems of `HuffmanSimple`, `HuffmanFastStore`.
-/
import BV.Lemmas.HuffmanFastStore

namespace BV.Lemmas.HuffmanEntryPoints
open BV.Gen BV.Bits BV.Huffman BV.Lemmas.HuffmanCanon
open BV.Lemmas.HuffmanCreate BV.Lemmas.HuffmanEntry BV.Lemmas.HuffmanSimple
open BV.Lemmas.HuffmanFastStore

/-- a prefix of `d` that is followed by zeros, padded with zeros, is a longer prefix of `d` -/
theorem take_pad (d : List Nat) (l A : Nat) (hl : l ≤ A) (hA : A ≤ d.length)
    (hz : ∀ x, l ≤ x → x < A → d.getD x 0 = 0) :
    d.take l ++ List.replicate (A - l) 0 = d.take A := by
  apply ext_getD
  · simp only [List.length_append, List.length_take, List.length_replicate]; omega
  · intro x
    simp only [List.getD_eq_getElem?_getD, List.getElem?_append, List.length_take,
      List.getElem?_take, List.getElem?_replicate]
    have hz' := hz x
    simp only [List.getD_eq_getElem?_getD] at hz'
    by_cases h1 : x < l
    · have h2 : x < min l d.length := by omega
      have h3 : x < A := by omega
      simp [h1, h2, h3]
    · have h2 : ¬ x < min l d.length := by omega
      by_cases h3 : x < A
      · have h4 : x - min l d.length < A - l := by omega
        simp only [h2, h3, h4, ↓reduceIte]
        rw [hz' (by omega) h3]; rfl
      · have h4 : ¬ x - min l d.length < A - l := by omega
        simp [h2, h3, h4]

theorem take_take_pad (d : List Nat) (len A : Nat) (hA : A ≤ len) :
    (d.take len ++ List.replicate (A - len) 0).take A = d.take A := by
  have : A - len = 0 := by omega
  rw [this]
  simp only [List.replicate_zero, List.append_nil, List.take_take]
  rw [Nat.min_eq_left hA]

/-- zeros in front of zeros -/
theorem zeros_frame (len n : Nat) (h : len ≤ n) :
    List.replicate len 0 ++ (List.replicate n (0 : Nat)).drop len = List.replicate n 0 := by
  rw [List.drop_replicate, List.replicate_append_replicate]
  congr 1; omega

theorem headD_of_mem_single (L : List Nat) (s : Nat) (hL : L.length = 1) (hs : s ∈ L) :
    L.headD 0 = s := by
  match L, hL with
  | [a], _ => simp at hs; simp [hs]

/-- **`BuildAndStoreHuffmanTree` as called by the meta-block writers**, any histogram:
whatever it writes (`cb`) is, with two or more symbols in use, read back by the RFC 7932 §3.4/§3.5
reader to the depth vector it returns (simple forms NSYM = 2..4 and the complex form), and with
one or no symbol in use it is the NSYM = 1 description of that symbol (symbol 0 if none), whose
table entries stay zero -/
theorem build_and_store_roundtrip (histogram : List Nat) (len A n : Nat) (tree : List Node)
    (w rest : List Bool) (depth' bits' : List Nat) (w' : Writer)
    (hlen : len ≤ histogram.length) (h704 : len ≤ 704) (hsum : (histogram.take len).sum ≤ 2 ^ 25)
    (htl : 2 * len + 1 ≤ tree.length) (ht37 : 37 ≤ tree.length) (hn : len ≤ n)
    (hA1 : 1 ≤ A) (hA : A ≤ len)
    (hz : ∀ i, A ≤ i → i < len → histogram.getD i 0 = 0)
    (h : buildAndStoreHuffmanTree histogram len A tree (List.replicate n 0) (List.replicate n 0) w
      = .ok (depth', bits', w')) :
    ∃ cb, w' = w ++ cb ∧
      (2 ≤ ((histogram.take len).filter (· ≠ 0)).length →
        readPrefixCode A (cb ++ rest) = some (depth'.take A, rest) ∧
        GoodDepth histogram len 15 (List.replicate n 0) depth' ∧
        GoodBits len depth' (List.replicate n 0) bits') ∧
      (∀ s, s < len → histogram.getD s 0 ≠ 0 →
        ((histogram.take len).filter (· ≠ 0)).length = 1 →
          cb = bitsOf 4 1 ++ bitsOf (alphabetBits A) s ∧ depth' = List.replicate n 0 ∧
          bits' = List.replicate n 0) ∧
      (((histogram.take len).filter (· ≠ 0)).length = 0 →
          cb = bitsOf 4 1 ++ bitsOf (alphabetBits A) 0 ∧ depth' = List.replicate n 0 ∧
          bits' = List.replicate n 0) := by
  rw [← ascNZ_length_filter histogram len hlen]
  have hu : ∀ s ∈ ascNZ histogram len 0, s < A := by
    intro s hs
    obtain ⟨_, h2, h3⟩ := (mem_ascNZ histogram len 0 s).mp hs
    by_cases hsa : s < A
    · exact hsa
    · exact absurd (hz s (by omega) (by omega)) h3
  have hset : ∀ s, (List.replicate n (0 : Nat)).set s 0 = List.replicate n 0 := by
    intro s
    apply ext_getD
    · simp
    · intro x
      by_cases hs : s < n
      · rw [getD_set _ _ _ _ (by simpa using hs)]; split
        · rw [replicate_getD]
        · rfl
      · rw [List.set_eq_of_length_le (by simp; omega)]
  by_cases hc1 : (ascNZ histogram len 0).length ≤ 1
  · -- NSYM = 1
    have hh : (ascNZ histogram len 0).headD 0 < A := by
      match hL : ascNZ histogram len 0 with
      | [] => exact hA1
      | a :: _ => exact hu a (by rw [hL]; simp)
    obtain ⟨sbits, hsb, hb, hrd0⟩ := build_single_roundtrip histogram len A tree (List.replicate n 0)
      (List.replicate n 0) w rest hlen hc1 hh hA1 (by omega)
      (by rw [List.length_replicate]; omega) (by rw [List.length_replicate]; omega)
    rw [hb, hset] at h
    injection h with h; injection h with h1 h2; injection h2 with h2 h3
    refine ⟨sbits, h3.symm, fun h2' => by omega, ?_, ?_⟩
    · intro s hs hnz h1'
      have := headD_of_mem_single _ s h1' ((mem_ascNZ histogram len 0 s).mpr ⟨by omega, by omega, hnz⟩)
      rw [this] at hsb
      exact ⟨hsb, h1.symm, h2.symm⟩
    · intro h0
      have : ascNZ histogram len 0 = [] := List.eq_nil_of_length_eq_zero h0
      rw [this] at hsb
      exact ⟨hsb, h1.symm, h2.symm⟩
  · by_cases hc4 : (ascNZ histogram len 0).length ≤ 4
    · obtain ⟨d1, b1, sbits, hb, hg, hgb, hrd⟩ := build_simple_roundtrip histogram len A tree
        (List.replicate n 0) (List.replicate n 0) w rest hlen h704 hsum ⟨by omega, hc4⟩ htl
        (by simp; omega) (by simp; omega) hu (by omega)
      rw [hb] at h
      injection h with h; injection h with h1 h2; injection h2 with h2 h3
      subst h1 h2
      rw [zeros_frame len n hn] at hg
      rw [take_take_pad _ _ _ hA] at hrd
      exact ⟨sbits, h3.symm, fun _ => ⟨hrd, hg, hgb⟩, fun _ _ _ h1' => by omega, fun h0 => by omega⟩
    · obtain ⟨d1, b1, sbits, hb, hg, hgb, hrd⟩ := build_complex_roundtrip histogram len A tree
        (List.replicate n 0) (List.replicate n 0) w rest A hlen h704 hsum (by omega) htl ht37
        (by simp; omega) (by simp; omega) hA hu
      rw [hb] at h
      injection h with h; injection h with h1 h2; injection h2 with h2 h3
      subst h1 h2
      rw [zeros_frame len n hn] at hg
      exact ⟨sbits, h3.symm, fun _ => ⟨hrd, hg, hgb⟩, fun _ _ _ h1' => by omega, fun h0 => by omega⟩

/-! ### the fast builder -/

theorem sum_zero_getD : ∀ (l : List Nat), l.sum = 0 → ∀ i, l.getD i 0 = 0
  | [], _, i => by simp
  | x :: xs, h, i => by
    simp only [List.sum_cons] at h
    cases i with
    | zero => simp; omega
    | succ i => simpa using sum_zero_getD xs (by omega) i

/-- when `total` is the sum of the histogram, the scan stops after the last used symbol -/
theorem fastScan_covers (histogram : List Nat) : ∀ (hs : List Nat) (total len0 count : Nat)
    (symbols : List Nat) (c' len' : Nat) (s' : List Nat), hs = histogram.drop len0 →
    total = hs.sum → hs.sum < u64 →
    fastScan hs total len0 count symbols = .ok (c', s', len') →
    ∀ i, len' ≤ i → histogram.getD i 0 = 0 := by
  intro hs
  induction hs with
  | nil =>
    intro total len0 count symbols c' len' s' hd _ _ h i hi
    simp only [fastScan] at h
    split at h
    · injection h with h; injection h with h1 h2; injection h2 with h2 h3
      subst h3
      have : histogram.length ≤ len0 := by
        have := congrArg List.length hd
        simp at this; omega
      rw [List.getD_eq_getElem?_getD, List.getElem?_eq_none (by omega)]; rfl
    · cases h
  | cons x xs ih =>
    intro total len0 count symbols c' len' s' hd ht hlt h i hi
    have hl0 : len0 < histogram.length := by
      have := congrArg List.length hd
      simp at this; omega
    have hxs : xs = histogram.drop (len0 + 1) := by
      have := congrArg List.tail hd
      simpa using this
    have hx : histogram.getD len0 0 = x := by
      have := congrArg (fun l => l.getD 0 0) hd
      simp only [List.getD_cons_zero] at this
      rw [this, List.getD_eq_getElem?_getD, List.getD_eq_getElem?_getD, List.getElem?_drop]
      rfl
    simp only [List.sum_cons] at ht hlt
    simp only [fastScan] at h
    split at h
    · rename_i ht0
      injection h with h; injection h with h1 h2; injection h2 with h2 h3
      subst h3
      have hall := sum_zero_getD (x :: xs) (by simp only [List.sum_cons]; omega) (i - len0)
      rw [hd, List.getD_eq_getElem?_getD, List.getElem?_drop] at hall
      rw [List.getD_eq_getElem?_getD, ← hall]
      congr 2; omega
    · split at h
      · have e : (total + u64 - x) % u64 = xs.sum := by
          have e' : total + u64 - x = xs.sum + u64 := by omega
          rw [e', Nat.add_mod_right, Nat.mod_eq_of_lt (by omega)]
        exact ih ((total + u64 - x) % u64) (len0 + 1) (count + 1) _ c' len' s' hxs e
          (by omega) h i hi
      · rename_i hx0
        have : x = 0 := by simpa using hx0
        exact ih total (len0 + 1) count symbols c' len' s' hxs (by omega) (by omega) h i hi

/-- **`BrotliBuildAndStoreHuffmanTreeFast` as called by the meta-block writers**
(`total` = the sum of the histogram, `max_bits` = the width of the alphabet), any histogram -/
theorem fast_build_and_store_roundtrip (histogram : List Nat) (A n : Nat)
    (w rest : List Bool) (depth' bits' : List Nat) (w' : Writer)
    (h704 : histogram.length ≤ 704) (hsum : histogram.sum ≤ 2 ^ 25)
    (hA1 : 1 ≤ A) (hAn : A ≤ n) (hA : A ≤ 65536)
    (hz : ∀ i, A ≤ i → histogram.getD i 0 = 0)
    (h : buildAndStoreHuffmanTreeFast histogram histogram.sum (alphabetBits A)
      (List.replicate n 0) (List.replicate n 0) w = .ok (depth', bits', w')) :
    ∃ cb count symbols length, w' = w ++ cb ∧
      fastScan histogram histogram.sum 0 0 [0, 0, 0, 0] = .ok (count, symbols, length) ∧
      count = (histogram.filter (· ≠ 0)).length ∧ length ≤ A ∧
      (2 ≤ count →
        readPrefixCode A (cb ++ rest) = some (depth'.take A, rest) ∧
        GoodDepth histogram length 14 (List.replicate n 0) depth' ∧
        GoodBits length depth' (List.replicate n 0) bits') ∧
      (∀ s, histogram.getD s 0 ≠ 0 → count = 1 →
          cb = bitsOf 4 1 ++ bitsOf (alphabetBits A) s ∧ depth' = List.replicate n 0 ∧
          bits' = List.replicate n 0) ∧
      (count = 0 →
          cb = bitsOf 4 1 ++ bitsOf (alphabetBits A) 0 ∧ depth' = List.replicate n 0 ∧
          bits' = List.replicate n 0) := by
  have e2 : (2:Nat) ^ 25 = 33554432 := by decide
  match hscan : fastScan histogram histogram.sum 0 0 [0, 0, 0, 0] with
  | .panic => unfold buildAndStoreHuffmanTreeFast at h; rw [hscan] at h; cases h
  | .fuel => unfold buildAndStoreHuffmanTreeFast at h; rw [hscan] at h; cases h
  | .ok (count, symbols, length) =>
    obtain ⟨_, hlh, hcnt, hsym⟩ := fastScan_full histogram histogram histogram.sum 0 0 [0, 0, 0, 0]
      count length symbols rfl hscan
    simp only [Nat.sub_zero, Nat.zero_add, Nat.zero_le, Nat.max_eq_right] at hlh hcnt hsym
    have hcov := fastScan_covers histogram histogram histogram.sum 0 0 [0, 0, 0, 0] count length
      symbols rfl rfl (by unfold u64; omega) hscan
    have hlast := fastScan_last histogram histogram histogram.sum 0 0 [0, 0, 0, 0] count length
      symbols rfl (fun _ => Or.inl rfl) hscan
    have hlA : length ≤ A := by
      rcases hlast with h0 | h0
      · omega
      · by_cases hc : length ≤ A
        · exact hc
        · exact absurd (hz (length - 1) (by omega)) h0
    have hu : ∀ s ∈ ascNZ histogram length 0, s < A := by
      intro s hs
      obtain ⟨_, h2, _⟩ := (mem_ascNZ histogram length 0 s).mp hs
      omega
    have hfilter : count = (histogram.filter (· ≠ 0)).length := by
      rw [hcnt, ascNZ_length_filter histogram length hlh]
      have : histogram.filter (· ≠ 0) = (histogram.take length).filter (· ≠ 0) := by
        conv => lhs; rw [← List.take_append_drop length histogram]
        rw [List.filter_append]
        have : (histogram.drop length).filter (· ≠ 0) = [] := by
          rw [List.filter_eq_nil_iff]
          intro a ha
          obtain ⟨i, hi, hai⟩ := List.getElem_of_mem ha
          have := hcov (length + i) (by omega)
          rw [List.getD_eq_getElem?_getD] at this
          rw [List.getElem_drop] at hai
          rw [List.getElem?_eq_getElem (by simp at hi; omega)] at this
          simp only [Option.getD_some] at this
          simp [← hai, this]
        rw [this, List.append_nil]
      rw [this]
    have hset : ∀ s, (List.replicate n (0 : Nat)).set s 0 = List.replicate n 0 := by
      intro s
      apply ext_getD
      · simp
      · intro x
        by_cases hs : s < n
        · rw [getD_set _ _ _ _ (by simpa using hs)]; split
          · rw [replicate_getD]
          · rfl
        · rw [List.set_eq_of_length_le (by simp; omega)]
    have hpad : ∀ d1 : List Nat, GoodDepth histogram length 14 (List.replicate n 0) d1 →
        d1.take length ++ List.replicate (A - length) 0 = d1.take A := by
      intro d1 hg
      apply take_pad d1 length A hlA (by rw [hg.hlen]; simpa using hAn)
      intro x hx1 hx2
      have := hg.hframe x hx1
      rw [List.getD_eq_getElem?_getD, this, ← List.getD_eq_getElem?_getD, replicate_getD]
    have hsc : fastScan histogram histogram.sum 0 0 [0, 0, 0, 0] = .ok (count, symbols, length) := hscan
    by_cases hc1 : count ≤ 1
    · have hsym' := hsym (by omega)
      have hs0 : symbols.getD 0 0 = (ascNZ histogram length 0).headD 0 := by
        rw [hsym']
        match hL : ascNZ histogram length 0, (show (ascNZ histogram length 0).length ≤ 1 by omega) with
        | [], _ => rfl
        | [a], _ => rfl
        | _ :: _ :: _, hn' => simp at hn'
      have hh : symbols.getD 0 0 < A := by
        rw [hs0]
        match hL : ascNZ histogram length 0 with
        | [] => exact hA1
        | a :: _ => exact hu a (by rw [hL]; simp)
      obtain ⟨sbits, hsb, hb, hrd0⟩ := fast_single_roundtrip histogram histogram.sum A
        (List.replicate n 0) (List.replicate n 0) w rest count length symbols hscan hc1 hh hA1 hA
        (by rw [List.length_replicate]; omega) (by rw [List.length_replicate]; omega)
      rw [hb, hset] at h
      injection h with h; injection h with h1 h2; injection h2 with h2 h3
      refine ⟨sbits, count, symbols, length, h3.symm, (by first | rfl | exact hsc), hfilter, hlA, fun h2' => by omega, ?_, ?_⟩
      · intro s hnz h1'
        have hsl : s < length := by
          by_cases hsl : s < length
          · exact hsl
          · exact absurd (hcov s (by omega)) hnz
        have := headD_of_mem_single (ascNZ histogram length 0) s (by omega)
          ((mem_ascNZ histogram length 0 s).mpr ⟨by omega, by omega, hnz⟩)
        rw [hs0, this] at hsb
        exact ⟨hsb, h1.symm, h2.symm⟩
      · intro h0
        have : ascNZ histogram length 0 = [] := List.eq_nil_of_length_eq_zero (by omega)
        rw [hs0, this] at hsb
        exact ⟨hsb, h1.symm, h2.symm⟩
    · by_cases hc4 : count ≤ 4
      · obtain ⟨d1, b1, sbits, hb, hg, hgb, hrd⟩ := fast_simple_roundtrip histogram histogram.sum A
          (List.replicate n 0) (List.replicate n 0) w rest count length symbols hscan
          ⟨by omega, hc4⟩ h704 hsum (by simp; omega) (by simp; omega) hu hA
        rw [hb] at h
        injection h with h; injection h with h1 h2; injection h2 with h2 h3
        subst h1 h2
        rw [zeros_frame length n (by omega)] at hg
        rw [hpad _ hg, List.take_take, Nat.min_self] at hrd
        exact ⟨sbits, count, symbols, length, h3.symm, (by first | rfl | exact hsc), hfilter, hlA,
          fun _ => ⟨hrd, hg, hgb⟩, fun _ _ h1' => by omega, fun h0 => by omega⟩
      · obtain ⟨d1, b1, sbits, hb, hg, hgb, hrd⟩ := fast_complex_roundtrip histogram histogram.sum
          (alphabetBits A) A (List.replicate n 0) (List.replicate n 0) w rest count length symbols
          hscan (by omega) h704 hsum (by simp; omega) (by simp; omega) hlA
        rw [hb] at h
        injection h with h; injection h with h1 h2; injection h2 with h2 h3
        subst h1 h2
        rw [zeros_frame length n (by omega)] at hg
        rw [hpad _ hg] at hrd
        exact ⟨sbits, count, symbols, length, h3.symm, (by first | rfl | exact hsc), hfilter, hlA,
          fun _ => ⟨hrd, hg, hgb⟩, fun _ _ h1' => by omega, fun h0 => by omega⟩

end BV.Lemmas.HuffmanEntryPoints
