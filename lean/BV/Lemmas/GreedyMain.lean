/-
C01 / greedy builder, part 11: `BrotliBuildMetaBlockGreedy` as a whole — no panic, and the `MetaBlockSplit` it returns
satisfies `MBOK` and the three `Covers` hypotheses of `full_metablock_roundtrip`.
-/
import BV.Lemmas.GreedyCmap
import BV.Lemmas.GreedyLens

namespace BV.Greedy
open BV.Gen BV.Bits BV.Recoder BV.MetaBlock

def sumIns (cmds : List Cmd) : Nat := (cmds.map (fun c => c.insertLen)).sum

theorem litCtxs_mem (mode : Nat) : ∀ (l : List Nat) (out : Bytes), (∀ b ∈ out, b < 256) → (∀ b ∈ l, b < 256) →
    ∀ p ∈ litCtxs mode out l, p.2 < 256 ∧ p.1 < 64
  | [], _, _, _, p, hp => by simp [litCtxs] at hp
  | b :: bs, out, ho, hl, p, hp => by
    simp only [litCtxs, List.mem_cons] at hp
    rcases hp with e | e
    · subst e
      exact ⟨hl b List.mem_cons_self, (contextOf_eq (lastB out) (last2B out) mode (lastB_lt out ho) (last2B_lt out ho)).2⟩
    · refine litCtxs_mem mode bs (out ++ [b]) ?_ (fun x hx => hl x (List.mem_cons_of_mem _ hx)) p e
      intro x hx
      rcases List.mem_append.mp hx with h | h
      · exact ho x h
      · simp only [List.mem_singleton] at h; rw [h]; exact hl b List.mem_cons_self

theorem litCtxs_length (mode : Nat) : ∀ (l : List Nat) (out : Bytes), (litCtxs mode out l).length = l.length
  | [], _ => rfl
  | b :: bs, out => by simp [litCtxs, litCtxs_length mode bs]

theorem litSymsOf_mem (mode : Nat) (hist mb : Bytes) (hh : ∀ b ∈ hist, b < 256) (hm : ∀ b ∈ mb, b < 256) :
    ∀ (cmds : List Cmd) (k : Nat), ∀ p ∈ litSymsOf mode hist mb k cmds, p.2 < 256 ∧ p.1 < 64
  | [], _, p, hp => by simp [litSymsOf] at hp
  | c :: cs, k, p, hp => by
    simp only [litSymsOf, List.mem_append] at hp
    rcases hp with e | e
    · refine litCtxs_mem mode _ _ ?_ ?_ p e
      · intro b hb
        rcases List.mem_append.mp hb with h | h
        · exact hh b h
        · exact hm b (List.mem_of_mem_take h)
      · intro b hb
        exact hm b (List.mem_of_mem_drop (List.mem_of_mem_take hb))
    · exact litSymsOf_mem mode hist mb hh hm cs _ p e

theorem litSymsOf_length (mode : Nat) (hist mb : Bytes) : ∀ (cmds : List Cmd) (k : Nat),
    (litSymsOf mode hist mb k cmds).length ≤ sumIns cmds
  | [], _ => by simp [litSymsOf, sumIns]
  | c :: cs, k => by
    have := litSymsOf_length mode hist mb cs (k + c.insertLen + copyLen c)
    simp only [litSymsOf, List.length_append, litCtxs_length, List.length_take, sumIns, List.map_cons, List.sum_cons] at this ⊢
    omega

theorem book_sum (n : Nat) : ∀ (cmds : List Cmd) (k : Nat), k ≤ n → Book n k cmds → k + sumIns cmds ≤ n
  | [], _, h, _ => by simpa [sumIns] using h
  | c :: cs, k, _, hb => by
    have := book_sum n cs _ hb.1 hb.2
    simp only [sumIns, List.map_cons, List.sum_cons] at this ⊢
    omega

theorem fold_sum : ∀ (cmds : List Cmd) (a : Nat), a + sumIns cmds < two64 →
    cmds.foldl (fun n c => (n + c.insertLen) % two64) a = a + sumIns cmds
  | [], a, _ => by simp [sumIns]
  | c :: cs, a, h => by
    simp only [sumIns, List.map_cons, List.sum_cons] at h
    rw [List.foldl_cons, Nat.mod_eq_of_lt (by omega), fold_sum cs _ (by simp only [sumIns]; omega)]
    simp only [sumIns, List.map_cons, List.sum_cons]
    omega

/-- the static context map handed to the builder: `num_contexts = 1` (none), or 2..13 contexts with a 64-entry map
into them (the three maps of `encode.rs` have 2, 3 and 13 contexts) -/
def StaticOK (nc : Nat) (scm : List Nat) : Prop :=
  nc = 1 ∨ (2 ≤ nc ∧ nc ≤ 13 ∧ 64 ≤ scm.length ∧ ∀ x ∈ scm, x < nc)

theorem dyn_init {F : Type} (s : BS F) (h1 : s.blockSize = 0) (h2 : s.targetBlockSize = s.minBlockSize)
    (h3 : 1 ≤ s.minBlockSize) (h4 : s.histosSize = s.slots.length) : Dyn s [] [] :=
  ⟨h1, by omega, by omega, by simp [doneCount]; omega, h4⟩

/-- exact histogram shapes and totals `≤ 2^24` (sharper than `HistosOK`; what `BrotliOptimizeHistograms` needs) -/
structure HSharp (mbs : MBSplit) : Prop where
  l : ∀ i, i < mbs.litHistosSize → (mbs.litHistos.getD i []).length = 256 ∧ (mbs.litHistos.getD i []).sum ≤ 2 ^ 24
  c : ∀ i, i < mbs.cmdHistosSize → (mbs.cmdHistos.getD i []).length = 704 ∧ (mbs.cmdHistos.getD i []).sum ≤ 2 ^ 24
  d : ∀ i, i < mbs.distHistosSize → (mbs.distHistos.getD i []).length = 544 ∧ (mbs.distHistos.getD i []).sum ≤ 2 ^ 24

/-- the block lengths: every block records at least `min_block_size` (512 literals / 1024 commands / 512 distances)
symbols, and the lengths of a category sum to its symbol count plus a padding of at most `min_block_size` -/
structure HLens (mbs : MBSplit) (nL nC nD : Nat) : Prop where
  l : nL ≤ mbs.lit.lengths.sum ∧ mbs.lit.lengths.sum ≤ nL + 512 ∧ ∀ x ∈ mbs.lit.lengths, 512 ≤ x
  c : nC ≤ mbs.cmd.lengths.sum ∧ mbs.cmd.lengths.sum ≤ nC + 1024 ∧ ∀ x ∈ mbs.cmd.lengths, 1024 ≤ x
  d : nD ≤ mbs.dist.lengths.sum ∧ mbs.dist.lengths.sum ≤ nD + 512 ∧ ∀ x ∈ mbs.dist.lengths, 512 ≤ x

/-- **the greedy builder is total and its result is well formed** -/
theorem buildGreedy_ok' {F : Type} (ops : FOps F) (hirr : OracleOK ops) (ring : Bytes) (start mask prevByte prevByte2 mode nc : Nat)
    (scm : List Nat) (cmds : List Cmd) (mb hist : Bytes) (A np nd : Nat)
    (hR : RingHolds ring mask start mb) (h256 : ∀ b ∈ mb, b < 256) (hh256 : ∀ b ∈ hist, b < 256)
    (h64 : start + mb.length < two64) (hprev : prevByte = lastB hist ∧ prevByte2 = last2B hist) (hmode : mode < 4)
    (hst : StaticOK nc scm) (hA : A ≤ 544)
    (hok : ∀ c ∈ cmds, cmdOK A np nd c = true) (hcl2 : ∀ c ∈ cmds, copyLen c ≠ 0 → 2 ≤ copyLen c)
    (hbook : Book mb.length 0 cmds) (hsz1 : mb.length + 512 ≤ 2 ^ 24) (hsz2 : cmds.length + 1024 ≤ 2 ^ 24) :
    ∃ mbs, buildGreedy ops ring start mask prevByte prevByte2 mode nc scm cmds = .ok mbs ∧ MBOK mbs A ∧
      Covers mbs.litHistos (effMap mbs.litCmap mbs.litCmapSize mbs.lit.numTypes 64) 64
        (remTypes mbs.lit 0 (mbs.lit.lengths.getD 0 0)) (litSymsOf mode hist mb 0 cmds) ∧
      Covers mbs.cmdHistos (trivialMap mbs.cmd.numTypes 1) 1
        (remTypes mbs.cmd 0 (mbs.cmd.lengths.getD 0 0)) (cmds.map fun c => (0, c.cmdPrefix)) ∧
      Covers mbs.distHistos (effMap mbs.distCmap mbs.distCmapSize mbs.dist.numTypes 4) 4
        (remTypes mbs.dist 0 (mbs.dist.lengths.getD 0 0)) (distSymsOf cmds) ∧ HSharp mbs ∧
      HLens mbs (litSymsOf mode hist mb 0 cmds).length cmds.length (distSymsOf cmds).length := by
  -- sizes
  have hsum := book_sum mb.length cmds 0 (Nat.zero_le _) hbook
  rw [Nat.zero_add] at hsum
  have hNL : cmds.foldl (fun n c => (n + c.insertLen) % two64) 0 = sumIns cmds := by
    rw [fold_sum cmds 0 (by unfold two64; omega), Nat.zero_add]
  -- the variant of the literal splitter
  obtain ⟨plain, hplain⟩ : ∃ plain : Bool, plain = decide (nc = 1) := ⟨_, rfl⟩
  obtain ⟨scm', hscm'⟩ : ∃ scm' : List Nat, scm' = if plain then [] else scm := ⟨_, rfl⟩
  have hnc1 : 1 ≤ nc := by rcases hst with h | h <;> omega
  have hnc13 : nc ≤ 13 := by rcases hst with h | h <;> omega
  have hpn : plain = true → nc = 1 := by intro h; rw [hplain] at h; simpa using h
  have hnp : plain = false → 2 ≤ nc ∧ 64 ≤ scm.length ∧ (∀ x ∈ scm, x < nc) ∧ scm' = scm := by
    intro h
    rw [hplain] at h
    have hne : nc ≠ 1 := by simpa using h
    rcases hst with h1 | h1
    · exact absurd h1 hne
    · refine ⟨h1.1, h1.2.2.1, h1.2.2.2, ?_⟩
      rw [hscm', hplain, decide_eq_false hne]; rfl
  -- the three splitters
  obtain ⟨l0, il1, il2, il3, il4, il5, il6, il7, il8, il9, il10⟩ := initBS_inv ops plain nc 256 256 512 ops.thrLit (sumIns cmds) 256
    hnc1 hnc13 hpn (by decide) (Nat.le_refl _) (Nat.le_refl _) (by omega)
  obtain ⟨c0, ic1, ic2, ic3, ic4, ic5, ic6, ic7, ic8, ic9, ic10⟩ := initBS_inv ops true 1 704 704 1024 ops.thrCmd cmds.length 704
    (Nat.le_refl _) (by decide) (fun _ => rfl) (by decide) (Nat.le_refl _) (Nat.le_refl _) (by omega)
  obtain ⟨d0, id1, id2, id3, id4, id5, id6, id7, id8, id9, id10⟩ := initBS_inv ops true 1 544 64 512 ops.thrDist cmds.length A
    (Nat.le_refl _) (by decide) (fun _ => rfl) (by decide) (by decide) hA (by omega)
  -- the three symbol streams
  have hLs : ∀ p ∈ (litSymsOf mode hist mb 0 cmds).map (phi plain scm'), p.1 < nc ∧ p.2 < 256 := by
    intro p hp
    obtain ⟨q, hq, rfl⟩ := List.mem_map.mp hp
    have hq' := litSymsOf_mem mode hist mb hh256 h256 cmds 0 q hq
    refine ⟨?_, hq'.1⟩
    show gOf plain scm' q.1 < nc
    unfold gOf
    cases hpl : plain with
    | true => simp only [if_true]; omega
    | false =>
      obtain ⟨h2, h64', hv, hs⟩ := hnp hpl
      simp only [Bool.false_eq_true, if_false]
      rw [hs]
      by_cases hin : q.1 < scm.length
      · exact hv _ (getD_mem' scm q.1 0 hin)
      · rw [getD_of_le scm q.1 0 (by omega)]; omega
  obtain ⟨l1, lS, lrb, lslack, lf1, lf2, lf3, lf4, lf5, lf6, lf7, lf8⟩ := splitter_result ops hirr l0 il2
    (dyn_init l0 il3 (by rw [il4, il5]) (by rw [il5]; decide) il10) _ hLs
    (by rw [List.length_map]; exact litSymsOf_length mode hist mb cmds 0)
  have hCs : ∀ p ∈ cmds.map (fun c => ((0 : Nat), c.cmdPrefix)), p.1 < 1 ∧ p.2 < 704 := by
    intro p hp
    obtain ⟨c, hc, rfl⟩ := List.mem_map.mp hp
    obtain ⟨_, _, _, _, _, _, h704, _⟩ := cmd_facts A np nd c (hok c hc)
    exact ⟨Nat.zero_lt_one, h704⟩
  obtain ⟨c1, cS, crb, cslack, cf1, cf2, cf3, cf4, cf5, cf6, cf7, cf8⟩ := splitter_result ops hirr c0 ic2
    (dyn_init c0 ic3 (by rw [ic4, ic5]) (by rw [ic5]; decide) ic10) _ hCs (by rw [List.length_map]; exact Nat.le_refl _)
  have hDs : ∀ p ∈ (distSymsOf cmds).map (fun p => ((0 : Nat), p.2)), p.1 < 1 ∧ p.2 < A := by
    intro p hp
    obtain ⟨q, hq, rfl⟩ := List.mem_map.mp hp
    unfold distSymsOf at hq
    obtain ⟨c, hc, rfl⟩ := List.mem_map.mp hq
    have hk := hok c (List.mem_filter.mp hc).1
    simp only [cmdOK, Bool.and_eq_true, decide_eq_true_eq] at hk
    exact ⟨Nat.zero_lt_one, hk.1.1.2⟩
  obtain ⟨d1, dS, drb, dslack, df1, df2, df3, df4, df5, df6, df7, df8⟩ := splitter_result ops hirr d0 id2
    (dyn_init d0 id3 (by rw [id4, id5]) (by rw [id5]; decide) id10) _ hDs
    (by rw [List.length_map]; unfold distSymsOf; rw [List.length_map]; exact List.length_filter_le _ _)
  -- the command loop
  have hE : GEnv.OK ⟨ring, mask, start, mb, hist, mode, scm', plain⟩ :=
    ⟨hR, h256, hh256, hmode, fun h => by have := hnp h; dsimp only at *; rw [this.2.2.2]; exact this.2.1, h64⟩
  obtain ⟨st', g1, g2, g3, g4⟩ := greedyCmds_sim ops ⟨ring, mask, start, mb, hist, mode, scm', plain⟩ hE cmds 0
    ⟨start, prevByte, prevByte2, l0, c0, d0⟩ l1 c1 d1 hbook hcl2
    (by dsimp only; rw [posOf_zero _ (by omega)]) (by simpa using hprev.1) (by simpa using hprev.2) lf1 cf1 df1
  -- the context map
  have hcmap : ∃ cmap, (if nc > 1 then mapStaticContexts nc lS.numTypes scm' else Out.ok []) = .ok cmap ∧
      ((nc = 1 ∧ cmap = []) ∨ (plain = false ∧ cmap = cmapOf nc scm lS.numTypes)) := by
    by_cases h1 : nc = 1
    · exact ⟨[], by rw [if_neg (by omega)], Or.inl ⟨h1, rfl⟩⟩
    · have hpl : plain = false := by rw [hplain]; exact decide_eq_false h1
      obtain ⟨h2, h64', hv, hs⟩ := hnp hpl
      rw [if_pos (by omega), hs, mapStaticContexts_spec nc lS.numTypes scm h64' (Nat.le_trans lf3.ntMax lf3.mbt) hnc13 hv]
      exact ⟨_, rfl, Or.inr ⟨hpl, rfl⟩⟩
  obtain ⟨cmap, hc1, hc2⟩ := hcmap
  refine ⟨{ lit := lS.toSplit, cmd := cS.toSplit, dist := dS.toSplit, litCmap := cmap, litCmapSize := cmap.length,
            distCmap := [], distCmapSize := 0, litHistos := lS.flat, litHistosSize := lS.histosSize * nc,
            cmdHistos := cS.flat, cmdHistosSize := cS.histosSize, distHistos := dS.flat,
            distHistosSize := dS.histosSize }, ?_, ?_, ?_, ?_, ?_, ?_, ?_⟩
  · unfold buildGreedy
    simp only [hNL, ← hplain, ← hscm']
    rw [il1, Out.bind_ok, ic1, Out.bind_ok, id1, Out.bind_ok, g1, Out.bind_ok, g2, lf2, Out.bind_ok, g3, cf2, Out.bind_ok,
      g4, df2, Out.bind_ok, hc1, Out.bind_ok]
  · -- `MBOK`
    have hlK : lS.histosSize * nc = lS.numTypes * nc := by rw [lf6]
    refine ⟨toSplit_ok lf3 lf4 lf7, toSplit_ok cf3 cf4 cf7, toSplit_ok df3 df4 df7, ?_, ?_, ?_, ?_, ?_, ?_, ?_, ?_⟩
    · show HistosOK lS.flat (lS.histosSize * nc) 256 256
      rw [hlK]; exact histos_ok lf3 lf4
    · show HistosOK cS.flat cS.histosSize 704 704
      have := histos_ok cf3 cf4
      rw [Nat.mul_one] at this; rw [cf6]; exact this
    · show HistosOK dS.flat dS.histosSize A A
      have := histos_ok df3 df4
      rw [Nat.mul_one] at this
      rw [df6]
      exact ⟨this.sz, this.sz1, this.sz256, fun i hi => ⟨Nat.le_trans hA (this.each i hi).1, (this.each i hi).2⟩⟩
    · exact cf6
    · intro _
      show lS.histosSize * nc = lS.numTypes
      rcases hc2 with ⟨h1, _⟩ | ⟨hpl, hcm⟩
      · rw [h1, Nat.mul_one]; exact lf6
      · rename_i hz
        have : cmap.length = 0 := hz
        rw [hcm, cmapOf_length] at this
        have := lf3.ntPos lf4
        omega
    · intro hz
      rcases hc2 with ⟨_, hcm⟩ | ⟨hpl, hcm⟩
      · exact absurd (by rw [hcm]; rfl) hz
      · refine ⟨?_, rfl, ?_⟩
        · show cmap.length = 64 * lS.numTypes
          rw [hcm, cmapOf_length, Nat.mul_comm]
        · intro x hx
          show x < lS.histosSize * nc
          rw [hlK]
          rw [hcm] at hx
          unfold cmapOf at hx
          simp only [List.mem_flatMap, List.mem_range, List.mem_map] at hx
          obtain ⟨i, hi, j, hj, rfl⟩ := hx
          have hv := (hnp hpl).2.2.1 _ (getD_mem' scm j 0 (by have := (hnp hpl).2.1; omega))
          have : (i + 1) * nc ≤ lS.numTypes * nc := Nat.mul_le_mul_right _ hi
          rw [Nat.add_mul, Nat.one_mul] at this
          omega
    · intro _; exact df6
    · intro hz; exact absurd rfl hz
  · -- literals
    have hK : plain = true → nc = 1 := hpn
    apply covers_result lf3 lf4 lf7 _ 64 (gOf plain scm') _ lf5
    · intro t c ht hc
      rcases hc2 with ⟨h1, hcm⟩ | ⟨hpl, hcm⟩
      · have hpl : plain = true := by rw [hplain, h1]; rfl
        show (effMap cmap cmap.length lS.numTypes 64).getD (t * 64 + c) 0 = _
        unfold effMap
        rw [if_pos (by rw [hcm]; rfl), trivialMap_get _ _ _ _ ht hc, h1]
        simp [gOf, hpl]
      · show (effMap cmap cmap.length lS.numTypes 64).getD (t * 64 + c) 0 = _
        unfold effMap
        have hne : cmap.length ≠ 0 := by
          rw [hcm, cmapOf_length]; have := lf3.ntPos lf4; omega
        rw [if_neg hne, hcm, cmapOf_get _ _ _ _ _ ht hc]
        simp [gOf, hpl, (hnp hpl).2.2.2]
    · intro p hp
      exact (litSymsOf_mem mode hist mb hh256 h256 cmds 0 p hp).2
  · -- commands
    apply covers_result cf3 cf4 cf7 _ 1 (fun _ => 0) (cmds.map fun c => (0, c.cmdPrefix)) (by rw [cf5, List.map_map]; rfl)
    · intro t c ht hc
      show (trivialMap cS.numTypes 1).getD (t * 1 + c) 0 = t * 1 + 0
      rw [trivialMap_get _ _ _ _ ht hc]; omega
    · intro p hp
      obtain ⟨c, _, rfl⟩ := List.mem_map.mp hp
      exact Nat.lt_succ_self 0
  · -- distances
    apply covers_result df3 df4 df7 _ 4 (fun _ => 0) _ df5
    · intro t c ht hc
      show (effMap [] 0 dS.numTypes 4).getD (t * 4 + c) 0 = _
      unfold effMap
      rw [if_pos rfl, trivialMap_get _ _ _ _ ht hc]; omega
    · intro p hp
      unfold distSymsOf at hp
      obtain ⟨c, _, rfl⟩ := List.mem_map.mp hp
      exact distanceContext_lt c
  · -- sharper histogram facts
    refine ⟨fun i hi => ?_, fun i hi => ?_, fun i hi => ?_⟩
    · have := histos_exact lf3 i (by rw [← lf6]; exact hi)
      exact ⟨this.1, Nat.le_trans this.2 (by omega)⟩
    · have := histos_exact cf3 i (by rw [Nat.mul_one, ← cf6]; exact hi)
      exact ⟨this.1, Nat.le_trans this.2 (by omega)⟩
    · have := histos_exact df3 i (by rw [Nat.mul_one, ← df6]; exact hi)
      exact ⟨this.1, Nat.le_trans this.2 (by omega)⟩
  · -- block lengths
    obtain ⟨x1, x2, x3⟩ := toSplit_lengths lf3 lf4 lf7
    obtain ⟨y1, y2, y3⟩ := toSplit_lengths cf3 cf4 cf7
    obtain ⟨z1, z2, z3⟩ := toSplit_lengths df3 df4 df7
    rw [lf5, List.length_map] at x1
    rw [lf8, il5] at x2 x3
    rw [cf5, List.length_map] at y1
    rw [cf8, ic5] at y2 y3
    rw [df5, List.length_map] at z1
    rw [df8, id5] at z2 z3
    exact ⟨⟨by show _ ≤ lS.toSplit.lengths.sum; omega, by show lS.toSplit.lengths.sum ≤ _; omega, x3⟩,
      ⟨by show _ ≤ cS.toSplit.lengths.sum; omega, by show cS.toSplit.lengths.sum ≤ _; omega, y3⟩,
      ⟨by show _ ≤ dS.toSplit.lengths.sum; omega, by show dS.toSplit.lengths.sum ≤ _; omega, z3⟩⟩

theorem buildGreedy_ok {F : Type} (ops : FOps F) (hirr : OracleOK ops) (ring : Bytes) (start mask prevByte prevByte2 mode nc : Nat)
    (scm : List Nat) (cmds : List Cmd) (mb hist : Bytes) (A np nd : Nat)
    (hR : RingHolds ring mask start mb) (h256 : ∀ b ∈ mb, b < 256) (hh256 : ∀ b ∈ hist, b < 256)
    (h64 : start + mb.length < two64) (hprev : prevByte = lastB hist ∧ prevByte2 = last2B hist) (hmode : mode < 4)
    (hst : StaticOK nc scm) (hA : A ≤ 544)
    (hok : ∀ c ∈ cmds, cmdOK A np nd c = true) (hcl2 : ∀ c ∈ cmds, copyLen c ≠ 0 → 2 ≤ copyLen c)
    (hbook : Book mb.length 0 cmds) (hsz1 : mb.length + 512 ≤ 2 ^ 24) (hsz2 : cmds.length + 1024 ≤ 2 ^ 24) :
    ∃ mbs, buildGreedy ops ring start mask prevByte prevByte2 mode nc scm cmds = .ok mbs ∧ MBOK mbs A ∧
      Covers mbs.litHistos (effMap mbs.litCmap mbs.litCmapSize mbs.lit.numTypes 64) 64
        (remTypes mbs.lit 0 (mbs.lit.lengths.getD 0 0)) (litSymsOf mode hist mb 0 cmds) ∧
      Covers mbs.cmdHistos (trivialMap mbs.cmd.numTypes 1) 1
        (remTypes mbs.cmd 0 (mbs.cmd.lengths.getD 0 0)) (cmds.map fun c => (0, c.cmdPrefix)) ∧
      Covers mbs.distHistos (effMap mbs.distCmap mbs.distCmapSize mbs.dist.numTypes 4) 4
        (remTypes mbs.dist 0 (mbs.dist.lengths.getD 0 0)) (distSymsOf cmds) := by
  obtain ⟨mbs, a1, a2, a3, a4, a5, _⟩ := buildGreedy_ok' ops hirr ring start mask prevByte prevByte2 mode nc scm cmds mb hist A np nd
    hR h256 hh256 h64 hprev hmode hst hA hok hcl2 hbook hsz1 hsz2
  exact ⟨mbs, a1, a2, a3, a4, a5⟩

end BV.Greedy
